(** C13 — every non-DEAD member is probed within two rounds, whatever the shuffles.

    [probes ms ord idx shufs] is the sequence of probe targets chosen by successive probe
    ticks ([_next_probe_target]), the k-th tick using the k-th element of [shufs] as the result
    of [random.shuffle] if it reshuffles.  The set of non-DEAD members is fixed ([ms] is used
    only through [not_dead]); ALIVE/SUSPECT changes in between do not matter. *)
From HS Require Import Base.Prelude C13.Model C13.NodeProofs C13.NetProofs.
Local Open Scope Z_scope.

Fixpoint probes (ms : list member) (ord : list Z) (idx : Z) (shufs : list (list Z)) : list Z :=
  match shufs with
  | [] => []
  | s :: r =>
    match next_probe_target ms ord idx s with
    | (Some t, ord', idx') => t :: probes ms ord' idx' r
    | (None, _, _) => []
    end
  end.

Lemma skipn_nth (l : list Z) : forall i, (i < length l)%nat -> skipn i l = nth i l (-1) :: skipn (S i) l.
Proof.
  induction l as [|x r IH]; intros i Hi; cbn in Hi; [lia|].
  destruct i; [reflexivity|]. cbn [skipn nth]. apply IH. lia.
Qed.

Lemma npt_in_round ms ord idx shuf :
  0 <= idx < zlen (filter (not_dead ms) ord) ->
  next_probe_target ms ord idx shuf =
  (Some (nth (Z.to_nat idx) (filter (not_dead ms) ord) (-1)), ord, idx + 1).
Proof.
  intros H. unfold next_probe_target. destruct (filter (not_dead ms) ord) as [|a0 ar] eqn:EA.
  - unfold zlen in H; cbn in H; lia.
  - assert (zlen (a0 :: ar) <=? idx = false) as -> by lia.
    rewrite Z.mod_small by lia. reflexivity.
Qed.

Lemma npt_reshuffle ms ord idx s0 sr :
  0 < zlen (filter (not_dead ms) ord) <= idx ->
  next_probe_target ms ord idx (s0 :: sr) = (Some s0, s0 :: sr, 1).
Proof.
  intros H. unfold next_probe_target. destruct (filter (not_dead ms) ord) as [|a0 ar] eqn:EA.
  - unfold zlen in H; cbn in H; lia.
  - assert (zlen (a0 :: ar) <=? idx = true) as -> by lia.
    rewrite Z.mod_0_l by (unfold zlen; cbn [length]; lia). reflexivity.
Qed.

(** within a round: the next [k] ticks probe the next [k] members of the current order *)
Lemma probes_round ms ord : forall pre rest idx,
  0 <= idx -> idx + zlen pre <= zlen (filter (not_dead ms) ord) ->
  probes ms ord idx (pre ++ rest) =
  firstn (length pre) (skipn (Z.to_nat idx) (filter (not_dead ms) ord))
  ++ probes ms ord (idx + zlen pre) rest.
Proof.
  induction pre as [|s pre IH]; intros rest idx H0 Hk.
  - cbn. unfold zlen; cbn. now rewrite Z.add_0_r.
  - cbn [app probes length]. unfold zlen in Hk; cbn [length] in Hk.
    rewrite npt_in_round by (unfold zlen; lia).
    rewrite IH by (unfold zlen in *; lia).
    rewrite (skipn_nth _ (Z.to_nat idx)) by (unfold zlen in *; lia).
    cbn [firstn app]. f_equal. f_equal.
    + f_equal. f_equal. lia.
    + f_equal. unfold zlen; cbn [length]. lia.
Qed.

Lemma filter_all_true (f : Z -> bool) l : (forall x, In x l -> f x = true) -> filter f l = l.
Proof.
  induction l as [|x r IH]; intros H; cbn; [reflexivity|].
  rewrite (H x (or_introl eq_refl)). f_equal. apply IH. intros y Hy; apply H; now right.
Qed.

Lemma count_app y : forall l1 l2, count_occ_z y (l1 ++ l2) = (count_occ_z y l1 + count_occ_z y l2)%nat.
Proof. induction l1; intros; cbn; [reflexivity|]. rewrite IHl1. lia. Qed.

(** a shuffle result accepted by [is_perm] contains every element of the shuffled list *)
Lemma is_perm_in_rev : forall s alive T, is_perm s alive = true -> In T alive -> In T s.
Proof.
  induction s as [|x r IH]; intros alive T Hs HT.
  - apply is_perm_length in Hs. destruct alive; [destruct HT|discriminate].
  - destruct (Z.eq_dec x T) as [->|Hne]; [now left|right].
    pose proof (is_perm_length _ _ Hs) as HL.
    unfold is_perm in Hs. apply andb_true_iff in Hs as [_ Hc].
    cbn [forallb] in Hc. apply andb_true_iff in Hc as [Hx Hc].
    assert (Hxa : In x alive).
    { apply count_pos_in. apply Nat.eqb_eq in Hx. rewrite <- Hx. cbn. rewrite Z.eqb_refl. lia. }
    destruct (in_split _ _ Hxa) as (a1 & a2 & ->).
    apply (IH (a1 ++ a2)).
    + unfold is_perm. apply andb_true_iff. split.
      * rewrite app_length in *. cbn [length] in *. apply Nat.eqb_eq. lia.
      * apply forallb_forall. intros y Hy. rewrite forallb_forall in Hc. specialize (Hc y Hy).
        apply Nat.eqb_eq in Hc. apply Nat.eqb_eq. rewrite count_app in *. cbn in Hc.
        destruct (y =? x); lia.
    + apply in_app_or in HT as [HT|[HT|HT]]; [apply in_or_app; now left|congruence|apply in_or_app; now right].
Qed.

(** a reshuffle starts a round that probes the whole shuffled list *)
Lemma probes_reshuffle ms ord idx s post :
  0 < zlen (filter (not_dead ms) ord) <= idx ->
  is_perm s (filter (not_dead ms) ord) = true ->
  (length s - 1 <= length post)%nat ->
  exists tail, probes ms ord idx (s :: post) = s ++ tail.
Proof.
  intros Hi Hs Hpost. pose proof (is_perm_length _ _ Hs) as HL.
  destruct s as [|s0 sr] eqn:ES; [unfold zlen in Hi; cbn in HL; lia|].
  cbn [probes]. rewrite npt_reshuffle by exact Hi. rewrite <- ES in *.
  assert (Hfs : filter (not_dead ms) s = s).
  { apply filter_all_true. intros x Hx. pose proof (is_perm_in _ _ _ Hs Hx) as Hx'.
    apply filter_In in Hx'. tauto. }
  rewrite <- (firstn_skipn (length s - 1) post).
  assert (Hfl : length (firstn (length s - 1) post) = (length s - 1)%nat) by (rewrite firstn_length; lia).
  rewrite probes_round; [|lia|rewrite Hfs; unfold zlen; rewrite Hfl, ES; cbn [length]; lia].
  rewrite Hfs, Hfl.
  assert (E1 : firstn (length s - 1) (skipn (Z.to_nat 1) s) = sr).
  { rewrite ES. change (Z.to_nat 1) with 1%nat. cbn [skipn length Nat.sub].
    rewrite Nat.sub_0_r. apply firstn_all. }
  rewrite E1. eexists. rewrite ES. cbn [app]. reflexivity.
Qed.

(** [T] is not DEAD and in the probe order: it is among the next [2 m] probe targets
    ([m] = number of non-DEAD members in the order), for all shuffles. *)
Lemma probed_within_two_rounds ms ord idx shufs T :
  0 <= idx -> In T (filter (not_dead ms) ord) ->
  Forall (fun s => is_perm s (filter (not_dead ms) ord) = true) shufs ->
  (2 * length (filter (not_dead ms) ord) <= length shufs)%nat ->
  In T (firstn (2 * length (filter (not_dead ms) ord)) (probes ms ord idx shufs)).
Proof.
  remember (filter (not_dead ms) ord) as alive eqn:Halive.
  intros H0 HT Hperm Hlen.
  remember (length alive) as m eqn:Hm.
  assert (Hmpos : (0 < m)%nat) by (destruct alive; [destruct HT|cbn in Hm; lia]).
  remember (m - Z.to_nat idx)%nat as k eqn:Hk.
  remember (firstn k shufs) as pre eqn:Epre. remember (skipn k shufs) as rest eqn:Erest.
  assert (Hpre : length pre = k) by (subst pre; rewrite firstn_length; lia).
  assert (Hrest : (m <= length rest)%nat) by (subst rest; rewrite skipn_length; lia).
  assert (Esh : shufs = pre ++ rest) by (subst pre rest; now rewrite firstn_skipn).
  destruct rest as [|s post]; [cbn in Hrest; lia|].
  assert (Hs : is_perm s alive = true).
  { rewrite Forall_forall in Hperm. apply Hperm. rewrite Esh. apply in_or_app; right; now left. }
  pose proof (is_perm_length _ _ Hs) as HLs.
  assert (Eseq : exists tail, probes ms ord idx shufs = skipn (Z.to_nat idx) alive ++ s ++ tail).
  { rewrite Esh.
    destruct (Z_le_gt_dec idx (Z.of_nat m)) as [Hle|Hgt].
    - rewrite probes_round; [|lia|rewrite <- Halive; unfold zlen; lia].
      rewrite <- Halive, Hpre.
      rewrite firstn_all2 by (rewrite skipn_length; lia).
      destruct (probes_reshuffle ms ord (idx + zlen pre) s post) as [tail Ht].
      + rewrite <- Halive. unfold zlen. lia.
      + rewrite <- Halive. exact Hs.
      + cbn [length] in Hrest. lia.
      + rewrite Ht. exists tail. reflexivity.
    - assert (pre = []) as -> by (destruct pre; [reflexivity|cbn in Hpre; lia]).
      rewrite skipn_all2 by lia. cbn [app].
      apply probes_reshuffle.
      + rewrite <- Halive. unfold zlen. lia.
      + rewrite <- Halive. exact Hs.
      + cbn [length] in Hrest. lia. }
  destruct Eseq as [tail ->].
  pose proof (is_perm_in_rev _ _ _ Hs HT) as HTs.
  rewrite firstn_app. apply in_or_app.
  destruct (in_dec Z.eq_dec T (skipn (Z.to_nat idx) alive)) as [Hin|Hnin].
  - left. rewrite firstn_all2; [exact Hin|]. rewrite skipn_length. lia.
  - right. rewrite skipn_length. rewrite firstn_app. apply in_or_app. left.
    rewrite firstn_all2; [exact HTs|]. lia.
Qed.
