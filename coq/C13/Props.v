(** C13 — membership: no false deaths on a healthy network, real failures are detected.
    Only statements; every proof is in NodeProofs.v / PhiProofs.v / NetProofs.v. *)
From HS Require Import Base.Prelude C13.Model C13.PhiModel C13.Net C13.NetCheck C13.NodeProofs C13.PhiProofs
  C13.NetProofs C13.NetCheckProofs C13.ProbeOrder C13.NetCrash C13.NetCrashCheck C13.Examples.
From Coq Require Import QArith.
Local Open Scope Z_scope.

(** A member reported DEAD is not reported ALIVE again without a higher incarnation:
    any node, any state, any sequence of handler inputs (forged updates included). *)
Theorem c13_dead_needs_higher_incarnation :
  forall c st tr T m1 m2,
    find_member T (members st) = Some m1 -> m_state m1 = Dead ->
    find_member T (members (run c st tr)) = Some m2 -> m_state m2 = Alive ->
    m_inc m1 < m_inc m2.
Proof. exact dead_needs_higher_incarnation. Qed.
Print Assumptions c13_dead_needs_higher_incarnation.

Theorem c13_incarnation_monotone :
  forall c st tr T m1, find_member T (members st) = Some m1 ->
    exists m2, find_member T (members (run c st tr)) = Some m2 /\ m_inc m1 <= m_inc m2.
Proof. exact incarnation_monotone. Qed.
Print Assumptions c13_incarnation_monotone.

(** Detection, node level: when the direct probe of T times out, T is not reported ALIVE ... *)
Theorem c13_timeout_suspects :
  forall c now st T shuf old,
    is_member T (members st) = true -> packs_get T (packs st) = Some old ->
    exists m', find_member T (members (fst (step c now st (IIndirect (Some T) shuf)))) = Some m'
               /\ m_state m' <> Alive.
Proof. exact timeout_suspects. Qed.
Print Assumptions c13_timeout_suspects.

(** ... and as long as nothing from T is handled (it stopped for good) and nobody announces
    it alive, it is never reported ALIVE again. *)
Theorem c13_silent_stays_non_alive :
  forall T c tr st m,
    Forall (fun x => silent T (snd x)) tr ->
    find_member T (members st) = Some m -> m_state m <> Alive ->
    exists m', find_member T (members (run c st tr)) = Some m' /\ m_state m' <> Alive.
Proof. exact silent_stays_non_alive. Qed.
Print Assumptions c13_silent_stays_non_alive.

(** The suspicion level never decreases while no heartbeat arrives (erfc antitone, log10
    monotone on positives: properties of the mathematical functions, hypotheses here). *)
Theorem c13_phi_monotone :
  forall (erfc log10 sqrt : Q -> Q) (sqrt2 : Q),
    (forall x y, (x <= y)%Q -> (erfc y <= erfc x)%Q) ->
    (forall x y, (0 < x)%Q -> (x <= y)%Q -> (log10 x <= log10 y)%Q) ->
    (0 < sqrt2)%Q ->
    forall d t1 t2,
      (0 < d_min_std d)%Q -> (forall l, d_last d = Some l -> (l <= t1)%Q) -> (t1 <= t2)%Q ->
      ext_le (phi erfc log10 sqrt sqrt2 d t1) (phi erfc log10 sqrt sqrt2 d t2).
Proof. exact phi_monotone. Qed.
Print Assumptions c13_phi_monotone.

Theorem c13_unavailable_stays :
  forall (erfc log10 sqrt : Q -> Q) (sqrt2 : Q),
    (forall x y, (x <= y)%Q -> (erfc y <= erfc x)%Q) ->
    (forall x y, (0 < x)%Q -> (x <= y)%Q -> (log10 x <= log10 y)%Q) ->
    (0 < sqrt2)%Q ->
    forall thr d t1 t2,
      (0 < d_min_std d)%Q -> (forall l, d_last d = Some l -> (l <= t1)%Q) -> (t1 <= t2)%Q ->
      is_available erfc log10 sqrt sqrt2 thr d t1 = false ->
      is_available erfc log10 sqrt sqrt2 thr d t2 = false.
Proof. exact unavailable_stays. Qed.
Print Assumptions c13_unavailable_stays.

(** Accuracy.  In a cluster whose network delivers every message within [d] with [2 d] below
    the ack timeout ([cfg_ok]), started as start() leaves it ([init_ok]: nobody DEAD, symmetric
    membership, only probe ticks scheduled), along every schedule of [Net.wstep] — every
    interleaving of same-time events, every per-message delay in [0, d], every shuffle, every
    phi decision — no member is ever marked DEAD, no "dead" update is queued or in flight and
    no suspicion timeout is ever scheduled. *)
Theorem c13_no_false_dead_healthy :
  forall (cfgs : Z -> cfg) (d : Z), cfg_ok cfgs d ->
  forall w0 w : world, init_ok w0 -> reach cfgs d w0 w ->
    (forall n m, In m (members (nodes w n)) -> m_state m <> Dead) /\
    (forall n u, In u (pend (nodes w n)) -> u_kind u <> 1) /\
    (forall e, In e (pool w) ->
       match p_kind e with
       | PSusp _ => False
       | PPing _ us | PAck _ us => forall u, In u us -> u_kind u <> 1
       | _ => True
       end).
Proof. exact no_false_dead. Qed.
Print Assumptions c13_no_false_dead_healthy.

(** ... in particular from the start configuration of an n-member full mesh, for every n,
    every probe interval and every initial probe order. *)
Theorem c13_no_false_dead_mesh :
  forall (cfgs : Z -> cfg) (d : Z), cfg_ok cfgs d ->
  forall (n probe : Z) (ord : Z -> list Z) (w : world),
    reach cfgs d (mesh_world n probe ord) w ->
    forall i m, In m (members (nodes w i)) -> m_state m <> Dead.
Proof. exact no_false_dead_mesh. Qed.
Print Assumptions c13_no_false_dead_mesh.

(** the hypotheses are satisfiable: probe interval 1 s, ack timeout 0.5 s, delays up to 0.2 s *)
Example cfg_ok_satisfiable :
  cfg_ok (fun i => mkCfg i 1000000000 500000000 5000000000 3 true) 200000000.
Proof. exact cfg_ok_satisfiable_holds. Qed.

(** Tie of the cluster relation to the implementation: a recorded run of a real cluster (the
    handler calls of all nodes in engine order with the observed message delays) that the
    checker [ok_world] accepts is a path of [Net.wstep] from the mesh start configuration. *)
Theorem c13_recorded_run_is_path :
  forall cl d n probe ords gs,
    ok_world (cl, d, n, probe, ords, gs) = true ->
    exists w, reach (fun i => nth (Z.to_nat i) cl (mkCfg i 0 0 0 0 true)) d
                    (mesh_world n probe (fun i => nth (Z.to_nat i) ords [])) w
              /\ wcheck (fun i => nth (Z.to_nat i) cl (mkCfg i 0 0 0 0 true)) d
                        (mesh_world n probe (fun i => nth (Z.to_nat i) ords [])) gs = Some w.
Proof. exact ok_world_sound. Qed.
Print Assumptions c13_recorded_run_is_path.

(** Detection, probe order: whatever the shuffles, a member that is not DEAD in a node's view
    is the probe target of one of that node's next 2 m probe ticks (m = number of non-DEAD
    members in its probe order) — so a stopped member's ack timeout (c13_timeout_suspects)
    is reached within two rounds. *)
Theorem c13_probed_within_two_rounds :
  forall ms ord idx shufs T,
    0 <= idx -> In T (filter (not_dead ms) ord) ->
    Forall (fun s => is_perm s (filter (not_dead ms) ord) = true) shufs ->
    (2 * length (filter (not_dead ms) ord) <= length shufs)%nat ->
    In T (firstn (2 * length (filter (not_dead ms) ord)) (probes ms ord idx shufs)).
Proof. exact probed_within_two_rounds. Qed.
Print Assumptions c13_probed_within_two_rounds.

(** the hypotheses are satisfiable, and the bound 2 m - 1 is reached: T = 1 was just probed,
    the reshuffle puts it last *)
Example probed_example :
  let ms := members (init_state [1; 2; 3] [1; 2; 3]) in
  probes ms [1; 2; 3] 1 [[]; []; [3; 2; 1]; []; []] = [2; 3; 3; 2; 1].
Proof. exact probed_example_holds. Qed.

(** Detection through phi: at a probe tick, an ALIVE member for which [is_available] is false
    (or that was never heard of while the threshold is not positive) is SUSPECT afterwards. *)
Theorem c13_tick_phi_suspects :
  forall c now st avail shuf T m,
    find_member T (members st) = Some m -> m_state m = Alive ->
    available c m (avail_at (members st) avail T) = false ->
    find_member T (members (fst (step c now st (ITick avail shuf)))) = Some (set_state Suspect m).
Proof. exact tick_phi_suspects. Qed.
Print Assumptions c13_tick_phi_suspects.

(** Accuracy with stopping members.  Members may stop for good at arbitrary moments
    ([cs_crash], any set, any timing); every message is still delivered within [d] (to a
    stopped member it is dropped).  In every reachable configuration, whoever is DEAD in
    anybody's view has stopped: no member ever marks a live member DEAD.  The same for "dead"
    updates (queued or in flight) and for suspicion timeouts. *)
Theorem c13_only_stopped_members_dead :
  forall (cfgs : Z -> cfg) (d : Z), cfg_ok cfgs d ->
  forall (w0 w : world) (cr : list Z), init_ok w0 -> creach cfgs d w0 (w, cr) ->
    (forall n m, In m (members (nodes w n)) -> m_state m = Dead -> In (m_name m) cr) /\
    (forall n u, In u (pend (nodes w n)) -> u_kind u = 1 -> In (u_member u) cr) /\
    (forall e, In e (pool w) ->
       match p_kind e with
       | PSusp t => In t cr
       | PPing _ us | PAck _ us => forall u, In u us -> u_kind u = 1 -> In (u_member u) cr
       | _ => True
       end).
Proof. exact only_stopped_members_dead. Qed.
Print Assumptions c13_only_stopped_members_dead.

(** ... and the tie of that relation to runs in which the harness stops a member. *)
Theorem c13_recorded_crash_run_is_path :
  forall cl d n probe ords gs,
    ok_cworld (cl, d, n, probe, ords, gs) = true ->
    exists c, creach (fun i => nth (Z.to_nat i) cl (mkCfg i 0 0 0 0 true)) d
                     (mesh_world n probe (fun i => nth (Z.to_nat i) ords [])) c
              /\ ccheck (fun i => nth (Z.to_nat i) cl (mkCfg i 0 0 0 0 true)) d
                        (mesh_world n probe (fun i => nth (Z.to_nat i) ords []), []) gs = Some c.
Proof. exact ok_cworld_sound. Qed.
Print Assumptions c13_recorded_crash_run_is_path.

(** the hypotheses of the node-level detection theorems are satisfiable: probe 1, no ack,
    ack timeout => SUSPECT, suspicion timeout => DEAD, a late ping from 1 does not revive it *)
Example detection_example :
  let c := mkCfg 0 1000000000 500000000 5000000000 3 true in
  let s0 := init_state [1; 2] [1; 2] in
  let s1 := fst (step c 1000000000 s0 (ITick [true; true] [])) in
  let s2 := fst (step c 1500000000 s1 (IIndirect (Some 1) [2])) in
  let s3 := fst (step c 6500000000 s2 (ISusp (Some 1))) in
  let s4 := fst (step c 7000000000 s3 (IPing (Some 1) [])) in
  (is_member 1 (members s1), packs_get 1 (packs s1),
   option_map m_state (find_member 1 (members s2)),
   option_map m_state (find_member 1 (members s3)),
   option_map m_state (find_member 1 (members s4)))
  = (true, Some 0, Some Suspect, Some Dead, Some Dead).
Proof. exact detection_example_holds. Qed.

(** phi at two arbitrary instants (also before the last heartbeat): never decreasing and never
    negative, using additionally erfc <= 2 and log10 1 <= 0. *)
Theorem c13_phi_monotone_all :
  forall (erfc log10 sqrt : Q -> Q) (sqrt2 : Q),
    (forall x y, (x <= y)%Q -> (erfc y <= erfc x)%Q) ->
    (forall x y, (0 < x)%Q -> (x <= y)%Q -> (log10 x <= log10 y)%Q) ->
    (0 < sqrt2)%Q ->
    forall d t1 t2,
      (forall x, (erfc x <= 2)%Q) -> (log10 1 <= 0)%Q ->
      (0 < d_min_std d)%Q -> (t1 <= t2)%Q ->
      ext_le (phi erfc log10 sqrt sqrt2 d t1) (phi erfc log10 sqrt sqrt2 d t2).
Proof. exact phi_monotone_all. Qed.
Print Assumptions c13_phi_monotone_all.
