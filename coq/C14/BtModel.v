(** C14 — executable model of happysimulator/components/storage/btree.py.

    Nodes are mutable objects that a suspended [get] keeps a reference to, so
    the model is a heap [id -> node]; [_insert]/[_split_child]/[_delete]/
    [_scan_node] are transcribed statement by statement (recursion bounded by
    fuel = depth + 1).  [bisect_left]/[bisect_right] on the (always sorted) key
    lists are "number of keys < k" / "number of keys <= k" as prefix lengths.
    No proofs here. *)
From HS Require Import Base.Prelude.
Local Open Scope Z_scope.

Record bnode := mkNode { b_leaf : bool; b_keys : list Z; b_vals : list Z; b_kids : list Z }.

Record btree := mkBt {
  heap : list (Z * bnode); root : Z; depth : Z; total : Z; nxt : Z; order : Z }.

Definition empty_node := mkNode true [] [] [].

Definition bt_init (ord : Z) : btree :=
  {| heap := [(0, empty_node)]; root := 0; depth := 1; total := 0; nxt := 1; order := ord |}.

Fixpoint hget (id : Z) (h : list (Z * bnode)) : bnode :=
  match h with [] => empty_node | (i, n) :: r => if i =? id then n else hget id r end.
Fixpoint hset (id : Z) (n : bnode) (h : list (Z * bnode)) : list (Z * bnode) :=
  match h with [] => [(id, n)] | (i, x) :: r => if i =? id then (i, n) :: r else (i, x) :: hset id n r end.

Fixpoint bisect_left (ks : list Z) (k : Z) : nat :=
  match ks with [] => O | x :: r => if x <? k then S (bisect_left r k) else O end.
Fixpoint bisect_right (ks : list Z) (k : Z) : nat :=
  match ks with [] => O | x :: r => if x <=? k then S (bisect_right r k) else O end.

Definition insert_at {A} (i : nat) (x : A) (l : list A) : list A := firstn i l ++ x :: skipn i l.
Definition remove_at {A} (i : nat) (l : list A) : list A := firstn i l ++ skipn (S i) l.
Definition set_at {A} (i : nat) (x : A) (l : list A) : list A := firstn i l ++ x :: skipn (S i) l.
Definition zlen {A} (l : list A) : Z := Z.of_nat (length l).

Definition with_heap (t : btree) (h : list (Z * bnode)) : btree :=
  mkBt h (root t) (depth t) (total t) (nxt t) (order t).

(** BTree._split_child(parent, child_idx) *)
Definition split_child (t : btree) (pid : Z) (idx : nat) : btree :=
  let p := hget pid (heap t) in
  let cid := nth idx (b_kids p) (-1) in
  let c := hget cid (heap t) in
  let mid := Nat.div (length (b_keys c)) 2 in
  let nid := nxt t in
  let '(c', n', sep) :=
    if b_leaf c then
      (mkNode true (firstn mid (b_keys c)) (firstn mid (b_vals c)) (b_kids c),
       mkNode true (skipn mid (b_keys c)) (skipn mid (b_vals c)) [],
       nth mid (b_keys c) 0)
    else
      (mkNode false (firstn mid (b_keys c)) (b_vals c) (firstn (S mid) (b_kids c)),
       mkNode false (skipn (S mid) (b_keys c)) [] (skipn (S mid) (b_kids c)),
       nth mid (b_keys c) 0) in
  let p' := mkNode (b_leaf p) (insert_at idx sep (b_keys p)) (b_vals p) (insert_at (S idx) nid (b_kids p)) in
  let h1 := hset cid c' (heap t) in
  let h2 := hset nid n' h1 in
  let h3 := hset pid p' h2 in
  mkBt h3 (root t) (depth t) (total t) (nxt t + 1) (order t).

(** BTree._insert_non_full *)
Fixpoint insert_non_full (fuel : nat) (t : btree) (nid k v : Z) : btree :=
  match fuel with
  | O => t
  | S f =>
      let n := hget nid (heap t) in
      if b_leaf n then
        let idx := bisect_left (b_keys n) k in
        if (Nat.ltb idx (length (b_keys n))) && (nth idx (b_keys n) 0 =? k) then
          with_heap t (hset nid (mkNode true (b_keys n) (set_at idx v (b_vals n)) (b_kids n)) (heap t))
        else
          mkBt (hset nid (mkNode true (insert_at idx k (b_keys n)) (insert_at idx v (b_vals n)) (b_kids n)) (heap t))
               (root t) (depth t) (total t + 1) (nxt t) (order t)
      else
        let idx := bisect_right (b_keys n) k in
        let cid := nth idx (b_kids n) (-1) in
        let c := hget cid (heap t) in
        if zlen (b_keys c) >=? order t - 1 then
          let t' := split_child t nid idx in
          let n' := hget nid (heap t') in
          let idx' := if k >=? nth idx (b_keys n') 0 then S idx else idx in
          insert_non_full f t' (nth idx' (b_kids n') (-1)) k v
        else insert_non_full f t cid k v
  end.

(** BTree._insert *)
Definition bt_insert (t : btree) (k v : Z) : btree :=
  let r := hget (root t) (heap t) in
  let t1 :=
    if zlen (b_keys r) >=? order t - 1 then
      let nr := nxt t in
      let t0 := mkBt (hset nr (mkNode false [] [] [root t]) (heap t)) (root t) (depth t) (total t) (nxt t + 1) (order t) in
      let t0' := split_child t0 nr 0 in
      mkBt (heap t0') nr (depth t + 1) (total t0') (nxt t0') (order t)
    else t in
  insert_non_full (S (Z.to_nat (depth t1))) t1 (root t1) k v.

(** descend to the leaf with bisect_right *)
Fixpoint find_leaf (fuel : nat) (t : btree) (nid k : Z) : Z :=
  match fuel with
  | O => nid
  | S f => let n := hget nid (heap t) in
           if b_leaf n then nid else find_leaf f t (nth (bisect_right (b_keys n) k) (b_kids n) (-1)) k
  end.

Definition leaf_lookup (n : bnode) (k : Z) : option Z :=
  let idx := bisect_left (b_keys n) k in
  if (Nat.ltb idx (length (b_keys n))) && (nth idx (b_keys n) 0 =? k) then Some (nth idx (b_vals n) 0) else None.

(** BTree.get_sync *)
Definition bt_get_sync (t : btree) (k : Z) : option Z :=
  leaf_lookup (hget (find_leaf (S (Z.to_nat (depth t))) t (root t) k) (heap t)) k.

(** BTree._delete *)
Definition bt_delete (t : btree) (k : Z) : btree * bool :=
  let lid := find_leaf (S (Z.to_nat (depth t))) t (root t) k in
  let n := hget lid (heap t) in
  let idx := bisect_left (b_keys n) k in
  if (Nat.ltb idx (length (b_keys n))) && (nth idx (b_keys n) 0 =? k) then
    (mkBt (hset lid (mkNode true (remove_at idx (b_keys n)) (remove_at idx (b_vals n)) (b_kids n)) (heap t))
          (root t) (depth t) (total t - 1) (nxt t) (order t), true)
  else (t, false).

(** leaf part of _scan_node: stop at the first key >= hi *)
Fixpoint scan_leaf (ks vs : list Z) (lo hi : Z) : list (Z * Z) :=
  match ks, vs with
  | k :: kr, v :: vr => if k >=? hi then [] else if k >=? lo then (k, v) :: scan_leaf kr vr lo hi else scan_leaf kr vr lo hi
  | _, _ => []
  end.

(** BTree._scan_node; the children loop carries (i, remaining children) and
    can [break] *)
Fixpoint scan_node (fuel : nat) (t : btree) (nid lo hi : Z) : list (Z * Z) :=
  match fuel with
  | O => []
  | S f =>
      let n := hget nid (heap t) in
      if b_leaf n then scan_leaf (b_keys n) (b_vals n) lo hi
      else
        (fix kids (i : nat) (cs : list Z) : list (Z * Z) :=
           match cs with
           | [] => []
           | c :: cr =>
               let skip_high := (Nat.ltb i (length (b_keys n))) && (nth i (b_keys n) 0 <=? lo) in
               let brk_low := (Nat.ltb 0 i) && (nth (pred i) (b_keys n) 0 >=? hi) in
               if skip_high then kids (S i) cr
               else if brk_low then []
               else scan_node f t c lo hi ++ kids (S i) cr
           end) O (b_kids n)
  end.

Definition bt_scan (t : btree) (lo hi : Z) : list (Z * Z) :=
  scan_node (S (Z.to_nat (depth t))) t (root t) lo hi.

(** preorder dump of the tree: (leaf, keys, values) per node *)
Fixpoint dump (fuel : nat) (t : btree) (nid : Z) : list (bool * list Z * list Z) :=
  match fuel with
  | O => []
  | S f => let n := hget nid (heap t) in
           (b_leaf n, b_keys n, if b_leaf n then b_vals n else []) ::
           (if b_leaf n then [] else flat_map (dump f t) (b_kids n))
  end.

Definition bt_dump (t : btree) := dump (S (Z.to_nat (depth t))) t (root t).

(* ------------------------------------------------------------------ *)
(** * Generator API: segments *)

Inductive bop := BPut (k v : Z) | BDel (k : Z) | BGet (k : Z) | BScan (lo hi : Z).
Inductive bout := BONone | BOGet (r : option Z) | BODel (b : bool) | BOScan (r : list (Z * Z)).

Inductive bkont :=
| BKPut1 (k v : Z)                 (* after the traversal-read yield *)
| BKPut2                           (* after the page-write yield *)
| BKDel1 (k : Z)
| BKDel2
| BKGet (k : Z) (nid : Z) (iters : nat)   (* holds a node reference; [iters] iterations left *)
| BKScan1 (lo hi : Z)
| BKScan2 (r : list (Z * Z)).

Inductive bres := BYield (ns : Z) (k : bkont) | BDone (r : bout).

Definition RD := 1000000.
Definition WR := 2000000.

Definition b_start (t : btree) (o : bop) : bres :=
  match o with
  | BPut k v => BYield (depth t * RD) (BKPut1 k v)
  | BDel k => BYield (depth t * RD) (BKDel1 k)
  | BGet k => match Z.to_nat (depth t) with O => BDone (BOGet None) | n => BYield RD (BKGet k (root t) n) end
  | BScan lo hi => BYield (depth t * RD) (BKScan1 lo hi)
  end.

Definition b_resume (t : btree) (k : bkont) : btree * bres :=
  match k with
  | BKPut1 k v => (bt_insert t k v, BYield WR BKPut2)
  | BKPut2 => (t, BDone BONone)
  | BKDel1 k => let '(t', b) := bt_delete t k in (t', if b then BYield WR BKDel2 else BDone (BODel false))
  | BKDel2 => (t, BDone (BODel true))
  | BKGet k nid iters =>
      let n := hget nid (heap t) in
      if b_leaf n then (t, BDone (BOGet (leaf_lookup n k)))
      else
        let c := nth (bisect_right (b_keys n) k) (b_kids n) (-1) in
        match iters with
        | O | S O => (t, BDone (BOGet None))      (* range(depth) exhausted *)
        | S m => (t, BYield RD (BKGet k c m))
        end
  | BKScan1 lo hi =>
      let r := bt_scan t lo hi in
      let extra := Z.max 0 (zlen r / (order t - 1)) in
      if extra >? 0 then (t, BYield (extra * RD) (BKScan2 r)) else (t, BDone (BOScan r))
  | BKScan2 r => (t, BDone (BOScan r))
  end.

Inductive bstep := BStart (oid : Z) (o : bop) | BResume (oid : Z).

Fixpoint bkget (oid : Z) (ks : list (Z * bkont)) : option bkont :=
  match ks with [] => None | (i, k) :: r => if i =? oid then Some k else bkget oid r end.
Definition bkdel (oid : Z) (ks : list (Z * bkont)) := filter (fun p => negb (fst p =? oid)) ks.

Definition bworld := (btree * list (Z * bkont))%type.

Definition bw_step (w : bworld) (s : bstep) : bworld * option bres :=
  let '(t, ks) := w in
  match s with
  | BStart oid o =>
      let r := b_start t o in
      ((t, match r with BYield _ k => (oid, k) :: ks | BDone _ => ks end), Some r)
  | BResume oid =>
      match bkget oid ks with
      | None => (w, None)
      | Some k => let '(t', r) := b_resume t k in
                  ((t', match r with BYield _ k' => (oid, k') :: bkdel oid ks | BDone _ => bkdel oid ks end), Some r)
      end
  end.

Fixpoint bw_run (w : bworld) (sch : list bstep) : bworld * list (Z * bout) :=
  match sch with
  | [] => (w, [])
  | s :: r =>
      let '(w1, res) := bw_step w s in
      let '(w2, outs) := bw_run w1 r in
      (w2, match res, s with
           | Some (BDone x), BStart oid _ | Some (BDone x), BResume oid => (oid, x) :: outs
           | _, _ => outs
           end)
  end.

(* ------------------------------------------------------------------ *)
(** * Correspondence *)

Definition zz_eqb (a b : Z * Z) : bool := (fst a =? fst b) && (snd a =? snd b).
Definition bout_eqb (a b : bout) : bool :=
  match a, b with
  | BONone, BONone => true
  | BOGet x, BOGet y => option_eqb Z.eqb x y
  | BODel x, BODel y => Bool.eqb x y
  | BOScan x, BOScan y => list_eqb zz_eqb x y
  | _, _ => false
  end.

Definition node_eqb (a b : bool * list Z * list Z) : bool :=
  let '(l1, k1, v1) := a in let '(l2, k2, v2) := b in
  Bool.eqb l1 l2 && list_eqb Z.eqb k1 k2 && list_eqb Z.eqb v1 v2.

(** snapshot = (preorder dump, depth, total_keys) *)
Definition bsnap := (list (bool * list Z * list Z) * Z * Z)%type.
Definition bsnap_eqb (t : btree) (s : bsnap) : bool :=
  let '(d, dp, tot) := s in list_eqb node_eqb (bt_dump t) d && (depth t =? dp) && (total t =? tot).

Inductive bobs := BObsYield (ns : Z) | BObsDone (r : bout).

Fixpoint bt_ok (w : bworld) (steps : list (bstep * bobs * option bsnap)) : bool :=
  match steps with
  | [] => true
  | (s, o, sn) :: rest =>
      let '(w', r) := bw_step w s in
      (match r, o with
       | Some (BYield ns _), BObsYield ns' => ns =? ns'
       | Some (BDone x), BObsDone y => bout_eqb x y
       | _, _ => false
       end) &&
      (match sn with Some sn => bsnap_eqb (fst w') sn | None => list_eqb node_eqb (bt_dump (fst w')) (bt_dump (fst w)) end) &&
      bt_ok w' rest
  end.

Definition ok_bt_conc (case : Z * list (bstep * bobs * option bsnap)) : bool :=
  let '(ord, steps) := case in bt_ok (bt_init ord, []) steps.

(** sequential API: put_sync / get_sync, and delete/scan run alone *)
Definition b_apply (t : btree) (o : bop) : btree * bout :=
  match o with
  | BPut k v => (bt_insert t k v, BONone)
  | BDel k => let '(t', b) := bt_delete t k in (t', BODel b)
  | BGet k => (t, BOGet (bt_get_sync t k))
  | BScan lo hi => (t, BOScan (bt_scan t lo hi))
  end.

Fixpoint bt_seq_ok (t : btree) (steps : list (bop * bout * bsnap)) : bool :=
  match steps with
  | [] => true
  | (o, r, s) :: rest => let '(t', x) := b_apply t o in bout_eqb x r && bsnap_eqb t' s && bt_seq_ok t' rest
  end.

Definition ok_bt_seq (case : Z * list (bop * bout * bsnap)) : bool :=
  let '(ord, steps) := case in bt_seq_ok (bt_init ord) steps.
