(** C14 — executable model of the LSM tree of
    happysimulator/components/storage/{lsm_tree,memtable,sstable}.py
    (sequential semantics: every operation runs to completion before the next
    one starts; this is what the [_sync] methods do and what the generator
    methods do when nothing else is scheduled between their yields).

    Modelling choices (all tied by the correspondence check):
    - keys and values are [Z] (the harness uses fixed-width key strings whose
      order is the order of the ints);
    - a Python dict that is only ever read by key or through
      [sorted(d.items())] (the memtable buffer, [merged_data] of a compaction,
      [merged] of a scan) is a key-sorted association list ([sset]/[sadd]);
    - an SSTable is its sorted [(key, value)] list; bisect + sparse index is
      exact lookup ([assoc]);
    - the Bloom filter is a function [bl : keys of the table -> key -> bool]
      (explicit oracle input; the theorems assume only "no false negatives");
    - the list of levels has fixed length [max_levels] (the code never
      resizes it), so "target = min(source+1, max_levels-1)" and
      "target is the deepest level" are read off the list structure.
    No proofs in this file. *)
From HS Require Import Base.Prelude.
Local Open Scope Z_scope.

(* ------------------------------------------------------------------ *)
(** * Values, tables, sorted dicts *)

Inductive sval := Val (v : Z) | Tomb.

Definition sval_eqb (a b : sval) : bool :=
  match a, b with Val x, Val y => x =? y | Tomb, Tomb => true | _, _ => false end.

Definition table := list (Z * sval).
Definition level := list table.        (* oldest first: [append] adds at the end *)

Fixpoint assoc (k : Z) (t : table) : option sval :=
  match t with
  | [] => None
  | (k', v) :: r => if k =? k' then Some v else assoc k r
  end.

(** [d[k] = v] on a key-sorted association list. *)
Fixpoint sset (k : Z) (v : sval) (t : table) : table :=
  match t with
  | [] => [(k, v)]
  | (k', v') :: r =>
      if k <? k' then (k, v) :: t
      else if k =? k' then (k, v) :: r
      else (k', v') :: sset k v r
  end.

(** [if k not in d: d[k] = v] *)
Definition sadd (k : Z) (v : sval) (t : table) : table :=
  match assoc k t with Some _ => t | None => sset k v t end.

Definition keys (t : table) : list Z := map fst t.
Definition zlen {A} (l : list A) : Z := Z.of_nat (length l).

(* ------------------------------------------------------------------ *)
(** * Configuration and compaction strategies *)

Inductive strategy :=
| SizeTiered (min_sstables : Z)
| Leveled (level_0_max size_ratio base_size_keys : Z)
| Fifo (max_total_sstables : Z).

Record cfg := mkCfg { thr : Z; nlev : nat; strat : strategy }.

Record lsm := mkLsm { mem : table; levels : list level; ncomp : Z; nflush : Z }.

Definition lsm_init (c : cfg) : lsm :=
  {| mem := []; levels := repeat [] (nlev c); ncomp := 0; nflush := 0 |}.

(** SizeTieredCompaction.select_compaction: first level with the strictly
    greatest count (count 0 never wins, default level 0). *)
Fixpoint most_populated (ls : list level) (i : nat) (best : nat) (best_count : Z) : nat :=
  match ls with
  | [] => best
  | l :: r => if zlen l >? best_count then most_populated r (S i) i (zlen l)
              else most_populated r (S i) best best_count
  end.

Definition level_keys (l : level) : Z := fold_right (fun t a => zlen t + a) 0 l.

(** LeveledCompaction: first level i >= 1 with more than base * ratio^i keys. *)
Fixpoint lev_over (base ratio : Z) (i : nat) (ls : list level) : option nat :=
  match ls with
  | [] => None
  | l :: r => if level_keys l >? base * ratio ^ (Z.of_nat i) then Some i
              else lev_over base ratio (S i) r
  end.

(** FIFOCompaction.select_compaction: highest non-empty level. *)
Fixpoint highest_nonempty (ls : list level) (i : nat) : option nat :=
  match ls with
  | [] => None
  | l :: r => match highest_nonempty r (S i) with
              | Some j => Some j
              | None => match l with [] => None | _ => Some i end
              end
  end.

(** [should_compact] and [select_compaction] evaluated at the same instant:
    [None] = no compaction, [Some s] = source level. *)
Definition pick (s : strategy) (ls : list level) : option nat :=
  match s with
  | SizeTiered m =>
      if existsb (fun l => zlen l >=? m) ls then Some (most_populated ls 0 0 0) else None
  | Leveled l0 ratio base =>
      match ls with
      | [] => None
      | l :: r => if zlen l >=? l0 then Some 0%nat else lev_over base ratio 1 r
      end
  | Fifo mx =>
      if fold_right (fun l a => zlen l + a) 0 ls >? mx then
        match highest_nonempty ls 0 with Some i => Some i | None => Some 0%nat end
      else None
  end.

(* ------------------------------------------------------------------ *)
(** * Compaction (LSMTree._compact / _compact_sync) *)

Definition first_key (t : table) (d : Z) : Z := match t with [] => d | (k, _) :: _ => k end.
Definition last_key (t : table) (d : Z) : Z := fst (last t (d, Tomb)).

(** SSTable.overlaps *)
Definition overlaps (a b : table) : bool :=
  match a, b with
  | [], _ | _, [] => false
  | _, _ => (first_key a 0 <=? last_key b 0) && (first_key b 0 <=? last_key a 0)
  end.

Definition set_all (m t : table) : table := fold_left (fun m kv => sset (fst kv) (snd kv) m) t m.
Definition add_absent (m t : table) : table := fold_left (fun m kv => sadd (fst kv) (snd kv) m) t m.

(** [{k: v for sst in sstables for k, v in sst.scan()}]: later tables win. *)
Definition merge_src (srcs : level) : table := fold_left set_all srcs [].

Definition is_overlapping (srcs : level) (t : table) : bool := existsb (overlaps t) srcs.
Definition overlapping (srcs tgt : level) : level := filter (is_overlapping srcs) tgt.
Definition keepers (srcs tgt : level) : level := filter (fun t => negb (is_overlapping srcs t)) tgt.

Definition not_tomb (kv : Z * sval) : bool := match snd kv with Tomb => false | Val _ => true end.
Definition drop_tombs (m : table) : table := filter not_tomb m.

(** The merged table of a compaction of the whole level [src] into [tgt]
    ([deepest] = the target is the last level). *)
Definition merged_into (src tgt : level) (deepest : bool) : table :=
  let m0 := fold_left add_absent (overlapping src tgt) (merge_src src) in
  if deepest then drop_tombs m0 else m0.

(** Compaction with source level [s] (all three strategies select the whole
    level).  Returns the new levels; unchanged when the selection is empty or
    the merged data is empty. *)
Fixpoint compact_levels (s : nat) (ls : list level) : list level :=
  match ls with
  | [] => []
  | src :: rest =>
      match s with
      | S s' => src :: compact_levels s' rest
      | O =>
          match src with
          | [] => ls
          | _ =>
              match rest with
              | [] => (* source is the last level: target = source, no overlapping set *)
                  match drop_tombs (merge_src src) with
                  | [] => ls
                  | m => [[m]]
                  end
              | tgt :: rest' =>
                  match merged_into src tgt (match rest' with [] => true | _ => false end) with
                  | [] => ls
                  | m => [] :: (keepers src tgt ++ [m]) :: rest'
                  end
              end
          end
      end
  end.

(** Did [_compact] get past [if not sstables: return]? (then the counter moves) *)
Definition selection_nonempty (s : nat) (ls : list level) : bool :=
  match nth_error ls s with Some (_ :: _) => true | _ => false end.

Definition maybe_compact (c : cfg) (st : lsm) : lsm :=
  match pick (strat c) (levels st) with
  | None => st
  | Some s =>
      if selection_nonempty s (levels st) then
        {| mem := mem st; levels := compact_levels s (levels st);
           ncomp := ncomp st + 1; nflush := nflush st |}
      else st
  end.

(* ------------------------------------------------------------------ *)
(** * Write path *)

Definition push_l0 (t : table) (ls : list level) : list level :=
  match ls with [] => [] | l0 :: r => (l0 ++ [t]) :: r end.

(** _flush_memtable_sync (and _flush_memtable run to completion) *)
Definition flush (c : cfg) (st : lsm) : lsm :=
  match mem st with
  | [] => st
  | m => maybe_compact c {| mem := []; levels := push_l0 m (levels st);
                            ncomp := ncomp st; nflush := nflush st + 1 |}
  end.

Definition write (c : cfg) (st : lsm) (k : Z) (v : sval) : lsm :=
  let st1 := {| mem := sset k v (mem st); levels := levels st; ncomp := ncomp st; nflush := nflush st |} in
  if zlen (mem st1) >=? thr c then flush c st1 else st1.

(* ------------------------------------------------------------------ *)
(** * Read path *)

Definition tbl_get (bl : list Z -> Z -> bool) (k : Z) (t : table) : option sval :=
  if bl (keys t) k then assoc k t else None.

(** [for sstable in reversed(level)] — first hit, newest first *)
Fixpoint level_get (bl : list Z -> Z -> bool) (k : Z) (l : level) : option sval :=
  match l with
  | [] => None
  | t :: r => match level_get bl k r with Some v => Some v | None => tbl_get bl k t end
  end.

Fixpoint levels_get (bl : list Z -> Z -> bool) (k : Z) (ls : list level) : option sval :=
  match ls with
  | [] => None
  | l :: r => match level_get bl k l with Some v => Some v | None => levels_get bl k r end
  end.

Definition raw_get (bl : list Z -> Z -> bool) (st : lsm) (k : Z) : option sval :=
  match assoc k (mem st) with Some v => Some v | None => levels_get bl k (levels st) end.

Definition ext (o : option sval) : option Z :=
  match o with Some (Val v) => Some v | _ => None end.

(** LSMTree.get_sync / get *)
Definition lsm_get (bl : list Z -> Z -> bool) (st : lsm) (k : Z) : option Z := ext (raw_get bl st k).

Definition in_range (lo hi : Z) (kv : Z * sval) : bool := (lo <=? fst kv) && (fst kv <? hi).

Definition scan_level (lo hi : Z) (m : table) (l : level) : table :=
  fold_left (fun m t => add_absent m (filter (in_range lo hi) t)) (rev l) m.

Definition scan_merged (lo hi : Z) (st : lsm) : table :=
  fold_left (scan_level lo hi) (levels st) (set_all [] (filter (in_range lo hi) (mem st))).

Definition live (m : table) : list (Z * Z) :=
  flat_map (fun kv => match snd kv with Val v => [(fst kv, v)] | Tomb => [] end) m.

(** LSMTree.scan *)
Definition lsm_scan (lo hi : Z) (st : lsm) : list (Z * Z) := live (scan_merged lo hi st).

(* ------------------------------------------------------------------ *)
(** * Operation sequences and the map they are compared with *)

Inductive op := Put (k v : Z) | Del (k : Z) | Get (k : Z) | Scan (lo hi : Z).

Definition apply (c : cfg) (st : lsm) (o : op) : lsm :=
  match o with
  | Put k v => write c st k (Val v)
  | Del k => write c st k Tomb
  | Get _ | Scan _ _ => st
  end.

Definition run (c : cfg) (ops : list op) : lsm := fold_left (apply c) ops (lsm_init c).

(** The reference map. *)
Definition spec_apply (m : Z -> option Z) (o : op) : Z -> option Z :=
  match o with
  | Put k v => fun k' => if k' =? k then Some v else m k'
  | Del k => fun k' => if k' =? k then None else m k'
  | Get _ | Scan _ _ => m
  end.

Definition spec_of (ops : list op) : Z -> option Z := fold_left spec_apply ops (fun _ => None).

(* ------------------------------------------------------------------ *)
(** * Correspondence: sequential workloads *)

Inductive out := ONone | OGet (r : option Z) | OScan (r : list (Z * Z)).

Definition kv_eqb (a b : Z * sval) : bool := (fst a =? fst b) && sval_eqb (snd a) (snd b).
Definition zz_eqb (a b : Z * Z) : bool := (fst a =? fst b) && (snd a =? snd b).
Definition table_eqb := list_eqb kv_eqb.
Definition levels_eqb := list_eqb (list_eqb table_eqb).

Definition out_eqb (a b : out) : bool :=
  match a, b with
  | ONone, ONone => true
  | OGet x, OGet y => option_eqb Z.eqb x y
  | OScan x, OScan y => list_eqb zz_eqb x y
  | _, _ => false
  end.

(** Observed false positives of the real Bloom filters: (keys of table, key). *)
Definition bl_of (fps : list (list Z * Z)) (ks : list Z) (k : Z) : bool :=
  existsb (Z.eqb k) ks || existsb (fun p => list_eqb Z.eqb (fst p) ks && (snd p =? k)) fps.

Definition op_out (bl : list Z -> Z -> bool) (st : lsm) (o : op) : out :=
  match o with
  | Put _ _ | Del _ => ONone
  | Get k => OGet (lsm_get bl st k)
  | Scan lo hi => OScan (lsm_scan lo hi st)
  end.

(** snapshot = (memtable, levels, compactions, flushes) *)
Definition snap := (table * list level * Z * Z)%type.

Definition snap_eqb (st : lsm) (s : snap) : bool :=
  let '(m, ls, nc, nf) := s in
  table_eqb (mem st) m && levels_eqb (levels st) ls && (ncomp st =? nc) && (nflush st =? nf).

Fixpoint seq_ok (c : cfg) (bl : list Z -> Z -> bool) (st : lsm) (steps : list (op * out * snap)) : bool :=
  match steps with
  | [] => true
  | (o, r, s) :: rest =>
      let st' := apply c st o in
      out_eqb (op_out bl st o) r && snap_eqb st' s && seq_ok c bl st' rest
  end.

Definition ok_lsm_seq (case : cfg * list (list Z * Z) * list (op * out * snap)) : bool :=
  let '(c, fps, steps) := case in seq_ok c (bl_of fps) (lsm_init c) steps.

(* ================================================================== *)
(** * The generator API as a step machine (overlapping operations)

    One segment = the code a generator method executes between two yields.
    A schedule interleaves the segments of concurrently started operations (in
    a real Simulation the interleaving is fixed by the yielded delays; the
    theorems quantify over all interleavings, the correspondence replays the
    one the engine chose).  Objects compared by identity in the code
    ([list.remove(sst)], the memtable a suspended [Memtable.put] is bound to)
    carry ids.  Models the code AFTER the fix of finding C14-lsm-flush-window:
    a frozen copy of the flushed memtable stays in [_immutable_memtables] until
    the SSTable is installed. *)

Record tbl := mkTbl { tid : Z; tdata : table }.

Record cstate := mkC {
  c_mem : table; c_mid : Z;
  c_imm : list (Z * table);
  c_levels : list (list tbl);
  c_ncomp : Z; c_nflush : Z; c_next : Z }.

Definition c_init (c : cfg) : cstate :=
  {| c_mem := []; c_mid := 0; c_imm := []; c_levels := repeat [] (nlev c);
     c_ncomp := 0; c_nflush := 0; c_next := 1 |}.

Inductive kont :=
| KPutWait (mid : Z)
| KFlushWait (fid : Z) (sst : table)
| KCompactWait (s t : nat) (srcs ovs : list Z) (new : table)
| KGetWait (k : Z) (li n : nat) (held : table)
| KScanWait (lo hi : Z) (merged : table) (li n : nat) (held : table).

Inductive action := AStart (o : op) | AResume (k : kont).
Inductive result := RYield (ns : Z) (k : kont) | RDone (o : out).

Definition MEM_NS := 10000.        (* Memtable write_latency 0.00001 s *)
Definition WRITE_NS := 2000000.    (* sstable_write_latency 0.002 s *)
Definition READ_NS := 1000000.     (* sstable_read_latency 0.001 s *)

Fixpoint upd_nth {A} (n : nat) (f : A -> A) (l : list A) : list A :=
  match l with
  | [] => []
  | x :: r => match n with O => f x :: r | S n' => x :: upd_nth n' f r end
  end.

Definition remove_ids (ids : list Z) (l : list tbl) : list tbl :=
  filter (fun t => negb (existsb (Z.eqb (tid t)) ids)) l.

Definition pages (t : table) : Z := Z.max 1 (zlen t / 16).

(** _compact up to its yield *)
Definition compact_begin (c : cfg) (st : cstate) : cstate * result :=
  match pick (strat c) (map (map tdata) (c_levels st)) with
  | None => (st, RDone ONone)
  | Some s =>
      let srcs := nth s (c_levels st) [] in
      match srcs with
      | [] => (st, RDone ONone)
      | _ =>
          let last := pred (length (c_levels st)) in
          let t := Nat.min (S s) last in
          let sd := map tdata srcs in
          let ovs := if Nat.eqb t s then []
                     else filter (fun x => is_overlapping sd (tdata x)) (nth t (c_levels st) []) in
          let m0 := fold_left add_absent (map tdata ovs) (merge_src sd) in
          let m := if Nat.eqb t last then drop_tombs m0 else m0 in
          match m with
          | [] => (mkC (c_mem st) (c_mid st) (c_imm st) (c_levels st) (c_ncomp st + 1) (c_nflush st) (c_next st),
                   RDone ONone)
          | _ => (st, RYield (pages m * WRITE_NS) (KCompactWait s t (map tid srcs) (map tid ovs) m))
          end
      end
  end.

Definition compact_end (st : cstate) (s t : nat) (srcs ovs : list Z) (m : table) : cstate :=
  let l1 := upd_nth s (remove_ids srcs) (c_levels st) in
  let l2 := upd_nth t (remove_ids ovs) l1 in
  let l3 := upd_nth t (fun l => l ++ [mkTbl (c_next st) m]) l2 in
  mkC (c_mem st) (c_mid st) (c_imm st) l3 (c_ncomp st + 1) (c_nflush st) (c_next st + 1).

(** _flush_memtable up to its yield *)
Definition flush_begin (st : cstate) : cstate * result :=
  match c_mem st with
  | [] => (st, RDone ONone)
  | m =>
      let fid := c_next st in
      (mkC [] (c_next st + 1) (c_imm st ++ [(fid, m)]) (c_levels st) (c_ncomp st) (c_nflush st) (c_next st + 2),
       RYield (pages m * WRITE_NS) (KFlushWait fid m))
  end.

Definition flush_end (c : cfg) (st : cstate) (fid : Z) (sst : table) : cstate * result :=
  let st1 := mkC (c_mem st) (c_mid st)
                 (filter (fun p => negb (fst p =? fid)) (c_imm st))
                 (upd_nth 0 (fun l => l ++ [mkTbl (c_next st) sst]) (c_levels st))
                 (c_ncomp st) (c_nflush st + 1) (c_next st + 1) in
  compact_begin c st1.

(** newest-first search of the immutable memtables *)
Fixpoint imm_get (k : Z) (imm : list (Z * table)) : option sval :=
  match imm with
  | [] => None
  | p :: r => match imm_get k r with Some v => Some v | None => assoc k (snd p) end
  end.

(** [reversed(level)] iterator with [n] = index + 1: the next item is
    [level[n-1]] when that index is still inside the (possibly mutated) list,
    otherwise the iterator is exhausted. *)
Fixpoint get_level (bl : list Z -> Z -> bool) (k : Z) (l : list tbl) (n : nat) : option (nat * table) :=
  match n with
  | O => None
  | S n' =>
      match nth_error l n' with
      | None => None
      | Some t => if bl (keys (tdata t)) k && negb (match tdata t with [] => true | _ => false end)
                  then Some (n', tdata t)
                  else if bl (keys (tdata t)) k
                       then (* page_reads = 0 (empty table): no yield, sstable.get *)
                            get_level bl k l n'
                       else get_level bl k l n'
      end
  end.

(** outer loop over the levels [ls] = levels[li:], first level entered with [n] *)
Fixpoint get_levels (bl : list Z -> Z -> bool) (k : Z) (ls : list (list tbl)) (li n : nat) : result :=
  match ls with
  | [] => RDone (OGet None)
  | l :: r =>
      match get_level bl k l n with
      | Some (n', t) => RYield (2 * READ_NS) (KGetWait k li n' t)
      | None => get_levels bl k r (S li) (match r with [] => O | l' :: _ => length l' end)
      end
  end.

Definition get_from (bl : list Z -> Z -> bool) (st : cstate) (k : Z) (li n : nat) : result :=
  get_levels bl k (skipn li (c_levels st)) li n.

Definition hit (v : sval) : result := RDone (OGet (ext (Some v))).

(** SSTable.page_reads_for_scan *)
Definition scan_pages (lo hi : Z) (t : table) : Z :=
  match t with
  | [] => 0
  | _ => let n := zlen (filter (in_range lo hi) t) in
         if n <=? 0 then 0 else 1 + (n + 16 - 1) / 16
  end.

Fixpoint scan_level_c (lo hi : Z) (m : table) (l : list tbl) (n : nat) : table * option (nat * table) :=
  match n with
  | O => (m, None)
  | S n' =>
      match nth_error l n' with
      | None => (m, None)
      | Some t => if scan_pages lo hi (tdata t) >? 0 then (m, Some (n', tdata t))
                  else scan_level_c lo hi (add_absent m (filter (in_range lo hi) (tdata t))) l n'
      end
  end.

Fixpoint scan_levels_c (lo hi : Z) (m : table) (ls : list (list tbl)) (li n : nat) : result :=
  match ls with
  | [] => RDone (OScan (live m))
  | l :: r =>
      match scan_level_c lo hi m l n with
      | (m', Some (n', t)) => RYield (scan_pages lo hi t * READ_NS) (KScanWait lo hi m' li n' t)
      | (m', None) => scan_levels_c lo hi m' r (S li) (match r with [] => O | l' :: _ => length l' end)
      end
  end.

Definition l0_len (st : cstate) : nat := match c_levels st with [] => O | l :: _ => length l end.

Definition seg (c : cfg) (bl : list Z -> Z -> bool) (st : cstate) (a : action) : cstate * result :=
  match a with
  | AStart (Put k v) =>
      (mkC (sset k (Val v) (c_mem st)) (c_mid st) (c_imm st) (c_levels st) (c_ncomp st) (c_nflush st) (c_next st),
       RYield MEM_NS (KPutWait (c_mid st)))
  | AStart (Del k) =>
      (mkC (sset k Tomb (c_mem st)) (c_mid st) (c_imm st) (c_levels st) (c_ncomp st) (c_nflush st) (c_next st),
       RYield MEM_NS (KPutWait (c_mid st)))
  | AStart (Get k) =>
      match assoc k (c_mem st) with
      | Some v => (st, hit v)
      | None =>
          match imm_get k (c_imm st) with
          | Some v => (st, hit v)
          | None => (st, get_from bl st k 0 (l0_len st))
          end
      end
  | AStart (Scan lo hi) =>
      let m0 := set_all [] (filter (in_range lo hi) (c_mem st)) in
      let m1 := fold_left (fun m p => add_absent m (filter (in_range lo hi) (snd p))) (rev (c_imm st)) m0 in
      (st, scan_levels_c lo hi m1 (c_levels st) 0 (l0_len st))
  | AResume (KPutWait mid) =>
      let full := if mid =? c_mid st then zlen (c_mem st) >=? thr c else 0 >=? thr c in
      if full then flush_begin st else (st, RDone ONone)
  | AResume (KFlushWait fid sst) => flush_end c st fid sst
  | AResume (KCompactWait s t srcs ovs m) => (compact_end st s t srcs ovs m, RDone ONone)
  | AResume (KGetWait k li n held) =>
      match tbl_get bl k held with
      | Some v => (st, hit v)
      | None => (st, get_from bl st k li n)
      end
  | AResume (KScanWait lo hi m li n held) =>
      let m' := add_absent m (filter (in_range lo hi) held) in
      (st, scan_levels_c lo hi m' (skipn li (c_levels st)) li n)
  end.

(** ** Schedules *)

(** One scheduling decision: operation [oid] starts with [o], or resumes. *)
Inductive sched_step := SStart (oid : Z) (o : op) | SResume (oid : Z).

Fixpoint kget (oid : Z) (ks : list (Z * kont)) : option kont :=
  match ks with [] => None | (i, k) :: r => if i =? oid then Some k else kget oid r end.
Definition kdel (oid : Z) (ks : list (Z * kont)) := filter (fun p => negb (fst p =? oid)) ks.

(** what one scheduling decision produced (for the history) *)
Inductive hevent := HStart (oid : Z) (o : op) | HYield (oid : Z) (ns : Z) | HDone (oid : Z) (r : out) | HBad (oid : Z).

Definition world := (cstate * list (Z * kont))%type.

Definition wstep (c : cfg) (bl : list Z -> Z -> bool) (w : world) (s : sched_step) : world * list hevent :=
  let '(st, ks) := w in
  match s with
  | SStart oid o =>
      match seg c bl st (AStart o) with
      | (st', RYield ns k) => ((st', (oid, k) :: ks), [HStart oid o; HYield oid ns])
      | (st', RDone r) => ((st', ks), [HStart oid o; HDone oid r])
      end
  | SResume oid =>
      match kget oid ks with
      | None => (w, [HBad oid])
      | Some k =>
          match seg c bl st (AResume k) with
          | (st', RYield ns k') => ((st', (oid, k') :: kdel oid ks), [HYield oid ns])
          | (st', RDone r) => ((st', kdel oid ks), [HDone oid r])
          end
      end
  end.

Fixpoint wrun (c : cfg) (bl : list Z -> Z -> bool) (w : world) (sch : list sched_step) : world * list hevent :=
  match sch with
  | [] => (w, [])
  | s :: r => let '(w1, h1) := wstep c bl w s in
              let '(w2, h2) := wrun c bl w1 r in (w2, h1 ++ h2)
  end.

Definition history (c : cfg) (bl : list Z -> Z -> bool) (sch : list sched_step) : list hevent :=
  snd (wrun c bl (c_init c, []) sch).

(** ** Correspondence: per-segment replay of a real Simulation run *)

Definition csnap := (table * list table * list level * Z * Z)%type.   (* mem, imm, levels, ncomp, nflush *)

Definition csnap_eqb (st : cstate) (s : csnap) : bool :=
  let '(m, im, ls, nc, nf) := s in
  table_eqb (c_mem st) m && list_eqb table_eqb (map snd (c_imm st)) im &&
  levels_eqb (map (map tdata) (c_levels st)) ls && (c_ncomp st =? nc) && (c_nflush st =? nf).

(** observed outcome of a segment: yielded delay in ns, or completion with a result *)
Inductive obs := OYield (ns : Z) | ODone (r : out).

Definition obs_ok (r : result) (o : obs) : bool :=
  match r, o with
  | RYield ns _, OYield ns' => ns =? ns'
  | RDone x, ODone y => out_eqb x y
  | _, _ => false
  end.

Definition cdata_eqb (a b : cstate) : bool :=
  table_eqb (c_mem a) (c_mem b) && list_eqb table_eqb (map snd (c_imm a)) (map snd (c_imm b)) &&
  levels_eqb (map (map tdata) (c_levels a)) (map (map tdata) (c_levels b)) &&
  (c_ncomp a =? c_ncomp b) && (c_nflush a =? c_nflush b).

(** [None] as snapshot = the implementation's state did not change in this segment *)
Fixpoint conc_ok (c : cfg) (bl : list Z -> Z -> bool) (w : world) (steps : list (sched_step * obs * option csnap)) : bool :=
  match steps with
  | [] => true
  | (s, o, sn) :: rest =>
      let '(st, ks) := w in
      let a := match s with
               | SStart _ op => Some (AStart op)
               | SResume oid => match kget oid ks with Some k => Some (AResume k) | None => None end
               end in
      match a with
      | None => false
      | Some a =>
          let '(st', r) := seg c bl st a in
          let oid := match s with SStart i _ | SResume i => i end in
          let ks' := match r with RYield _ k => (oid, k) :: kdel oid ks | RDone _ => kdel oid ks end in
          obs_ok r o && match sn with Some sn => csnap_eqb st' sn | None => cdata_eqb st st' end &&
          conc_ok c bl (st', ks') rest
      end
  end.

Definition ok_lsm_conc (case : cfg * list (list Z * Z) * list (sched_step * obs * option csnap)) : bool :=
  let '(c, fps, steps) := case in conc_ok c (bl_of fps) (c_init c, []) steps.

(* ------------------------------------------------------------------ *)
(** ** The overlap clause of C14 as a decidable predicate on histories

    Time = position in the history.  A read of key [k] over [rs, re] may return
    the value of any write to [k] that began before [re] and is not followed by
    another write to [k] lying entirely after it and entirely before [rs]; or
    "absent" when no write to [k] completed before [rs]. *)

Fixpoint index_from {A} (i : Z) (l : list A) : list (Z * A) :=
  match l with [] => [] | x :: r => (i, x) :: index_from (i + 1) r end.

Definition start_of (h : list (Z * hevent)) (oid : Z) : option (Z * op) :=
  match find (fun p => match snd p with HStart i _ => i =? oid | _ => false end) h with
  | Some (t, HStart _ o) => Some (t, o)
  | _ => None
  end.

Definition done_of (h : list (Z * hevent)) (oid : Z) : option (Z * out) :=
  match find (fun p => match snd p with HDone i _ => i =? oid | _ => false end) h with
  | Some (t, HDone _ r) => Some (t, r)
  | _ => None
  end.

(** writes to key [k]: (start, done, value) *)
Definition writes_of (h : list (Z * hevent)) (k : Z) : list (Z * option Z * option Z) :=
  flat_map (fun p =>
    match snd p with
    | HStart oid (Put k' v) => if k' =? k then [(fst p, option_map fst (done_of h oid), Some v)] else []
    | HStart oid (Del k') => if k' =? k then [(fst p, option_map fst (done_of h oid), None)] else []
    | _ => []
    end) h.

Definition done_before (rs : Z) (w : Z * option Z * option Z) : bool :=
  match snd (fst w) with Some e => e <? rs | None => false end.

Definition admissible (ws : list (Z * option Z * option Z)) (rs re : Z) (r : option Z) : bool :=
  let db := filter (done_before rs) ws in
  (match db with [] => match r with None => true | _ => false end | _ => false end) ||
  existsb (fun w =>
    let '(s, e, v) := w in
    (s <=? re) && option_eqb Z.eqb v r &&
    match e with
    | Some e => negb (existsb (fun x => fst (fst x) >? e) db)
    | None => true
    end) ws.

Fixpoint zz_assoc (k : Z) (l : list (Z * Z)) : option Z :=
  match l with [] => None | (k', v) :: r => if k =? k' then Some v else zz_assoc k r end.

Definition read_ok (h : list (Z * hevent)) (p : Z * hevent) : bool :=
  match snd p with
  | HDone oid (OGet r) =>
      match start_of h oid with
      | Some (rs, Get k) => admissible (writes_of h k) rs (fst p) r
      | _ => false
      end
  | HDone oid (OScan r) =>
      match start_of h oid with
      | Some (rs, Scan lo hi) =>
          forallb (fun i => let k := lo + Z.of_nat i in admissible (writes_of h k) rs (fst p) (zz_assoc k r))
                  (seq 0 (Z.to_nat (hi - lo))) &&
          forallb (fun kv => (lo <=? fst kv) && (fst kv <? hi)) r
      | _ => false
      end
  | HBad _ => false
  | _ => true
  end.

Definition reads_ok (h : list hevent) : bool :=
  let ih := index_from 0 h in forallb (read_ok ih) ih.

(** A schedule in which every operation runs alone: its start is followed by
    its resumes until it completes, before the next operation starts. *)
Fixpoint alone_from (fuel : nat) (c : cfg) (bl : list Z -> Z -> bool) (w : world) (oid : Z) : world * list hevent :=
  match fuel with
  | O => (w, [])
  | S f =>
      match kget oid (snd w) with
      | None => (w, [])
      | Some _ => let '(w1, h1) := wstep c bl w (SResume oid) in
                  let '(w2, h2) := alone_from f c bl w1 oid in (w2, h1 ++ h2)
      end
  end.
