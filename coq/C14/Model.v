(** C14 — executable model of the LSM tree of
    happysimulator/components/storage/{lsm_tree,memtable,sstable}.py
    (sequential semantics: every operation runs to completion before the next
    one starts; this is what the [_sync] methods do and what the generator
    methods do when nothing else is scheduled between their yields).

    Modelling choices (all tied by the correspondence check):
    - keys and values are [Z] (the harness uses fixed-width key strings whose
      order is the order of the ints);
    - a Python dict that is only ever read by key or through
      [sorted(d.items())] (the memtable buffer, [merged_data] of a compaction,
      [merged] of a scan) is a key-sorted association list ([sset]/[sadd]);
    - an SSTable is its sorted [(key, value)] list; bisect + sparse index is
      exact lookup ([assoc]);
    - the Bloom filter is a function [bl : keys of the table -> key -> bool]
      (explicit oracle input; the theorems assume only "no false negatives");
    - the list of levels has fixed length [max_levels] (the code never
      resizes it), so "target = min(source+1, max_levels-1)" and
      "target is the deepest level" are read off the list structure.
    No proofs in this file. *)
From HS Require Import Base.Prelude.
Local Open Scope Z_scope.

(* ------------------------------------------------------------------ *)
(** * Values, tables, sorted dicts *)

Inductive sval := Val (v : Z) | Tomb.

Definition sval_eqb (a b : sval) : bool :=
  match a, b with Val x, Val y => x =? y | Tomb, Tomb => true | _, _ => false end.

Definition table := list (Z * sval).
Definition level := list table.        (* oldest first: [append] adds at the end *)

Fixpoint assoc (k : Z) (t : table) : option sval :=
  match t with
  | [] => None
  | (k', v) :: r => if k =? k' then Some v else assoc k r
  end.

(** [d[k] = v] on a key-sorted association list. *)
Fixpoint sset (k : Z) (v : sval) (t : table) : table :=
  match t with
  | [] => [(k, v)]
  | (k', v') :: r =>
      if k <? k' then (k, v) :: t
      else if k =? k' then (k, v) :: r
      else (k', v') :: sset k v r
  end.

(** [if k not in d: d[k] = v] *)
Definition sadd (k : Z) (v : sval) (t : table) : table :=
  match assoc k t with Some _ => t | None => sset k v t end.

Definition keys (t : table) : list Z := map fst t.
Definition zlen {A} (l : list A) : Z := Z.of_nat (length l).

(* ------------------------------------------------------------------ *)
(** * Configuration and compaction strategies *)

Inductive strategy :=
| SizeTiered (min_sstables : Z)
| Leveled (level_0_max size_ratio base_size_keys : Z)
| Fifo (max_total_sstables : Z).

Record cfg := mkCfg { thr : Z; nlev : nat; strat : strategy }.

Record lsm := mkLsm { mem : table; levels : list level; ncomp : Z; nflush : Z }.

Definition lsm_init (c : cfg) : lsm :=
  {| mem := []; levels := repeat [] (nlev c); ncomp := 0; nflush := 0 |}.

(** SizeTieredCompaction.select_compaction: first level with the strictly
    greatest count (count 0 never wins, default level 0). *)
Fixpoint most_populated (ls : list level) (i : nat) (best : nat) (best_count : Z) : nat :=
  match ls with
  | [] => best
  | l :: r => if zlen l >? best_count then most_populated r (S i) i (zlen l)
              else most_populated r (S i) best best_count
  end.

Definition level_keys (l : level) : Z := fold_right (fun t a => zlen t + a) 0 l.

(** LeveledCompaction: first level i >= 1 with more than base * ratio^i keys. *)
Fixpoint lev_over (base ratio : Z) (i : nat) (ls : list level) : option nat :=
  match ls with
  | [] => None
  | l :: r => if level_keys l >? base * ratio ^ (Z.of_nat i) then Some i
              else lev_over base ratio (S i) r
  end.

(** FIFOCompaction.select_compaction: highest non-empty level. *)
Fixpoint highest_nonempty (ls : list level) (i : nat) : option nat :=
  match ls with
  | [] => None
  | l :: r => match highest_nonempty r (S i) with
              | Some j => Some j
              | None => match l with [] => None | _ => Some i end
              end
  end.

(** [should_compact] and [select_compaction] evaluated at the same instant:
    [None] = no compaction, [Some s] = source level. *)
Definition pick (s : strategy) (ls : list level) : option nat :=
  match s with
  | SizeTiered m =>
      if existsb (fun l => zlen l >=? m) ls then Some (most_populated ls 0 0 0) else None
  | Leveled l0 ratio base =>
      match ls with
      | [] => None
      | l :: r => if zlen l >=? l0 then Some 0%nat else lev_over base ratio 1 r
      end
  | Fifo mx =>
      if fold_right (fun l a => zlen l + a) 0 ls >? mx then
        match highest_nonempty ls 0 with Some i => Some i | None => Some 0%nat end
      else None
  end.

(* ------------------------------------------------------------------ *)
(** * Compaction (LSMTree._compact / _compact_sync) *)

Definition first_key (t : table) (d : Z) : Z := match t with [] => d | (k, _) :: _ => k end.
Definition last_key (t : table) (d : Z) : Z := fst (last t (d, Tomb)).

(** SSTable.overlaps *)
Definition overlaps (a b : table) : bool :=
  match a, b with
  | [], _ | _, [] => false
  | _, _ => (first_key a 0 <=? last_key b 0) && (first_key b 0 <=? last_key a 0)
  end.

Definition set_all (m t : table) : table := fold_left (fun m kv => sset (fst kv) (snd kv) m) t m.
Definition add_absent (m t : table) : table := fold_left (fun m kv => sadd (fst kv) (snd kv) m) t m.

(** [{k: v for sst in sstables for k, v in sst.scan()}]: later tables win. *)
Definition merge_src (srcs : level) : table := fold_left set_all srcs [].

Definition is_overlapping (srcs : level) (t : table) : bool := existsb (overlaps t) srcs.
Definition overlapping (srcs tgt : level) : level := filter (is_overlapping srcs) tgt.
Definition keepers (srcs tgt : level) : level := filter (fun t => negb (is_overlapping srcs t)) tgt.

Definition not_tomb (kv : Z * sval) : bool := match snd kv with Tomb => false | Val _ => true end.
Definition drop_tombs (m : table) : table := filter not_tomb m.

(** The merged table of a compaction of the whole level [src] into [tgt]
    ([deepest] = the target is the last level). *)
Definition merged_into (src tgt : level) (deepest : bool) : table :=
  let m0 := fold_left add_absent (overlapping src tgt) (merge_src src) in
  if deepest then drop_tombs m0 else m0.

(** Compaction with source level [s] (all three strategies select the whole
    level).  Returns the new levels; unchanged when the selection is empty or
    the merged data is empty. *)
Fixpoint compact_levels (s : nat) (ls : list level) : list level :=
  match ls with
  | [] => []
  | src :: rest =>
      match s with
      | S s' => src :: compact_levels s' rest
      | O =>
          match src with
          | [] => ls
          | _ =>
              match rest with
              | [] => (* source is the last level: target = source, no overlapping set *)
                  match drop_tombs (merge_src src) with
                  | [] => ls
                  | m => [[m]]
                  end
              | tgt :: rest' =>
                  match merged_into src tgt (match rest' with [] => true | _ => false end) with
                  | [] => ls
                  | m => [] :: (keepers src tgt ++ [m]) :: rest'
                  end
              end
          end
      end
  end.

(** Did [_compact] get past [if not sstables: return]? (then the counter moves) *)
Definition selection_nonempty (s : nat) (ls : list level) : bool :=
  match nth_error ls s with Some (_ :: _) => true | _ => false end.

Definition maybe_compact (c : cfg) (st : lsm) : lsm :=
  match pick (strat c) (levels st) with
  | None => st
  | Some s =>
      if selection_nonempty s (levels st) then
        {| mem := mem st; levels := compact_levels s (levels st);
           ncomp := ncomp st + 1; nflush := nflush st |}
      else st
  end.

(* ------------------------------------------------------------------ *)
(** * Write path *)

Definition push_l0 (t : table) (ls : list level) : list level :=
  match ls with [] => [] | l0 :: r => (l0 ++ [t]) :: r end.

(** _flush_memtable_sync (and _flush_memtable run to completion) *)
Definition flush (c : cfg) (st : lsm) : lsm :=
  match mem st with
  | [] => st
  | m => maybe_compact c {| mem := []; levels := push_l0 m (levels st);
                            ncomp := ncomp st; nflush := nflush st + 1 |}
  end.

Definition write (c : cfg) (st : lsm) (k : Z) (v : sval) : lsm :=
  let st1 := {| mem := sset k v (mem st); levels := levels st; ncomp := ncomp st; nflush := nflush st |} in
  if zlen (mem st1) >=? thr c then flush c st1 else st1.

(* ------------------------------------------------------------------ *)
(** * Read path *)

Definition tbl_get (bl : list Z -> Z -> bool) (k : Z) (t : table) : option sval :=
  if bl (keys t) k then assoc k t else None.

(** [for sstable in reversed(level)] — first hit, newest first *)
Fixpoint level_get (bl : list Z -> Z -> bool) (k : Z) (l : level) : option sval :=
  match l with
  | [] => None
  | t :: r => match level_get bl k r with Some v => Some v | None => tbl_get bl k t end
  end.

Fixpoint levels_get (bl : list Z -> Z -> bool) (k : Z) (ls : list level) : option sval :=
  match ls with
  | [] => None
  | l :: r => match level_get bl k l with Some v => Some v | None => levels_get bl k r end
  end.

Definition raw_get (bl : list Z -> Z -> bool) (st : lsm) (k : Z) : option sval :=
  match assoc k (mem st) with Some v => Some v | None => levels_get bl k (levels st) end.

Definition ext (o : option sval) : option Z :=
  match o with Some (Val v) => Some v | _ => None end.

(** LSMTree.get_sync / get *)
Definition lsm_get (bl : list Z -> Z -> bool) (st : lsm) (k : Z) : option Z := ext (raw_get bl st k).

Definition in_range (lo hi : Z) (kv : Z * sval) : bool := (lo <=? fst kv) && (fst kv <? hi).

Definition scan_level (lo hi : Z) (m : table) (l : level) : table :=
  fold_left (fun m t => add_absent m (filter (in_range lo hi) t)) (rev l) m.

Definition scan_merged (lo hi : Z) (st : lsm) : table :=
  fold_left (scan_level lo hi) (levels st) (set_all [] (filter (in_range lo hi) (mem st))).

Definition live (m : table) : list (Z * Z) :=
  flat_map (fun kv => match snd kv with Val v => [(fst kv, v)] | Tomb => [] end) m.

(** LSMTree.scan *)
Definition lsm_scan (lo hi : Z) (st : lsm) : list (Z * Z) := live (scan_merged lo hi st).

(* ------------------------------------------------------------------ *)
(** * Operation sequences and the map they are compared with *)

Inductive op := Put (k v : Z) | Del (k : Z) | Get (k : Z) | Scan (lo hi : Z).

Definition apply (c : cfg) (st : lsm) (o : op) : lsm :=
  match o with
  | Put k v => write c st k (Val v)
  | Del k => write c st k Tomb
  | Get _ | Scan _ _ => st
  end.

Definition run (c : cfg) (ops : list op) : lsm := fold_left (apply c) ops (lsm_init c).

(** The reference map. *)
Definition spec_apply (m : Z -> option Z) (o : op) : Z -> option Z :=
  match o with
  | Put k v => fun k' => if k' =? k then Some v else m k'
  | Del k => fun k' => if k' =? k then None else m k'
  | Get _ | Scan _ _ => m
  end.

Definition spec_of (ops : list op) : Z -> option Z := fold_left spec_apply ops (fun _ => None).

(* ------------------------------------------------------------------ *)
(** * Correspondence: sequential workloads *)

Inductive out := ONone | OGet (r : option Z) | OScan (r : list (Z * Z)).

Definition kv_eqb (a b : Z * sval) : bool := (fst a =? fst b) && sval_eqb (snd a) (snd b).
Definition zz_eqb (a b : Z * Z) : bool := (fst a =? fst b) && (snd a =? snd b).
Definition table_eqb := list_eqb kv_eqb.
Definition levels_eqb := list_eqb (list_eqb table_eqb).

Definition out_eqb (a b : out) : bool :=
  match a, b with
  | ONone, ONone => true
  | OGet x, OGet y => option_eqb Z.eqb x y
  | OScan x, OScan y => list_eqb zz_eqb x y
  | _, _ => false
  end.

(** Observed false positives of the real Bloom filters: (keys of table, key). *)
Definition bl_of (fps : list (list Z * Z)) (ks : list Z) (k : Z) : bool :=
  existsb (Z.eqb k) ks || existsb (fun p => list_eqb Z.eqb (fst p) ks && (snd p =? k)) fps.

Definition op_out (bl : list Z -> Z -> bool) (st : lsm) (o : op) : out :=
  match o with
  | Put _ _ | Del _ => ONone
  | Get k => OGet (lsm_get bl st k)
  | Scan lo hi => OScan (lsm_scan lo hi st)
  end.

(** snapshot = (memtable, levels, compactions, flushes) *)
Definition snap := (table * list level * Z * Z)%type.

Definition snap_eqb (st : lsm) (s : snap) : bool :=
  let '(m, ls, nc, nf) := s in
  table_eqb (mem st) m && levels_eqb (levels st) ls && (ncomp st =? nc) && (nflush st =? nf).

Fixpoint seq_ok (c : cfg) (bl : list Z -> Z -> bool) (st : lsm) (steps : list (op * out * snap)) : bool :=
  match steps with
  | [] => true
  | (o, r, s) :: rest =>
      let st' := apply c st o in
      out_eqb (op_out bl st o) r && snap_eqb st' s && seq_ok c bl st' rest
  end.

Definition ok_lsm_seq (case : cfg * list (list Z * Z) * list (op * out * snap)) : bool :=
  let '(c, fps, steps) := case in seq_ok c (bl_of fps) (lsm_init c) steps.
