(** C14 — the generator API of the LSM tree, operations that run alone:
    an operation whose segments are not interleaved with any other operation
    has exactly the effect and the result of the sequential model, hence (by
    LsmProofs) of the reference map.  This is the [_partial] counterpart of the
    refuted overlap clause. *)
From HS Require Import Base.Prelude C14.Model C14.LsmProofs.
Local Open Scope Z_scope.

Definition abs_levels (ls : list (list tbl)) : list level := map (map tdata) ls.

Definition abs (st : cstate) : lsm :=
  {| mem := c_mem st; levels := abs_levels (c_levels st); ncomp := c_ncomp st; nflush := c_nflush st |}.

(** table ids are unique inside every level *)
Definition uniq_level (l : list tbl) : Prop := NoDup (map tid l).
Definition uniq (st : cstate) : Prop :=
  (forall l, In l (c_levels st) -> uniq_level l) /\
  (forall l t, In l (c_levels st) -> In t l -> tid t < c_next st).

Lemma remove_ids_all ids l : (forall x, In x l -> existsb (Z.eqb (tid x)) ids = true) -> remove_ids ids l = [].
Proof.
  unfold remove_ids. induction l as [|x r IH]; cbn; intros H; [reflexivity|].
  rewrite (H x (or_introl eq_refl)). cbn. apply IH. intros y Hy. apply H. right. assumption.
Qed.

Lemma remove_all_ids l : remove_ids (map tid l) l = [].
Proof.
  apply remove_ids_all. intros x Hx. apply existsb_exists. exists (tid x).
  split; [apply in_map; assumption|apply Z.eqb_refl].
Qed.

Lemma remove_no_ids l : remove_ids [] l = l.
Proof. unfold remove_ids. induction l as [|t r IH]; cbn; [reflexivity|]. f_equal. exact IH. Qed.

(** removing the ids of the tables selected by [p] leaves the others, when ids are unique *)
Lemma remove_selected p l : uniq_level l ->
  map tdata (remove_ids (map tid (filter p l)) l) = map tdata (filter (fun t => negb (p t)) l).
Proof.
  unfold uniq_level, remove_ids. intros Hu. f_equal. apply filter_ext_in. intros t Ht. f_equal.
  destruct (p t) eqn:Ep.
  - apply existsb_exists. exists (tid t). split; [|apply Z.eqb_refl]. apply in_map. apply filter_In. tauto.
  - destruct (existsb (Z.eqb (tid t)) (map tid (filter p l))) eqn:E; [|reflexivity]. exfalso.
    apply existsb_exists in E. destruct E as [i [Hi Heq]]. assert (tid t = i) by lia. subst i.
    apply in_map_iff in Hi. destruct Hi as [u [Hid Hu']]. apply filter_In in Hu'. destruct Hu' as [Hu' Hpu].
    assert (u = t); [|subst; congruence].
    clear -Hu Ht Hu' Hid. induction l as [|x r IH]; [destruct Ht|]. cbn in Hu. inversion Hu; subst.
    destruct Ht as [->|Ht], Hu' as [->|Hu'].
    + reflexivity.
    + exfalso. apply H1. rewrite <- Hid. apply in_map. assumption.
    + exfalso. apply H1. rewrite Hid. apply in_map. assumption.
    + auto.
Qed.

Lemma map_filter_tdata (f : table -> bool) l :
  map tdata (filter (fun x => f (tdata x)) l) = filter f (map tdata l).
Proof. induction l as [|t r IH]; cbn; [reflexivity|]. destruct (f (tdata t)); cbn; now rewrite IH. Qed.

Lemma upd_nth_S {A} n (f : A -> A) x l : upd_nth (S n) f (x :: l) = x :: upd_nth n f l.
Proof. reflexivity. Qed.

(** index-based compaction (code) = structural compaction (sequential model) *)
Lemma compact_index_struct s : forall (ls : list (list tbl)) newid,
  (forall l, In l ls -> uniq_level l) ->
  let last := pred (length ls) in
  let t := Nat.min (S s) last in
  let srcs := nth s ls [] in
  let sd := map tdata srcs in
  let ovs := if Nat.eqb t s then [] else filter (fun x => is_overlapping sd (tdata x)) (nth t ls []) in
  let m0 := fold_left add_absent (map tdata ovs) (merge_src sd) in
  let m := if Nat.eqb t last then drop_tombs m0 else m0 in
  srcs <> [] -> m <> [] ->
  abs_levels (upd_nth t (fun l => l ++ [mkTbl newid m])
               (upd_nth t (remove_ids (map tid ovs)) (upd_nth s (remove_ids (map tid srcs)) ls)))
  = compact_levels s (abs_levels ls).
Proof.
  induction s as [|s IH]; intros ls newid Hu.
  - destruct ls as [|src rest]; cbn zeta; [cbn; intros H; congruence|].
    cbn [nth]. destruct rest as [|tgt rest'].
    + (* single (last) level *)
      cbn [length pred Nat.min Nat.eqb]. intros Hsrc Hm.
      cbn [upd_nth]. rewrite remove_all_ids. cbn [map]. rewrite remove_no_ids. cbn [app abs_levels map tdata].
      cbn [compact_levels]. destruct src as [|t0 src']; [congruence|]. cbn [map fold_left] in *.
      destruct (drop_tombs (merge_src (tdata t0 :: map tdata src'))) eqn:E; [congruence|reflexivity].
    + cbn [length pred]. assert (Nat.min 1 (S (length rest')) = 1%nat) as -> by lia.
      cbn [Nat.eqb nth]. intros Hsrc Hm.
      assert (match length rest' with O => true | S _ => false end = match rest' with [] => true | _ => false end) as Ed by (destruct rest'; reflexivity).
      rewrite Ed in *.
      cbn [upd_nth]. rewrite remove_all_ids.
      unfold abs_levels. cbn [map]. rewrite map_app. cbn [map tdata].
      rewrite remove_selected by (apply Hu; right; left; reflexivity).
      rewrite (map_filter_tdata (fun d => negb (is_overlapping (map tdata src) d))).
      rewrite map_filter_tdata in Hm |- *.
      cbn [compact_levels]. destruct src as [|t0 src']; [congruence|]. cbn [map] in *.
      unfold merged_into, overlapping. fold (abs_levels rest').
      assert (match abs_levels rest' with [] => true | _ :: _ => false end = match rest' with [] => true | _ => false end) as -> by (destruct rest'; reflexivity).
      destruct (if match rest' with [] => true | _ :: _ => false end then _ else _) eqn:E; [congruence|].
      unfold keepers. reflexivity.
  - destruct ls as [|l0 rest]; cbn zeta; [cbn; intros H; congruence|].
    destruct rest as [|l1 rest'].
    + cbn [nth]. destruct s; cbn; intros H; congruence.
    + cbn [length pred].
      replace (Nat.min (S (S s)) (S (length rest'))) with (S (Nat.min (S s) (length rest'))) by lia.
      cbn [nth Nat.eqb]. intros Hsrc Hm.
      specialize (IH (l1 :: rest') newid (fun l Hl => Hu l (or_intror Hl))). cbv zeta in IH.
      cbn [length pred] in IH.
      specialize (IH Hsrc Hm).
      rewrite !upd_nth_S. unfold abs_levels in *. cbn [map compact_levels]. f_equal. exact IH.
Qed.

Lemma compact_levels_m_empty s : forall (ls : list (list tbl)),
  let last := pred (length ls) in
  let t := Nat.min (S s) last in
  let srcs := nth s ls [] in
  let sd := map tdata srcs in
  let ovs := if Nat.eqb t s then [] else filter (fun x => is_overlapping sd (tdata x)) (nth t ls []) in
  let m0 := fold_left add_absent (map tdata ovs) (merge_src sd) in
  let m := if Nat.eqb t last then drop_tombs m0 else m0 in
  srcs <> [] -> m = [] -> compact_levels s (abs_levels ls) = abs_levels ls.
Proof.
  induction s as [|s IH]; intros ls.
  - destruct ls as [|src rest]; cbn zeta; [reflexivity|].
    cbn [nth]. destruct rest as [|tgt rest'].
    + cbn [length pred Nat.min Nat.eqb]. intros Hsrc Hm.
      cbn [abs_levels map compact_levels]. destruct src as [|t0 src']; [congruence|]. cbn [map fold_left] in *.
      now rewrite Hm.
    + cbn [length pred]. assert (Nat.min 1 (S (length rest')) = 1%nat) as -> by lia.
      cbn [Nat.eqb nth]. intros Hsrc Hm.
      assert (match length rest' with O => true | S _ => false end = match rest' with [] => true | _ => false end) as Ed by (destruct rest'; reflexivity).
      rewrite Ed in *. rewrite map_filter_tdata in Hm.
      unfold abs_levels. cbn [map compact_levels]. destruct src as [|t0 src']; [congruence|]. cbn [map] in *.
      unfold merged_into, overlapping. fold (abs_levels rest').
      assert (match abs_levels rest' with [] => true | _ :: _ => false end = match rest' with [] => true | _ => false end) as -> by (destruct rest'; reflexivity).
      now rewrite Hm.
  - destruct ls as [|l0 rest]; cbn zeta; [reflexivity|].
    destruct rest as [|l1 rest'].
    + cbn [nth]. destruct s; cbn; intros H; congruence.
    + cbn [length pred].
      replace (Nat.min (S (S s)) (S (length rest'))) with (S (Nat.min (S s) (length rest'))) by lia.
      cbn [nth Nat.eqb]. intros Hsrc Hm.
      specialize (IH (l1 :: rest')). cbv zeta in IH. cbn [length pred] in IH. specialize (IH Hsrc Hm).
      unfold abs_levels in *. cbn [map compact_levels]. f_equal. exact IH.
Qed.

Lemma selection_nonempty_nth s (ls : list (list tbl)) :
  selection_nonempty s (abs_levels ls) = match nth s ls [] with [] => false | _ => true end.
Proof.
  unfold selection_nonempty, abs_levels. revert s. induction ls as [|l r IH]; intros s.
  - destruct s; reflexivity.
  - destruct s; cbn; [destruct l; reflexivity|apply IH].
Qed.

(** ** unique ids are preserved *)

Lemma in_upd_nth {A} (f : A -> A) ls : forall n x, In x (upd_nth n f ls) -> exists y, In y ls /\ (x = y \/ x = f y).
Proof.
  induction ls as [|l r IH]; intros n x H.
  - destruct n; cbn in H; destruct H.
  - destruct n; cbn in H.
    + destruct H as [H|H]; [exists l; split; [left; reflexivity|right; auto]|exists x; split; [right; assumption|left; reflexivity]].
    + destruct H as [H|H]; [exists l; split; [left; reflexivity|left; auto]|].
      destruct (IH _ _ H) as [y [Hy Hx]]. exists y. split; [right; assumption|assumption].
Qed.

Lemma uniq_remove ids l : uniq_level l -> uniq_level (remove_ids ids l).
Proof.
  unfold uniq_level, remove_ids. induction l as [|t r IH]; cbn; intros H; [constructor|].
  inversion H; subst. destruct (negb _); cbn; [|auto]. constructor; [|auto].
  intros Hin. apply H2. apply in_map_iff in Hin. destruct Hin as [x [Hx Hin]]. apply filter_In in Hin.
  apply in_map_iff. exists x. tauto.
Qed.

Lemma in_remove ids l t : In t (remove_ids ids l) -> In t l.
Proof. unfold remove_ids. intros H. apply filter_In in H. tauto. Qed.

Lemma uniq_append l t : uniq_level l -> (forall x, In x l -> tid x < tid t) -> uniq_level (l ++ [t]).
Proof.
  unfold uniq_level. induction l as [|a r IH]; cbn; intros Hu Hlt.
  - constructor; [intros []|constructor].
  - inversion Hu; subst. constructor.
    + rewrite map_app, in_app_iff. cbn. intros [H|[H|[]]]; [auto|]. specialize (Hlt a (or_introl eq_refl)). lia.
    + apply IH; auto.
Qed.

Definition bounded (n : Z) (l : list tbl) : Prop := uniq_level l /\ forall x, In x l -> tid x < n.

Lemma bounded_remove n ids l : bounded n l -> bounded n (remove_ids ids l).
Proof. intros [A B]. split; [apply uniq_remove; assumption|]. intros x Hx. apply B. eapply in_remove; eauto. Qed.

Lemma bounded_weaken n l : bounded n l -> bounded (n + 1) l.
Proof. intros [A B]. split; [assumption|]. intros x Hx. specialize (B x Hx). lia. Qed.

Lemma bounded_append n l m : bounded n l -> bounded (n + 1) (l ++ [mkTbl n m]).
Proof.
  intros [A B]. split.
  - apply uniq_append; [assumption|]. intros x Hx. cbn. auto.
  - intros x Hx. apply in_app_iff in Hx. destruct Hx as [Hx|[<-|[]]]; [specialize (B x Hx); lia|cbn; lia].
Qed.

Lemma uniq_bounded st : uniq st <-> forall l, In l (c_levels st) -> bounded (c_next st) l.
Proof.
  unfold uniq, bounded. split.
  - intros [A B] l Hl. split; [auto|]. intros x Hx. eapply B; eauto.
  - intros H. split; [intros l Hl; apply H; assumption|]. intros l t Hl Ht. destruct (H l Hl) as [_ B]. auto.
Qed.

Lemma uniq_compact_end st s t a b m : uniq st -> uniq (compact_end st s t a b m).
Proof.
  rewrite !uniq_bounded. intros H l Hl. cbn in Hl.
  apply in_upd_nth in Hl. destruct Hl as [y [Hy Hl]].
  apply in_upd_nth in Hy. destruct Hy as [z [Hz Hy]].
  apply in_upd_nth in Hz. destruct Hz as [w [Hw Hz]].
  specialize (H w Hw).
  assert (bounded (c_next st) z) as Bz by (destruct Hz as [->| ->]; [assumption|apply bounded_remove; assumption]).
  assert (bounded (c_next st) y) as By by (destruct Hy as [->| ->]; [assumption|apply bounded_remove; assumption]).
  cbn [c_next]. destruct Hl as [->| ->]; [apply bounded_weaken; assumption|apply bounded_append; assumption].
Qed.

Definition finish_compaction (st : cstate) (r : result) : cstate :=
  match r with RYield _ (KCompactWait s t a b m) => compact_end st s t a b m | _ => st end.

Lemma compact_begin_ok c st : uniq st ->
  let '(st1, r) := compact_begin c st in
  let st2 := finish_compaction st1 r in
  abs st2 = maybe_compact c (abs st) /\ uniq st2 /\ c_imm st2 = c_imm st /\
  (r = RDone ONone \/ exists ns s t a b m, r = RYield ns (KCompactWait s t a b m)).
Proof.
  intros Hu. unfold compact_begin, maybe_compact. cbn [abs levels]. fold (abs_levels (c_levels st)).
  destruct (pick (strat c) (abs_levels (c_levels st))) as [s|]; [|cbn; auto].
  rewrite selection_nonempty_nth.
  destruct (nth s (c_levels st) []) as [|t0 srcs'] eqn:Es; [cbn; auto|].
  rewrite <- Es.
  set (last := pred (length (c_levels st))). set (t := Nat.min (S s) last).
  set (sd := map tdata (nth s (c_levels st) [])).
  set (ovs := if Nat.eqb t s then [] else filter (fun x => is_overlapping sd (tdata x)) (nth t (c_levels st) [])).
  set (m0 := fold_left add_absent (map tdata ovs) (merge_src sd)).
  set (m := if Nat.eqb t last then drop_tombs m0 else m0).
  assert (nth s (c_levels st) [] <> []) as Hne by (rewrite Es; discriminate).
  destruct m as [|p m'] eqn:Em.
  - cbn [finish_compaction]. split; [|split; [exact Hu|split; [reflexivity|left; reflexivity]]].
    unfold abs. cbn. f_equal.
    symmetry. apply (compact_levels_m_empty s (c_levels st) Hne). exact Em.
  - rewrite <- Em. cbn [finish_compaction].
    split; [|split; [apply uniq_compact_end; exact Hu|split; [reflexivity|right; eauto 10]]].
    unfold abs, compact_end. cbn. f_equal.
    apply (compact_index_struct s (c_levels st) (c_next st)); [apply Hu|exact Hne|].
    fold last t sd ovs m0. change (m <> []). rewrite Em. discriminate.
Qed.

(* ------------------------------------------------------------------ *)
(** * An operation that runs alone *)

(** the segments of one operation executed back to back *)
Fixpoint run_alone (fuel : nat) (c : cfg) (bl : list Z -> Z -> bool) (st : cstate) (a : action) : option (cstate * out) :=
  match fuel with
  | O => None
  | S f => match seg c bl st a with
           | (st', RDone r) => Some (st', r)
           | (st', RYield _ k) => run_alone f c bl st' (AResume k)
           end
  end.

Fixpoint seq_exec (fuel : nat) (c : cfg) (bl : list Z -> Z -> bool) (st : cstate) (ops : list op) : option (cstate * list out) :=
  match ops with
  | [] => Some (st, [])
  | o :: r =>
      match run_alone fuel c bl st (AStart o) with
      | None => None
      | Some (st', x) =>
          match seq_exec fuel c bl st' r with
          | None => None
          | Some (st'', xs) => Some (st'', x :: xs)
          end
      end
  end.

Definition quiet (st : cstate) : Prop := uniq st /\ c_imm st = [] /\ c_levels st <> [].

Lemma sset_nonempty k v t : sset k v t <> [].
Proof. destruct t as [|[a b] r]; cbn; [discriminate|]. destruct (k <? a); [discriminate|]. destruct (k =? a); discriminate. Qed.

Lemma abs_levels_upd0 t ls : abs_levels (upd_nth 0 (fun l => l ++ [t]) ls) = push_l0 (tdata t) (abs_levels ls).
Proof. destruct ls as [|l r]; cbn; [reflexivity|]. now rewrite map_app. Qed.

Lemma uniq_push st m :
  uniq st ->
  uniq (mkC (c_mem st) (c_mid st) [] (upd_nth 0 (fun l => l ++ [mkTbl (c_next st) m]) (c_levels st))
            (c_ncomp st) (c_nflush st + 1) (c_next st + 1)).
Proof.
  rewrite !uniq_bounded. intros H l Hl. cbn [c_levels] in Hl. cbn [c_next].
  apply in_upd_nth in Hl. destruct Hl as [y [Hy [->| ->]]].
  - apply bounded_weaken. auto.
  - apply bounded_append. auto.
Qed.

(** a write (put / delete) that runs alone = [write] of the sequential model *)
Lemma write_alone c bl st k v fuel st' r (o : op) :
  seg c bl st (AStart o) =
    (mkC (sset k v (c_mem st)) (c_mid st) (c_imm st) (c_levels st) (c_ncomp st) (c_nflush st) (c_next st),
     RYield MEM_NS (KPutWait (c_mid st))) ->
  quiet st ->
  run_alone fuel c bl st (AStart o) = Some (st', r) ->
  r = ONone /\ abs st' = write c (abs st) k v /\ quiet st'.
Proof.
  intros E1 (Hu & Hi & Hn) H.
  destruct fuel as [|fuel]; [discriminate|]. cbn [run_alone] in H.
  set (st1 := mkC (sset k v (c_mem st)) (c_mid st) (c_imm st) (c_levels st) (c_ncomp st) (c_nflush st) (c_next st)) in *.
  rewrite E1 in H. clear E1.
  destruct fuel as [|fuel]; [discriminate|]. cbn [run_alone seg] in H.
  cbn [c_mid st1] in H. rewrite Z.eqb_refl in H.
  unfold write. cbn [abs mem]. fold (zlen (sset k v (c_mem st))).
  change (zlen (mem {| mem := sset k v (c_mem st); levels := abs_levels (c_levels st); ncomp := c_ncomp st; nflush := c_nflush st |}))
    with (zlen (sset k v (c_mem st))).
  change (c_mem st1) with (sset k v (c_mem st)) in H.
  destruct (zlen (sset k v (c_mem st)) >=? thr c) eqn:Ef.
  - (* full: flush *)
    unfold flush_begin in H. change (c_mem st1) with (sset k v (c_mem st)) in H.
    destruct (sset k v (c_mem st)) as [|p m'] eqn:Em; [exfalso; eapply sset_nonempty; eauto|].
    rewrite <- Em in *.
    destruct fuel as [|fuel]; [discriminate|]. cbn [run_alone seg] in H.
    unfold flush_end in H. cbn [c_mem c_mid c_imm c_levels c_ncomp c_nflush c_next st1] in H.
    rewrite Hi in H. cbn [app filter fst] in H. rewrite Z.eqb_refl in H. cbn [negb] in H.
    set (st3 := mkC [] (c_next st + 1) [] (upd_nth 0 (fun l => l ++ [mkTbl (c_next st + 2) (sset k v (c_mem st))]) (c_levels st))
                    (c_ncomp st) (c_nflush st + 1) (c_next st + 2 + 1)) in H.
    assert (uniq st3) as Hu3.
    { pose proof (uniq_push (mkC (c_mem st) (c_mid st) [] (c_levels st) (c_ncomp st) (c_nflush st) (c_next st + 2)) (sset k v (c_mem st))) as P.
      cbn in P. rewrite !uniq_bounded in *. cbn in *. intros l Hl. apply P; [|assumption].
      intros l0 Hl0. destruct (Hu l0 Hl0) as [A B]. split; [assumption|]. intros x Hx. specialize (B x Hx). lia. }
    pose proof (compact_begin_ok c st3 Hu3) as P. destruct (compact_begin c st3) as [st4 r4].
    destruct P as (Pa & Pu & Pi & Pr).
    assert (abs st3 = {| mem := []; levels := push_l0 (sset k v (c_mem st)) (abs_levels (c_levels st));
                         ncomp := c_ncomp st; nflush := c_nflush st + 1 |}) as A3.
    { unfold abs, st3. cbn. f_equal. apply abs_levels_upd0. }
    assert (flush c {| mem := sset k v (c_mem st); levels := abs_levels (c_levels st); ncomp := c_ncomp st; nflush := c_nflush st |}
            = maybe_compact c (abs st3)) as Fl.
    { unfold flush. cbn [mem levels ncomp nflush]. rewrite Em. rewrite <- Em. rewrite A3. reflexivity. }
    change (levels (abs st)) with (abs_levels (c_levels st)); change (ncomp (abs st)) with (c_ncomp st);
    change (nflush (abs st)) with (c_nflush st).
    rewrite Fl. rewrite <- Pa.
    assert (c_levels (finish_compaction st4 r4) <> []) as Hn4.
    { intros E. assert (levels (abs (finish_compaction st4 r4)) = []) as E' by (cbn; rewrite E; reflexivity).
      rewrite Pa in E'. revert E'. unfold maybe_compact.
      assert (levels (abs st3) <> []) as N3.
      { rewrite A3. cbn. destruct (c_levels st); [congruence|discriminate]. }
      destruct (pick (strat c) (levels (abs st3))); [|exact N3].
      destruct (selection_nonempty n (levels (abs st3))); [|exact N3].
      cbn. apply compact_nonempty. exact N3. }
    destruct Pr as [->|(ns & s & t & a & b & m & ->)].
    + inversion H; subst. cbn [finish_compaction] in *.
      split; [reflexivity|split; [reflexivity|split; [exact Pu|split; [rewrite Pi; reflexivity|exact Hn4]]]].
    + destruct fuel as [|fuel]; [discriminate|]. cbn [run_alone seg] in H. inversion H; subst.
      cbn [finish_compaction] in *.
      split; [reflexivity|split; [reflexivity|split; [exact Pu|split; [rewrite Pi; reflexivity|exact Hn4]]]].
  - inversion H; subst.
    split; [reflexivity|split; [reflexivity|split; [exact Hu|split; [exact Hi|exact Hn]]]].
Qed.

(* ------------------------------------------------------------------ *)
(** * A get that runs alone *)

Section GetAlone.
Variable bl : list Z -> Z -> bool.
Hypothesis bl_no_false_negative : forall ks k, In k ks -> bl ks k = true.

(** what is still to be searched from iterator position (level suffix, n) *)
Fixpoint rest_level (k : Z) (l : list tbl) (n : nat) : option sval :=
  match n with
  | O => None
  | S n' => match nth_error l n' with
            | None => None
            | Some t => match assoc k (tdata t) with Some v => Some v | None => rest_level k l n' end
            end
  end.

Fixpoint rest_levels (k : Z) (ls : list (list tbl)) (n : nat) : option sval :=
  match ls with
  | [] => None
  | l :: r => match rest_level k l n with
              | Some v => Some v
              | None => rest_levels k r (match r with [] => O | l' :: _ => length l' end)
              end
  end.

Lemma get_level_spec k l n :
  match get_level bl k l n with
  | None => rest_level k l n = None
  | Some (n', t) => rest_level k l n = match assoc k t with Some v => Some v | None => rest_level k l n' end
  end.
Proof.
  induction n as [|n IH]; cbn; [reflexivity|].
  destruct (nth_error l n) as [t|]; [|reflexivity].
  destruct (bl (keys (tdata t)) k) eqn:Eb; cbn.
  - destruct (tdata t) as [|p r] eqn:Et; cbn.
    + exact IH.
    + reflexivity.
  - assert (assoc k (tdata t) = None) as ->.
    { destruct (assoc k (tdata t)) eqn:Ea; [|reflexivity]. apply assoc_some_keys in Ea.
      rewrite bl_no_false_negative in Eb by assumption. discriminate. }
    exact IH.
Qed.

Lemma get_levels_spec k : forall ls li n,
  match get_levels bl k ls li n with
  | RDone x => x = OGet None /\ rest_levels k ls n = None
  | RYield _ kk =>
      exists d n' t, kk = KGetWait k (li + d) n' t /\
        rest_levels k ls n = match assoc k t with Some v => Some v | None => rest_levels k (skipn d ls) n' end
  end.
Proof.
  induction ls as [|l r IH]; intros li n; cbn [get_levels].
  - split; reflexivity.
  - pose proof (get_level_spec k l n) as G. destruct (get_level bl k l n) as [[n' t]|].
    + exists 0%nat, n', t. rewrite Nat.add_0_r. split; [reflexivity|]. cbn [skipn rest_levels].
      rewrite G. destruct (assoc k t); [reflexivity|]. reflexivity.
    + specialize (IH (S li) (match r with [] => 0%nat | l' :: _ => length l' end)).
      destruct (get_levels bl k r (S li) _) as [ns kk|x].
      * destruct IH as (d & n' & t & -> & E). exists (S d), n', t. split; [f_equal; lia|].
        cbn [rest_levels skipn]. rewrite G. exact E.
      * destruct IH as [-> E]. split; [reflexivity|]. cbn [rest_levels]. rewrite G. exact E.
Qed.

Lemma skipn_plus {A} (l : list A) : forall a b, skipn a (skipn b l) = skipn (b + a) l.
Proof.
  intros a b. revert l. induction b as [|b IH]; intros l; [reflexivity|].
  destruct l as [|x r]; cbn [skipn Nat.add]; [destruct a; reflexivity|apply IH].
Qed.

Lemma get_resume_alone c fuel : forall st k li n held st' r,
  run_alone fuel c bl st (AResume (KGetWait k li n held)) = Some (st', r) ->
  st' = st /\
  r = OGet (ext (match assoc k held with Some v => Some v | None => rest_levels k (skipn li (c_levels st)) n end)).
Proof.
  induction fuel as [|fuel IH]; intros st k li n held st' r H; [discriminate|].
  cbn [run_alone seg] in H. rewrite (tbl_get_assoc bl bl_no_false_negative) in H.
  destruct (assoc k held) as [v|]; [inversion H; subst; split; reflexivity|].
  unfold get_from in H.
  pose proof (get_levels_spec k (skipn li (c_levels st)) li n) as G.
  destruct (get_levels bl k (skipn li (c_levels st)) li n) as [ns kk|x].
  - destruct G as (d & n' & t & -> & E). apply IH in H. destruct H as [-> ->]. split; [reflexivity|].
    rewrite E. rewrite skipn_plus. reflexivity.
  - destruct G as [-> E]. inversion H; subst. rewrite E. split; reflexivity.
Qed.

Lemma rest_level_lget k l : forall n, (n <= length l)%nat ->
  rest_level k l n = lget k (map tdata (firstn n l)).
Proof.
  induction n as [|n IH]; intros Hn; [reflexivity|]. cbn [rest_level].
  destruct (nth_error l n) as [t|] eqn:Et.
  - assert (firstn (S n) l = firstn n l ++ [t]) as ->.
    { clear -Et. revert n Et. induction l as [|x r IH]; intros n Et; [destruct n; discriminate|].
      destruct n; cbn in *; [inversion Et; reflexivity|]. f_equal. apply IH. assumption. }
    rewrite map_app, lget_app. cbn [map lget]. rewrite IH by lia. reflexivity.
  - apply nth_error_None in Et. lia.
Qed.

Lemma rest_levels_lsget k : forall ls,
  rest_levels k ls (match ls with [] => O | l :: _ => length l end) = lsget k (abs_levels ls).
Proof.
  induction ls as [|l r IH]; [reflexivity|]. cbn [rest_levels abs_levels map lsget].
  rewrite rest_level_lget by lia. rewrite firstn_all. fold (abs_levels r). rewrite IH. reflexivity.
Qed.

(** a get that runs alone on a quiet state returns [lsm_get] of the sequential model *)
Lemma get_alone c fuel st k st' r : c_imm st = [] ->
  run_alone fuel c bl st (AStart (Get k)) = Some (st', r) ->
  st' = st /\ r = OGet (lsm_get bl (abs st) k).
Proof.
  intros Hi H. destruct fuel as [|fuel]; [discriminate|]. cbn [run_alone seg] in H.
  unfold lsm_get. rewrite (raw_get_raw bl bl_no_false_negative). unfold raw. cbn [abs mem levels].
  destruct (assoc k (c_mem st)) as [v|]; [inversion H; subst; split; reflexivity|].
  rewrite Hi in H. cbn [imm_get] in H. unfold get_from in H. cbn [skipn] in H.
  pose proof (get_levels_spec k (c_levels st) 0 (l0_len st)) as G.
  assert (rest_levels k (c_levels st) (l0_len st) = lsget k (abs_levels (c_levels st))) as R
    by (unfold l0_len; apply rest_levels_lsget).
  destruct (get_levels bl k (c_levels st) 0 (l0_len st)) as [ns kk|x].
  - destruct G as (d & n' & t & -> & E). apply get_resume_alone in H. destruct H as [-> ->].
    split; [reflexivity|]. cbn [Nat.add]. rewrite <- R, E. reflexivity.
  - destruct G as [-> E]. inversion H; subst. rewrite <- R, E. split; reflexivity.
Qed.

(** ** A scan that runs alone *)

Definition fr (lo hi : Z) (t : table) : table := filter (in_range lo hi) t.

Fixpoint srest_level (lo hi : Z) (m : table) (l : list tbl) (n : nat) : table :=
  match n with
  | O => m
  | S n' => match nth_error l n' with
            | None => m
            | Some t => srest_level lo hi (add_absent m (fr lo hi (tdata t))) l n'
            end
  end.

Fixpoint srest_levels (lo hi : Z) (m : table) (ls : list (list tbl)) (n : nat) : table :=
  match ls with
  | [] => m
  | l :: r => srest_levels lo hi (srest_level lo hi m l n) r (match r with [] => O | l' :: _ => length l' end)
  end.

Lemma scan_level_c_spec lo hi l : forall n m,
  match scan_level_c lo hi m l n with
  | (m', None) => m' = srest_level lo hi m l n
  | (m', Some (n', t)) => srest_level lo hi m l n = srest_level lo hi (add_absent m' (fr lo hi t)) l n'
  end.
Proof.
  induction n as [|n IH]; intros m; cbn [scan_level_c srest_level]; [reflexivity|].
  destruct (nth_error l n) as [t|]; [|reflexivity].
  destruct (scan_pages lo hi (tdata t) >? 0); [reflexivity|]. apply IH.
Qed.

Lemma scan_levels_c_spec lo hi : forall ls m li n,
  match scan_levels_c lo hi m ls li n with
  | RDone x => x = OScan (live (srest_levels lo hi m ls n))
  | RYield _ kk =>
      exists d n' t m', kk = KScanWait lo hi m' (li + d) n' t /\
        srest_levels lo hi m ls n = srest_levels lo hi (add_absent m' (fr lo hi t)) (skipn d ls) n'
  end.
Proof.
  induction ls as [|l r IH]; intros m li n; cbn [scan_levels_c srest_levels]; [reflexivity|].
  pose proof (scan_level_c_spec lo hi l n m) as G. destruct (scan_level_c lo hi m l n) as [m' [[n' t]|]].
  - exists 0%nat, n', t, m'. rewrite Nat.add_0_r. split; [reflexivity|]. cbn [skipn srest_levels]. now rewrite G.
  - subst m'. specialize (IH (srest_level lo hi m l n) (S li) (match r with [] => 0%nat | l' :: _ => length l' end)).
    destruct (scan_levels_c lo hi _ r (S li) _) as [ns kk|x]; [|exact IH].
    destruct IH as (d & n' & t & m' & -> & E). exists (S d), n', t, m'. split; [f_equal; lia|]. exact E.
Qed.

Lemma scan_resume_alone c fuel : forall st lo hi m li n held st' r,
  run_alone fuel c bl st (AResume (KScanWait lo hi m li n held)) = Some (st', r) ->
  st' = st /\ r = OScan (live (srest_levels lo hi (add_absent m (fr lo hi held)) (skipn li (c_levels st)) n)).
Proof.
  induction fuel as [|fuel IH]; intros st lo hi m li n held st' r H; [discriminate|].
  cbn [run_alone seg] in H. fold (fr lo hi held) in H.
  pose proof (scan_levels_c_spec lo hi (skipn li (c_levels st)) (add_absent m (fr lo hi held)) li n) as G.
  destruct (scan_levels_c lo hi _ (skipn li (c_levels st)) li n) as [ns kk|x].
  - destruct G as (d & n' & t & m' & -> & E). apply IH in H. destruct H as [-> ->]. split; [reflexivity|].
    rewrite E, skipn_plus. reflexivity.
  - subst x. inversion H; subst. split; reflexivity.
Qed.

Lemma srest_level_scan lo hi l : forall n m, (n <= length l)%nat ->
  srest_level lo hi m l n = fold_left (fun m t => add_absent m (fr lo hi t)) (rev (map tdata (firstn n l))) m.
Proof.
  induction n as [|n IH]; intros m Hn; [reflexivity|]. cbn [srest_level].
  destruct (nth_error l n) as [t|] eqn:Et; [|apply nth_error_None in Et; lia].
  assert (firstn (S n) l = firstn n l ++ [t]) as ->.
  { clear -Et. revert n Et. induction l as [|x r IH]; intros n Et; [destruct n; discriminate|].
    destruct n; cbn in *; [inversion Et; reflexivity|]. f_equal. apply IH. assumption. }
  rewrite map_app, rev_app_distr. cbn [map rev app fold_left]. apply IH. lia.
Qed.

Lemma srest_levels_scan lo hi : forall ls m,
  srest_levels lo hi m ls (match ls with [] => O | l :: _ => length l end) =
  fold_left (scan_level lo hi) (abs_levels ls) m.
Proof.
  induction ls as [|l r IH]; intros m; [reflexivity|]. cbn [srest_levels abs_levels map fold_left].
  rewrite srest_level_scan by lia. rewrite firstn_all. fold (abs_levels r). rewrite IH. reflexivity.
Qed.

Lemma scan_alone c fuel st lo hi st' r : c_imm st = [] ->
  run_alone fuel c bl st (AStart (Scan lo hi)) = Some (st', r) ->
  st' = st /\ r = OScan (lsm_scan lo hi (abs st)).
Proof.
  intros Hi H. destruct fuel as [|fuel]; [discriminate|]. cbn [run_alone seg] in H.
  rewrite Hi in H. cbn [rev fold_left] in H.
  unfold lsm_scan, scan_merged. cbn [abs mem levels].
  set (m0 := set_all [] (filter (in_range lo hi) (c_mem st))) in *.
  pose proof (scan_levels_c_spec lo hi (c_levels st) m0 0 (l0_len st)) as G.
  assert (srest_levels lo hi m0 (c_levels st) (l0_len st) = fold_left (scan_level lo hi) (abs_levels (c_levels st)) m0) as R
    by (unfold l0_len; apply srest_levels_scan).
  destruct (scan_levels_c lo hi m0 (c_levels st) 0 (l0_len st)) as [ns kk|x].
  - destruct G as (d & n' & t & m' & -> & E). apply scan_resume_alone in H. destruct H as [-> ->].
    split; [reflexivity|]. cbn [Nat.add]. rewrite <- R, E. reflexivity.
  - subst x. inversion H; subst. rewrite R. split; reflexivity.
Qed.

(** ** Sequences of operations that each run alone *)

Lemma op_alone c fuel st o st' r : quiet st ->
  run_alone fuel c bl st (AStart o) = Some (st', r) ->
  quiet st' /\ abs st' = apply c (abs st) o /\ r = op_out bl (abs st) o.
Proof.
  intros Q H. destruct o as [k v|k|k|lo hi].
  - destruct (write_alone c bl st k (Val v) fuel st' r (Put k v) eq_refl Q H) as (-> & A & Q'). auto.
  - destruct (write_alone c bl st k Tomb fuel st' r (Del k) eq_refl Q H) as (-> & A & Q'). auto.
  - destruct Q as (Hu & Hi & Hn). destruct (get_alone c fuel st k st' r Hi H) as [-> ->].
    split; [split; [|split]; assumption|split; reflexivity].
  - destruct Q as (Hu & Hi & Hn). destruct (scan_alone c fuel st lo hi st' r Hi H) as [-> ->].
    split; [split; [|split]; assumption|split; reflexivity].
Qed.

Lemma seq_exec_ok c fuel : forall ops st st' outs, quiet st ->
  seq_exec fuel c bl st ops = Some (st', outs) ->
  abs st' = fold_left (apply c) ops (abs st) /\
  forall i o, nth_error ops i = Some o ->
    nth_error outs i = Some (op_out bl (fold_left (apply c) (firstn i ops) (abs st)) o).
Proof.
  induction ops as [|o r IH]; intros st st' outs Q H; cbn [seq_exec] in H.
  - inversion H; subst. split; [reflexivity|]. intros i o Hi. destruct i; discriminate.
  - destruct (run_alone fuel c bl st (AStart o)) as [[st1 x]|] eqn:E1; [|discriminate].
    destruct (seq_exec fuel c bl st1 r) as [[st2 xs]|] eqn:E2; [|discriminate]. inversion H; subst.
    destruct (op_alone c fuel st o st1 x Q E1) as (Q1 & A1 & ->).
    destruct (IH st1 st' xs Q1 E2) as [A2 O2]. split.
    + cbn [fold_left]. rewrite <- A1. exact A2.
    + intros i o' Hi. destruct i as [|i]; cbn in Hi |- *.
      * inversion Hi; subst. reflexivity.
      * rewrite <- A1. apply O2. assumption.
Qed.

End GetAlone.

Lemma init_quiet c : (nlev c >= 1)%nat -> quiet (c_init c).
Proof.
  intros H. split; [|split].
  - split.
    + intros l Hl. cbn in Hl. apply repeat_spec in Hl. subst. constructor.
    + intros l t Hl Ht. cbn in Hl. apply repeat_spec in Hl. subst. destruct Ht.
  - reflexivity.
  - cbn. destruct (nlev c); [lia|discriminate].
Qed.

Lemma abs_init c : abs (c_init c) = lsm_init c.
Proof. unfold abs, c_init, lsm_init, abs_levels. cbn. f_equal. induction (nlev c); cbn; [reflexivity|]. f_equal. assumption. Qed.

(** PARTIAL overlap theorem: when every operation (put, delete, get, scan
    through the generator API) runs alone — its segments are not interleaved
    with another operation's — it returns exactly what the sequential model
    returns, hence every get returns the value of the reference map and every
    scan exactly the live keys of its range in order; for every configuration,
    strategy and Bloom filter without false negatives. *)
Theorem lsm_alone_partial : forall bl, (forall ks k, In k ks -> bl ks k = true) ->
  forall c fuel ops st' outs, (nlev c >= 1)%nat ->
  seq_exec fuel c bl (c_init c) ops = Some (st', outs) ->
  forall i k, nth_error ops i = Some (Get k) ->
  nth_error outs i = Some (OGet (spec_of (firstn i ops) k)).
Proof.
  intros bl Hb c fuel ops st' outs Hn H i k Hi.
  destruct (seq_exec_ok bl Hb c fuel ops (c_init c) st' outs (init_quiet c Hn) H) as [_ O].
  rewrite (O i (Get k) Hi). cbn [op_out]. rewrite abs_init.
  change (fold_left (apply c) (firstn i ops) (lsm_init c)) with (run c (firstn i ops)).
  rewrite (lsm_get_refines_map bl Hb c (firstn i ops) k Hn). reflexivity.
Qed.

Theorem lsm_alone_scan_partial : forall bl, (forall ks k, In k ks -> bl ks k = true) ->
  forall c fuel ops st' outs, (nlev c >= 1)%nat ->
  seq_exec fuel c bl (c_init c) ops = Some (st', outs) ->
  forall i lo hi, nth_error ops i = Some (Scan lo hi) ->
  exists r, nth_error outs i = Some (OScan r) /\ strictly_increasing (map fst r) /\
    forall k v, In (k, v) r <-> (lo <= k < hi /\ spec_of (firstn i ops) k = Some v).
Proof.
  intros bl Hb c fuel ops st' outs Hn H i lo hi Hi.
  destruct (seq_exec_ok bl Hb c fuel ops (c_init c) st' outs (init_quiet c Hn) H) as [_ O].
  rewrite (O i (Scan lo hi) Hi). cbn [op_out]. rewrite abs_init.
  change (fold_left (apply c) (firstn i ops) (lsm_init c)) with (run c (firstn i ops)).
  exists (lsm_scan lo hi (run c (firstn i ops))). split; [reflexivity|].
  exact (lsm_scan_exact c (firstn i ops) lo hi Hn).
Qed.

(** the hypothesis is satisfiable: enough fuel lets every operation finish *)
Example lsm_alone_example :
  option_map snd (seq_exec 8 (mkCfg 1 2 (SizeTiered 2)) bl_exact (c_init (mkCfg 1 2 (SizeTiered 2)))
    [Put 1 10; Put 2 20; Del 1; Put 3 30; Get 1; Get 2; Scan 0 9])
  = Some [ONone; ONone; ONone; ONone; OGet None; OGet (Some 20); OScan [(2, 20); (3, 30)]].
Proof. vm_compute. reflexivity. Qed.
