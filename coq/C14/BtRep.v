(** C14 — B-tree (btree.py): representation predicate of the heap model and the
    sequential refinement of get / put / delete / scan to a sorted association
    list.  [rep h d id lo hi kvs fp]: node [id] of heap [h] is the root of a
    subtree of height [d] whose keys lie in [lo, hi), whose in-order contents
    are [kvs], and which occupies exactly the heap cells [fp] (each once). *)
From HS Require Import Base.Prelude C14.BtModel.
Local Open Scope Z_scope.

Definition bnd := option Z.
Definition lo_ok (lo : bnd) (k : Z) : Prop := match lo with None => True | Some l => l <= k end.
Definition hi_ok (hi : bnd) (k : Z) : Prop := match hi with None => True | Some x => k < x end.
Definition hi_le (hi : bnd) (k : Z) : Prop := match hi with None => True | Some x => k <= x end.

(** strictly increasing keys within [lo, hi) *)
Fixpoint keys_in (lo hi : bnd) (ks : list Z) : Prop :=
  match ks with
  | [] => True
  | k :: r => lo_ok lo k /\ hi_ok hi k /\ keys_in (Some (k + 1)) hi r
  end.

Inductive rep (h : list (Z * bnode)) : nat -> Z -> bnd -> bnd -> list (Z * Z) -> list Z -> Prop :=
| rep_leaf id lo hi :
    b_leaf (hget id h) = true -> length (b_vals (hget id h)) = length (b_keys (hget id h)) ->
    keys_in lo hi (b_keys (hget id h)) ->
    rep h 1 id lo hi (combine (b_keys (hget id h)) (b_vals (hget id h))) [id]
| rep_node d id lo hi kvs fp :
    b_leaf (hget id h) = false ->
    reps h d (b_kids (hget id h)) (b_keys (hget id h)) lo hi kvs fp -> ~ In id fp ->
    rep h (S d) id lo hi kvs (id :: fp)
with reps (h : list (Z * bnode)) : nat -> list Z -> list Z -> bnd -> bnd -> list (Z * Z) -> list Z -> Prop :=
| reps_one d c lo hi kvs fp : rep h d c lo hi kvs fp -> reps h d [c] [] lo hi kvs fp
| reps_cons d c cs k ks lo hi kvs1 fp1 kvs2 fp2 :
    rep h d c lo (Some k) kvs1 fp1 -> reps h d cs ks (Some k) hi kvs2 fp2 ->
    lo_ok lo k -> hi_le hi k -> (forall x, In x fp1 -> ~ In x fp2) ->
    reps h d (c :: cs) (k :: ks) lo hi (kvs1 ++ kvs2) (fp1 ++ fp2).

Scheme rep_ind2 := Induction for rep Sort Prop
  with reps_ind2 := Induction for reps Sort Prop.
Combined Scheme rep_reps_ind from rep_ind2, reps_ind2.

(* ------------------------------------------------------------------ *)
(** * Bounds *)
Lemma lo_ok_weaken lo lo' k : (forall x, lo_ok lo x -> lo_ok lo' x) -> lo_ok lo k -> lo_ok lo' k.
Proof. auto. Qed.

Lemma keys_in_lo lo lo' hi ks : (forall x, lo_ok lo x -> lo_ok lo' x) -> keys_in lo hi ks -> keys_in lo' hi ks.
Proof. destruct ks as [|k r]; cbn; [auto|]. intros H (A & B & C). auto. Qed.

Lemma keys_in_hi lo hi hi' ks : (forall x, hi_ok hi x -> hi_ok hi' x) -> keys_in lo hi ks -> keys_in lo hi' ks.
Proof. revert lo; induction ks as [|k r IH]; intros lo H; cbn; [auto|]. intros (A & B & C). auto. Qed.

Lemma keys_in_app lo hi a b : keys_in lo hi (a ++ b) <->
  keys_in lo hi a /\ keys_in (match rev a with [] => lo | x :: _ => Some (x + 1) end) hi b.
Proof.
  revert lo; induction a as [|k r IH]; intros lo; cbn [app rev keys_in]; [tauto|].
  rewrite IH. assert (E : match rev r ++ [k] with [] => lo | x :: _ => Some (x + 1) end =
                          match rev r with [] => Some (k + 1) | x :: _ => Some (x + 1) end)
    by (destruct (rev r); reflexivity).
  rewrite E. tauto.
Qed.

Lemma keys_in_all lo hi ks : keys_in lo hi ks -> forall k, In k ks -> lo_ok lo k /\ hi_ok hi k.
Proof.
  revert lo; induction ks as [|x r IH]; intros lo H k []; cbn in H; destruct H as (A & B & C).
  - subst. auto.
  - destruct (IH _ C k H0) as [D E]. split; [|exact E]. destruct lo; cbn in *; lia.
Qed.

(* ------------------------------------------------------------------ *)
(** * Frame *)
Lemma rep_frame h h' :
  (forall d id lo hi kvs fp, rep h d id lo hi kvs fp -> (forall x, In x fp -> hget x h' = hget x h) -> rep h' d id lo hi kvs fp) /\
  (forall d cs ks lo hi kvs fp, reps h d cs ks lo hi kvs fp -> (forall x, In x fp -> hget x h' = hget x h) -> reps h' d cs ks lo hi kvs fp).
Proof.
  apply rep_reps_ind.
  - intros id lo hi L E K F. rewrite <- (F id (or_introl eq_refl)) in *. apply rep_leaf; assumption.
  - intros d id lo hi kvs fp L R IH N F. apply rep_node; [rewrite (F id (or_introl eq_refl)); exact L| |exact N].
    rewrite (F id (or_introl eq_refl)). apply IH. intros x Hx. apply F. right. exact Hx.
  - intros d c lo hi kvs fp R IH F. apply reps_one, IH, F.
  - intros d c cs k ks lo hi kvs1 fp1 kvs2 fp2 R1 IH1 R2 IH2 A B D F. apply reps_cons; auto.
    + apply IH1. intros x Hx. apply F, in_or_app. left. exact Hx.
    + apply IH2. intros x Hx. apply F, in_or_app. right. exact Hx.
Qed.

Lemma hget_hset_same id n h : hget id (hset id n h) = n.
Proof. induction h as [|[i x] r IH]; cbn; [rewrite Z.eqb_refl; reflexivity|]. destruct (i =? id) eqn:E; cbn; rewrite E; auto. Qed.

Lemma hget_hset_other id id' n h : id' <> id -> hget id' (hset id n h) = hget id' h.
Proof.
  intros Hne. induction h as [|[i x] r IH]; cbn.
  - replace (id =? id') with false by lia. reflexivity.
  - destruct (i =? id) eqn:E; cbn.
    + apply Z.eqb_eq in E. subst i. replace (id =? id') with false by lia. reflexivity.
    + destruct (i =? id'); auto.
Qed.

(* ------------------------------------------------------------------ *)
(** * Contents are sorted and within the bounds *)
Lemma map_fst_combine (ks vs : list Z) : length vs = length ks -> map fst (combine ks vs) = ks.
Proof. revert vs; induction ks as [|k r IH]; intros [|v vs] H; cbn in *; try lia; [reflexivity|]. f_equal. apply IH. lia. Qed.

Lemma keys_in_glue lo hi k a b : keys_in lo (Some k) a -> keys_in (Some k) hi b -> lo_ok lo k -> hi_le hi k -> keys_in lo hi (a ++ b).
Proof.
  intros A B L H. apply keys_in_app. split.
  - apply (keys_in_hi lo (Some k) hi); [|exact A]. intros x Hx. destruct hi; cbn in *; lia.
  - destruct (rev a) as [|x r] eqn:E.
    + apply (keys_in_lo (Some k)); [|exact B]. intros y Hy. destruct lo; cbn in *; lia.
    + assert (In x a) by (apply in_rev; rewrite E; left; reflexivity).
      destruct (keys_in_all _ _ _ A x H0) as [_ Hx]. cbn in Hx.
      apply (keys_in_lo (Some k)); [|exact B]. intros y Hy. cbn in *. lia.
Qed.

Lemma rep_keys h :
  (forall d id lo hi kvs fp, rep h d id lo hi kvs fp -> keys_in lo hi (map fst kvs)) /\
  (forall d cs ks lo hi kvs fp, reps h d cs ks lo hi kvs fp -> keys_in lo hi (map fst kvs)).
Proof.
  apply rep_reps_ind.
  - intros id lo hi L E K. rewrite map_fst_combine by exact E. exact K.
  - auto.
  - auto.
  - intros d c cs k ks lo hi kvs1 fp1 kvs2 fp2 R1 IH1 R2 IH2 A B D. rewrite map_app. apply (keys_in_glue lo hi k); auto.
Qed.

(* ------------------------------------------------------------------ *)
(** * Lookup *)
Fixpoint assoc (k : Z) (l : list (Z * Z)) : option Z :=
  match l with [] => None | (k', v) :: r => if k' =? k then Some v else assoc k r end.

Lemma assoc_app k a b : assoc k (a ++ b) = match assoc k a with Some v => Some v | None => assoc k b end.
Proof. induction a as [|[k' v] r IH]; cbn; [reflexivity|]. destruct (k' =? k); auto. Qed.

Lemma assoc_none k l : ~ In k (map fst l) -> assoc k l = None.
Proof.
  induction l as [|[k' v] r IH]; cbn; [reflexivity|]. intros H. destruct (k' =? k) eqn:E; [exfalso; apply H; left; lia|].
  apply IH. intros X. apply H. right. exact X.
Qed.

Lemma assoc_none_bounds lo hi k l : keys_in lo hi (map fst l) -> (~ lo_ok lo k \/ ~ hi_ok hi k) -> assoc k l = None.
Proof.
  intros K H. apply assoc_none. intros X. destruct (keys_in_all _ _ _ K k X). tauto.
Qed.

Lemma leaf_lookup_assoc lo hi ks vs k : keys_in lo hi ks -> length vs = length ks ->
  leaf_lookup (mkNode true ks vs []) k = assoc k (combine ks vs).
Proof.
  unfold leaf_lookup. cbn [b_keys b_vals]. revert lo vs; induction ks as [|x r IH]; intros lo vs K E; [reflexivity|].
  destruct vs as [|v vr]; [cbn in E; lia|]. cbn [bisect_left combine assoc]. destruct K as (A & B & C).
  destruct (x <? k) eqn:E1.
  - replace (x =? k) with false by lia. specialize (IH (Some (x + 1)) vr C ltac:(cbn in E; lia)).
    cbn [length nth]. rewrite <- IH. destruct (bisect_left r k <? length r)%nat eqn:E2.
    + replace (S (bisect_left r k) <? S (length r))%nat with true by (apply Nat.ltb_lt in E2; symmetry; apply Nat.ltb_lt; lia). reflexivity.
    + replace (S (bisect_left r k) <? S (length r))%nat with false by (apply Nat.ltb_ge in E2; symmetry; apply Nat.ltb_ge; lia). reflexivity.
  - cbn [length nth Nat.ltb Nat.leb andb]. destruct (x =? k) eqn:E2; [reflexivity|].
    symmetry. apply (assoc_none_bounds (Some (x + 1)) hi); [rewrite map_fst_combine by (cbn in E; lia); exact C|]. left. cbn. lia.
Qed.

Lemma leaf_lookup_node n k : leaf_lookup n k = leaf_lookup (mkNode true (b_keys n) (b_vals n) []) k.
Proof. reflexivity. Qed.

Lemma rep_lookup h :
  (forall d id lo hi kvs fp, rep h d id lo hi kvs fp ->
     forall f t k, heap t = h -> (d <= f)%nat -> leaf_lookup (hget (find_leaf f t id k) h) k = assoc k kvs) /\
  (forall d cs ks lo hi kvs fp, reps h d cs ks lo hi kvs fp ->
     forall f t k, heap t = h -> (d <= f)%nat ->
       leaf_lookup (hget (find_leaf f t (nth (bisect_right ks k) cs (-1)) k) h) k = assoc k kvs).
Proof.
  apply rep_reps_ind.
  - intros id lo hi L E K f t k Ht Hf. destruct f as [|f]; [lia|]. cbn [find_leaf]. rewrite Ht, L.
    rewrite leaf_lookup_node. apply (leaf_lookup_assoc lo hi); assumption.
  - intros d id lo hi kvs fp L R IH N f t k Ht Hf. destruct f as [|f]; [lia|]. cbn [find_leaf]. rewrite Ht, L.
    apply IH; [exact Ht|lia].
  - intros d c lo hi kvs fp R IH f t k Ht Hf. cbn [bisect_right nth]. apply IH; assumption.
  - intros d c cs k0 ks lo hi kvs1 fp1 kvs2 fp2 R1 IH1 R2 IH2 A B D f t k Ht Hf.
    cbn [bisect_right]. rewrite assoc_app.
    destruct (rep_keys h) as [RK1 RK2].
    destruct (k0 <=? k) eqn:E.
    + cbn [nth]. rewrite (assoc_none_bounds lo (Some k0) k kvs1 (RK1 _ _ _ _ _ _ R1)) by (right; cbn; lia).
      apply IH2; assumption.
    + cbn [nth]. rewrite (IH1 f t k Ht Hf).
      destruct (assoc k kvs1); [reflexivity|].
      symmetry. apply (assoc_none_bounds (Some k0) hi k kvs2 (RK2 _ _ _ _ _ _ _ R2)). left. cbn. lia.
Qed.
