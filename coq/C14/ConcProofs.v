(** C14 — overlapping operations on the LSM tree (generator API step machine):
    the overlap clause is refuted on the faithful model by two concrete
    schedules (known findings C14-lsm-compaction-not-isolated and
    C14-lsm-read-overlaps-compaction). *)
From HS Require Import Base.Prelude C14.Model C14.LsmProofs.
Local Open Scope Z_scope.

(** The overlap clause: for every configuration and every schedule, every read
    of the resulting history is admissible. *)
Definition lsm_overlap_statement : Prop :=
  forall c sch, (nlev c >= 1)%nat -> reads_ok (history c bl_exact sch) = true.

(** Witness 1: a flush installs a tombstone while a compaction is suspended in
    its write delay; the flush's own compaction drops the tombstone (deepest
    level) and the first compaction then installs the older value as the
    newest table.  The final read overlaps nothing. *)
Definition w1_cfg := mkCfg 1 1 (SizeTiered 2).
Definition w1_sched : list sched_step :=
  [SStart 1 (Put 1 10); SResume 1; SResume 1;
   SStart 2 (Put 2 20); SResume 2; SResume 2;          (* flush installed, compaction A suspended *)
   SStart 3 (Del 1); SResume 3; SResume 3;             (* tombstone flushed into L0, compaction B suspended *)
   SResume 2;                                          (* A installs {1:10, 2:20} *)
   SResume 3;                                          (* B installs {2:20}; delete completed *)
   SStart 4 (Get 1); SResume 4].

Lemma w1_history_tail :
  last (history w1_cfg bl_exact w1_sched) (HBad 0) = HDone 4 (OGet (Some 10)).
Proof. vm_compute. reflexivity. Qed.

Lemma w1_not_ok : reads_ok (history w1_cfg bl_exact w1_sched) = false.
Proof. vm_compute. reflexivity. Qed.

Theorem lsm_overlap_refuted : ~ lsm_overlap_statement.
Proof.
  intros H. specialize (H w1_cfg w1_sched). rewrite w1_not_ok in H.
  assert (nlev w1_cfg >= 1)%nat as N by (cbn; lia). specialize (H N). discriminate.
Qed.

(** Witness 2: a scan is suspended holding the newest L0 table when a
    compaction replaces the whole level; its reversed-list iterator is then out
    of range and the scan ends without the keys of the older tables.  No two
    compactions overlap and no write is concurrent with the scan. *)
Definition w2_cfg := mkCfg 1 1 (SizeTiered 3).
Definition w2_sched : list sched_step :=
  [SStart 1 (Put 1 10); SResume 1; SResume 1;
   SStart 2 (Put 2 20); SResume 2; SResume 2;
   SStart 3 (Put 3 30); SResume 3; SResume 3;          (* compaction of [S1;S2;S3] suspended *)
   SStart 4 (Scan 1 4);                                (* holds S3, next index 1 *)
   SResume 3;                                          (* L0 := [merged] *)
   SResume 4].

Lemma w2_history_tail :
  last (history w2_cfg bl_exact w2_sched) (HBad 0) = HDone 4 (OScan [(3, 30)]).
Proof. vm_compute. reflexivity. Qed.

(** the statement restricted to schedules in which no compaction overlaps a
    flush install or another compaction is still false *)
Theorem lsm_scan_overlap_refuted : reads_ok (history w2_cfg bl_exact w2_sched) = false.
Proof. vm_compute. reflexivity. Qed.
