(** C14 — KVStore is linearizable at completion points (any overlap), and
    SERIALIZABLE transactions read the values current at their commit point. *)
From HS Require Import Base.Prelude C14.KvTxnModel.
Local Open Scope Z_scope.

(* ------------------------------------------------------------------ *)
(** * KVStore *)

Definition ev_op (e : Z * kop * kout) : kop := snd (fst e).
Definition ev_out (e : Z * kop * kout) : kout := snd e.

(** For ANY interleaving of starts and completions, the results of all
    operations and the final contents are those of executing the operations
    one at a time in the order of their completions. *)
Theorem kv_linearizable : forall sch d ps,
  let '(w', es) := kv_run (d, ps) sch in
  kv_seq d (map ev_op es) = (fst w', map ev_out es).
Proof.
  induction sch as [|s r IH]; intros d ps; cbn [kv_run].
  - reflexivity.
  - destruct (kv_step (d, ps) s) as [w1 e] eqn:E1.
    destruct w1 as [d1 ps1]. specialize (IH d1 ps1).
    destruct (kv_run (d1, ps1) r) as [w2 es] eqn:E2.
    destruct s as [oid o|oid]; cbn in E1.
    + inversion E1; subst. exact IH.
    + destruct (pget oid ps) as [o|] eqn:Ep.
      * destruct (kv_apply d o) as [d' x] eqn:Ea. inversion E1; subst.
        cbn [map kv_seq ev_op ev_out fst snd]. rewrite Ea. rewrite IH. reflexivity.
      * inversion E1; subst. exact IH.
Qed.

(** the single-key map law of the sequential reference *)
Lemma dget_dset k v d k' : dget k' (dset k v d) = if k' =? k then Some v else dget k' d.
Proof.
  induction d as [|[a b] r IH]; cbn.
  - destruct (k' =? k); reflexivity.
  - destruct (k <? a) eqn:E1; cbn; [reflexivity|].
    destruct (k =? a) eqn:E2; cbn.
    + destruct (k' =? k) eqn:E3; [reflexivity|]. assert (k' =? a = false) as -> by lia. reflexivity.
    + destruct (k' =? a) eqn:E3; [assert (k' =? k = false) as -> by lia; reflexivity|apply IH].
Qed.

Fixpoint dsorted (d : dict) : Prop :=
  match d with [] => True | (k, _) :: r => (forall k', In k' (map fst r) -> k < k') /\ dsorted r end.

Lemma dget_in k d v : dget k d = Some v -> In k (map fst d).
Proof.
  induction d as [|[a b] r IH]; cbn; [discriminate|].
  destruct (k =? a) eqn:E; [intros _; left; lia|intros H; right; auto].
Qed.

Lemma keys_dset k v d k' : In k' (map fst (dset k v d)) <-> k' = k \/ In k' (map fst d).
Proof.
  induction d as [|[a b] r IH]; cbn; [intuition congruence|].
  destruct (k <? a) eqn:E1; cbn; [intuition congruence|].
  destruct (k =? a) eqn:E2; cbn.
  - assert (k = a) by lia. subst. intuition congruence.
  - rewrite IH. intuition congruence.
Qed.

Lemma dsorted_dset k v d : dsorted d -> dsorted (dset k v d).
Proof.
  induction d as [|[a b] r IH]; cbn.
  - intros _. split; [intros ? []|exact I].
  - intros [H1 H2]. destruct (k <? a) eqn:E1.
    + cbn. split; [|split; assumption]. intros k' [<-|Hin]; [lia|]. specialize (H1 _ Hin). lia.
    + destruct (k =? a) eqn:E2.
      * cbn. assert (k = a) by lia. subst. split; assumption.
      * cbn. split; [|apply IH; assumption].
        intros k' Hin. apply keys_dset in Hin. destruct Hin as [->|Hin]; [lia|auto].
Qed.

Lemma dget_ddel k d k' : dsorted d -> dget k' (ddel k d) = if k' =? k then None else dget k' d.
Proof.
  induction d as [|[a b] r IH]; cbn; intros Hs.
  - destruct (k' =? k); reflexivity.
  - destruct Hs as [H1 H2]. destruct (k =? a) eqn:E.
    + assert (k = a) by lia. subst. destruct (k' =? a) eqn:E'; [|reflexivity].
      assert (k' = a) by lia. subst. destruct (dget a r) eqn:Er; [|reflexivity].
      apply dget_in in Er. specialize (H1 _ Er). lia.
    + cbn. destruct (k' =? a) eqn:E'.
      * assert (k' =? k = false) as -> by lia. reflexivity.
      * apply IH. assumption.
Qed.

Lemma dsorted_ddel k d : dsorted d -> dsorted (ddel k d).
Proof.
  induction d as [|[a b] r IH]; cbn; intros Hs; [exact I|].
  destruct Hs as [H1 H2]. destruct (k =? a); [assumption|]. cbn. split; [|auto].
  intros k' Hin. apply H1. clear -Hin. induction r as [|[c e] r IH]; cbn in *; [assumption|].
  destruct (k =? c); cbn in *; [right; assumption|]. destruct Hin; [left; assumption|right; auto].
Qed.

(** the sequential reference is a map: a read returns the latest preceding write *)
Definition kspec_apply (m : Z -> option Z) (o : kop) : Z -> option Z :=
  match o with
  | KPut k v => fun k' => if k' =? k then Some v else m k'
  | KDel k => fun k' => if k' =? k then None else m k'
  | KGet _ => m
  end.

Lemma kv_apply_spec d o m : dsorted d -> (forall k, dget k d = m k) ->
  dsorted (fst (kv_apply d o)) /\ (forall k, dget k (fst (kv_apply d o)) = kspec_apply m o k) /\
  match o with KGet k => snd (kv_apply d o) = KOGet (m k) | _ => True end.
Proof.
  intros Hs Hm. destruct o as [k v|k|k]; cbn.
  - split; [apply dsorted_dset; assumption|]. split; [|exact I]. intros k'. rewrite dget_dset, Hm. reflexivity.
  - destruct (dget k d) eqn:E; cbn.
    + split; [apply dsorted_ddel; assumption|]. split; [|exact I]. intros k'. rewrite dget_ddel, Hm by assumption. reflexivity.
    + split; [assumption|]. split; [|exact I]. intros k'. destruct (k' =? k) eqn:Ek; [|apply Hm].
      assert (k' = k) by lia. subst. assumption.
  - split; [assumption|]. split; [assumption|]. now rewrite Hm.
Qed.

(** Every read of the sequential reference returns the value of the latest
    preceding write to its key (the reference is a map). *)
Theorem kv_seq_is_map : forall ops d m, dsorted d -> (forall k, dget k d = m k) ->
  forall i k, nth_error ops i = Some (KGet k) ->
  nth_error (snd (kv_seq d ops)) i = Some (KOGet (fold_left kspec_apply (firstn i ops) m k)).
Proof.
  induction ops as [|o r IH]; intros d m Hs Hm i k Hi; [destruct i; discriminate|].
  cbn [kv_seq]. destruct (kv_apply d o) as [d1 x] eqn:Ea. destruct (kv_seq d1 r) as [d2 xs] eqn:Es.
  destruct (kv_apply_spec d o m Hs Hm) as (S1 & M1 & G1). rewrite Ea in S1, M1, G1. cbn [fst snd] in *.
  destruct i as [|i]; cbn in Hi |- *.
  - inversion Hi; subst. rewrite G1. reflexivity.
  - specialize (IH d1 (kspec_apply m o) S1 M1 i k Hi). rewrite Es in IH. exact IH.
Qed.

(* ------------------------------------------------------------------ *)
(** * Transactions: backward validation gives commit-order serializability *)

Definition entry_tx (e : entry) : Z := fst (fst (fst e)).
Definition entry_ver (e : entry) : Z := snd (fst (fst e)).
Definition entry_ws (e : entry) : list Z := snd (fst e).

Lemma zmem_in k l : zmem k l = true <-> In k l.
Proof.
  unfold zmem. rewrite existsb_exists. split.
  - intros [x [H E]]. assert (k = x) by lia. subst. assumption.
  - intros H. exists k. split; [assumption|lia].
Qed.

Lemma inter_true a b k : In k a -> In k b -> inter a b = true.
Proof. intros Ha Hb. unfold inter. apply existsb_exists. exists k. split; [assumption|]. apply zmem_in. assumption. Qed.

Lemma in_zadd k l k' : In k' (zadd k l) <-> k' = k \/ In k' l.
Proof.
  unfold zadd. destruct (zmem k l) eqn:E.
  - apply zmem_in in E. split; [tauto|]. intros [->|H]; assumption.
  - rewrite in_app_iff. cbn. intuition congruence.
Qed.

(** the invariant on one transaction *)
Definition tx_inv (m : mgr) (t : txn) : Prop :=
  t_id t < m_next m /\ t_snap t <= m_version m /\
  (forall k v, In (k, v) (t_reads t) -> In k (t_rset t)) /\
  match t_status t with
  | Active =>
      forall k v, In (k, v) (t_reads t) ->
        dget k (m_store m) = v \/
        exists e, In e (m_log m) /\ entry_ver e > t_snap t /\ entry_tx e <> t_id t /\ In k (entry_ws e)
  | Committed => t_iso t = SER -> forall k v, In (k, v) (t_reads t) -> dget k (t_cstore t) = v
  | Aborted => True
  end.

Definition I1 (m : mgr) : Prop := forall id t, tx_get id (m_txs m) = Some t -> tx_inv m t.
Definition I2 (m : mgr) : Prop := forall e, In e (m_log m) -> entry_ver e <= m_version m.
Definition has_read (m : mgr) (tx k : Z) : Prop := exists t, tx_get tx (m_txs m) = Some t /\ In k (t_rset t).
Definition mono (m m' : mgr) : Prop := forall tx k, has_read m tx k -> has_read m' tx k.

Definition w_inv (w : tworld) : Prop :=
  I1 (fst w) /\ I2 (fst w) /\
  (forall oid tx k, pget oid (snd w) = Some (PRead tx k) -> has_read (fst w) tx k).

Lemma tx_get_id id ts t : tx_get id ts = Some t -> t_id t = id.
Proof.
  induction ts as [|x r IH]; cbn; [discriminate|].
  destruct (t_id x =? id) eqn:E; [intros H; inversion H; subst; lia|assumption].
Qed.

Lemma tx_get_put t ts id :
  tx_get id (tx_put t ts) = if t_id t =? id then Some t else tx_get id ts.
Proof.
  induction ts as [|x r IH]; cbn.
  - reflexivity.
  - destruct (t_id x =? t_id t) eqn:E; cbn.
    + destruct (t_id t =? id) eqn:E2; [reflexivity|]. assert (t_id x =? id = false) as -> by lia. reflexivity.
    + destruct (t_id x =? id) eqn:E2.
      * assert (t_id t =? id = false) as -> by lia. reflexivity.
      * apply IH.
Qed.

Lemma tx_get_app ts t id :
  tx_get id (ts ++ [t]) = match tx_get id ts with Some x => Some x | None => if t_id t =? id then Some t else None end.
Proof. induction ts as [|x r IH]; cbn; [reflexivity|]. destruct (t_id x =? id); [reflexivity|apply IH]. Qed.

Lemma pget_pdel {A} oid oid' (ps : list (Z * A)) :
  pget oid (pdel oid' ps) = if oid =? oid' then None else pget oid ps.
Proof.
  unfold pdel. induction ps as [|[i x] r IH]; cbn [filter pget fst].
  - destruct (oid =? oid'); reflexivity.
  - destruct (i =? oid') eqn:E1; cbn [negb pget].
    + rewrite IH. destruct (oid =? oid') eqn:E2; [reflexivity|]. assert (i =? oid = false) as -> by lia. reflexivity.
    + destruct (i =? oid) eqn:E2.
      * assert (oid =? oid' = false) as -> by lia. reflexivity.
      * apply IH.
Qed.

Lemma dget_apply_writes ws : forall d k, ~ In k (map fst ws) -> dget k (apply_writes d ws) = dget k d.
Proof.
  unfold apply_writes. induction ws as [|[a b] r IH]; cbn; intros d k Hn; [reflexivity|].
  rewrite IH by tauto. rewrite dget_dset. destruct (k =? a) eqn:E; [exfalso; apply Hn; left; lia|reflexivity].
Qed.

(** tx_inv looks at the manager only through next/version/store/log *)
Lemma tx_inv_ext m m' t :
  m_next m' = m_next m -> m_version m' = m_version m -> m_store m' = m_store m -> m_log m' = m_log m ->
  tx_inv m t -> tx_inv m' t.
Proof. unfold tx_inv. intros -> -> -> ->. tauto. Qed.

Lemma conflict_detected m t e k :
  t_iso t = SER -> In e (m_log m) -> entry_ver e > t_snap t -> entry_tx e <> t_id t ->
  In k (entry_ws e) -> In k (t_rset t) -> check_conflict m t = true.
Proof.
  intros Hi He Hv Ht Hk Hr. unfold check_conflict. rewrite Hi. apply existsb_exists. exists e. split; [assumption|].
  destruct e as [[[tx ver] ws] rs]. unfold entry_ver, entry_tx, entry_ws in *. cbn in *.
  assert (ver <=? t_snap t = false) as -> by lia. assert (tx =? t_id t = false) as -> by lia.
  rewrite Hi. rewrite (inter_true (t_rset t) ws k Hr Hk). now rewrite orb_true_r.
Qed.

(** replacing one transaction record by [t'] (same id), manager otherwise unchanged *)
Lemma upd_tx_I1 m t t' : I1 m -> tx_get (t_id t') (m_txs m) = Some t -> tx_inv m t' -> I1 (upd_tx m t').
Proof.
  intros H Hg Ht id x Hx. cbn in Hx. rewrite tx_get_put in Hx.
  destruct (t_id t' =? id).
  - inversion Hx; subst. eapply tx_inv_ext; [..|exact Ht]; reflexivity.
  - eapply tx_inv_ext; [..|exact (H id x Hx)]; reflexivity.
Qed.

Lemma upd_tx_mono m t t' : tx_get (t_id t') (m_txs m) = Some t ->
  (forall k, In k (t_rset t) -> In k (t_rset t')) -> mono m (upd_tx m t').
Proof.
  intros Hg Hsub tx k [x [Hx Hk]]. unfold has_read. cbn. rewrite tx_get_put.
  destruct (t_id t' =? tx) eqn:E.
  - exists t'. split; [reflexivity|]. assert (t_id t' = tx) by lia. subst. rewrite Hg in Hx. inversion Hx; subst. auto.
  - exists x. tauto.
Qed.

Lemma mono_refl m : mono m m.
Proof. intros tx k H. exact H. Qed.

(** [t_start]: invariant, monotonicity of read sets, and a read that is left
    pending has registered its key *)
Ltac split4 := split; [|split; [|split]].
Ltac triv4 H1 H2 := split; [exact H1|split; [exact H2|split; [apply mono_refl|intros; discriminate]]].

Lemma t_start_ok m o : I1 m -> I2 m ->
  let '(m', r) := t_start m o in
  I1 m' /\ I2 m' /\ mono m m' /\
  (forall ns tx k, r = TYield ns (PRead tx k) -> has_read m' tx k).
Proof.
  intros H1 H2. destruct o as [i|tx k|tx k v|tx|tx]; cbn [t_start].
  - (* begin *)
    split4.
    + intros id t Hg. cbn in Hg. rewrite tx_get_app in Hg. destruct (tx_get id (m_txs m)) as [x|] eqn:Ex.
      * inversion Hg; subst. destruct (H1 id t Ex) as (A & B & C & D). repeat split; cbn; try assumption; lia.
      * cbn in Hg. destruct (m_next m =? id); [|discriminate]. inversion Hg; subst.
        repeat split; cbn; try lia; intros ? ? [].
    + exact H2.
    + intros tx k [x [Hx Hk]]. exists x. split; [|assumption]. cbn. rewrite tx_get_app, Hx. reflexivity.
    + intros ns tx k H. discriminate.
  - (* read *)
    destruct (tx_get tx (m_txs m)) as [t|] eqn:Eg; [|triv4 H1 H2].
    destruct (negb (is_active t)) eqn:Ea; [triv4 H1 H2|].
    pose proof (tx_get_id _ _ _ Eg) as Hid.
    set (t' := mkTxn (t_id t) (t_iso t) (t_snap t) (zadd k (t_rset t)) (t_wset t) (t_status t) (t_reads t) (t_cstore t)).
    assert (tx_inv m t') as Ht'.
    { destruct (H1 tx t Eg) as (A & B & C & D). repeat split; cbn; try assumption.
      intros k0 v0 Hin. apply in_zadd. right. eauto. }
    assert (tx_get (t_id t') (m_txs m) = Some t) as Hg' by (cbn; rewrite Hid; assumption).
    assert (mono m (upd_tx m t')) as Hm.
    { apply (upd_tx_mono m t t' Hg'). intros k0 Hk0. cbn. apply in_zadd. tauto. }
    assert (has_read (upd_tx m t') tx k) as Hr.
    { exists t'. split; [cbn; rewrite tx_get_put; cbn; assert (t_id t =? tx = true) as -> by lia; reflexivity|].
      cbn. apply in_zadd. tauto. }
    destruct (dget k (t_wset t)); (split4; [eapply upd_tx_I1; eauto|exact H2|exact Hm|]).
    + discriminate.
    + intros ns tx0 k0 H. inversion H; subst. exact Hr.
  - (* write *)
    destruct (tx_get tx (m_txs m)) as [t|] eqn:Eg; [|triv4 H1 H2].
    destruct (negb (is_active t)) eqn:Ea; [triv4 H1 H2|].
    pose proof (tx_get_id _ _ _ Eg) as Hid.
    set (t' := mkTxn _ _ _ _ _ _ _ _).
    assert (tx_get (t_id t') (m_txs m) = Some t) as Hg' by (cbn; rewrite Hid; assumption).
    split4.
    + eapply upd_tx_I1; eauto. destruct (H1 tx t Eg) as (A & B & C & D). repeat split; cbn; assumption.
    + exact H2.
    + apply (upd_tx_mono m t t' Hg'). auto.
    + discriminate.
  - (* commit *)
    destruct (tx_get tx (m_txs m)) as [t|] eqn:Eg; [|triv4 H1 H2].
    destruct (negb (is_active t)) eqn:Ea; [triv4 H1 H2|].
    pose proof (tx_get_id _ _ _ Eg) as Hid.
    assert (t_status t = Active) as Hact by (unfold is_active in Ea; destruct (t_status t); cbn in Ea; congruence).
    destruct (H1 tx t Eg) as (A & B & C & D). rewrite Hact in D.
    destruct (check_conflict m t) eqn:Ec.
    + set (t' := mkTxn _ _ _ _ _ _ _ _).
      assert (tx_get (t_id t') (m_txs m) = Some t) as Hg' by (cbn; rewrite Hid; assumption).
      split4.
      * eapply upd_tx_I1; eauto. repeat split; cbn; assumption.
      * exact H2.
      * apply (upd_tx_mono m t t' Hg'). auto.
      * discriminate.
    + set (t' := mkTxn (t_id t) (t_iso t) (t_snap t) (t_rset t) (t_wset t) Committed (t_reads t) (m_store m)).
      set (e' := (t_id t, m_version m + 1, map fst (t_wset t), t_rset t)).
      split4.
      * intros id x Hx. cbn in Hx. rewrite tx_get_put in Hx. cbn [t_id t'] in Hx.
        destruct (t_id t =? id) eqn:Ei.
        -- inversion Hx; subst x. repeat split; cbn; try assumption; try lia.
           intros Hser k0 v0 Hin. destruct (D k0 v0 Hin) as [Hd|[e (He & Hv & Ht & Hk)]]; [assumption|].
           exfalso. rewrite (conflict_detected m t e k0 Hser He Hv Ht Hk (C _ _ Hin)) in Ec. discriminate.
        -- destruct (H1 id x Hx) as (A' & B' & C' & D'). pose proof (tx_get_id _ _ _ Hx) as Hidx.
           repeat split; cbn; try assumption; try lia.
           destruct (t_status x); [|exact D'|exact I].
           intros k0 v0 Hin. destruct (D' k0 v0 Hin) as [Hd|[e (He & Hv & Ht & Hk)]].
           ++ destruct (in_dec Z.eq_dec k0 (map fst (t_wset t))) as [Hw|Hw].
              ** right. exists e'. split; [apply in_app_iff; right; left; reflexivity|].
                 unfold e', entry_ver, entry_tx, entry_ws. cbn. repeat split; [lia|lia|assumption].
              ** left. rewrite dget_apply_writes by assumption. assumption.
           ++ right. exists e. split; [apply in_app_iff; left; assumption|]. tauto.
      * intros e He. cbn in He. apply in_app_iff in He. destruct He as [He|[<-|[]]].
        -- specialize (H2 e He). cbn. lia.
        -- unfold entry_ver. cbn. lia.
      * intros tx0 k0 [x [Hx Hk]]. unfold has_read. cbn. rewrite tx_get_put. cbn [t_id t'].
        destruct (t_id t =? tx0) eqn:E.
        -- exists t'. split; [reflexivity|]. assert (tx0 = tx) by lia. subst. rewrite Eg in Hx. inversion Hx; subst. assumption.
        -- exists x. tauto.
      * discriminate.
  - (* abort *)
    destruct (tx_get tx (m_txs m)) as [t|] eqn:Eg; [|triv4 H1 H2].
    destruct (negb (is_active t)) eqn:Ea; [triv4 H1 H2|].
    pose proof (tx_get_id _ _ _ Eg) as Hid.
    destruct (H1 tx t Eg) as (A & B & C & D).
    set (t' := mkTxn _ _ _ _ _ _ _ _).
    assert (tx_get (t_id t') (m_txs m) = Some t) as Hg' by (cbn; rewrite Hid; assumption).
    split4.
    + eapply upd_tx_I1; eauto. repeat split; cbn; assumption.
    + exact H2.
    + apply (upd_tx_mono m t t' Hg'). auto.
    + discriminate.
Qed.

Lemma t_resume_ok m p : I1 m -> I2 m ->
  (forall tx k, p = PRead tx k -> has_read m tx k) ->
  I1 (fst (t_resume m p)) /\ I2 (fst (t_resume m p)) /\ mono m (fst (t_resume m p)).
Proof.
  intros H1 H2 Hp. destruct p as [id|tx k| |]; cbn [t_resume fst]; try (split; [exact H1|split; [exact H2|apply mono_refl]]).
  destruct (tx_get tx (m_txs m)) as [t|] eqn:Eg; [|cbn; split; [exact H1|split; [exact H2|apply mono_refl]]].
  destruct (is_active t) eqn:Ea; [|cbn; split; [exact H1|split; [exact H2|apply mono_refl]]].
  cbn [fst]. pose proof (tx_get_id _ _ _ Eg) as Hid.
  assert (t_status t = Active) as Hact by (unfold is_active in Ea; destruct (t_status t); congruence).
  destruct (H1 tx t Eg) as (A & B & C & D). rewrite Hact in D.
  destruct (Hp tx k eq_refl) as [t0 [Ht0 Hk]]. rewrite Eg in Ht0. inversion Ht0; subst t0.
  set (t' := mkTxn _ _ _ _ _ _ _ _).
  assert (tx_get (t_id t') (m_txs m) = Some t) as Hg' by (cbn; rewrite Hid; assumption).
  split; [|split].
  - eapply upd_tx_I1; eauto. repeat split; cbn; try assumption.
    + intros k0 v0 Hin. apply in_app_iff in Hin. destruct Hin as [Hin|[Hin|[]]]; [eauto|]. inversion Hin; subst. assumption.
    + rewrite Hact. intros k0 v0 Hin. apply in_app_iff in Hin. destruct Hin as [Hin|[Hin|[]]]; [auto|].
      inversion Hin; subst. left. reflexivity.
  - exact H2.
  - apply (upd_tx_mono m t t' Hg'). auto.
Qed.

Lemma step_inv w s : w_inv w -> w_inv (fst (t_step w s)).
Proof.
  destruct w as [m ps]. intros (H1 & H2 & H3). cbn [fst snd] in *. destruct s as [oid o|oid]; cbn [t_step].
  - pose proof (t_start_ok m o H1 H2) as H. destruct (t_start m o) as [m' r]. destruct H as (A & B & C & D).
    destruct r as [ns p|x]; cbn [fst snd]; (split; [exact A|split; [exact B|]]); cbn [fst snd].
    + intros oid' tx k Hp. cbn in Hp. destruct (oid =? oid') eqn:E.
      * inversion Hp; subst. eapply D. reflexivity.
      * apply C. eapply H3. eassumption.
    + intros oid' tx k Hp. apply C. eapply H3. eassumption.
  - destruct (pget oid ps) as [p|] eqn:Ep; [|split; [exact H1|split; [exact H2|exact H3]]].
    assert (forall tx k, p = PRead tx k -> has_read m tx k) as Hp by (intros tx k ->; eapply H3; eassumption).
    destruct (t_resume_ok m p H1 H2 Hp) as (A & B & C).
    destruct (t_resume m p) as [m' r]. cbn [fst snd] in *. split; [exact A|split; [exact B|]]. cbn [fst snd].
    intros oid' tx k Hq. rewrite pget_pdel in Hq. destruct (oid' =? oid); [discriminate|].
    apply C. eapply H3. eassumption.
Qed.

Lemma run_inv sch : w_inv (t_run sch).
Proof.
  unfold t_run. assert (w_inv (mgr_init, [])) as H0.
  { split; [|split]; cbn.
    - intros id t H. discriminate.
    - intros e [].
    - intros oid tx k H. discriminate. }
  revert H0. generalize (mgr_init, @nil (Z * tpend)). induction sch as [|s r IH]; intros w Hw; cbn; [assumption|].
  apply IH. apply step_inv. assumption.
Qed.

(** For ANY interleaving of the steps of any number of transactions at any mix
    of isolation levels: every value a committed SERIALIZABLE transaction
    obtained from the store is the value current at the instant of its commit
    (where its own writes are applied atomically) — the committed transactions
    are equivalent to their serial execution in commit order. *)
Theorem occ_serializable : forall sch id t,
  tx_get id (m_txs (fst (t_run sch))) = Some t ->
  t_status t = Committed -> t_iso t = SER ->
  forall k v, In (k, v) (t_reads t) -> dget k (t_cstore t) = v.
Proof.
  intros sch id t Hg Hc Hs. destruct (run_inv sch) as (H1 & _ & _).
  destruct (H1 id t Hg) as (_ & _ & _ & D). rewrite Hc in D. auto.
Qed.

(** Snapshot isolation: REFUTED.  T1 (SNAPSHOT_ISOLATION) reads key 0, T2
    commits writes to keys 0 and 1, T1 reads key 1 and commits: its two reads
    belong to no single version of the store. *)
Definition si_statement : Prop := forall sch, si_ok (fst (t_run sch)) = true.

Definition si_witness : list tstep :=
  [TStart 0 (TBegin SI); TResume 0;            (* T1 *)
   TStart 1 (TRead 1 0); TResume 1;            (* T1 reads key 0: absent *)
   TStart 2 (TBegin SI); TResume 2;            (* T2 *)
   TStart 3 (TWrite 2 0 10); TResume 3;
   TStart 4 (TWrite 2 1 11); TResume 4;
   TStart 5 (TCommit 2); TResume 5;            (* T2 commits {0:10, 1:11} *)
   TStart 6 (TRead 1 1); TResume 6;            (* T1 reads key 1: 11 *)
   TStart 7 (TCommit 1); TResume 7].           (* T1 commits *)

Theorem si_snapshot_refuted : ~ si_statement.
Proof. intros H. specialize (H si_witness). vm_compute in H. discriminate. Qed.

(** what does hold for SNAPSHOT_ISOLATION: first-committer-wins on write sets
    is part of [check_conflict]; and reads of a transaction that nobody
    committed into are trivially from one snapshot.  (Not claimed here.) *)
