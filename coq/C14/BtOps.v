(** C14 — B-tree: the tree invariant, put / get / delete / scan against a sorted
    association list, and the refinement to the reference map. *)
From HS Require Import Base.Prelude C14.Model C14.LsmProofs C14.BtModel C14.BtProofs C14.BtRep C14.BtIns.
Local Open Scope Z_scope.

(* ------------------------------------------------------------------ *)
(** * Sorted association lists *)
Definition remove (k : Z) (l : list (Z * Z)) : list (Z * Z) := filter (fun p => negb (fst p =? k)) l.
Definition range (lo hi : Z) (l : list (Z * Z)) : list (Z * Z) := filter (fun p => (lo <=? fst p) && (fst p <? hi)) l.

Lemma filter_all {A} (f : A -> bool) l : (forall x, In x l -> f x = true) -> filter f l = l.
Proof. induction l as [|x r IH]; intros H; cbn; [reflexivity|]. rewrite (H x (or_introl eq_refl)). f_equal. apply IH. intros y Hy. apply H. right. exact Hy. Qed.
Lemma filter_none {A} (f : A -> bool) l : (forall x, In x l -> f x = false) -> filter f l = [].
Proof. induction l as [|x r IH]; intros H; cbn; [reflexivity|]. rewrite (H x (or_introl eq_refl)). apply IH. intros y Hy. apply H. right. exact Hy. Qed.

Lemma in_map_fst (l : list (Z * Z)) p : In p l -> In (fst p) (map fst l).
Proof. apply in_map. Qed.

Lemma assoc_upsert lo hi k v l k' : keys_in lo hi (map fst l) -> assoc k' (upsert k v l) = if k' =? k then Some v else assoc k' l.
Proof.
  revert lo; induction l as [|[x y] r IH]; intros lo K; cbn [upsert assoc map fst keys_in] in *.
  - replace (k =? k') with (k' =? k) by lia. reflexivity.
  - destruct K as (A & B & C). destruct (x <? k) eqn:E1; cbn [assoc].
    + rewrite (IH _ C). destruct (x =? k') eqn:E2; [replace (k' =? k) with false by lia; reflexivity|reflexivity].
    + destruct (x =? k) eqn:E2; cbn [assoc].
      * replace (k =? k') with (k' =? k) by lia. destruct (k' =? k) eqn:E3; [reflexivity|]. replace (x =? k') with false by lia. reflexivity.
      * replace (k =? k') with (k' =? k) by lia. destruct (k' =? k); reflexivity.
Qed.

Lemma upsert_keys lo hi k v l : keys_in lo hi (map fst l) -> lo_ok lo k -> hi_ok hi k -> keys_in lo hi (map fst (upsert k v l)).
Proof.
  revert lo; induction l as [|[x y] r IH]; intros lo K L H; cbn [upsert map fst keys_in] in *; [auto|].
  destruct K as (A & B & C). destruct (x <? k) eqn:E1; cbn [map fst keys_in].
  - repeat split; auto. apply IH; auto. cbn. lia.
  - destruct (x =? k) eqn:E2; cbn [map fst keys_in].
    + assert (x = k) by lia. subst x. auto.
    + repeat split; auto; cbn; lia.
Qed.

Lemma length_upsert lo hi k v l : keys_in lo hi (map fst l) ->
  zlen (upsert k v l) = zlen l + (match assoc k l with Some _ => 0 | None => 1 end).
Proof.
  unfold zlen. revert lo; induction l as [|[x y] r IH]; intros lo K; cbn [upsert assoc map fst keys_in length] in *; [lia|].
  destruct K as (A & B & C). destruct (x <? k) eqn:E1.
  - replace (x =? k) with false by lia. cbn [length]. specialize (IH _ C). lia.
  - destruct (x =? k) eqn:E2; cbn [length]; [lia|].
    rewrite (assoc_none_bounds (Some (x + 1)) hi k r C) by (left; cbn; lia). lia.
Qed.

Lemma assoc_remove k l k' : assoc k' (remove k l) = if k' =? k then None else assoc k' l.
Proof.
  induction l as [|[x y] r IH]; cbn [remove filter assoc fst]; [destruct (k' =? k); reflexivity|].
  fold (remove k r). destruct (x =? k) eqn:E; cbn [negb assoc].
  - rewrite IH. destruct (k' =? k) eqn:E2; [reflexivity|]. replace (x =? k') with false by lia. reflexivity.
  - rewrite IH. destruct (x =? k') eqn:E2; [replace (k' =? k) with false by lia; reflexivity|reflexivity].
Qed.

Lemma remove_keys lo hi k l : keys_in lo hi (map fst l) -> keys_in lo hi (map fst (remove k l)).
Proof.
  revert lo; induction l as [|[x y] r IH]; intros lo K; cbn [remove filter map fst keys_in] in *; [auto|].
  fold (remove k r). destruct K as (A & B & C). destruct (negb (x =? k)); cbn [map fst keys_in].
  - repeat split; auto.
  - apply (keys_in_lo (Some (x + 1))); [|apply IH, C]. intros z Hz. destruct lo; cbn in *; lia.
Qed.

Lemma length_remove lo hi k l : keys_in lo hi (map fst l) ->
  zlen (remove k l) = zlen l - (match assoc k l with Some _ => 1 | None => 0 end).
Proof.
  unfold zlen. revert lo; induction l as [|[x y] r IH]; intros lo K; cbn [remove filter assoc map fst keys_in length] in *; [lia|].
  fold (remove k r). destruct K as (A & B & C). destruct (x =? k) eqn:E; cbn [negb length].
  - assert (x = k) by lia. subst x. unfold remove. rewrite filter_all; [lia|].
    intros [a b] Hin. cbn. destruct (keys_in_all _ _ _ C a (in_map_fst _ _ Hin)) as [Q _]. cbn in Q. lia.
  - specialize (IH _ C). lia.
Qed.

(** The leaf step of _delete. *)
Lemma leaf_remove ks : forall lo hi vs k, keys_in lo hi ks -> length vs = length ks ->
  let idx := bisect_left ks k in
  if (Nat.ltb idx (length ks)) && (nth idx ks 0 =? k)
  then combine (remove_at idx ks) (remove_at idx vs) = remove k (combine ks vs) /\ keys_in lo hi (remove_at idx ks) /\
       length (remove_at idx vs) = length (remove_at idx ks) /\ assoc k (combine ks vs) <> None
  else assoc k (combine ks vs) = None.
Proof.
  induction ks as [|x r IH]; intros lo hi vs k K E; cbn zeta.
  - cbn. reflexivity.
  - destruct vs as [|y vr]; [cbn in E; lia|]. destruct K as (A & B & C). cbn [bisect_left].
    destruct (x <? k) eqn:E1.
    + specialize (IH (Some (x + 1)) hi vr k C ltac:(cbn in E; lia)). cbn zeta in IH.
      cbn [length nth combine assoc]. replace (x =? k) with false by lia.
      replace (S (bisect_left r k) <? S (length r))%nat with (bisect_left r k <? length r)%nat
        by (destruct (bisect_left r k <? length r)%nat eqn:E2; symmetry; [apply Nat.ltb_lt in E2; apply Nat.ltb_lt; lia|apply Nat.ltb_ge in E2; apply Nat.ltb_ge; lia]).
      destruct ((bisect_left r k <? length r)%nat && (nth (bisect_left r k) r 0 =? k)); [|exact IH].
      destruct IH as (I1 & I2 & I3 & I4).
      change (remove_at (S (bisect_left r k)) (x :: r)) with (x :: remove_at (bisect_left r k) r).
      change (remove_at (S (bisect_left r k)) (y :: vr)) with (y :: remove_at (bisect_left r k) vr).
      cbn [combine remove filter fst length keys_in]. fold (remove k (combine r vr)). replace (x =? k) with false by lia. cbn [negb].
      rewrite I1, I3. repeat split; auto.
    + cbn [length nth Nat.ltb Nat.leb andb combine assoc]. destruct (x =? k) eqn:E2.
      * change (remove_at 0 (x :: r)) with r. change (remove_at 0 (y :: vr)) with vr.
        cbn [remove filter fst]. rewrite E2. cbn [negb]. split; [|split; [|split; [cbn in E; lia|discriminate]]].
        -- symmetry. apply filter_all. intros [a b] Hin. cbn.
           assert (In a r) by (rewrite <- (map_fst_combine r vr) by (cbn in E; lia); apply (in_map_fst _ _ Hin)).
           destruct (keys_in_all _ _ _ C a H) as [Q _]. cbn in Q. lia.
        -- apply (keys_in_lo (Some (x + 1))); [|exact C]. intros z Hz. destruct lo; cbn in *; lia.
      * apply (assoc_none_bounds (Some (x + 1)) hi); [rewrite map_fst_combine by (cbn in E; lia); exact C|]. left. cbn. lia.
Qed.

(* ------------------------------------------------------------------ *)
(** * Delete *)
Lemma remove_app k a b : remove k (a ++ b) = remove k a ++ remove k b.
Proof. apply filter_app. Qed.

Lemma remove_notin k l : (forall y, In y (map fst l) -> y <> k) -> remove k l = l.
Proof. intros H. apply filter_all. intros [a b] Hin. cbn. specialize (H a (in_map_fst _ _ Hin)). cbn in H. lia. Qed.

Lemma assoc_in k l : In k (map fst l) -> exists v, assoc k l = Some v.
Proof.
  induction l as [|[x y] r IH]; cbn; [intros []|]. intros [->|H]; [rewrite Z.eqb_refl; eauto|]. destruct (x =? k); eauto.
Qed.

Lemma delete_ok : forall d f t id lo hi kvs fp k,
  rep (heap t) d id lo hi kvs fp -> lo_ok lo k -> hi_ok hi k -> (d <= f)%nat ->
  let lid := find_leaf f t id k in
  let n := hget lid (heap t) in
  let idx := bisect_left (b_keys n) k in
  In lid fp /\
  if (Nat.ltb idx (length (b_keys n))) && (nth idx (b_keys n) 0 =? k)
  then (exists fp', rep (hset lid (mkNode true (remove_at idx (b_keys n)) (remove_at idx (b_vals n)) (b_kids n)) (heap t))
                        d id lo hi (remove k kvs) fp' /\ (forall x, In x fp' -> In x fp)) /\ assoc k kvs <> None
  else assoc k kvs = None.
Proof.
  induction d as [|d IH]; intros f t id lo hi kvs fp k R L H Hf; [inversion R|].
  destruct f as [|f]; [lia|]. cbv zeta. cbn [find_leaf].
  inversion R as [id0 lo0 hi0 Lf E K|d' id0 lo0 hi0 kvs0 fp0 Lf RS N]; subst; rewrite Lf.
  - set (n := hget id (heap t)) in *. split; [left; reflexivity|].
    pose proof (leaf_remove (b_keys n) lo hi (b_vals n) k K E) as LR. cbv zeta in LR.
    destruct ((bisect_left (b_keys n) k <? length (b_keys n))%nat && (nth (bisect_left (b_keys n) k) (b_keys n) 0 =? k)); [|exact LR].
    destruct LR as (U1 & U2 & U3 & U4). split; [|exact U4]. exists [id]. split; [|auto].
    pose proof (rep_leaf (hset id (mkNode true (remove_at (bisect_left (b_keys n) k) (b_keys n)) (remove_at (bisect_left (b_keys n) k) (b_vals n)) (b_kids n)) (heap t)) id lo hi) as X.
    rewrite hget_hset_same in X. cbn [b_leaf b_keys b_vals] in X. rewrite <- U1. apply X; auto.
  - destruct (reps_descend (heap t) d k _ _ _ _ _ _ RS L H) as (lo' & hi' & kvsA & kvsC & kvsB & fpC & D1 & D2 & D3 & D4 & D5 & D6 & D7 & D8).
    set (c := nth (bisect_right (b_keys (hget id (heap t))) k) (b_kids (hget id (heap t))) (-1)) in *.
    pose proof (IH f t c lo' hi' kvsC fpC k D1 D2 D3 ltac:(lia)) as J. cbv zeta in J.
    set (lid := find_leaf f t c k) in *. set (n := hget lid (heap t)) in *.
    destruct J as [J0 J]. split; [right; apply D5, J0|].
    assert (EA : assoc k kvs = assoc k kvsC) by (rewrite D4, (assoc_app_lt k kvsA _ D6), (assoc_app_gt k kvsC kvsB D7); reflexivity).
    destruct ((bisect_left (b_keys n) k <? length (b_keys n))%nat && (nth (bisect_left (b_keys n) k) (b_keys n) 0 =? k)); [|congruence].
    destruct J as [(fpC' & J1 & J2) J3]. split; [|congruence].
    set (h' := hset lid _ (heap t)) in *.
    destruct (D8 h' (remove k kvsC) fpC' J1) as (fp' & E1 & E2).
    { intros x Hx Nx. unfold h'. apply hget_hset_other. intros ->. contradiction. }
    { intros x Hx. left. apply J2, Hx. }
    assert (Hne : id <> lid) by (intros Heq; apply N, D5; rewrite Heq; exact J0).
    exists (id :: fp'). split.
    + replace (remove k kvs) with (kvsA ++ remove k kvsC ++ kvsB).
      * apply rep_node; [unfold h'; rewrite hget_hset_other by exact Hne; exact Lf|unfold h' at 2 3; rewrite hget_hset_other by exact Hne; exact E1|].
        intros X. destruct (E2 _ X) as [Q|Q]; [contradiction|]. apply N, D5, J2, Q.
      * rewrite D4, !remove_app. rewrite (remove_notin k kvsA) by (intros y Hy; specialize (D6 y Hy); lia).
        rewrite (remove_notin k kvsB) by (intros y Hy; specialize (D7 y Hy); lia). reflexivity.
    + intros x [<-|Hx]; [left; reflexivity|right]. destruct (E2 _ Hx) as [Q|Q]; [exact Q|apply D5, J2, Q].
Qed.

(* ------------------------------------------------------------------ *)
(** * Scan *)
Section ScanKids.
  Variables (rec : Z -> list (Z * Z)) (keys : list Z) (lo hi : Z).
  Fixpoint scan_kids (i : nat) (cs : list Z) : list (Z * Z) :=
    match cs with
    | [] => []
    | c :: cr =>
        let skip_high := (Nat.ltb i (length keys)) && (nth i keys 0 <=? lo) in
        let brk_low := (Nat.ltb 0 i) && (nth (pred i) keys 0 >=? hi) in
        if skip_high then scan_kids (S i) cr
        else if brk_low then []
        else rec c ++ scan_kids (S i) cr
    end.
End ScanKids.

Lemma scan_node_unfold f t nid lo hi :
  scan_node (S f) t nid lo hi =
  let n := hget nid (heap t) in
  if b_leaf n then scan_leaf (b_keys n) (b_vals n) lo hi
  else scan_kids (fun c => scan_node f t c lo hi) (b_keys n) lo hi 0 (b_kids n).
Proof. reflexivity. Qed.

Lemma range_app lo hi a b : range lo hi (a ++ b) = range lo hi a ++ range lo hi b.
Proof. apply filter_app. Qed.

Lemma range_none_lt lo hi l : (forall y, In y (map fst l) -> y < lo) -> range lo hi l = [].
Proof. intros H. apply filter_none. intros [a b] Hin. cbn. specialize (H a (in_map_fst _ _ Hin)). cbn in H. lia. Qed.
Lemma range_none_ge lo hi l : (forall y, In y (map fst l) -> hi <= y) -> range lo hi l = [].
Proof. intros H. apply filter_none. intros [a b] Hin. cbn. specialize (H a (in_map_fst _ _ Hin)). cbn in H. lia. Qed.

Lemma scan_leaf_range ks : forall lb hb vs lo hi, keys_in lb hb ks -> length vs = length ks ->
  scan_leaf ks vs lo hi = range lo hi (combine ks vs).
Proof.
  induction ks as [|x r IH]; intros lb hb vs lo hi K E; [reflexivity|].
  destruct vs as [|y vr]; [cbn in E; lia|]. destruct K as (A & B & C). cbn [scan_leaf combine range filter fst].
  fold (range lo hi (combine r vr)).
  destruct (x >=? hi) eqn:E1.
  - replace ((lo <=? x) && (x <? hi)) with false by lia. symmetry. apply range_none_ge. intros z Hz.
    rewrite map_fst_combine in Hz by (cbn in E; lia). destruct (keys_in_all _ _ _ C z Hz) as [Q _]. cbn in Q. lia.
  - rewrite (IH (Some (x + 1)) hb vr lo hi C ltac:(cbn in E; lia)). destruct (x >=? lo) eqn:E2.
    + replace ((lo <=? x) && (x <? hi)) with true by lia. reflexivity.
    + replace ((lo <=? x) && (x <? hi)) with false by lia. reflexivity.
Qed.

Lemma skipn_head {A} (l : list A) : forall i x r d, skipn i l = x :: r -> nth i l d = x /\ (i < length l)%nat /\ skipn (S i) l = r.
Proof.
  induction l as [|y l IH]; intros i x r d E; destruct i; cbn in *; try discriminate.
  - inversion E. repeat split; auto. lia.
  - destruct (IH _ _ _ d E) as (Q1 & Q2 & Q3). repeat split; auto. lia.
Qed.

Lemma scan_ok h :
  (forall d id lb hb kvs fp, rep h d id lb hb kvs fp ->
     forall f t lo hi, heap t = h -> (d <= f)%nat -> scan_node f t id lo hi = range lo hi kvs) /\
  (forall d cs ks lb hb kvs fp, reps h d cs ks lb hb kvs fp ->
     forall f t lo hi allkeys i, heap t = h -> (d <= f)%nat -> ks = skipn i allkeys ->
       ((0 < i)%nat -> lb = Some (nth (pred i) allkeys 0)) ->
       scan_kids (fun c => scan_node f t c lo hi) allkeys lo hi i cs = range lo hi kvs).
Proof.
  apply rep_reps_ind.
  - intros id lb hb L E K f t lo hi Ht Hf. destruct f as [|f]; [lia|]. rewrite scan_node_unfold. cbv zeta. rewrite Ht, L.
    apply (scan_leaf_range _ lb hb); assumption.
  - intros d id lb hb kvs fp L R IH N f t lo hi Ht Hf. destruct f as [|f]; [lia|]. rewrite scan_node_unfold. cbv zeta. rewrite Ht, L.
    apply IH; [exact Ht|lia|reflexivity|lia].
  - intros d c lb hb kvs fp R IH f t lo hi allkeys i Ht Hf Hk Hlb. cbn [scan_kids].
    assert (Hi : (length allkeys <= i)%nat).
    { destruct (Nat.le_gt_cases (length allkeys) i) as [Q|Q]; [exact Q|exfalso].
      assert (length (skipn i allkeys) = 0%nat) by (rewrite <- Hk; reflexivity). rewrite skipn_length in H. lia. }
    replace (i <? length allkeys)%nat with false by (symmetry; apply Nat.ltb_ge; exact Hi). cbn [andb].
    destruct ((0 <? i)%nat && (nth (pred i) allkeys 0 >=? hi)) eqn:Eb.
    + apply andb_true_iff in Eb as [Eb1 Eb2]. apply Nat.ltb_lt in Eb1. specialize (Hlb Eb1). subst lb.
      symmetry. apply range_none_ge. intros y Hy.
      destruct (keys_in_all _ _ _ (proj1 (rep_keys h) _ _ _ _ _ _ R) y Hy) as [Q _]. cbn in Q. lia.
    + rewrite app_nil_r. apply IH; assumption.
  - intros d c cs k0 ks lb hb kvs1 fp1 kvs2 fp2 R1 IH1 R2 IH2 A B D f t lo hi allkeys i Ht Hf Hk Hlb. cbn [scan_kids].
    destruct (skipn_head allkeys i k0 ks 0 (eq_sym Hk)) as (Hn & Hi & Hs).
    replace (i <? length allkeys)%nat with true by (symmetry; apply Nat.ltb_lt; exact Hi). cbn [andb]. rewrite Hn.
    rewrite range_app.
    assert (Tail : scan_kids (fun c0 => scan_node f t c0 lo hi) allkeys lo hi (S i) cs = range lo hi kvs2).
    { apply IH2; [exact Ht|exact Hf|symmetry; exact Hs|]. intros _. cbn [pred]. rewrite Hn. reflexivity. }
    destruct (k0 <=? lo) eqn:E1.
    + rewrite Tail. rewrite (range_none_lt lo hi kvs1); [reflexivity|]. intros y Hy.
      destruct (keys_in_all _ _ _ (proj1 (rep_keys h) _ _ _ _ _ _ R1) y Hy) as [_ Q]. cbn in Q. lia.
    + destruct ((0 <? i)%nat && (nth (pred i) allkeys 0 >=? hi)) eqn:Eb.
      * apply andb_true_iff in Eb as [Eb1 Eb2]. apply Nat.ltb_lt in Eb1. specialize (Hlb Eb1). subst lb.
        rewrite (range_none_ge lo hi kvs1), (range_none_ge lo hi kvs2); [reflexivity| |].
        -- intros y Hy. destruct (keys_in_all _ _ _ (proj2 (rep_keys h) _ _ _ _ _ _ _ R2) y Hy) as [Q _]. cbn in *. lia.
        -- intros y Hy. destruct (keys_in_all _ _ _ (proj1 (rep_keys h) _ _ _ _ _ _ R1) y Hy) as [Q _]. cbn in Q. lia.
      * rewrite Tail. f_equal. apply IH1; assumption.
Qed.

(* ------------------------------------------------------------------ *)
(** * The tree invariant and the four operations *)
Definition bt_inv (t : btree) (kvs : list (Z * Z)) : Prop :=
  exists d fp, rep (heap t) d (root t) None None kvs fp /\ depth t = Z.of_nat d /\
               (forall x, In x fp -> x < nxt t) /\ 2 <= order t /\ total t = zlen kvs.

Lemma bt_init_inv ord : 2 <= ord -> bt_inv (bt_init ord) [].
Proof.
  intros H. exists 1%nat, [0]. split; [|split; [reflexivity|split; [intros x [<-|[]]; cbn; lia|split; [exact H|reflexivity]]]].
  apply (rep_leaf (heap (bt_init ord)) 0 None None); cbn; auto.
Qed.

Lemma bt_get_ok t kvs k : bt_inv t kvs -> bt_get_sync t k = assoc k kvs.
Proof.
  intros (d & fp & R & Hd & _). unfold bt_get_sync.
  apply (proj1 (rep_lookup (heap t)) _ _ _ _ _ _ R); [reflexivity|lia].
Qed.

Lemma bt_scan_ok t kvs lo hi : bt_inv t kvs -> bt_scan t lo hi = range lo hi kvs.
Proof.
  intros (d & fp & R & Hd & _). unfold bt_scan.
  apply (proj1 (scan_ok (heap t)) _ _ _ _ _ _ R); [reflexivity|lia].
Qed.

Lemma bt_insert_ok t kvs k v : bt_inv t kvs -> bt_inv (bt_insert t k v) (upsert k v kvs).
Proof.
  intros (d & fp & R & Hd & Hf & Ho & Ht). unfold bt_insert.
  pose proof (proj1 (rep_keys (heap t)) _ _ _ _ _ _ R) as KS.
  assert (Fin : forall t1 d1 fp1, rep (heap t1) d1 (root t1) None None kvs fp1 -> depth t1 = Z.of_nat d1 ->
                  (forall x, In x fp1 -> x < nxt t1) -> order t1 = order t -> total t1 = total t ->
                  bt_inv (insert_non_full (S (Z.to_nat (depth t1))) t1 (root t1) k v) (upsert k v kvs)).
  { intros t1 d1 fp1 R1 Hd1 Hf1 Ho1 Ht1.
    destruct (insert_ok d1 (S (Z.to_nat (depth t1))) t1 (root t1) None None kvs fp1 k v R1 I I ltac:(lia) Hf1 ltac:(lia))
      as (fp' & J1 & J2 & J3 & J4 & J5 & J6 & J7 & J8). cbv zeta in *.
    exists d1, fp'. rewrite J5. split; [exact J1|]. split; [lia|]. split; [|split; [lia|]].
    - intros x Hx. destruct (J2 x Hx) as [Q|Q]; [specialize (Hf1 x Q); lia|lia].
    - rewrite J8, Ht1, Ht. symmetry. apply (length_upsert None None), KS. }
  destruct (zlen (b_keys (hget (root t) (heap t))) >=? order t - 1) eqn:Efull.
  - (* the root is full: new root above it, split, descend *)
    set (nr := nxt t).
    set (t0 := mkBt (hset nr (mkNode false [] [] [root t]) (heap t)) (root t) (depth t) (total t) (nxt t + 1) (order t)).
    assert (Hnr : ~ In nr fp) by (intros X; specialize (Hf nr X); unfold nr in Hf; lia).
    assert (G0 : hget nr (heap t0) = mkNode false [] [] [root t]) by apply hget_hset_same.
    assert (R0 : rep (heap t0) (S d) nr None None kvs (nr :: fp)).
    { apply rep_node; [rewrite G0; reflexivity|rewrite G0; cbn [b_kids b_keys]|exact Hnr].
      apply reps_one. apply (proj1 (rep_frame (heap t) (heap t0))); [exact R|].
      intros x Hx. apply hget_hset_other. intros ->. contradiction. }
    assert (Hroot : hget (root t) (heap t0) = hget (root t) (heap t)).
    { apply hget_hset_other. intros E. apply Hnr. rewrite <- E. apply (rep_root_in _ _ _ _ _ _ _ R). }
    destruct (split_child_ok t0 nr 0 d None None kvs (nr :: fp) R0) as (fp1 & sep & S1 & S2 & S3 & S4 & S5 & S6 & S7 & S8 & _).
    { rewrite G0. reflexivity. }
    { rewrite G0. cbn. lia. }
    { rewrite G0. cbn [b_kids nth]. rewrite Hroot. unfold zlen in Efull. lia. }
    { intros x [<-|Hx]; cbn; [unfold nr; lia|specialize (Hf x Hx); lia]. }
    cbv zeta in S1, S2, S3, S4, S5, S6, S7, S8.
    set (t0' := split_child t0 nr 0) in *.
    apply (Fin (mkBt (heap t0') nr (depth t + 1) (total t0') (nxt t0') (order t)) (S d) fp1); cbn [heap root depth total nxt order].
    + exact S1.
    + lia.
    + intros x Hx. apply S2 in Hx as [[<-|Hx]|Hx]; [|specialize (Hf x Hx)|]; cbn [nxt t0] in *; unfold nr; lia.
    + reflexivity.
    + rewrite S6. reflexivity.
  - apply (Fin t d fp); auto.
Qed.

Lemma bt_delete_ok t kvs k : bt_inv t kvs ->
  bt_inv (fst (bt_delete t k)) (remove k kvs) /\ snd (bt_delete t k) = (if assoc k kvs then true else false).
Proof.
  intros (d & fp & R & Hd & Hf & Ho & Ht). unfold bt_delete.
  pose proof (proj1 (rep_keys (heap t)) _ _ _ _ _ _ R) as KS.
  pose proof (delete_ok d (S (Z.to_nat (depth t))) t (root t) None None kvs fp k R I I ltac:(lia)) as J. cbv zeta in J.
  set (lid := find_leaf (S (Z.to_nat (depth t))) t (root t) k) in *. set (n := hget lid (heap t)) in *.
  destruct J as [J0 J].
  destruct ((bisect_left (b_keys n) k <? length (b_keys n))%nat && (nth (bisect_left (b_keys n) k) (b_keys n) 0 =? k)).
  - destruct J as [(fp' & J1 & J2) J3]. cbn [fst snd]. split; [|destruct (assoc k kvs); [reflexivity|congruence]].
    exists d, fp'. cbn [heap root depth total nxt order]. split; [exact J1|]. split; [exact Hd|]. split; [intros x Hx; apply Hf, J2, Hx|]. split; [exact Ho|].
    rewrite (length_remove None None k kvs KS), Ht. destruct (assoc k kvs); [reflexivity|congruence].
  - cbn [fst snd]. rewrite J. split; [|reflexivity]. exists d, fp.
    rewrite (remove_notin k kvs); [repeat split; auto|]. intros y Hy E. subst y.
    destruct (assoc_in k kvs Hy) as (v0 & Hv). congruence.
Qed.

(* ------------------------------------------------------------------ *)
(** * Refinement to the reference map, for every operation sequence *)
Definition bt_run (ord : Z) (ops : list bop) : btree := fold_left (fun t o => fst (b_apply t o)) ops (bt_init ord).

Definition kv_apply (kvs : list (Z * Z)) (o : bop) : list (Z * Z) :=
  match o with BPut k v => upsert k v kvs | BDel k => remove k kvs | BGet _ | BScan _ _ => kvs end.

Lemma kv_apply_spec kvs m o :
  keys_in None None (map fst kvs) -> (forall k, assoc k kvs = m k) ->
  keys_in None None (map fst (kv_apply kvs o)) /\ forall k, assoc k (kv_apply kvs o) = spec_apply m (conv_op o) k.
Proof.
  intros K E. destruct o as [k v|k|k|lo hi]; cbn [kv_apply conv_op spec_apply]; auto.
  - split; [apply upsert_keys; cbn; auto|]. intros k'. rewrite (assoc_upsert None None) by exact K. rewrite E. reflexivity.
  - split; [apply remove_keys, K|]. intros k'. rewrite assoc_remove, E. reflexivity.
Qed.

Lemma b_apply_inv t kvs o : bt_inv t kvs -> bt_inv (fst (b_apply t o)) (kv_apply kvs o).
Proof.
  intros I. destruct o as [k v|k|k|lo hi]; cbn [b_apply kv_apply fst]; auto.
  - apply bt_insert_ok, I.
  - destruct (bt_delete t k) as [t' b] eqn:E. pose proof (bt_delete_ok t kvs k I) as [A _]. rewrite E in A. exact A.
Qed.

Lemma bt_run_inv ord ops : 2 <= ord ->
  exists kvs, bt_inv (bt_run ord ops) kvs /\ keys_in None None (map fst kvs) /\
              forall k, assoc k kvs = spec_of (map conv_op ops) k.
Proof.
  intros Ho. unfold bt_run, spec_of.
  assert (G : forall ops t kvs m, bt_inv t kvs -> keys_in None None (map fst kvs) -> (forall k, assoc k kvs = m k) ->
            exists kvs', bt_inv (fold_left (fun t o => fst (b_apply t o)) ops t) kvs' /\ keys_in None None (map fst kvs') /\
                         forall k, assoc k kvs' = fold_left spec_apply (map conv_op ops) m k).
  { clear. induction ops as [|o r IH]; intros t kvs m I K E; cbn [fold_left map]; [exists kvs; auto|].
    destruct (kv_apply_spec kvs m o K E) as [K' E']. apply (IH _ (kv_apply kvs o)); auto. apply b_apply_inv, I. }
  apply (G ops (bt_init ord) [] (fun _ => None)); [apply bt_init_inv, Ho|exact I|reflexivity].
Qed.

Lemma sorted_of_keys_in lo hi ks : keys_in lo hi ks -> strictly_increasing ks.
Proof.
  revert lo; induction ks as [|x r IH]; intros lo K; cbn; [exact I|]. destruct K as (A & B & C). split; [|apply (IH _ C)].
  intros y Hy. destruct (keys_in_all _ _ _ C y Hy) as [Q _]. cbn in Q. lia.
Qed.

Lemma range_keys lo hi lb hb l : keys_in lb hb (map fst l) -> keys_in lb hb (map fst (range lo hi l)).
Proof.
  revert lb; induction l as [|[x y] r IH]; intros lb K; cbn [range filter map fst keys_in] in *; [auto|].
  fold (range lo hi r). destruct K as (A & B & C). destruct ((lo <=? x) && (x <? hi)); cbn [map fst keys_in].
  - repeat split; auto.
  - apply (keys_in_lo (Some (x + 1))); [|apply IH, C]. intros z Hz. destruct lb; cbn in *; lia.
Qed.

Lemma in_assoc lb hb l k v : keys_in lb hb (map fst l) -> (In (k, v) l <-> assoc k l = Some v).
Proof.
  revert lb; induction l as [|[x y] r IH]; intros lb K; cbn [In assoc map fst keys_in] in *; [split; [intros []|discriminate]|].
  destruct K as (A & B & C). destruct (x =? k) eqn:E.
  - assert (x = k) by lia. subst x. split; [intros [H|H]; [congruence|]|intros H; left; congruence].
    exfalso. destruct (keys_in_all _ _ _ C k (in_map_fst _ _ H)) as [Q _]. cbn in Q. lia.
  - rewrite <- (IH _ C). split; [intros [H|H]; [inversion H; lia|exact H]|auto].
Qed.

(** get_sync after ANY sequence of put_sync / delete / scan / get equals the reference map. *)
Theorem bt_get_refines_map ord ops k : 2 <= ord ->
  bt_get_sync (bt_run ord ops) k = spec_of (map conv_op ops) k.
Proof.
  intros Ho. destruct (bt_run_inv ord ops Ho) as (kvs & I & K & E). rewrite (bt_get_ok _ kvs k I). apply E.
Qed.

(** scan returns exactly the live keys of the range, in increasing order. *)
Theorem bt_scan_exact ord ops lo hi : 2 <= ord ->
  let r := bt_scan (bt_run ord ops) lo hi in
  strictly_increasing (map fst r) /\
  forall k v, In (k, v) r <-> (lo <= k < hi /\ spec_of (map conv_op ops) k = Some v).
Proof.
  intros Ho. cbv zeta. destruct (bt_run_inv ord ops Ho) as (kvs & I & K & E). rewrite (bt_scan_ok _ kvs lo hi I).
  split; [apply (sorted_of_keys_in None None), range_keys, K|].
  intros k v. unfold range. rewrite filter_In. cbn [fst]. rewrite (in_assoc None None kvs k v K), E. split; intros [A B]; split; auto; lia.
Qed.

(** delete reports whether the key was live; size is the number of live keys. *)
Theorem bt_delete_reports ord ops k : 2 <= ord ->
  snd (bt_delete (bt_run ord ops) k) = (if spec_of (map conv_op ops) k then true else false).
Proof.
  intros Ho. destruct (bt_run_inv ord ops Ho) as (kvs & I & K & E). rewrite (proj2 (bt_delete_ok _ kvs k I)), E. reflexivity.
Qed.

Example bt_refinement_nontrivial :
  let ops := [BPut 5 50; BPut 1 10; BPut 9 90; BPut 3 30; BPut 7 70; BDel 1; BPut 4 40; BPut 6 60] in
  depth (bt_run 3 ops) = 3 /\ bt_get_sync (bt_run 3 ops) 4 = Some 40 /\ bt_get_sync (bt_run 3 ops) 1 = None /\
  bt_scan (bt_run 3 ops) 4 8 = [(4, 40); (5, 50); (6, 60); (7, 70)].
Proof. vm_compute. repeat split. Qed.
