(** Property C14 — the theorems the check counts as obligations.  Nothing but
    statements closed by [exact] and [Print Assumptions]. *)
From HS Require Import Base.Prelude C14.Model C14.LsmProofs C14.SeqProofs C14.ConcProofs C14.KvTxnModel C14.KvTxnProofs C14.BtModel C14.BtProofs C14.BtRep C14.BtIns C14.BtOps
  Gen.MemtableGen C14.MemTie.
Local Open Scope Z_scope.

(** LSM tree, sequential operations: after ANY sequence of put/delete (any
    memtable size, any number of levels >= 1, any of the three compaction
    strategies with any parameters, any Bloom filter without false negatives)
    every read equals the read on a map fed the same writes; deleted keys stay
    deleted across every flush and compaction. *)
Theorem c14_lsm_get_refines_map : forall bl,
  (forall ks k, In k ks -> bl ks k = true) ->
  forall c ops k, (nlev c >= 1)%nat -> lsm_get bl (run c ops) k = spec_of ops k.
Proof. exact lsm_get_refines_map. Qed.
Print Assumptions c14_lsm_get_refines_map.

(** Scans return exactly the live keys of the range in sorted order. *)
Theorem c14_lsm_scan_exact : forall c ops lo hi, (nlev c >= 1)%nat ->
  let r := lsm_scan lo hi (run c ops) in
  strictly_increasing (map fst r) /\
  forall k v, In (k, v) r <-> (lo <= k < hi /\ spec_of ops k = Some v).
Proof. exact lsm_scan_exact. Qed.
Print Assumptions c14_lsm_scan_exact.

(** One compaction step (any source level) changes no lookup, except that a
    tombstone may disappear from the deepest level. *)
Theorem c14_lsm_compaction_preserves_lookups : forall s ls k,
  lv_sorted ls -> lv_disj (tl ls) ->
  same_or_dropped (lsget k ls) (lsget k (compact_levels s ls)).
Proof. exact compact_lookup. Qed.
Print Assumptions c14_lsm_compaction_preserves_lookups.

(** Generator API (step machine, one state per yield): operations that run
    alone — segments not interleaved with another operation's — return exactly
    the reference map's values.  PARTIAL counterpart of the refuted overlap
    clause below. *)
Theorem c14_lsm_alone_partial : forall bl, (forall ks k, In k ks -> bl ks k = true) ->
  forall c fuel ops st' outs, (nlev c >= 1)%nat ->
  seq_exec fuel c bl (c_init c) ops = Some (st', outs) ->
  forall i k, nth_error ops i = Some (Get k) ->
  nth_error outs i = Some (OGet (spec_of (firstn i ops) k)).
Proof. exact lsm_alone_partial. Qed.
Print Assumptions c14_lsm_alone_partial.

Theorem c14_lsm_alone_scan_partial : forall bl, (forall ks k, In k ks -> bl ks k = true) ->
  forall c fuel ops st' outs, (nlev c >= 1)%nat ->
  seq_exec fuel c bl (c_init c) ops = Some (st', outs) ->
  forall i lo hi, nth_error ops i = Some (Scan lo hi) ->
  exists r, nth_error outs i = Some (OScan r) /\ strictly_increasing (map fst r) /\
    forall k v, In (k, v) r <-> (lo <= k < hi /\ spec_of (firstn i ops) k = Some v).
Proof. exact lsm_alone_scan_partial. Qed.
Print Assumptions c14_lsm_alone_scan_partial.

(** Overlapping operations (generator API as a step machine, any schedule):
    the full overlap clause is REFUTED on the faithful model — known finding
    C14-lsm-compaction-not-isolated (a deleted key is readable again; the read
    overlaps nothing). *)
Theorem c14_lsm_overlap_refuted : ~ lsm_overlap_statement.
Proof. exact lsm_overlap_refuted. Qed.
Print Assumptions c14_lsm_overlap_refuted.

(** Second, independent mechanism: a scan suspended while a compaction swaps
    the level it iterates over loses keys — known finding
    C14-lsm-read-overlaps-compaction. *)
Theorem c14_lsm_scan_overlap_refuted : reads_ok (history w2_cfg bl_exact w2_sched) = false.
Proof. exact lsm_scan_overlap_refuted. Qed.
Print Assumptions c14_lsm_scan_overlap_refuted.

(** KVStore (no capacity limit), ANY overlap: results and final contents are
    those of executing the operations one at a time in completion order ... *)
Theorem c14_kv_linearizable : forall sch d ps,
  let '(w', es) := kv_run (d, ps) sch in
  kv_seq d (map ev_op es) = (fst w', map ev_out es).
Proof. exact kv_linearizable. Qed.
Print Assumptions c14_kv_linearizable.

(** ... and that sequential execution is a map: a read returns the latest
    preceding write to its key (a completion-point linearization lies inside
    every operation's interval, so this is the overlap clause for the KVStore). *)
Theorem c14_kv_seq_is_map : forall ops d m, dsorted d -> (forall k, dget k d = m k) ->
  forall i k, nth_error ops i = Some (KGet k) ->
  nth_error (snd (kv_seq d ops)) i = Some (KOGet (fold_left kspec_apply (firstn i ops) m k)).
Proof. exact kv_seq_is_map. Qed.
Print Assumptions c14_kv_seq_is_map.

(** Transactions, ANY interleaving, any mix of isolation levels: every value a
    committed SERIALIZABLE transaction read from the store is the value current
    at its commit instant, where its writes are applied atomically: committed
    transactions are equivalent to their serial execution in commit order. *)
Theorem c14_occ_serializable : forall sch id t,
  tx_get id (m_txs (fst (t_run sch))) = Some t ->
  t_status t = Committed -> t_iso t = SER ->
  forall k v, In (k, v) (t_reads t) -> dget k (t_cstore t) = v.
Proof. exact occ_serializable. Qed.
Print Assumptions c14_occ_serializable.

(** Snapshot isolation reads from one snapshot: REFUTED (known finding
    C14-si-reads-live). *)
Theorem c14_si_snapshot_refuted : ~ si_statement.
Proof. exact si_snapshot_refuted. Qed.
Print Assumptions c14_si_snapshot_refuted.

(** B-tree (btree.py: B+-tree over a heap of mutable node objects, preemptive
    split of full children on the way down, deletion without rebalancing),
    sequential API: after ANY sequence of put_sync / delete / get_sync / scan,
    for every order >= 2, get_sync returns the reference map's value
    (C14/BtRep.v: representation predicate with key bounds, contents and
    heap footprint; C14/BtIns.v: leaf update, split of a full child, descent
    and reassembly; C14/BtOps.v: delete, scan, root split, invariant). *)
Theorem c14_btree_get_refines_map : forall ord ops k, 2 <= ord ->
  bt_get_sync (bt_run ord ops) k = spec_of (map conv_op ops) k.
Proof. exact bt_get_refines_map. Qed.
Print Assumptions c14_btree_get_refines_map.

(** B-tree scans return exactly the live keys of the range in increasing order. *)
Theorem c14_btree_scan_exact : forall ord ops lo hi, 2 <= ord ->
  let r := bt_scan (bt_run ord ops) lo hi in
  strictly_increasing (map fst r) /\
  forall k v, In (k, v) r <-> (lo <= k < hi /\ spec_of (map conv_op ops) k = Some v).
Proof. exact bt_scan_exact. Qed.
Print Assumptions c14_btree_scan_exact.

(** B-tree delete reports whether the key was live (deleted keys stay deleted:
    [c14_btree_get_refines_map] with the reference map's delete). *)
Theorem c14_btree_delete_reports : forall ord ops k, 2 <= ord ->
  snd (bt_delete (bt_run ord ops) k) = (if spec_of (map conv_op ops) k then true else false).
Proof. exact bt_delete_reports. Qed.
Print Assumptions c14_btree_delete_reports.

(** B-tree, overlapping operations: REFUTED (known finding
    C14-btree-get-overlaps-split). *)
Theorem c14_btree_overlap_refuted : ~ bt_overlap_statement.
Proof. exact bt_overlap_refuted. Qed.
Print Assumptions c14_btree_overlap_refuted.

(* ---------------- code level: storage/memtable.py as regenerated by py2coq ---------------- *)

(** Memtable.put_sync / get_sync / contains / size / is_full, regenerated from
    components/storage/memtable.py on every run (Gen/MemtableGen.v), against the key-sorted table the
    LSM model keeps as its memtable: under the representation relation [mem_rep] (same lookups through
    any value encoding [venc], same size; the code's dict is insertion ordered, the model's table key
    sorted) put_sync is the model's [sset] and reports "full" exactly when the model's size reaches the
    threshold, and the reads return what the model table holds.  The empty memtable represents []. *)
Theorem c14_code_memtable_refines_model : forall (venc : sval -> Z) (m : Memtable) t k v,
  mem_rep venc (Memtable__data m) t ->
  (let '(m', full) := Memtable_put_sync m k (venc v) in
   mem_rep venc (Memtable__data m') (C14.Model.sset k v t)
   /\ full = (C14.Model.zlen (C14.Model.sset k v t) >=? Memtable__size_threshold m)
   /\ Memtable__size_threshold m' = Memtable__size_threshold m)
  /\ (snd (Memtable_get_sync m k) = option_map venc (C14.Model.assoc k t)
      /\ Memtable__data (fst (Memtable_get_sync m k)) = Memtable__data m
      /\ Memtable_contains m k = match C14.Model.assoc k t with Some _ => true | None => false end
      /\ Memtable_size m = C14.Model.zlen t
      /\ Memtable_is_full m = (C14.Model.zlen t >=? Memtable__size_threshold m))
  /\ mem_rep venc [] [].
Proof.
  intros venc m t k v H.
  exact (conj (tie_put_sync venc m t k v H) (conj (tie_mem_reads venc m t k H) (mem_rep_empty venc))).
Qed.
Print Assumptions c14_code_memtable_refines_model.

(** The translated Memtable alone: after ANY sequence of put_sync calls on an empty memtable, get_sync
    returns the value of the LAST put under that key (None for a key never written) and contains agrees. *)
Theorem c14_code_memtable_read_latest : forall thr l k,
  let m := puts (mkMemtable thr [] 0 0 0 0 0) l in
  snd (Memtable_get_sync m k) = last_put k l None
  /\ Memtable_contains m k = match last_put k l None with Some _ => true | None => false end.
Proof. exact code_memtable_read_latest. Qed.
Print Assumptions c14_code_memtable_read_latest.
