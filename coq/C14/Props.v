(** Property C14 — the theorems the check counts as obligations.  Nothing but
    statements closed by [exact] and [Print Assumptions]. *)
From HS Require Import Base.Prelude C14.Model C14.LsmProofs C14.ConcProofs.
Local Open Scope Z_scope.

(** LSM tree, sequential operations: after ANY sequence of put/delete (any
    memtable size, any number of levels >= 1, any of the three compaction
    strategies with any parameters, any Bloom filter without false negatives)
    every read equals the read on a map fed the same writes; deleted keys stay
    deleted across every flush and compaction. *)
Theorem c14_lsm_get_refines_map : forall bl,
  (forall ks k, In k ks -> bl ks k = true) ->
  forall c ops k, (nlev c >= 1)%nat -> lsm_get bl (run c ops) k = spec_of ops k.
Proof. exact lsm_get_refines_map. Qed.
Print Assumptions c14_lsm_get_refines_map.

(** Scans return exactly the live keys of the range in sorted order. *)
Theorem c14_lsm_scan_exact : forall c ops lo hi, (nlev c >= 1)%nat ->
  let r := lsm_scan lo hi (run c ops) in
  strictly_increasing (map fst r) /\
  forall k v, In (k, v) r <-> (lo <= k < hi /\ spec_of ops k = Some v).
Proof. exact lsm_scan_exact. Qed.
Print Assumptions c14_lsm_scan_exact.

(** One compaction step (any source level) changes no lookup, except that a
    tombstone may disappear from the deepest level. *)
Theorem c14_lsm_compaction_preserves_lookups : forall s ls k,
  lv_sorted ls -> lv_disj (tl ls) ->
  same_or_dropped (lsget k ls) (lsget k (compact_levels s ls)).
Proof. exact compact_lookup. Qed.
Print Assumptions c14_lsm_compaction_preserves_lookups.

(** Overlapping operations (generator API as a step machine, any schedule):
    the full overlap clause is REFUTED on the faithful model — known finding
    C14-lsm-compaction-not-isolated (a deleted key is readable again; the read
    overlaps nothing). *)
Theorem c14_lsm_overlap_refuted : ~ lsm_overlap_statement.
Proof. exact lsm_overlap_refuted. Qed.
Print Assumptions c14_lsm_overlap_refuted.

(** Second, independent mechanism: a scan suspended while a compaction swaps
    the level it iterates over loses keys — known finding
    C14-lsm-read-overlaps-compaction. *)
Theorem c14_lsm_scan_overlap_refuted : reads_ok (history w2_cfg bl_exact w2_sched) = false.
Proof. exact lsm_scan_overlap_refuted. Qed.
Print Assumptions c14_lsm_scan_overlap_refuted.
