(** C14 — proofs about the sequential LSM model: reads refine a map for every
    operation sequence, every configuration and every compaction strategy. *)
From HS Require Import Base.Prelude C14.Model.
Local Open Scope Z_scope.

(* ------------------------------------------------------------------ *)
(** * Sorted association lists *)

(** strictly sorted by key *)
Fixpoint ssorted (t : table) : Prop :=
  match t with
  | [] => True
  | (k, _) :: r => (forall k', In k' (keys r) -> k < k') /\ ssorted r
  end.

Lemma assoc_sset k v t k' :
  assoc k' (sset k v t) = if k' =? k then Some v else assoc k' t.
Proof.
  induction t as [|[a b] r IH]; cbn.
  - destruct (k' =? k); reflexivity.
  - destruct (k <? a) eqn:E1; cbn.
    + reflexivity.
    + destruct (k =? a) eqn:E2; cbn.
      * destruct (k' =? k) eqn:E3; [reflexivity|].
        assert (k' =? a = false) by lia. now rewrite H.
      * destruct (k' =? a) eqn:E3.
        -- assert (k' =? k = false) by lia. now rewrite H.
        -- apply IH.
Qed.

Lemma keys_sset k v t k' : In k' (keys (sset k v t)) <-> k' = k \/ In k' (keys t).
Proof.
  induction t as [|[a b] r IH]; cbn.
  - intuition congruence.
  - destruct (k <? a) eqn:E1; cbn; [intuition congruence|].
    destruct (k =? a) eqn:E2; cbn.
    + assert (k = a) by lia. subst. intuition congruence.
    + rewrite IH. intuition congruence.
Qed.

Lemma ssorted_sset k v t : ssorted t -> ssorted (sset k v t).
Proof.
  induction t as [|[a b] r IH]; cbn.
  - intros _. split; [intros ? []|exact I].
  - intros [H1 H2]. destruct (k <? a) eqn:E1.
    + cbn. split; [|split; assumption].
      intros k' [<-|Hin]; [lia|]. specialize (H1 _ Hin). lia.
    + destruct (k =? a) eqn:E2.
      * cbn. assert (k = a) by lia. subst. split; assumption.
      * cbn. split; [|apply IH; assumption].
        intros k' Hin. apply keys_sset in Hin. destruct Hin as [->|Hin]; [lia|auto].
Qed.

Lemma assoc_none_keys k t : assoc k t = None <-> ~ In k (keys t).
Proof.
  induction t as [|[a b] r IH]; cbn; [tauto|].
  destruct (k =? a) eqn:E.
  - split; [discriminate|]. intros H. exfalso. apply H. left. lia.
  - rewrite IH. split; [intros H [H'|H']; [lia|auto]|tauto].
Qed.

Lemma assoc_some_keys k t v : assoc k t = Some v -> In k (keys t).
Proof.
  intros H. destruct (in_dec Z.eq_dec k (keys t)) as [|n]; [assumption|].
  apply assoc_none_keys in n. congruence.
Qed.

Lemma assoc_sadd k v t k' :
  assoc k' (sadd k v t) =
    match assoc k' t with Some x => Some x | None => if k' =? k then Some v else None end.
Proof.
  unfold sadd. destruct (assoc k t) eqn:E.
  - destruct (assoc k' t) eqn:E'; [reflexivity|].
    destruct (k' =? k) eqn:Ek; [|reflexivity]. assert (k' = k) by lia. congruence.
  - rewrite assoc_sset. destruct (k' =? k) eqn:Ek.
    + assert (k' = k) by lia. subst. now rewrite E.
    + now destruct (assoc k' t).
Qed.

Lemma ssorted_sadd k v t : ssorted t -> ssorted (sadd k v t).
Proof. unfold sadd. destruct (assoc k t); [auto|apply ssorted_sset]. Qed.

(** In a strictly sorted table membership and lookup agree. *)
Lemma ssorted_in_assoc t : ssorted t -> forall k v, In (k, v) t <-> assoc k t = Some v.
Proof.
  induction t as [|[a b] r IH]; cbn; intros Hs k v.
  - split; [tauto|discriminate].
  - destruct Hs as [H1 H2]. destruct (k =? a) eqn:E.
    + assert (k = a) by lia. subst. split.
      * intros [H|H]; [congruence|].
        exfalso. assert (In a (keys r)) by (apply in_map_iff; exists (a, v); auto).
        specialize (H1 _ H0). lia.
      * intros H. left. congruence.
    + rewrite <- IH by assumption. split; [intros [H|H]; [inversion H; lia|assumption]|auto].
Qed.

(** set_all: the table's entries override the accumulator. *)
Lemma assoc_set_all t : ssorted t -> forall m k,
  assoc k (set_all m t) = match assoc k t with Some v => Some v | None => assoc k m end.
Proof.
  unfold set_all. induction t as [|[a b] r IH]; cbn; intros Hs m k; [reflexivity|].
  destruct Hs as [H1 H2]. rewrite IH by assumption. rewrite assoc_sset.
  destruct (k =? a) eqn:E.
  - assert (k = a) by lia. subst.
    destruct (assoc a r) eqn:Er; [|reflexivity].
    apply assoc_some_keys in Er. specialize (H1 _ Er). lia.
  - reflexivity.
Qed.

Lemma ssorted_set_all t m : ssorted m -> ssorted (set_all m t).
Proof.
  unfold set_all. revert m. induction t as [|[a b] r IH]; cbn; intros m Hm; [assumption|].
  apply IH. apply ssorted_sset. assumption.
Qed.

(** add_absent: the accumulator wins; first occurrence in the table otherwise. *)
Lemma assoc_add_absent t : forall m k,
  assoc k (add_absent m t) = match assoc k m with Some v => Some v | None => assoc k t end.
Proof.
  unfold add_absent. induction t as [|[a b] r IH]; cbn; intros m k.
  - now destruct (assoc k m).
  - rewrite IH. rewrite assoc_sadd. destruct (assoc k m); [reflexivity|].
    destruct (k =? a); reflexivity.
Qed.

Lemma ssorted_add_absent t m : ssorted m -> ssorted (add_absent m t).
Proof.
  unfold add_absent. revert m. induction t as [|[a b] r IH]; cbn; intros m Hm; [assumption|].
  apply IH. apply ssorted_sadd. assumption.
Qed.

Lemma ssorted_filter f t : ssorted t -> ssorted (filter f t).
Proof.
  induction t as [|[a b] r IH]; cbn; intros Hs; [exact I|].
  destruct Hs as [H1 H2]. destruct (f (a, b)); cbn; [|auto].
  split; [|auto]. intros k' Hin. apply H1.
  unfold keys in *. apply in_map_iff in Hin. destruct Hin as [x [Hx Hin]].
  apply filter_In in Hin. apply in_map_iff. exists x. tauto.
Qed.

Lemma assoc_filter f t : ssorted t -> forall k,
  assoc k (filter f t) =
    match assoc k t with Some v => if f (k, v) then Some v else None | None => None end.
Proof.
  induction t as [|[a b] r IH]; cbn; intros Hs k; [reflexivity|].
  destruct Hs as [H1 H2]. destruct (k =? a) eqn:E.
  - assert (k = a) by lia. subst. destruct (f (a, b)) eqn:Ef; cbn.
    + now rewrite Z.eqb_refl.
    + rewrite IH by assumption. destruct (assoc a r) eqn:Er; [|reflexivity].
      apply assoc_some_keys in Er. specialize (H1 _ Er). lia.
  - destruct (f (a, b)); cbn; [rewrite E|]; apply IH; assumption.
Qed.

(* ------------------------------------------------------------------ *)
(** * Key ranges and [overlaps] *)

Lemma ssorted_first_le t : ssorted t -> forall k d, In k (keys t) -> first_key t d <= k.
Proof.
  destruct t as [|[a b] r]; cbn; intros Hs k d Hin; [tauto|].
  destruct Hs as [H1 _]. destruct Hin as [<-|Hin]; [lia|]. specialize (H1 _ Hin). lia.
Qed.

Lemma ssorted_le_last t : ssorted t -> forall k d, In k (keys t) -> k <= last_key t d.
Proof.
  unfold last_key. induction t as [|[a b] r IH]; intros Hs k d Hin; [destruct Hin|].
  destruct Hs as [H1 H2]. destruct r as [|p r'].
  - cbn in *. destruct Hin as [<-|[]]. lia.
  - change (last ((a, b) :: p :: r') (d, Tomb)) with (last (p :: r') (d, Tomb)).
    destruct Hin as [<-|Hin].
    + assert (In (fst p) (keys (p :: r'))) by (left; reflexivity).
      specialize (IH H2 _ d H). specialize (H1 _ H). cbn [fst]. lia.
    + apply IH; assumption.
Qed.

Lemma overlaps_common a b k :
  ssorted a -> ssorted b -> In k (keys a) -> In k (keys b) -> overlaps a b = true.
Proof.
  intros Ha Hb Ia Ib. unfold overlaps.
  destruct a as [|pa ra]; [destruct Ia|]. destruct b as [|pb rb]; [destruct Ib|].
  pose proof (ssorted_first_le _ Ha k 0 Ia). pose proof (ssorted_le_last _ Ha k 0 Ia).
  pose proof (ssorted_first_le _ Hb k 0 Ib). pose proof (ssorted_le_last _ Hb k 0 Ib).
  lia.
Qed.

(* ------------------------------------------------------------------ *)
(** * Lookup without the Bloom filter *)

Section Bloom.
Variable bl : list Z -> Z -> bool.
Hypothesis bl_no_false_negative : forall ks k, In k ks -> bl ks k = true.

Lemma tbl_get_assoc k t : tbl_get bl k t = assoc k t.
Proof.
  unfold tbl_get. destruct (bl (keys t) k) eqn:E; [reflexivity|].
  destruct (assoc k t) eqn:Ea; [|reflexivity].
  apply assoc_some_keys in Ea. rewrite bl_no_false_negative in E by assumption. discriminate.
Qed.

(** newest-first lookup in a level, by plain [assoc] *)
Fixpoint lget (k : Z) (l : level) : option sval :=
  match l with
  | [] => None
  | t :: r => match lget k r with Some v => Some v | None => assoc k t end
  end.

Lemma level_get_lget k l : level_get bl k l = lget k l.
Proof. induction l as [|t r IH]; cbn; [reflexivity|]. now rewrite IH, tbl_get_assoc. Qed.

Fixpoint lsget (k : Z) (ls : list level) : option sval :=
  match ls with
  | [] => None
  | l :: r => match lget k l with Some v => Some v | None => lsget k r end
  end.

Lemma levels_get_lsget k ls : levels_get bl k ls = lsget k ls.
Proof. induction ls as [|l r IH]; cbn; [reflexivity|]. now rewrite IH, level_get_lget. Qed.

End Bloom.

Lemma lget_app k a b : lget k (a ++ b) = match lget k b with Some v => Some v | None => lget k a end.
Proof.
  induction a as [|t r IH]; cbn.
  - now destruct (lget k b).
  - rewrite IH. now destruct (lget k b).
Qed.

(** oldest-first lookup (the order in which overlapping target tables are merged) *)
Fixpoint oget (k : Z) (l : level) : option sval :=
  match l with
  | [] => None
  | t :: r => match assoc k t with Some v => Some v | None => oget k r end
  end.

Definition all_sorted (l : level) : Prop := forall t, In t l -> ssorted t.

Lemma assoc_merge_src_gen srcs : all_sorted srcs -> forall m k,
  assoc k (fold_left set_all srcs m) = match lget k srcs with Some v => Some v | None => assoc k m end.
Proof.
  induction srcs as [|t r IH]; cbn; intros Hs m k; [reflexivity|].
  rewrite IH by (intros u Hu; apply Hs; right; assumption).
  rewrite assoc_set_all by (apply Hs; left; reflexivity).
  now destruct (lget k r).
Qed.

Lemma assoc_merge_src srcs k : all_sorted srcs -> assoc k (merge_src srcs) = lget k srcs.
Proof. intros H. unfold merge_src. rewrite assoc_merge_src_gen by assumption. now destruct (lget k srcs). Qed.

Lemma ssorted_fold_set_all srcs m : ssorted m -> ssorted (fold_left set_all srcs m).
Proof. revert m. induction srcs as [|t r IH]; cbn; intros m Hm; [assumption|]. apply IH, ssorted_set_all, Hm. Qed.

Lemma assoc_fold_add_absent ov : forall m k,
  assoc k (fold_left add_absent ov m) = match assoc k m with Some v => Some v | None => oget k ov end.
Proof.
  induction ov as [|t r IH]; cbn; intros m k.
  - now destruct (assoc k m).
  - rewrite IH, assoc_add_absent. now destruct (assoc k m).
Qed.

Lemma ssorted_fold_add_absent ov m : ssorted m -> ssorted (fold_left add_absent ov m).
Proof. revert m. induction ov as [|t r IH]; cbn; intros m Hm; [assumption|]. apply IH, ssorted_add_absent, Hm. Qed.

(* ------------------------------------------------------------------ *)
(** * Levels below L0 hold each key in at most one table *)

Definition has (k : Z) (t : table) : Prop := In k (keys t).

Fixpoint kdisj (l : level) : Prop :=
  match l with
  | [] => True
  | t :: r => (forall u k, In u r -> has k t -> has k u -> False) /\ kdisj r
  end.

Lemma lget_none k l : lget k l = None <-> forall t, In t l -> ~ has k t.
Proof.
  induction l as [|t r IH]; cbn; [tauto|].
  destruct (lget k r) eqn:E.
  - split; [discriminate|]. intros H. exfalso.
    assert (Some s = None) by (apply IH; intros u Hu; apply H; auto). congruence.
  - rewrite assoc_none_keys. split.
    + intros H u [<-|Hu]; [assumption|]. apply IH; auto.
    + intros H. apply H. auto.
Qed.

Lemma oget_none k l : oget k l = None <-> forall t, In t l -> ~ has k t.
Proof.
  induction l as [|t r IH]; cbn; [tauto|].
  destruct (assoc k t) eqn:E.
  - split; [discriminate|]. intros H. exfalso.
    apply assoc_some_keys in E. exact (H t (or_introl eq_refl) E).
  - apply assoc_none_keys in E. rewrite IH. split.
    + intros H u [<-|Hu]; auto.
    + intros H u Hu. apply H. auto.
Qed.

(** With at most one holder per key, splitting a level by any predicate and
    reading the selected part oldest-first, then the rest newest-first, gives
    the same answer as reading the whole level newest-first. *)
Lemma kdisj_partition k p l : kdisj l ->
  match oget k (filter p l) with Some v => Some v | None => lget k (filter (fun t => negb (p t)) l) end
  = lget k l.
Proof.
  induction l as [|t r IH]; cbn; intros Hd; [reflexivity|].
  destruct Hd as [H1 H2]. specialize (IH H2).
  destruct (assoc k t) eqn:Et.
  - (* t holds k: nobody in r does *)
    assert (Hr : forall u, In u r -> ~ has k u).
    { intros u Hu Hk. apply assoc_some_keys in Et. exact (H1 u k Hu Et Hk). }
    assert (lget k r = None) as Hl by (apply lget_none; assumption).
    assert (oget k (filter p r) = None) as Ho.
    { apply oget_none. intros u Hu. apply filter_In in Hu. apply Hr. tauto. }
    assert (lget k (filter (fun t => negb (p t)) r) = None) as Hl'.
    { apply lget_none. intros u Hu. apply filter_In in Hu. apply Hr. tauto. }
    rewrite Hl. destruct (p t); cbn.
    + now rewrite Et.
    + now rewrite Ho, Hl', Et.
  - destruct (p t); cbn.
    + rewrite Et. rewrite IH. now destruct (lget k r).
    + rewrite <- IH. destruct (oget k (filter p r)); [reflexivity|].
      now destruct (lget k (filter (fun t0 => negb (p t0)) r)).
Qed.

Lemma kdisj_filter p l : kdisj l -> kdisj (filter p l).
Proof.
  induction l as [|t r IH]; cbn; intros Hd; [exact I|].
  destruct Hd as [H1 H2]. destruct (p t); cbn; [|auto].
  split; [|auto]. intros u k Hu. apply filter_In in Hu. apply H1. tauto.
Qed.

Lemma kdisj_app_one l m : kdisj l -> (forall u k, In u l -> has k u -> has k m -> False) -> kdisj (l ++ [m]).
Proof.
  induction l as [|t r IH]; cbn; intros Hd Hm.
  - split; [intros ? ? []|exact I].
  - destruct Hd as [H1 H2]. split.
    + intros u k Hu Ht Hku. apply in_app_iff in Hu. destruct Hu as [Hu|[<-|[]]].
      * exact (H1 u k Hu Ht Hku).
      * exact (Hm t k (or_introl eq_refl) Ht Hku).
    + apply IH; [assumption|]. intros u k Hu. apply Hm. auto.
Qed.

(* ------------------------------------------------------------------ *)
(** * One compaction preserves every lookup *)

(** invariant of the list of levels: every table strictly sorted; every level
    except possibly the first has at most one holder per key *)
Definition lv_sorted (ls : list level) : Prop := forall l, In l ls -> all_sorted l.
Fixpoint lv_disj (ls : list level) : Prop :=
  match ls with [] => True | l :: r => kdisj l /\ lv_disj r end.

Lemma lget_some_has k l v : lget k l = Some v -> exists t, In t l /\ has k t.
Proof.
  intros H. destruct (lget k l) eqn:E; [|discriminate].
  assert (~ (forall t, In t l -> ~ has k t)) as N by (rewrite <- lget_none; congruence).
  clear -N. induction l as [|t r IH].
  - exfalso. apply N. intros ? [].
  - destruct (in_dec Z.eq_dec k (keys t)) as [i|n].
    + exists t. split; [left; reflexivity|assumption].
    + destruct IH as [u [Hu Hk]].
      * intros H. apply N. intros u [<-|Hu]; auto.
      * exists u. split; [right; assumption|assumption].
Qed.

Lemma has_overlapping srcs t k : all_sorted srcs -> ssorted t ->
  (exists s, In s srcs /\ has k s) -> has k t -> is_overlapping srcs t = true.
Proof.
  intros Hs Ht [s [Hin Hk]] Hkt. unfold is_overlapping. apply existsb_exists.
  exists s. split; [assumption|]. eapply overlaps_common; eauto.
Qed.

(** the merged table of a compaction of [src] into [tgt] *)
Lemma assoc_merged_into src tgt deepest k :
  all_sorted src -> all_sorted tgt -> kdisj tgt ->
  let m := merged_into src tgt deepest in
  let before := match lget k src with Some v => Some v | None => lget k tgt end in
  let after := match assoc k m with Some v => Some v | None => lget k (keepers src tgt) end in
  (deepest = false -> after = before) /\
  (deepest = true -> after = before \/ (before = Some Tomb /\ after = None)).
Proof.
  intros Hs Ht Hd. cbv zeta. unfold merged_into.
  set (m0 := fold_left add_absent (overlapping src tgt) (merge_src src)).
  assert (Hm0 : assoc k m0 = match lget k src with Some v => Some v | None => oget k (overlapping src tgt) end).
  { unfold m0. rewrite assoc_fold_add_absent, assoc_merge_src by assumption. reflexivity. }
  assert (Hsm0 : ssorted m0).
  { unfold m0. apply ssorted_fold_add_absent. unfold merge_src. apply ssorted_fold_set_all. exact I. }
  pose proof (kdisj_partition k (is_overlapping src) tgt Hd) as Hp.
  fold (overlapping src tgt) in Hp. fold (keepers src tgt) in Hp.
  (* when the source holds k, no keeper holds k *)
  assert (Hkeep : forall v, lget k src = Some v -> lget k (keepers src tgt) = None).
  { intros v Hv. apply lget_none. intros t Hin Hk. unfold keepers in Hin. apply filter_In in Hin.
    destruct Hin as [Hin Hno]. apply lget_some_has in Hv.
    rewrite (has_overlapping src t k Hs (Ht t Hin) Hv Hk) in Hno. discriminate. }
  (* when an overlapping table holds k, no keeper holds k *)
  assert (Hkeep2 : forall v, oget k (overlapping src tgt) = Some v -> lget k (keepers src tgt) = None).
  { intros v Hv. rewrite Hv in Hp. destruct (lget k (keepers src tgt)) eqn:E; [|reflexivity].
    exfalso.
    assert (exists u, In u (keepers src tgt) /\ has k u) as [u [Hu Hku]] by (eapply lget_some_has; eauto).
    assert (~ (forall t, In t (overlapping src tgt) -> ~ has k t)) as N by (rewrite <- oget_none; congruence).
    apply N. intros t Hto Hkt.
    unfold keepers in Hu. unfold overlapping in Hto. apply filter_In in Hu, Hto.
    destruct Hu as [Hu Hnu], Hto as [Hto Hyes].
    assert (t <> u) by (intros ->; rewrite Hyes in Hnu; discriminate).
    clear -Hd Hu Hto Hkt Hku H. induction tgt as [|x r IH]; [destruct Hu|].
    destruct Hd as [H1 H2]. destruct Hu as [->|Hu], Hto as [->|Hto].
    - congruence.
    - exact (H1 t k Hto Hku Hkt).
    - exact (H1 u k Hu Hkt Hku).
    - exact (IH H2 Hu Hto). }
  split.
  - intros ->. rewrite Hm0. destruct (lget k src) eqn:Es; [reflexivity|]. exact Hp.
  - intros ->. unfold drop_tombs. rewrite assoc_filter by assumption. rewrite Hm0.
    destruct (lget k src) as [v|] eqn:Es.
    + destruct v as [v|]; cbn; [left; reflexivity|]. right. split; [reflexivity|]. eapply Hkeep; reflexivity.
    + destruct (oget k (overlapping src tgt)) as [v|] eqn:Eo.
      * destruct v as [v|]; cbn.
        -- left. rewrite <- Hp. reflexivity.
        -- right. split; [symmetry; rewrite <- Hp; reflexivity|]. eapply Hkeep2; reflexivity.
      * left. exact Hp.
Qed.

Lemma keepers_miss src tgt k : all_sorted src -> all_sorted tgt -> kdisj tgt ->
  (lget k src <> None \/ oget k (overlapping src tgt) <> None) ->
  lget k (keepers src tgt) = None.
Proof.
  intros Hs Ht Hd [H|H].
  - apply lget_none. intros t Hin Hk. unfold keepers in Hin. apply filter_In in Hin.
    destruct Hin as [Hin Hno]. destruct (lget k src) eqn:Hv; [|congruence]. apply lget_some_has in Hv.
    rewrite (has_overlapping src t k Hs (Ht t Hin) Hv Hk) in Hno. discriminate.
  - pose proof (kdisj_partition k (is_overlapping src) tgt Hd) as Hp.
    fold (overlapping src tgt) in Hp. fold (keepers src tgt) in Hp.
    destruct (lget k (keepers src tgt)) eqn:E; [|reflexivity]. exfalso.
    assert (exists u, In u (keepers src tgt) /\ has k u) as [u [Hu Hku]] by (eapply lget_some_has; eauto).
    apply H. apply oget_none. intros t Hto Hkt.
    unfold keepers in Hu. unfold overlapping in Hto. apply filter_In in Hu, Hto.
    destruct Hu as [Hu Hnu], Hto as [Hto Hyes].
    assert (t <> u) by (intros ->; rewrite Hyes in Hnu; discriminate).
    clear -Hd Hu Hto Hkt Hku H0. induction tgt as [|x r IH]; [destruct Hu|].
    destruct Hd as [H1 H2]. destruct Hu as [->|Hu], Hto as [->|Hto].
    + congruence.
    + exact (H1 t k Hto Hku Hkt).
    + exact (H1 u k Hu Hkt Hku).
    + exact (IH H2 Hu Hto).
Qed.

Lemma ssorted_merged_into src tgt d : ssorted (merged_into src tgt d).
Proof.
  unfold merged_into.
  assert (ssorted (fold_left add_absent (overlapping src tgt) (merge_src src))).
  { apply ssorted_fold_add_absent. unfold merge_src. apply ssorted_fold_set_all. exact I. }
  destruct d; [apply ssorted_filter|]; assumption.
Qed.

Lemma has_merged_into src tgt d k : all_sorted src ->
  has k (merged_into src tgt d) -> lget k src <> None \/ oget k (overlapping src tgt) <> None.
Proof.
  intros Hs Hk. unfold has in Hk.
  assert (assoc k (fold_left add_absent (overlapping src tgt) (merge_src src)) <> None) as H.
  { unfold merged_into in Hk. destruct d.
    - unfold drop_tombs in Hk. intros N. apply assoc_none_keys in N. apply N.
      unfold keys in *. apply in_map_iff in Hk. destruct Hk as [x [Hx Hin]]. apply filter_In in Hin.
      apply in_map_iff. exists x. tauto.
    - intros N. apply assoc_none_keys in N. auto. }
  rewrite assoc_fold_add_absent, assoc_merge_src in H by assumption.
  destruct (lget k src); [left; congruence|right; assumption].
Qed.

Definition same_or_dropped (before after : option sval) : Prop :=
  after = before \/ (before = Some Tomb /\ after = None).

Lemma compact_lookup s : forall ls k, lv_sorted ls -> lv_disj (tl ls) ->
  same_or_dropped (lsget k ls) (lsget k (compact_levels s ls)).
Proof.
  induction s as [|s IH]; intros ls k Hs Hd.
  - destruct ls as [|src rest]; [left; reflexivity|]. cbn [compact_levels].
    destruct src as [|s0 src']; [left; reflexivity|]. set (src := s0 :: src') in *.
    assert (Hsrc : all_sorted src) by (apply Hs; left; reflexivity).
    destruct rest as [|tgt rest'].
    + destruct (drop_tombs (merge_src src)) as [|p m'] eqn:Em; [left; reflexivity|].
      rewrite <- Em. cbn [lsget lget]. unfold drop_tombs.
      rewrite assoc_filter by (unfold merge_src; apply ssorted_fold_set_all; exact I).
      rewrite assoc_merge_src by assumption.
      destruct (lget k src) as [[v|]|]; cbn; [left; reflexivity|right; split; reflexivity|left; reflexivity].
    + assert (Htgt : all_sorted tgt) by (apply Hs; right; left; reflexivity).
      cbn in Hd. destruct Hd as [Hdt Hdr].
      set (deep := match rest' with [] => true | _ :: _ => false end).
      destruct (merged_into src tgt deep) as [|p m'] eqn:Em; [left; reflexivity|].
      rewrite <- Em.
      destruct (assoc_merged_into src tgt deep k Hsrc Htgt Hdt) as [A B].
      cbn [lsget lget]. rewrite lget_app. cbn [lget].
      fold src. unfold same_or_dropped.
      destruct deep eqn:Ed.
      * assert (rest' = []) by (unfold deep in Ed; destruct rest'; [reflexivity|discriminate]). subst rest'.
        cbn [lsget]. specialize (B eq_refl). cbv zeta in B.
        destruct B as [B|[B1 B2]].
        -- left. rewrite B. destruct (lget k src); [reflexivity|]. now destruct (lget k tgt).
        -- right. rewrite B2. split; [|reflexivity].
           destruct (lget k src); [exact B1|]. now rewrite B1.
      * specialize (A eq_refl). cbv zeta in A. left. rewrite A.
        destruct (lget k src); [reflexivity|]. reflexivity.
  - destruct ls as [|src rest]; [left; reflexivity|]. cbn [compact_levels lsget].
    assert (same_or_dropped (lsget k rest) (lsget k (compact_levels s rest))) as H.
    { apply IH.
      - intros l Hl. apply Hs. right. assumption.
      - cbn in Hd. destruct rest; [exact I|]. cbn in *. tauto. }
    destruct (lget k src); [left; reflexivity|exact H].
Qed.

Lemma compact_sorted s : forall ls, lv_sorted ls -> lv_sorted (compact_levels s ls).
Proof.
  induction s as [|s IH]; intros ls Hs.
  - destruct ls as [|src rest]; [assumption|]. cbn [compact_levels].
    destruct src as [|s0 src']; [assumption|]. set (src := s0 :: src') in *.
    destruct rest as [|tgt rest'].
    + destruct (drop_tombs (merge_src src)) as [|p m'] eqn:Em; [assumption|]. rewrite <- Em.
      intros l [<-|[]] t [<-|[]]. apply ssorted_filter. unfold merge_src. apply ssorted_fold_set_all. exact I.
    + destruct (merged_into src tgt _) as [|p m'] eqn:Em; [assumption|]. rewrite <- Em.
      intros l [<-|[<-|Hl]].
      * intros ? [].
      * intros t Ht. apply in_app_iff in Ht. destruct Ht as [Ht|[<-|[]]].
        -- unfold keepers in Ht. apply filter_In in Ht. apply (Hs tgt); [right; left; reflexivity|tauto].
        -- apply ssorted_merged_into.
      * apply Hs. right. right. assumption.
  - destruct ls as [|src rest]; [assumption|]. cbn [compact_levels].
    intros l [<-|Hl].
    + apply Hs. left. reflexivity.
    + apply IH in Hl; [assumption|]. intros l' Hl'. apply Hs. right. assumption.
Qed.

Lemma compact_disj s : forall ls, lv_sorted ls -> lv_disj (tl ls) ->
  lv_disj (tl (compact_levels s ls)) /\ (lv_disj ls -> lv_disj (compact_levels s ls)).
Proof.
  induction s as [|s IH]; intros ls Hs Hd.
  - destruct ls as [|src rest]; [cbn; tauto|]. cbn [compact_levels].
    destruct src as [|s0 src']; [cbn; tauto|]. set (src := s0 :: src') in *.
    assert (Hsrc : all_sorted src) by (apply Hs; left; reflexivity).
    destruct rest as [|tgt rest'].
    + destruct (drop_tombs (merge_src src)) as [|p m'] eqn:Em; [cbn; tauto|]. rewrite <- Em.
      cbn. split; [exact I|]. intros _. split; [|exact I]. split; [intros ? ? []|exact I].
    + assert (Htgt : all_sorted tgt) by (apply Hs; right; left; reflexivity).
      cbn in Hd. destruct Hd as [Hdt Hdr].
      destruct (merged_into src tgt _) as [|p m'] eqn:Em; [cbn; tauto|]. rewrite <- Em.
      assert (kdisj (keepers src tgt ++ [merged_into src tgt (match rest' with [] => true | _ :: _ => false end)])) as K.
      { apply kdisj_app_one; [apply kdisj_filter; assumption|].
        intros u k Hu Hku Hkm. apply has_merged_into in Hkm; [|assumption].
        pose proof (keepers_miss src tgt k Hsrc Htgt Hdt Hkm) as N.
        rewrite lget_none in N. exact (N u Hu Hku). }
      cbn. split; [tauto|]. intros _. tauto.
  - destruct ls as [|src rest]; [cbn; tauto|]. cbn [compact_levels tl].
    assert (lv_sorted rest) as Hsr by (intros l Hl; apply Hs; right; assumption).
    cbn [tl] in Hd.
    assert (lv_disj (tl rest)) as Hdt by (destruct rest; [exact I|cbn in *; tauto]).
    destruct (IH rest Hsr Hdt) as [_ B]. split.
    + apply B. assumption.
    + cbn. intros [H1 H2]. split; [assumption|apply B; assumption].
Qed.

Lemma compact_nonempty s : forall ls, ls <> [] -> compact_levels s ls <> [].
Proof.
  intros ls H. destruct ls as [|src rest]; [congruence|]. destruct s; cbn; [|discriminate].
  destruct src; [discriminate|]. destruct rest.
  - destruct (drop_tombs _); discriminate.
  - destruct (merged_into _ _ _); discriminate.
Qed.

(* ------------------------------------------------------------------ *)
(** * The state invariant and the refinement *)

Definition inv (st : lsm) : Prop :=
  ssorted (mem st) /\ lv_sorted (levels st) /\ lv_disj (tl (levels st)) /\ levels st <> [].

Definition raw (st : lsm) (k : Z) : option sval :=
  match assoc k (mem st) with Some v => Some v | None => lsget k (levels st) end.

Lemma ext_same_or_dropped a b : same_or_dropped a b -> ext b = ext a.
Proof. intros [->|[-> ->]]; reflexivity. Qed.

Lemma maybe_compact_ok c st : inv st ->
  inv (maybe_compact c st) /\ forall k, ext (raw (maybe_compact c st) k) = ext (raw st k).
Proof.
  intros (Hm & Hs & Hd & Hn). unfold maybe_compact.
  destruct (pick (strat c) (levels st)) as [s|]; [|split; [repeat split; assumption|reflexivity]].
  destruct (selection_nonempty s (levels st)); [|split; [repeat split; assumption|reflexivity]].
  split.
  - repeat split; cbn.
    + assumption.
    + apply compact_sorted; assumption.
    + apply compact_disj; assumption.
    + apply compact_nonempty; assumption.
  - intros k. unfold raw. cbn. destruct (assoc k (mem st)); [reflexivity|].
    apply ext_same_or_dropped. apply compact_lookup; assumption.
Qed.

Lemma flush_ok c st : inv st ->
  inv (flush c st) /\ forall k, ext (raw (flush c st) k) = ext (raw st k).
Proof.
  intros (Hm & Hs & Hd & Hn). unfold flush.
  assert (inv st) as I0 by (repeat split; assumption).
  destruct (mem st) as [|p m'] eqn:Em; [split; [assumption|reflexivity]|].
  rewrite <- Em in *.
  set (st1 := {| mem := []; levels := push_l0 (mem st) (levels st); ncomp := ncomp st; nflush := nflush st + 1 |}).
  assert (inv st1) as I1.
  { destruct (levels st) as [|l0 r] eqn:El; [congruence|].
    repeat split; cbn; rewrite ?El; cbn.
    - intros l [<-|Hl].
      + intros t Ht. apply in_app_iff in Ht. destruct Ht as [Ht|[<-|[]]]; [|assumption].
        apply (Hs l0); [left; reflexivity|assumption].
      + apply Hs. right. assumption.
    - assumption.
    - discriminate. }
  assert (forall k, raw st1 k = raw st k) as R1.
  { intros k. unfold raw. cbn. destruct (levels st) as [|l0 r] eqn:El; [congruence|].
    cbn. rewrite lget_app. cbn. destruct (assoc k (mem st)); [reflexivity|]. reflexivity. }
  destruct (maybe_compact_ok c st1 I1) as [I2 R2]. split; [assumption|].
  intros k. rewrite R2, R1. reflexivity.
Qed.

Lemma write_ok c st k v : inv st ->
  inv (write c st k v) /\
  forall k', ext (raw (write c st k v) k') = if k' =? k then ext (Some v) else ext (raw st k').
Proof.
  intros (Hm & Hs & Hd & Hn). unfold write.
  set (st1 := {| mem := sset k v (mem st); levels := levels st; ncomp := ncomp st; nflush := nflush st |}).
  assert (inv st1) as I1 by (repeat split; cbn; [apply ssorted_sset|..]; assumption).
  assert (forall k', ext (raw st1 k') = if k' =? k then ext (Some v) else ext (raw st k')) as R1.
  { intros k'. unfold raw. cbn. rewrite assoc_sset. destruct (k' =? k); reflexivity. }
  destruct (zlen (mem st1) >=? thr c); [|split; assumption].
  destruct (flush_ok c st1 I1) as [I2 R2]. split; [assumption|].
  intros k'. rewrite R2. apply R1.
Qed.

Lemma apply_ok c st o m : inv st -> (forall k, ext (raw st k) = m k) ->
  inv (apply c st o) /\ forall k, ext (raw (apply c st o) k) = spec_apply m o k.
Proof.
  intros I R. destruct o as [k v|k|k|lo hi]; cbn [apply spec_apply]; try (split; assumption).
  - destruct (write_ok c st k (Val v) I) as [I' R']. split; [assumption|].
    intros k'. rewrite R'. destruct (k' =? k); [reflexivity|apply R].
  - destruct (write_ok c st k Tomb I) as [I' R']. split; [assumption|].
    intros k'. rewrite R'. destruct (k' =? k); [reflexivity|apply R].
Qed.

Lemma run_ok_gen c ops : forall st m, inv st -> (forall k, ext (raw st k) = m k) ->
  inv (fold_left (apply c) ops st) /\
  forall k, ext (raw (fold_left (apply c) ops st) k) = fold_left spec_apply ops m k.
Proof.
  induction ops as [|o r IH]; intros st m I R; cbn; [split; assumption|].
  destruct (apply_ok c st o m I R) as [I' R']. apply IH; assumption.
Qed.

Lemma init_inv c : (nlev c >= 1)%nat -> inv (lsm_init c).
Proof.
  intros H. unfold lsm_init, inv. cbn. repeat split.
  - intros l Hl. apply repeat_spec in Hl. subst. intros ? [].
  - destruct (nlev c) as [|n]; [lia|]. cbn. clear. induction n; cbn; [exact I|]. split; [exact I|assumption].
  - destruct (nlev c); [lia|discriminate].
Qed.

Lemma init_raw c k : raw (lsm_init c) k = None.
Proof. unfold raw, lsm_init. cbn. induction (nlev c); cbn; [reflexivity|assumption]. Qed.

Lemma run_inv c ops : (nlev c >= 1)%nat -> inv (run c ops).
Proof. intros H. apply (run_ok_gen c ops (lsm_init c) (fun _ => None)); [apply init_inv; assumption|]. intros k. now rewrite init_raw. Qed.

Section Reads.
Variable bl : list Z -> Z -> bool.
Hypothesis bl_no_false_negative : forall ks k, In k ks -> bl ks k = true.

Lemma raw_get_raw st k : raw_get bl st k = raw st k.
Proof. unfold raw_get, raw. now rewrite (levels_get_lsget bl bl_no_false_negative). Qed.

(** Every read of every reachable state equals the read on the reference map. *)
Theorem lsm_get_refines_map c ops k : (nlev c >= 1)%nat ->
  lsm_get bl (run c ops) k = spec_of ops k.
Proof.
  intros H. unfold lsm_get. rewrite raw_get_raw.
  apply (run_ok_gen c ops (lsm_init c) (fun _ => None)); [apply init_inv; assumption|].
  intros k'. now rewrite init_raw.
Qed.
End Reads.

(* ------------------------------------------------------------------ *)
(** * Scans *)

Fixpoint strictly_increasing (l : list Z) : Prop :=
  match l with [] => True | x :: r => (forall y, In y r -> x < y) /\ strictly_increasing r end.

Definition rng (lo hi k : Z) : bool := (lo <=? k) && (k <? hi).

Lemma assoc_filter_range lo hi t k : ssorted t ->
  assoc k (filter (in_range lo hi) t) = if rng lo hi k then assoc k t else None.
Proof.
  intros Hs. rewrite assoc_filter by assumption. unfold in_range, rng. cbn [fst].
  destruct (assoc k t); destruct ((lo <=? k) && (k <? hi)); reflexivity.
Qed.

Lemma assoc_scan_level lo hi l : all_sorted l -> forall m k,
  assoc k (scan_level lo hi m l) =
    match assoc k m with Some v => Some v | None => if rng lo hi k then lget k l else None end.
Proof.
  unfold scan_level. induction l as [|t r IH]; intros Hs m k; cbn.
  - destruct (assoc k m); [reflexivity|]. now destruct (rng lo hi k).
  - rewrite fold_left_app. cbn. rewrite assoc_add_absent.
    rewrite IH by (intros u Hu; apply Hs; right; assumption).
    destruct (assoc k m); [reflexivity|].
    rewrite assoc_filter_range by (apply Hs; left; reflexivity).
    destruct (rng lo hi k); [|reflexivity]. now destruct (lget k r).
Qed.

Lemma ssorted_scan_level lo hi l m : ssorted m -> ssorted (scan_level lo hi m l).
Proof.
  unfold scan_level. generalize (rev l). intros l'. revert m.
  induction l' as [|t r IH]; cbn; intros m Hm; [assumption|]. apply IH, ssorted_add_absent, Hm.
Qed.

Lemma assoc_scan_levels lo hi ls : lv_sorted ls -> forall m k,
  assoc k (fold_left (scan_level lo hi) ls m) =
    match assoc k m with Some v => Some v | None => if rng lo hi k then lsget k ls else None end.
Proof.
  induction ls as [|l r IH]; intros Hs m k; cbn.
  - destruct (assoc k m); [reflexivity|]. now destruct (rng lo hi k).
  - rewrite IH by (intros u Hu; apply Hs; right; assumption).
    rewrite assoc_scan_level by (apply Hs; left; reflexivity).
    destruct (assoc k m); [reflexivity|]. destruct (rng lo hi k); [|reflexivity].
    now destruct (lget k l).
Qed.

Lemma ssorted_scan_levels lo hi ls m : ssorted m -> ssorted (fold_left (scan_level lo hi) ls m).
Proof. revert m. induction ls as [|l r IH]; cbn; intros m Hm; [assumption|]. apply IH, ssorted_scan_level, Hm. Qed.

Lemma scan_merged_spec lo hi st : inv st ->
  ssorted (scan_merged lo hi st) /\
  forall k, assoc k (scan_merged lo hi st) = if rng lo hi k then raw st k else None.
Proof.
  intros (Hm & Hs & Hd & Hn). unfold scan_merged. split.
  - apply ssorted_scan_levels, ssorted_set_all. exact I.
  - intros k. rewrite assoc_scan_levels by assumption.
    rewrite assoc_set_all by (apply ssorted_filter; assumption).
    rewrite assoc_filter_range by assumption. cbn [assoc]. unfold raw.
    destruct (rng lo hi k); [|reflexivity]. now destruct (assoc k (mem st)).
Qed.

Lemma live_in m k v : In (k, v) (live m) <-> In (k, Val v) m.
Proof.
  unfold live. rewrite in_flat_map. split.
  - intros [[a [b|]] [Hin H]]; cbn in H; [|destruct H].
    destruct H as [H|[]]. inversion H; subst. assumption.
  - intros H. exists (k, Val v). split; [assumption|left; reflexivity].
Qed.

Lemma live_sorted m : ssorted m -> strictly_increasing (map fst (live m)).
Proof.
  induction m as [|[a b] r IH]; cbn; intros Hs; [exact I|].
  destruct Hs as [H1 H2]. destruct b as [v|]; cbn; [|auto].
  split; [|auto]. intros y Hy. apply in_map_iff in Hy. destruct Hy as [[k' v'] [<- Hin]].
  apply live_in in Hin. apply H1. apply in_map_iff. exists (k', Val v'). auto.
Qed.

(** Scans return exactly the live keys of the range, in strictly increasing key order. *)
Theorem lsm_scan_exact c ops lo hi : (nlev c >= 1)%nat ->
  let r := lsm_scan lo hi (run c ops) in
  strictly_increasing (map fst r) /\
  forall k v, In (k, v) r <-> (lo <= k < hi /\ spec_of ops k = Some v).
Proof.
  intros H r. pose proof (run_inv c ops H) as I.
  destruct (scan_merged_spec lo hi (run c ops) I) as [Hs Ha]. subst r. unfold lsm_scan. split.
  - apply live_sorted. assumption.
  - intros k v. rewrite live_in, (ssorted_in_assoc _ Hs), Ha.
    assert (ext (raw (run c ops) k) = spec_of ops k) as R.
    { apply (run_ok_gen c ops (lsm_init c) (fun _ => None)); [apply init_inv; assumption|].
      intros k'. now rewrite init_raw. }
    unfold rng. destruct ((lo <=? k) && (k <? hi)) eqn:E.
    + rewrite <- R. split.
      * intros ->. split; [lia|reflexivity].
      * intros [_ Hx]. destruct (raw (run c ops) k) as [[x|]|]; cbn in Hx; congruence.
    + split; [discriminate|]. intros [? _]. lia.
Qed.

(** The hypotheses are satisfiable: the exact filter has no false negatives. *)
Definition bl_exact (ks : list Z) (k : Z) : bool := existsb (Z.eqb k) ks.
Example bl_exact_no_false_negative : forall ks k, In k ks -> bl_exact ks k = true.
Proof. intros ks k H. unfold bl_exact. apply existsb_exists. exists k. split; [assumption|lia]. Qed.
Example lsm_get_example :
  lsm_get bl_exact (run (mkCfg 1 2 (SizeTiered 2)) [Put 1 10; Put 2 20; Del 1; Put 3 30]) 1 = None /\
  lsm_get bl_exact (run (mkCfg 1 2 (SizeTiered 2)) [Put 1 10; Put 2 20; Del 1; Put 3 30]) 2 = Some 20.
Proof. vm_compute. split; reflexivity. Qed.
