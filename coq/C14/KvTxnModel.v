(** C14 — executable models of
    happysimulator/components/datastore/kv_store.py (no capacity limit) and
    happysimulator/components/storage/transaction_manager.py (over a KVStore).

    Generator methods are step machines: [TStart]/[KStart] runs the code up to
    the first yield, [..Resume] the code after it.  Dicts are key-sorted
    association lists (only read by key).  No proofs here. *)
From HS Require Import Base.Prelude.
Local Open Scope Z_scope.

Definition dict := list (Z * Z).

Fixpoint dget (k : Z) (d : dict) : option Z :=
  match d with [] => None | (k', v) :: r => if k =? k' then Some v else dget k r end.

Fixpoint dset (k v : Z) (d : dict) : dict :=
  match d with
  | [] => [(k, v)]
  | (k', v') :: r => if k <? k' then (k, v) :: d else if k =? k' then (k, v) :: r else (k', v') :: dset k v r
  end.

Fixpoint ddel (k : Z) (d : dict) : dict :=
  match d with [] => [] | (k', v') :: r => if k =? k' then r else (k', v') :: ddel k r end.

Definition zz_eqb (a b : Z * Z) : bool := (fst a =? fst b) && (snd a =? snd b).
Definition dict_eqb := list_eqb zz_eqb.

(* ------------------------------------------------------------------ *)
(** * KVStore *)

Inductive kop := KPut (k v : Z) | KDel (k : Z) | KGet (k : Z).
Inductive kout := KONone | KOGet (r : option Z) | KODel (existed : bool).

Definition kout_eqb (a b : kout) : bool :=
  match a, b with
  | KONone, KONone => true
  | KOGet x, KOGet y => option_eqb Z.eqb x y
  | KODel x, KODel y => Bool.eqb x y
  | _, _ => false
  end.

(** the code after the single yield of get/put/delete *)
Definition kv_apply (d : dict) (o : kop) : dict * kout :=
  match o with
  | KPut k v => (dset k v d, KONone)
  | KDel k => match dget k d with Some _ => (ddel k d, KODel true) | None => (d, KODel false) end
  | KGet k => (d, KOGet (dget k d))
  end.

Definition kv_latency (o : kop) : Z :=
  match o with KPut _ _ | KDel _ => 5000000 | KGet _ => 1000000 end.

Inductive kstep := KStart (oid : Z) (o : kop) | KResume (oid : Z).

Definition kworld := (dict * list (Z * kop))%type.

Fixpoint pget {A} (oid : Z) (ps : list (Z * A)) : option A :=
  match ps with [] => None | (i, x) :: r => if i =? oid then Some x else pget oid r end.
Definition pdel {A} (oid : Z) (ps : list (Z * A)) : list (Z * A) := filter (fun p => negb (fst p =? oid)) ps.

(** returns the new world and, for a completed operation, (oid, op, result) *)
Definition kv_step (w : kworld) (s : kstep) : kworld * option (Z * kop * kout) :=
  let '(d, ps) := w in
  match s with
  | KStart oid o => ((d, (oid, o) :: ps), None)
  | KResume oid =>
      match pget oid ps with
      | None => (w, None)
      | Some o => let '(d', r) := kv_apply d o in ((d', pdel oid ps), Some (oid, o, r))
      end
  end.

Fixpoint kv_run (w : kworld) (sch : list kstep) : kworld * list (Z * kop * kout) :=
  match sch with
  | [] => (w, [])
  | s :: r => let '(w1, e) := kv_step w s in
              let '(w2, es) := kv_run w1 r in
              (w2, match e with Some x => x :: es | None => es end)
  end.

(** sequential reference: apply the operations one after the other *)
Fixpoint kv_seq (d : dict) (ops : list kop) : dict * list kout :=
  match ops with
  | [] => (d, [])
  | o :: r => let '(d1, x) := kv_apply d o in let '(d2, xs) := kv_seq d1 r in (d2, x :: xs)
  end.

(** correspondence: per-segment replay; observation = yielded ns or result; snapshot of _data *)
Inductive kobs := KYield (ns : Z) | KDone (r : kout).

Fixpoint kv_ok (w : kworld) (steps : list (kstep * kobs * dict)) : bool :=
  match steps with
  | [] => true
  | (s, o, sn) :: rest =>
      let '(w', e) := kv_step w s in
      (match s, e, o with
       | KStart _ op, None, KYield ns => ns =? kv_latency op
       | KResume _, Some (_, _, r), KDone r' => kout_eqb r r'
       | _, _, _ => false
       end) && dict_eqb (fst w') sn && kv_ok w' rest
  end.

Definition ok_kv_conc (steps : list (kstep * kobs * dict)) : bool := kv_ok ([], []) steps.

(* ------------------------------------------------------------------ *)
(** * TransactionManager over a KVStore *)

Inductive iso := RC | SI | SER.
Inductive status := Active | Committed | Aborted.

Record txn := mkTxn {
  t_id : Z; t_iso : iso; t_snap : Z;
  t_rset : list Z;            (* _read_set *)
  t_wset : dict;              (* _write_set *)
  t_status : status;
  t_reads : list (Z * option Z);   (* ghost: values obtained from the store, oldest first *)
  t_cstore : dict                  (* ghost: the store just before this transaction's commit applied *)
}.

(** _CommitLogEntry: tx_id, version, keys_written, keys_read *)
Definition entry := (Z * Z * list Z * list Z)%type.

Record mgr := mkMgr {
  m_store : dict; m_version : Z; m_log : list entry; m_next : Z; m_txs : list txn;
  m_hist : list dict   (* ghost: the store after 0, 1, 2, ... commits *) }.

Definition mgr_init : mgr := {| m_store := []; m_version := 0; m_log := []; m_next := 1; m_txs := []; m_hist := [[]] |}.

Definition zmem (k : Z) (l : list Z) : bool := existsb (Z.eqb k) l.
Definition inter (a b : list Z) : bool := existsb (fun k => zmem k b) a.
Definition zadd (k : Z) (l : list Z) : list Z := if zmem k l then l else l ++ [k].

(** TransactionManager._check_conflict *)
Definition conflict_with (t : txn) (e : entry) : bool :=
  let '(tx, ver, ws, rs) := e in
  if ver <=? t_snap t then false
  else if tx =? t_id t then false
  else match t_iso t with
       | RC => false
       | SI => inter (map fst (t_wset t)) ws
       | SER => inter (map fst (t_wset t)) ws || inter (t_rset t) ws || inter (map fst (t_wset t)) rs
       end.

Definition check_conflict (m : mgr) (t : txn) : bool :=
  match t_iso t with RC => false | _ => existsb (conflict_with t) (m_log m) end.

Fixpoint tx_get (id : Z) (ts : list txn) : option txn :=
  match ts with [] => None | t :: r => if t_id t =? id then Some t else tx_get id r end.
Fixpoint tx_put (t : txn) (ts : list txn) : list txn :=
  match ts with [] => [t] | x :: r => if t_id x =? t_id t then t :: r else x :: tx_put t r end.

Inductive top := TBegin (i : iso) | TRead (tx k : Z) | TWrite (tx k v : Z) | TCommit (tx : Z) | TAbort (tx : Z).
Inductive tout := TOTx (id : Z) | TOVal (r : option Z) | TONone | TOBool (b : bool) | TOErr.

Definition tout_eqb (a b : tout) : bool :=
  match a, b with
  | TOTx x, TOTx y => x =? y
  | TOVal x, TOVal y => option_eqb Z.eqb x y
  | TONone, TONone => true
  | TOBool x, TOBool y => Bool.eqb x y
  | TOErr, TOErr => true
  | _, _ => false
  end.

(** what a suspended generator will do when resumed *)
Inductive tpend := PBegin (id : Z) | PRead (tx k : Z) | PWrite | PCommit.

Inductive tres := TYield (ns : Z) (p : tpend) | TDone (r : tout).

Definition upd_tx (m : mgr) (t : txn) : mgr :=
  {| m_store := m_store m; m_version := m_version m; m_log := m_log m; m_next := m_next m; m_txs := tx_put t (m_txs m);
     m_hist := m_hist m |}.

Definition is_active (t : txn) : bool := match t_status t with Active => true | _ => false end.

Definition apply_writes (d ws : dict) : dict := fold_left (fun d kv => dset (fst kv) (snd kv) d) ws d.

(** code of begin/read/write/commit/abort up to the first yield (or to the end) *)
Definition t_start (m : mgr) (o : top) : mgr * tres :=
  match o with
  | TBegin i =>
      let t := mkTxn (m_next m) i (m_version m) [] [] Active [] [] in
      ({| m_store := m_store m; m_version := m_version m; m_log := m_log m; m_next := m_next m + 1;
          m_txs := m_txs m ++ [t]; m_hist := m_hist m |}, TYield 1000 (PBegin (t_id t)))
  | TRead tx k =>
      match tx_get tx (m_txs m) with
      | None => (m, TDone TOErr)
      | Some t =>
          if negb (is_active t) then (m, TDone TOErr)
          else
            let t' := mkTxn (t_id t) (t_iso t) (t_snap t) (zadd k (t_rset t)) (t_wset t) (t_status t) (t_reads t) (t_cstore t) in
            match dget k (t_wset t) with
            | Some v => (upd_tx m t', TDone (TOVal (Some v)))
            | None => (upd_tx m t', TYield 1000000 (PRead tx k))
            end
      end
  | TWrite tx k v =>
      match tx_get tx (m_txs m) with
      | None => (m, TDone TOErr)
      | Some t =>
          if negb (is_active t) then (m, TDone TOErr)
          else (upd_tx m (mkTxn (t_id t) (t_iso t) (t_snap t) (t_rset t) (dset k v (t_wset t)) (t_status t) (t_reads t) (t_cstore t)),
                TYield 1000 PWrite)
      end
  | TCommit tx =>
      match tx_get tx (m_txs m) with
      | None => (m, TDone TOErr)
      | Some t =>
          if negb (is_active t) then (m, TDone TOErr)
          else if check_conflict m t then
            (upd_tx m (mkTxn (t_id t) (t_iso t) (t_snap t) (t_rset t) (t_wset t) Aborted (t_reads t) (t_cstore t)),
             TDone (TOBool false))
          else
            let t' := mkTxn (t_id t) (t_iso t) (t_snap t) (t_rset t) (t_wset t) Committed (t_reads t) (m_store m) in
            ({| m_store := apply_writes (m_store m) (t_wset t); m_version := m_version m + 1;
                m_log := m_log m ++ [(t_id t, m_version m + 1, map fst (t_wset t), t_rset t)];
                m_next := m_next m; m_txs := tx_put t' (m_txs m);
                m_hist := m_hist m ++ [apply_writes (m_store m) (t_wset t)] |}, TYield 10000 PCommit)
      end
  | TAbort tx =>
      match tx_get tx (m_txs m) with
      | None => (m, TDone TOErr)
      | Some t =>
          if negb (is_active t) then (m, TDone TONone)
          else (upd_tx m (mkTxn (t_id t) (t_iso t) (t_snap t) (t_rset t) (t_wset t) Aborted (t_reads t) (t_cstore t)), TDone TONone)
      end
  end.

Definition t_resume (m : mgr) (p : tpend) : mgr * tout :=
  match p with
  | PBegin id => (m, TOTx id)
  | PRead tx k =>
      let v := dget k (m_store m) in
      match tx_get tx (m_txs m) with
      | None => (m, TOVal v)
      | Some t =>
          (* ghost: only reads obtained while the transaction is active belong to it *)
          if is_active t then
            (upd_tx m (mkTxn (t_id t) (t_iso t) (t_snap t) (t_rset t) (t_wset t) (t_status t) (t_reads t ++ [(k, v)]) (t_cstore t)),
             TOVal v)
          else (m, TOVal v)
      end
  | PWrite => (m, TONone)
  | PCommit => (m, TOBool true)
  end.

Inductive tstep := TStart (oid : Z) (o : top) | TResume (oid : Z).

Definition tworld := (mgr * list (Z * tpend))%type.

Definition t_step (w : tworld) (s : tstep) : tworld * option tres :=
  let '(m, ps) := w in
  match s with
  | TStart oid o =>
      let '(m', r) := t_start m o in
      match r with
      | TYield _ p => ((m', (oid, p) :: ps), Some r)
      | TDone _ => ((m', ps), Some r)
      end
  | TResume oid =>
      match pget oid ps with
      | None => (w, None)
      | Some p => let '(m', r) := t_resume m p in ((m', pdel oid ps), Some (TDone r))
      end
  end.

Definition t_run (sch : list tstep) : tworld := fold_left (fun w s => fst (t_step w s)) sch (mgr_init, []).

(** correspondence: per-segment replay.  Snapshot = store, version, number of log entries. *)
Inductive tobs := TObsYield (ns : Z) | TObsDone (r : tout).

Definition tsnap := (dict * Z * Z)%type.

Fixpoint t_ok (w : tworld) (steps : list (tstep * tobs * tsnap)) : bool :=
  match steps with
  | [] => true
  | (s, o, (st, ver, nlog)) :: rest =>
      let '(w', r) := t_step w s in
      (match r, o with
       | Some (TYield ns _), TObsYield ns' => ns =? ns'
       | Some (TDone x), TObsDone y => tout_eqb x y
       | _, _ => false
       end) && dict_eqb (m_store (fst w')) st && (m_version (fst w') =? ver) &&
      (Z.of_nat (length (m_log (fst w'))) =? nlog) && t_ok w' rest
  end.

Definition ok_txn (steps : list (tstep * tobs * tsnap)) : bool := t_ok (mgr_init, []) steps.

(** ** Snapshot-isolation statement (refuted): the store reads of a committed
    SNAPSHOT_ISOLATION transaction all come from one version of the store. *)

Definition reads_from (d : dict) (t : txn) : bool :=
  forallb (fun kv => option_eqb Z.eqb (dget (fst kv) d) (snd kv)) (t_reads t).

Definition one_snapshot (m : mgr) (t : txn) : bool := existsb (fun d => reads_from d t) (m_hist m).

Definition si_ok (m : mgr) : bool :=
  forallb (fun t => match t_status t, t_iso t with Committed, SI => one_snapshot m t | _, _ => true end) (m_txs m).
