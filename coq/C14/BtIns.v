(** C14 — B-tree: insertion (leaf update, split of a full child, descent). *)
From HS Require Import Base.Prelude C14.BtModel C14.BtRep.
Local Open Scope Z_scope.

Fixpoint upsert (k v : Z) (l : list (Z * Z)) : list (Z * Z) :=
  match l with
  | [] => [(k, v)]
  | (k', v') :: r => if k' <? k then (k', v') :: upsert k v r else if k' =? k then (k, v) :: r else (k, v) :: (k', v') :: r
  end.

Lemma insert_at_0 {A} (x : A) l : insert_at 0 x l = x :: l.
Proof. reflexivity. Qed.
Lemma insert_at_S {A} i (x y : A) l : insert_at (S i) x (y :: l) = y :: insert_at i x l.
Proof. reflexivity. Qed.
Lemma set_at_S {A} i (x y : A) l : set_at (S i) x (y :: l) = y :: set_at i x l.
Proof. reflexivity. Qed.
Lemma insert_at_length {A} i (x : A) l : length (insert_at i x l) = S (length l).
Proof. unfold insert_at. rewrite app_length. cbn [length]. pose proof (firstn_skipn i l) as E. apply (f_equal (@length A)) in E. rewrite app_length in E. lia. Qed.

(** The leaf step of _insert_non_full. *)
Lemma leaf_upsert ks : forall lo hi vs k v, keys_in lo hi ks -> length vs = length ks -> lo_ok lo k -> hi_ok hi k ->
  let idx := bisect_left ks k in
  if (Nat.ltb idx (length ks)) && (nth idx ks 0 =? k)
  then combine ks (set_at idx v vs) = upsert k v (combine ks vs) /\ length (set_at idx v vs) = length ks /\
       assoc k (combine ks vs) <> None
  else combine (insert_at idx k ks) (insert_at idx v vs) = upsert k v (combine ks vs) /\
       keys_in lo hi (insert_at idx k ks) /\ length (insert_at idx v vs) = length (insert_at idx k ks) /\
       assoc k (combine ks vs) = None.
Proof.
  induction ks as [|x r IH]; intros lo hi vs k v K E L H; cbn zeta.
  - destruct vs; [|cbn in E; lia]. cbn. repeat split; auto.
  - destruct vs as [|y vr]; [cbn in E; lia|]. destruct K as (A & B & C). cbn [bisect_left].
    destruct (x <? k) eqn:E1.
    + specialize (IH (Some (x + 1)) hi vr k v C ltac:(cbn in E; lia) ltac:(cbn; lia) H). cbn zeta in IH.
      cbn [length nth combine upsert assoc]. rewrite E1. replace (x =? k) with false by lia.
      replace (S (bisect_left r k) <? S (length r))%nat with (bisect_left r k <? length r)%nat
        by (destruct (bisect_left r k <? length r)%nat eqn:E2; symmetry; [apply Nat.ltb_lt in E2; apply Nat.ltb_lt; lia|apply Nat.ltb_ge in E2; apply Nat.ltb_ge; lia]).
      destruct ((bisect_left r k <? length r)%nat && (nth (bisect_left r k) r 0 =? k)).
      * destruct IH as (I1 & I2 & I3). rewrite set_at_S. cbn [combine length]. rewrite I1, I2. auto.
      * destruct IH as (I1 & I2 & I3 & I4). rewrite !insert_at_S. cbn [combine length keys_in]. rewrite I1, I3. repeat split; auto.
    + cbn [length nth Nat.ltb Nat.leb andb combine upsert assoc]. rewrite E1. destruct (x =? k) eqn:E2.
      * apply Z.eqb_eq in E2. subst x. cbn. repeat split; auto. discriminate.
      * rewrite !insert_at_0. cbn [combine length keys_in]. repeat split; auto; try lia.
        -- cbn. lia.
        -- apply (assoc_none_bounds (Some (x + 1)) hi); [rewrite map_fst_combine by (cbn in E; lia); exact C|]. left. cbn. lia.
Qed.

Lemma bisect_right_le ks k : (bisect_right ks k <= length ks)%nat.
Proof. induction ks as [|x r IH]; cbn; [lia|]. destruct (x <=? k); cbn; lia. Qed.

Lemma bisect_right_insert ks k s :
  bisect_right (insert_at (bisect_right ks k) s ks) k = if s <=? k then S (bisect_right ks k) else bisect_right ks k.
Proof.
  induction ks as [|x r IH]; cbn [bisect_right].
  - rewrite insert_at_0. cbn. destruct (s <=? k); reflexivity.
  - destruct (x <=? k) eqn:E.
    + rewrite insert_at_S. cbn [bisect_right]. rewrite E, IH. destruct (s <=? k); reflexivity.
    + rewrite insert_at_0. cbn [bisect_right]. rewrite E. destruct (s <=? k); reflexivity.
Qed.

Lemma nth_insert_at {A} i (x d : A) l : (i <= length l)%nat -> nth i (insert_at i x l) d = x.
Proof. intros H. unfold insert_at. rewrite app_nth2; rewrite firstn_length; [|lia]. replace (i - Nat.min i (length l))%nat with 0%nat by lia. reflexivity. Qed.

(** Splitting a sorted key list at [mid]. *)
Lemma keys_in_split ks : forall lo hi mid, keys_in lo hi ks -> (mid < length ks)%nat ->
  keys_in lo (Some (nth mid ks 0)) (firstn mid ks) /\ keys_in (Some (nth mid ks 0)) hi (skipn mid ks) /\
  lo_ok lo (nth mid ks 0) /\ hi_ok hi (nth mid ks 0).
Proof.
  induction ks as [|x r IH]; intros lo hi mid K Hm; [cbn in Hm; lia|]. destruct K as (A & B & C).
  destruct mid as [|m].
  - cbn. repeat split; auto; try lia.
  - cbn [nth firstn skipn keys_in]. destruct (IH (Some (x + 1)) hi m C ltac:(cbn in Hm; lia)) as (I1 & I2 & I3 & I4).
    repeat split; auto. cbn in *. lia. destruct lo; cbn in *; lia.
Qed.

Lemma combine_split (ks vs : list Z) mid :
  combine ks vs = combine (firstn mid ks) (firstn mid vs) ++ combine (skipn mid ks) (skipn mid vs).
Proof.
  revert ks vs; induction mid as [|m IH]; intros ks vs; [reflexivity|].
  destruct ks as [|k r]; [reflexivity|]. destruct vs as [|v vr]; [cbn; rewrite combine_nil; reflexivity|].
  cbn. f_equal. apply IH.
Qed.

Definition disj (a b : list Z) : Prop := forall x, In x a -> ~ In x b.

(** Splitting the children chain of an internal node at separator [mid]. *)
Lemma reps_split h d : forall mid cs ks lo hi kvs fp, reps h d cs ks lo hi kvs fp -> (mid < length ks)%nat ->
  exists kvsL kvsR fpL fpR,
    reps h d (firstn (S mid) cs) (firstn mid ks) lo (Some (nth mid ks 0)) kvsL fpL /\
    reps h d (skipn (S mid) cs) (skipn (S mid) ks) (Some (nth mid ks 0)) hi kvsR fpR /\
    kvs = kvsL ++ kvsR /\ fp = fpL ++ fpR /\ lo_ok lo (nth mid ks 0) /\ hi_le hi (nth mid ks 0) /\ disj fpL fpR.
Proof.
  induction mid as [|m IH]; intros cs ks lo hi kvs fp R Hm.
  - inversion R as [|? c cs' k ks' ? ? kvs1 fp1 kvs2 fp2 R1 R2 A B D]; subst; [cbn in Hm; lia|].
    exists kvs1, kvs2, fp1, fp2. cbn [firstn skipn nth]. repeat split; auto. apply reps_one, R1.
  - inversion R as [|? c cs' k ks' ? ? kvs1 fp1 kvs2 fp2 R1 R2 A B D]; subst; [cbn in Hm; lia|].
    destruct (IH _ _ _ _ _ _ R2 ltac:(cbn in Hm; lia)) as (kvsL & kvsR & fpL & fpR & I1 & I2 & I3 & I4 & I5 & I6 & I7).
    exists (kvs1 ++ kvsL), kvsR, (fp1 ++ fpL), fpR. cbn [nth]. subst kvs2 fp2.
    split; [|split; [exact I2|split; [apply app_assoc|split; [apply app_assoc|split; [|split; [exact I6|]]]]]].
    + change (firstn (S (S m)) (c :: cs')) with (c :: firstn (S m) cs'). change (firstn (S m) (k :: ks')) with (k :: firstn m ks').
      apply reps_cons; [exact R1|exact I1|exact A|cbn in I5 |- *; lia|]. intros x H1 H2. apply (D x H1), in_or_app. left. exact H2.
    + destruct lo; cbn in *; lia.
    + intros x Hx. apply in_app_or in Hx as [Hx|Hx]; [intros Y; apply (D x Hx), in_or_app; right; exact Y|apply I7, Hx].
Qed.

(** The two halves written by [_split_child] for child [c], in the heap where
    only cells [c] and [nid] changed. *)
Definition split_parts (c : bnode) : bnode * bnode * Z :=
  let mid := Nat.div (length (b_keys c)) 2 in
  if b_leaf c then
    (mkNode true (firstn mid (b_keys c)) (firstn mid (b_vals c)) (b_kids c),
     mkNode true (skipn mid (b_keys c)) (skipn mid (b_vals c)) [],
     nth mid (b_keys c) 0)
  else
    (mkNode false (firstn mid (b_keys c)) (b_vals c) (firstn (S mid) (b_kids c)),
     mkNode false (skipn (S mid) (b_keys c)) [] (skipn (S mid) (b_kids c)),
     nth mid (b_keys c) 0).

Lemma split_rep h d c lo hi kvs fp nid :
  rep h d c lo hi kvs fp -> (1 <= length (b_keys (hget c h)))%nat -> ~ In nid fp ->
  let '(c', n', sep) := split_parts (hget c h) in
  let h2 := hset nid n' (hset c c' h) in
  exists kvsL kvsR fpL fpR,
    rep h2 d c lo (Some sep) kvsL fpL /\ rep h2 d nid (Some sep) hi kvsR fpR /\
    kvs = kvsL ++ kvsR /\ lo_ok lo sep /\ hi_le hi sep /\ disj fpL fpR /\
    (forall x, In x fpL \/ In x fpR <-> In x fp \/ x = nid).
Proof.
  intros R Hk Hn. unfold split_parts. set (n := hget c h) in *. set (mid := Nat.div (length (b_keys n)) 2).
  assert (Hmid : (mid < length (b_keys n))%nat) by (unfold mid; apply Nat.div_lt; lia).
  assert (Hc : nid <> c) by (intros ->; apply Hn; inversion R; subst; left; reflexivity).
  inversion R as [id lo0 hi0 L E K|d' id lo0 hi0 kvs0 fp0 L RS N]; subst; fold n in L; rewrite L.
  - (* leaf *)
    fold n in E, K. cbv zeta.
    set (c' := mkNode true (firstn mid (b_keys n)) (firstn mid (b_vals n)) (b_kids n)).
    set (n' := mkNode true (skipn mid (b_keys n)) (skipn mid (b_vals n)) []).
    set (h2 := hset nid n' (hset c c' h)).
    assert (G1 : hget c h2 = c') by (unfold h2; rewrite hget_hset_other by congruence; apply hget_hset_same).
    assert (G2 : hget nid h2 = n') by (unfold h2; apply hget_hset_same).
    destruct (keys_in_split _ _ _ mid K Hmid) as (S1 & S2 & S3 & S4).
    exists (combine (firstn mid (b_keys n)) (firstn mid (b_vals n))), (combine (skipn mid (b_keys n)) (skipn mid (b_vals n))), [c], [nid].
    split; [|split; [|split; [apply combine_split|split; [exact S3|split; [destruct hi; cbn in *; lia|split]]]]].
    + pose proof (rep_leaf h2 c lo (Some (nth mid (b_keys n) 0))) as X. rewrite G1 in X. apply X; [reflexivity| |exact S1].
      cbn. rewrite !firstn_length. lia.
    + pose proof (rep_leaf h2 nid (Some (nth mid (b_keys n) 0)) hi) as X. rewrite G2 in X. apply X; [reflexivity| |exact S2].
      cbn. rewrite !skipn_length. lia.
    + intros x [<-|[]] [H|[]]. congruence.
    + intros x. cbn. intuition.
  - (* internal node *)
    fold n in RS. cbv zeta.
    set (c' := mkNode false (firstn mid (b_keys n)) (b_vals n) (firstn (S mid) (b_kids n))).
    set (n' := mkNode false (skipn (S mid) (b_keys n)) [] (skipn (S mid) (b_kids n))).
    set (h2 := hset nid n' (hset c c' h)).
    assert (G1 : hget c h2 = c') by (unfold h2; rewrite hget_hset_other by congruence; apply hget_hset_same).
    assert (G2 : hget nid h2 = n') by (unfold h2; apply hget_hset_same).
    destruct (reps_split h d' mid _ _ _ _ _ _ RS Hmid) as (kvsL & kvsR & fpL & fpR & I1 & I2 & I3 & I4 & I5 & I6 & I7).
    assert (Fr : forall x, In x fp0 -> hget x h2 = hget x h).
    { intros x Hx. unfold h2. rewrite !hget_hset_other; [reflexivity|intros ->; contradiction|intros ->; apply Hn; right; exact Hx]. }
    subst fp0.
    destruct (rep_frame h h2) as [_ FR].
    exists kvsL, kvsR, (c :: fpL), (nid :: fpR).
    split; [|split; [|split; [exact I3|split; [exact I5|split; [exact I6|split]]]]].
    + apply rep_node; [rewrite G1; reflexivity|rewrite G1; cbn [b_kids b_keys c']|].
      * apply FR; [exact I1|]. intros x Hx. apply Fr, in_or_app. left. exact Hx.
      * intros X. apply N, in_or_app. left. exact X.
    + apply rep_node; [rewrite G2; reflexivity|rewrite G2; cbn [b_kids b_keys n']|].
      * apply FR; [exact I2|]. intros x Hx. apply Fr, in_or_app. right. exact Hx.
      * intros X. apply Hn. right. apply in_or_app. right. exact X.
    + intros x [<-|Hx] [H|H].
      * congruence.
      * apply N, in_or_app. right. exact H.
      * subst x. apply Hn. right. apply in_or_app. left. exact Hx.
      * apply (I7 x Hx H).
    + intros x. cbn. rewrite in_app_iff. intuition.
Qed.

Lemma rep_root_in h d id lo hi kvs fp : rep h d id lo hi kvs fp -> In id fp.
Proof. intros R; inversion R; subst; left; reflexivity. Qed.

Lemma reps_length h d cs ks lo hi kvs fp : reps h d cs ks lo hi kvs fp -> length cs = S (length ks).
Proof. induction 1; cbn; auto. Qed.

Lemma reps_kid_in h d cs ks lo hi kvs fp : reps h d cs ks lo hi kvs fp ->
  forall i, (i < length cs)%nat -> In (nth i cs (-1)) fp.
Proof.
  induction 1 as [d c lo hi kvs fp R|d c cs k ks lo hi kvs1 fp1 kvs2 fp2 R1 R2 IH A B D]; intros i Hi.
  - destruct i; [|cbn in Hi; lia]. apply (rep_root_in _ _ _ _ _ _ _ R).
  - destruct i; cbn [nth]; apply in_or_app; [left; apply (rep_root_in _ _ _ _ _ _ _ R1)|right; apply IH; cbn in Hi; lia].
Qed.

(** [_split_child] on the children chain of the parent. *)
Lemma reps_split_child h d nid : forall idx cs ks lo hi kvs fp,
  reps h d cs ks lo hi kvs fp -> (idx < length cs)%nat ->
  (1 <= length (b_keys (hget (nth idx cs (-1)%Z) h)))%nat -> ~ In nid fp ->
  exists fp',
    reps (hset nid (snd (fst (split_parts (hget (nth idx cs (-1)) h))))
               (hset (nth idx cs (-1)) (fst (fst (split_parts (hget (nth idx cs (-1)) h)))) h))
         d (insert_at (S idx) nid cs) (insert_at idx (snd (split_parts (hget (nth idx cs (-1)) h))) ks) lo hi kvs fp' /\
    (forall x, In x fp' <-> In x fp \/ x = nid).
Proof.
  induction idx as [|i IH]; intros cs ks lo hi kvs fp R Hi Hk Hn.
  - inversion R as [? c lo0 hi0 kvs0 fp0 R0|? c cs' k ks' ? ? kvs1 fp1 kvs2 fp2 R1 R2 A B D]; subst; cbn [nth] in *.
    + pose proof (split_rep h d c lo hi kvs fp nid R0 Hk Hn) as SR.
      destruct (split_parts (hget c h)) as [[c' n'] sep]. cbn [fst snd] in *. cbv zeta in SR.
      destruct SR as (kvsL & kvsR & fpL & fpR & S1 & S2 & S3 & S4 & S5 & S6 & S7).
      exists (fpL ++ fpR). split; [|intros x; rewrite in_app_iff; apply S7].
      rewrite S3. change (insert_at 1 nid [c]) with [c; nid]. change (insert_at 0 sep []) with [sep].
      apply reps_cons; [exact S1|apply reps_one, S2|exact S4|exact S5|exact S6].
    + assert (Hn1 : ~ In nid fp1) by (intros X; apply Hn, in_or_app; left; exact X).
      pose proof (split_rep h d c lo (Some k) kvs1 fp1 nid R1 Hk Hn1) as SR.
      destruct (split_parts (hget c h)) as [[c' n'] sep]. cbn [fst snd] in *. cbv zeta in SR.
      destruct SR as (kvsL & kvsR & fpL & fpR & S1 & S2 & S3 & S4 & S5 & S6 & S7).
      set (h2 := hset nid n' (hset c c' h)) in *.
      assert (R2' : reps h2 d cs' ks' (Some k) hi kvs2 fp2).
      { apply (proj2 (rep_frame h h2)); [exact R2|]. intros x Hx. unfold h2.
        rewrite !hget_hset_other; [reflexivity| |].
        - intros ->. apply (D c (rep_root_in _ _ _ _ _ _ _ R1) Hx).
        - intros ->. apply Hn, in_or_app. right. exact Hx. }
      exists (fpL ++ fpR ++ fp2). split.
      * rewrite S3, <- app_assoc. change (insert_at 1 nid (c :: cs')) with (c :: nid :: cs'). change (insert_at 0 sep (k :: ks')) with (sep :: k :: ks').
        apply reps_cons; [exact S1| |exact S4|destruct hi; cbn in *; lia|].
        -- apply reps_cons; [exact S2|exact R2'|cbn in *; lia|exact B|].
           intros x Hx Hx2. assert (In x fp1 \/ x = nid) as [H|H] by (apply S7; right; exact Hx); [apply (D x H Hx2)|].
           subst x. apply Hn, in_or_app. right. exact Hx2.
        -- intros x Hx Hx2. apply in_app_or in Hx2 as [Hx2|Hx2]; [apply (S6 x Hx Hx2)|].
           assert (In x fp1 \/ x = nid) as [H|H] by (apply S7; left; exact Hx); [apply (D x H Hx2)|].
           subst x. apply Hn, in_or_app. right. exact Hx2.
      * intros x. rewrite !in_app_iff. specialize (S7 x). tauto.
  - inversion R as [? c lo0 hi0 kvs0 fp0 R0|? c cs' k ks' ? ? kvs1 fp1 kvs2 fp2 R1 R2 A B D]; subst; [cbn in Hi; lia|].
    cbn [nth] in *.
    assert (Hn2 : ~ In nid fp2) by (intros X; apply Hn, in_or_app; right; exact X).
    destruct (IH cs' ks' (Some k) hi kvs2 fp2 R2 ltac:(cbn in Hi; lia) Hk Hn2) as (fp2' & I1 & I2).
    set (cc := nth i cs' (-1)) in *.
    set (h2 := hset nid _ (hset cc _ h)) in *.
    assert (Hcc : In cc fp2) by (apply (reps_kid_in _ _ _ _ _ _ _ _ R2); cbn in Hi; lia).
    assert (R1' : rep h2 d c lo (Some k) kvs1 fp1).
    { apply (proj1 (rep_frame h h2)); [exact R1|]. intros x Hx. unfold h2.
      rewrite !hget_hset_other; [reflexivity| |].
      - intros ->. apply (D cc Hx Hcc).
      - intros ->. apply Hn, in_or_app. left. exact Hx. }
    exists (fp1 ++ fp2'). split.
    + rewrite !insert_at_S. apply reps_cons; [exact R1'|exact I1|exact A|exact B|].
      intros x Hx Hx2. apply I2 in Hx2 as [H|H]; [apply (D x Hx H)|]. subst x. apply Hn, in_or_app. left. exact Hx.
    + intros x. rewrite !in_app_iff, I2. tauto.
Qed.

(* ------------------------------------------------------------------ *)
(** * Descent into the child that owns key [k], and putting the parent back together *)
Lemma reps_descend h d k : forall cs ks lo hi kvs fp, reps h d cs ks lo hi kvs fp -> lo_ok lo k -> hi_ok hi k ->
  exists lo' hi' kvsA kvsC kvsB fpC,
    rep h d (nth (bisect_right ks k) cs (-1)) lo' hi' kvsC fpC /\ lo_ok lo' k /\ hi_ok hi' k /\
    kvs = kvsA ++ kvsC ++ kvsB /\ (forall x, In x fpC -> In x fp) /\
    (forall y, In y (map fst kvsA) -> y < k) /\ (forall y, In y (map fst kvsB) -> k < y) /\
    (forall h' kvsC' fpC', rep h' d (nth (bisect_right ks k) cs (-1)) lo' hi' kvsC' fpC' ->
        (forall x, In x fp -> ~ In x fpC -> hget x h' = hget x h) ->
        (forall x, In x fpC' -> In x fpC \/ ~ In x fp) ->
        exists fp', reps h' d cs ks lo hi (kvsA ++ kvsC' ++ kvsB) fp' /\ (forall x, In x fp' -> In x fp \/ In x fpC')).
Proof.
  induction 1 as [d c lo hi kvs fp R|d c cs k0 ks lo hi kvs1 fp1 kvs2 fp2 R1 R2 IH A B D]; intros L H.
  - exists lo, hi, [], kvs, [], fp. cbn [bisect_right nth]. rewrite app_nil_r.
    split; [exact R|]. split; [exact L|]. split; [exact H|]. split; [reflexivity|]. split; [auto|]. split; [intros y []|]. split; [intros y []|].
    intros h' kvsC' fpC' R' _ _. exists fpC'. rewrite app_nil_r. split; [apply reps_one, R'|auto].
  - cbn [bisect_right]. destruct (k0 <=? k) eqn:E.
    + cbn [nth]. destruct (IH ltac:(cbn; lia) H) as (lo' & hi' & kvsA & kvsC & kvsB & fpC & I1 & I2 & I3 & I4 & I5 & I6 & I7 & I8).
      exists lo', hi', (kvs1 ++ kvsA), kvsC, kvsB, fpC.
      split; [exact I1|]. split; [exact I2|]. split; [exact I3|]. split; [rewrite I4, app_assoc; reflexivity|].
      split; [intros x Hx; apply in_or_app; right; apply I5, Hx|]. split; [|split; [exact I7|]].
      * intros y Hy. rewrite map_app in Hy. apply in_app_or in Hy as [Hy|Hy]; [|apply I6, Hy].
        destruct (keys_in_all _ _ _ (proj1 (rep_keys h) _ _ _ _ _ _ R1) y Hy) as [_ Q]. cbn in Q. lia.
      * intros h' kvsC' fpC' R' Fr Sub.
        destruct (I8 h' kvsC' fpC' R') as (fp2' & J1 & J2).
        -- intros x Hx Nx. apply Fr; [apply in_or_app; right; exact Hx|exact Nx].
        -- intros x Hx. destruct (Sub x Hx) as [Q|Q]; [left; exact Q|right]. intros X. apply Q, in_or_app. right. exact X.
        -- exists (fp1 ++ fp2'). split.
           ++ rewrite <- app_assoc. apply reps_cons; [|exact J1|exact A|exact B|].
              ** apply (proj1 (rep_frame h h')); [exact R1|]. intros x Hx. apply Fr; [apply in_or_app; left; exact Hx|].
                 intros X. apply (D x Hx), I5, X.
              ** intros x Hx Hx2. destruct (J2 x Hx2) as [Q|Q]; [apply (D x Hx Q)|].
                 destruct (Sub x Q) as [Q2|Q2]; [apply (D x Hx), I5, Q2|apply Q2, in_or_app; left; exact Hx].
           ++ intros x Hx. apply in_app_or in Hx as [Hx|Hx]; [left; apply in_or_app; left; exact Hx|].
              destruct (J2 x Hx) as [Q|Q]; [left; apply in_or_app; right; exact Q|right; exact Q].
    + cbn [nth]. exists lo, (Some k0), [], kvs1, kvs2, fp1. cbn [app].
      split; [exact R1|]. split; [exact L|]. split; [cbn; lia|]. split; [reflexivity|].
      split; [intros x Hx; apply in_or_app; left; exact Hx|]. split; [intros y []|]. split.
      * intros y Hy. destruct (keys_in_all _ _ _ (proj2 (rep_keys h) _ _ _ _ _ _ _ R2) y Hy) as [Q _]. cbn in Q. lia.
      * intros h' kvsC' fpC' R' Fr Sub. exists (fpC' ++ fp2). split.
        -- apply reps_cons; [exact R'| |exact A|exact B|].
           ++ apply (proj2 (rep_frame h h')); [exact R2|]. intros x Hx. apply Fr; [apply in_or_app; right; exact Hx|].
              intros X. apply (D x X Hx).
           ++ intros x Hx Hx2. destruct (Sub x Hx) as [Q|Q]; [apply (D x Q Hx2)|apply Q, in_or_app; right; exact Hx2].
        -- intros x Hx. apply in_app_or in Hx as [Hx|Hx]; [right; exact Hx|left; apply in_or_app; right; exact Hx].
Qed.

Lemma upsert_app_lt k v A R : (forall y, In y (map fst A) -> y < k) -> upsert k v (A ++ R) = A ++ upsert k v R.
Proof.
  induction A as [|[k' v'] A IH]; intros H; cbn; [reflexivity|].
  replace (k' <? k) with true by (specialize (H k' (or_introl eq_refl)); lia). f_equal. apply IH. intros y Hy. apply H. right. exact Hy.
Qed.

Lemma upsert_app_gt k v C B : (forall y, In y (map fst B) -> k < y) -> upsert k v (C ++ B) = upsert k v C ++ B.
Proof.
  intros H. induction C as [|[k' v'] C IH]; cbn.
  - destruct B as [|[k' v'] B]; [reflexivity|]. cbn. specialize (H k' (or_introl eq_refl)).
    replace (k' <? k) with false by lia. replace (k' =? k) with false by lia. reflexivity.
  - destruct (k' <? k); [cbn [app]; f_equal; exact IH|]. destruct (k' =? k); reflexivity.
Qed.

Lemma assoc_app_lt k A R : (forall y, In y (map fst A) -> y < k) -> assoc k (A ++ R) = assoc k R.
Proof.
  intros H. rewrite assoc_app, assoc_none; [reflexivity|]. intros X. specialize (H k X). lia.
Qed.

Lemma assoc_app_gt k C B : (forall y, In y (map fst B) -> k < y) -> assoc k (C ++ B) = assoc k C.
Proof.
  intros H. rewrite assoc_app. destruct (assoc k C); [reflexivity|]. apply assoc_none. intros X. specialize (H k X). lia.
Qed.

(* ------------------------------------------------------------------ *)
(** * [_split_child] and [_insert_non_full] on the heap model *)
Lemma split_child_eq t pid idx :
  split_child t pid idx =
  (let p := hget pid (heap t) in
   let cid := nth idx (b_kids p) (-1) in
   let sp := split_parts (hget cid (heap t)) in
   mkBt (hset pid (mkNode (b_leaf p) (insert_at idx (snd sp) (b_keys p)) (b_vals p) (insert_at (S idx) (nxt t) (b_kids p)))
           (hset (nxt t) (snd (fst sp)) (hset cid (fst (fst sp)) (heap t))))
        (root t) (depth t) (total t) (nxt t + 1) (order t)).
Proof. unfold split_child, split_parts. cbv zeta. destruct (b_leaf (hget (nth idx (b_kids (hget pid (heap t))) (-1)) (heap t))); reflexivity. Qed.

Lemma split_child_ok t pid idx d lo hi kvs fp :
  rep (heap t) (S d) pid lo hi kvs fp -> b_leaf (hget pid (heap t)) = false ->
  (idx < length (b_kids (hget pid (heap t))))%nat ->
  (1 <= length (b_keys (hget (nth idx (b_kids (hget pid (heap t))) (-1)%Z) (heap t))))%nat ->
  (forall x, In x fp -> x < nxt t) ->
  let t' := split_child t pid idx in
  exists fp' sep, rep (heap t') (S d) pid lo hi kvs fp' /\ (forall x, In x fp' <-> In x fp \/ x = nxt t) /\
    nxt t' = nxt t + 1 /\ root t' = root t /\ depth t' = depth t /\ total t' = total t /\ order t' = order t /\
    (forall x, ~ In x fp -> x <> nxt t -> hget x (heap t') = hget x (heap t)) /\
    b_leaf (hget pid (heap t')) = false /\
    b_keys (hget pid (heap t')) = insert_at idx sep (b_keys (hget pid (heap t))) /\
    b_kids (hget pid (heap t')) = insert_at (S idx) (nxt t) (b_kids (hget pid (heap t))).
Proof.
  intros R L Hi Hk Hf. cbv zeta. rewrite split_child_eq. cbv zeta.
  set (p := hget pid (heap t)) in *. set (cid := nth idx (b_kids p) (-1)) in *.
  set (sp := split_parts (hget cid (heap t))). set (nid := nxt t).
  inversion R as [|d' id lo0 hi0 kvs0 fp0 L0 RS N]; subst; [unfold p in L; congruence|]. fold p in RS.
  assert (Hn : ~ In nid fp0) by (intros X; specialize (Hf nid (or_intror X)); unfold nid in Hf; lia).
  assert (Hp : pid <> nid) by (intros X; specialize (Hf pid (or_introl eq_refl)); unfold nid in X; lia).
  destruct (reps_split_child (heap t) d nid idx _ _ _ _ _ _ RS Hi Hk Hn) as (fp0' & I1 & I2).
  fold cid in I1. fold sp in I1.
  set (h2 := hset nid (snd (fst sp)) (hset cid (fst (fst sp)) (heap t))) in *.
  set (p' := mkNode (b_leaf p) (insert_at idx (snd sp) (b_keys p)) (b_vals p) (insert_at (S idx) nid (b_kids p))).
  cbn [heap root depth total nxt order].
  assert (G : hget pid (hset pid p' h2) = p') by apply hget_hset_same.
  exists (pid :: fp0'), (snd sp). rewrite G. cbn [b_leaf b_keys b_kids p'].
  split; [|split; [|repeat split; auto]].
  - apply rep_node; [rewrite G; exact L|rewrite G; cbn [b_kids b_keys p']|].
    + apply (proj2 (rep_frame h2 (hset pid p' h2))); [exact I1|]. intros x Hx. apply hget_hset_other.
      intros ->. apply I2 in Hx as [Hx|Hx]; [contradiction|contradiction].
    + intros X. apply I2 in X as [X|X]; [contradiction|contradiction].
  - intros x. cbn [In]. rewrite I2. tauto.
  - intros x Hx Hx2. rewrite hget_hset_other by (intros ->; apply Hx; left; reflexivity). unfold h2.
    rewrite hget_hset_other by exact Hx2. apply hget_hset_other. intros ->.
    apply Hx. right. apply (reps_kid_in _ _ _ _ _ _ _ _ RS idx Hi).
Qed.

Lemma insert_ok : forall d f t nid lo hi kvs fp k v,
  rep (heap t) d nid lo hi kvs fp -> lo_ok lo k -> hi_ok hi k -> (d <= f)%nat ->
  (forall x, In x fp -> x < nxt t) -> 2 <= order t ->
  let t' := insert_non_full f t nid k v in
  exists fp',
    rep (heap t') d nid lo hi (upsert k v kvs) fp' /\ (forall x, In x fp' -> In x fp \/ (nxt t <= x /\ x < nxt t')) /\
    nxt t <= nxt t' /\ (forall x, ~ In x fp -> x < nxt t -> hget x (heap t') = hget x (heap t)) /\
    root t' = root t /\ depth t' = depth t /\ order t' = order t /\
    total t' = total t + (match assoc k kvs with Some _ => 0 | None => 1 end).
Proof.
  induction d as [|d IH]; intros f t nid lo hi kvs fp k v R L H Hf Hx Ho; [inversion R|].
  destruct f as [|f]; [lia|]. cbv zeta. cbn [insert_non_full].
  inversion R as [id lo0 hi0 Lf E K|d' id lo0 hi0 kvs0 fp0 Lf RS N]; subst.
  - (* leaf *)
    rewrite Lf. set (n := hget nid (heap t)) in *.
    pose proof (leaf_upsert (b_keys n) lo hi (b_vals n) k v K E L H) as LU. cbv zeta in LU.
    destruct ((bisect_left (b_keys n) k <? length (b_keys n))%nat && (nth (bisect_left (b_keys n) k) (b_keys n) 0 =? k)).
    + destruct LU as (U1 & U2 & U3). exists [nid]. unfold with_heap. cbn [heap root depth total nxt order].
      split; [|split; [auto|split; [lia|split; [|repeat split; auto]]]].
      * pose proof (rep_leaf (hset nid (mkNode true (b_keys n) (set_at (bisect_left (b_keys n) k) v (b_vals n)) (b_kids n)) (heap t)) nid lo hi) as X.
        rewrite hget_hset_same in X. cbn [b_leaf b_keys b_vals] in X. rewrite <- U1. apply X; auto.
      * intros x Hn _. apply hget_hset_other. intros ->. apply Hn. left. reflexivity.
      * destruct (assoc k (combine (b_keys n) (b_vals n))); [lia|congruence].
    + destruct LU as (U1 & U2 & U3 & U4). exists [nid]. cbn [heap root depth total nxt order].
      split; [|split; [auto|split; [lia|split; [|repeat split; auto]]]].
      * pose proof (rep_leaf (hset nid (mkNode true (insert_at (bisect_left (b_keys n) k) k (b_keys n)) (insert_at (bisect_left (b_keys n) k) v (b_vals n)) (b_kids n)) (heap t)) nid lo hi) as X.
        rewrite hget_hset_same in X. cbn [b_leaf b_keys b_vals] in X. rewrite <- U1. apply X; auto.
      * intros x Hn _. apply hget_hset_other. intros ->. apply Hn. left. reflexivity.
      * rewrite U4. reflexivity.
  - (* internal node *)
    rewrite Lf. set (n := hget nid (heap t)) in *. set (idx := bisect_right (b_keys n) k).
    set (cid := nth idx (b_kids n) (-1)).
    pose proof (reps_length _ _ _ _ _ _ _ _ RS) as Hlen.
    assert (Hidx : (idx < length (b_kids n))%nat) by (pose proof (bisect_right_le (b_keys n) k); unfold idx; lia).
    (* the state [t0] in which the descent continues, in both branches *)
    assert (CONT : forall t0 fp1,
              rep (heap t0) (S d) nid lo hi kvs fp1 -> b_leaf (hget nid (heap t0)) = false ->
              (forall x, In x fp1 -> x < nxt t0) -> order t0 = order t ->
              let c := nth (bisect_right (b_keys (hget nid (heap t0))) k) (b_kids (hget nid (heap t0))) (-1) in
              let t' := insert_non_full f t0 c k v in
              exists fp',
                rep (heap t') (S d) nid lo hi (upsert k v kvs) fp' /\ (forall x, In x fp' -> In x fp1 \/ (nxt t0 <= x /\ x < nxt t')) /\
                nxt t0 <= nxt t' /\ (forall x, ~ In x fp1 -> x < nxt t0 -> hget x (heap t') = hget x (heap t0)) /\
                root t' = root t0 /\ depth t' = depth t0 /\ order t' = order t0 /\
                total t' = total t0 + (match assoc k kvs with Some _ => 0 | None => 1 end)).
    { intros t0 fp1 R0 L0 Hx0 Ho0. cbv zeta.
      inversion R0 as [|d' id lo0 hi0 kvs0 fpr L1 RS0 N0]; subst; [congruence|].
      destruct (reps_descend (heap t0) d k _ _ _ _ _ _ RS0 L H) as (lo' & hi' & kvsA & kvsC & kvsB & fpC & D1 & D2 & D3 & D4 & D5 & D6 & D7 & D8).
      set (c := nth (bisect_right (b_keys (hget nid (heap t0))) k) (b_kids (hget nid (heap t0))) (-1)) in *.
      destruct (IH f t0 c lo' hi' kvsC fpC k v D1 D2 D3 ltac:(lia) ltac:(intros x Hxx; apply Hx0; right; apply D5, Hxx) ltac:(lia))
        as (fpC' & J1 & J2 & J3 & J4 & J5 & J6 & J7 & J8).
      cbv zeta in J1, J2, J3, J4, J5, J6, J7, J8. set (t' := insert_non_full f t0 c k v) in *.
      destruct (D8 (heap t') (upsert k v kvsC) fpC' J1) as (fp' & E1 & E2).
      { intros x Hxx Nx. apply J4; [exact Nx|apply Hx0; right; exact Hxx]. }
      { intros x Hxx. destruct (J2 x Hxx) as [Q|Q]; [left; exact Q|right]. intros X. specialize (Hx0 x (or_intror X)). lia. }
      assert (Nc : ~ In nid fpC) by (intros X; apply N0, D5, X).
      assert (Gn : hget nid (heap t') = hget nid (heap t0)) by (apply J4; [exact Nc|apply Hx0; left; reflexivity]).
      exists (nid :: fp'). split; [|split; [|split; [exact J3|split; [|split; [exact J5|split; [exact J6|split; [exact J7|]]]]]]].
      - replace (upsert k v kvs) with (kvsA ++ upsert k v kvsC ++ kvsB)
          by (rewrite D4, (upsert_app_lt k v kvsA _ D6), (upsert_app_gt k v kvsC kvsB D7); reflexivity).
        apply rep_node; [rewrite Gn; exact L1|rewrite Gn; exact E1|].
        intros X. destruct (E2 _ X) as [Q|Q]; [contradiction|]. destruct (J2 _ Q) as [Q2|Q2]; [contradiction|].
        specialize (Hx0 nid (or_introl eq_refl)). lia.
      - intros x [<-|Hxx]; [left; left; reflexivity|]. destruct (E2 _ Hxx) as [Q|Q]; [left; right; exact Q|].
        destruct (J2 _ Q) as [Q2|Q2]; [left; right; apply D5, Q2|right; exact Q2].
      - intros x Nx Hlt. apply J4; [|exact Hlt]. intros X. apply Nx. right. apply D5, X.
      - rewrite J8, D4, (assoc_app_lt k kvsA _ D6), (assoc_app_gt k kvsC kvsB D7). reflexivity. }
    destruct (zlen (b_keys (hget cid (heap t))) >=? order t - 1) eqn:Efull.
    + (* the child is full: split first *)
      assert (Hk1 : (1 <= length (b_keys (hget cid (heap t))))%nat) by (unfold zlen in Efull; lia).
      destruct (split_child_ok t nid idx d lo hi kvs (nid :: fp0) R Lf Hidx Hk1 Hx) as (fp1 & sep & S1 & S2 & S3 & S4 & S5 & S6 & S7 & S8 & S9 & S10 & S11).
      cbv zeta in S1, S2, S3, S4, S5, S6, S7, S8, S9, S10, S11. set (t0 := split_child t nid idx) in *.
      assert (Etgt : (if k >=? nth idx (b_keys (hget nid (heap t0))) 0 then S idx else idx) = bisect_right (b_keys (hget nid (heap t0))) k).
      { rewrite S10. fold n. rewrite nth_insert_at by (apply bisect_right_le). unfold idx. rewrite bisect_right_insert.
        replace (k >=? sep) with (sep <=? k) by lia. reflexivity. }
      rewrite Etgt.
      destruct (CONT t0 fp1 S1 S9) as (fp' & C1 & C2 & C3 & C4 & C5 & C6 & C7 & C8).
      { intros x Hxx. apply S2 in Hxx as [Q|Q]; [specialize (Hx x Q); lia|lia]. }
      { exact S7. }
      cbv zeta in C1, C2, C3, C4, C5, C6, C7, C8.
      exists fp'. split; [exact C1|]. split; [|split; [lia|split; [|repeat split; congruence]]].
      * intros x Hxx. destruct (C2 x Hxx) as [Q|Q]; [apply S2 in Q as [Q|Q]; [left; exact Q|right; lia]|right; lia].
      * intros x Nx Hlt. rewrite C4; [apply S8; [exact Nx|lia]| |lia]. intros X. apply S2 in X as [X|X]; [contradiction|lia].
    + destruct (CONT t (nid :: fp0) R Lf Hx eq_refl) as (fp' & C1 & C2 & C3 & C4 & C5 & C6 & C7 & C8).
      exists fp'. repeat split; auto.
Qed.
