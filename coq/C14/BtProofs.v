(** C14 — B-tree: the overlap clause is refuted on the faithful model (a get
    suspended on a node that a concurrent insert splits), known finding
    C14-btree-get-overlaps-split.  The sequential refinement of the B-tree is
    proved in C14/{BtRep,BtIns,BtOps}.v. *)
From HS Require Import Base.Prelude C14.Model C14.BtModel.
Local Open Scope Z_scope.

Definition conv_op (o : bop) : op :=
  match o with BPut k v => Put k v | BDel k => Del k | BGet k => Get k | BScan lo hi => Scan lo hi end.
Definition conv_out (o : bout) : out :=
  match o with BONone | BODel _ => ONone | BOGet r => OGet r | BOScan r => OScan r end.

Definition bt_events (s : bstep) (r : option bres) : list hevent :=
  match s, r with
  | BStart oid o, Some (BYield ns _) => [HStart oid (conv_op o); HYield oid ns]
  | BStart oid o, Some (BDone x) => [HStart oid (conv_op o); HDone oid (conv_out x)]
  | BResume oid, Some (BYield ns _) => [HYield oid ns]
  | BResume oid, Some (BDone x) => [HDone oid (conv_out x)]
  | BStart oid _, None | BResume oid, None => [HBad oid]
  end.

Fixpoint bt_hist (w : bworld) (sch : list bstep) : list hevent :=
  match sch with
  | [] => []
  | s :: r => let '(w1, res) := bw_step w s in bt_events s res ++ bt_hist w1 r
  end.

(** every read of every history is admissible (same predicate as for the LSM tree) *)
Definition bt_overlap_statement : Prop :=
  forall ord sch, ord >= 3 -> reads_ok (bt_hist (bt_init ord, []) sch) = true.

(** order 3: the root leaf [1;2] is full; a get of key 2 is suspended on it
    while put(3) splits it ([1] stays, [2;3] goes to the new sibling). *)
Definition bt_witness : list bstep :=
  [BStart 1 (BPut 1 10); BResume 1; BResume 1;
   BStart 2 (BPut 2 20); BResume 2; BResume 2;
   BStart 3 (BGet 2);
   BStart 4 (BPut 3 30); BResume 4;
   BResume 3].

Lemma bt_witness_result :
  last (bt_hist (bt_init 3, []) bt_witness) (HBad 0) = HDone 3 (OGet None).
Proof. vm_compute. reflexivity. Qed.

Theorem bt_overlap_refuted : ~ bt_overlap_statement.
Proof.
  intros H. specialize (H 3 bt_witness). assert (3 >= 3) as G by lia. specialize (H G).
  vm_compute in H. discriminate.
Qed.

(** sanity: the sequential API on the same operations does find the key *)
Example bt_sequential_example :
  bt_get_sync (bt_insert (bt_insert (bt_insert (bt_init 3) 1 10) 2 20) 3 30) 2 = Some 20.
Proof. vm_compute. reflexivity. Qed.
