(** C14 — the memtable, tied to the code: [Memtable.put_sync / get_sync /
    contains / is_full / size] as REGENERATED from components/storage/memtable.py
    ([Gen/MemtableGen.v], py2coq) against the key-sorted table the LSM model
    keeps as [c_mem].  The code's dict is insertion ordered, the model's table
    key sorted: [mem_rep] relates them by lookups and size (any encoding [venc]
    of stored values as the opaque integers of the translation). *)
From HS Require Import Base.Prelude Base.PyLib C14.Model C14.LsmProofs Gen.MemtableGen.
Local Open Scope Z_scope.

Section Tie.
Variable venc : sval -> Z.

Definition mem_rep (d : pydict) (t : table) : Prop :=
  ssorted t /\ length d = length t /\ forall k, dfind d k = option_map venc (assoc k t).

Lemma dfind_dset d k v k' : dfind (dset d k v) k' = if k' =? k then Some v else dfind d k'.
Proof.
  induction d as [|[a b] r IH]; cbn [dset dfind].
  - rewrite (Z.eqb_sym k k'). destruct (k' =? k); reflexivity.
  - destruct (a =? k) eqn:E; cbn [dfind].
    + destruct (a =? k') eqn:E2; destruct (k' =? k) eqn:E3; try reflexivity; lia.
    + destruct (a =? k') eqn:E2; [destruct (k' =? k) eqn:E3; [lia|reflexivity]|apply IH].
Qed.

Lemma dset_length d k v : length (dset d k v) = match dfind d k with Some _ => length d | None => S (length d) end.
Proof.
  induction d as [|[a b] r IH]; cbn [dset dfind length]; [reflexivity|].
  destruct (a =? k); cbn [length]; [reflexivity|]. rewrite IH. destruct (dfind r k); reflexivity.
Qed.

Lemma assoc_notin k t : ~ In k (keys t) -> assoc k t = None.
Proof.
  induction t as [|[a b] r IH]; cbn; [reflexivity|]. intros H.
  destruct (k =? a) eqn:E; [exfalso; apply H; left; lia|]. apply IH. intros X. apply H. right; exact X.
Qed.

Lemma sset_length k v t : ssorted t ->
  length (sset k v t) = match assoc k t with Some _ => length t | None => S (length t) end.
Proof.
  induction t as [|[a b] r IH]; cbn [sset assoc length]; [reflexivity|]. intros [H1 H2].
  destruct (k <? a) eqn:E1.
  - replace (k =? a) with false by lia. cbn [length].
    rewrite assoc_notin; [reflexivity|]. intros X. specialize (H1 _ X). lia.
  - destruct (k =? a) eqn:E2; cbn [length]; [reflexivity|]. rewrite (IH H2). destruct (assoc k r); reflexivity.
Qed.

Lemma dmem_dfind d k : dmem d k = match dfind d k with Some _ => true | None => false end.
Proof. induction d as [|[a b] r IH]; cbn; [reflexivity|]. destruct (a =? k); cbn; [reflexivity|exact IH]. Qed.

(** [put_sync]: the model's [sset]; returns whether the memtable is now full. *)
Lemma tie_put_sync (m : Memtable) t k v : mem_rep (Memtable__data m) t ->
  let '(m', full) := Memtable_put_sync m k (venc v) in
  mem_rep (Memtable__data m') (sset k v t)
  /\ full = (zlen (sset k v t) >=? Memtable__size_threshold m)
  /\ Memtable__size_threshold m' = Memtable__size_threshold m.
Proof.
  intros (Hs & Hl & Hf). unfold Memtable_put_sync, Memtable_is_full. cbn.
  assert (Hlen : length (dset (Memtable__data m) k (venc v)) = length (sset k v t)).
  { rewrite dset_length, (sset_length _ _ _ Hs), Hf. destruct (assoc k t); cbn; congruence. }
  repeat split.
  - now apply ssorted_sset.
  - exact Hlen.
  - intros k'. rewrite dfind_dset, assoc_sset, Hf. destruct (k' =? k); reflexivity.
  - unfold zlen. now rewrite Hlen.
Qed.

(** [get_sync] / [contains] / [size] / [is_full] read the model table. *)
Lemma tie_mem_reads (m : Memtable) t k : mem_rep (Memtable__data m) t ->
  snd (Memtable_get_sync m k) = option_map venc (assoc k t)
  /\ Memtable__data (fst (Memtable_get_sync m k)) = Memtable__data m
  /\ Memtable_contains m k = match assoc k t with Some _ => true | None => false end
  /\ Memtable_size m = zlen t
  /\ Memtable_is_full m = (zlen t >=? Memtable__size_threshold m).
Proof.
  intros (Hs & Hl & Hf). unfold Memtable_get_sync, Memtable_contains, Memtable_size, Memtable_is_full, zlen. cbn.
  rewrite dmem_dfind, Hf, Hl. destruct (assoc k t); cbn; repeat split.
Qed.

Lemma mem_rep_empty : mem_rep [] [].
Proof. repeat split. Qed.
End Tie.

(** About the translated class alone: a read returns the latest value written
    under that key, whatever else was written in between, and [None] for a key
    never written. *)
Fixpoint puts (m : Memtable) (l : list (Z * Z)) : Memtable :=
  match l with [] => m | (k, v) :: r => puts (fst (Memtable_put_sync m k v)) r end.

Fixpoint last_put (k : Z) (l : list (Z * Z)) (acc : option Z) : option Z :=
  match l with [] => acc | (k', v) :: r => last_put k r (if k' =? k then Some v else acc) end.

Lemma puts_find l : forall m k, dfind (Memtable__data (puts m l)) k = last_put k l (dfind (Memtable__data m) k).
Proof.
  induction l as [|[a b] r IH]; intros m k; cbn [puts last_put]; [reflexivity|].
  rewrite IH. unfold Memtable_put_sync. cbn. rewrite dfind_dset. rewrite (Z.eqb_sym a k). reflexivity.
Qed.

Theorem code_memtable_read_latest : forall thr l k,
  let m := puts (mkMemtable thr [] 0 0 0 0 0) l in
  snd (Memtable_get_sync m k) = last_put k l None
  /\ Memtable_contains m k = match last_put k l None with Some _ => true | None => false end.
Proof.
  intros thr l k m. unfold Memtable_get_sync, Memtable_contains. cbn.
  rewrite dmem_dfind. unfold m. rewrite puts_find. cbn. destruct (last_put k l None); split; reflexivity.
Qed.
