(** C11 — node-level facts used by the cluster-level proof of leader completeness
    and state-machine safety (C11/Completeness.v): what one handler invocation
    does to the replication state (log, commit index, next/match index, applied
    commands), to the vote, and which messages it emits. *)
From HS Require Import Base.Prelude C11.Model C11.NodeProofs C11.Election C11.LogProofs C11.LogMatching.
Local Open Scope Z_scope.

(* ------------------------------------------------------------------ *)
(** * Lists *)
Lemma firstn_le_eq {A} (a b : list A) c c' : (c' <= c)%nat -> firstn c a = firstn c b -> firstn c' a = firstn c' b.
Proof.
  intros H E. replace c' with (Nat.min c' c) by lia. rewrite <- !firstn_firstn. rewrite E. reflexivity.
Qed.

Lemma firstn_nth_eq {A} (a b : list A) c k : (k < c)%nat -> firstn c a = firstn c b -> nth_error a k = nth_error b k.
Proof.
  intros H E. rewrite <- (nth_error_firstn a c k H), <- (nth_error_firstn b c k H), E. reflexivity.
Qed.

Lemma skipn_nth_cons {A} (G : list A) p x r : skipn p G = x :: r -> nth_error G p = Some x /\ skipn (S p) G = r.
Proof.
  revert G; induction p as [|p IH]; intros G E; destruct G as [|y G]; cbn in *; try discriminate.
  - inversion E; auto.
  - apply IH, E.
Qed.

(** The follower's append loop leaves alone every prefix on which it agrees with the source. *)
Lemma alogs_keep G l : forall L p c,
  firstn c L = firstn c G -> (c <= length L)%nat -> (p <= length L)%nat ->
  l = firstn (length l) (skipn p G) ->
  firstn c (alogs L p l) = firstn c L.
Proof.
  induction l as [|[t cmd] l IH]; intros L p c Hc Hcl Hp Hl; cbn [alogs]; [reflexivity|].
  cbn [length] in Hl. destruct (skipn p G) as [|x r] eqn:Es; [discriminate|].
  cbn [firstn] in Hl. injection Hl as Hx Hr. subst x.
  destruct (skipn_nth_cons G p _ _ Es) as [HG Er].
  destruct (alog_spec L p t cmd Hp) as (A1 & A2 & _).
  destruct (Nat.lt_ge_cases p c) as [Hlt|Hge].
  - (* inside the agreed prefix: the entry is kept *)
    assert (E : nth_error L p = Some (t, cmd)) by (rewrite (firstn_nth_eq L G c p Hlt Hc); exact HG).
    assert (EL : alog L p t cmd = L) by (unfold alog; rewrite E; cbn [fst]; rewrite Z.eqb_refl; reflexivity).
    rewrite EL. apply IH; auto; [|rewrite Er; exact Hr].
    assert (p < length L)%nat by (apply nth_error_Some; congruence). lia.
  - assert (E1 : firstn c (alog L p t cmd) = firstn c L) by (apply (firstn_le_eq _ _ p c Hge A1)).
    rewrite <- E1. apply IH; [rewrite E1; exact Hc|lia|lia|rewrite Er; exact Hr].
Qed.

(** ... and afterwards agrees with the source up to the last entry sent. *)
Lemma alogs_match g G l : forall L c,
  pok g L -> pok g G -> firstn c L = firstn c G -> (c <= length L)%nat ->
  l = firstn (length l) (skipn c G) ->
  firstn (c + length l) (alogs L c l) = firstn (c + length l) G /\ (c + length l <= length (alogs L c l))%nat.
Proof.
  induction l as [|[t cmd] l IH]; intros L c HL HG Hpre Hc Hl; cbn [alogs length].
  - rewrite Nat.add_0_r. split; [exact Hpre|lia].
  - cbn [length] in Hl. destruct (skipn c G) as [|x r] eqn:Es; [discriminate|].
    cbn [firstn] in Hl. injection Hl as Hx Hr. subst x.
    destruct (skipn_nth_cons G c _ _ Es) as [HGc Er].
    destruct (alog_pok g G L c t cmd HL HG Hpre HGc Hc) as [P1 P2].
    replace (c + S (length l))%nat with (S c + length l)%nat by lia.
    apply IH; auto; [apply alog_length, Hc|rewrite Er; exact Hr].
Qed.

(* ------------------------------------------------------------------ *)
(** * Commit index through the append loop *)
Lemma append_one_commit n k t cmd :
  (commit n <= Z.of_nat k \/ exists ex, nth_error (log n) k = Some ex /\ fst ex = t) ->
  commit (append_one n (Z.of_nat k + 1, t, cmd)) = commit n.
Proof.
  intros H. unfold append_one. rewrite log_get_nat.
  destruct (nth_error (log n) k) as [ex|] eqn:E; [|destruct n; reflexivity].
  destruct (fst ex =? t) eqn:Et; cbn [negb]; [reflexivity|].
  destruct H as [H|(ex' & E' & F)]; [|inversion E'; subst; lia].
  unfold truncate_from.
  assert (k < length (log n))%nat by (apply nth_error_Some; congruence).
  replace ((Z.of_nat k + 1 <? 1) || (Z.of_nat k + 1 >? zlen (log n))) with false by (unfold zlen; lia).
  replace (commit n >=? Z.of_nat k + 1) with false by lia. destruct n; reflexivity.
Qed.

Lemma fold_append_commit G l : forall n p (c : nat),
  commit n = Z.of_nat c -> firstn c (log n) = firstn c G -> (c <= length (log n))%nat -> (p <= length (log n))%nat ->
  l = firstn (length l) (skipn p G) ->
  commit (fold_left append_one (with_index (Z.of_nat p) l) n) = commit n.
Proof.
  induction l as [|[t cmd] l IH]; intros n p c Hcm Hc Hcl Hp Hl; cbn [with_index fold_left]; [reflexivity|].
  cbn [length] in Hl. destruct (skipn p G) as [|x r] eqn:Es; [discriminate|].
  cbn [firstn] in Hl. injection Hl as Hx Hr. subst x.
  destruct (skipn_nth_cons G p _ _ Es) as [HG Er].
  replace (with_index (Z.of_nat p + 1) l) with (with_index (Z.of_nat (S p)) l) by (f_equal; lia).
  assert (C1 : commit (append_one n (Z.of_nat p + 1, t, cmd)) = commit n).
  { apply append_one_commit. destruct (Nat.lt_ge_cases p c) as [Hlt|Hge]; [right|left; lia].
    exists (t, cmd). split; [|reflexivity]. rewrite (firstn_nth_eq _ G c p Hlt Hc). exact HG. }
  pose proof (append_one_log n p t cmd) as L1.
  destruct (alog_spec (log n) p t cmd Hp) as (A1 & A2 & _).
  assert (K : firstn c (alog (log n) p t cmd) = firstn c (log n)).
  { change (alog (log n) p t cmd) with (alogs (log n) p [(t, cmd)]).
    apply (alogs_keep G [(t, cmd)] (log n) p c Hc Hcl Hp). cbn [length]. rewrite Es. reflexivity. }
  rewrite <- C1. apply (IH _ (S p) c).
  - congruence.
  - rewrite L1, K. exact Hc.
  - rewrite L1. assert (length (firstn c (alog (log n) p t cmd)) = c) by (rewrite K, firstn_length; lia).
    rewrite firstn_length in H. lia.
  - rewrite L1. exact A2.
  - rewrite Er. exact Hr.
Qed.

Lemma fold_append_same_rest es : forall n,
  let n' := fold_left append_one es n in
  applied n' = applied n /\ last_applied n' = last_applied n /\ next_index n' = next_index n /\
  match_index n' = match_index n /\ voted n' = voted n /\ votes n' = votes n /\ nid n' = nid n /\ peers n' = peers n /\
  resolved n' = resolved n.
Proof.
  induction es as [|e es IH]; intros n; cbn [fold_left]; [repeat split|].
  cbv zeta in IH. destruct (IH (append_one n e)) as (A & B & C & D & E & F & G & H & I).
  rewrite A, B, C, D, E, F, G, H, I.
  destruct e as [[idx et] cmd]. unfold append_one. destruct (log_get _ _).
  - destruct (negb _); [|repeat split]. destruct (truncate_from _ _ _). destruct n; repeat split.
  - destruct n; repeat split.
Qed.

(* ------------------------------------------------------------------ *)
(** * Applied commands come from the committed prefix of the log *)
Definition ap_ok (n : node) : Prop :=
  forall idx cmd, In (idx, cmd) (applied n) ->
    1 <= idx /\ idx <= commit n /\ exists t, nth_error (log n) (Z.to_nat (idx - 1)) = Some (t, cmd).

Lemma with_index_in i l idx t cmd : In (idx, t, cmd) (with_index i l) ->
  i < idx /\ idx <= i + zlen l /\ 0 <= idx - i - 1 /\ nth_error l (Z.to_nat (idx - i - 1)) = Some (t, cmd).
Proof.
  revert i; induction l as [|[t0 c0] l IH]; intros i H; cbn in H; [destruct H|].
  destruct H as [H|H].
  - inversion H; subst. unfold zlen; cbn [length]. replace (i + 1 - i - 1) with 0 by lia. cbn. repeat split; lia.
  - destruct (IH _ H) as (A & B & C & D). unfold zlen in *; cbn [length]. repeat split; try lia.
    replace (Z.to_nat (idx - i - 1)) with (S (Z.to_nat (idx - (i + 1) - 1))) by lia. exact D.
Qed.

Lemma apply_one_applied n e x : In x (applied (apply_one n e)) -> In x (applied n) \/ x = (fst (fst e), snd e).
Proof.
  destruct e as [[idx t] cmd]. unfold apply_one. destruct (idx >? last_applied n); [|auto].
  cbn [fst snd].
  assert (H : forall m, applied (match afind idx (pending m) with
                    | Some f => set_resolved (set_pending m (adel idx (pending m))) (resolved m ++ [(f, idx, cmd)])
                    | None => m end) = applied m) by (intros m; destruct (afind _ _); destruct m; reflexivity).
  rewrite H. destruct n; cbn. intros Hin. apply in_app_or in Hin as [Hin|[Hin|[]]]; auto.
Qed.

Lemma apply_committed_applied es : forall n x, In x (applied (apply_committed n es)) ->
  In x (applied n) \/ exists e, In e es /\ x = (fst (fst e), snd e).
Proof.
  unfold apply_committed. induction es as [|e es IH]; intros n x H; cbn [fold_left] in H; [auto|].
  destruct (IH _ _ H) as [H1|(e' & He' & E)].
  - destruct (apply_one_applied _ _ _ H1) as [H2|H2]; [auto|]. right. exists e. split; [left; reflexivity|exact H2].
  - right. exists e'. split; [right; exact He'|exact E].
Qed.

Lemma commit_to_commit n c : 0 <= commit n -> commit n <= zlen (log n) ->
  commit (commit_to n c) = (if c <=? commit n then commit n else Z.min c (zlen (log n))) /\
  commit n <= commit (commit_to n c).
Proof.
  intros H0 H1. unfold commit_to, advance_commit. destruct (c <=? commit n) eqn:E.
  - cbn. split; [destruct n; reflexivity|destruct n; cbn; lia].
  - assert (X : forall es m, commit (apply_committed m es) = commit m).
    { unfold apply_committed. induction es as [|e es IH]; intros m; cbn [fold_left]; [reflexivity|].
      rewrite IH. destruct e as [[idx t] cmd]. unfold apply_one. destruct (idx >? last_applied m); [|reflexivity].
      cbn. destruct (afind _ _); destruct m; reflexivity. }
    rewrite X. destruct n; cbn in *. split; [reflexivity|lia].
Qed.

Lemma commit_to_ap n c : ap_ok n -> 0 <= commit n -> commit n <= zlen (log n) -> ap_ok (commit_to n c).
Proof.
  intros AP H0 H1. destruct (commit_to_commit n c H0 H1) as [Ec Hle].
  intros idx cmd H. rewrite commit_to_log.
  unfold commit_to, advance_commit in H. destruct (c <=? commit n) eqn:E.
  - cbn in H. assert (In (idx, cmd) (applied n)) by (destruct n; exact H).
    destruct (AP _ _ H2) as (A & B & C). repeat split; auto; lia.
  - rewrite Ec. apply apply_committed_applied in H as [H|(e & He & Ee)].
    + assert (In (idx, cmd) (applied n)) by (destruct n; exact H).
      destruct (AP _ _ H2) as (A & B & C). repeat split; auto; lia.
    + destruct e as [[i t] cm]. cbn [fst snd] in Ee. inversion Ee; subst i cm.
      apply with_index_in in He as (A & B & C & D).
      unfold slice in D. assert (Hl : zlen (slice (log n) (commit n) (Z.min c (zlen (log n)))) = Z.min c (zlen (log n)) - commit n)
        by (apply slice_length; lia).
      apply nth_error_firstn_some in D as [_ D]. rewrite nth_error_skipn' in D.
      split; [lia|]. split; [lia|]. exists t. replace (Z.to_nat (idx - 1)) with (Z.to_nat (commit n) + Z.to_nat (idx - commit n - 1))%nat by lia. exact D.
Qed.

Lemma ap_ok_same n n' : ap_ok n -> applied n' = applied n -> commit n <= commit n' ->
  firstn (Z.to_nat (commit n)) (log n') = firstn (Z.to_nat (commit n)) (log n) -> ap_ok n'.
Proof.
  intros AP Ea Hc Hl idx cmd H. rewrite Ea in H. destruct (AP _ _ H) as (A & B & t & C).
  split; [exact A|]. split; [lia|]. exists t. rewrite <- C.
  apply (firstn_nth_eq _ _ (Z.to_nat (commit n))); [lia|exact Hl].
Qed.

(* ------------------------------------------------------------------ *)
(** * AppendEntries at the follower, in full *)
Lemma hae_accept n src t lead p plt l lc G c :
  zmem src (peers n) = true -> term n <= t ->
  ((0 < p)%nat -> exists e, nth_error (log n) (p - 1) = Some e /\ fst e = plt) ->
  apply_inv n -> ap_ok n ->
  commit n = Z.of_nat c -> firstn c (log n) = firstn c G -> (p <= length (log n))%nat ->
  l = firstn (length l) (skipn p G) ->
  0 <= lc -> lc <= Z.of_nat (p + length l) ->
  let r := handle_append_entries n src t lead (Z.of_nat p) plt (with_index (Z.of_nat p) l) lc in
  log (fst r) = alogs (log n) p l /\ commit (fst r) = Z.max (commit n) lc /\ ap_ok (fst r) /\
  snd r = [OElectionTimer; OSend src (AppendResponse t true (nid n) (Z.of_nat p + zlen l))] /\
  next_index (fst r) = next_index n /\ match_index (fst r) = match_index n /\ voted (fst r) = (if t >? term n then None else voted n) /\
  role (fst r) = Follower /\ term (fst r) = t.
Proof.
  intros Ep Ht Hprev AI AP Hcm Hc Hp Hl Hlc0 Hlc. cbv zeta. unfold handle_append_entries.
  rewrite Ep. cbn [negb]. replace (t <? term n) with false by lia.
  set (n1 := set_term (set_leader (step_down n t) (Some lead)) t).
  assert (F1 : log n1 = log n /\ commit n1 = commit n /\ applied n1 = applied n /\ last_applied n1 = last_applied n /\
               next_index n1 = next_index n /\ match_index n1 = match_index n /\ role n1 = Follower /\ term n1 = t /\
               nid n1 = nid n /\ voted n1 = (if t >? term n then None else voted n) /\ resolved n1 = resolved n).
  { unfold n1, step_down. destruct (t >? term n); destruct n; cbn; repeat split. }
  destruct F1 as (L1 & C1 & A1 & LA1 & N1 & M1 & R1 & T1 & I1 & V1 & RS1).
  assert (Cons : (if Z.of_nat p >? 0 then match log_get (log n1) (Z.of_nat p) with None => false | Some e => fst e =? plt end else true) = true).
  { destruct (Z.of_nat p >? 0) eqn:P; [|reflexivity].
    destruct (Hprev ltac:(lia)) as (e & He & Hf).
    replace (Z.of_nat p) with (Z.of_nat (p - 1) + 1) by lia. rewrite log_get_nat, L1, He. lia. }
  rewrite Cons. cbn [negb fst snd].
  set (n2 := fold_left append_one (with_index (Z.of_nat p) l) n1).
  assert (L2 : log n2 = alogs (log n) p l) by (unfold n2; rewrite fold_append_log, L1; reflexivity).
  assert (C2 : commit n2 = commit n).
  { unfold n2. rewrite <- C1. apply (fold_append_commit G l n1 p c); [congruence|rewrite L1; exact Hc|rewrite L1; unfold apply_inv, zlen in AI; lia|rewrite L1; exact Hp|exact Hl]. }
  destruct (fold_append_same_rest (with_index (Z.of_nat p) l) n1) as (A2 & LA2 & N2 & M2 & V2 & _ & I2 & _ & RS2). fold n2 in A2, LA2, N2, M2, V2, I2, RS2.
  destruct (fold_append_fields (with_index (Z.of_nat p) l) n1) as [R2 T2]. fold n2 in R2, T2.
  destruct (alogs_spec l (log n) p Hp) as (_ & Len2 & _).
  assert (K2 : firstn c (log n2) = firstn c (log n)) by (rewrite L2; apply (alogs_keep G l (log n) p c); auto; unfold apply_inv, zlen in AI; lia).
  destruct AI as (I0 & Ilen & Ila & Iok).
  assert (AI2 : apply_inv n2).
  { unfold apply_inv, applied_ok. rewrite C2, LA2, A2, RS2, LA1, A1, RS1. split; [lia|]. split; [|split; [lia|exact Iok]].
    rewrite L2. assert (length (firstn c (alogs (log n) p l)) = c) by (rewrite <- L2, K2, firstn_length; unfold zlen in Ilen; lia).
    rewrite firstn_length in H. unfold zlen. lia. }
  assert (AP2 : ap_ok n2).
  { apply (ap_ok_same n n2 AP); [congruence|lia|]. rewrite Hcm, Nat2Z.id. exact K2. }
  assert (zl : zlen (with_index (Z.of_nat p) l) = zlen l) by (unfold zlen; rewrite with_index_length; reflexivity).
  rewrite zl.
  destruct (lc >? commit n2) eqn:Elc.
  - set (x := Z.min lc (last_index (log n2))).
    assert (Hx : x = lc) by (unfold x, last_index, zlen; rewrite L2; lia).
    destruct AI2 as (J0 & J1 & _).
    destruct (commit_to_commit n2 x J0 J1) as [Ec _].
    destruct (commit_to_elr n2 x) as [(Q1 & Q2 & Q3 & Q4 & Q5) Q6].
    rewrite commit_to_log. split; [exact L2|]. split.
    + rewrite Ec. replace (x <=? commit n2) with false by lia. unfold zlen. rewrite L2. lia.
    + split; [apply commit_to_ap; auto|]. split; [rewrite Q3, T2, T1, Q1, I2, I1; reflexivity|].
      assert (X : next_index (commit_to n2 x) = next_index n2 /\ match_index (commit_to n2 x) = match_index n2).
      { unfold commit_to. destruct (advance_commit _ _ _) as [c' es]. unfold apply_committed.
        assert (Y : forall es m, next_index (fold_left apply_one es m) = next_index m /\ match_index (fold_left apply_one es m) = match_index m).
        { clear. induction es as [|e es IH]; intros m; cbn [fold_left]; [split; reflexivity|].
          destruct (IH (apply_one m e)) as [A B]. rewrite A, B. destruct e as [[idx t] cmd]. unfold apply_one.
          destruct (idx >? last_applied m); [|split; reflexivity]. cbn. destruct (afind _ _); destruct m; split; reflexivity. }
        destruct (Y es (set_commit n2 c')) as [Y1 Y2]. rewrite Y1, Y2. destruct n2; split; reflexivity. }
      destruct X as [X1 X2]. rewrite X1, X2, Q4, Q6, Q3. repeat split; congruence.
  - split; [exact L2|]. split; [lia|]. split; [exact AP2|]. split; [rewrite T2, T1, I2, I1; reflexivity|].
    repeat split; congruence.
Qed.

(** Every other outcome of the AppendEntries handler leaves the replication state alone. *)
Definition rep_same (n n' : node) : Prop :=
  log n' = log n /\ commit n' = commit n /\ applied n' = applied n /\ next_index n' = next_index n /\
  match_index n' = match_index n.

Lemma rep_same_refl n : rep_same n n.
Proof. unfold rep_same; auto. Qed.
Lemma rep_same_trans a b c : rep_same a b -> rep_same b c -> rep_same a c.
Proof. unfold rep_same; intuition congruence. Qed.

Ltac rep_simpl :=
  unfold rep_same; cbn;
  repeat match goal with |- context [if ?b then _ else _] => destruct b; cbn end; auto 10.

Lemma step_down_rep n t : rep_same n (step_down n t).
Proof. unfold step_down. destruct n; rep_simpl. Qed.

Definition no_ars (o : list output) : Prop :=
  forall d t f mi, ~ In (OSend d (AppendResponse t true f mi)) o.

Lemma no_ars_nil : no_ars [].
Proof. intros d t f mi []. Qed.
Lemma no_ars_cons x o : (forall d t f mi, x <> OSend d (AppendResponse t true f mi)) -> no_ars o -> no_ars (x :: o).
Proof. intros Hx Ho d t f mi [H|H]; [eapply Hx; eauto|eapply Ho; eauto]. Qed.
Lemma no_ars_app a b : no_ars a -> no_ars b -> no_ars (a ++ b).
Proof. intros A B d t f mi H. apply in_app_or in H as [H|H]; [eapply A|eapply B]; eauto. Qed.
Ltac noars := repeat first [apply no_ars_nil | apply no_ars_cons; [intros; discriminate|]].

Lemma only_ae_no_ars o : only_ae o -> no_ars o.
Proof. intros H d t f mi Hin. destruct (H _ _ Hin) as (a & b & c & e & f0 & g & E). discriminate. Qed.

(** The AppendEntries handler: either the message is accepted (then [hae_accept]
    describes the outcome), or the replication state is untouched and no
    success reply is sent. *)
Lemma hae_cases n src t lead pli plt ents lc :
  let r := handle_append_entries n src t lead pli plt ents lc in
  (zmem src (peers n) = true /\ term n <= t /\
   (0 < pli -> exists e, nth_error (log n) (Z.to_nat pli - 1) = Some e /\ fst e = plt))
  \/ (rep_same n (fst r) /\ no_ars (snd r) /\ no_ae (snd r) /\ (role (fst r) = Leader -> role n = Leader)).
Proof.
  cbv zeta. unfold handle_append_entries.
  destruct (negb (zmem src (peers n))) eqn:Ep; cbn [fst snd].
  { right. split; [apply rep_same_refl|split; [noars|split; [noae|auto]]]. }
  apply negb_false_iff in Ep.
  destruct (t <? term n) eqn:Et; cbn [fst snd].
  { right. split; [apply rep_same_refl|split; [noars|split; [noae|auto]]]. }
  set (n1 := set_term (set_leader (step_down n t) (Some lead)) t).
  assert (R1 : rep_same n n1).
  { eapply rep_same_trans; [apply (step_down_rep n t)|]. unfold n1. generalize (step_down n t). intros m. destruct m; rep_simpl. }
  match goal with |- context [negb ?c] => destruct c eqn:Cons end; cbn [negb fst snd].
  2:{ right. split; [exact R1|split; [noars|split; [noae|]]]. intros R.
      assert (role n1 = Follower) by (unfold n1; pose proof (proj1 (step_down_fields n t)) as X; revert X; generalize (step_down n t); intros m X; destruct m; exact X).
      congruence. }
  left. split; [exact Ep|]. split; [lia|]. intros Hp.
  replace (pli >? 0) with true in Cons by lia. destruct R1 as (L1 & _).
  unfold log_get in Cons. destruct ((pli <? 1) || (pli >? zlen (log n1))) eqn:Er; [discriminate|].
  replace (Z.to_nat pli - 1)%nat with (Z.to_nat (pli - 1)) by lia. rewrite <- L1.
  destruct (nth_error (log n1) (Z.to_nat (pli - 1))) as [e|]; [|discriminate].
  exists e. split; [reflexivity|lia].
Qed.

(* ------------------------------------------------------------------ *)
(** * Association lists *)
Lemma afind_aset k v m k' : afind k' (aset k v m) = if Z.eqb k' k then Some v else afind k' m.
Proof.
  induction m as [|[a b] m IH]; cbn.
  - destruct (Z.eqb k' k); reflexivity.
  - destruct (Z.eqb k a) eqn:E; cbn.
    + apply Z.eqb_eq in E. subst a. destruct (Z.eqb k' k); reflexivity.
    + rewrite IH. destruct (Z.eqb k' a) eqn:E2; [|reflexivity].
      apply Z.eqb_eq in E2. subst a. replace (k' =? k) with false by lia. reflexivity.
Qed.

Lemma aget_afind k d m : aget k d m = match afind k m with Some v => v | None => d end.
Proof. induction m as [|[a b] m IH]; cbn; [reflexivity|]. destruct (Z.eqb k a); auto. Qed.

Lemma aget_aset k v m k' d : aget k' d (aset k v m) = if Z.eqb k' k then v else aget k' d m.
Proof. rewrite !aget_afind, afind_aset. destruct (Z.eqb k' k); reflexivity. Qed.

Lemma aset_keys k v m x : In x (map fst (aset k v m)) <-> x = k \/ In x (map fst m).
Proof.
  induction m as [|[a b] m IH]; cbn; [intuition|].
  destruct (Z.eqb k a) eqn:E; cbn.
  - apply Z.eqb_eq in E. subst a. intuition.
  - rewrite IH. intuition.
Qed.

Lemma aset_nodup k v m : NoDup (map fst m) -> NoDup (map fst (aset k v m)).
Proof.
  induction m as [|[a b] m IH]; cbn; intros ND.
  - constructor; [intros []|constructor].
  - inversion ND as [|? ? Hx ND']; subst. destruct (Z.eqb k a) eqn:E; cbn.
    + apply Z.eqb_eq in E. subst a. constructor; assumption.
    + constructor; [|apply IH, ND']. intros H. apply aset_keys in H as [H|H]; [lia|contradiction].
Qed.

Lemma afind_in k m : afind k m <> None <-> In k (map fst m).
Proof.
  induction m as [|[a b] m IH]; cbn; [intuition|].
  destruct (Z.eqb k a) eqn:E.
  - apply Z.eqb_eq in E. subst. split; [auto|discriminate].
  - rewrite IH. split; [auto|]. intros [H|H]; [lia|exact H].
Qed.

(** [count_ge] counts distinct keys when the keys are duplicate-free. *)
Lemma count_ge_keys x m : NoDup (map fst m) ->
  exists ps, NoDup ps /\ zlen ps = count_ge x m /\ forall p, In p ps -> exists v, afind p m = Some v /\ x <= v.
Proof.
  induction m as [|[a b] m IH]; cbn; intros ND.
  - exists []. split; [constructor|]. split; [reflexivity|intros p []].
  - inversion ND as [|? ? Hx ND']; subst. destruct (IH ND') as (ps & P1 & P2 & P3).
    assert (Hn : ~ In a ps).
    { intros H. destruct (P3 _ H) as (v & Hv & _). apply Hx. apply afind_in. congruence. }
    destruct (b >=? x) eqn:E.
    + exists (a :: ps). split; [constructor; assumption|]. split; [unfold zlen in *; cbn [length]; lia|].
      intros p [->|H].
      * exists b. rewrite Z.eqb_refl. split; [reflexivity|lia].
      * destruct (P3 _ H) as (v & Hv & Hle). exists v. split; [|exact Hle].
        destruct (Z.eqb p a) eqn:E2; [apply Z.eqb_eq in E2; subst; contradiction|exact Hv].
    + exists ps. split; [exact P1|]. split; [lia|].
      intros p H. destruct (P3 _ H) as (v & Hv & Hle). exists v. split; [|exact Hle].
      destruct (Z.eqb p a) eqn:E2; [apply Z.eqb_eq in E2; subst; contradiction|exact Hv].
Qed.

(* ------------------------------------------------------------------ *)
(** * become_leader: next/match index are reset for every peer *)
Definition bl_f := (fun a p => set_match_index (set_next_index a (aset p (last_index (log a) + 1) (next_index a)))
                                                  (aset p 0 (match_index a))).

Lemma bl_fold ps : forall m,
  let m' := fold_left bl_f ps m in
  log m' = log m /\ commit m' = commit m /\ applied m' = applied m /\ role m' = role m /\ term m' = term m /\
  voted m' = voted m /\ votes m' = votes m /\ nid m' = nid m /\ peers m' = peers m /\ last_applied m' = last_applied m /\
  resolved m' = resolved m /\
  (forall p, In p ps -> aget p 1 (next_index m') = zlen (log m) + 1 /\ afind p (match_index m') = Some 0) /\
  (forall p, ~ In p ps -> afind p (match_index m') = afind p (match_index m) /\ aget p 1 (next_index m') = aget p 1 (next_index m)) /\
  (NoDup (map fst (match_index m)) -> NoDup (map fst (match_index m'))) /\
  (forall x, In x (map fst (match_index m')) -> In x ps \/ In x (map fst (match_index m))).
Proof.
  induction ps as [|q ps IH]; intros m; cbn [fold_left].
  - repeat split; auto; try (intros ? []); try contradiction.
  - cbv zeta in IH. destruct (IH (bl_f m q)) as (A1 & A2 & A3 & A4 & A5 & A6 & A7 & A8 & A9 & A10 & A11 & B1 & B2 & B3 & B4).
    assert (F : log (bl_f m q) = log m /\ commit (bl_f m q) = commit m /\ applied (bl_f m q) = applied m /\ role (bl_f m q) = role m /\
                term (bl_f m q) = term m /\ voted (bl_f m q) = voted m /\ votes (bl_f m q) = votes m /\ nid (bl_f m q) = nid m /\
                peers (bl_f m q) = peers m /\ last_applied (bl_f m q) = last_applied m /\ resolved (bl_f m q) = resolved m /\
                next_index (bl_f m q) = aset q (last_index (log m) + 1) (next_index m) /\
                match_index (bl_f m q) = aset q 0 (match_index m)) by (destruct m; repeat split).
    destruct F as (F1 & F2 & F3 & F4 & F5 & F6 & F7 & F8 & F9 & F10 & F11 & F12 & F13).
    rewrite A1, A2, A3, A4, A5, A6, A7, A8, A9, A10, A11, F1, F2, F3, F4, F5, F6, F7, F8, F9, F10, F11.
    repeat split; auto.
    + destruct (in_dec Z.eq_dec p ps) as [Hin|Hn].
      * destruct (B1 p Hin) as [X _]. rewrite X, F1. reflexivity.
      * destruct H as [->|H]; [|contradiction]. destruct (B2 p Hn) as [_ X]. rewrite X, F12, aget_aset, Z.eqb_refl. reflexivity.
    + destruct (in_dec Z.eq_dec p ps) as [Hin|Hn].
      * apply (B1 p Hin).
      * destruct H as [->|H]; [|contradiction]. destruct (B2 p Hn) as [X _]. rewrite X, F13, afind_aset, Z.eqb_refl. reflexivity.
    + assert (Hn : ~ In p ps) by (intros X; apply H; right; exact X).
      destruct (B2 p Hn) as [X _]. rewrite X, F13, afind_aset.
      destruct (Z.eqb p q) eqn:E; [apply Z.eqb_eq in E; subst; exfalso; apply H; left; reflexivity|reflexivity].
    + assert (Hn : ~ In p ps) by (intros X; apply H; right; exact X).
      destruct (B2 p Hn) as [_ X]. rewrite X, F12, aget_aset.
      destruct (Z.eqb p q) eqn:E; [apply Z.eqb_eq in E; subst; exfalso; apply H; left; reflexivity|reflexivity].
    + intros ND. apply B3. rewrite F13. apply aset_nodup, ND.
    + intros x Hx. destruct (B4 x Hx) as [H|H]; [left; right; exact H|].
      rewrite F13 in H. apply aset_keys in H as [->|H]; [left; left; reflexivity|right; exact H].
Qed.

(** What [become_leader] does, in full. *)
Definition led_reset (n n' : node) : Prop :=
  log n' = log n /\ commit n' = commit n /\ applied n' = applied n /\
  (forall p, In p (peers n) -> aget p 1 (next_index n') = zlen (log n) + 1 /\ afind p (match_index n') = Some 0) /\
  (forall p, ~ In p (peers n) -> afind p (match_index n') = afind p (match_index n)) /\
  (NoDup (map fst (match_index n)) -> NoDup (map fst (match_index n'))) /\
  (forall x, In x (map fst (match_index n')) -> In x (peers n) \/ In x (map fst (match_index n))).

Lemma become_leader_reset n : led_reset n (fst (become_leader n)).
Proof.
  unfold become_leader. cbn [fst]. set (n1 := set_leader (set_role n Leader) (Some (nid n))).
  change (fold_left _ (peers n1) n1) with (fold_left bl_f (peers n1) n1).
  destruct (bl_fold (peers n1) n1) as (A1 & A2 & A3 & _ & _ & _ & _ & _ & _ & _ & _ & B1 & B2 & B3 & B4).
  assert (F : log n1 = log n /\ commit n1 = commit n /\ applied n1 = applied n /\ peers n1 = peers n /\
              match_index n1 = match_index n) by (destruct n; repeat split).
  destruct F as (F1 & F2 & F3 & F4 & F5). rewrite F4, ?F1, ?F5 in *.
  unfold led_reset. rewrite A1, A2, A3, F2, F3. split; [reflexivity|]. split; [reflexivity|]. split; [reflexivity|]. split; [exact B1|]. split; [intros p Hp; apply (B2 p Hp)|]. split; [exact B3|exact B4].
Qed.

Lemma become_leader_same n :
  let n' := fst (become_leader n) in
  last_applied n' = last_applied n /\ resolved n' = resolved n /\ term n' = term n /\ voted n' = voted n /\ nid n' = nid n /\ peers n' = peers n.
Proof.
  unfold become_leader. cbn [fst]. set (n1 := set_leader (set_role n Leader) (Some (nid n))).
  change (fold_left _ (peers n1) n1) with (fold_left bl_f (peers n1) n1).
  destruct (bl_fold (peers n1) n1) as (_ & _ & _ & _ & A5 & A6 & _ & A8 & A9 & A10 & A11 & _).
  rewrite A5, A6, A8, A9, A10, A11. destruct n; repeat split.
Qed.

(* ------------------------------------------------------------------ *)
(** * AppendEntries sent: always [append_entries_for] of the resulting state *)
Definition ae_from (n' : node) (o : list output) : Prop :=
  forall d t lead pli plt ents lc, In (OSend d (AppendEntries t lead pli plt ents lc)) o ->
    role n' = Leader /\ In d (peers n') /\ OSend d (AppendEntries t lead pli plt ents lc) = append_entries_for n' d.

Lemma no_ae_from n' o : no_ae o -> ae_from n' o.
Proof. intros H d t lead pli plt ents lc Hin. exfalso. eapply H; eauto. Qed.

Lemma ae_from_app n' a b : ae_from n' a -> ae_from n' b -> ae_from n' (a ++ b).
Proof. intros A B d t lead pli plt ents lc H. apply in_app_or in H as [H|H]; [eapply A|eapply B]; eauto. Qed.

Lemma send_append_entries_from n : role n = Leader -> ae_from n (send_append_entries n).
Proof.
  intros R d t lead pli plt ents lc H. unfold send_append_entries in H. apply in_map_iff in H as (p & E & Hp).
  assert (d = p) by (unfold append_entries_for in E; inversion E; reflexivity). subst p.
  split; [exact R|]. split; [exact Hp|]. symmetry. exact E.
Qed.

Lemma become_leader_from n : ae_from (fst (become_leader n)) (snd (become_leader n)).
Proof.
  pose proof (become_leader_facts n) as (_ & _ & _ & _ & R & _).
  unfold become_leader in *. cbn [fst snd] in *.
  apply ae_from_app; [apply send_append_entries_from, R|apply no_ae_from; noae].
Qed.

Lemma try_commit_spec k : forall n hi,
  try_commit n hi k = n \/
  exists hi' e, log_get (log n) hi' = Some e /\ fst e = term n /\ 1 + count_ge hi' (match_index n) >= quorum n /\
                try_commit n hi k = commit_to n hi'.
Proof.
  induction k as [|k IH]; intros n hi; cbn [try_commit]; [left; reflexivity|].
  destruct (log_get (log n) hi) as [e|] eqn:E; [|apply IH].
  destruct (negb (fst e =? term n)) eqn:Et; [apply IH|].
  destruct (1 + count_ge hi (match_index n) >=? quorum n) eqn:Eq; [|apply IH].
  right. exists hi, e. repeat split; auto; lia.
Qed.

Lemma commit_to_rest n c :
  let n' := commit_to n c in
  next_index n' = next_index n /\ match_index n' = match_index n /\ log n' = log n /\ role n' = role n /\ term n' = term n /\
  voted n' = voted n /\ votes n' = votes n /\ nid n' = nid n /\ peers n' = peers n.
Proof.
  cbv zeta. destruct (commit_to_elr n c) as [(Q1 & Q2 & Q3 & Q4 & Q5) Q6].
  rewrite commit_to_log, Q1, Q2, Q3, Q4, Q5, Q6.
  unfold commit_to. destruct (advance_commit _ _ _) as [c' es]. unfold apply_committed.
  assert (Y : forall es m, next_index (fold_left apply_one es m) = next_index m /\ match_index (fold_left apply_one es m) = match_index m).
  { clear. induction es as [|e es IH]; intros m; cbn [fold_left]; [split; reflexivity|].
    destruct (IH (apply_one m e)) as [A B]. rewrite A, B. destruct e as [[idx t] cmd]. unfold apply_one.
    destruct (idx >? last_applied m); [|split; reflexivity]. cbn. destruct (afind _ _); destruct m; split; reflexivity. }
  destruct (Y es (set_commit n c')) as [Y1 Y2]. rewrite Y1, Y2. destruct n; repeat split.
Qed.

(** What a handler other than the AppendEntries handler does to the replication state. *)
Definition r_reset (n n' : node) (o : list output) : Prop :=
  role n <> Leader /\ role n' = Leader /\ led_reset n n' /\ no_ars o.
Definition r_success (n : node) (inp : input) (n' : node) (o : list output) : Prop :=
  exists src f mi, inp = IMsg src (AppendResponse (term n) true f mi) /\ role n = Leader /\ role n' = Leader /\ term n' = term n /\
    o = [] /\ log n' = log n /\
    next_index n' = aset f (mi + 1) (next_index n) /\ match_index n' = aset f mi (match_index n) /\
    ((commit n' = commit n /\ applied n' = applied n) \/
     exists hi e, log_get (log n) hi = Some e /\ fst e = term n /\ 1 + count_ge hi (match_index n') >= quorum n /\
       n' = commit_to (set_match_index (set_next_index n (aset f (mi + 1) (next_index n))) (aset f mi (match_index n))) hi).
Definition r_failure (n : node) (inp : input) (n' : node) (o : list output) : Prop :=
  exists src f mi, inp = IMsg src (AppendResponse (term n) false f mi) /\ role n = Leader /\ role n' = Leader /\ term n' = term n /\
    log n' = log n /\ commit n' = commit n /\ applied n' = applied n /\ match_index n' = match_index n /\
    next_index n' = aset f (Z.max 1 (aget f 1 (next_index n) - 1)) (next_index n) /\ no_ars o.
Definition r_submit (n : node) (n' : node) (o : list output) : Prop :=
  role n = Leader /\ role n' = Leader /\ term n' = term n /\ o = [] /\
  (exists c, log n' = log n ++ [(term n, c)]) /\ commit n' = commit n /\ applied n' = applied n /\
  match_index n' = match_index n /\ next_index n' = next_index n.

Definition rspec (n : node) (inp : input) (n' : node) (o : list output) : Prop :=
  ae_from n' o /\
  ((rep_same n n' /\ no_ars o /\ (role n' = Leader -> role n = Leader)) \/ r_reset n n' o \/ r_success n inp n' o \/ r_failure n inp n' o \/ r_submit n n' o).

Lemma rspec_same n inp n' o : rep_same n n' -> (role n' = Leader -> role n = Leader) -> no_ars o -> no_ae o -> rspec n inp n' o.
Proof. intros A R B C. split; [apply no_ae_from, C|left; auto]. Qed.

Lemma led_reset_transfer n n1 n2 : rep_same n n1 -> peers n1 = peers n -> led_reset n1 n2 -> led_reset n n2.
Proof.
  intros (A1 & A2 & A3 & A4 & A5) P (B1 & B2 & B3 & B4 & B5 & B6 & B7).
  unfold led_reset. rewrite P, A1, A5 in *. rewrite B1, B2, B3, A2, A3.
  split; [reflexivity|]. split; [reflexivity|]. split; [reflexivity|]. split; [exact B4|]. split; [exact B5|]. split; [exact B6|exact B7].
Qed.

Lemma start_election_rspec n inp : role n <> Leader -> rspec n inp (fst (start_election n)) (snd (start_election n)).
Proof.
  intros NL. unfold start_election. set (n1 := set_n_votes _ _).
  assert (F1 : rep_same n n1 /\ role n1 = Candidate) by (destruct n; split; [rep_simpl|reflexivity]).
  destruct F1 as [A C]. set (rvs := map _ (peers n1)).
  assert (Hrvs : no_ae rvs /\ no_ars rvs).
  { split; [intros d t lead pli plt ents lc H|intros d t f mi H]; unfold rvs in H; apply in_map_iff in H as (p & E & _); discriminate. }
  destruct Hrvs as [H1 H2].
  destruct (zlen (votes n1) >=? quorum n1).
  - pose proof (become_leader_from n1) as AF. pose proof (become_leader_reset n1) as LR.
    pose proof (become_leader_facts n1) as (_ & _ & _ & _ & R5 & _).
    pose proof (become_leader_only_ae n1) as OA.
    destruct (become_leader n1) as [n2 o2]. cbn [fst snd] in *. split.
    + apply ae_from_app; [apply no_ae_from, H1|exact AF].
    + right. left. split; [exact NL|]. split; [exact R5|]. split.
      * apply (led_reset_transfer n n1 n2 A); [destruct n; reflexivity|exact LR].
      * apply no_ars_app; [exact H2|apply only_ae_no_ars, OA].
  - cbn [fst snd]. apply rspec_same; [exact A|intros R; congruence|apply no_ars_app; [exact H2|noars]|apply no_ae_app; [exact H1|noae]].
Qed.

Lemma node_step_rspec n inp :
  (forall src t lead pli plt ents lc, inp <> IMsg src (AppendEntries t lead pli plt ents lc)) ->
  rspec n inp (fst (node_step n inp)) (snd (node_step n inp)).
Proof.
  intros NAE. destruct inp as [c|c|src m|cmd]; cbn [node_step].
  - unfold handle_timeout. destruct c; cbn [fst snd]; [apply rspec_same; [apply rep_same_refl|auto|noars|noae]|].
    destruct (role_eqb (role n) Leader) eqn:E; cbn [fst snd]; [apply rspec_same; [apply rep_same_refl|auto|noars|noae]|].
    apply start_election_rspec, role_eqb_false, E.
  - unfold handle_heartbeat. destruct c; cbn [fst snd]; [apply rspec_same; [apply rep_same_refl|auto|noars|noae]|].
    destruct (role_eqb (role n) Leader) eqn:E; cbn [negb fst snd]; [|apply rspec_same; [apply rep_same_refl|auto|noars|noae]].
    apply role_eqb_true in E. split.
    + apply ae_from_app; [apply send_append_entries_from, E|apply no_ae_from; noae].
    + left. split; [apply rep_same_refl|]. split; [|auto]. apply no_ars_app; [apply only_ae_no_ars, send_append_entries_only_ae|noars].
  - destruct m as [t cand lli llt|t g voter|t lead pli plt ents lc|t s f mi]; cbn [handle_msg].
    + (* RequestVote *)
      unfold handle_request_vote. destruct (negb (zmem src (peers n))); cbn [fst snd]; [apply rspec_same; [apply rep_same_refl|auto|noars|noae]|].
      set (n1 := if t >? term n then step_down n t else n).
      assert (R1 : rep_same n n1) by (unfold n1; destruct (t >? term n); [apply step_down_rep|apply rep_same_refl]).
      assert (RR : role n1 = Leader -> role n = Leader).
      { unfold n1. destruct (t >? term n); [|auto]. intros R. rewrite (proj1 (step_down_fields n t)) in R. discriminate. }
      destruct (vote_ok n1 t cand lli llt); cbn [fst snd].
      * apply rspec_same; [eapply rep_same_trans; [exact R1|]; destruct n1; rep_simpl|intros R; apply RR; destruct n1; exact R|noars|noae].
      * apply rspec_same; [exact R1|exact RR|noars|noae].
    + (* VoteResponse *)
      unfold handle_vote_response. destruct (t >? term n); cbn [fst snd]; [apply rspec_same; [apply step_down_rep|intros R; rewrite (proj1 (step_down_fields n t)) in R; discriminate|noars|noae]|].
      destruct (negb (role_eqb (role n) Candidate) || negb (t =? term n)) eqn:E; cbn [fst snd]; [apply rspec_same; [apply rep_same_refl|auto|noars|noae]|].
      apply orb_false_iff in E as [E1 _]. apply negb_false_iff, role_eqb_true in E1.
      set (n1 := if g then _ else n).
      assert (F1 : rep_same n n1 /\ role n1 = role n /\ peers n1 = peers n) by (unfold n1; destruct g; destruct n; repeat split).
      destruct F1 as (A & C & P).
      destruct (zlen (votes n1) >=? quorum n1).
      * pose proof (become_leader_from n1) as AF. pose proof (become_leader_reset n1) as LR.
        pose proof (become_leader_facts n1) as (_ & _ & _ & _ & R5 & _).
        pose proof (become_leader_only_ae n1) as OA.
        destruct (become_leader n1) as [n2 o2]. cbn [fst snd] in *. split; [exact AF|].
        right. left. split; [congruence|]. split; [exact R5|]. split; [|apply only_ae_no_ars, OA].
        apply (led_reset_transfer n n1 n2 A P LR).
      * cbn [fst snd]. apply rspec_same; [exact A|intros R; congruence|noars|noae].
    + exfalso. eapply NAE. reflexivity.
    + (* AppendEntriesResponse *)
      unfold handle_append_response. destruct (t >? term n) eqn:Et; cbn [fst snd]; [apply rspec_same; [apply step_down_rep|intros R; rewrite (proj1 (step_down_fields n t)) in R; discriminate|noars|noae]|].
      destruct (negb (role_eqb (role n) Leader)) eqn:E; cbn [fst snd]; [apply rspec_same; [apply rep_same_refl|auto|noars|noae]|].
      apply negb_false_iff, role_eqb_true in E.
      destruct (t <? term n) eqn:Et2; cbn [fst snd]; [apply rspec_same; [apply rep_same_refl|auto|noars|noae]|].
      assert (t = term n) by lia. subst t.
      destruct s; cbn [fst snd].
      * set (n1 := set_match_index (set_next_index n (aset f (mi + 1) (next_index n))) (aset f mi (match_index n))).
        assert (F1 : log n1 = log n /\ role n1 = Leader /\ term n1 = term n /\ commit n1 = commit n /\ applied n1 = applied n /\
                     next_index n1 = aset f (mi + 1) (next_index n) /\ match_index n1 = aset f mi (match_index n) /\ quorum n1 = quorum n)
          by (destruct n; cbn in *; repeat split; exact E).
        destruct F1 as (A1 & A2 & A3 & A4 & A5 & A6 & A7 & A8).
        split; [apply no_ae_from; noae|]. right. right. left. exists src, f, mi.
        unfold try_advance_commit.
        destruct (try_commit_spec (Z.to_nat (last_index (log n1) - commit n1)) n1 (last_index (log n1))) as [Eq|(hi & e & G1 & G2 & G3 & Eq)]; rewrite Eq.
        -- repeat split; auto.
        -- destruct (commit_to_rest n1 hi) as (Q1 & Q2 & Q3 & Q4 & Q5 & _).
           rewrite Q1, Q2, Q3, Q4, Q5.
           split; [reflexivity|]. split; [exact E|]. split; [exact A2|]. split; [exact A3|]. split; [reflexivity|].
           split; [exact A1|]. split; [exact A6|]. split; [exact A7|].
           right. exists hi, e. rewrite <- A1, <- A3, <- A8. split; [exact G1|]. split; [exact G2|]. split; [exact G3|reflexivity].
      * set (n1 := set_next_index n _).
        assert (F1 : log n1 = log n /\ role n1 = Leader /\ term n1 = term n /\ commit n1 = commit n /\ applied n1 = applied n /\
                     match_index n1 = match_index n /\
                     next_index n1 = aset f (Z.max 1 (aget f 1 (next_index n) - 1)) (next_index n)) by (destruct n; cbn in *; repeat split; exact E).
        destruct F1 as (A1 & A2 & A3 & A4 & A5 & A6 & A7).
        assert (RF : forall o, no_ars o -> r_failure n (IMsg src (AppendResponse (term n) false f mi)) n1 o).
        { intros o Ho. exists src, f, mi. repeat split; auto. }
        destruct (zmem f (peers n1)) eqn:Em; cbn [fst snd].
        -- split.
           ++ intros d t0 lead pli plt ents lc [H|[]]. split; [exact A2|].
              assert (d = f) by (unfold append_entries_for in H; inversion H; reflexivity). subst d.
              split; [apply zmem_in, Em|symmetry; exact H].
           ++ right. right. right. left. apply RF. apply no_ars_cons; [|apply no_ars_nil].
              intros d t0 f0 mi0. unfold append_entries_for. discriminate.
        -- split; [apply no_ae_from; noae|]. right. right. right. left. apply RF. noars.
  - unfold submit. destruct (negb (role_eqb (role (set_nfut n (nfut n + 1))) Leader)) eqn:E.
    + apply rspec_same; [destruct n; rep_simpl|destruct n; cbn; auto|noars|noae].
    + apply negb_false_iff, role_eqb_true in E.
      assert (RL : role n = Leader) by (destruct n; exact E).
      split; [apply no_ae_from; noae|]. right. right. right. right.
      destruct n; cbn in *. subst. repeat split; auto. eexists. reflexivity.
Qed.

(* ------------------------------------------------------------------ *)
(** * Votes, candidacies, RequestVote messages *)
Definition uptodate_z (lli llt : Z) (L : list entry) : Prop :=
  llt > last_term L \/ (llt = last_term L /\ lli >= zlen L).

Definition no_rv (o : list output) : Prop := forall d t c lli llt, ~ In (OSend d (RequestVote t c lli llt)) o.
Lemma no_rv_nil : no_rv [].
Proof. intros d t c lli llt []. Qed.
Lemma no_rv_cons x o : (forall d t c lli llt, x <> OSend d (RequestVote t c lli llt)) -> no_rv o -> no_rv (x :: o).
Proof. intros Hx Ho d t c lli llt [H|H]; [eapply Hx; eauto|eapply Ho; eauto]. Qed.
Lemma no_rv_app a b : no_rv a -> no_rv b -> no_rv (a ++ b).
Proof. intros A B d t c lli llt H. apply in_app_or in H as [H|H]; [eapply A|eapply B]; eauto. Qed.
Ltac norv := repeat first [apply no_rv_nil | apply no_rv_cons; [intros; discriminate|]].
Lemma only_ae_no_rv o : only_ae o -> no_rv o.
Proof. intros H d t c lli llt Hin. destruct (H _ _ Hin) as (a & b & c0 & e & f0 & g & E). discriminate. Qed.

Record vspec (n : node) (inp : input) (n' : node) (o : list output) : Prop := {
  V_vote : forall c, voted n' = Some c ->
     (voted n = Some c /\ term n' = term n) \/
     (log n' = log n /\ ((c = nid n /\ term n' = term n + 1 /\ role n' <> Follower) \/
                         exists src lli llt, inp = IMsg src (RequestVote (term n') c lli llt) /\ uptodate_z lli llt (log n)));
  V_rv : forall d t c lli llt, In (OSend d (RequestVote t c lli llt)) o ->
     t = term n' /\ term n' = term n + 1 /\ role n' <> Follower /\ lli = zlen (log n') /\ llt = last_term (log n') /\
     log n' = log n /\ In d (peers n);
  V_cand : role n' = Candidate -> log n' = log n /\ ((role n = Candidate /\ term n' = term n) \/ term n' = term n + 1);
  V_lead : role n' = Leader -> role n <> Leader -> log n' = log n /\ ((role n = Candidate /\ term n' = term n) \/ term n' = term n + 1);
}.

Lemma vspec_same n inp n' o :
  voted n' = voted n -> term n' = term n -> role n' = role n -> log n' = log n -> no_rv o -> vspec n inp n' o.
Proof.
  intros A B C D E. constructor.
  - intros c H. left. split; congruence.
  - intros d t c lli llt H. exfalso. eapply E; eauto.
  - intros R. split; [exact D|]. left. split; congruence.
  - intros R NR. congruence.
Qed.

Lemma vspec_follower n inp n' o :
  role n' = Follower -> (forall c, voted n' = Some c -> voted n = Some c /\ term n' = term n) -> no_rv o -> vspec n inp n' o.
Proof.
  intros A B E. constructor.
  - intros c H. left. apply B, H.
  - intros d t c lli llt H. exfalso. eapply E; eauto.
  - intros R. congruence.
  - intros R. congruence.
Qed.

Lemma step_down_voted n t : term n <= t ->
  forall c, voted (step_down n t) = Some c -> voted n = Some c /\ term (step_down n t) = term n.
Proof.
  intros H c. unfold step_down. destruct (t >? term n) eqn:E; destruct n; cbn in *; [discriminate|].
  intros V. split; [exact V|lia].
Qed.

Lemma start_election_vspec n inp : role n <> Leader -> vspec n inp (fst (start_election n)) (snd (start_election n)).
Proof.
  intros NL. unfold start_election. set (n1 := set_n_votes _ _).
  assert (F1 : log n1 = log n /\ term n1 = term n + 1 /\ role n1 = Candidate /\ voted n1 = Some (nid n) /\ peers n1 = peers n /\ nid n1 = nid n)
    by (destruct n; repeat split).
  destruct F1 as (A & B & C & D & P & I).
  set (rvs := map _ (peers n1)).
  assert (Hrv : forall n2 o2, log n2 = log n -> term n2 = term n + 1 -> role n2 <> Follower -> no_rv o2 ->
            forall d t c lli llt, In (OSend d (RequestVote t c lli llt)) (rvs ++ o2) ->
              t = term n2 /\ term n2 = term n + 1 /\ role n2 <> Follower /\ lli = zlen (log n2) /\ llt = last_term (log n2) /\
              log n2 = log n /\ In d (peers n)).
  { intros n2 o2 L2 T2 R2 N2 d t c lli llt H. apply in_app_or in H as [H|H]; [|exfalso; eapply N2; eauto].
    unfold rvs in H. apply in_map_iff in H as (p & E & Hp). injection E as E1 E2 E3 E4 E5. subst d t c lli llt.
    rewrite L2, T2. unfold last_index. repeat split; auto. }
  destruct (zlen (votes n1) >=? quorum n1).
  - pose proof (become_leader_facts n1) as (L1 & L2 & _ & _ & L5 & _).
    pose proof (become_leader_same n1) as (_ & _ & _ & S4 & _).
    pose proof (become_leader_only_ae n1) as OA.
    destruct (become_leader n1) as [n2 o2]. cbn [fst snd] in *. constructor.
    + intros c H. right. split; [congruence|]. left. rewrite S4, D in H. inversion H. repeat split; congruence.
    + apply Hrv; [congruence|congruence|congruence|apply only_ae_no_rv, OA].
    + intros R. congruence.
    + intros _ _. split; [congruence|right; congruence].
  - cbn [fst snd]. constructor.
    + intros c H. right. split; [exact A|]. left. rewrite D in H. inversion H. repeat split; congruence.
    + apply Hrv; [exact A|exact B|congruence|norv].
    + intros _. split; [exact A|right; exact B].
    + intros R. congruence.
Qed.

Theorem node_step_vspec n inp : vspec n inp (fst (node_step n inp)) (snd (node_step n inp)).
Proof.
  destruct inp as [c|c|src m|cmd]; cbn [node_step].
  - unfold handle_timeout. destruct c; cbn [fst snd]; [apply vspec_same; auto; norv|].
    destruct (role_eqb (role n) Leader) eqn:E; cbn [fst snd]; [apply vspec_same; auto; norv|].
    apply start_election_vspec, role_eqb_false, E.
  - unfold handle_heartbeat. destruct c; cbn [fst snd]; [apply vspec_same; auto; norv|].
    destruct (negb (role_eqb (role n) Leader)); cbn [fst snd]; [apply vspec_same; auto; norv|].
    apply vspec_same; auto. apply no_rv_app; [apply only_ae_no_rv, send_append_entries_only_ae|norv].
  - destruct m as [t cand lli llt|t g voter|t lead pli plt ents lc|t s f mi]; cbn [handle_msg].
    + (* RequestVote *)
      unfold handle_request_vote. destruct (negb (zmem src (peers n))); cbn [fst snd]; [apply vspec_same; auto; norv|].
      destruct (t >? term n) eqn:Et.
      * pose proof (step_down_facts n t) as (A & B & C & _).
        pose proof (step_down_voted n t ltac:(lia)) as SV.
        set (n1 := step_down n t) in *.
        destruct (vote_ok n1 t cand lli llt) eqn:VO; cbn [fst snd].
        -- assert (F : voted (set_term (set_voted n1 (Some cand)) t) = Some cand /\ term (set_term (set_voted n1 (Some cand)) t) = t /\
                        log (set_term (set_voted n1 (Some cand)) t) = log n /\ role (set_term (set_voted n1 (Some cand)) t) = Follower)
             by (destruct n1; cbn in *; auto).
           destruct F as (F1 & F2 & F3 & F4). constructor.
           ++ intros c H. rewrite F1 in H. inversion H; subst c. right. split; [exact F3|]. right.
              exists src, lli, llt. rewrite F2. split; [reflexivity|].
              unfold vote_ok in VO. apply andb_true_iff in VO as [_ VO]. rewrite A in VO. unfold uptodate_z, last_index in *. lia.
           ++ intros d t0 c lli0 llt0 [H|[H|[]]]; discriminate.
           ++ intros R. congruence.
           ++ intros R. congruence.
        -- apply vspec_follower; [exact B|intros c H; destruct (SV c H); split; [assumption|lia]|norv].
      * destruct (vote_ok n t cand lli llt) eqn:VO; cbn [fst snd].
        -- assert (Tt : t = term n) by (unfold vote_ok in VO; apply andb_true_iff in VO as [VO _]; apply andb_true_iff in VO as [VO _]; lia).
           assert (F : voted (set_term (set_voted n (Some cand)) t) = Some cand /\ term (set_term (set_voted n (Some cand)) t) = t /\
                        log (set_term (set_voted n (Some cand)) t) = log n /\ role (set_term (set_voted n (Some cand)) t) = role n)
             by (destruct n; cbn in *; auto).
           destruct F as (F1 & F2 & F3 & F4). constructor.
           ++ intros c H. rewrite F1 in H. inversion H; subst c. right. split; [exact F3|]. right.
              exists src, lli, llt. rewrite F2. split; [reflexivity|].
              unfold vote_ok in VO. apply andb_true_iff in VO as [_ VO]. unfold uptodate_z, last_index in *. lia.
           ++ intros d t0 c lli0 llt0 [H|[H|[]]]; discriminate.
           ++ intros R. split; [exact F3|]. left. split; congruence.
           ++ intros R NR. congruence.
        -- apply vspec_same; auto; norv.
    + (* VoteResponse *)
      unfold handle_vote_response. destruct (t >? term n) eqn:Et; cbn [fst snd].
      { pose proof (step_down_facts n t) as (A & B & C & _). pose proof (step_down_voted n t ltac:(lia)) as SV.
        apply vspec_follower; [exact B|intros c H; destruct (SV c H); split; [assumption|lia]|norv]. }
      destruct (negb (role_eqb (role n) Candidate) || negb (t =? term n)) eqn:E; cbn [fst snd]; [apply vspec_same; auto; norv|].
      apply orb_false_iff in E as [E1 _]. apply negb_false_iff, role_eqb_true in E1.
      set (n1 := if g then _ else n).
      assert (F1 : log n1 = log n /\ term n1 = term n /\ role n1 = role n /\ voted n1 = voted n) by (unfold n1; destruct g; destruct n; repeat split).
      destruct F1 as (A & B & C & D).
      destruct (zlen (votes n1) >=? quorum n1).
      * pose proof (become_leader_facts n1) as (L1 & L2 & _ & _ & L5 & _).
        pose proof (become_leader_same n1) as (_ & _ & _ & S4 & _).
        pose proof (become_leader_only_ae n1) as OA.
        destruct (become_leader n1) as [n2 o2]. cbn [fst snd] in *. constructor.
        -- intros c H. left. split; congruence.
        -- intros d t0 c lli llt H. exfalso. eapply (only_ae_no_rv _ OA); eauto.
        -- intros R. congruence.
        -- intros _ _. split; [congruence|left; split; congruence].
      * cbn [fst snd]. apply vspec_same; auto; norv.
    + (* AppendEntries *)
      unfold handle_append_entries.
      destruct (negb (zmem src (peers n))); cbn [fst snd]; [apply vspec_same; auto; norv|].
      destruct (t <? term n) eqn:Et; cbn [fst snd]; [apply vspec_same; auto; norv|].
      pose proof (step_down_facts n t) as (A & B & C & _). pose proof (step_down_voted n t ltac:(lia)) as SV.
      set (n1 := set_term (set_leader (step_down n t) (Some lead)) t).
      assert (F1 : role n1 = Follower /\ term n1 = t /\ voted n1 = voted (step_down n t)).
      { unfold n1. revert B C. generalize (step_down n t). intros m B C. destruct m; cbn in *. auto. }
      destruct F1 as (B1 & C1 & D1).
      assert (SV1 : forall c, voted n1 = Some c -> voted n = Some c /\ term n1 = term n).
      { intros c H. rewrite D1 in H. destruct (SV c H). split; [assumption|lia]. }
      match goal with |- context [negb ?c] => destruct c end; cbn [negb fst snd].
      2:{ apply vspec_follower; [exact B1|exact SV1|norv]. }
      set (n2 := fold_left append_one ents n1).
      destruct (fold_append_fields ents n1) as [R2 T2]. fold n2 in R2, T2.
      destruct (fold_append_same_rest ents n1) as (_ & _ & _ & _ & V2 & _). fold n2 in V2.
      set (n3 := if lc >? commit n2 then commit_to n2 (Z.min lc (last_index (log n2))) else n2).
      assert (F3 : role n3 = Follower /\ term n3 = term n1 /\ voted n3 = voted n1).
      { unfold n3. destruct (lc >? commit n2).
        - destruct (commit_to_rest n2 (Z.min lc (last_index (log n2)))) as (_ & _ & _ & Q4 & Q5 & Q6 & _).
          rewrite Q4, Q5, Q6. repeat split; congruence.
        - repeat split; congruence. }
      destruct F3 as (A3 & B3 & C3).
      apply vspec_follower; [exact A3|intros c H; rewrite C3 in H; rewrite B3; apply SV1, H|norv].
    + (* AppendEntriesResponse *)
      unfold handle_append_response. destruct (t >? term n) eqn:Et; cbn [fst snd].
      { pose proof (step_down_facts n t) as (A & B & C & _). pose proof (step_down_voted n t ltac:(lia)) as SV.
        apply vspec_follower; [exact B|intros c H; destruct (SV c H); split; [assumption|lia]|norv]. }
      destruct (negb (role_eqb (role n) Leader)) eqn:E; cbn [fst snd]; [apply vspec_same; auto; norv|].
      destruct (t <? term n); cbn [fst snd]; [apply vspec_same; auto; norv|].
      destruct s; cbn [fst snd].
      * unfold try_advance_commit.
        match goal with |- context [try_commit ?m ?hi ?k] =>
          destruct (try_commit_elr k m hi) as [(_ & _ & Q3 & Q4 & _) Q6]; destruct (try_commit_fields k m hi) as (Q7 & _) end.
        apply vspec_same; [rewrite Q4; destruct n; reflexivity|rewrite Q3; destruct n; reflexivity|rewrite Q6; destruct n; reflexivity|
                           rewrite Q7; destruct n; reflexivity|norv].
      * set (n1 := set_next_index n _).
        assert (F1 : log n1 = log n /\ role n1 = role n /\ term n1 = term n /\ voted n1 = voted n) by (destruct n; repeat split).
        destruct F1 as (A & B & C & D).
        destruct (zmem f (peers n1)); cbn [fst snd]; apply vspec_same; auto; try norv.
  - unfold submit. destruct (negb (role_eqb (role (set_nfut n (nfut n + 1))) Leader)) eqn:E.
    + apply vspec_same; [destruct n; reflexivity..|norv].
    + apply negb_false_iff, role_eqb_true in E.
      assert (RL : role n = Leader) by (destruct n; exact E).
      constructor.
      * intros c H. left. destruct n; cbn in *. auto.
      * intros d t c lli llt [].
      * intros R. destruct n; cbn in *. congruence.
      * intros _ NR. contradiction.
Qed.
