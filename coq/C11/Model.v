(** C11 — executable model of happysimulator/components/consensus/raft.py
    (RaftNode), consensus/log.py (Log) and the message bag of an asynchronous
    cluster (network.py/link.py deliver, delay, reorder or drop messages).

    No proofs here.  Node names "n0".."n4" are the integers 0..4; commands are
    integers (the harness uses a recording state machine whose [apply] returns
    the command).  Log entries are (term, command); the 1-based index of an
    entry is its position (Log.append assigns len+1, truncation keeps a
    prefix), messages carry the index explicitly as the dicts do.

    The model is of the tree AFTER the three [fix:] commits of this property:
    [_step_down] clears [voted_for] only when the term increases, a successful
    AppendEntries reply reports prev_log_index + len(entries), and the leader
    ignores AppendEntries replies that carry an earlier term. *)
From HS Require Import Base.Prelude.
Local Open Scope Z_scope.

Definition entry := (Z * Z)%type.          (* term, command *)
Inductive rstate := Follower | Candidate | Leader.

Definition role_eqb (a b : rstate) : bool :=
  match a, b with
  | Follower, Follower | Candidate, Candidate | Leader, Leader => true
  | _, _ => false
  end.

(** Message payloads ("metadata" of the network event, without source and
    destination).  AppendEntries entries are (index, term, command). *)
Inductive msg :=
| RequestVote (t cand lli llt : Z)
| VoteResponse (t : Z) (granted : bool) (from : Z)
| AppendEntries (t lead pli plt : Z) (ents : list (Z * Z * Z)) (lc : Z)
| AppendResponse (t : Z) (success : bool) (from : Z) (mi : Z).

(** What a node can be handed: its two timer events (with the event's
    cancelled flag), a network message with its metadata "source", or a client
    call of [submit]. *)
Inductive input :=
| ITimeout (cancelled : bool)
| IHeartbeat (cancelled : bool)
| IMsg (src : Z) (m : msg)
| ISubmit (cmd : Z).

(** Events returned by a handler: a network send, or a (re)scheduled timer. *)
Inductive output :=
| OSend (dst : Z) (m : msg)
| OElectionTimer
| OHeartbeatTimer.

Record node := mkNode {
  nid : Z;
  peers : list Z;
  term : Z;
  voted : option Z;
  log : list entry;
  commit : Z;
  role : rstate;
  leader : option Z;
  last_applied : Z;
  next_index : list (Z*Z);
  match_index : list (Z*Z);
  votes : list Z;
  pending : list (Z*Z);
  nfut : Z;
  applied : list (Z*Z);
  resolved : list (Z*Z*Z);
  n_cmds : Z;
  n_elections : Z;
  n_votes : Z
}.

Definition set_term (n : node) (v : Z) : node :=
  mkNode (n.(nid)) (n.(peers)) v (n.(voted)) (n.(log)) (n.(commit)) (n.(role)) (n.(leader)) (n.(last_applied)) (n.(next_index)) (n.(match_index)) (n.(votes)) (n.(pending)) (n.(nfut)) (n.(applied)) (n.(resolved)) (n.(n_cmds)) (n.(n_elections)) (n.(n_votes)).
Definition set_voted (n : node) (v : option Z) : node :=
  mkNode (n.(nid)) (n.(peers)) (n.(term)) v (n.(log)) (n.(commit)) (n.(role)) (n.(leader)) (n.(last_applied)) (n.(next_index)) (n.(match_index)) (n.(votes)) (n.(pending)) (n.(nfut)) (n.(applied)) (n.(resolved)) (n.(n_cmds)) (n.(n_elections)) (n.(n_votes)).
Definition set_log (n : node) (v : list entry) : node :=
  mkNode (n.(nid)) (n.(peers)) (n.(term)) (n.(voted)) v (n.(commit)) (n.(role)) (n.(leader)) (n.(last_applied)) (n.(next_index)) (n.(match_index)) (n.(votes)) (n.(pending)) (n.(nfut)) (n.(applied)) (n.(resolved)) (n.(n_cmds)) (n.(n_elections)) (n.(n_votes)).
Definition set_commit (n : node) (v : Z) : node :=
  mkNode (n.(nid)) (n.(peers)) (n.(term)) (n.(voted)) (n.(log)) v (n.(role)) (n.(leader)) (n.(last_applied)) (n.(next_index)) (n.(match_index)) (n.(votes)) (n.(pending)) (n.(nfut)) (n.(applied)) (n.(resolved)) (n.(n_cmds)) (n.(n_elections)) (n.(n_votes)).
Definition set_role (n : node) (v : rstate) : node :=
  mkNode (n.(nid)) (n.(peers)) (n.(term)) (n.(voted)) (n.(log)) (n.(commit)) v (n.(leader)) (n.(last_applied)) (n.(next_index)) (n.(match_index)) (n.(votes)) (n.(pending)) (n.(nfut)) (n.(applied)) (n.(resolved)) (n.(n_cmds)) (n.(n_elections)) (n.(n_votes)).
Definition set_leader (n : node) (v : option Z) : node :=
  mkNode (n.(nid)) (n.(peers)) (n.(term)) (n.(voted)) (n.(log)) (n.(commit)) (n.(role)) v (n.(last_applied)) (n.(next_index)) (n.(match_index)) (n.(votes)) (n.(pending)) (n.(nfut)) (n.(applied)) (n.(resolved)) (n.(n_cmds)) (n.(n_elections)) (n.(n_votes)).
Definition set_last_applied (n : node) (v : Z) : node :=
  mkNode (n.(nid)) (n.(peers)) (n.(term)) (n.(voted)) (n.(log)) (n.(commit)) (n.(role)) (n.(leader)) v (n.(next_index)) (n.(match_index)) (n.(votes)) (n.(pending)) (n.(nfut)) (n.(applied)) (n.(resolved)) (n.(n_cmds)) (n.(n_elections)) (n.(n_votes)).
Definition set_next_index (n : node) (v : list (Z*Z)) : node :=
  mkNode (n.(nid)) (n.(peers)) (n.(term)) (n.(voted)) (n.(log)) (n.(commit)) (n.(role)) (n.(leader)) (n.(last_applied)) v (n.(match_index)) (n.(votes)) (n.(pending)) (n.(nfut)) (n.(applied)) (n.(resolved)) (n.(n_cmds)) (n.(n_elections)) (n.(n_votes)).
Definition set_match_index (n : node) (v : list (Z*Z)) : node :=
  mkNode (n.(nid)) (n.(peers)) (n.(term)) (n.(voted)) (n.(log)) (n.(commit)) (n.(role)) (n.(leader)) (n.(last_applied)) (n.(next_index)) v (n.(votes)) (n.(pending)) (n.(nfut)) (n.(applied)) (n.(resolved)) (n.(n_cmds)) (n.(n_elections)) (n.(n_votes)).
Definition set_votes (n : node) (v : list Z) : node :=
  mkNode (n.(nid)) (n.(peers)) (n.(term)) (n.(voted)) (n.(log)) (n.(commit)) (n.(role)) (n.(leader)) (n.(last_applied)) (n.(next_index)) (n.(match_index)) v (n.(pending)) (n.(nfut)) (n.(applied)) (n.(resolved)) (n.(n_cmds)) (n.(n_elections)) (n.(n_votes)).
Definition set_pending (n : node) (v : list (Z*Z)) : node :=
  mkNode (n.(nid)) (n.(peers)) (n.(term)) (n.(voted)) (n.(log)) (n.(commit)) (n.(role)) (n.(leader)) (n.(last_applied)) (n.(next_index)) (n.(match_index)) (n.(votes)) v (n.(nfut)) (n.(applied)) (n.(resolved)) (n.(n_cmds)) (n.(n_elections)) (n.(n_votes)).
Definition set_nfut (n : node) (v : Z) : node :=
  mkNode (n.(nid)) (n.(peers)) (n.(term)) (n.(voted)) (n.(log)) (n.(commit)) (n.(role)) (n.(leader)) (n.(last_applied)) (n.(next_index)) (n.(match_index)) (n.(votes)) (n.(pending)) v (n.(applied)) (n.(resolved)) (n.(n_cmds)) (n.(n_elections)) (n.(n_votes)).
Definition set_applied (n : node) (v : list (Z*Z)) : node :=
  mkNode (n.(nid)) (n.(peers)) (n.(term)) (n.(voted)) (n.(log)) (n.(commit)) (n.(role)) (n.(leader)) (n.(last_applied)) (n.(next_index)) (n.(match_index)) (n.(votes)) (n.(pending)) (n.(nfut)) v (n.(resolved)) (n.(n_cmds)) (n.(n_elections)) (n.(n_votes)).
Definition set_resolved (n : node) (v : list (Z*Z*Z)) : node :=
  mkNode (n.(nid)) (n.(peers)) (n.(term)) (n.(voted)) (n.(log)) (n.(commit)) (n.(role)) (n.(leader)) (n.(last_applied)) (n.(next_index)) (n.(match_index)) (n.(votes)) (n.(pending)) (n.(nfut)) (n.(applied)) v (n.(n_cmds)) (n.(n_elections)) (n.(n_votes)).
Definition set_n_cmds (n : node) (v : Z) : node :=
  mkNode (n.(nid)) (n.(peers)) (n.(term)) (n.(voted)) (n.(log)) (n.(commit)) (n.(role)) (n.(leader)) (n.(last_applied)) (n.(next_index)) (n.(match_index)) (n.(votes)) (n.(pending)) (n.(nfut)) (n.(applied)) (n.(resolved)) v (n.(n_elections)) (n.(n_votes)).
Definition set_n_elections (n : node) (v : Z) : node :=
  mkNode (n.(nid)) (n.(peers)) (n.(term)) (n.(voted)) (n.(log)) (n.(commit)) (n.(role)) (n.(leader)) (n.(last_applied)) (n.(next_index)) (n.(match_index)) (n.(votes)) (n.(pending)) (n.(nfut)) (n.(applied)) (n.(resolved)) (n.(n_cmds)) v (n.(n_votes)).
Definition set_n_votes (n : node) (v : Z) : node :=
  mkNode (n.(nid)) (n.(peers)) (n.(term)) (n.(voted)) (n.(log)) (n.(commit)) (n.(role)) (n.(leader)) (n.(last_applied)) (n.(next_index)) (n.(match_index)) (n.(votes)) (n.(pending)) (n.(nfut)) (n.(applied)) (n.(resolved)) (n.(n_cmds)) (n.(n_elections)) v.

(* ------------------------------------------------------------------ *)
(** * Python dict (insertion ordered) as association list *)
Fixpoint aget (k : Z) (d : Z) (m : list (Z * Z)) : Z :=
  match m with
  | [] => d
  | (k', v) :: r => if Z.eqb k k' then v else aget k d r
  end.
Fixpoint afind (k : Z) (m : list (Z * Z)) : option Z :=
  match m with
  | [] => None
  | (k', v) :: r => if Z.eqb k k' then Some v else afind k r
  end.
Fixpoint aset (k v : Z) (m : list (Z * Z)) : list (Z * Z) :=
  match m with
  | [] => [(k, v)]
  | (k', v') :: r => if Z.eqb k k' then (k, v) :: r else (k', v') :: aset k v r
  end.
Fixpoint adel (k : Z) (m : list (Z * Z)) : list (Z * Z) :=
  match m with
  | [] => []
  | (k', v') :: r => if Z.eqb k k' then r else (k', v') :: adel k r
  end.
Definition zmem (x : Z) (l : list Z) : bool := existsb (Z.eqb x) l.
Definition set_add (x : Z) (l : list Z) : list Z := if zmem x l then l else l ++ [x].
Definition zlen {A} (l : list A) : Z := Z.of_nat (length l).

(* ------------------------------------------------------------------ *)
(** * consensus/log.py *)
Definition last_index (l : list entry) : Z := zlen l.
Definition last_term (l : list entry) : Z := match rev l with [] => 0 | e :: _ => fst e end.
(** Log.get *)
Definition log_get (l : list entry) (i : Z) : option entry :=
  if (i <? 1) || (i >? zlen l) then None else nth_error l (Z.to_nat (i - 1)).
(** Log.truncate_from: new entries and new commit index *)
Definition truncate_from (l : list entry) (c : Z) (i : Z) : list entry * Z :=
  if (i <? 1) || (i >? zlen l) then (l, c)
  else (firstn (Z.to_nat (i - 1)) l, if c >=? i then i - 1 else c).
(** entries[a:b] for 0 <= a (negative bounds are unreachable: see apply_inv) *)
Definition slice (l : list entry) (a b : Z) : list entry :=
  firstn (Z.to_nat (b - a)) (skipn (Z.to_nat a) l).
(** attach the stored [index] field to entries starting at position [i] (0-based) *)
Fixpoint with_index (i : Z) (l : list entry) : list (Z * Z * Z) :=
  match l with
  | [] => []
  | (t, c) :: r => (i + 1, t, c) :: with_index (i + 1) r
  end.
(** Log.entries_after, as the dict list of the message *)
Definition entries_after (l : list entry) (i : Z) : list (Z * Z * Z) :=
  let i := if i <? 0 then 0 else i in with_index i (skipn (Z.to_nat i) l).
(** Log.advance_commit: new commit index and the newly committed entries *)
Definition advance_commit (l : list entry) (c n : Z) : Z * list (Z * Z * Z) :=
  if n <=? c then (c, [])
  else let c' := Z.min n (zlen l) in (c', with_index c (slice l c c')).

(* ------------------------------------------------------------------ *)
(** * raft.py *)
Definition quorum (n : node) : Z := (zlen (peers n) + 1) / 2 + 1.

(** _apply_committed *)
Definition apply_one (n : node) (e : Z * Z * Z) : node :=
  let '(idx, _, cmd) := e in
  if idx >? last_applied n then
    let n1 := set_n_cmds (set_last_applied (set_applied n (applied n ++ [(idx, cmd)])) idx) (n_cmds n + 1) in
    match afind idx (pending n1) with
    | Some f => set_resolved (set_pending n1 (adel idx (pending n1))) (resolved n1 ++ [(f, idx, cmd)])
    | None => n1
    end
  else n.
Definition apply_committed (n : node) (es : list (Z * Z * Z)) : node := fold_left apply_one es n.

(** advance the log's commit index to [c] and apply what became committed *)
Definition commit_to (n : node) (c : Z) : node :=
  let '(c', es) := advance_commit (log n) (commit n) c in
  apply_committed (set_commit n c') es.

(** _step_down (after fix: the vote is kept when the term does not change) *)
Definition step_down (n : node) (t : Z) : node :=
  let n1 := if t >? term n then set_voted n None else n in
  set_role (set_term n1 t) Follower.

Definition prev_term_of (n : node) (prev : Z) : Z :=
  if prev >? 0 then match log_get (log n) prev with Some e => fst e | None => 0 end else 0.

Definition append_entries_for (n : node) (p : Z) : output :=
  let prev := aget p 1 (next_index n) - 1 in
  OSend p (AppendEntries (term n) (nid n) prev (prev_term_of n prev) (entries_after (log n) prev) (commit n)).

(** _send_append_entries *)
Definition send_append_entries (n : node) : list output := map (append_entries_for n) (peers n).

(** _become_leader *)
Definition become_leader (n : node) : node * list output :=
  let n1 := set_leader (set_role n Leader) (Some (nid n)) in
  let n2 := fold_left (fun a p => set_match_index (set_next_index a (aset p (last_index (log a) + 1) (next_index a)))
                                                  (aset p 0 (match_index a))) (peers n1) n1 in
  (n2, send_append_entries n2 ++ [OHeartbeatTimer]).

(** _start_election *)
Definition start_election (n : node) : node * list output :=
  let n1 := set_n_votes (set_n_elections (set_leader (set_votes (set_voted (set_term (set_role n Candidate)
              (term n + 1)) (Some (nid n))) [nid n]) None) (n_elections n + 1)) (n_votes n + 1) in
  let rvs := map (fun p => OSend p (RequestVote (term n1) (nid n1) (last_index (log n1)) (last_term (log n1)))) (peers n1) in
  if zlen (votes n1) >=? quorum n1 then
    let '(n2, o) := become_leader n1 in (n2, rvs ++ o)
  else (n1, rvs ++ [OElectionTimer]).

(** _handle_election_timeout *)
Definition handle_timeout (n : node) (cancelled : bool) : node * list output :=
  if cancelled then (n, [])
  else if role_eqb (role n) Leader then (n, [OElectionTimer])
  else start_election n.

(** _handle_heartbeat_tick *)
Definition handle_heartbeat (n : node) (cancelled : bool) : node * list output :=
  if cancelled then (n, [])
  else if negb (role_eqb (role n) Leader) then (n, [OElectionTimer])
  else (n, send_append_entries n ++ [OHeartbeatTimer]).

Definition vote_ok (n : node) (t cand lli llt : Z) : bool :=
  (t >=? term n)
  && (match voted n with None => true | Some v => Z.eqb v cand end)
  && ((llt >? last_term (log n)) || ((llt =? last_term (log n)) && (lli >=? last_index (log n)))).

(** _handle_request_vote *)
Definition handle_request_vote (n : node) (src t cand lli llt : Z) : node * list output :=
  if negb (zmem src (peers n)) then (n, [])
  else
    let n1 := if t >? term n then step_down n t else n in
    let g := vote_ok n1 t cand lli llt in
    let n2 := if g then set_term (set_voted n1 (Some cand)) t else n1 in
    (n2, OSend src (VoteResponse (term n2) g (nid n2)) :: (if g then [OElectionTimer] else [])).

(** _handle_vote_response *)
Definition handle_vote_response (n : node) (t : Z) (granted : bool) (voter : Z) : node * list output :=
  if t >? term n then (step_down n t, [OElectionTimer])
  else if negb (role_eqb (role n) Candidate) || negb (t =? term n) then (n, [])
  else
    let n1 := if granted then set_n_votes (set_votes n (set_add voter (votes n))) (n_votes n + 1) else n in
    if zlen (votes n1) >=? quorum n1 then become_leader n1 else (n1, []).

(** the per-entry loop of _handle_append_entries *)
Definition append_one (n : node) (e : Z * Z * Z) : node :=
  let '(idx, et, cmd) := e in
  match log_get (log n) idx with
  | Some ex =>
      if negb (fst ex =? et) then
        let '(l, c) := truncate_from (log n) (commit n) idx in
        set_log (set_commit n c) (l ++ [(et, cmd)])
      else n
  | None => set_log n (log n ++ [(et, cmd)])
  end.

(** _handle_append_entries *)
Definition handle_append_entries (n : node) (src t lead pli plt : Z) (ents : list (Z * Z * Z)) (lc : Z)
  : node * list output :=
  if negb (zmem src (peers n)) then (n, [])
  else if t <? term n then (n, [OSend src (AppendResponse (term n) false (nid n) 0)])
  else
    let n1 := set_term (set_leader (step_down n t) (Some lead)) t in
    let reject := (n1, [OElectionTimer; OSend src (AppendResponse (term n1) false (nid n1) 0)]) in
    let consistent :=
      if pli >? 0 then
        match log_get (log n1) pli with
        | None => false
        | Some e => fst e =? plt
        end
      else true in
    if negb consistent then reject
    else
      let n2 := fold_left append_one ents n1 in
      let n3 := if lc >? commit n2 then commit_to n2 (Z.min lc (last_index (log n2))) else n2 in
      (n3, [OElectionTimer; OSend src (AppendResponse (term n3) true (nid n3) (pli + zlen ents))]).

Fixpoint count_ge (x : Z) (m : list (Z * Z)) : Z :=
  match m with
  | [] => 0
  | (_, v) :: r => (if v >=? x then 1 else 0) + count_ge x r
  end.

(** _try_advance_commit: candidates N = hi, hi-1, ... ([k] of them) *)
Fixpoint try_commit (n : node) (hi : Z) (k : nat) : node :=
  match k with
  | O => n
  | S k' =>
      match log_get (log n) hi with
      | None => try_commit n (hi - 1) k'
      | Some e =>
          if negb (fst e =? term n) then try_commit n (hi - 1) k'
          else if 1 + count_ge hi (match_index n) >=? quorum n then commit_to n hi
          else try_commit n (hi - 1) k'
      end
  end.
Definition try_advance_commit (n : node) : node :=
  try_commit n (last_index (log n)) (Z.to_nat (last_index (log n) - commit n)).

(** _handle_append_entries_response *)
Definition handle_append_response (n : node) (t : Z) (success : bool) (f mi : Z) : node * list output :=
  if t >? term n then (step_down n t, [OElectionTimer])
  else if negb (role_eqb (role n) Leader) then (n, [])
  else if t <? term n then (n, [])     (* reply to an AppendEntries of an earlier term: ignored (fix 3rd of this property) *)
  else if success then
    let n1 := set_match_index (set_next_index n (aset f (mi + 1) (next_index n))) (aset f mi (match_index n)) in
    (try_advance_commit n1, [])
  else
    let n1 := set_next_index n (aset f (Z.max 1 (aget f 1 (next_index n) - 1)) (next_index n)) in
    if zmem f (peers n1) then (n1, [append_entries_for n1 f]) else (n1, []).

(** submit *)
Definition submit (n : node) (cmd : Z) : node :=
  let f := nfut n in
  let n0 := set_nfut n (f + 1) in
  if negb (role_eqb (role n0) Leader) then
    set_pending n0 (aset (- (zlen (pending n0) + 1)) f (pending n0))
  else
    let n1 := set_log n0 (log n0 ++ [(term n0, cmd)]) in
    set_pending n1 (aset (last_index (log n1)) f (pending n1)).

Definition handle_msg (n : node) (src : Z) (m : msg) : node * list output :=
  match m with
  | RequestVote t cand lli llt => handle_request_vote n src t cand lli llt
  | VoteResponse t g from => handle_vote_response n t g from
  | AppendEntries t lead pli plt ents lc => handle_append_entries n src t lead pli plt ents lc
  | AppendResponse t s from mi => handle_append_response n t s from mi
  end.

(** handle_event / submit *)
Definition node_step (n : node) (i : input) : node * list output :=
  match i with
  | ITimeout c => handle_timeout n c
  | IHeartbeat c => handle_heartbeat n c
  | IMsg src m => handle_msg n src m
  | ISubmit cmd => (submit n cmd, [])
  end.

(** RaftNode(name) + set_peers(all nodes) *)
Definition init_node (ids : list Z) (i : Z) : node :=
  mkNode i (filter (fun p => negb (Z.eqb p i)) ids) 0 None [] 0 Follower None 0 [] [] [] [] 0 [] [] 0 0 0.

Fixpoint node_run (n : node) (is : list input) : node :=
  match is with
  | [] => n
  | i :: r => node_run (fst (node_step n i)) r
  end.

(* ------------------------------------------------------------------ *)
(** * The asynchronous cluster: nodes + bag of in-flight messages.

    Any interleaving of these actions is allowed; this over-approximates every
    per-message delay (Deliver in any order), loss and partition (Drop), crash
    (messages to the node dropped, timers not firing; state persists as in the
    simulator) and every election-timeout draw (Timeout at any moment).
    [cast] and [led] are history variables (not in the code): every
    (voter, term, candidate) a node has ever held as its vote, and every
    (term, node) that has ever been leader. *)
Definition upd {V} (f : Z -> V) (k : Z) (v : V) : Z -> V :=
  fun k' => if Z.eqb k' k then v else f k'.

Record net := mkNet {
  ids : list Z;
  nodes : Z -> node;
  bag : list (Z * Z * msg);          (* destination, source, payload *)
  cast : list (Z * Z * Z);
  led : list (Z * Z);
}.

Inductive action :=
| ADeliver (k : nat)
| ADrop (k : nat)
| ATimeout (i : Z)
| AHeartbeat (i : Z)
| ASubmit (i cmd : Z).

Fixpoint remove_nth {A} (k : nat) (l : list A) : list A :=
  match k, l with
  | _, [] => []
  | O, _ :: r => r
  | S k', x :: r => x :: remove_nth k' r
  end.

Fixpoint sends_of (src : Z) (o : list output) : list (Z * Z * msg) :=
  match o with
  | [] => []
  | OSend d m :: r => (d, src, m) :: sends_of src r
  | _ :: r => sends_of src r
  end.

Definition net_apply (w : net) (i : Z) (inp : input) : net :=
  if negb (zmem i (ids w)) then w
  else
    let '(n', o) := node_step (nodes w i) inp in
    mkNet (ids w) (upd (nodes w) i n') (bag w ++ sends_of i o)
      (match voted n' with Some c => (i, term n', c) :: cast w | None => cast w end)
      (match role n' with Leader => (term n', i) :: led w | _ => led w end).

Definition net_step (w : net) (a : action) : net :=
  match a with
  | ADeliver k =>
      match nth_error (bag w) k with
      | None => w
      | Some (d, s, m) => net_apply (mkNet (ids w) (nodes w) (remove_nth k (bag w)) (cast w) (led w)) d (IMsg s m)
      end
  | ADrop k => mkNet (ids w) (nodes w) (remove_nth k (bag w)) (cast w) (led w)
  | ATimeout i => net_apply w i (ITimeout false)
  | AHeartbeat i => net_apply w i (IHeartbeat false)
  | ASubmit i c => net_apply w i (ISubmit c)
  end.

Definition net_init (ids : list Z) : net := mkNet ids (init_node ids) [] [] [].
Definition net_run (w : net) (acts : list action) : net := fold_left net_step acts w.

(* ------------------------------------------------------------------ *)
(** * Comparison with the implementation (correspondence check) *)
Definition role_code (r : rstate) : Z := match r with Follower => 0 | Candidate => 1 | Leader => 2 end.

Definition zz_eqb (a b : Z * Z) : bool := (fst a =? fst b) && (snd a =? snd b).
Definition zzz_eqb (a b : Z * Z * Z) : bool := zz_eqb (fst a) (fst b) && (snd a =? snd b).
Definition set_eqb (a b : list Z) : bool :=
  (zlen a =? zlen b) && forallb (fun x => zmem x b) a && forallb (fun x => zmem x a) b.

(** Observation of one RaftNode: public properties, stats, and the private
    attributes listed in harness/props/c11.py. *)
Record obs := mkObs {
  o_term : Z; o_voted : option Z; o_role : Z; o_leader : option Z;
  o_log : list (Z * Z); o_commit : Z; o_last_applied : Z;
  o_next : list (Z * Z); o_match : list (Z * Z); o_votes : list Z;
  o_pending : list (Z * Z); o_applied : list Z; o_resolved : list (Z * Z * Z);
  o_stats : Z * Z * Z;
}.

Definition obs_ok (n : node) (o : obs) : bool :=
  (term n =? o_term o) && option_eqb Z.eqb (voted n) (o_voted o)
  && (role_code (role n) =? o_role o) && option_eqb Z.eqb (leader n) (o_leader o)
  && list_eqb zz_eqb (log n) (o_log o) && (commit n =? o_commit o)
  && (last_applied n =? o_last_applied o)
  && list_eqb zz_eqb (next_index n) (o_next o) && list_eqb zz_eqb (match_index n) (o_match o)
  && set_eqb (votes n) (o_votes o)
  && list_eqb zz_eqb (pending n) (o_pending o)
  && list_eqb Z.eqb (map snd (applied n)) (o_applied o)
  && list_eqb zzz_eqb (resolved n) (o_resolved o)
  && zzz_eqb (n_cmds n, n_elections n, n_votes n) (o_stats o).

Definition msg_eqb (a b : msg) : bool :=
  match a, b with
  | RequestVote t c i l, RequestVote t' c' i' l' => (t =? t') && (c =? c') && (i =? i') && (l =? l')
  | VoteResponse t g f, VoteResponse t' g' f' => (t =? t') && Bool.eqb g g' && (f =? f')
  | AppendEntries t l pi pt es lc, AppendEntries t' l' pi' pt' es' lc' =>
      (t =? t') && (l =? l') && (pi =? pi') && (pt =? pt') && list_eqb zzz_eqb es es' && (lc =? lc')
  | AppendResponse t s f m, AppendResponse t' s' f' m' => (t =? t') && Bool.eqb s s' && (f =? f') && (m =? m')
  | _, _ => false
  end.
Definition output_eqb (a b : output) : bool :=
  match a, b with
  | OSend d m, OSend d' m' => (d =? d') && msg_eqb m m'
  | OElectionTimer, OElectionTimer | OHeartbeatTimer, OHeartbeatTimer => true
  | _, _ => false
  end.

(** Per-handler trace replay: every event handled by any node of a real run, in
    order: (node, input as the handler saw it, events it returned, state after). *)
Definition trace_rec := (Z * input * list output * obs)%type.

Fixpoint trace_ok (st : Z -> node) (tr : list trace_rec) : bool :=
  match tr with
  | [] => true
  | (i, inp, outs, o) :: r =>
      let '(n', outs') := node_step (st i) inp in
      list_eqb output_eqb outs' outs && obs_ok n' o && trace_ok (upd st i n') r
  end.
Definition ok_trace (c : list Z * list trace_rec) : bool :=
  let '(ids, tr) := c in trace_ok (init_node ids) tr.

(** Direct drive of the cluster model: after every action the acting node's
    observation (node id -1: no node acted) and the size of the bag. *)
Definition acting (w : net) (a : action) : Z :=
  match a with
  | ADeliver k => match nth_error (bag w) k with Some (d, _, _) => d | None => -1 end
  | ADrop _ => -1
  | ATimeout i | AHeartbeat i | ASubmit i _ => i
  end.

Fixpoint net_ok (w : net) (acts : list action) (os : list (Z * option obs * Z)) : bool :=
  match acts, os with
  | [], [] => true
  | a :: ar, (i, o, nb) :: orr =>
      let w' := net_step w a in
      (acting w a =? i)
      && (match o with Some o => obs_ok (nodes w' i) o | None => true end)
      && (zlen (bag w') =? nb)
      && net_ok w' ar orr
  | _, _ => false
  end.
Definition ok_net (c : list Z * list action * list (Z * option obs * Z)) : bool :=
  let '(ids, acts, os) := c in net_ok (net_init ids) acts os.
