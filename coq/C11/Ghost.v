(** C11 — history variables and predicates for the cluster-level proof of leader
    completeness and state-machine safety.

    Ghost state threaded beside a run of the cluster model (none of it is in
    the code; the run of the model itself is unchanged, [crun_fst]):
    - [gg t]   the log of the leader of term [t] at its latest step as leader
               (the ghost of C11/LogMatching.v);
    - [gel t]  the log that leader had when it was elected;
    - [gacc a t m]  node [a], while in term [t], held a log whose first [m]
               entries were the first [m] entries of [gg t];
    - [gV]     one record (voter, term, candidate, voter's log) for every vote
               at the moment it was cast. *)
From HS Require Import Base.Prelude C11.Model C11.NodeProofs C11.Election C11.LogProofs C11.LogMatching C11.Steps.
Local Open Scope Z_scope.

Definition accT := Z -> Z -> nat -> Prop.
Definition vrec := (Z * Z * Z * list entry)%type.
Record ghost := mkGhost { gg : glog; gacc : accT; gV : list vrec; gel : glog }.

(** The vote (as a pair with the term) changed to [Some c] in this step. *)
Definition vchg (n n' : node) : option Z :=
  match voted n' with
  | Some c => if option_eqb Z.eqb (voted n) (Some c) && (term n' =? term n) then None else Some c
  | None => None
  end.

Definition capply (w : net) (G : ghost) (i : Z) (inp : input) : ghost :=
  if negb (zmem i (ids w)) then G else
  let n := nodes w i in
  let n' := fst (node_step n inp) in
  let g' := gupd (gg G) n' in
  mkGhost g'
    (fun a t m => gacc G a t m \/
                  (a = i /\ t = term n' /\ (m <= length (log n'))%nat /\ firstn m (log n') = firstn m (g' t)))
    (match vchg n n' with Some c => (i, term n', c, log n') :: gV G | None => gV G end)
    (match role n', role n with
     | Leader, Leader => gel G
     | Leader, _ => upd (gel G) (term n') (log n')
     | _, _ => gel G
     end).

Definition cstep (w : net) (G : ghost) (a : action) : ghost :=
  match a with
  | ADeliver k =>
      match nth_error (bag w) k with
      | None => G
      | Some (d, s, m) => capply (mkNet (ids w) (nodes w) (remove_nth k (bag w)) (cast w) (led w)) G d (IMsg s m)
      end
  | ADrop _ => G
  | ATimeout i => capply w G i (ITimeout false)
  | AHeartbeat i => capply w G i (IHeartbeat false)
  | ASubmit i c => capply w G i (ISubmit c)
  end.

Fixpoint crun (w : net) (G : ghost) (acts : list action) : net * ghost :=
  match acts with
  | [] => (w, G)
  | a :: r => crun (net_step w a) (cstep w G a) r
  end.

Definition G0 : ghost := mkGhost g0 (fun _ _ _ => False) [] g0.

Lemma crun_fst acts : forall w G, fst (crun w G acts) = net_run w acts.
Proof. unfold net_run. induction acts as [|a r IH]; intros w G; cbn; [reflexivity|apply IH]. Qed.

Lemma capply_gg w G i inp : gg (capply w G i inp) = gapply w (gg G) i inp.
Proof. unfold capply, gapply. destruct (negb (zmem i (ids w))); reflexivity. Qed.

Lemma cstep_gg w G a : gg (cstep w G a) = gstep w (gg G) a.
Proof.
  destruct a as [k|k|i|i|i c]; cbn [cstep gstep]; try apply capply_gg; [|reflexivity].
  destruct (nth_error (bag w) k) as [[[d s] m]|]; [apply capply_gg|reflexivity].
Qed.

Lemma crun_gg acts : forall w G, gg (snd (crun w G acts)) = snd (grun w (gg G) acts).
Proof. induction acts as [|a r IH]; intros w G; cbn [crun grun]; [reflexivity|]. rewrite IH, cstep_gg. reflexivity. Qed.

(* ------------------------------------------------------------------ *)
(** * Predicates *)
Definition hasP (g : glog) (L : list entry) (T : Z) (m : nat) : Prop :=
  (m <= length L)%nat /\ firstn m L = firstn m (g T).

(** position [m-1] of [g T] holds an entry created in term [T] itself *)
Definition ownT (g : glog) (T : Z) (m : nat) : Prop :=
  exists e, nth_error (g T) (m - 1) = Some e /\ fst e = T.

Definition bad (w : net) (g : glog) (T : Z) (m : nat) (hi : Z) : Prop :=
  exists t' x, T < t' /\ t' <= hi /\ In (t', x) (led w) /\ firstn m (g t') <> firstn m (g T).

Definition Vgood (w : net) (G : ghost) (v t : Z) (L : list entry) (hi : Z) : Prop :=
  forall T m, T < t -> gacc G v T m -> (1 <= m)%nat -> ownT (gg G) T m ->
    hasP (gg G) L T m \/ bad w (gg G) T m hi.

Definition uptodate (C L : list entry) : Prop :=
  last_term C > last_term L \/ (last_term C = last_term L /\ zlen C >= zlen L).

Definition dcommitted (w : net) (G : ghost) (T : Z) (m : nat) : Prop :=
  (1 <= m)%nat /\ ownT (gg G) T m /\
  exists Q, NoDup Q /\ nquorum (ids w) <= zlen Q /\ forall q, In q Q -> In q (ids w) /\ gacc G q T m.

Definition cprefix (w : net) (G : ghost) (tt : Z) (L : list entry) (c : Z) : Prop :=
  c = 0 \/ exists T m, T <= tt /\ dcommitted w G T m /\ 0 < c /\ c <= Z.of_nat m /\ c <= zlen L /\
                       firstn (Z.to_nat c) L = firstn (Z.to_nat c) (gg G T).

Definition ae_ok2 (G : list entry) (pli plt : Z) (ents : list (Z * Z * Z)) : Prop :=
  0 <= pli /\ pli <= zlen G /\
  ents = with_index pli (firstn (length ents) (skipn (Z.to_nat pli) G)) /\
  (0 < pli -> exists e, nth_error G (Z.to_nat pli - 1) = Some e /\ fst e = plt).

Definition msg_inv (w : net) (G : ghost) (d s : Z) (m : msg) : Prop :=
  match m with
  | RequestVote t c lli llt =>
      d <> s /\ t <= term (nodes w s) /\
      (term (nodes w s) = t -> role (nodes w s) = Candidate ->
         lli = zlen (log (nodes w s)) /\ llt = last_term (log (nodes w s))) /\
      (In (t, s) (led w) -> lli = zlen (gel G t) /\ llt = last_term (gel G t))
  | VoteResponse t true f => exists L, In (s, t, d, L) (gV G)
  | VoteResponse _ false _ => True
  | AppendEntries t lead pli plt ents lc =>
      ae_ok2 (gg G t) pli plt ents /\ 0 <= lc /\ lc <= pli + zlen ents /\ cprefix w G t (gg G t) lc
  | AppendResponse t true f mi =>
      f = s /\ In s (ids w) /\ s <> d /\ 0 <= mi /\ (0 < mi -> gacc G s t (Z.to_nat mi))
  | AppendResponse _ false _ _ => True
  end.

(** The invariant. *)
Record cinv (w : net) (G : ghost) : Prop := {
  K_lm : lm_inv w (gg G);
  K_ap : forall i, apply_inv (nodes w i) /\ ap_ok (nodes w i);
  K_term : forall i, 0 <= term (nodes w i) /\ (role (nodes w i) <> Follower -> 0 < term (nodes w i));
  K_logterm : forall i e, In e (log (nodes w i)) -> 0 < fst e /\ fst e <= term (nodes w i);
  K_g1 : forall t e, In e (gg G t) -> 0 < fst e /\ fst e <= t;
  K_el : forall t, exists sfx, gg G t = gel G t ++ sfx /\ (forall e, In e (gel G t) -> fst e < t) /\ (forall e, In e sfx -> fst e = t);
  K_down : forall a t m m', gacc G a t m -> (m' <= m)%nat -> gacc G a t m';
  K_acc : forall a t m, gacc G a t m -> In a (ids w) /\ t <= term (nodes w a) /\ (m <= length (gg G t))%nat;
  K_cur : forall a T m, gacc G a T m -> (1 <= m)%nat -> ownT (gg G) T m ->
            hasP (gg G) (log (nodes w a)) T m \/ bad w (gg G) T m (term (nodes w a));
  K_V : forall v t c L, In (v, t, c, L) (gV G) ->
          In v (ids w) /\ t <= term (nodes w v) /\ t <= term (nodes w c) /\ pok (gg G) L /\ Vgood w G v t L t /\
          (term (nodes w c) = t -> role (nodes w c) = Candidate -> uptodate (log (nodes w c)) L) /\
          (In (t, c) (led w) -> uptodate (gel G t) L);
  K_voted : forall i c, In i (ids w) -> voted (nodes w i) = Some c -> exists L, In (i, term (nodes w i), c, L) (gV G);
  K_votes : forall i, In i (ids w) -> role (nodes w i) <> Follower ->
              forall v, In v (votes (nodes w i)) -> exists L, In (v, term (nodes w i), i, L) (gV G);
  K_led : forall t a, In (t, a) (led w) ->
            exists vs, NoDup vs /\ nquorum (ids w) <= zlen vs /\
              forall v, In v vs -> exists L, In (v, t, a, L) (gV G) /\ Vgood w G v t L (t - 1);
  K_mi0 : forall i, NoDup (map fst (match_index (nodes w i))) /\
                    forall k, In k (map fst (match_index (nodes w i))) -> In k (peers (nodes w i));
  K_mi : forall i, In i (ids w) -> role (nodes w i) = Leader ->
           forall p m, afind p (match_index (nodes w i)) = Some m ->
             0 <= m /\ (0 < m -> gacc G p (term (nodes w i)) (Z.to_nat m));
  K_ni : forall i, In i (ids w) -> role (nodes w i) = Leader ->
           forall p, In p (peers (nodes w i)) ->
             1 <= aget p 1 (next_index (nodes w i)) /\ aget p 1 (next_index (nodes w i)) <= zlen (log (nodes w i)) + 1;
  K_msgs : forall d s m, In (d, s, m) (bag w) -> msg_inv w G d s m;
  K_ci : forall i, In i (ids w) -> cprefix w G (term (nodes w i)) (log (nodes w i)) (commit (nodes w i));
}.

(* ------------------------------------------------------------------ *)
(** * Pure lemmas *)
Lemma last_term_nth (L : list entry) : L <> [] ->
  exists e, nth_error L (length L - 1) = Some e /\ last_term L = fst e.
Proof.
  intros H. destruct (exists_last H) as (L0 & e & ->).
  exists e. rewrite app_length. cbn [length]. replace (length L0 + 1 - 1)%nat with (length L0) by lia.
  rewrite nth_error_app_last. split; [reflexivity|]. unfold last_term. rewrite rev_app_distr. reflexivity.
Qed.

Lemma pok_prefix g L : pok g L -> L <> [] -> L = firstn (length L) (g (last_term L)).
Proof.
  intros P H. destruct (last_term_nth L H) as (e & He & Ht).
  pose proof (P _ _ He) as E. assert (length L >= 1)%nat by (destruct L; [contradiction|cbn; lia]).
  replace (S (length L - 1)) with (length L) in E by lia. rewrite firstn_all in E. rewrite Ht. exact E.
Qed.

Lemma hasP_len g L T m : hasP g L T m -> (m <= length (g T))%nat.
Proof.
  intros [A B]. assert (length (firstn m L) = m) by (rewrite firstn_length; lia).
  rewrite B, firstn_length in H. lia.
Qed.

Lemma firstn_app_le {A} (a b : list A) m : (m <= length a)%nat -> firstn m (a ++ b) = firstn m a.
Proof. intros H. rewrite firstn_app. replace (m - length a)%nat with 0%nat by lia. cbn. apply app_nil_r. Qed.

Lemma nth_error_In' {A} (l : list A) k x : nth_error l k = Some x -> In x l.
Proof. apply nth_error_In. Qed.

Lemma prefix_nth {A} (C G : list A) k x : C = firstn (length C) G -> nth_error C k = Some x -> nth_error G k = Some x.
Proof. intros E H. rewrite E in H. apply nth_error_firstn_some in H as [_ H]. exact H. Qed.

Lemma prefix_firstn {A} (C G : list A) m : C = firstn (length C) G -> (m <= length C)%nat -> firstn m C = firstn m G.
Proof. intros E H. rewrite E at 1. rewrite firstn_firstn. f_equal. lia. Qed.

(** The up-to-date comparison carries a committed point from the voter's log to the candidate's. *)
Lemma uptodate_has g C L T m :
  (forall t e, In e (g t) -> 0 < fst e /\ fst e <= t) -> pok g C -> pok g L ->
  hasP g L T m -> (1 <= m)%nat -> ownT g T m -> uptodate C L ->
  (forall e, In e C -> T < fst e -> firstn m (g (fst e)) = firstn m (g T)) ->
  hasP g C T m.
Proof.
  intros G1 PC PL [HLm HL] Hm (e0 & He0 & Ht0) U IH.
  assert (Lne : L <> []) by (intros ->; cbn in HLm; lia).
  pose proof (pok_prefix g L PL Lne) as EL. set (tl := last_term L) in *.
  assert (HmT : (m <= length (g T))%nat) by (apply (hasP_len g L T m); split; assumption).
  (* the entry at m-1 of L is e0, of term T *)
  assert (HL0 : nth_error L (m - 1) = Some e0).
  { rewrite (firstn_nth_eq L (g T) m (m - 1)); [exact He0|lia|exact HL]. }
  assert (T0 : 0 < T) by (rewrite <- Ht0; apply (G1 T e0), (nth_error_In' _ _ _ He0)).
  assert (Tl : T <= tl).
  { rewrite <- Ht0. apply (G1 tl e0). apply (nth_error_In' _ (m - 1)). apply (prefix_nth L (g tl) _ _ EL HL0). }
  destruct C as [|c0 C0] eqn:EC.
  { exfalso. unfold uptodate in U. cbn in U. unfold zlen in U. cbn in U. fold tl in U. destruct L; [contradiction|]. cbn [length] in U. lia. }
  rewrite <- EC in *. assert (Cne : C <> []) by (rewrite EC; discriminate). clear EC c0 C0.
  pose proof (pok_prefix g C PC Cne) as ECp. set (tc := last_term C) in *.
  destruct (last_term_nth C Cne) as (eC & HeC & HtC). fold tc in HtC.
  assert (Tc : tl <= tc) by (unfold uptodate in U; fold tl tc in U; lia).
  destruct (Z.eq_dec tc T) as [Eq|Ne].
  - (* same last term: the candidate's log is at least as long *)
    assert (tl = T) by lia.
    assert (length L <= length C)%nat by (unfold uptodate, zlen in U; fold tl tc in U; lia).
    unfold hasP. split; [lia|]. rewrite (prefix_firstn C (g tc) m ECp) by lia. rewrite Eq. reflexivity.
  - assert (Hlt : T < tc) by lia.
    assert (Hin : In eC C) by (apply (nth_error_In' _ _ _ HeC)).
    pose proof (IH eC Hin ltac:(lia)) as Hg. rewrite <- HtC in Hg.
    assert (Hlen : (m <= length C)%nat).
    { destruct (Nat.le_gt_cases m (length C)) as [Hle|Hgt]; [exact Hle|exfalso].
      assert (X : nth_error (g tc) (length C - 1) = Some eC).
      { apply (prefix_nth C (g tc) _ _ ECp HeC). }
      assert (Y : nth_error (g T) (length C - 1) = Some eC).
      { rewrite <- (firstn_nth_eq (g tc) (g T) m (length C - 1)); [exact X| |exact Hg].
        assert (length C >= 1)%nat by (destruct C; [contradiction|cbn; lia]). lia. }
      pose proof (G1 T eC (nth_error_In' _ _ _ Y)). lia. }
    unfold hasP. split; [exact Hlen|]. rewrite (prefix_firstn C (g tc) m ECp Hlen). exact Hg.
Qed.

(** Inequality of prefixes survives appending entries of a later term. *)
Lemma neq_stable (A B s : list entry) m T :
  firstn m A <> firstn m B -> (m <= length B)%nat ->
  (forall e, In e B -> fst e <= T) -> (forall e, In e s -> T < fst e) ->
  firstn m (A ++ s) <> firstn m B.
Proof.
  intros N HB B1 S1 E.
  destruct (Nat.le_gt_cases m (length A)) as [Hle|Hgt].
  - rewrite firstn_app_le in E by exact Hle. contradiction.
  - destruct s as [|x s]; [rewrite app_nil_r in E; contradiction|].
    assert (X : nth_error (firstn m (A ++ x :: s)) (length A) = Some x).
    { rewrite nth_error_firstn by lia. rewrite nth_error_app2 by lia. rewrite Nat.sub_diag. reflexivity. }
    rewrite E in X. apply nth_error_firstn_some in X as [_ X].
    pose proof (B1 x (nth_error_In' _ _ _ X)). pose proof (S1 x (or_introl eq_refl)). lia.
Qed.
