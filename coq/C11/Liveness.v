(** C11 — liveness on a fault-free network, cluster level, for the canonical
    schedule of an in-sync cluster of ANY size >= 2: the leader takes a command,
    a heartbeat round replicates it to every follower and collects the replies
    (the leader commits and applies it), a second round hands the commit index
    to the followers (each commits and applies it).  By induction, every
    command submitted to the established leader is committed and applied, in
    submission order, by every node. *)
From HS Require Import Base.Prelude C11.Model C11.NodeProofs C11.Election C11.LogProofs C11.LogMatching C11.Steps C11.Progress C11.Progress2 C11.Ghost C11.Completeness.
Local Open Scope Z_scope.

Lemma firstn_app_le {A} (a b : list A) m : (m <= length a)%nat -> firstn m (a ++ b) = firstn m a.
Proof. intros H. rewrite firstn_app. replace (m - length a)%nat with 0%nat by lia. cbn. apply app_nil_r. Qed.

Lemma net_run_app w a b : net_run w (a ++ b) = net_run (net_run w a) b.
Proof. unfold net_run. apply fold_left_app. Qed.

(** Delivering, in order, one message [m] from [L] to each follower of [fs]
    (the head of the bag), each follower answering [L] with one message. *)
Lemma deliver_to_followers L m resp : forall fs w rs,
  bag w = map (fun j => (j, L, m)) fs ++ rs -> NoDup fs -> (forall j, In j fs -> In j (ids w)) ->
  (forall j, In j fs -> snd (node_step (nodes w j) (IMsg L m)) = [OElectionTimer; OSend L (resp j)]) ->
  let w' := net_run w (repeat (ADeliver 0) (length fs)) in
  ids w' = ids w /\ bag w' = rs ++ map (fun j => (L, j, resp j)) fs /\
  (forall j, In j fs -> nodes w' j = fst (node_step (nodes w j) (IMsg L m))) /\
  (forall i, ~ In i fs -> nodes w' i = nodes w i).
Proof.
  induction fs as [|j fs IH]; intros w rs Hb ND Hin Hout; cbn zeta.
  - cbn. rewrite app_nil_r. cbn in Hb. repeat split; auto. intros j [].
  - inversion ND as [|? ? Nj ND']; subst. cbn [length repeat]. unfold net_run. cbn [fold_left]. fold (net_run (net_step w (ADeliver 0)) (repeat (ADeliver 0) (length fs))).
    cbn [net_step]. rewrite Hb. cbn [map app nth_error remove_nth].
    set (w0 := mkNet (ids w) (nodes w) (map (fun j0 => (j0, L, m)) fs ++ rs) (cast w) (led w)).
    unfold net_apply. assert (Z0 : negb (zmem j (ids w0)) = false) by (apply negb_false_iff, zmem_in, Hin; left; reflexivity).
    rewrite Z0. pose proof (Hout j (or_introl eq_refl)) as Ho. cbn [nodes w0].
    destruct (node_step (nodes w j) (IMsg L m)) as [n' o] eqn:NS. cbn [snd fst] in *. subst o.
    cbn [sends_of bag w0].
    set (w1 := mkNet _ _ _ _ _).
    destruct (IH w1 (rs ++ [(L, j, resp j)])) as (A1 & A2 & A3 & A4).
    + unfold w1. cbn [bag]. rewrite <- app_assoc. reflexivity.
    + exact ND'.
    + intros x Hx. unfold w1. cbn [ids]. apply Hin. right. exact Hx.
    + intros x Hx. unfold w1. cbn [nodes]. rewrite upd_other by (intros ->; contradiction). apply Hout. right. exact Hx.
    + split; [rewrite A1; reflexivity|]. split; [rewrite A2, <- app_assoc; reflexivity|]. split.
      * intros x [<-|Hx].
        -- rewrite A4 by exact Nj. unfold w1. cbn [nodes]. rewrite upd_same, NS. reflexivity.
        -- rewrite (A3 x Hx). unfold w1. cbn [nodes]. rewrite upd_other by (intros ->; contradiction). reflexivity.
      * intros i Hi. rewrite A4 by (intros X; apply Hi; right; exact X). unfold w1. cbn [nodes]. apply upd_other.
        intros ->. apply Hi. left. reflexivity.
Qed.

(** Delivering, in order, one reply from each follower of [fs] to [L], none of
    which makes [L] send anything. *)
Lemma deliver_to_leader L resp : forall fs w,
  bag w = map (fun j => (L, j, resp j)) fs -> In L (ids w) ->
  (forall pre j, snd (node_step (fold_left (fun n x => fst (node_step n (IMsg x (resp x)))) pre (nodes w L)) (IMsg j (resp j))) = []) ->
  let w' := net_run w (repeat (ADeliver 0) (length fs)) in
  ids w' = ids w /\ bag w' = [] /\
  nodes w' L = fold_left (fun n x => fst (node_step n (IMsg x (resp x)))) fs (nodes w L) /\
  (forall i, i <> L -> nodes w' i = nodes w i).
Proof.
  induction fs as [|j fs IH]; intros w Hb HL Hout; cbn zeta.
  - cbn. cbn in Hb. repeat split; auto.
  - cbn [length repeat]. unfold net_run. cbn [fold_left]. fold (net_run (net_step w (ADeliver 0)) (repeat (ADeliver 0) (length fs))).
    cbn [net_step]. rewrite Hb. cbn [map nth_error remove_nth].
    set (w0 := mkNet (ids w) (nodes w) (map (fun j0 => (L, j0, resp j0)) fs) (cast w) (led w)).
    unfold net_apply. assert (Z0 : negb (zmem L (ids w0)) = false) by (apply negb_false_iff, zmem_in, HL).
    rewrite Z0. pose proof (Hout [] j) as Ho. cbn [fold_left] in Ho. cbn [nodes w0].
    destruct (node_step (nodes w L) (IMsg j (resp j))) as [n' o] eqn:NS. cbn [snd fst] in *. subst o.
    cbn [sends_of bag w0]. rewrite app_nil_r.
    set (w1 := mkNet _ _ _ _ _).
    destruct (IH w1) as (A1 & A2 & A3 & A4).
    + reflexivity.
    + exact HL.
    + intros pre x. unfold w1. cbn [nodes]. rewrite upd_same. specialize (Hout (j :: pre) x). cbn [fold_left] in Hout. rewrite NS in Hout. exact Hout.
    + split; [rewrite A1; reflexivity|]. split; [exact A2|]. split.
      * rewrite A3. unfold w1. cbn [nodes]. rewrite upd_same. reflexivity.
      * intros i Hi. rewrite (A4 i Hi). unfold w1. cbn [nodes]. apply upd_other, Hi.
Qed.

(* ------------------------------------------------------------------ *)
(** * Exact node-level steps of the canonical schedule *)
Lemma count_ge_lb hi : forall m fs, NoDup (map fst m) -> NoDup fs ->
  (forall j, In j fs -> exists v, afind j m = Some v /\ hi <= v) -> zlen fs <= count_ge hi m.
Proof.
  induction m as [|[k v] r IH]; intros fs NDm NDf H.
  - destruct fs as [|j fs]; [cbn; unfold zlen; cbn; lia|]. destruct (H j (or_introl eq_refl)) as (v & Hv & _). discriminate.
  - inversion NDm as [|? ? Nk NDr]; subst. cbn [count_ge].
    set (fs' := filter (fun p => negb (p =? k)) fs).
    assert (NDf' : NoDup fs') by (apply NoDup_filter, NDf).
    assert (H' : forall j, In j fs' -> exists v0, afind j r = Some v0 /\ hi <= v0).
    { intros j Hj. apply filter_In in Hj as [Hj Hne]. destruct (H j Hj) as (v0 & Hv & Hle). cbn [afind] in Hv.
      replace (j =? k) with false in Hv by lia. eauto. }
    specialize (IH fs' NDr NDf' H').
    destruct (in_dec Z.eq_dec k fs) as [Hk|Hk].
    + destruct (H k Hk) as (v0 & Hv & Hle). cbn [afind] in Hv. rewrite Z.eqb_refl in Hv. inversion Hv; subst v0.
      pose proof (filter_others_length k fs NDf Hk). fold fs' in H0. replace (v >=? hi) with true by lia. lia.
    + assert (fs' = fs).
      { unfold fs'. clear -Hk. induction fs as [|x fs IH]; cbn; [reflexivity|].
        destruct (x =? k) eqn:E; [exfalso; apply Hk; left; lia|]. cbn. f_equal. apply IH. intros X. apply Hk. right. exact X. }
      rewrite H0 in IH. destruct (v >=? hi); lia.
Qed.

Lemma try_commit_mono k : forall n hi, apply_inv n -> commit n <= commit (try_commit n hi k) /\ apply_inv (try_commit n hi k).
Proof.
  induction k as [|k IH]; intros n hi AI; cbn [try_commit]; [split; [lia|exact AI]|].
  destruct (log_get (log n) hi); [|apply IH, AI]. destruct (negb _); [apply IH, AI|].
  destruct (_ >=? _); [|apply IH, AI].
  destruct (commit_to_inv n hi AI) as [AI' _]. destruct AI as (A0 & A1 & _).
  destruct (commit_to_commit n hi A0 A1) as [_ Q]. auto.
Qed.

Lemma leader_reply_exact n j mi :
  role n = Leader -> apply_inv n -> ap_ok n ->
  let r := node_step n (IMsg j (AppendResponse (term n) true j mi)) in
  snd r = [] /\ log (fst r) = log n /\ term (fst r) = term n /\ role (fst r) = Leader /\
  nid (fst r) = nid n /\ peers (fst r) = peers n /\
  next_index (fst r) = aset j (mi + 1) (next_index n) /\ match_index (fst r) = aset j mi (match_index n) /\
  commit n <= commit (fst r) /\ apply_inv (fst r) /\ ap_ok (fst r) /\
  (forall hi e, log_get (log n) hi = Some e -> fst e = term n ->
     1 + count_ge hi (aset j mi (match_index n)) >= quorum n -> hi <= commit (fst r)).
Proof.
  intros R AI AP. cbv zeta.
  pose proof (node_step_inv n (IMsg j (AppendResponse (term n) true j mi)) AI) as AI'.
  pose proof (node_step_spec n (IMsg j (AppendResponse (term n) true j mi))) as ((Vn & Vp & _) & _).
  cbn [node_step handle_msg] in *. unfold handle_append_response in *.
  replace (term n >? term n) with false in * by lia. rewrite R in *. cbn [role_eqb negb] in *.
  replace (term n <? term n) with false in * by lia. cbn [fst snd] in *.
  set (n1 := set_match_index (set_next_index n (aset j (mi + 1) (next_index n))) (aset j mi (match_index n))) in *.
  assert (F : log n1 = log n /\ commit n1 = commit n /\ term n1 = term n /\ match_index n1 = aset j mi (match_index n) /\
              next_index n1 = aset j (mi + 1) (next_index n) /\ applied n1 = applied n /\
              quorum n1 = quorum n /\ role n1 = Leader /\ apply_inv n1) by (destruct n; cbn in *; repeat split; auto; apply AI).
  destruct F as (F1 & F2 & F3 & F4 & F5 & F6 & F7 & F8 & F9).
  unfold try_advance_commit in *.
  set (k := Z.to_nat (last_index (log n1) - commit n1)) in *. set (h0 := last_index (log n1)) in *.
  destruct (try_commit_fields k n1 h0) as (L & Rr & Tt). destruct (try_commit_mono k n1 h0 F9) as [Mono AIc].
  assert (AP1 : ap_ok n1) by (apply (ap_ok_same n n1 AP F6); [lia|congruence]).
  assert (APc : ap_ok (try_commit n1 h0 k)).
  { clear -AP1 F9. revert AP1 F9. generalize n1 h0. induction k as [|k IH]; intros m h AP1 F9; cbn [try_commit]; auto.
    destruct (log_get (log m) h); auto. destruct (negb _); auto. destruct (_ >=? _); auto.
    destruct F9 as (A0 & A1 & _). apply commit_to_ap; auto. }
  assert (X : next_index (try_commit n1 h0 k) = next_index n1 /\ match_index (try_commit n1 h0 k) = match_index n1).
  { clear. generalize n1 h0. induction k as [|k IH]; intros m h; cbn [try_commit]; auto.
    destruct (log_get (log m) h); auto. destruct (negb _); auto. destruct (_ >=? _); auto.
    destruct (commit_to_rest m h) as (Q1 & Q2 & _). auto. }
  destruct X as [X1 X2].
  split; [reflexivity|]. split; [congruence|]. split; [congruence|]. split; [congruence|].
  split; [exact Vn|]. split; [exact Vp|]. split; [congruence|]. split; [congruence|].
  split; [lia|]. split; [exact AIc|]. split; [exact APc|].
  intros hi e G T Q. destruct (Z_lt_le_dec (commit n1) hi) as [Hlt|Hge]; [|lia].
  assert (Hhi : 1 <= hi /\ hi <= zlen (log n)) by (unfold log_get in G; destruct ((hi <? 1) || (hi >? zlen (log n))) eqn:Eb; [discriminate|lia]).
  apply (try_commit_ge k n1 h0 hi e F9); [rewrite F1; exact G|congruence|rewrite F4, F7; exact Q|exact Hlt| |].
  - unfold h0, last_index. rewrite F1. lia.
  - unfold k, h0, last_index. rewrite F1. destruct AI as (A0 & A1 & _). lia.
Qed.

Lemma follower_accept_exact f L T LGL (p : nat) plt lc :
  zmem L (peers f) = true -> term f <= T -> log f = firstn p LGL -> (p <= length LGL)%nat ->
  ((0 < p)%nat -> exists e, nth_error LGL (p - 1) = Some e /\ fst e = plt) ->
  apply_inv f -> ap_ok f -> 0 <= lc -> lc <= zlen LGL ->
  let r := node_step f (IMsg L (AppendEntries T L (Z.of_nat p) plt (with_index (Z.of_nat p) (skipn p LGL)) lc)) in
  snd r = [OElectionTimer; OSend L (AppendResponse T true (nid f) (zlen LGL))] /\ log (fst r) = LGL /\
  commit (fst r) = Z.max (commit f) lc /\ term (fst r) = T /\ apply_inv (fst r) /\ ap_ok (fst r) /\
  nid (fst r) = nid f /\ peers (fst r) = peers f.
Proof.
  intros Hpeer Hterm Hlog Hp Hprev AI AP Hlc0 Hlc. cbv zeta.
  set (m := AppendEntries T L (Z.of_nat p) plt (with_index (Z.of_nat p) (skipn p LGL)) lc).
  pose proof (node_step_inv f (IMsg L m) AI) as AI'.
  pose proof (node_step_spec f (IMsg L m)) as ((Vn & Vp & _) & _).
  assert (Hfl : length (log f) = p) by (rewrite Hlog, firstn_length; lia).
  set (c := Z.to_nat (commit f)).
  assert (Hc : (c <= p)%nat) by (destruct AI as (A0 & A1 & _); unfold c, zlen in *; lia).
  assert (Hprev' : (0 < p)%nat -> exists e, nth_error (log f) (p - 1) = Some e /\ fst e = plt).
  { intros Hpos. destruct (Hprev Hpos) as (e & He & Hf). exists e. split; [|exact Hf].
    rewrite Hlog, (nth_error_firstn_lt LGL p (p - 1)) by lia. exact He. }
  pose proof (hae_accept f L T L p plt (skipn p LGL) lc LGL c Hpeer Hterm Hprev' AI AP) as HA.
  cbv zeta in HA. unfold m in *. cbn [node_step handle_msg] in *.
  destruct HA as (H1 & H2 & H3 & H4 & _ & _ & _ & _ & H9).
  - destruct AI as (A0 & _). unfold c. lia.
  - rewrite Hlog, firstn_firstn. f_equal. lia.
  - lia.
  - rewrite firstn_all. reflexivity.
  - exact Hlc0.
  - rewrite skipn_length. unfold zlen in Hlc. lia.
  - split.
    + rewrite H4. do 4 f_equal. unfold zlen. rewrite skipn_length. lia.
    + split; [|split; [exact H2|split; [exact H9|split; [exact AI'|split; [exact H3|split; [exact Vn|exact Vp]]]]]].
      rewrite H1, Hlog. pose proof (alogs_append (skipn p LGL) (firstn p LGL)) as X.
      rewrite firstn_length in X. replace (Nat.min p (length LGL)) with p in X by lia. rewrite X. apply firstn_skipn.
Qed.

Lemma sends_of_aes L n ps : sends_of L (map (append_entries_for n) ps ++ [OHeartbeatTimer]) =
  map (fun p => match append_entries_for n p with OSend d m => (d, L, m) | _ => (p, L, RequestVote 0 0 0 0) end) ps.
Proof. induction ps as [|p ps IH]; cbn; [reflexivity|]. rewrite IH. reflexivity. Qed.

(* ------------------------------------------------------------------ *)
(** * One heartbeat round on a fault-free network *)
Record rstate (w : net) (L T : Z) (LGL FL : list entry) (cF nx : Z) : Prop := {
  R_nodup : NoDup (ids w);
  R_L : In L (ids w);
  R_id : forall i, nid (nodes w i) = i /\ peers (nodes w i) = filter (fun p => negb (Z.eqb p i)) (ids w);
  R_two : peers (nodes w L) <> [];
  R_bag : bag w = [];
  R_lead : role (nodes w L) = Leader /\ term (nodes w L) = T /\ log (nodes w L) = LGL /\ apply_inv (nodes w L) /\ ap_ok (nodes w L);
  R_next : forall j, In j (peers (nodes w L)) -> aget j 1 (next_index (nodes w L)) = nx;
  R_match : NoDup (map fst (match_index (nodes w L))) /\ forall k v, afind k (match_index (nodes w L)) = Some v -> v <= zlen LGL;
  R_foll : forall j, In j (ids w) -> j <> L -> log (nodes w j) = FL /\ term (nodes w j) = T /\ commit (nodes w j) = cF /\
                                               apply_inv (nodes w j) /\ ap_ok (nodes w j);
}.

(** The leader's state after the replies of [fs] (each reporting [mi]). *)
Lemma leader_fold T mi : forall fs n,
  role n = Leader -> term n = T -> apply_inv n -> ap_ok n ->
  let n' := fold_left (fun a x => fst (node_step a (IMsg x (AppendResponse T true x mi)))) fs n in
  role n' = Leader /\ term n' = T /\ apply_inv n' /\ ap_ok n' /\ log n' = log n /\ nid n' = nid n /\ peers n' = peers n /\
  commit n <= commit n' /\
  next_index n' = fold_left (fun a x => aset x (mi + 1) a) fs (next_index n) /\
  match_index n' = fold_left (fun a x => aset x mi a) fs (match_index n).
Proof.
  induction fs as [|j fs IH]; intros n R Tn AI AP; cbv zeta; cbn [fold_left]; [split; [exact R|split; [exact Tn|split; [exact AI|split; [exact AP|repeat split; lia]]]]|].
  pose proof (leader_reply_exact n j mi R AI AP) as X. cbv zeta in X. rewrite Tn in X.
  destruct X as (_ & X2 & X3 & X4 & X5 & X6 & X7 & X8 & X9 & X10 & X11 & _).
  destruct (IH _ X4 ltac:(congruence) X10 X11) as (Y1 & Y2 & Y3 & Y4 & Y5 & Y6 & Y7 & Y8 & Y9 & Y10).
  cbv zeta in Y1, Y2, Y3, Y4, Y5, Y6, Y7, Y8, Y9, Y10.
  split; [exact Y1|]. split; [exact Y2|]. split; [exact Y3|]. split; [exact Y4|]. split; [congruence|]. split; [congruence|]. split; [congruence|].
  split; [lia|]. split; [rewrite Y9, X7; reflexivity|rewrite Y10, X8; reflexivity].
Qed.

Lemma fold_aset_get v : forall fs (m : list (Z * Z)) j d,
  aget j d (fold_left (fun a x => aset x v a) fs m) = if in_dec Z.eq_dec j fs then v else aget j d m.
Proof.
  induction fs as [|x fs IH]; intros m j d; cbn [fold_left]; [reflexivity|]. rewrite IH.
  destruct (in_dec Z.eq_dec j fs) as [H|H]; destruct (in_dec Z.eq_dec j (x :: fs)) as [H'|H']; try reflexivity.
  - exfalso. apply H'. right. exact H.
  - destruct H' as [->|H']; [|contradiction]. rewrite aget_aset, Z.eqb_refl. reflexivity.
  - rewrite aget_aset. destruct (j =? x) eqn:E; [exfalso; apply H'; left; lia|reflexivity].
Qed.

Lemma fold_aset_find v : forall fs (m : list (Z * Z)) j,
  afind j (fold_left (fun a x => aset x v a) fs m) = if in_dec Z.eq_dec j fs then Some v else afind j m.
Proof.
  induction fs as [|x fs IH]; intros m j; cbn [fold_left]; [reflexivity|]. rewrite IH.
  destruct (in_dec Z.eq_dec j fs) as [H|H]; destruct (in_dec Z.eq_dec j (x :: fs)) as [H'|H']; try reflexivity.
  - exfalso. apply H'. right. exact H.
  - destruct H' as [->|H']; [|contradiction]. rewrite afind_aset, Z.eqb_refl. reflexivity.
  - rewrite afind_aset. destruct (j =? x) eqn:E; [exfalso; apply H'; left; lia|reflexivity].
Qed.

Lemma fold_aset_nodup v : forall fs (m : list (Z * Z)), NoDup (map fst m) -> NoDup (map fst (fold_left (fun a x => aset x v a) fs m)).
Proof. induction fs as [|x fs IH]; intros m H; cbn [fold_left]; [exact H|]. apply IH, aset_nodup, H. Qed.

Lemma peers_facts w L : NoDup (ids w) -> In L (ids w) ->
  (forall i, nid (nodes w i) = i /\ peers (nodes w i) = filter (fun p => negb (Z.eqb p i)) (ids w)) ->
  NoDup (peers (nodes w L)) /\ (forall j, In j (peers (nodes w L)) <-> In j (ids w) /\ j <> L) /\
  (forall j, In j (ids w) -> j <> L -> zmem L (peers (nodes w j)) = true).
Proof.
  intros ND HL Hid. destruct (Hid L) as [_ ->]. split; [apply NoDup_filter, ND|]. split.
  - intros j. rewrite filter_In. split; intros [A B]; split; auto; [apply negb_true_iff in B; lia|apply negb_true_iff; lia].
  - intros j Hj Hne. destruct (Hid j) as [_ ->]. apply zmem_in, filter_In. split; [exact HL|]. apply negb_true_iff. lia.
Qed.

Theorem heartbeat_round w L T LGL (p : nat) cF :
  rstate w L T LGL (firstn p LGL) cF (Z.of_nat p + 1) -> (p <= length LGL)%nat -> 0 <= cF ->
  (exists e, log_get LGL (zlen LGL) = Some e /\ fst e = T) ->
  let nf := length (peers (nodes w L)) in
  let w' := net_run w ([AHeartbeat L] ++ repeat (ADeliver 0) nf ++ repeat (ADeliver 0) nf) in
  rstate w' L T LGL LGL (Z.max cF (commit (nodes w L))) (zlen LGL + 1) /\ commit (nodes w' L) = zlen LGL.
Proof.
  intros [ND HL Hid Htwo Hbag (RL & TL & LL & AIL & APL) Hnext (MND & Mle) Hfoll] Hp HcF (eL & GeL & TeL). cbv zeta.
  destruct (peers_facts w L ND HL Hid) as (NDF & InF & ZmF).
  set (F := peers (nodes w L)) in *. set (nL := nodes w L) in *.
  destruct (Hid L) as [NidL PeL]. fold nL in NidL, PeL.
  (* --- the heartbeat --- *)
  set (mA := AppendEntries T L (Z.of_nat p) (prev_term_of nL (Z.of_nat p)) (with_index (Z.of_nat p) (skipn p LGL)) (commit nL)).
  assert (Emsg : map (fun q => match append_entries_for nL q with OSend d m => (d, L, m) | _ => (q, L, RequestVote 0 0 0 0) end) F
                 = map (fun j => (j, L, mA)) F).
  { apply map_ext_in. intros j Hj. unfold append_entries_for. rewrite (Hnext j Hj), TL, NidL, LL.
    replace (Z.of_nat p + 1 - 1) with (Z.of_nat p) by lia. unfold mA. do 3 f_equal.
    unfold entries_after. replace (Z.of_nat p <? 0) with false by lia. rewrite Nat2Z.id. reflexivity. }
  assert (ZL : negb (zmem L (ids w)) = false) by (apply negb_false_iff, zmem_in, HL).
  assert (EH : exists w1, net_run w [AHeartbeat L] = w1 /\ ids w1 = ids w /\ bag w1 = map (fun j => (j, L, mA)) F /\ (forall i, nodes w1 i = nodes w i)).
  { eexists. split; [reflexivity|]. unfold net_run. cbn [fold_left net_step]. unfold net_apply. rewrite ZL.
    cbn [node_step]. unfold handle_heartbeat. fold nL. rewrite RL. cbn [role_eqb negb ids bag nodes].
    unfold send_append_entries. fold F. rewrite sends_of_aes, Hbag, Emsg. cbn [app].
    split; [reflexivity|]. split; [reflexivity|]. intros i. destruct (Z.eq_dec i L) as [->|Hn]; [apply upd_same|apply upd_other, Hn]. }
  destruct EH as (w1 & EH & I1 & Bg1 & N1).
  rewrite !net_run_app, EH.
  destruct AIL as (AL0 & AL1 & AL2). fold nL in AL0, AL1, AL2.
  (* --- every follower takes it and answers --- *)
  assert (Hprev : (0 < p)%nat -> exists e, nth_error LGL (p - 1) = Some e /\ fst e = prev_term_of nL (Z.of_nat p)).
  { intros Hpos. unfold prev_term_of. replace (Z.of_nat p >? 0) with true by lia. rewrite LL.
    replace (Z.of_nat p) with (Z.of_nat (p - 1) + 1) by lia. rewrite log_get_nat.
    destruct (nth_error LGL (p - 1)) as [e|] eqn:E; [exists e; split; reflexivity|]. apply nth_error_None in E. lia. }
  assert (FollStep : forall j, In j F ->
            let r := node_step (nodes w j) (IMsg L mA) in
            snd r = [OElectionTimer; OSend L (AppendResponse T true j (zlen LGL))] /\ log (fst r) = LGL /\
            commit (fst r) = Z.max cF (commit nL) /\ term (fst r) = T /\ apply_inv (fst r) /\ ap_ok (fst r) /\
            nid (fst r) = j /\ peers (fst r) = peers (nodes w j)).
  { intros j Hj. apply InF in Hj as [Hj Hne]. destruct (Hfoll j Hj Hne) as (F1 & F2 & F3 & F4 & F5).
    destruct (Hid j) as [Nj _].
    pose proof (follower_accept_exact (nodes w j) L T LGL p (prev_term_of nL (Z.of_nat p)) (commit nL)
                  (ZmF j Hj Hne) ltac:(lia) F1 Hp Hprev F4 F5 AL0 ltac:(rewrite <- LL; exact AL1)) as X.
    cbv zeta in X. fold mA in X. rewrite Nj, F3 in X. exact X. }
  destruct (deliver_to_followers L mA (fun j => AppendResponse T true j (zlen LGL)) F w1 []) as (B1 & B2 & B3 & B4).
  { rewrite Bg1, app_nil_r. reflexivity. }
  { exact NDF. }
  { intros j Hj. rewrite I1. apply InF, Hj. }
  { intros j Hj. rewrite N1. apply (FollStep j Hj). }
  cbv zeta in B1, B2, B3, B4. fold (length F). set (w2 := net_run w1 (repeat (ADeliver 0) (length F))) in *.
  cbn [app] in B2.
  assert (NL2 : nodes w2 L = nL) by (rewrite B4; [apply N1|intros X; apply InF in X; destruct X; congruence]).
  (* --- the leader takes the replies --- *)
  assert (HL2 : In L (ids w2)) by (rewrite B1, I1; exact HL).
  pose proof (leader_fold T (zlen LGL)) as LF.
  destruct (deliver_to_leader L (fun j => AppendResponse T true j (zlen LGL)) F w2 B2 HL2) as (C1 & C2 & C3 & C4).
  { intros pre j. rewrite NL2.
    destruct (LF pre nL RL TL (conj AL0 (conj AL1 AL2)) APL) as (Y1 & Y2 & Y3 & Y4 & _). cbv zeta in Y1, Y2, Y3, Y4.
    pose proof (leader_reply_exact _ j (zlen LGL) Y1 Y3 Y4) as X. cbv zeta in X. rewrite Y2 in X. apply X. }
  cbv zeta in C1, C2, C3, C4. set (w3 := net_run w2 (repeat (ADeliver 0) (length F))) in *.
  rewrite NL2 in C3.
  destruct (LF F nL RL TL (conj AL0 (conj AL1 AL2)) APL) as (Y1 & Y2 & Y3 & Y4 & Y5 & Y6 & Y7 & Y8 & Y9 & Y10).
  cbv zeta in Y1, Y2, Y3, Y4, Y5, Y6, Y7, Y8, Y9, Y10. rewrite <- C3 in Y1, Y2, Y3, Y4, Y5, Y6, Y7, Y8, Y9, Y10.
  (* the last reply completes the quorum *)
  assert (Hcommit : commit (nodes w3 L) = zlen LGL).
  { destruct Y3 as (Z0 & Z1 & _). rewrite Y5, LL in Z1. apply Z.le_antisymm; [exact Z1|].
    destruct (exists_last Htwo) as (F0 & jl & EF). fold F in EF.
    rewrite C3, EF, fold_left_app. cbn [fold_left].
    destruct (LF F0 nL RL TL (conj AL0 (conj AL1 AL2)) APL) as (V1 & V2 & V3 & V4 & V5 & _ & V7 & _ & _ & V10).
    cbv zeta in V1, V2, V3, V4, V5, V7, V10. set (n0 := fold_left _ F0 nL) in *.
    pose proof (leader_reply_exact n0 jl (zlen LGL) V1 V3 V4) as X. cbv zeta in X. rewrite V2 in X.
    destruct X as (_ & _ & _ & _ & _ & _ & _ & _ & _ & _ & _ & X). apply (X (zlen LGL) eL).
    - rewrite V5, LL. exact GeL.
    - congruence.
    - assert (Em : aset jl (zlen LGL) (match_index n0) = fold_left (fun a x => aset x (zlen LGL) a) F (match_index nL))
        by (rewrite V10, EF, fold_left_app; reflexivity).
      rewrite Em.
      pose proof (count_ge_lb (zlen LGL) (fold_left (fun a x => aset x (zlen LGL) a) F (match_index nL)) F
                    (fold_aset_nodup _ F _ MND) NDF) as CB.
      assert (zlen F <= count_ge (zlen LGL) (fold_left (fun a x => aset x (zlen LGL) a) F (match_index nL))).
      { apply CB. intros j Hj. exists (zlen LGL). split; [|lia]. rewrite fold_aset_find. destruct (in_dec Z.eq_dec j F); [reflexivity|contradiction]. }
      unfold quorum. rewrite V7. change (peers nL) with F.
      assert (1 <= zlen F) by (unfold zlen; destruct F; [contradiction|cbn [length]; lia]). lia. }
  split; [|exact Hcommit].
  assert (I3 : ids w3 = ids w) by (rewrite C1, B1, I1; reflexivity).
  assert (NF3 : forall j, j <> L -> nodes w3 j = nodes w2 j) by exact C4.
  constructor.
  - rewrite I3. exact ND.
  - rewrite I3. exact HL.
  - intros i. rewrite I3. destruct (Z.eq_dec i L) as [->|Hn].
    + rewrite Y6, Y7. split; [exact NidL|exact PeL].
    + rewrite (NF3 i Hn). destruct (in_dec Z.eq_dec i F) as [Hi|Hi].
      * rewrite (B3 i Hi), N1. destruct (FollStep i Hi) as (_ & _ & _ & _ & _ & _ & Q7 & Q8). cbv zeta in Q7, Q8. rewrite Q7, Q8. split; [reflexivity|apply Hid].
      * rewrite (B4 i Hi), N1. apply Hid.
  - rewrite Y7. fold F. exact Htwo.
  - exact C2.
  - split; [exact Y1|]. split; [exact Y2|]. split; [congruence|]. split; [exact Y3|exact Y4].
  - intros j Hj. rewrite Y7 in Hj. fold F in Hj. rewrite Y9, fold_aset_get. destruct (in_dec Z.eq_dec j F); [reflexivity|contradiction].
  - rewrite Y10. split; [apply fold_aset_nodup, MND|]. intros k v Hv. rewrite fold_aset_find in Hv.
    destruct (in_dec Z.eq_dec k F); [inversion Hv; lia|apply (Mle k v Hv)].
  - intros j Hj Hne. rewrite I3 in Hj. rewrite (NF3 j Hne). assert (Hi : In j F) by (apply InF; auto).
    rewrite (B3 j Hi), N1. destruct (FollStep j Hi) as (_ & Q2 & Q3 & Q4 & Q5 & Q6 & _). cbv zeta in Q2, Q3, Q4, Q5, Q6. auto.
Qed.

(* ------------------------------------------------------------------ *)
(** * The in-sync cluster: one command, then any list of commands *)
Definition insync (w : net) (L T : Z) (LG : list entry) : Prop :=
  rstate w L T LG LG (zlen LG) (zlen LG + 1) /\ commit (nodes w L) = zlen LG.

Definition cycle (L c : Z) (nf : nat) : list action :=
  [ASubmit L c] ++ ([AHeartbeat L] ++ repeat (ADeliver 0) nf ++ repeat (ADeliver 0) nf)
                ++ ([AHeartbeat L] ++ repeat (ADeliver 0) nf ++ repeat (ADeliver 0) nf).

Lemma rstate_nf w L T A B c n : rstate w L T A B c n -> length (peers (nodes w L)) = length (filter (fun p => negb (Z.eqb p L)) (ids w)).
Proof. intros R. destruct (R_id _ _ _ _ _ _ _ R L) as [_ ->]. reflexivity. Qed.

Lemma submit_leader_exact n c : role n = Leader -> apply_inv n ->
  log (submit n c) = log n ++ [(term n, c)] /\ commit (submit n c) = commit n /\ term (submit n c) = term n /\ role (submit n c) = Leader /\
  next_index (submit n c) = next_index n /\ match_index (submit n c) = match_index n /\
  nid (submit n c) = nid n /\ peers (submit n c) = peers n /\ applied (submit n c) = applied n /\ apply_inv (submit n c).
Proof.
  intros R AI. pose proof (submit_inv n c AI) as SI. unfold submit in *. destruct n; cbn in *. subst. cbn in *. repeat split; auto; apply SI.
Qed.

Theorem one_command w L T LG c : insync w L T LG ->
  let nf := length (peers (nodes w L)) in
  insync (net_run w (cycle L c nf)) L T (LG ++ [(T, c)]).
Proof.
  intros [R Hc]. cbv zeta. set (nf := length (peers (nodes w L))). set (LG' := LG ++ [(T, c)]).
  pose proof R as [ND HL Hid Htwo Hbag (RL & TL & LL & AIL & APL) Hnext (MND & Mle) Hfoll].
  unfold cycle. rewrite net_run_app, net_run_app.
  (* --- submit --- *)
  assert (ZL : negb (zmem L (ids w)) = false) by (apply negb_false_iff, zmem_in, HL).
  set (nL := nodes w L) in *.
  assert (SB : exists w1, net_run w [ASubmit L c] = w1 /\ ids w1 = ids w /\ bag w1 = [] /\ (forall i, i <> L -> nodes w1 i = nodes w i) /\
                 log (nodes w1 L) = LG' /\ commit (nodes w1 L) = commit nL /\ term (nodes w1 L) = T /\ role (nodes w1 L) = Leader /\
                 next_index (nodes w1 L) = next_index nL /\ match_index (nodes w1 L) = match_index nL /\
                 nid (nodes w1 L) = nid nL /\ peers (nodes w1 L) = peers nL /\ applied (nodes w1 L) = applied nL /\ apply_inv (nodes w1 L)).
  { eexists. split; [reflexivity|]. unfold net_run. cbn [fold_left net_step]. unfold net_apply. rewrite ZL. cbn [node_step sends_of ids bag nodes].
    rewrite Hbag. split; [reflexivity|]. split; [reflexivity|]. split; [intros i Hi; apply upd_other, Hi|]. rewrite upd_same. fold nL.
    destruct (submit_leader_exact nL c RL AIL) as (Q1 & Q2 & Q3 & Q4 & Q5 & Q6 & Q7 & Q8 & Q9 & Q10).
    split; [rewrite Q1, LL, TL; reflexivity|]. split; [exact Q2|]. split; [rewrite Q3; exact TL|]. split; [exact Q4|].
    split; [exact Q5|]. split; [exact Q6|]. split; [exact Q7|]. split; [exact Q8|]. split; [exact Q9|exact Q10]. }
  destruct SB as (w1 & E1 & I1 & B1 & N1 & L1 & C1 & T1 & R1 & X1 & M1 & D1 & P1 & A1 & AI1).
  rewrite E1.
  assert (Hlast : exists e, log_get LG' (zlen LG') = Some e /\ fst e = T).
  { exists (T, c). split; [|reflexivity]. unfold LG', zlen. rewrite app_length. cbn [length].
    replace (Z.of_nat (length LG + 1)) with (Z.of_nat (length LG) + 1) by lia. rewrite log_get_nat. apply nth_error_app_last. }
  assert (RS1 : rstate w1 L T LG' (firstn (length LG) LG') (zlen LG) (Z.of_nat (length LG) + 1)).
  { constructor.
    - rewrite I1. exact ND.
    - rewrite I1. exact HL.
    - intros i. rewrite I1. destruct (Z.eq_dec i L) as [->|Hn]; [rewrite D1, P1; apply Hid|rewrite (N1 i Hn); apply Hid].
    - rewrite P1. exact Htwo.
    - exact B1.
    - split; [exact R1|]. split; [exact T1|]. split; [exact L1|]. split; [exact AI1|].
      apply (ap_ok_same nL (nodes w1 L) APL A1); [lia|]. rewrite L1. unfold LG'. rewrite LL. apply firstn_app_le.
      destruct AIL as (_ & Q & _). fold nL in Q. rewrite LL in Q. unfold zlen in Q. lia.
    - intros j Hj. rewrite P1 in Hj. rewrite X1. unfold zlen in Hnext. apply (Hnext j Hj).
    - rewrite M1. split; [exact MND|]. intros k v Hv. specialize (Mle k v Hv). unfold LG', zlen in *. rewrite app_length. lia.
    - intros j Hj Hne. rewrite I1 in Hj. rewrite (N1 j Hne). unfold LG'. rewrite firstn_app_le, firstn_all by lia. apply (Hfoll j Hj Hne). }
  assert (Enf1 : nf = length (peers (nodes w1 L))) by (unfold nf; fold nL; congruence).
  (* --- first round: replicate, the leader commits --- *)
  rewrite Enf1.
  destruct (heartbeat_round w1 L T LG' (length LG) (zlen LG) RS1) as [RS2 C2].
  { unfold LG'. rewrite app_length. lia. }
  { unfold zlen. lia. }
  { exact Hlast. }
  cbv zeta in RS2, C2.
  set (w2 := net_run w1 ([AHeartbeat L] ++ repeat (ADeliver 0) (length (peers (nodes w1 L))) ++ repeat (ADeliver 0) (length (peers (nodes w1 L))))) in *.
  rewrite C1, Hc, Z.max_id in RS2.
  assert (Enf2 : length (peers (nodes w1 L)) = length (peers (nodes w2 L))).
  { rewrite (rstate_nf _ _ _ _ _ _ _ RS1), (rstate_nf _ _ _ _ _ _ _ RS2).
    assert (ids w2 = ids w1); [|congruence]. unfold w2.
    clear. generalize ([AHeartbeat L] ++ repeat (ADeliver 0) (length (peers (nodes w1 L))) ++ repeat (ADeliver 0) (length (peers (nodes w1 L)))). intros l. apply net_run_ids. }
  (* --- second round: the followers learn the commit index --- *)
  rewrite Enf2.
  assert (RS2' : rstate w2 L T LG' (firstn (length LG') LG') (zlen LG) (Z.of_nat (length LG') + 1)) by (rewrite firstn_all; exact RS2).
  destruct (heartbeat_round w2 L T LG' (length LG') (zlen LG) RS2') as [RS3 C3].
  { lia. }
  { unfold zlen. lia. }
  { exact Hlast. }
  cbv zeta in RS3, C3. rewrite C2 in RS3.
  replace (Z.max (zlen LG) (zlen LG')) with (zlen LG') in RS3 by (unfold LG', zlen; rewrite app_length; lia).
  split; [exact RS3|exact C3].
Qed.

Fixpoint run_commands (L : Z) (nf : nat) (cs : list Z) : list action :=
  match cs with [] => [] | c :: r => cycle L c nf ++ run_commands L nf r end.

Lemma insync_nf w L T LG c : insync w L T LG ->
  length (peers (nodes (net_run w (cycle L c (length (peers (nodes w L))))) L)) = length (peers (nodes w L)).
Proof.
  intros I. pose proof (one_command w L T LG c I) as [R' _]. cbv zeta in R'. destruct I as [R _].
  rewrite (rstate_nf _ _ _ _ _ _ _ R'). rewrite net_run_ids. symmetry. apply (rstate_nf _ _ _ _ _ _ _ R).
Qed.

(** Every command submitted to the established leader of an in-sync cluster is
    replicated and committed, in submission order, at every node. *)
Theorem all_commands cs : forall w L T LG, insync w L T LG ->
  insync (net_run w (run_commands L (length (peers (nodes w L))) cs)) L T (LG ++ map (fun c => (T, c)) cs).
Proof.
  induction cs as [|c cs IH]; intros w L T LG I; cbn [run_commands map].
  - rewrite app_nil_r. exact I.
  - rewrite net_run_app. pose proof (one_command w L T LG c I) as I1. cbv zeta in I1.
    pose proof (insync_nf w L T LG c I) as En.
    set (w1 := net_run w (cycle L c (length (peers (nodes w L))))) in *.
    replace (run_commands L (length (peers (nodes w L))) cs) with (run_commands L (length (peers (nodes w1 L))) cs) by (rewrite En; reflexivity).
    replace (LG ++ (T, c) :: map (fun c0 => (T, c0)) cs) with ((LG ++ [(T, c)]) ++ map (fun c0 => (T, c0)) cs)
      by (rewrite <- app_assoc; reflexivity).
    apply IH, I1.
Qed.

(** ... and applied: a node whose commit index is the end of its log has
    applied exactly the log's commands, in log order. *)
Lemma zseq_nth a : forall k i, (i < k)%nat -> nth_error (zseq a k) i = Some (a + Z.of_nat i).
Proof.
  intros k; revert a; induction k as [|k IH]; intros a i H; [lia|]. destruct i; cbn [zseq nth_error]; [f_equal; lia|].
  rewrite IH by lia. f_equal. lia.
Qed.

Lemma applied_is_log n : apply_inv n -> ap_ok n -> commit n = zlen (log n) -> map snd (applied n) = map snd (log n).
Proof.
  intros (A0 & A1 & A2 & (B1 & B2 & _)) AP Hc.
  assert (Hlen : length (applied n) = length (log n)).
  { assert (zlen (applied n) <= commit n).
    { destruct (Nat.eq_dec (length (applied n)) 0) as [E0|E0]; [unfold zlen; lia|].
      assert (Hne : applied n <> []) by (intros X; rewrite X in E0; apply E0; reflexivity).
      destruct (exists_last Hne) as (r & x & E).
      assert (Hin : In x (applied n)) by (rewrite E; apply in_or_app; right; left; reflexivity).
      destruct x as [idx cmd]. destruct (AP idx cmd Hin) as (_ & Q & _).
      assert (idx = zlen (applied n)).
      { assert (N : nth_error (map fst (applied n)) (length r) = Some idx) by (rewrite E, map_app, nth_error_app2; rewrite map_length; [rewrite Nat.sub_diag; reflexivity|lia]).
        assert (Hl : length (applied n) = S (length r)) by (rewrite E, app_length; cbn [length]; lia).
        rewrite B2 in N. rewrite zseq_nth in N by lia. assert (idx = 1 + Z.of_nat (length r)) by congruence. unfold zlen. lia. }
      lia. }
    unfold zlen in *. lia. }
  apply (nth_ext _ _ 0 0); [rewrite !map_length; exact Hlen|]. intros i Hi. rewrite map_length in Hi.
  destruct (nth_error (applied n) i) as [[idx cmd]|] eqn:E; [|apply nth_error_None in E; lia].
  assert (Hidx : idx = 1 + Z.of_nat i).
  { assert (N : nth_error (map fst (applied n)) i = Some idx) by (rewrite nth_error_map, E; reflexivity).
    rewrite B2 in N. rewrite zseq_nth in N by exact Hi. congruence. }
  destruct (AP idx cmd (nth_error_In _ _ E)) as (_ & _ & t & Q). rewrite Hidx in Q. replace (Z.to_nat (1 + Z.of_nat i - 1)) with i in Q by lia.
  rewrite (nth_indep _ 0 (snd (idx, cmd))) by (rewrite map_length; exact Hi).
  assert (Hi2 : (i < length (map snd (log n)))%nat) by (rewrite map_length; unfold entry in *; lia).
  rewrite (nth_indep (map snd (log n)) 0 (snd (t, cmd)) Hi2).
  rewrite !map_nth. rewrite (nth_error_nth _ _ _ E), (nth_error_nth _ _ _ Q). reflexivity.
Qed.

Corollary all_commands_applied cs w L T LG : insync w L T LG ->
  let w' := net_run w (run_commands L (length (peers (nodes w L))) cs) in
  forall i, In i (ids w') -> map snd (applied (nodes w' i)) = map snd LG ++ cs.
Proof.
  intros I. cbv zeta. pose proof (all_commands cs w L T LG I) as [R C]. intros i Hi.
  assert (E : map snd (LG ++ map (fun c => (T, c)) cs) = map snd LG ++ cs).
  { rewrite map_app, map_map. cbn. rewrite map_id. reflexivity. }
  rewrite <- E.
  destruct (Z.eq_dec i L) as [->|Hn].
  - destruct (R_lead _ _ _ _ _ _ _ R) as (_ & _ & LL & AI & AP). rewrite <- LL. apply applied_is_log; auto. rewrite LL. exact C.
  - destruct (R_foll _ _ _ _ _ _ _ R i Hi Hn) as (LL & _ & CC & AI & AP). rewrite <- LL. apply applied_is_log; auto. rewrite LL. exact CC.
Qed.

Example insync_satisfiable :
  let w := net_run (net_init [0; 1; 2])
             [ATimeout 0; ADeliver 0%nat; ADeliver 0%nat; ADeliver 0%nat; ADeliver 0%nat; ADeliver 0%nat; ADeliver 0%nat;
              ADeliver 0%nat; ADeliver 0%nat] in
  bag w = [] /\ role (nodes w 0) = Leader /\ term (nodes w 1) = 1 /\ term (nodes w 2) = 1 /\
  let w' := net_run w (run_commands 0 2 [7; 8]) in
  map (fun i => map snd (applied (nodes w' i))) [0; 1; 2] = [[7; 8]; [7; 8]; [7; 8]].
Proof. vm_compute. repeat split. Qed.

(** The hypothesis is satisfiable by a REACHABLE state: a three-node cluster right after its first election. *)
Example insync_reachable :
  let w := net_run (net_init [0; 1; 2])
             [ATimeout 0; ADeliver 0%nat; ADeliver 0%nat; ADeliver 0%nat; ADeliver 0%nat; ADeliver 0%nat; ADeliver 0%nat;
              ADeliver 0%nat; ADeliver 0%nat] in
  insync w 0 1 [].
Proof.
  cbv zeta. set (acts := [ATimeout 0; _; _; _; _; _; _; _; _]).
  assert (ND : NoDup [0; 1; 2]) by (repeat constructor; cbn; intuition lia).
  pose proof (net_run_inv acts (net_init [0; 1; 2]) (net_init_inv _ ND)) as W.
  assert (AIn : forall i, apply_inv (nodes (net_run (net_init [0; 1; 2]) acts) i) /\ ap_ok (nodes (net_run (net_init [0; 1; 2]) acts) i)).
  { intros i. destruct (C11.Completeness.c_run acts (net_init [0; 1; 2]) C11.Ghost.G0 (C11.Completeness.c_init _ ND)) as [K _].
    rewrite C11.Ghost.crun_fst in K. apply (C11.Ghost.K_ap _ _ K i). }
  set (w := net_run (net_init [0; 1; 2]) acts) in *.
  assert (Iw : ids w = [0; 1; 2]) by (unfold w; rewrite net_run_ids; reflexivity).
  split; [|vm_compute; reflexivity]. constructor.
  - rewrite Iw. exact ND.
  - rewrite Iw. left. reflexivity.
  - intros i. apply (I_id w W i).
  - vm_compute. discriminate.
  - vm_compute. reflexivity.
  - split; [vm_compute; reflexivity|]. split; [vm_compute; reflexivity|]. split; [vm_compute; reflexivity|]. apply AIn.
  - intros j Hj. vm_compute in Hj. destruct Hj as [<-|[<-|[]]]; vm_compute; reflexivity.
  - split; [vm_compute; repeat constructor; cbn; intuition lia|]. intros k v.
    assert (E : match_index (nodes w 0) = [(1, 0); (2, 0)]) by (vm_compute; reflexivity).
    rewrite E. cbn [afind]. destruct (k =? 1); [intros H; inversion H; subst; unfold zlen; cbn; lia|].
    destruct (k =? 2); [intros H; inversion H; subst; unfold zlen; cbn; lia|discriminate].
  - intros j Hj Hne. rewrite Iw in Hj. destruct (AIn j) as [A B].
    destruct Hj as [<-|[<-|[<-|[]]]]; [congruence| |]; (split; [vm_compute; reflexivity|split; [vm_compute; reflexivity|split; [vm_compute; reflexivity|split; assumption]]]).
Qed.
