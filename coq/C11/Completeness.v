(** C11 — leader completeness and state-machine safety of the cluster model,
    for every cluster (duplicate-free id list) and every schedule. *)
From HS Require Import Base.Prelude C11.Model C11.NodeProofs C11.Election C11.LogProofs C11.LogMatching C11.Steps
  C11.Ghost C11.LC C11.Stab C11.Step C11.Step2.
Local Open Scope Z_scope.

Lemma c_sub w G b : cinv w G -> (forall x, In x b -> In x (bag w)) ->
  cinv (mkNet (ids w) (nodes w) b (cast w) (led w)) G.
Proof.
  intros [A1 A2 A3 A4 A5 A6 A7 A8 A9 A10 A11 A12 A13 A14 A15 A16 A17 A18] Hb.
  constructor; cbn [ids nodes bag cast led]; auto.
  - apply lm_sub; assumption.
  - intros d s m H. apply (A17 d s m), Hb, H.
Qed.

Lemma c_step w G a : cinv w G -> cinv (net_step w a) (cstep w G a) /\ gmono w (net_step w a) G (cstep w G a).
Proof.
  intros K. destruct a as [k|k|i|i|i c]; cbn [net_step cstep].
  - destruct (nth_error (bag w) k) as [[[d s] m]|] eqn:E; [|split; [exact K|apply gmono_refl]].
    apply nth_error_In in E.
    set (w0 := mkNet (ids w) (nodes w) (remove_nth k (bag w)) (cast w) (led w)).
    assert (K0 : cinv w0 G) by (apply c_sub; [exact K|intros x; apply remove_nth_incl]).
    pose proof (K_lm w G K) as M.
    destruct (c_apply w0 G d (IMsg s m) K0) as [C X].
    + unfold input_ok. cbn [cast w0]. destruct m; auto.
      * eapply (I_m0 w (M_net w _ M)); eauto.
      * destruct granted; auto. eapply (I_m1 w (M_net w _ M)); eauto.
    + intros s0 t lead pli plt ents lc Hm. inversion Hm; subst. cbn [led w0].
      destruct (M_msgs w _ M _ _ _ _ _ _ _ _ E) as (A & B & C). auto.
    + intros s0 m0 Hm. inversion Hm; subst. apply (K_msgs w G K _ _ _ E).
    + split; [exact C|]. destruct X as [X1 X2 X3 X4 X5 X6]. constructor; auto.
  - split; [apply c_sub; [exact K|intros x; apply remove_nth_incl]|]. constructor; cbn [ids led]; auto.
    + intros t. exists []. rewrite app_nil_r. reflexivity.
    + intros t x _. exists []. rewrite app_nil_r. split; [reflexivity|intros e []].
  - apply c_apply; [exact K|exact I|intros; discriminate|intros; discriminate].
  - apply c_apply; [exact K|exact I|intros; discriminate|intros; discriminate].
  - apply c_apply; [exact K|exact I|intros; discriminate|intros; discriminate].
Qed.

Lemma c_init l : NoDup l -> cinv (net_init l) G0.
Proof.
  intros ND. constructor; cbn [gg gacc gV gel G0 net_init ids nodes bag cast led init_node term role log voted votes match_index next_index commit peers].
  - apply lm_init, ND.
  - intros i. split; [apply init_node_inv|]. intros idx cmd [].
  - intros i. split; [lia|]. intros H. contradiction.
  - intros i e [].
  - intros t e [].
  - intros t. exists []. split; [reflexivity|]. split; intros e [].
  - intros a t m m' [].
  - intros a t m [].
  - intros a T m [].
  - intros v t c L [].
  - intros i c _ H. discriminate.
  - intros i _ H. contradiction.
  - intros t a [].
  - intros i. split; [constructor|intros k []].
  - intros i _ H. discriminate.
  - intros i _ H. discriminate.
  - intros d s m [].
  - intros i _. left. reflexivity.
Qed.

Lemma gmono_trans w1 w2 w3 G1 G2 G3 : gmono w1 w2 G1 G2 -> gmono w2 w3 G2 G3 -> gmono w1 w3 G1 G3.
Proof.
  intros [A1 A2 A3 A4 A5 A6] [B1 B2 B3 B4 B5 B6]. constructor; auto.
  - congruence.
  - intros t. destruct (A4 t) as (s1 & E1). destruct (B4 t) as (s2 & E2). exists (s1 ++ s2). rewrite E2, E1, app_assoc. reflexivity.
  - intros t x H. destruct (A5 t x H) as (s1 & E1 & H1). destruct (B5 t x (A2 _ H)) as (s2 & E2 & H2).
    exists (s1 ++ s2). rewrite E2, E1, app_assoc. split; [reflexivity|]. intros e He. apply in_app_or in He as [He|He]; auto.
Qed.

Lemma c_run acts : forall w G, cinv w G ->
  cinv (fst (crun w G acts)) (snd (crun w G acts)) /\ gmono w (fst (crun w G acts)) G (snd (crun w G acts)).
Proof.
  induction acts as [|a r IH]; intros w G K; cbn [crun]; [split; [exact K|apply gmono_refl]|].
  destruct (c_step w G a K) as [K1 X1]. destruct (IH _ _ K1) as [K2 X2]. split; [exact K2|eapply gmono_trans; eauto].
Qed.

(* ------------------------------------------------------------------ *)
(** Entries up to a node's commit index come from a committed point of some leader's log. *)
Lemma committed_point w G a i e : cinv w G -> In a (ids w) ->
  i <= commit (nodes w a) -> log_get (log (nodes w a)) i = Some e ->
  exists T m, T <= term (nodes w a) /\ dcommitted w G T m /\ (Z.to_nat i <= m)%nat /\ 1 <= i /\
              nth_error (gg G T) (Z.to_nat (i - 1)) = Some e.
Proof.
  intros K Ha Hi Hg. destruct (log_get_nth _ _ _ Hg) as (H1 & Hn & _).
  destruct (K_ci w G K a Ha) as [E|(T & m & A & B & C & D & E & F)]; [lia|].
  exists T, m. split; [exact A|]. split; [exact B|]. split; [lia|]. split; [exact H1|].
  rewrite <- Hn. symmetry. apply (firstn_nth_eq _ _ (Z.to_nat (commit (nodes w a)))); [lia|exact F].
Qed.

Theorem leader_completeness : leader_completeness_statement.
Proof.
  intros l acts1 acts2 ND w1 w2 a b i e Ha Hb Hi Hg Rb Ht.
  destruct (c_run acts1 (net_init l) G0 (c_init l ND)) as [K1 _]. rewrite crun_fst in K1. fold w1 in K1.
  set (G1 := snd (crun (net_init l) G0 acts1)) in *.
  destruct (c_run acts2 w1 G1 K1) as [K2 X]. rewrite crun_fst in K2, X. fold w2 in K2, X.
  set (G2 := snd (crun w1 G1 acts2)) in *.
  assert (I1 : ids w1 = l) by (unfold w1; rewrite net_run_ids; reflexivity).
  assert (I2 : ids w2 = l) by (unfold w2; rewrite net_run_ids; exact I1).
  destruct (committed_point w1 G1 a i e K1 ltac:(rewrite I1; exact Ha) Hi Hg) as (T & m & A & B & C & D & E).
  destruct (dcommitted_fwd w1 w2 G1 G2 X (K_g1 w1 G1 K1) T m (fun x t k H => proj2 (proj2 (K_acc w1 G1 K1 x t k H))) B) as [B2 Eg].
  pose proof (K_lm w2 G2 K2) as M2.
  assert (Hb2 : In b (ids w2)) by (rewrite I2; exact Hb).
  pose proof (M_lead w2 _ M2 b Hb2 Rb) as Lb. pose proof (M_ledc w2 _ M2 b Hb2 Rb) as Ledb.
  pose proof (LC w2 G2 K2 T m B2 (term (nodes w2 b)) b ltac:(lia) Ledb) as L.
  assert (Hlt : (Z.to_nat (i - 1) < m)%nat) by lia.
  assert (Nb : nth_error (log (nodes w2 b)) (Z.to_nat (i - 1)) = Some e).
  { rewrite Lb. rewrite (firstn_nth_eq _ _ m _ Hlt L). rewrite (firstn_nth_eq _ _ m _ Hlt Eg). exact E. }
  unfold log_get. assert (Z.to_nat (i - 1) < length (log (nodes w2 b)))%nat by (apply nth_error_Some; congruence).
  replace ((i <? 1) || (i >? zlen (log (nodes w2 b)))) with false by (unfold zlen; lia). exact Nb.
Qed.

(** Within one reachable state: a leader whose term is at least a node's term
    holds every entry up to that node's commit index. *)
Theorem leader_has_committed : forall l acts, NoDup l ->
  let w := net_run (net_init l) acts in
  forall a b i e, In a l -> In b l ->
    i <= commit (nodes w a) -> log_get (log (nodes w a)) i = Some e ->
    role (nodes w b) = Leader -> term (nodes w a) <= term (nodes w b) ->
    log_get (log (nodes w b)) i = Some e.
Proof.
  intros l acts ND w a b i e Ha Hb Hi Hg Rb Ht.
  destruct (c_run acts (net_init l) G0 (c_init l ND)) as [K _]. rewrite crun_fst in K. fold w in K.
  set (G := snd (crun (net_init l) G0 acts)) in *.
  assert (I1 : ids w = l) by (unfold w; rewrite net_run_ids; reflexivity).
  destruct (committed_point w G a i e K ltac:(rewrite I1; exact Ha) Hi Hg) as (T & m & A & B & C & D & E).
  pose proof (K_lm w G K) as M.
  assert (Hb2 : In b (ids w)) by (rewrite I1; exact Hb).
  pose proof (M_lead w _ M b Hb2 Rb) as Lb. pose proof (M_ledc w _ M b Hb2 Rb) as Ledb.
  assert (Hlt : (Z.to_nat (i - 1) < m)%nat) by lia.
  assert (Nb : nth_error (log (nodes w b)) (Z.to_nat (i - 1)) = Some e).
  { rewrite Lb. destruct (Z.eq_dec T (term (nodes w b))) as [<-|Ne]; [exact E|].
    rewrite (firstn_nth_eq _ _ m _ Hlt (LC w G K T m B (term (nodes w b)) b ltac:(lia) Ledb)). exact E. }
  unfold log_get. assert (Z.to_nat (i - 1) < length (log (nodes w b)))%nat by (apply nth_error_Some; congruence).
  replace ((i <? 1) || (i >? zlen (log (nodes w b)))) with false by (unfold zlen; lia). exact Nb.
Qed.

(** Two nodes never hold different entries at an index both have committed. *)
Theorem committed_agree : forall l acts, NoDup l ->
  let w := net_run (net_init l) acts in
  forall a b i e e', In a l -> In b l ->
    i <= commit (nodes w a) -> i <= commit (nodes w b) ->
    log_get (log (nodes w a)) i = Some e -> log_get (log (nodes w b)) i = Some e' -> e = e'.
Proof.
  intros l acts ND w a b i e e' Ha Hb Hia Hib Hga Hgb.
  destruct (c_run acts (net_init l) G0 (c_init l ND)) as [K _]. rewrite crun_fst in K. fold w in K.
  set (G := snd (crun (net_init l) G0 acts)) in *.
  assert (I1 : ids w = l) by (unfold w; rewrite net_run_ids; reflexivity).
  destruct (committed_point w G a i e K ltac:(rewrite I1; exact Ha) Hia Hga) as (Ta & ma & A1 & B1 & C1 & D1 & E1).
  destruct (committed_point w G b i e' K ltac:(rewrite I1; exact Hb) Hib Hgb) as (Tb & mb & A2 & B2 & C2 & D2 & E2).
  pose proof (K_lm w G K) as M.
  assert (Led : forall T m, dcommitted w G T m -> exists x, In (T, x) (led w)).
  { intros T m (Hm & (e0 & He0 & _) & _). apply (M_gled w _ M). destruct (gg G T); [destruct (m - 1)%nat; discriminate|discriminate]. }
  assert (Ha' : (Z.to_nat (i - 1) < ma)%nat) by lia. assert (Hb' : (Z.to_nat (i - 1) < mb)%nat) by lia.
  destruct (Z_lt_ge_dec Ta Tb) as [Hlt|Hge].
  - destruct (Led Tb mb B2) as (x & Hx).
    pose proof (LC w G K Ta ma B1 Tb x Hlt Hx) as L. rewrite (firstn_nth_eq _ _ ma _ Ha' L) in E2. congruence.
  - destruct (Z.eq_dec Ta Tb) as [->|Ne]; [congruence|].
    destruct (Led Ta ma B1) as (x & Hx).
    pose proof (LC w G K Tb mb B2 Ta x ltac:(lia) Hx) as L. rewrite (firstn_nth_eq _ _ mb _ Hb' L) in E1. congruence.
Qed.

Theorem state_machine_safety : state_machine_safety_statement.
Proof.
  intros l acts ND w a b i c c' Ha Hb Hia Hib.
  destruct (c_run acts (net_init l) G0 (c_init l ND)) as [K _]. rewrite crun_fst in K. fold w in K.
  destruct (K_ap w _ K a) as [_ APa]. destruct (K_ap w _ K b) as [_ APb].
  destruct (APa _ _ Hia) as (A1 & A2 & ta & A3). destruct (APb _ _ Hib) as (B1 & B2 & tb & B3).
  assert (Ga : log_get (log (nodes w a)) i = Some (ta, c)).
  { unfold log_get. assert (Z.to_nat (i - 1) < length (log (nodes w a)))%nat by (apply nth_error_Some; congruence).
    replace ((i <? 1) || (i >? zlen (log (nodes w a)))) with false by (unfold zlen; lia). exact A3. }
  assert (Gb : log_get (log (nodes w b)) i = Some (tb, c')).
  { unfold log_get. assert (Z.to_nat (i - 1) < length (log (nodes w b)))%nat by (apply nth_error_Some; congruence).
    replace ((i <? 1) || (i >? zlen (log (nodes w b)))) with false by (unfold zlen; lia). exact B3. }
  pose proof (committed_agree l acts ND a b i _ _ Ha Hb A2 B2 Ga Gb) as E. congruence.
Qed.

(** The theorems are not vacuous: a run in which a command is committed by a
    quorum, applied by the leader and a follower, and the leader changes. *)
Example completeness_nontrivial :
  let w := net_run (net_init [0; 1; 2])
             [ATimeout 0; ADeliver 0%nat; ADeliver 1%nat; ASubmit 0 7; AHeartbeat 0; ADeliver 4%nat; ADeliver 4%nat;
              AHeartbeat 0; ADeliver 5%nat; ATimeout 2; ADeliver 7%nat; ADeliver 7%nat] in
  role (nodes w 0) = Leader /\ term (nodes w 0) = 1 /\ commit (nodes w 0) = 1 /\ applied (nodes w 0) = [(1, 7)] /\
  role (nodes w 2) = Leader /\ term (nodes w 2) = 2 /\ log (nodes w 2) = [(1, 7)] /\ applied (nodes w 2) = [(1, 7)].
Proof. vm_compute. repeat split. Qed.
