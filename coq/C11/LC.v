(** C11 — leader completeness as a consequence of the history invariant [cinv]
    at a single state (no step induction here): by strong induction on the
    later term, following the vote of a node in the intersection of the quorum
    that accepted the entry and the quorum that elected the later leader. *)
From HS Require Import Base.Prelude C11.Model C11.NodeProofs C11.Election C11.LogProofs C11.LogMatching C11.Steps C11.Ghost.
Local Open Scope Z_scope.

Lemma pok_entry_led w g L j e : lm_inv w g -> pok g L -> nth_error L j = Some e -> exists x, In (fst e, x) (led w).
Proof.
  intros M P H. apply (M_gled w g M). pose proof (pok_len g L j e P H). destruct (g (fst e)); [cbn in *; lia|discriminate].
Qed.

Theorem LC w G : cinv w G ->
  forall T m, dcommitted w G T m -> forall t x, T < t -> In (t, x) (led w) -> firstn m (gg G t) = firstn m (gg G T).
Proof.
  intros K T m (Hm & Ho & Q & QN & QQ & QA).
  set (g := gg G) in *.
  assert (Main : forall k t x, T < t -> t - T <= Z.of_nat k -> In (t, x) (led w) -> firstn m (g t) = firstn m (g T)).
  { induction k as [|k IH]; intros t x Ht Hk Hl; [lia|].
    assert (IH' : forall t' x', T < t' -> t' < t -> In (t', x') (led w) -> firstn m (g t') = firstn m (g T))
      by (intros t' x' A B C; apply (IH t' x' A); [lia|exact C]).
    clear IH.
    destruct (K_led w G K t x Hl) as (vs & VN & VQ & VV).
    pose proof (K_lm w G K) as M. pose proof (M_net w _ M) as W.
    destruct (quorums_intersect (ids w) vs Q VN QN) as (r & Hr1 & Hr2).
    { intros v Hv. destruct (VV v Hv) as (L & HL & _). apply (K_V w G K _ _ _ _ HL). }
    { intros q Hq. apply (QA q Hq). }
    { unfold nquorum in *. lia. }
    destruct (VV r Hr1) as (L & HL & VG). destruct (QA r Hr2) as [_ Acc].
    destruct (K_V w G K _ _ _ _ HL) as (_ & _ & _ & PL & _ & _ & UP). specialize (UP Hl).
    destruct (VG T m Ht Acc Hm Ho) as [Has|(t' & x' & A & B & C & D)]; [|exfalso; apply D, (IH' t' x'); auto; lia].
    destruct (K_el w G K t) as (sfx & Eg & El1 & El2). fold g in Eg.
    assert (Pel : pok g (gel G t)).
    { replace (gel G t) with (firstn (length (gel G t)) (g t)) by (rewrite Eg, firstn_app_le, firstn_all by lia; reflexivity).
      apply pok_firstn, (M_g w g M). }
    assert (HasC : hasP g (gel G t) T m).
    { apply (uptodate_has g (gel G t) L T m (K_g1 w G K) Pel PL Has Hm Ho UP).
      intros e He Hlt. apply In_nth_error in He as (j & Hj).
      destruct (pok_entry_led w g _ _ _ M Pel Hj) as (x' & Hx').
      apply (IH' (fst e) x' Hlt); [|exact Hx']. apply El1. apply (nth_error_In' _ _ _ Hj). }
    destruct HasC as [C1 C2]. fold g. rewrite Eg, firstn_app_le by exact C1. exact C2. }
  intros t x Ht Hl. apply (Main (Z.to_nat (t - T)) t x Ht); [lia|exact Hl].
Qed.
