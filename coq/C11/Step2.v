(** C11 — the history invariant [cinv] is kept by every action of the cluster (main step). *)
From HS Require Import Base.Prelude C11.Model C11.NodeProofs C11.Election C11.LogProofs C11.LogMatching C11.Steps
  C11.Ghost C11.LC C11.Stab C11.Step.
Local Open Scope Z_scope.

Lemma skipn_In' {A} (l : list A) : forall n x, In x (skipn n l) -> In x l.
Proof. induction l as [|y l IH]; intros [|n] x H; cbn in H; try contradiction; auto. right. eapply IH; exact H. Qed.

Lemma entry_eq_dec (x y : entry) : {x = y} + {x <> y}.
Proof. decide equality; apply Z.eq_dec. Qed.

Lemma peers_in w i p : net_inv w -> In p (peers (nodes w i)) <-> (In p (ids w) /\ p <> i).
Proof.
  intros W. destruct (I_id w W i) as [_ ->]. rewrite filter_In. split; intros [A B]; split; auto.
  - apply negb_true_iff in B. lia.
  - apply negb_true_iff. lia.
Qed.

Lemma quorum_nquorum w i : net_inv w -> In i (ids w) -> quorum (nodes w i) = nquorum (ids w).
Proof.
  intros W Z0. unfold quorum, nquorum. destruct (I_id w W i) as [_ ->].
  pose proof (filter_others_length i (ids w) (I_nodup w W) Z0). lia.
Qed.

Lemma c_apply w G i inp :
  cinv w G -> input_ok w i inp ->
  (forall s t lead pli plt ents lc, inp = IMsg s (AppendEntries t lead pli plt ents lc) ->
     In (t, s) (led w) /\ i <> s /\ ae_ok (gg G t) pli plt ents) ->
  (forall s m, inp = IMsg s m -> msg_inv w G i s m) ->
  cinv (net_apply w i inp) (capply w G i inp) /\ gmono w (net_apply w i inp) G (capply w G i inp).
Proof.
  intros K IO HAE HM.
  pose proof (K_lm w G K) as M.
  pose proof (lm_apply w (gg G) i inp M IO HAE) as M'.
  destruct (in_dec Z.eq_dec i (ids w)) as [Z0|NZ].
  2:{ assert (Zm : negb (zmem i (ids w)) = true).
      { apply negb_true_iff. destruct (zmem i (ids w)) eqn:E; [apply zmem_in in E; contradiction|reflexivity]. }
      unfold net_apply, capply. rewrite Zm. split; [exact K|apply gmono_refl]. }
  assert (Zm : negb (zmem i (ids w)) = false) by (apply negb_false_iff, zmem_in, Z0).
  pose proof (g_step w (gg G) i inp M M' Z0) as GX.
  pose proof (node_step_lspec (nodes w i) inp) as LS.
  pose proof (node_step_vspec (nodes w i) inp) as VS.
  pose proof (node_step_spec (nodes w i) inp) as ((Vn & Vp & Vt & Vv) & VI & MO & VSrc).
  pose proof (node_step_inv (nodes w i) inp (proj1 (K_ap w G K i))) as AI'.
  pose proof (led_apply w i inp) as LED'. rewrite Zm in LED'.
  assert (RS : (exists src t lead pli plt ents lc, inp = IMsg src (AppendEntries t lead pli plt ents lc)) \/
               ((forall src t lead pli plt ents lc, inp <> IMsg src (AppendEntries t lead pli plt ents lc)) /\
                rspec (nodes w i) inp (fst (node_step (nodes w i) inp)) (snd (node_step (nodes w i) inp)))).
  { destruct inp as [c|c|src m|cmd]; try (right; split; [intros; discriminate|apply node_step_rspec; intros; discriminate]).
    destruct m; try (right; split; [intros; discriminate|apply node_step_rspec; intros; discriminate]). left. eauto 10. }
  unfold gapply in M'. rewrite Zm in M'.
  unfold net_apply, capply in *. rewrite Zm in *.
  set (n := nodes w i) in *.
  destruct (node_step n inp) as [n' o] eqn:NS. cbn [fst snd] in *.
  set (g := gg G) in *. set (g' := gupd g n') in *.
  set (w' := mkNet (ids w) (upd (nodes w) i n') (bag w ++ sends_of i o)
              (match voted n' with Some c => (i, term n', c) :: cast w | None => cast w end)
              (match role n' with Leader => (term n', i) :: led w | _ => led w end)) in *.
  set (acc' := fun a t m => gacc G a t m \/ (a = i /\ t = term n' /\ (m <= length (log n'))%nat /\ firstn m (log n') = firstn m (g' t))).
  set (V' := match vchg n n' with Some c => (i, term n', c, log n') :: gV G | None => gV G end).
  set (el' := match role n', role n with
              | Leader, Leader => gel G
              | Leader, _ => upd (gel G) (term n') (log n')
              | _, _ => gel G end).
  set (G' := mkGhost g' acc' V' el').
  pose proof (M_net _ _ M) as W. pose proof (M_net _ _ M') as W'.
  destruct (I_id w W i) as [Wnid Wpeers]. fold n in Wnid, Wpeers.
  (* ---- monotonicity of the ghost ---- *)
  assert (LedOld : forall x, In x (led w) -> In x (led w')) by (intros x H; cbn [led w']; destruct (role n'); auto; right; exact H).
  assert (GXT0 : forall t, exists s, g' t = g t ++ s).
  { intros t. destruct GX as [[_ E]|(R' & Ho & Eg & [(R & T & Egn & Hl)|(R & Eg0 & El & _)])].
    - exists []. rewrite E, app_nil_r. reflexivity.
    - destruct (Z.eq_dec t (term n')) as [->|Ne]; [|exists []; rewrite (Ho t Ne), app_nil_r; reflexivity].
      rewrite Eg, Egn. destruct Hl as [->|(c & ->)]; [exists []; rewrite app_nil_r; reflexivity|eexists; reflexivity].
    - destruct (Z.eq_dec t (term n')) as [->|Ne]; [|exists []; rewrite (Ho t Ne), app_nil_r; reflexivity].
      rewrite Eg, Eg0. exists (log n'). reflexivity. }
  assert (GXT1 : forall t x, In (t, x) (led w) -> exists s, g' t = g t ++ s /\ forall e, In e s -> fst e = t).
  { intros t x Hx. destruct GX as [[_ E]|(R' & Ho & Eg & [(R & T & Egn & Hl)|(R & Eg0 & El & NoL)])].
    - exists []. rewrite E, app_nil_r. split; [reflexivity|intros e []].
    - destruct (Z.eq_dec t (term n')) as [->|Ne]; [|exists []; rewrite (Ho t Ne), app_nil_r; split; [reflexivity|intros e []]].
      rewrite Eg, Egn. destruct Hl as [->|(c & ->)]; [exists []; rewrite app_nil_r; split; [reflexivity|intros e []]|].
      eexists; split; [reflexivity|]. intros e [<-|[]]. cbn. lia.
    - destruct (Z.eq_dec t (term n')) as [->|Ne]; [exfalso; eapply NoL; eauto|].
      exists []. rewrite (Ho t Ne), app_nil_r. split; [reflexivity|intros e []]. }
  assert (X : gmono w w' G G').
  { constructor; cbn [ids w' gacc gg gV G']; auto.
    - intros a t m H. left. exact H.
    - intros r H. unfold V'. destruct (vchg n n'); [right|]; exact H. }
  split; [|exact X].

  pose proof (K_g1 w G K) as G1.
  assert (KAlen : forall a t k, gacc G a t k -> (k <= length (g t))%nat) by (intros a t k H; apply (K_acc w G K a t k H)).
  assert (Tn : term n <= term n') by exact Vt.
  (* ---- what the step did to the log ---- *)
  assert (FULL :
    (exists src t lead pli plt ents lc p l,
       inp = IMsg src (AppendEntries t lead pli plt ents lc) /\ In (t, src) (led w) /\ i <> src /\
       msg_inv w G i src (AppendEntries t lead pli plt ents lc) /\ term n <= t /\
       pli = Z.of_nat p /\ ents = with_index pli l /\ l = firstn (length l) (skipn p (g t)) /\
       log n' = alogs (log n) p l /\ commit n' = Z.max (commit n) lc /\ ap_ok n' /\
       o = [OElectionTimer; OSend src (AppendResponse t true (nid n) (pli + zlen l))] /\
       next_index n' = next_index n /\ match_index n' = match_index n /\ role n' = Follower /\ term n' = t /\
       firstn (p + length l) (log n') = firstn (p + length l) (g t) /\ (p + length l <= length (log n'))%nat /\
       firstn (Z.to_nat (commit n)) (log n') = firstn (Z.to_nat (commit n)) (log n) /\ (p <= length (log n))%nat)
    \/ (rspec n inp n' o /\
        (log n' = log n \/ (role n = Leader /\ role n' = Leader /\ term n' = term n /\ exists c, log n' = log n ++ [(term n, c)])))).
  { destruct RS as [(src & t & lead & pli & plt & ents & lc & Einp)|[NAE RS]].
    - destruct (HAE _ _ _ _ _ _ _ Einp) as (Hl & Hne & _). pose proof (HM _ _ Einp) as MI.
      pose proof (hae_cases n src t lead pli plt ents lc) as HC. cbv zeta in HC.
      assert (NS' : handle_append_entries n src t lead pli plt ents lc = (n', o)) by (rewrite <- NS, Einp; reflexivity).
      destruct HC as [(C1 & C2 & C3)|(C1 & C2 & C3 & C4)].
      + left. pose proof (accept_case w G i src t lead pli plt ents lc K Z0 Hl MI C1 C2 C3) as AC.
        cbv zeta in AC. fold n in AC. rewrite NS' in AC. cbn [fst snd] in AC.
        destruct AC as (p & l & A1 & A2 & A3 & A4 & A5 & A6 & A7 & A8 & A9 & A10 & A11 & A12 & A13 & A14 & A15).
        exists src, t, lead, pli, plt, ents, lc, p, l. fold g in A3, A12. tauto.
      + right. rewrite NS' in C1, C2, C3, C4. cbn [fst snd] in C1, C2, C3, C4. split.
        * split; [apply no_ae_from, C3|left; auto].
        * left. apply C1.
    - right. split; [exact RS|].
      destruct (L_log _ _ _ _ LS) as [E|[E|A]]; [left; exact E|right; exact E|].
      destruct A as (src & t & lead & pli & plt & ents & lc & Ei & _). exfalso. eapply NAE; eauto. }

  (* ---- terms ---- *)
  assert (C_term : forall j, 0 <= term (nodes w' j) /\ (role (nodes w' j) <> Follower -> 0 < term (nodes w' j))).
  { intros j. cbn [nodes w']. destruct (Z.eq_dec j i) as [->|Hj]; [rewrite upd_same|rewrite upd_other by exact Hj; apply (K_term w G K)].
    destruct (K_term w G K i) as [T0 T1]. fold n in T0, T1. split; [lia|]. intros R.
    destruct (role n') eqn:R'; [contradiction| |].
    - destruct (V_cand _ _ _ _ VS R') as (_ & [[Rc Tc]|Tc]); [rewrite Tc; apply T1; congruence|lia].
    - destruct (L_lead _ _ _ _ LS R') as [[R0 T]|[R0 E]]; [rewrite T; apply T1; congruence|].
      destruct (V_lead _ _ _ _ VS R' R0) as (_ & [[Rc Tc]|Tc]); [rewrite Tc; apply T1; congruence|lia]. }
  assert (C_logterm : forall j e, In e (log (nodes w' j)) -> 0 < fst e /\ fst e <= term (nodes w' j)).
  { intros j e. cbn [nodes w']. destruct (Z.eq_dec j i) as [->|Hj]; [rewrite upd_same|rewrite upd_other by exact Hj; apply (K_logterm w G K)].
    intros He. assert (Old : In e (log n) -> 0 < fst e /\ fst e <= term n') by (intros H; destruct (K_logterm w G K i e H) as [A B]; fold n in B; lia).
    destruct FULL as [(src & t & lead & pli & plt & ents & lc & p & l & F)|[_ [E|(R & R' & T & c & E)]]].
    - destruct F as (_ & _ & _ & _ & _ & _ & _ & Fl & Flog & _ & _ & _ & _ & _ & _ & Ft & _).
      rewrite Flog in He. apply alogs_in in He as [He|He]; [apply Old, He|].
      rewrite Fl in He. apply firstn_In' in He. apply skipn_In' in He. rewrite Ft. apply (G1 t e He).
    - rewrite E in He. apply Old, He.
    - rewrite E in He. apply in_app_or in He as [He|[<-|[]]]; [apply Old, He|]. cbn [fst].
      destruct (K_term w G K i) as [_ T1]. fold n in T1. split; [apply T1; congruence|lia]. }
  assert (C_g1 : forall t e, In e (g' t) -> 0 < fst e /\ fst e <= t).
  { intros t e He. destruct GX as [[_ E]|(R' & Ho & Eg & _)]; [rewrite E in He; apply (G1 t e He)|].
    destruct (Z.eq_dec t (term n')) as [->|Ne]; [|rewrite (Ho t Ne) in He; apply (G1 t e He)].
    rewrite Eg in He. pose proof (C_logterm i e) as Q. cbn [nodes w'] in Q. rewrite upd_same in Q. apply Q, He. }
  assert (C_el : forall t, exists sfx, g' t = el' t ++ sfx /\ (forall e, In e (el' t) -> fst e < t) /\ (forall e, In e sfx -> fst e = t)).
  { intros t. destruct (K_el w G K t) as (sfx & Eo & E1 & E2). fold g in Eo.
    destruct GX as [[NR E]|(R' & Ho & Eg & [(R & T & Egn & Hl)|(R & Eg0 & El & NoL)])].
    - assert (el' = gel G) by (unfold el'; destruct (role n'); [reflexivity|reflexivity|contradiction]).
      rewrite H, E. exists sfx. auto.
    - assert (el' = gel G) by (unfold el'; rewrite R', R; reflexivity). rewrite H.
      destruct (Z.eq_dec t (term n')) as [->|Ne]; [|rewrite (Ho t Ne); exists sfx; auto].
      rewrite Eg. rewrite Egn in Eo. destruct Hl as [->|(c & ->)]; [exists sfx; auto|].
      exists (sfx ++ [(term n, c)]). rewrite Eo, app_assoc. split; [reflexivity|]. split; [exact E1|].
      intros e He. apply in_app_or in He as [He|[<-|[]]]; [apply E2, He|cbn; lia].
    - assert (el' = upd (gel G) (term n') (log n')) by (unfold el'; rewrite R'; destruct (role n); [reflexivity|reflexivity|contradiction]).
      rewrite H. destruct (Z.eq_dec t (term n')) as [->|Ne]; [|rewrite upd_other by exact Ne; rewrite (Ho t Ne); exists sfx; auto].
      rewrite upd_same, Eg. exists []. rewrite app_nil_r. split; [reflexivity|]. split; [|intros e []].
      intros e He. rewrite El in He. destruct (K_logterm w G K i e He) as [_ Hle]. fold n in Hle.
      destruct (V_lead _ _ _ _ VS R' R) as (_ & [[Rc Tc]|Tc]); [|lia].
      destruct (Z.eq_dec (fst e) (term n')) as [Eq|Ne]; [|lia]. exfalso.
      apply In_nth_error in He as (j & Hj). destruct (pok_entry_led w g _ _ _ M (M_logs w g M i) Hj) as (x & Hx).
      rewrite Eq in Hx. apply (NoL x Hx). }

  (* ---- acceptance facts ---- *)
  assert (Gsame : role n' <> Leader -> g' = g) by (intros R; destruct GX as [[_ E]|(R' & _)]; [exact E|contradiction]).
  assert (C_down : forall a t m m', acc' a t m -> (m' <= m)%nat -> acc' a t m').
  { unfold acc'. intros a t m m' [H|(A & B & C & D)] Hm; [left; eapply (K_down w G K); eauto|right].
    split; [exact A|]. split; [exact B|]. split; [lia|]. apply (firstn_le_eq _ _ m); auto. }
  assert (C_acc : forall a t m, acc' a t m -> In a (ids w') /\ t <= term (nodes w' a) /\ (m <= length (g' t))%nat).
  { unfold acc'. intros a t m [H|(A & B & C & D)].
    - destruct (K_acc w G K a t m H) as (A1 & A2 & A3). fold g in A3. split; [exact A1|]. split.
      + cbn [nodes w']. destruct (Z.eq_dec a i) as [->|Ha]; [rewrite upd_same; fold n in A2; lia|rewrite upd_other by exact Ha; exact A2].
      + destruct (GXT0 t) as (s0 & ->). rewrite app_length. lia.
    - subst a t. split; [exact Z0|]. cbn [nodes w']. rewrite upd_same. split; [lia|].
      apply (hasP_len g' (log n') (term n') m). split; assumption. }
  assert (C_cur : forall a T m, acc' a T m -> (1 <= m)%nat -> ownT g' T m ->
            hasP g' (log (nodes w' a)) T m \/ bad w' g' T m (term (nodes w' a))).
  { unfold acc'. intros a T m [H|(A & B & C & D)] Hm Ho.
    2:{ subst a T. left. cbn [nodes w']. rewrite upd_same. split; assumption. }
    pose proof (KAlen a T m H) as Hl. destruct (K_acc w G K a T m H) as (_ & HT & _).
    apply (ownT_fwd w w' G G' X G1 T m Hm Hl) in Ho.
    assert (Tmono : term (nodes w a) <= term (nodes w' a)).
    { cbn [nodes w']. destruct (Z.eq_dec a i) as [->|Ha]; [rewrite upd_same; exact Tn|rewrite upd_other by exact Ha; lia]. }
    destruct (K_cur w G K a T m H Hm Ho) as [Has|Bad]; [|right; apply (bad_fwd w w' G G' X G1 T m _ _ Hl Tmono Bad)].
    cbn [nodes w']. destruct (Z.eq_dec a i) as [->|Ha]; [rewrite upd_same|rewrite upd_other by exact Ha; left; apply (hasP_fwd w w' G G' X), Has].
    fold n in Has, HT. fold g in Has.
    destruct FULL as [(src & t & lead & pli & plt & ents & lc & p & l & F)|[_ [E|(R & R' & Tm & c & E)]]].
    - destruct F as (_ & Fled & _ & _ & Ft & _ & _ & Fl & Flog & _ & _ & _ & _ & _ & Frole & Fterm & _ & _ & _ & Fp).
      assert (Eg : g' = g) by (apply Gsame; congruence).
      destruct (list_eq_dec entry_eq_dec (firstn m (g t)) (firstn m (g T))) as [Eq|Ne].
      + left. rewrite Eg. destruct Has as [H1 H2].
        assert (Kp : firstn m (log n') = firstn m (log n)).
        { rewrite Flog. apply (alogs_keep (g t) l (log n) p m); [rewrite H2; symmetry; exact Eq|exact H1|exact Fp|exact Fl]. }
        split; [|rewrite Kp; exact H2].
        assert (length (firstn m (log n')) = m) by (rewrite Kp, firstn_length; lia). rewrite firstn_length in H0. lia.
      + right. exists t, src. split; [|split; [lia|split; [apply LedOld, Fled|rewrite Eg; exact Ne]]].
        destruct (Z.eq_dec T t) as [->|]; [contradiction|lia].
    - left. rewrite E. apply (hasP_fwd w w' G G' X), Has.
    - left. apply (hasP_fwd w w' G G' X). destruct Has as [H1 H2]. split; [rewrite E, app_length; lia|].
      rewrite E, firstn_app_le by exact H1. exact H2. }

  (* ---- votes ---- *)
  assert (P' : forall Y, pok g Y -> pok g' Y).
  { intros Y HY. destruct GX as [[_ E]|(R' & Ho & _)]; [rewrite E; exact HY|].
    apply (pok_gext g g' (term n')); [|exact HY]. split; [exact Ho|apply GXT0]. }
  assert (TermMono : forall j, term (nodes w j) <= term (nodes w' j)).
  { intros j. cbn [nodes w']. destruct (Z.eq_dec j i) as [->|Hj]; [rewrite upd_same; exact Tn|rewrite upd_other by exact Hj; lia]. }
  assert (LedNew : forall t x, In (t, x) (led w') -> In (t, x) (led w) \/ (t = term n' /\ x = i /\ role n' = Leader)).
  { intros t x H. cbn [led w'] in H. destruct (role n') eqn:R'; auto. destruct H as [H|H]; [inversion H; auto|auto]. }
  assert (OldLeader : role n = Leader -> In (term n, i) (led w)) by (intros R; apply (M_ledc w g M i Z0 R)).
  assert (NewLeader : role n' = Leader -> role n <> Leader ->
            log n' = log n /\ el' (term n') = log n' /\ (forall x, ~ In (term n', x) (led w)) /\
            ((role n = Candidate /\ term n' = term n) \/ term n' = term n + 1)).
  { intros R' R. destruct (V_lead _ _ _ _ VS R' R) as [E D]. split; [exact E|]. split; [|split; [|exact D]].
    - unfold el'. rewrite R'. destruct (role n); [apply upd_same|apply upd_same|contradiction].
    - destruct GX as [[NR _]|(_ & _ & _ & [(R0 & _)|(_ & _ & _ & NoL)])]; [contradiction|contradiction|exact NoL]. }
  assert (ElOld : forall t x, In (t, x) (led w) -> el' t = gel G t).
  { intros t x H. unfold el'. destruct (role n') eqn:R'; try reflexivity. destruct (role n) eqn:R; try reflexivity.
    - destruct (NewLeader eq_refl ltac:(congruence)) as (_ & _ & NoL & _).
      destruct (Z.eq_dec t (term n')) as [->|Ne]; [exfalso; eapply NoL; eauto|apply upd_other, Ne].
    - destruct (NewLeader eq_refl ltac:(congruence)) as (_ & _ & NoL & _).
      destruct (Z.eq_dec t (term n')) as [->|Ne]; [exfalso; eapply NoL; eauto|apply upd_other, Ne]. }
  assert (Vgood_step : forall v t L hi hi', Vgood w G v t L hi -> t <= term (nodes w v) -> hi <= hi' -> Vgood w' G' v t L hi').
  { intros v t L hi hi' VG Ht Hh T m HT Hacc Hm Ho. cbn [gacc gg G'] in *. destruct Hacc as [Hacc|(A & B & _)].
    2:{ subst v T. fold n in Ht. lia. }
    pose proof (KAlen v T m Hacc) as Hl. apply (ownT_fwd w w' G G' X G1 T m Hm Hl) in Ho.
    destruct (VG T m HT Hacc Hm Ho) as [Has|Bad]; [left; apply (hasP_fwd w w' G G' X), Has|right; apply (bad_fwd w w' G G' X G1 T m _ _ Hl Hh Bad)]. }
  assert (CurStep : forall T m, gacc G i T m -> (1 <= m)%nat -> ownT g' T m -> log n' = log n ->
            hasP g' (log n') T m \/ bad w' g' T m (term n)).
  { intros T m Hacc Hm Ho El. pose proof (KAlen i T m Hacc) as Hl. apply (ownT_fwd w w' G G' X G1 T m Hm Hl) in Ho.
    destruct (K_cur w G K i T m Hacc Hm Ho) as [Has|Bad]; [fold n in Has|fold n in Bad].
    - left. rewrite El. apply (hasP_fwd w w' G G' X), Has.
    - right. apply (bad_fwd w w' G G' X G1 T m _ _ Hl (Z.le_refl _) Bad). }
  assert (NewRec : forall c, vchg n n' = Some c ->
            log n' = log n /\
            ((c = i /\ term n' = term n + 1 /\ role n' <> Follower) \/
             exists lli llt, inp = IMsg c (RequestVote (term n') c lli llt) /\ uptodate_z lli llt (log n) /\ c <> i)).
  { intros c Hc. destruct (vchg_some _ _ _ Hc) as [Vc NV].
    destruct (V_vote _ _ _ _ VS c Vc) as [Old|(El & [(A & B & C)|(src & lli & llt & Ei & U)])]; [contradiction|split; [exact El|]..].
    - left. rewrite Wnid in A. auto.
    - right. subst inp. cbn in IO. subst src. exists lli, llt. split; [reflexivity|]. split; [exact U|].
      destruct (HM _ _ eq_refl) as (Hne & _). congruence. }
  assert (C_V : forall v t c L, In (v, t, c, L) V' ->
          In v (ids w') /\ t <= term (nodes w' v) /\ t <= term (nodes w' c) /\ pok g' L /\ Vgood w' G' v t L t /\
          (term (nodes w' c) = t -> role (nodes w' c) = Candidate -> uptodate (log (nodes w' c)) L) /\
          (In (t, c) (led w') -> uptodate (el' t) L)).
  { intros v t c L HV.
    assert (Old : In (v, t, c, L) (gV G) ->
          In v (ids w') /\ t <= term (nodes w' v) /\ t <= term (nodes w' c) /\ pok g' L /\ Vgood w' G' v t L t /\
          (term (nodes w' c) = t -> role (nodes w' c) = Candidate -> uptodate (log (nodes w' c)) L) /\
          (In (t, c) (led w') -> uptodate (el' t) L)).
    { intros H. destruct (K_V w G K _ _ _ _ H) as (A1 & A2 & A3 & A4 & A5 & A6 & A7).
      split; [exact A1|]. split; [pose proof (TermMono v); lia|]. split; [pose proof (TermMono c); lia|].
      split; [apply P', A4|]. split; [apply (Vgood_step v t L t t A5 A2 (Z.le_refl _))|]. split.
      - cbn [nodes w']. destruct (Z.eq_dec c i) as [->|Hc]; [rewrite upd_same|rewrite upd_other by exact Hc; exact A6].
        intros Et Rc. fold n in A3, A6. destruct (V_cand _ _ _ _ VS Rc) as (El & [[R0 T0]|T0]); [|lia].
        rewrite El. apply A6; congruence.
      - intros Hl. destruct (LedNew _ _ Hl) as [Ho|(-> & -> & R')].
        + rewrite (ElOld _ _ Ho). apply A7, Ho.
        + fold n in A3, A6. destruct (role n) eqn:R.
          * destruct (NewLeader R' ltac:(congruence)) as (El & Ee & _ & [[Rc Tc]|Tc]); [congruence|lia].
          * destruct (NewLeader R' ltac:(congruence)) as (El & Ee & _ & [[Rc Tc]|Tc]); [|lia].
            rewrite Ee, El. apply A6; congruence.
          * destruct (L_lead _ _ _ _ LS R') as [[_ T]|[NR _]]; [|congruence].
            pose proof (OldLeader eq_refl) as Ho. rewrite <- T in Ho. rewrite (ElOld _ _ Ho). apply A7, Ho. }
    unfold V' in HV. destruct (vchg n n') as [c0|] eqn:Ec; [|apply Old, HV].
    destruct HV as [HV|HV]; [|apply Old, HV]. inversion HV; subst v t c0 L. clear HV.
    destruct (NewRec c eq_refl) as (El & Hc).
    split; [exact Z0|]. cbn [nodes w']. rewrite upd_same. split; [lia|].
    assert (Pn' : pok g' (log n')) by (pose proof (M_logs _ _ M' i) as Q; cbn [nodes w'] in Q; rewrite upd_same in Q; exact Q).
    split; [|split; [exact Pn'|split; [|split]]].
    - destruct Hc as [(-> & _)|(lli & llt & Ei & U & Hne)]; [rewrite upd_same; lia|rewrite upd_other by exact Hne].
      destruct (HM _ _ Ei) as (_ & Hle & _). exact Hle.
    - intros T m HT Hacc Hm Ho. cbn [gacc gg G'] in *. destruct Hacc as [Hacc|(_ & B & _)]; [|lia].
      destruct (CurStep T m Hacc Hm Ho El) as [H|H]; [left; exact H|right].
      destruct H as (t' & x & A & B & C & D). exists t', x. repeat split; auto. lia.
    - destruct Hc as [(-> & _)|(lli & llt & Ei & U & Hne)]; [rewrite upd_same; intros; apply uptodate_refl|rewrite upd_other by exact Hne].
      intros Et Rc. destruct (HM _ _ Ei) as (_ & _ & H3 & _). destruct (H3 Et Rc) as [-> ->].
      rewrite El. apply uptodate_of_z, U.
    - intros Hl. destruct Hc as [(-> & Tc & Rf)|(lli & llt & Ei & U & Hne)].
      + destruct (LedNew _ _ Hl) as [Ho|(_ & _ & R')].
        * destruct (M_led w g M _ _ Ho) as (_ & Hle & _). fold n in Hle. lia.
        * destruct (role n) eqn:R.
          -- destruct (NewLeader R' ltac:(congruence)) as (_ & Ee & _). rewrite Ee. apply uptodate_refl.
          -- destruct (NewLeader R' ltac:(congruence)) as (_ & Ee & _). rewrite Ee. apply uptodate_refl.
          -- destruct (L_lead _ _ _ _ LS R') as [[_ T]|[NR _]]; [lia|congruence].
      + destruct (LedNew _ _ Hl) as [Ho|(_ & Hx & _)]; [|contradiction].
        destruct (HM _ _ Ei) as (_ & _ & _ & H4). destruct (H4 Ho) as [-> ->].
        rewrite (ElOld _ _ Ho), El. apply uptodate_of_z, U. }

  assert (Vold : forall r, In r (gV G) -> In r V') by (intros r H; unfold V'; destruct (vchg n n'); [right|]; exact H).
  assert (C_voted : forall j c, In j (ids w') -> voted (nodes w' j) = Some c -> exists L, In (j, term (nodes w' j), c, L) V').
  { intros j c Hj. cbn [nodes w']. destruct (Z.eq_dec j i) as [->|Hn]; [rewrite upd_same|rewrite upd_other by exact Hn].
    2:{ intros Hv. destruct (K_voted w G K j c Hj Hv) as (L & HL). exists L. apply Vold, HL. }
    intros Hv. destruct (vchg n n') as [c0|] eqn:Ec.
    - destruct (vchg_some _ _ _ Ec) as [Vc _]. assert (c0 = c) by congruence. subst c0.
      exists (log n'). unfold V'. left. reflexivity.
    - destruct (vchg_none _ _ c Ec Hv) as [V0 T0]. destruct (K_voted w G K i c Z0 V0) as (L & HL). fold n in HL.
      exists L. rewrite T0. apply Vold, HL. }
  assert (VOTES : forall v, role n' <> Follower -> In v (votes n') ->
            (exists L, In (v, term n', i, L) (gV G)) \/ (v = i /\ vchg n n' = Some i /\ term n' = term n + 1 /\ log n' = log n)).
  { intros v Rf Hv. destruct (VSrc Rf v Hv) as [(R0 & T0 & I0)|[(-> & Vs)|(src & Ei)]].
    - left. rewrite T0. apply (K_votes w G K i Z0 R0 v I0).
    - rewrite Wnid in *. destruct (vchg n n') as [c0|] eqn:Ec.
      + destruct (vchg_some _ _ _ Ec) as [Vc _]. assert (c0 = i) by congruence. subst c0.
        destruct (NewRec i eq_refl) as (El & [(_ & Tc & _)|(lli & llt & _ & _ & Hne)]); [|contradiction].
        right. auto.
      + destruct (vchg_none _ _ i Ec Vs) as [V0 T0]. left. rewrite T0. apply (K_voted w G K i i Z0 V0).
    - left. subst inp. cbn in IO. destruct IO as [-> _]. apply (HM _ _ eq_refl). }
  assert (C_votes : forall j, In j (ids w') -> role (nodes w' j) <> Follower ->
              forall v, In v (votes (nodes w' j)) -> exists L, In (v, term (nodes w' j), j, L) V').
  { intros j Hj. cbn [nodes w']. destruct (Z.eq_dec j i) as [->|Hn]; [rewrite upd_same|rewrite upd_other by exact Hn].
    2:{ intros R v Hv. destruct (K_votes w G K j Hj R v Hv) as (L & HL). exists L. apply Vold, HL. }
    intros Rf v Hv. destruct (VOTES v Rf Hv) as [(L & HL)|(-> & Ec & _)]; [exists L; apply Vold, HL|].
    exists (log n'). unfold V'. rewrite Ec. left. reflexivity. }
  assert (C_led : forall t a, In (t, a) (led w') ->
            exists vs, NoDup vs /\ nquorum (ids w') <= zlen vs /\
              forall v, In v vs -> exists L, In (v, t, a, L) V' /\ Vgood w' G' v t L (t - 1)).
  { intros t a Hl.
    assert (Old : In (t, a) (led w) -> exists vs, NoDup vs /\ nquorum (ids w') <= zlen vs /\
              forall v, In v vs -> exists L, In (v, t, a, L) V' /\ Vgood w' G' v t L (t - 1)).
    { intros Ho. destruct (K_led w G K t a Ho) as (vs & A & B & C). exists vs. split; [exact A|]. split; [exact B|].
      intros v Hv. destruct (C v Hv) as (L & HL & VG). exists L. split; [apply Vold, HL|].
      destruct (K_V w G K _ _ _ _ HL) as (_ & A2 & _). apply (Vgood_step v t L (t - 1) (t - 1) VG A2 (Z.le_refl _)). }
    destruct (LedNew _ _ Hl) as [Ho|(-> & -> & R')]; [apply Old, Ho|].
    destruct (role n) eqn:R.
    3:{ destruct (L_lead _ _ _ _ LS R') as [[_ T]|[NR _]]; [|congruence]. apply Old. rewrite T. apply OldLeader. reflexivity. }
    all: destruct (NewLeader R' ltac:(congruence)) as (El & Ee & NoL & Tc).
    all: pose proof (I_votes w' W' i) as VI'; cbn [nodes w'] in VI'; rewrite upd_same in VI'; destruct VI' as [ND Q];
         exists (votes n'); split; [exact ND|]; split;
         [specialize (Q R'); pose proof (quorum_nquorum w' i W' Z0) as QQ; cbn [nodes w'] in QQ; rewrite upd_same in QQ; lia|].
    all: intros v Hv; destruct (VOTES v ltac:(congruence) Hv) as [(L & HL)|(-> & Ec & Tc' & El')].
    1,3: exists L; split; [apply Vold, HL|]; destruct (K_V w G K _ _ _ _ HL) as (_ & A2 & _ & _ & A5 & _);
         apply (Vgood_step v (term n') L (term n' - 1) (term n' - 1)); [|exact A2|lia];
         intros T m HT Hacc Hm Ho; destruct (A5 T m HT Hacc Hm Ho) as [H|(t' & x & B1 & B2 & B3 & B4)]; [left; exact H|right];
         exists t', x; split; [exact B1|]; split; [|split; [exact B3|exact B4]];
         destruct (Z.eq_dec t' (term n')) as [->|]; [exfalso; eapply NoL; eauto|lia].
    all: exists (log n'); split; [unfold V'; rewrite Ec; left; reflexivity|];
         intros T m HT Hacc Hm Ho; cbn [gacc gg G'] in *; destruct Hacc as [Hacc|(_ & B & _)]; [|lia];
         destruct (CurStep T m Hacc Hm Ho El') as [H|H]; [left; exact H|right];
         destruct H as (t' & x & A & B & C & D); exists t', x; repeat split; auto; lia. }

  (* ---- replication state ---- *)
  assert (Nn' : forall j, j = i -> nodes w' j = n') by (intros j ->; cbn [nodes w']; apply upd_same).
  assert (No' : forall j, j <> i -> nodes w' j = nodes w j) by (intros j Hj; cbn [nodes w']; apply upd_other, Hj).
  assert (AccOld : forall a t m, gacc G a t m -> acc' a t m) by (intros a t m H; left; exact H).
  destruct (K_mi0 w G K i) as [MI0a MI0b]. fold n in MI0a, MI0b.
  assert (ARin : forall src t f mi, inp = IMsg src (AppendResponse t true f mi) ->
            f = src /\ In src (ids w) /\ src <> i /\ 0 <= mi /\ (0 < mi -> gacc G src t (Z.to_nat mi)) /\ In f (peers n)).
  { intros src t f mi Ei. destruct (HM _ _ Ei) as (A & B & C & D & E). repeat split; auto.
    subst f. apply (peers_in w i src W). auto. }
  assert (C_mi0 : forall j, NoDup (map fst (match_index (nodes w' j))) /\
                    forall k, In k (map fst (match_index (nodes w' j))) -> In k (peers (nodes w' j))).
  { intros j. destruct (Z.eq_dec j i) as [->|Hj]; [rewrite (Nn' i eq_refl), Vp|rewrite (No' j Hj); apply (K_mi0 w G K j)].
    destruct FULL as [(src & t & lead & pli & plt & ents & lc & p & l & F)|[[_ RS2] _]].
    - destruct F as (_ & _ & _ & _ & _ & _ & _ & _ & _ & _ & _ & _ & _ & Fm & _). rewrite Fm. auto.
    - destruct RS2 as [((_ & _ & _ & _ & Em) & _)|[(_ & _ & (_ & _ & _ & _ & _ & B6 & B7) & _)|[(src & f & mi & Ei & _ & _ & _ & _ & _ & _ & Em & _)|[(src & f & mi & _ & _ & _ & _ & _ & _ & _ & Em & _)|(_ & _ & _ & _ & _ & _ & _ & Em & _)]]]].
      + rewrite Em. auto.
      + split; [apply B6, MI0a|]. intros k Hk. destruct (B7 k Hk); auto.
      + rewrite Em. split; [apply aset_nodup, MI0a|]. intros k Hk. apply aset_keys in Hk as [->|Hk]; [apply (ARin _ _ _ _ Ei)|auto].
      + rewrite Em. auto.
      + rewrite Em. auto. }
  assert (C_mi : forall j, In j (ids w') -> role (nodes w' j) = Leader ->
           forall p m, afind p (match_index (nodes w' j)) = Some m ->
             0 <= m /\ (0 < m -> acc' p (term (nodes w' j)) (Z.to_nat m))).
  { intros j Hj. destruct (Z.eq_dec j i) as [->|Hn]; [rewrite (Nn' i eq_refl)|rewrite (No' j Hn)].
    2:{ intros R p m Hf. destruct (K_mi w G K j Hj R p m Hf) as [A B]. split; [exact A|]. intros Hm. apply AccOld, B, Hm. }
    intros R' p m Hf.
    assert (Keep : role n = Leader -> term n' = term n -> afind p (match_index n) = Some m -> 0 <= m /\ (0 < m -> acc' p (term n') (Z.to_nat m))).
    { intros R T Hf0. destruct (K_mi w G K i Z0 R p m Hf0) as [A B]. fold n in B. split; [exact A|]. intros Hm. rewrite T. apply AccOld, B, Hm. }
    destruct FULL as [(src & t & lead & pli & plt & ents & lc & p0 & l & F)|[[_ RS2] _]].
    - destruct F as (_ & _ & _ & _ & _ & _ & _ & _ & _ & _ & _ & _ & _ & _ & Fr & _). congruence.
    - destruct RS2 as [((_ & _ & _ & _ & Em) & _ & RL)|[(NR & _ & (_ & _ & _ & B4 & B5 & _) & _)|[(src & f & mi & Ei & R & _ & T & _ & _ & _ & Em & _)|[(src & f & mi & _ & R & _ & T & _ & _ & _ & Em & _)|(R & _ & T & _ & _ & _ & _ & Em & _)]]]].
      + specialize (RL R'). destruct (L_lead _ _ _ _ LS R') as [[_ T]|[NR _]]; [|contradiction]. rewrite Em in Hf. apply Keep; auto.
      + destruct (in_dec Z.eq_dec p (peers n)) as [Hp|Hp].
        * destruct (B4 p Hp) as [_ E0]. rewrite E0 in Hf. inversion Hf. split; lia.
        * rewrite (B5 p Hp) in Hf. exfalso. apply Hp, MI0b, afind_in. congruence.
      + rewrite Em, afind_aset in Hf. destruct (Z.eqb p f) eqn:Ep; [|apply Keep; auto].
        apply Z.eqb_eq in Ep. subst p. inversion Hf; subst m. destruct (ARin _ _ _ _ Ei) as (-> & _ & _ & A & B & _).
        split; [exact A|]. intros Hm. rewrite T. apply AccOld, B, Hm.
      + rewrite Em in Hf. apply Keep; auto.
      + rewrite Em in Hf. apply Keep; auto. }
  assert (C_ni : forall j, In j (ids w') -> role (nodes w' j) = Leader ->
           forall p, In p (peers (nodes w' j)) ->
             1 <= aget p 1 (next_index (nodes w' j)) /\ aget p 1 (next_index (nodes w' j)) <= zlen (log (nodes w' j)) + 1).
  { intros j Hj. destruct (Z.eq_dec j i) as [->|Hn]; [rewrite (Nn' i eq_refl), Vp|rewrite (No' j Hn); apply (K_ni w G K j Hj)].
    intros R' p Hp.
    assert (Keep : role n = Leader -> 1 <= aget p 1 (next_index n) /\ aget p 1 (next_index n) <= zlen (log n) + 1)
      by (intros R; apply (K_ni w G K i Z0 R p Hp)).
    destruct FULL as [(src & t & lead & pli & plt & ents & lc & p0 & l & F)|[[_ RS2] _]].
    - destruct F as (_ & _ & _ & _ & _ & _ & _ & _ & _ & _ & _ & _ & _ & _ & Fr & _). congruence.
    - destruct RS2 as [((El & _ & _ & En & _) & _ & RL)|[(NR & _ & (El & _ & _ & B4 & _) & _)|[(src & f & mi & Ei & R & _ & T & _ & El & En & _)|[(src & f & mi & _ & R & _ & T & El & _ & _ & _ & En & _)|(R & _ & T & _ & (c & El) & _ & _ & _ & En)]]]].
      + rewrite En, El. apply Keep, RL, R'.
      + destruct (B4 p Hp) as [E0 _]. rewrite E0, El. unfold zlen. lia.
      + rewrite En, El, aget_aset. destruct (Z.eqb p f) eqn:Ep; [|apply Keep, R].
        destruct (ARin _ _ _ _ Ei) as (_ & _ & _ & A & B & _). split; [lia|].
        destruct (Z_lt_le_dec 0 mi) as [Hm|Hm]; [|unfold zlen; lia].
        pose proof (KAlen _ _ _ (B Hm)) as Q. pose proof (M_lead w g M i Z0 R) as Q2. fold n in Q2. rewrite <- Q2 in Q. unfold zlen. lia.
      + rewrite En, El, aget_aset. destruct (Z.eqb p f) eqn:Ep; [|apply Keep, R]. apply Z.eqb_eq in Ep. subst p. destruct (Keep R). lia.
      + rewrite En, El. destruct (Keep R). unfold zlen in *. rewrite app_length. cbn [length]. lia. }
  assert (CPlog : forall tt L L' c, cprefix w' G' tt L c -> c <= zlen L' -> firstn (Z.to_nat c) L' = firstn (Z.to_nat c) L -> cprefix w' G' tt L' c).
  { intros tt L L' c [H|(T & m & A & B & C & D & E & F)] Hc Hf; [left; exact H|right].
    exists T, m. split; [exact A|]. split; [exact B|]. split; [exact C|]. split; [exact D|]. split; [exact Hc|]. rewrite Hf. exact F. }
  assert (CPF : forall tt tt' L c, tt <= tt' -> cprefix w G tt L c -> cprefix w' G' tt' L c)
    by (intros tt tt' L c Ht H; apply (cprefix_fwd w w' G G' X G1 tt tt' L c KAlen Ht H)).
  destruct (K_ap w G K i) as [AIn APn]. fold n in AIn, APn.
  assert (C_ap : forall j, apply_inv (nodes w' j) /\ ap_ok (nodes w' j)).
  { intros j. destruct (Z.eq_dec j i) as [->|Hn]; [rewrite (Nn' i eq_refl)|rewrite (No' j Hn); apply (K_ap w G K j)].
    split; [exact AI'|].
    destruct FULL as [(src & t & lead & pli & plt & ents & lc & p0 & l & F)|[[_ RS2] _]].
    - apply F.
    - destruct RS2 as [((El & Ec & Ea & _) & _)|[(_ & _ & (El & Ec & Ea & _) & _)|[(src & f & mi & _ & _ & _ & _ & _ & El & _ & _ & Hc)|[(src & f & mi & _ & _ & _ & _ & El & Ec & Ea & _)|(_ & _ & _ & _ & (c & El) & Ec & Ea & _)]]]].
      + apply (ap_ok_same n n' APn Ea); [lia|congruence].
      + apply (ap_ok_same n n' APn Ea); [lia|congruence].
      + destruct Hc as [[Ec Ea]|(hi & e & _ & _ & _ & En')]; [apply (ap_ok_same n n' APn Ea); [lia|congruence]|].
        rewrite En'. set (n1 := set_match_index _ _).
        assert (F1 : applied n1 = applied n /\ commit n1 = commit n /\ log n1 = log n) by (destruct n; repeat split).
        destruct F1 as (F1 & F2 & F3). destruct AIn as (I0 & I1 & _).
        apply commit_to_ap; [apply (ap_ok_same n n1 APn F1); [lia|congruence]|lia|rewrite F2, F3; exact I1].
      + apply (ap_ok_same n n' APn Ea); [lia|congruence].
      + apply (ap_ok_same n n' APn Ea); [lia|]. rewrite El. destruct AIn as (I0 & I1 & _). apply firstn_app_le. unfold zlen in I1. lia. }

  assert (C_ci : forall j, In j (ids w') -> cprefix w' G' (term (nodes w' j)) (log (nodes w' j)) (commit (nodes w' j))).
  { intros j Hj. destruct (Z.eq_dec j i) as [->|Hn]; [rewrite (Nn' i eq_refl)|rewrite (No' j Hn); apply (CPF _ _ _ _ (Z.le_refl _)), (K_ci w G K j Hj)].
    pose proof (CPF _ _ _ _ Tn (K_ci w G K i Z0)) as CP. fold n in CP.
    destruct AI' as (J0 & J1 & _). destruct AIn as (I0 & I1 & _).
    assert (SameC : commit n' = commit n -> firstn (Z.to_nat (commit n)) (log n') = firstn (Z.to_nat (commit n)) (log n) ->
                    cprefix w' G' (term n') (log n') (commit n')).
    { intros Ec Ef. rewrite Ec. apply (CPlog _ (log n)); [exact CP|lia|exact Ef]. }
    destruct FULL as [(src & t & lead & pli & plt & ents & lc & p0 & l & F)|[[_ RS2] _]].
    - destruct F as (Ei & _ & _ & MI & _ & Fp & Fe & _ & _ & Fc & _ & _ & _ & _ & _ & Ft & Fa & Fb & Fk & _).
      destruct (Z_le_gt_dec lc (commit n)) as [Hle|Hgt]; [apply SameC; [lia|exact Fk]|].
      destruct MI as (_ & B1 & B2 & B3). replace (commit n') with lc by lia. rewrite Ft.
      assert (Hlen : zlen ents = zlen l) by (unfold zlen; rewrite Fe, with_index_length; reflexivity).
      apply (CPlog _ (g t)); [apply (CPF t t _ _ (Z.le_refl _) B3)|unfold zlen in *; lia|].
      apply (firstn_le_eq _ _ (p0 + length l)); [unfold zlen in *; lia|exact Fa].
    - destruct RS2 as [((El & Ec & _) & _)|[(_ & _ & (El & Ec & _) & _)|[(src & f & mi & _ & R & R' & T & _ & El & _ & Em & Hc)|[(src & f & mi & _ & _ & _ & _ & El & Ec & _)|(_ & _ & _ & _ & (c & El) & Ec & _)]]]].
      + apply SameC; congruence.
      + apply SameC; congruence.
      + destruct Hc as [[Ec _]|(hi & e & Hg & He & Hq & En')]; [apply SameC; congruence|].
        set (n1 := set_match_index _ _) in En'.
        assert (F1 : commit n1 = commit n /\ log n1 = log n) by (destruct n; split; reflexivity). destruct F1 as (F2 & F3).
        destruct (commit_to_commit n1 hi ltac:(lia) ltac:(rewrite F2, F3; exact I1)) as [Ecc _]. rewrite <- En', F2, F3 in Ecc.
        destruct (hi <=? commit n) eqn:Eh; [apply SameC; congruence|].
        destruct (log_get_nth _ _ _ Hg) as (H1 & Hn & Hs).
        assert (Hhi : hi <= zlen (log n)).
        { unfold log_get in Hg. destruct ((hi <? 1) || (hi >? zlen (log n))) eqn:Eb; [discriminate|lia]. }
        rewrite Ecc. replace (Z.min hi (zlen (log n))) with hi by lia.
        assert (Eg' : g' (term n') = log n') by (destruct GX as [[NR _]|(_ & _ & Eg & _)]; [contradiction|exact Eg]).
        right. exists (term n'), (Z.to_nat hi). split; [lia|]. split.
        * split; [lia|]. split.
          -- exists e. cbn [gg G']. rewrite Eg', El. replace (Z.to_nat hi - 1)%nat with (Z.to_nat (hi - 1)) by lia. split; [exact Hn|congruence].
          -- destruct (C_mi0 i) as [ND Keys]. rewrite (Nn' i eq_refl) in ND, Keys.
             destruct (count_ge_keys hi (match_index n') ND) as (ps & P1 & P2 & P3).
             exists (i :: ps). split; [|split].
             ++ constructor; [|exact P1]. intros Hin. destruct (P3 _ Hin) as (v & Hv & _).
                assert (In i (peers n')) by (apply Keys, afind_in; congruence).
                rewrite Vp in H. apply (peers_in w i i W) in H. destruct H; congruence.
             ++ pose proof (quorum_nquorum w i W Z0) as QQ. fold n in QQ. unfold zlen in *. cbn [length ids w']. lia.
             ++ intros q [<-|Hq']; cbn [gacc G' ids w'].
                ** split; [exact Z0|]. right. split; [reflexivity|]. split; [reflexivity|]. split; [rewrite El; unfold zlen in Hhi; lia|].
                   rewrite Eg'. reflexivity.
                ** destruct (P3 _ Hq') as (v & Hv & Hle).
                   pose proof (C_mi i Z0) as CM. rewrite (Nn' i eq_refl) in CM. destruct (CM R' q v Hv) as [_ CM2].
                   assert (A1 : acc' q (term n') (Z.to_nat hi)) by (apply (C_down q (term n') (Z.to_nat v)); [apply CM2; lia|lia]).
                   split; [apply (C_acc _ _ _ A1)|exact A1].
        * split; [lia|]. split; [lia|]. split; [rewrite El; exact Hhi|]. cbn [gg G']. rewrite Eg'. reflexivity.
      + apply SameC; congruence.
      + apply SameC; [congruence|]. rewrite El. apply firstn_app_le. unfold zlen in I1. lia. }
  assert (MSG_FWD : forall d s m, msg_inv w G d s m -> msg_inv w' G' d s m).
  { intros d s m. destruct m as [t c lli llt|t gr f|t lead pli plt ents lc|t su f mi]; cbn [msg_inv gV gg gel gacc G' ids w'].
    - intros (A & B & C & D). split; [exact A|]. split; [pose proof (TermMono s); lia|]. split.
      + destruct (Z.eq_dec s i) as [->|Hs]; [rewrite (Nn' i eq_refl)|rewrite (No' s Hs); exact C].
        intros Et Rc. fold n in B, C. destruct (V_cand _ _ _ _ VS Rc) as (El & [[R0 T0]|T0]); [|lia]. rewrite El. apply C; congruence.
      + intros Hl. destruct (LedNew _ _ Hl) as [Ho|(-> & -> & R')]; [rewrite (ElOld _ _ Ho); apply D, Ho|].
        fold n in B, C. destruct (role n) eqn:R.
        * destruct (NewLeader R' ltac:(congruence)) as (El & Ee & _ & [[Rc Tc]|Tc]); [congruence|lia].
        * destruct (NewLeader R' ltac:(congruence)) as (El & Ee & _ & [[Rc Tc]|Tc]); [|lia]. rewrite Ee, El. apply C; congruence.
        * destruct (L_lead _ _ _ _ LS R') as [[_ T]|[NR _]]; [|congruence].
          pose proof (OldLeader eq_refl) as Ho. rewrite <- T in Ho. rewrite (ElOld _ _ Ho). apply D, Ho.
    - destruct gr; [|auto]. intros (L & HL). exists L. apply Vold, HL.
    - intros (A & B & C & D). split; [apply (ae_ok2_fwd w w' G G' X G1), A|]. split; [exact B|]. split; [exact C|].
      pose proof (CPF t t _ _ (Z.le_refl _) D) as D'. destruct D as [D|(T & m & _ & _ & D1 & _ & D2 & _)]; [left; exact D|].
      fold g in D2, D'. destruct (GXT0 t) as (s0 & Es). apply (CPlog _ (g t) _ _ D'); [rewrite Es; unfold zlen in *; rewrite app_length; lia|].
      rewrite Es. apply firstn_app_le. unfold zlen in D2. lia.
    - destruct su; [|auto]. intros (A & B & C & D & E). repeat split; auto. }
  assert (C_msgs : forall d s m, In (d, s, m) (bag w') -> msg_inv w' G' d s m).
  { intros d s m H. cbn [bag w'] in H. apply in_app_or in H as [H|H]; [apply MSG_FWD, (K_msgs w G K _ _ _ H)|].
    apply sends_of_in in H as [-> H].
    destruct m as [t c lli llt|t gr f|t lead pli plt ents lc|t su f mi]; cbn [msg_inv gV gg gel gacc G' ids w'].
    - destruct (V_rv _ _ _ _ VS _ _ _ _ _ H) as (A & B & C & D & E & F & Hd).
      split; [apply (peers_in w i d W) in Hd; destruct Hd; auto|]. rewrite (Nn' i eq_refl). split; [lia|]. split; [auto|].
      intros Hl. destruct (LedNew _ _ Hl) as [Ho|(_ & _ & R')].
      + destruct (M_led w g M _ _ Ho) as (_ & Hle & _). fold n in Hle. lia.
      + destruct (role n) eqn:R.
        * destruct (NewLeader R' ltac:(congruence)) as (_ & Ee & _). rewrite A, Ee. auto.
        * destruct (NewLeader R' ltac:(congruence)) as (_ & Ee & _). rewrite A, Ee. auto.
        * destruct (L_lead _ _ _ _ LS R') as [[_ T]|[NR _]]; [lia|congruence].
    - destruct gr; [|auto]. pose proof (MO _ _ H) as Q. cbn in Q. destruct Q as (_ & Et & src & t0 & cand & a & b & Ei & Ed & Vc).
      subst inp. cbn in IO. subst cand d.
      pose proof (C_voted i src Z0) as CV. rewrite (Nn' i eq_refl) in CV. rewrite Et. apply CV, Vc.
    - assert (AF : ae_from n' o).
      { destruct FULL as [(src & t0 & lead0 & pli0 & plt0 & ents0 & lc0 & p0 & l & F)|[[AF _] _]]; [|exact AF].
        destruct F as (_ & _ & _ & _ & _ & _ & _ & _ & _ & _ & _ & Fo & _). rewrite Fo in H. destruct H as [H|[H|[]]]; discriminate. }
      destruct (AF _ _ _ _ _ _ _ H) as (R' & Hd & Ea).
      pose proof (C_ni i Z0) as CN. rewrite (Nn' i eq_refl) in CN. destruct (CN R' d Hd) as [N1 N2].
      destruct (aef_ok2 n' d N1 N2) as (pli' & plt' & ents' & Ea' & Ok & Hsum).
      rewrite Ea' in Ea. inversion Ea; subst t lead pli plt ents lc. clear Ea.
      assert (Eg' : g' (term n') = log n') by (destruct GX as [[NR _]|(_ & _ & Eg & _)]; [contradiction|exact Eg]).
      destruct AI' as (J0 & J1 & _).
      rewrite Eg'. split; [exact Ok|]. split; [exact J0|]. split; [lia|].
      pose proof (C_ci i Z0) as CC. rewrite (Nn' i eq_refl) in CC. exact CC.
    - destruct su; [|auto].
      destruct FULL as [(src & t0 & lead0 & pli0 & plt0 & ents0 & lc0 & p0 & l & F)|[[_ RS2] _]].
      + destruct F as (_ & _ & Hne & _ & _ & Fp & _ & _ & _ & _ & _ & Fo & _ & _ & Fr & Ft & Fa & Fb & _).
        rewrite Fo in H. destruct H as [H|[H|[]]]; [discriminate|]. inversion H; subst d t f mi. clear H.
        split; [exact Wnid|]. split; [exact Z0|]. split; [exact Hne|]. split; [unfold zlen; lia|]. intros _.
        right. split; [reflexivity|]. split; [symmetry; exact Ft|].
        replace (Z.to_nat (pli0 + zlen l)) with (p0 + length l)%nat by (unfold zlen; lia).
        split; [exact Fb|]. rewrite (Gsame ltac:(congruence)). exact Fa.
      + exfalso. destruct RS2 as [(_ & NA & _)|[(_ & _ & _ & NA)|[(src & f0 & mi0 & _ & _ & _ & _ & Eo & _)|[(src & f0 & mi0 & _ & _ & _ & _ & _ & _ & _ & _ & _ & NA)|(_ & _ & _ & Eo & _)]]]];
          try (eapply NA; eauto); rewrite Eo in H; destruct H. }
  (* ---- the invariant ---- *)
  constructor; cbn [gg gacc gV gel G']; auto.
Qed.
