(** C11 — the provable core of the liveness clause: ONE delivered
    AppendEntries brings a follower whose log is the leader's log up to
    next_index-1 completely up to date, and it answers success with
    match_index = the leader's last index.  (The end-to-end liveness statement —
    every command submitted to the established leader is applied everywhere —
    is checked by the oracle of the 'healthy' family, not proved.) *)
From HS Require Import Base.Prelude C11.Model C11.NodeProofs C11.Election C11.LogProofs.
Local Open Scope Z_scope.

Lemma alogs_append l : forall M, alogs M (length M) l = M ++ l.
Proof.
  induction l as [|[t cmd] l IH]; intros M; cbn [alogs]; [symmetry; apply app_nil_r|].
  assert (E : alog M (length M) t cmd = M ++ [(t, cmd)]).
  { unfold alog. replace (nth_error M (length M)) with (@None entry); [reflexivity|].
    symmetry. apply nth_error_None. lia. }
  rewrite E. replace (S (length M)) with (length (M ++ [(t, cmd)])) by (rewrite app_length; cbn; lia).
  rewrite IH, <- app_assoc. reflexivity.
Qed.

Lemma nth_error_firstn_lt {A} (L : list A) : forall n k, (k < n)%nat -> nth_error (firstn n L) k = nth_error L k.
Proof.
  induction L as [|x L IH]; intros n k H.
  - rewrite firstn_nil. reflexivity.
  - destruct n; [lia|]. destruct k; cbn; [reflexivity|]. apply IH. lia.
Qed.

Theorem replication_round n f (p : nat) :
  Z.of_nat p = aget (nid f) 1 (next_index n) - 1 ->
  (p <= length (log n))%nat ->
  log f = firstn p (log n) ->
  term f <= term n ->
  zmem (nid n) (peers f) = true ->
  match append_entries_for n (nid f) with
  | OSend d m =>
      d = nid f /\
      let r := node_step f (IMsg (nid n) m) in
      log (fst r) = log n /\
      term (fst r) = term n /\ role (fst r) = Follower /\ leader (fst r) = Some (nid n) /\
      In (OSend (nid n) (AppendResponse (term n) true (nid f) (last_index (log n)))) (snd r)
  | _ => False
  end.
Proof.
  intros Hp Hlen Hlog Hterm Hpeer. unfold append_entries_for. rewrite <- Hp.
  split; [reflexivity|]. cbn [node_step handle_msg]. unfold handle_append_entries.
  rewrite Hpeer. cbn [negb]. replace (term n <? term f) with false by lia.
  set (f1 := set_term (set_leader (step_down f (term n)) (Some (nid n))) (term n)).
  assert (L1 : log f1 = log f).
  { unfold f1. rewrite <- (step_down_log f (term n)). generalize (step_down f (term n)). intros m. destruct m; reflexivity. }
  assert (F1 : term f1 = term n /\ role f1 = Follower /\ leader f1 = Some (nid n) /\ nid f1 = nid f).
  { unfold f1. pose proof (step_down_fields f (term n)) as (A & B & C & D & E).
    revert A D. generalize (step_down f (term n)). intros m. destruct m; cbn. auto. }
  assert (Hfl : length (log f) = p) by (rewrite Hlog, firstn_length; lia).
  (* the consistency check passes *)
  assert (C : (if Z.of_nat p >? 0
               then match log_get (log f1) (Z.of_nat p) with
                    | Some e => fst e =? prev_term_of n (Z.of_nat p)
                    | None => false
                    end
               else true) = true).
  { destruct (Z.of_nat p >? 0) eqn:P; [|reflexivity].
    unfold prev_term_of. rewrite P.
    destruct p as [|q]; [discriminate|].
    replace (Z.of_nat (S q)) with (Z.of_nat q + 1) by lia. rewrite !log_get_nat, L1, Hlog.
    assert (E : nth_error (firstn (S q) (log n)) q = nth_error (log n) q).
    { apply nth_error_firstn_lt. lia. }
    rewrite E. destruct (nth_error (log n) q) eqn:N; [apply Z.eqb_refl|].
    apply nth_error_None in N. lia. }
  rewrite C. cbn [negb].
  replace (entries_after (log n) (Z.of_nat p)) with (with_index (Z.of_nat p) (skipn p (log n))).
  2:{ unfold entries_after. replace (Z.of_nat p <? 0) with false by lia. rewrite Nat2Z.id. reflexivity. }
  set (f2 := fold_left append_one (with_index (Z.of_nat p) (skipn p (log n))) f1).
  assert (L2 : log f2 = log n).
  { unfold f2. rewrite fold_append_log, L1. pose proof (alogs_append (skipn p (log n)) (log f)) as X.
    rewrite Hfl in X. rewrite X, Hlog. apply firstn_skipn. }
  assert (S2 : same_el_r f1 f2) by (apply fold_same_el_r; intros; apply append_one_elr).
  assert (Ld2 : leader f2 = leader f1).
  { unfold f2. generalize (with_index (Z.of_nat p) (skipn p (log n))) f1. clear.
    induction l as [|e es IH]; intros m; cbn; [reflexivity|]. rewrite IH.
    destruct e as [[idx et] cmd]. unfold append_one. destruct (log_get _ _).
    - destruct (negb _); [|reflexivity]. destruct (truncate_from _ _ _). destruct m; reflexivity.
    - destruct m; reflexivity. }
  match goal with |- context [if ?c then commit_to f2 ?x else f2] => set (f3 := if c then commit_to f2 x else f2) end.
  assert (S3 : same_el_r f2 f3 /\ log f3 = log f2 /\ leader f3 = leader f2).
  { unfold f3. match goal with |- context [if ?c then _ else _] => destruct c end.
    - split; [apply commit_to_elr|]. split; [apply commit_to_log|].
      unfold commit_to. destruct (advance_commit _ _ _) as [c' es]. unfold apply_committed.
      assert (H : forall es x, leader (fold_left apply_one es x) = leader x).
      { clear. induction es as [|e es IH]; intros x; cbn; [reflexivity|]. rewrite IH.
        destruct e as [[idx t] cmd]. unfold apply_one. destruct (idx >? last_applied x); [|reflexivity].
        cbn. destruct (afind _ _); destruct x; reflexivity. }
      rewrite H. destruct f2; reflexivity.
    - split; [apply same_el_r_refl|auto]. }
  destruct S3 as (S3 & L3 & Ld3). cbn [fst snd].
  destruct (same_el_r_trans _ _ _ S2 S3) as [(E1 & E2 & E3 & E4 & E5) R].
  destruct F1 as (T1 & R1 & Le1 & N1).
  repeat split; try congruence.
  right. left. rewrite E3, T1, E1, N1. do 3 f_equal.
  unfold last_index, zlen. rewrite with_index_length, skipn_length. lia.
Qed.

(** Hypotheses satisfiable: a fresh leader of a 3-node cluster after one submit, and a fresh follower. *)
Example replication_round_satisfiable :
  let n := node_run (init_node [0; 1; 2] 0) [ITimeout false; IMsg 1 (VoteResponse 1 true 1); ISubmit 5;
                                             IMsg 1 (AppendResponse 1 false 1 0)] in
  let f := init_node [0; 1; 2] 1 in
  Z.of_nat 0 = aget (nid f) 1 (next_index n) - 1 /\ (0 <= length (log n))%nat /\ log f = firstn 0 (log n) /\
  term f <= term n /\ zmem (nid n) (peers f) = true /\ log n = [(1, 5)].
Proof. vm_compute. repeat split; try reflexivity; try discriminate; auto with arith. Qed.
