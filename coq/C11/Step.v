(** C11 — the history invariant [cinv] is kept by every action of the cluster. *)
From HS Require Import Base.Prelude C11.Model C11.NodeProofs C11.Election C11.LogProofs C11.LogMatching C11.Steps
  C11.Ghost C11.LC C11.Stab.
Local Open Scope Z_scope.

(** How [g] changes in one step. *)
Definition gchange (w : net) (g g' : glog) (n n' : node) : Prop :=
  (role n' <> Leader /\ g' = g) \/
  (role n' = Leader /\ (forall t', t' <> term n' -> g' t' = g t') /\ g' (term n') = log n' /\
    ((role n = Leader /\ term n' = term n /\ g (term n') = log n /\ (log n' = log n \/ exists c, log n' = log n ++ [(term n, c)])) \/
     (role n <> Leader /\ g (term n') = [] /\ log n' = log n /\ (forall x, ~ In (term n', x) (led w))))).

Lemma g_step w g i inp :
  lm_inv w g -> lm_inv (net_apply w i inp) (gapply w g i inp) -> In i (ids w) ->
  gchange w g (gupd g (fst (node_step (nodes w i) inp))) (nodes w i) (fst (node_step (nodes w i) inp)).
Proof.
  intros M M' Z0.
  pose proof (node_step_lspec (nodes w i) inp) as LS.
  pose proof (node_step_spec (nodes w i) inp) as ((Vn & Vp & Vt & _) & _).
  pose proof (led_apply w i inp) as LED'.
  assert (Zm : negb (zmem i (ids w)) = false) by (apply negb_false_iff, zmem_in, Z0).
  rewrite Zm in LED'.
  set (n := nodes w i) in *. set (n' := fst (node_step n inp)) in *. set (o := snd (node_step n inp)) in *.
  unfold gchange, gupd. destruct (role n') eqn:R'; [left; split; [congruence|reflexivity]|left; split; [congruence|reflexivity]|].
  right. split; [reflexivity|]. split; [intros t' Ht; apply upd_other; exact Ht|]. split; [apply upd_same|].
  destruct (L_lead _ _ _ _ LS R') as [[R T]|[R E]].
  - left. split; [exact R|]. split; [exact T|]. split.
    + rewrite T. symmetry. apply (M_lead w g M i Z0 R).
    + destruct (L_log _ _ _ _ LS) as [E|[(_ & _ & _ & c & E)|A]]; [left; exact E|right; exists c; exact E|].
      destruct A as (src & t & lead & pli & plt & ents & lc & _ & _ & _ & RF & _). congruence.
  - right. split; [exact R|].
    assert (NoLed : forall x, ~ In (term n', x) (led w)).
    { intros x Hx. pose proof (M_net _ _ M') as W'.
      assert (x = i).
      { apply (led_unique (net_apply w i inp) (term n') x i W'); rewrite LED'; [right; exact Hx|left; reflexivity]. }
      subst x. destruct (M_led w g M _ _ Hx) as (_ & Hle & Hr). fold n in Hle, Hr.
      apply R, Hr. lia. }
    split; [|split; [exact E|exact NoLed]].
    destruct (g (term n')) as [|x r] eqn:Eg; [reflexivity|exfalso].
    destruct (M_gled w g M (term n')) as (j & Hj); [rewrite Eg; discriminate|]. apply (NoLed j Hj).
Qed.

(** The committed prefix of a node's log is a prefix of the log of every leader
    of a term at or above the node's. *)
Lemma commit_prefix_in_leader w G i t x :
  cinv w G -> In i (ids w) -> term (nodes w i) <= t -> In (t, x) (led w) ->
  firstn (Z.to_nat (commit (nodes w i))) (log (nodes w i)) = firstn (Z.to_nat (commit (nodes w i))) (gg G t).
Proof.
  intros K Z0 Ht Hl. destruct (K_ci w G K i Z0) as [E|(T & m & A & B & C & D & E & F)].
  - rewrite E. reflexivity.
  - rewrite F. destruct (Z.eq_dec T t) as [->|Ne]; [reflexivity|].
    symmetry. apply (firstn_le_eq _ _ m); [lia|]. apply (LC w G K T m B t x); [lia|exact Hl].
Qed.

Lemma accept_case w G i src t lead pli plt ents lc :
  cinv w G -> In i (ids w) ->
  In (t, src) (led w) -> msg_inv w G i src (AppendEntries t lead pli plt ents lc) ->
  zmem src (peers (nodes w i)) = true -> term (nodes w i) <= t ->
  (0 < pli -> exists e, nth_error (log (nodes w i)) (Z.to_nat pli - 1) = Some e /\ fst e = plt) ->
  let n := nodes w i in
  let r := handle_append_entries n src t lead pli plt ents lc in
  exists p l, pli = Z.of_nat p /\ ents = with_index pli l /\ l = firstn (length l) (skipn p (gg G t)) /\
    log (fst r) = alogs (log n) p l /\ commit (fst r) = Z.max (commit n) lc /\ ap_ok (fst r) /\
    snd r = [OElectionTimer; OSend src (AppendResponse t true (nid n) (pli + zlen l))] /\
    next_index (fst r) = next_index n /\ match_index (fst r) = match_index n /\ role (fst r) = Follower /\ term (fst r) = t /\
    firstn (p + length l) (log (fst r)) = firstn (p + length l) (gg G t) /\ (p + length l <= length (log (fst r)))%nat /\
    firstn (Z.to_nat (commit n)) (log (fst r)) = firstn (Z.to_nat (commit n)) (log n) /\
    (p <= length (log n))%nat.
Proof.
  intros K Z0 Hl ((A1 & A2 & A3 & A4) & B1 & B2 & B3) Ep Ht Hprev n r.
  pose proof (K_lm w G K) as M. set (g := gg G) in *.
  set (p := Z.to_nat pli). set (l := firstn (length ents) (skipn p (g t))).
  assert (Hlen : length l = length ents).
  { symmetry. rewrite A3 at 1. rewrite with_index_length. reflexivity. }
  assert (Ep' : pli = Z.of_nat p) by (unfold p; lia).
  destruct (K_ap w G K i) as [AI AP]. fold n in AI, AP.
  assert (Hpl : (p <= length (log n))%nat /\ firstn p (log n) = firstn p (g t)).
  { destruct (Z_lt_le_dec 0 pli) as [Hpos|Hnp].
    - destruct (Hprev Hpos) as (e & He1 & Hf1). destruct (A4 Hpos) as (e' & He2 & Hf2). fold p in He1, He2. fold n in He1.
      assert (p >= 1)%nat by (unfold p; lia).
      split; [assert (p - 1 < length (log n))%nat by (apply nth_error_Some; congruence); lia|].
      pose proof (M_logs w g M i (p - 1)%nat e He1) as X1. pose proof (M_g w g M t (p - 1)%nat e' He2) as X2.
      replace (S (p - 1)) with p in X1, X2 by lia. fold n in X1. rewrite X1, X2, Hf1, Hf2. reflexivity.
    - replace p with 0%nat by (unfold p; lia). split; [lia|reflexivity]. }
  destruct Hpl as [Hp1 Hp2].
  set (c := Z.to_nat (commit n)).
  assert (HC : firstn c (log n) = firstn c (g t)) by (apply (commit_prefix_in_leader w G i t src K Z0 Ht Hl)).
  assert (Hl' : l = firstn (length l) (skipn p (g t))) by (unfold l at 1; rewrite Hlen; reflexivity).
  assert (Hprev' : (0 < p)%nat -> exists e, nth_error (log n) (p - 1) = Some e /\ fst e = plt) by (intros; apply Hprev; lia).
  assert (Hcm : commit n = Z.of_nat c) by (unfold c; destruct AI; lia).
  assert (Hlc : lc <= Z.of_nat (p + length l)) by (rewrite Hlen; unfold zlen in B2; lia).
  pose proof (hae_accept n src t lead p plt l lc (g t) c Ep Ht Hprev' AI AP Hcm HC Hp1 Hl' B1 Hlc) as HA.
  cbv zeta in HA. rewrite <- Ep' in HA. replace (with_index pli l) with ents in HA by (rewrite A3; fold p; fold l; reflexivity).
  fold r in HA. destruct HA as (H1 & H2 & H3 & H4 & H5 & H6 & _ & H8 & H9).
  exists p, l. split; [exact Ep'|]. split; [rewrite A3; fold p; fold l; reflexivity|]. split; [exact Hl'|].
  split; [exact H1|]. split; [exact H2|]. split; [exact H3|]. split; [exact H4|]. split; [exact H5|]. split; [exact H6|].
  split; [exact H8|]. split; [exact H9|].
  destruct (alogs_match g (g t) l (log n) p (M_logs w g M i) (M_g w g M t) Hp2 Hp1 Hl') as [Q1 Q2].
  rewrite H1. split; [exact Q1|]. split; [exact Q2|]. split; [|exact Hp1].
  apply (alogs_keep (g t) l (log n) p c HC); [destruct AI as (_ & X & _); unfold c, zlen in *; lia|exact Hp1|exact Hl'].
Qed.
