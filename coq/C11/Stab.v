(** C11 — monotonicity of the history variables and stability of the
    predicates of C11/Ghost.v under it. *)
From HS Require Import Base.Prelude C11.Model C11.NodeProofs C11.Election C11.LogProofs C11.LogMatching C11.Steps C11.Ghost.
Local Open Scope Z_scope.

Lemma firstn_In' {A} (l : list A) : forall n x, In x (firstn n l) -> In x l.
Proof. induction l as [|y l IH]; intros [|n] x H; cbn in H; try contradiction. destruct H as [H|H]; [left; exact H|right; eapply IH; exact H]. Qed.

Record gmono (w w' : net) (G G' : ghost) : Prop := {
  X_ids : ids w' = ids w;
  X_led : forall x, In x (led w) -> In x (led w');
  X_acc : forall a t m, gacc G a t m -> gacc G' a t m;
  X_g : forall t, exists s, gg G' t = gg G t ++ s;
  X_gled : forall t x, In (t, x) (led w) -> exists s, gg G' t = gg G t ++ s /\ forall e, In e s -> fst e = t;
  X_V : forall r, In r (gV G) -> In r (gV G');
}.

Lemma gmono_refl w G : gmono w w G G.
Proof.
  constructor; auto.
  - intros t. exists []. rewrite app_nil_r. reflexivity.
  - intros t x _. exists []. rewrite app_nil_r. split; [reflexivity|intros e []].
Qed.

Section Stab.
Variables (w w' : net) (G G' : ghost).
Hypothesis X : gmono w w' G G'.
Hypothesis G1 : forall t e, In e (gg G t) -> 0 < fst e /\ fst e <= t.

Lemma firstn_fwd T m : (m <= length (gg G T))%nat -> firstn m (gg G' T) = firstn m (gg G T).
Proof. intros H. destruct (X_g _ _ _ _ X T) as (s & ->). apply firstn_app_le, H. Qed.

Lemma ownT_fwd T m : (1 <= m)%nat -> (m <= length (gg G T))%nat -> ownT (gg G) T m <-> ownT (gg G') T m.
Proof.
  intros H1 H2. unfold ownT. destruct (X_g _ _ _ _ X T) as (s & ->).
  rewrite nth_error_app1 by lia. reflexivity.
Qed.

Lemma hasP_fwd L T m : hasP (gg G) L T m -> hasP (gg G') L T m.
Proof.
  intros H. pose proof (hasP_len _ _ _ _ H) as Hl. destruct H as [A B]. split; [exact A|].
  rewrite firstn_fwd by exact Hl. exact B.
Qed.

Lemma bad_fwd T m hi hi' : (m <= length (gg G T))%nat -> hi <= hi' -> bad w (gg G) T m hi -> bad w' (gg G') T m hi'.
Proof.
  intros Hl Hh (t' & x & A & B & C & D). exists t', x. split; [exact A|]. split; [lia|]. split; [apply (X_led _ _ _ _ X), C|].
  rewrite (firstn_fwd T m Hl).
  destruct (X_gled _ _ _ _ X t' x C) as (s & -> & Hs).
  apply (neq_stable _ _ _ _ T D).
  - exact Hl.
  - intros e He. apply (G1 T e He).
  - intros e He. rewrite (Hs e He). exact A.
Qed.

Lemma dcommitted_fwd T m : (forall a t k, gacc G a t k -> (k <= length (gg G t))%nat) ->
  dcommitted w G T m -> dcommitted w' G' T m /\ firstn m (gg G' T) = firstn m (gg G T).
Proof.
  intros KA (A & B & Q & Q1 & Q2 & Q3).
  assert (Hl : (m <= length (gg G T))%nat).
  { destruct Q as [|q Q]; [unfold nquorum, zlen in Q2; cbn in Q2; lia|]. apply (KA q T m), (Q3 q), or_introl, eq_refl. }
  split; [|apply firstn_fwd, Hl].
  split; [exact A|]. split; [apply ownT_fwd; assumption|].
  exists Q. rewrite (X_ids _ _ _ _ X). split; [exact Q1|]. split; [exact Q2|].
  intros q Hq. destruct (Q3 q Hq). split; [assumption|apply (X_acc _ _ _ _ X); assumption].
Qed.

Lemma cprefix_fwd tt tt' L c : (forall a t k, gacc G a t k -> (k <= length (gg G t))%nat) ->
  tt <= tt' -> cprefix w G tt L c -> cprefix w' G' tt' L c.
Proof.
  intros KA Ht [H|(T & m & A & B & C & D & E & F)]; [left; exact H|right].
  destruct (dcommitted_fwd T m KA B) as [B' Eg]. exists T, m.
  split; [lia|]. split; [exact B'|]. split; [exact C|]. split; [exact D|]. split; [exact E|].
  rewrite F. symmetry. apply (firstn_le_eq _ _ m); [lia|exact Eg].
Qed.

Lemma ae_ok2_fwd t pli plt ents : ae_ok2 (gg G t) pli plt ents -> ae_ok2 (gg G' t) pli plt ents.
Proof.
  intros (A & B & C & D). destruct (X_g _ _ _ _ X t) as (s & ->). unfold ae_ok2, zlen in *.
  split; [exact A|]. split; [rewrite app_length; lia|]. split.
  - assert (Hk : (length ents <= length (skipn (Z.to_nat pli) (gg G t)))%nat).
    { rewrite C at 1. rewrite with_index_length, firstn_length. lia. }
    rewrite skipn_app. replace (Z.to_nat pli - length (gg G t))%nat with 0%nat by lia. cbn [skipn].
    rewrite firstn_app_le by exact Hk. exact C.
  - intros Hp. destruct (D Hp) as (e & He & Hf). exists e. split; [|exact Hf].
    rewrite nth_error_app1; [exact He|]. apply nth_error_Some. congruence.
Qed.
End Stab.

(* ------------------------------------------------------------------ *)
(** * Small facts *)
Lemma vchg_some n n' c : vchg n n' = Some c -> voted n' = Some c /\ ~ (voted n = Some c /\ term n' = term n).
Proof.
  unfold vchg. destruct (voted n') as [c'|]; [|discriminate].
  destruct (option_eqb Z.eqb (voted n) (Some c') && (term n' =? term n)) eqn:E; [discriminate|].
  intros H. inversion H; subst c'. split; [reflexivity|]. intros [A B]. rewrite A in E. cbn in E. rewrite Z.eqb_refl in E. cbn in E. lia.
Qed.

Lemma vchg_none n n' c : vchg n n' = None -> voted n' = Some c -> voted n = Some c /\ term n' = term n.
Proof.
  unfold vchg. intros H V. rewrite V in H.
  destruct (option_eqb Z.eqb (voted n) (Some c) && (term n' =? term n)) eqn:E; [|discriminate].
  apply andb_true_iff in E as [E1 E2]. split; [|lia].
  destruct (voted n) as [c0|]; cbn in E1; [|discriminate]. apply Z.eqb_eq in E1. congruence.
Qed.

Lemma uptodate_refl L : uptodate L L.
Proof. right. split; [reflexivity|lia]. Qed.

Lemma uptodate_of_z C L : uptodate_z (zlen C) (last_term C) L -> uptodate C L.
Proof. unfold uptodate_z, uptodate. lia. Qed.

Lemma alog_in L p t cmd e : In e (alog L p t cmd) -> In e L \/ e = (t, cmd).
Proof.
  unfold alog. destruct (nth_error L p) as [ex|].
  - destruct (fst ex =? t); [auto|]. intros H. apply in_app_or in H as [H|[H|[]]]; [left; eapply firstn_In'; exact H|auto].
  - intros H. apply in_app_or in H as [H|[H|[]]]; auto.
Qed.

Lemma alogs_in l : forall L p e, In e (alogs L p l) -> In e L \/ In e l.
Proof.
  induction l as [|[t cmd] l IH]; intros L p e H; cbn [alogs] in H; [auto|].
  destruct (IH _ _ _ H) as [H1|H1]; [|right; right; exact H1].
  destruct (alog_in _ _ _ _ _ H1) as [H2|H2]; [auto|right; left; auto].
Qed.

(** What a leader whose next_index is within bounds puts into an AppendEntries. *)
Lemma aef_ok2 n p : 1 <= aget p 1 (next_index n) -> aget p 1 (next_index n) <= zlen (log n) + 1 ->
  exists pli plt ents,
    append_entries_for n p = OSend p (AppendEntries (term n) (nid n) pli plt ents (commit n)) /\
    ae_ok2 (log n) pli plt ents /\ pli + zlen ents = zlen (log n).
Proof.
  intros H1 H2. unfold append_entries_for. set (prev := aget p 1 (next_index n) - 1).
  exists prev, (prev_term_of n prev), (entries_after (log n) prev). split; [reflexivity|].
  unfold entries_after. replace (prev <? 0) with false by lia.
  assert (Hs : length (skipn (Z.to_nat prev) (log n)) = (length (log n) - Z.to_nat prev)%nat) by apply skipn_length.
  unfold ae_ok2, zlen in *. split.
  - split; [lia|]. split; [lia|]. split.
    + rewrite with_index_length, firstn_all. reflexivity.
    + intros Hp. unfold prev_term_of. replace (prev >? 0) with true by lia.
      unfold log_get, zlen. replace ((prev <? 1) || (prev >? Z.of_nat (length (log n)))) with false by lia.
      replace (Z.to_nat (prev - 1)) with (Z.to_nat prev - 1)%nat by lia.
      destruct (nth_error (log n) (Z.to_nat prev - 1)) as [e|] eqn:E; [exists e; split; reflexivity|].
      apply nth_error_None in E. lia.
  - rewrite with_index_length, Hs. lia.
Qed.
