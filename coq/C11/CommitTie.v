(** C11 — the leader's commit rule, tied to the code: [RaftNode._try_advance_commit]
    as REGENERATED from consensus/raft.py ([Gen/RaftLogGen.v], py2coq: a descending
    [range] loop with [continue] / [break], an inner loop over [match_index.values()],
    a call of [Log.get] that can raise, [Log.advance_commit] on the log field) chooses
    exactly the index the model's [try_commit] chooses — the highest N above the commit
    index whose entry is of the CURRENT term and is matched by a quorum (counting the
    leader) — and advances the log's commit index as the model does.
    [_apply_committed] (state machine, futures, counters) touches none of the translated
    fields; it is declared a no-op in the translation and stays hand-modelled. *)
From HS Require Import Base.Prelude Base.PyLib C11.Model C11.NodeProofs C11.LogProofs C11.Steps Gen.RaftLogGen C11.GenTie.
Local Open Scope Z_scope.

(** the index [try_commit] commits to, if any *)
Fixpoint commit_target (lg : list entry) (mi : list (Z * Z)) (tm q hi : Z) (k : nat) : option Z :=
  match k with
  | O => None
  | S k' =>
      match log_get lg hi with
      | None => commit_target lg mi tm q (hi - 1) k'
      | Some e => if negb (fst e =? tm) then commit_target lg mi tm q (hi - 1) k'
                  else if 1 + count_ge hi mi >=? q then Some hi
                  else commit_target lg mi tm q (hi - 1) k'
      end
  end.

Lemma try_commit_target n : forall k hi,
  try_commit n hi k = match commit_target (log n) (match_index n) (term n) (quorum n) hi k with
                      | Some c => commit_to n c | None => n end.
Proof.
  induction k as [|k IH]; intros hi; cbn [try_commit commit_target]; [reflexivity|].
  destruct (log_get (log n) hi) as [e|]; [|apply IH].
  destruct (negb (fst e =? term n)); [apply IH|].
  destruct (1 + count_ge hi (match_index n) >=? quorum n); [reflexivity|apply IH].
Qed.

(** the inner loop counts the followers whose match index reaches [x] *)
Lemma count_loop (G : option (RaftNode * Z * bool) -> Z -> option (RaftNode * Z * bool)) x :
  (forall r c v, G (Some (r, c, false)) v = Some (r, c + (if v >=? x then 1 else 0), false)) ->
  forall m r c, fold_left G (map snd m) (Some (r, c, false)) = Some (r, c + count_ge x m, false).
Proof.
  intros HG. induction m as [|[a v] m IH]; intros r c; cbn [map fold_left count_ge snd]; [now rewrite Z.add_0_r|].
  rewrite HG, IH. f_equal. f_equal. f_equal. lia.
Qed.

(** once the loop has broken, the remaining iterations change nothing *)
Lemma broken_loop (F : option (RaftNode * bool) -> Z -> option (RaftNode * bool)) :
  (forall r x, F (Some (r, true)) x = Some (r, true)) ->
  forall l r, fold_left F l (Some (r, true)) = Some (r, true).
Proof. intros HF. induction l as [|x l IH]; intros r; cbn [fold_left]; [reflexivity|]. now rewrite HF, IH. Qed.

Definition with_commit (r : RaftNode) (c : Z) : RaftNode :=
  set_RaftNode__log r (fst (Log_advance_commit (RaftNode__log r) c)).

Theorem tie_try_advance_commit (r : RaftNode) :
  RaftNode__try_advance_commit r
  = Some (match commit_target (log_abs (RaftNode__log r)) (RaftNode__match_index r) (RaftNode__current_term r)
                              (RaftNode_quorum_size r) (Log_last_index (RaftNode__log r))
                              (Z.to_nat (Log_last_index (RaftNode__log r) - Log_commit_index (RaftNode__log r))) with
          | Some c => with_commit r c
          | None => r
          end, []).
Proof.
  unfold RaftNode__try_advance_commit, py_range_desc.
  match goal with |- context [fold_left ?F _ _] => set (F0 := F) end.
  assert (HB : forall r x, F0 (Some (r, true)) x = Some (r, true)) by reflexivity.
  assert (HL : forall k hi,
    fold_left F0 (py_range_down hi k) (Some (r, false))
    = Some (match commit_target (log_abs (RaftNode__log r)) (RaftNode__match_index r) (RaftNode__current_term r)
                                (RaftNode_quorum_size r) hi k with
            | Some c => (with_commit r c, true) | None => (r, false) end)).
  { induction k as [|k IH]; intros hi; cbn [py_range_down fold_left commit_target]; [reflexivity|].
    unfold F0 at 2. cbn beta iota.
    destruct (tie_log_get (RaftNode__log r) hi) as (e & Eg & Es). rewrite Eg, <- Es.
    destruct e as [e|]; cbn [option_map]; [|apply IH].
    change (fst (strip e)) with (LogEntry_term e).
    destruct (negb (LogEntry_term e =? RaftNode__current_term r)); [apply IH|].
    cbn zeta.
    rewrite (count_loop _ hi) by (intros r0 c v; cbn; destruct (v >=? hi); [reflexivity|now rewrite Z.add_0_r]).
    destruct (1 + count_ge hi (RaftNode__match_index r) >=? RaftNode_quorum_size r) eqn:Eq.
    - destruct (Log_advance_commit (RaftNode__log r) hi) as [L' nc] eqn:Ea.
      rewrite (broken_loop F0 HB). unfold with_commit. rewrite Ea. reflexivity.
    - apply IH. }
  rewrite HL. destruct (commit_target _ _ _ _ _ _); reflexivity.
Qed.

(** ... hence, on the code object of a model node (same log, commit index, term, match
    indices and cluster size), the translated method leaves exactly the log and commit
    index of the model's [try_advance_commit], changes nothing else, returns no events
    and does not raise. *)
Theorem code_try_advance_commit_refines_model (r : RaftNode) (n : node) :
  log n = log_abs (RaftNode__log r) -> commit n = Log_commit_index (RaftNode__log r) ->
  term n = RaftNode__current_term r -> match_index n = RaftNode__match_index r ->
  length (peers n) = length (RaftNode__peers r) ->
  log_wf (RaftNode__log r) -> 0 <= commit n -> commit n <= zlen (log n) ->
  exists r', RaftNode__try_advance_commit r = Some (r', [])
    /\ log_abs (RaftNode__log r') = log (try_advance_commit n)
    /\ Log_commit_index (RaftNode__log r') = commit (try_advance_commit n)
    /\ RaftNode__match_index r' = RaftNode__match_index r /\ RaftNode__current_term r' = RaftNode__current_term r
    /\ RaftNode__peers r' = RaftNode__peers r.
Proof.
  intros El Ec Et Em Ep W H0 H1. rewrite tie_try_advance_commit. eexists. split; [reflexivity|].
  unfold try_advance_commit. rewrite try_commit_target.
  rewrite (tie_raft_quorum r n Ep), tie_log_last_index, <- El, <- Ec, <- Et, <- Em.
  destruct (commit_target (log n) (match_index n) (term n) (quorum n) (last_index (log n))
              (Z.to_nat (last_index (log n) - commit n))) as [c|]; [|repeat split; congruence].
  unfold with_commit. cbn [RaftNode__log RaftNode__match_index RaftNode__current_term RaftNode__peers set_RaftNode__log].
  assert (H1' : Log_commit_index (RaftNode__log r) <= zlen (Log__entries (RaftNode__log r))).
  { rewrite <- Ec. rewrite El in H1. unfold log_abs in H1. rewrite zlen_map in H1. exact H1. }
  assert (H0' : 0 <= Log_commit_index (RaftNode__log r)) by (rewrite <- Ec; exact H0).
  destruct (tie_log_advance_commit (RaftNode__log r) c W H0' H1') as [A B]. cbn zeta in A, B.
  destruct (commit_to_commit n c H0 H1) as [C _].
  repeat split.
  - rewrite B, commit_to_log. congruence.
  - assert (X : Log_commit_index (fst (Log_advance_commit (RaftNode__log r) c)) = fst (advance_commit (log_abs (RaftNode__log r)) (Log_commit_index (RaftNode__log r)) c))
      by (rewrite <- A; reflexivity).
    rewrite X, C, <- El, <- Ec. unfold advance_commit. destruct (c <=? commit n); reflexivity.
  - congruence.
  - congruence.
Qed.

(** What the chosen index satisfies (the leader-completeness side condition of Raft's
    commit rule, Figure 8 of the Raft paper): its entry exists, is of the CURRENT term,
    and a quorum (the leader and the followers whose match index reaches it) holds it;
    it lies in (hi - k, hi] and is the highest such index. *)
Lemma commit_target_spec lg mi tm q : forall k hi c,
  commit_target lg mi tm q hi k = Some c ->
  hi - Z.of_nat k < c <= hi
  /\ (exists e, log_get lg c = Some e /\ fst e = tm)
  /\ q <= 1 + count_ge c mi
  /\ forall c', c < c' <= hi ->
       ~ ((exists e, log_get lg c' = Some e /\ fst e = tm) /\ q <= 1 + count_ge c' mi).
Proof.
  induction k as [|k IH]; intros hi c H; cbn [commit_target] in H; [discriminate|].
  assert (Step : commit_target lg mi tm q (hi - 1) k = Some c ->
                 ~ ((exists e, log_get lg hi = Some e /\ fst e = tm) /\ q <= 1 + count_ge hi mi) ->
                 hi - Z.of_nat (S k) < c <= hi /\ (exists e, log_get lg c = Some e /\ fst e = tm) /\ q <= 1 + count_ge c mi
                 /\ forall c', c < c' <= hi -> ~ ((exists e, log_get lg c' = Some e /\ fst e = tm) /\ q <= 1 + count_ge c' mi)).
  { intros H' Hn. destruct (IH _ _ H') as (A & B & C & D). repeat split; try lia; try assumption.
    intros c' Hc'. destruct (Z.eq_dec c' hi) as [->|Ne]; [exact Hn|apply D; lia]. }
  destruct (log_get lg hi) as [e|] eqn:Eg.
  - destruct (negb (fst e =? tm)) eqn:Et.
    + apply Step; [exact H|]. intros [[e' [E1 E2]] _]. try rewrite Eg in E1. inversion E1; subst e'. lia.
    + destruct (1 + count_ge hi mi >=? q) eqn:Eq.
      * inversion H; subst c. split; [lia|]. split; [exists e; split; [reflexivity || exact Eg|lia]|]. split; [lia|]. intros c' Hc'; lia.
      * apply Step; [exact H|]. intros [_ Hq]. lia.
  - apply Step; [exact H|]. intros [[e' [E1 _]] _]. try rewrite Eg in E1. discriminate.
Qed.
