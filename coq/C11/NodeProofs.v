(** C11 — node-local invariants of the RaftNode model, for EVERY input
    sequence (including forged or malformed messages): commands are applied
    at indices 1,2,3,... without gaps or repeats, commit_index never exceeds
    last_applied, and a future only resolves with an (index, command) pair this
    node applied. *)
From HS Require Import Base.Prelude C11.Model.
Local Open Scope Z_scope.

Fixpoint zseq (a : Z) (k : nat) : list Z :=
  match k with O => [] | S k' => a :: zseq (a + 1) k' end.

Lemma zseq_app a k : zseq a (k + 1) = zseq a k ++ [a + Z.of_nat k].
Proof.
  revert a; induction k as [|k IH]; intros a; cbn.
  - f_equal. lia.
  - rewrite IH. cbn. do 3 f_equal. lia.
Qed.

Lemma zlen_app {A} (a b : list A) : zlen (a ++ b) = zlen a + zlen b.
Proof. unfold zlen. rewrite app_length. lia. Qed.
Lemma zlen_nonneg {A} (a : list A) : 0 <= zlen a.
Proof. unfold zlen. lia. Qed.

(** The part of the invariant that concerns applying. *)
Definition applied_ok (n : node) : Prop :=
  last_applied n = zlen (applied n) /\
  map fst (applied n) = zseq 1 (length (applied n)) /\
  (forall f i c, In (f, i, c) (resolved n) -> In (i, c) (applied n)).

Definition apply_inv (n : node) : Prop :=
  0 <= commit n /\ commit n <= zlen (log n) /\ commit n <= last_applied n /\ applied_ok n.

Lemma apply_one_ok n idx t cmd :
  applied_ok n -> idx <= last_applied n + 1 ->
  applied_ok (apply_one n (idx, t, cmd)) /\
  last_applied (apply_one n (idx, t, cmd)) = Z.max (last_applied n) idx /\
  commit (apply_one n (idx, t, cmd)) = commit n /\ log (apply_one n (idx, t, cmd)) = log n.
Proof.
  intros (Hla & Hseq & Hres) Hidx. unfold apply_one.
  destruct (idx >? last_applied n) eqn:E.
  - assert (idx = last_applied n + 1) by lia. subst idx.
    assert (Hok : applied_ok (set_n_cmds (set_last_applied (set_applied n (applied n ++ [(last_applied n + 1, cmd)])) (last_applied n + 1)) (n_cmds n + 1))).
    { unfold applied_ok; cbn. repeat split.
      - rewrite zlen_app. unfold zlen at 2. cbn. lia.
      - rewrite map_app, app_length. cbn. rewrite zseq_app, Hseq. do 2 f_equal. rewrite Hla. unfold zlen. lia.
      - intros f i c Hin. apply in_or_app. left. eauto. }
    cbn. destruct (afind _ _) eqn:F; cbn.
    + repeat split; try lia; try reflexivity.
      * apply Hok.
      * apply Hok.
      * intros f i c Hin. apply in_app_or in Hin. destruct Hin as [Hin|[Hin|[]]].
        -- apply in_or_app. left. eauto.
        -- inversion Hin; subst. apply in_or_app. right. left. reflexivity.
    + repeat split; try lia; try reflexivity; apply Hok.
  - repeat split; auto; lia.
Qed.

Lemma with_index_length i l : length (with_index i l) = length l.
Proof. revert i; induction l as [|[t c] l IH]; intros i; cbn; auto. Qed.

Lemma apply_committed_ok l : forall n c,
  applied_ok n -> c <= last_applied n ->
  applied_ok (apply_committed n (with_index c l)) /\
  last_applied (apply_committed n (with_index c l)) = Z.max (last_applied n) (c + zlen l) /\
  commit (apply_committed n (with_index c l)) = commit n /\
  log (apply_committed n (with_index c l)) = log n.
Proof.
  unfold apply_committed.
  induction l as [|[t cmd] l IH]; intros n c Hok Hc.
  - cbn. repeat split; auto; try apply Hok. unfold zlen; cbn. lia.
  - destruct (apply_one_ok n (c + 1) t cmd Hok ltac:(lia)) as (Hok1 & Hla1 & Hc1 & Hl1).
    specialize (IH (apply_one n (c + 1, t, cmd)) (c + 1) Hok1 ltac:(lia)).
    destruct IH as (Hok2 & Hla2 & Hc2 & Hl2).
    change (with_index c ((t, cmd) :: l)) with ((c + 1, t, cmd) :: with_index (c + 1) l).
    cbn [fold_left]. repeat split; try apply Hok2.
    + rewrite Hla2, Hla1. unfold zlen. cbn [length]. lia.
    + congruence.
    + congruence.
Qed.

Lemma slice_length l a b : 0 <= a -> a <= b -> b <= zlen l -> zlen (slice l a b) = b - a.
Proof.
  intros Ha Hab Hb. unfold slice, zlen in *. rewrite firstn_length, skipn_length. lia.
Qed.

Lemma commit_to_inv n c : apply_inv n -> apply_inv (commit_to n c) /\ log (commit_to n c) = log n.
Proof.
  intros (H0 & Hlen & Hla & Hok). unfold commit_to, advance_commit.
  destruct (c <=? commit n) eqn:E; cbn.
  - split; [|reflexivity]. destruct n; unfold apply_inv, applied_ok in *; cbn in *. intuition.
  - apply Z.leb_gt in E.
    pose (c' := Z.min c (zlen (log n))).
    assert (Hok' : applied_ok (set_commit n c')) by (destruct n; exact Hok).
    destruct (apply_committed_ok (slice (log n) (commit n) c') (set_commit n c') (commit n) Hok' ltac:(destruct n; cbn in *; lia))
      as (Hok2 & Hla2 & Hc2 & Hl2).
    rewrite slice_length in Hla2 by (unfold c'; lia).
    replace (log (set_commit n c')) with (log n) in Hl2 by (destruct n; reflexivity).
    replace (commit (set_commit n c')) with c' in Hc2 by (destruct n; reflexivity).
    replace (last_applied (set_commit n c')) with (last_applied n) in Hla2 by (destruct n; reflexivity).
    fold c'. split; [|exact Hl2].
    unfold apply_inv. rewrite Hc2, Hl2, Hla2. split; [unfold c'; lia|split; [unfold c'; lia|split; [unfold c'; lia|exact Hok2]]].
Qed.

(** Handlers that do not touch log, commit index or applied state. *)
Definition same_core (n n' : node) : Prop :=
  commit n' = commit n /\ log n' = log n /\ last_applied n' = last_applied n /\
  applied n' = applied n /\ resolved n' = resolved n.

Lemma same_core_refl n : same_core n n.
Proof. unfold same_core; auto. Qed.
Lemma same_core_trans a b c : same_core a b -> same_core b c -> same_core a c.
Proof. unfold same_core; intuition congruence. Qed.
Lemma apply_inv_same_core n n' : same_core n n' -> apply_inv n -> apply_inv n'.
Proof.
  unfold same_core, apply_inv, applied_ok. intros (A & B & C & D & E). rewrite A, B, C, D, E. auto.
Qed.

Ltac core_simpl :=
  unfold same_core; cbn;
  repeat match goal with |- context [if ?b then _ else _] => destruct b; cbn end; auto 10.

Lemma step_down_core n t : same_core n (step_down n t).
Proof. unfold step_down. destruct n; core_simpl. Qed.

Lemma fold_core {A} (f : node -> A -> node) l : (forall a p, same_core a (f a p)) ->
  forall n, same_core n (fold_left f l n).
Proof.
  intros Hf. induction l as [|p l IH]; intros n; cbn; [apply same_core_refl|].
  eapply same_core_trans; [apply Hf|apply IH].
Qed.

Lemma become_leader_core n : same_core n (fst (become_leader n)).
Proof.
  unfold become_leader. cbn [fst].
  eapply same_core_trans; [|apply fold_core; intros a p; destruct a; core_simpl].
  destruct n; core_simpl.
Qed.

Lemma start_election_core n : same_core n (fst (start_election n)).
Proof.
  unfold start_election.
  match goal with |- context [if ?b then _ else _] => destruct b end.
  - match goal with |- context [become_leader ?x] => pose proof (become_leader_core x) as H; destruct (become_leader x) end.
    cbn [fst] in *. eapply same_core_trans; [|exact H]. destruct n; core_simpl.
  - cbn [fst]. destruct n; core_simpl.
Qed.

Lemma handle_timeout_core n c : same_core n (fst (handle_timeout n c)).
Proof.
  unfold handle_timeout. destruct c; [apply same_core_refl|].
  destruct (role_eqb _ _); [apply same_core_refl|apply start_election_core].
Qed.

Lemma handle_heartbeat_core n c : same_core n (fst (handle_heartbeat n c)).
Proof.
  unfold handle_heartbeat. destruct c; [apply same_core_refl|].
  destruct (negb _); apply same_core_refl.
Qed.

Lemma handle_request_vote_core n src t cand lli llt : same_core n (fst (handle_request_vote n src t cand lli llt)).
Proof.
  unfold handle_request_vote. destruct (negb (zmem src (peers n))); [apply same_core_refl|]. cbn [fst].
  set (n1 := if t >? term n then step_down n t else n).
  assert (H1 : same_core n n1) by (unfold n1; destruct (t >? term n); [apply step_down_core|apply same_core_refl]).
  destruct (vote_ok n1 t cand lli llt); [|exact H1].
  eapply same_core_trans; [exact H1|]. destruct n1; core_simpl.
Qed.

Lemma handle_vote_response_core n t g v : same_core n (fst (handle_vote_response n t g v)).
Proof.
  unfold handle_vote_response. destruct (t >? term n); [apply step_down_core|].
  destruct (_ || _); [apply same_core_refl|].
  set (n1 := if g then _ else n).
  assert (H1 : same_core n n1) by (unfold n1; destruct g; [destruct n; core_simpl|apply same_core_refl]).
  destruct (_ >=? _); [|exact H1].
  eapply same_core_trans; [exact H1|apply become_leader_core].
Qed.

(** The log-changing handlers. *)
Lemma zlen_firstn {A} (l : list A) k : 0 <= k -> k <= zlen l -> zlen (firstn (Z.to_nat k) l) = k.
Proof. unfold zlen. intros. rewrite firstn_length. lia. Qed.

Lemma append_one_inv n e : apply_inv n -> apply_inv (append_one n e).
Proof.
  destruct e as [[idx et] cmd]. intros (H0 & Hlen & Hla & Hok). unfold append_one, log_get.
  destruct ((idx <? 1) || (idx >? zlen (log n))) eqn:E.
  - destruct n; unfold apply_inv, applied_ok in *; cbn in *. rewrite zlen_app. match goal with |- context [zlen [?x]] => change (zlen [x]) with 1 end. intuition lia.
  - apply orb_false_elim in E. destruct E as [E1 E2].
    destruct (nth_error _ _) as [ex|].
    + destruct (negb (fst ex =? et)).
      * unfold truncate_from. rewrite E1, E2. cbn [orb].
        destruct n; unfold apply_inv, applied_ok in *; cbn in *.
        rewrite zlen_app, zlen_firstn by lia. change (zlen [(et, cmd)]) with 1.
        destruct (commit >=? idx) eqn:E3; intuition lia.
      * unfold apply_inv; auto.
    + destruct n; unfold apply_inv, applied_ok in *; cbn in *. rewrite zlen_app. match goal with |- context [zlen [?x]] => change (zlen [x]) with 1 end. intuition lia.
Qed.

Lemma fold_inv {A} (f : node -> A -> node) l : (forall a p, apply_inv a -> apply_inv (f a p)) ->
  forall n, apply_inv n -> apply_inv (fold_left f l n).
Proof. intros Hf. induction l; intros n Hn; cbn; auto. Qed.

Lemma handle_append_entries_inv n src t lead pli plt ents lc :
  apply_inv n -> apply_inv (fst (handle_append_entries n src t lead pli plt ents lc)).
Proof.
  intros Hn. unfold handle_append_entries.
  destruct (negb (zmem src (peers n))); [exact Hn|].
  destruct (t <? term n); [exact Hn|].
  set (n1 := set_term (set_leader (step_down n t) (Some lead)) t).
  assert (H1 : apply_inv n1).
  { eapply apply_inv_same_core; [|exact Hn]. unfold n1.
    eapply same_core_trans; [apply (step_down_core n t)|]. generalize (step_down n t). intros m; destruct m; core_simpl. }
  destruct (negb _); [exact H1|]. cbn [fst].
  set (n2 := fold_left append_one ents n1).
  assert (H2 : apply_inv n2) by (apply fold_inv; [intros; apply append_one_inv; auto|exact H1]).
  destruct (lc >? commit n2); [apply commit_to_inv; exact H2|exact H2].
Qed.

Lemma try_commit_inv k : forall n hi, apply_inv n -> apply_inv (try_commit n hi k).
Proof.
  induction k as [|k IH]; intros n hi Hn; cbn; auto.
  destruct (log_get _ _); auto.
  destruct (negb _); auto.
  destruct (_ >=? _); auto. apply commit_to_inv; auto.
Qed.

Lemma handle_append_response_inv n t s f mi :
  apply_inv n -> apply_inv (fst (handle_append_response n t s f mi)).
Proof.
  intros Hn. unfold handle_append_response.
  destruct (t >? term n); [eapply apply_inv_same_core; [apply step_down_core|exact Hn]|].
  destruct (negb _); [exact Hn|].
  destruct (t <? term n); [exact Hn|].
  destruct s; cbn [fst].
  - apply try_commit_inv. eapply apply_inv_same_core; [|exact Hn]. destruct n; core_simpl.
  - match goal with |- context [if ?b then _ else _] => destruct b end; cbn [fst];
      (eapply apply_inv_same_core; [|exact Hn]; destruct n; core_simpl).
Qed.

Lemma submit_inv n c : apply_inv n -> apply_inv (submit n c).
Proof.
  intros (H0 & Hlen & Hla & Hok). unfold submit.
  destruct (negb _).
  - destruct n; unfold apply_inv, applied_ok in *; cbn in *. intuition.
  - destruct n; unfold apply_inv, applied_ok in *; cbn in *. rewrite zlen_app. match goal with |- context [zlen [?x]] => change (zlen [x]) with 1 end. intuition lia.
Qed.

Lemma node_step_inv n i : apply_inv n -> apply_inv (fst (node_step n i)).
Proof.
  intros Hn. destruct i as [c|c|src m|cmd]; cbn [node_step].
  - eapply apply_inv_same_core; [apply handle_timeout_core|exact Hn].
  - eapply apply_inv_same_core; [apply handle_heartbeat_core|exact Hn].
  - destruct m; cbn [handle_msg].
    + eapply apply_inv_same_core; [apply handle_request_vote_core|exact Hn].
    + eapply apply_inv_same_core; [apply handle_vote_response_core|exact Hn].
    + apply handle_append_entries_inv; exact Hn.
    + apply handle_append_response_inv; exact Hn.
  - apply submit_inv; exact Hn.
Qed.

Lemma init_node_inv ids i : apply_inv (init_node ids i).
Proof. unfold apply_inv, applied_ok, init_node, zlen; cbn. repeat split; try lia; try (intros ? ? ? []). Qed.

Lemma node_run_inv is : forall n, apply_inv n -> apply_inv (node_run n is).
Proof. induction is as [|i r IH]; intros n Hn; cbn; auto. apply IH, node_step_inv, Hn. Qed.

(** Headline: for every input sequence whatsoever. *)
Theorem apply_in_order ids i inputs :
  let n := node_run (init_node ids i) inputs in
  map fst (applied n) = zseq 1 (length (applied n)) /\
  last_applied n = zlen (applied n) /\
  commit n <= last_applied n /\
  (forall f idx c, In (f, idx, c) (resolved n) -> In (idx, c) (applied n)).
Proof.
  cbn. destruct (node_run_inv inputs _ (init_node_inv ids i)) as (H0 & Hlen & Hla & (A & B & C)).
  auto.
Qed.
