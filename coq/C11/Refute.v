(** C11 — the submit-future clause is FALSE of the faithful model (known
    finding C11-future-keyed-by-index), with a concrete 3-node schedule. *)
From HS Require Import Base.Prelude C11.Model.
Local Open Scope Z_scope.

(** The command passed to the k-th [submit] call (k = 0,1,...) at node i. *)
Fixpoint submitted (acts : list action) (i k : Z) : option Z :=
  match acts with
  | [] => None
  | ASubmit j c :: r =>
      if j =? i then (if k =? 0 then Some c else submitted r i (k - 1)) else submitted r i k
  | _ :: r => submitted r i k
  end.

(** "A client's submit future resolves only with the index at which exactly its
    command was committed": at least, the result it resolves with is the result
    of its own command (the recording state machine returns the command). *)
Definition submit_future_statement : Prop :=
  forall l acts i f idx res, NoDup l -> In i l ->
    In (f, idx, res) (resolved (nodes (net_run (net_init l) acts) i)) ->
    submitted acts i f = Some res.

(** n0 leads term 1 and accepts submit(12) at index 1 (never replicated); n1 is
    elected in term 2 by n2, accepts submit(21) at index 1 and commits it with
    n2; n1's AppendEntries makes n0 replace its entry 1, apply 21 and resolve
    the future of 12 with (1, 21). *)
Definition future_witness : list action :=
  [ATimeout 0; ADeliver 1%nat; ADeliver 1%nat; ADrop 0%nat; ADrop 0%nat; ADrop 0%nat; ASubmit 0 12;
   ATimeout 1; ADrop 0%nat; ADrop 0%nat; ATimeout 1; ADeliver 1%nat; ADeliver 1%nat;
   ADrop 0%nat; ADrop 0%nat; ADrop 0%nat; ASubmit 1 21; AHeartbeat 1; ADeliver 1%nat; ADeliver 1%nat;
   ADrop 0%nat; AHeartbeat 1; ADeliver 0%nat].

Lemma future_witness_resolved :
  resolved (nodes (net_run (net_init [0; 1; 2]) future_witness) 0) = [(0, 1, 21)] /\
  submitted future_witness 0 0 = Some 12.
Proof. vm_compute. split; reflexivity. Qed.

Theorem submit_future_refuted : ~ submit_future_statement.
Proof.
  intros H.
  assert (ND : NoDup [0; 1; 2]).
  { repeat constructor; cbn; intros H'; repeat (destruct H' as [H'|H']; try discriminate); exact H'. }
  specialize (H [0; 1; 2] future_witness 0 0 1 21 ND (or_introl eq_refl)).
  destruct future_witness_resolved as [R S]. rewrite R, S in H. clear R S.
  specialize (H (or_introl eq_refl)). discriminate H.
Qed.
