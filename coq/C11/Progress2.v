(** C11 — two more hops of the liveness clause, each for every node state that
    satisfies the stated hypotheses: a quorum of successful replies makes the
    leader commit (and apply), and the next AppendEntries makes an in-sync
    follower commit (and apply) what the leader has committed. *)
From HS Require Import Base.Prelude C11.Model C11.NodeProofs C11.Election C11.LogProofs C11.LogMatching C11.Steps C11.Progress.
Local Open Scope Z_scope.

Lemma try_commit_ge : forall k n hi0 hi e,
  apply_inv n -> log_get (log n) hi = Some e -> fst e = term n ->
  1 + count_ge hi (match_index n) >= quorum n -> commit n < hi -> hi <= hi0 -> hi0 - Z.of_nat k < hi ->
  hi <= commit (try_commit n hi0 k).
Proof.
  induction k as [|k IH]; intros n hi0 hi e AI G T Q C H1 H2; [lia|]. cbn [try_commit].
  assert (Step : hi0 <> hi -> hi <= commit (try_commit n (hi0 - 1) k)) by (intros Ne; apply (IH n (hi0 - 1) hi e); auto; lia).
  destruct (log_get (log n) hi0) as [e0|] eqn:G0.
  - destruct (negb (fst e0 =? term n)) eqn:E1.
    + apply Step. intros ->. rewrite G in G0. inversion G0; subst e0. lia.
    + destruct (1 + count_ge hi0 (match_index n) >=? quorum n) eqn:E2.
      * destruct AI as (A0 & A1 & _). destruct (commit_to_commit n hi0 A0 A1) as [Ec _]. rewrite Ec.
        replace (hi0 <=? commit n) with false by lia.
        unfold log_get in G0. destruct ((hi0 <? 1) || (hi0 >? zlen (log n))) eqn:Eb; [discriminate|]. lia.
      * apply Step. intros ->. lia.
  - apply Step. intros ->. congruence.
Qed.

(** A successful reply that completes a quorum for an entry of the leader's own
    term makes the leader commit at least up to that entry, and everything
    committed is applied. *)
Theorem commit_on_quorum n src f mi hi e :
  role n = Leader -> apply_inv n -> log_get (log n) hi = Some e -> fst e = term n -> commit n < hi ->
  1 + count_ge hi (aset f mi (match_index n)) >= quorum n ->
  let n' := fst (node_step n (IMsg src (AppendResponse (term n) true f mi))) in
  hi <= commit n' /\ commit n' <= last_applied n' /\ role n' = Leader /\ log n' = log n.
Proof.
  intros R AI G T C Q. cbv zeta.
  pose proof (node_step_inv n (IMsg src (AppendResponse (term n) true f mi)) AI) as AI'.
  cbn [node_step handle_msg] in *. unfold handle_append_response in *.
  replace (term n >? term n) with false in * by lia. rewrite R in *. cbn [role_eqb negb] in *.
  replace (term n <? term n) with false in * by lia. cbn [fst] in *.
  set (n1 := set_match_index (set_next_index n (aset f (mi + 1) (next_index n))) (aset f mi (match_index n))) in *.
  assert (F : log n1 = log n /\ commit n1 = commit n /\ term n1 = term n /\ match_index n1 = aset f mi (match_index n) /\
              quorum n1 = quorum n /\ role n1 = Leader /\ apply_inv n1).
  { destruct n; cbn in *. repeat split; auto; try apply AI. }
  destruct F as (F1 & F2 & F3 & F4 & F5 & F6 & F7).
  unfold try_advance_commit in *.
  destruct (try_commit_fields (Z.to_nat (last_index (log n1) - commit n1)) n1 (last_index (log n1))) as (L & Rr & _).
  split; [|split; [apply AI'|split; [congruence|congruence]]].
  assert (Hhi : 1 <= hi /\ hi <= zlen (log n)).
  { unfold log_get in G. destruct ((hi <? 1) || (hi >? zlen (log n))) eqn:Eb; [discriminate|]. lia. }
  apply (try_commit_ge _ n1 (last_index (log n1)) hi e).
  - exact F7.
  - rewrite F1. exact G.
  - congruence.
  - rewrite F4, F5. exact Q.
  - lia.
  - unfold last_index. rewrite F1. lia.
  - unfold last_index. rewrite F1, F2. destruct AI as (A0 & A1 & _). lia.
Qed.

(** The next AppendEntries hands an in-sync follower the leader's commit index:
    it commits exactly that far (its log is then the leader's) and has applied
    everything it committed, each applied command being the log's entry. *)
Theorem follower_learns_commit n f (p : nat) :
  Z.of_nat p = aget (nid f) 1 (next_index n) - 1 -> (p <= length (log n))%nat -> log f = firstn p (log n) ->
  term f <= term n -> zmem (nid n) (peers f) = true ->
  apply_inv f -> ap_ok f -> apply_inv n ->
  match append_entries_for n (nid f) with
  | OSend d m =>
      let r := node_step f (IMsg (nid n) m) in
      log (fst r) = log n /\ commit (fst r) = Z.max (commit f) (commit n) /\ commit (fst r) <= last_applied (fst r) /\ ap_ok (fst r)
  | _ => False
  end.
Proof.
  intros Hp Hlen Hlog Hterm Hpeer AIf APf AIn.
  pose proof (replication_round n f p Hp Hlen Hlog Hterm Hpeer) as RR.
  unfold append_entries_for in *. rewrite <- Hp in *. destruct RR as (_ & RR). cbv zeta in RR. destruct RR as (RL & _).
  cbv zeta. split; [exact RL|].
  set (m := AppendEntries (term n) (nid n) (Z.of_nat p) (prev_term_of n (Z.of_nat p)) (entries_after (log n) (Z.of_nat p)) (commit n)) in *.
  pose proof (node_step_inv f (IMsg (nid n) m) AIf) as AI'.
  assert (Hfl : length (log f) = p) by (rewrite Hlog, firstn_length; lia).
  assert (Ee : entries_after (log n) (Z.of_nat p) = with_index (Z.of_nat p) (skipn p (log n))).
  { unfold entries_after. replace (Z.of_nat p <? 0) with false by lia. rewrite Nat2Z.id. reflexivity. }
  destruct AIn as (N0 & N1 & _).
  assert (Hprev : (0 < p)%nat -> exists e, nth_error (log f) (p - 1) = Some e /\ fst e = prev_term_of n (Z.of_nat p)).
  { intros Hpos. unfold prev_term_of. replace (Z.of_nat p >? 0) with true by lia.
    replace (Z.of_nat p) with (Z.of_nat (p - 1) + 1) by lia. rewrite log_get_nat.
    rewrite Hlog, (nth_error_firstn_lt (log n) p (p - 1)) by lia.
    destruct (nth_error (log n) (p - 1)) as [e|] eqn:E; [exists e; split; reflexivity|].
    apply nth_error_None in E. lia. }
  set (c := Z.to_nat (commit f)).
  assert (Hc : (c <= p)%nat) by (destruct AIf as (A0 & A1 & _); unfold c, zlen in *; lia).
  pose proof (hae_accept f (nid n) (term n) (nid n) p (prev_term_of n (Z.of_nat p)) (skipn p (log n)) (commit n) (log n) c
                Hpeer Hterm Hprev AIf APf) as HA.
  cbv zeta in HA. cbn [node_step handle_msg]. unfold m. rewrite Ee.
  destruct HA as (H1 & H2 & H3 & _).
  - destruct AIf as (A0 & _). unfold c. lia.
  - rewrite Hlog, firstn_firstn. f_equal. lia.
  - lia.
  - rewrite firstn_all. reflexivity.
  - exact N0.
  - rewrite skipn_length. unfold zlen in N1. lia.
  - split; [exact H2|]. split; [|exact H3].
    cbn [node_step handle_msg] in AI'. unfold m in AI'. rewrite Ee in AI'. apply AI'.
Qed.

Example progress_satisfiable :
  let w := net_run (net_init [0; 1; 2]) [ATimeout 0; ADeliver 0%nat; ADeliver 1%nat; ASubmit 0 7; AHeartbeat 0; ADeliver 4%nat] in
  role (nodes w 0) = Leader /\ log_get (log (nodes w 0)) 1 = Some (1, 7) /\ commit (nodes w 0) = 0 /\
  1 + count_ge 1 (aset 2 1 (match_index (nodes w 0))) >= quorum (nodes w 0) /\
  commit (fst (node_step (nodes w 0) (IMsg 2 (AppendResponse 1 true 2 1)))) = 1.
Proof. vm_compute. repeat split; discriminate. Qed.
