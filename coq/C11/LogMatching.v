(** C11 — cluster-level LOG MATCHING, proved for every schedule of the cluster
    model (any cluster, any interleaving of deliveries, drops, timeouts,
    heartbeats, submits).

    Ghost variable: [g t] = the log of the leader of term [t] as of its latest
    step as leader of [t] (one leader per term: Election.v; a leader's log only
    grows: LogProofs.leader_append_only).  Invariant: every log, every [g t]
    and every AppendEntries message in flight is "prefix-consistent" with [g]:
    an entry of term t' at position j comes with exactly the first j entries of
    [g t'].  Two logs that share (index, term) then share the whole prefix. *)
From HS Require Import Base.Prelude C11.Model C11.NodeProofs C11.Election C11.LogProofs.
Local Open Scope Z_scope.

(* ------------------------------------------------------------------ *)
(** * Prefix consistency *)
Definition glog := Z -> list entry.

Definition pok (g : glog) (L : list entry) : Prop :=
  forall j e, nth_error L j = Some e -> firstn (S j) L = firstn (S j) (g (fst e)).

Lemma pok_nil g : pok g [].
Proof. intros j e H. destruct j; discriminate. Qed.

Lemma nth_error_firstn {A} (l : list A) c j : (j < c)%nat -> nth_error (firstn c l) j = nth_error l j.
Proof.
  revert l j; induction c as [|c IH]; intros l j H; [lia|].
  destruct l as [|x l]; [destruct j; reflexivity|]. destruct j; cbn; [reflexivity|]. apply IH. lia.
Qed.

Lemma nth_error_firstn_some {A} (l : list A) c j e : nth_error (firstn c l) j = Some e -> (j < c)%nat /\ nth_error l j = Some e.
Proof.
  intros H. assert (j < length (firstn c l))%nat by (apply nth_error_Some; congruence).
  rewrite firstn_length in H0. split; [lia|]. rewrite <- H. symmetry. apply nth_error_firstn. lia.
Qed.

Lemma pok_firstn g L c : pok g L -> pok g (firstn c L).
Proof.
  intros H j e Hj. apply nth_error_firstn_some in Hj as [Hlt Hj].
  rewrite firstn_firstn. replace (Nat.min (S j) c) with (S j) by lia. apply (H j e Hj).
Qed.

Lemma firstn_S_nth {A} (l : list A) j e : nth_error l j = Some e -> firstn (S j) l = firstn j l ++ [e].
Proof.
  revert l; induction j as [|j IH]; intros [|x l] H; try discriminate; cbn in *.
  - inversion H; reflexivity.
  - f_equal. apply IH, H.
Qed.

(** Entries of term [t] only ever sit at positions below [length (g t)]. *)
Lemma pok_len g L j e : pok g L -> nth_error L j = Some e -> (S j <= length (g (fst e)))%nat.
Proof.
  intros H Hj. pose proof (H j e Hj) as E.
  assert (length (firstn (S j) L) = S j).
  { rewrite firstn_length. assert (j < length L)%nat by (apply nth_error_Some; congruence). lia. }
  rewrite E, firstn_length in H0. lia.
Qed.

(** Changing [g] at [t] by appending (or from []) keeps every consistent list consistent. *)
Definition gext (g g' : glog) (t : Z) : Prop :=
  (forall t', t' <> t -> g' t' = g t') /\ exists suffix, g' t = g t ++ suffix.

Lemma pok_gext g g' t L : gext g g' t -> pok g L -> pok g' L.
Proof.
  intros [Ho [sfx Ht]] H j e Hj. rewrite (H j e Hj).
  destruct (Z.eq_dec (fst e) t) as [E|E].
  - rewrite E, Ht. pose proof (pok_len g L j e H Hj) as Hl. rewrite E in Hl.
    rewrite firstn_app. replace (S j - length (g t))%nat with 0%nat by lia. cbn. rewrite app_nil_r. reflexivity.
  - rewrite (Ho _ E). reflexivity.
Qed.

(** One step of the follower's append loop against a consistent source [G]. *)
Lemma alog_pok g G L c t cmd :
  pok g L -> pok g G -> firstn c L = firstn c G -> nth_error G c = Some (t, cmd) -> (c <= length L)%nat ->
  pok g (alog L c t cmd) /\ firstn (S c) (alog L c t cmd) = firstn (S c) G.
Proof.
  intros HL HG Hpre HGc Hc. unfold alog.
  assert (EG : firstn (S c) G = firstn c G ++ [(t, cmd)]) by (apply firstn_S_nth, HGc).
  destruct (nth_error L c) as [ex|] eqn:E.
  - destruct (fst ex =? t) eqn:Et.
    + apply Z.eqb_eq in Et. split; [exact HL|].
      rewrite (HL c ex E), Et. rewrite (HG c (t, cmd) HGc). reflexivity.
    + split.
      * rewrite Hpre, <- EG. apply pok_firstn, HG.
      * rewrite Hpre, <- EG. rewrite firstn_firstn. f_equal. lia.
  - apply nth_error_None in E. assert (Hc' : c = length L) by lia.
    replace (L ++ [(t, cmd)]) with (firstn c L ++ [(t, cmd)]) by (rewrite Hc', firstn_all; reflexivity).
    split.
    + rewrite Hpre, <- EG. apply pok_firstn, HG.
    + rewrite Hpre, <- EG. rewrite firstn_firstn. f_equal. lia.
Qed.

Lemma nth_error_skipn' {A} (l : list A) c j : nth_error (skipn c l) j = nth_error l (c + j).
Proof. revert l; induction c as [|c IH]; intros l; [reflexivity|]. destruct l; [destruct j; reflexivity|]. apply IH. Qed.

Lemma alog_length L c t cmd : (c <= length L)%nat -> (S c <= length (alog L c t cmd))%nat.
Proof. intros H. destruct (alog_spec L c t cmd H) as (_ & A & _). exact A. Qed.

Lemma alogs_pok g G l : forall L c,
  pok g L -> pok g G -> firstn c L = firstn c G -> (c <= length L)%nat ->
  l = firstn (length l) (skipn c G) ->
  pok g (alogs L c l).
Proof.
  induction l as [|[t cmd] l IH]; intros L c HL HG Hpre Hc Hl; cbn [alogs]; [exact HL|].
  assert (HGc : nth_error G c = Some (t, cmd)).
  { cbn [length] in Hl. destruct (skipn c G) as [|x r] eqn:Es; [discriminate|].
    cbn [firstn] in Hl. inversion Hl; subst x.
    assert (X : nth_error (skipn c G) 0 = Some (t, cmd)) by (rewrite Es; reflexivity).
    rewrite nth_error_skipn' in X. rewrite Nat.add_0_r in X. exact X. }
  destruct (alog_pok g G L c t cmd HL HG Hpre HGc Hc) as [P1 P2].
  apply (IH _ (S c) P1 HG P2 (alog_length L c t cmd Hc)).
  cbn [length] in Hl. destruct (skipn c G) as [|x r] eqn:Es; [discriminate|].
  cbn [firstn] in Hl. injection Hl as Hx Hr.
  assert (Er : skipn (S c) G = r).
  { clear -Es. revert G Es. induction c as [|c IHc]; intros G Es; destruct G as [|y G]; cbn in *; try discriminate.
    - inversion Es; reflexivity.
    - apply IHc, Es. }
  rewrite Er. exact Hr.
Qed.

(* ------------------------------------------------------------------ *)
(** * What a node puts into an AppendEntries message *)
Definition ae_ok (G : list entry) (pli plt : Z) (ents : list (Z * Z * Z)) : Prop :=
  ents = [] \/
  (ents = with_index (Z.of_nat (Z.to_nat pli)) (firstn (length ents) (skipn (Z.to_nat pli) G)) /\
   (0 < pli -> exists e, nth_error G (Z.to_nat pli - 1) = Some e /\ fst e = plt)).

Lemma with_index_nil i l : with_index i l = [] -> l = [].
Proof. destruct l as [|[t c] l]; [reflexivity|discriminate]. Qed.

Lemma append_entries_for_ok n p :
  match append_entries_for n p with
  | OSend d (AppendEntries t lead pli plt ents lc) => d = p /\ t = term n /\ lead = nid n /\ ae_ok (log n) pli plt ents
  | _ => False
  end.
Proof.
  unfold append_entries_for. set (prev := aget p 1 (next_index n) - 1).
  repeat split. unfold ae_ok, entries_after, prev_term_of.
  destruct (prev <? 0) eqn:Eneg.
  - (* negative prev behaves as 0 *)
    right. replace (Z.to_nat prev) with 0%nat by lia. cbn [Z.to_nat skipn Z.of_nat].
    rewrite with_index_length, firstn_all. split; [reflexivity|lia].
  - destruct (prev >? 0) eqn:Epos.
    + unfold log_get. destruct ((prev <? 1) || (prev >? zlen (log n))) eqn:Er.
      * (* beyond the end of the log: no entries *)
        left. replace (prev <? 1) with false in Er by lia. cbn in Er. unfold zlen in Er.
        rewrite skipn_all2 by lia. reflexivity.
      * right. rewrite Z2Nat.id by lia. rewrite with_index_length, firstn_all. split; [reflexivity|].
        intros _. replace (Z.to_nat (prev - 1)) with (Z.to_nat prev - 1)%nat by lia.
        destruct (nth_error (log n) (Z.to_nat prev - 1)) as [e|] eqn:E.
        -- exists e. split; reflexivity.
        -- exfalso. apply nth_error_None in E. unfold zlen in Er. lia.
    + right. assert (prev = 0) by lia. rewrite H. cbn [Z.to_nat skipn Z.of_nat].
      rewrite with_index_length, firstn_all. split; [reflexivity|lia].
Qed.

(** All AppendEntries messages among the outputs come from [append_entries_for m p]
    for a node state [m] with the given log / term / id and a peer [p]. *)
Definition ae_out (L : list entry) (tm nd : Z) (ps : list Z) (o : list output) : Prop :=
  forall d t lead pli plt ents lc, In (OSend d (AppendEntries t lead pli plt ents lc)) o ->
    t = tm /\ lead = nd /\ In d ps /\ ae_ok L pli plt ents.

Lemma ae_out_nil L tm nd ps : ae_out L tm nd ps [].
Proof. intros d t lead pli plt ents lc []. Qed.

Lemma ae_out_app L tm nd ps a b : ae_out L tm nd ps a -> ae_out L tm nd ps b -> ae_out L tm nd ps (a ++ b).
Proof. intros A B d t lead pli plt ents lc H. apply in_app_or in H as [H|H]; [eapply A|eapply B]; eauto. Qed.

Lemma ae_out_timer L tm nd ps x : (x = OElectionTimer \/ x = OHeartbeatTimer) -> ae_out L tm nd ps [x].
Proof. intros [-> | ->] d t lead pli plt ents lc [H|[]]; discriminate. Qed.

Lemma ae_out_cons_other L tm nd ps x o :
  (forall d t lead pli plt ents lc, x <> OSend d (AppendEntries t lead pli plt ents lc)) ->
  ae_out L tm nd ps o -> ae_out L tm nd ps (x :: o).
Proof. intros Hx Ho d t lead pli plt ents lc [H|H]; [exfalso; eapply Hx; eauto|eapply Ho; eauto]. Qed.

Lemma send_append_entries_out n : ae_out (log n) (term n) (nid n) (peers n) (send_append_entries n).
Proof.
  unfold send_append_entries. intros d t lead pli plt ents lc H.
  apply in_map_iff in H as (p & E & Hp). pose proof (append_entries_for_ok n p) as K. rewrite E in K.
  destruct K as (-> & -> & -> & K). repeat split; auto.
Qed.

Lemma become_leader_facts n :
  let r := become_leader n in
  log (fst r) = log n /\ term (fst r) = term n /\ nid (fst r) = nid n /\ peers (fst r) = peers n /\ role (fst r) = Leader
  /\ ae_out (log n) (term n) (nid n) (peers n) (snd r).
Proof.
  unfold become_leader. cbn [fst snd].
  set (n1 := set_leader (set_role n Leader) (Some (nid n))).
  assert (F : forall l m, log (fold_left (fun a p => set_match_index (set_next_index a (aset p (last_index (log a) + 1) (next_index a))) (aset p 0 (match_index a))) l m) = log m
                          /\ term (fold_left (fun a p => set_match_index (set_next_index a (aset p (last_index (log a) + 1) (next_index a))) (aset p 0 (match_index a))) l m) = term m
                          /\ nid (fold_left (fun a p => set_match_index (set_next_index a (aset p (last_index (log a) + 1) (next_index a))) (aset p 0 (match_index a))) l m) = nid m
                          /\ peers (fold_left (fun a p => set_match_index (set_next_index a (aset p (last_index (log a) + 1) (next_index a))) (aset p 0 (match_index a))) l m) = peers m
                          /\ role (fold_left (fun a p => set_match_index (set_next_index a (aset p (last_index (log a) + 1) (next_index a))) (aset p 0 (match_index a))) l m) = role m).
  { induction l as [|p l IH]; intros m; cbn [fold_left]; [repeat split|].
    destruct (IH (set_match_index (set_next_index m (aset p (last_index (log m) + 1) (next_index m))) (aset p 0 (match_index m)))) as (A & B & C & D & E).
    rewrite A, B, C, D, E. destruct m; repeat split. }
  destruct (F (peers n1) n1) as (A & B & C & D & E).
  assert (L1 : log n1 = log n /\ term n1 = term n /\ nid n1 = nid n /\ peers n1 = peers n /\ role n1 = Leader) by (destruct n; repeat split).
  destruct L1 as (A1 & B1 & C1 & D1 & E1).
  split; [congruence|]. split; [congruence|]. split; [congruence|]. split; [congruence|]. split; [congruence|].
  apply ae_out_app; [|apply ae_out_timer; auto].
  match goal with |- ae_out _ _ _ _ (send_append_entries ?m) => set (n2 := m) in * end.
  replace (log n) with (log n2) by congruence. replace (term n) with (term n2) by congruence.
  replace (nid n) with (nid n2) by congruence. replace (peers n) with (peers n2) by congruence.
  apply send_append_entries_out.
Qed.

(* ------------------------------------------------------------------ *)
(** * One handler invocation: log, role, AppendEntries sent *)
Definition no_ae (o : list output) : Prop :=
  forall d t lead pli plt ents lc, ~ In (OSend d (AppendEntries t lead pli plt ents lc)) o.

Definition accepts (n : node) (inp : input) (n' : node) : Prop :=
  exists src t lead pli plt ents lc,
    inp = IMsg src (AppendEntries t lead pli plt ents lc) /\ zmem src (peers n) = true /\ term n <= t /\
    role n' = Follower /\ term n' = t /\
    (0 < pli -> exists e, nth_error (log n) (Z.to_nat pli - 1) = Some e /\ fst e = plt) /\
    (forall l, ents = with_index (Z.of_nat (Z.to_nat pli)) l -> log n' = alogs (log n) (Z.to_nat pli) l).

Record lspec (n : node) (inp : input) (n' : node) (o : list output) : Prop := {
  L_out : (role n' = Leader /\ ae_out (log n') (term n') (nid n') (peers n') o) \/ no_ae o;
  L_log : log n' = log n
          \/ (role n = Leader /\ role n' = Leader /\ term n' = term n /\ exists c, log n' = log n ++ [(term n, c)])
          \/ accepts n inp n';
  L_lead : role n' = Leader -> (role n = Leader /\ term n' = term n) \/ (role n <> Leader /\ log n' = log n);
  L_stay : role n = Leader -> term n' = term n ->
           role n' = Leader \/ exists src lead pli plt ents lc,
             inp = IMsg src (AppendEntries (term n) lead pli plt ents lc) /\ zmem src (peers n) = true;
}.

Lemma no_ae_nil : no_ae [].
Proof. intros d t lead pli plt ents lc []. Qed.
Lemma no_ae_cons x o : (forall d t lead pli plt ents lc, x <> OSend d (AppendEntries t lead pli plt ents lc)) -> no_ae o -> no_ae (x :: o).
Proof. intros Hx Ho d t lead pli plt ents lc [H|H]; [eapply Hx; eauto|eapply Ho; eauto]. Qed.
Lemma no_ae_app a b : no_ae a -> no_ae b -> no_ae (a ++ b).
Proof. intros A B d t lead pli plt ents lc H. apply in_app_or in H as [H|H]; [eapply A|eapply B]; eauto. Qed.

Ltac noae := repeat first [apply no_ae_nil | apply no_ae_cons; [intros; discriminate|]].

Lemma role_eqb_true a b : role_eqb a b = true -> a = b.
Proof. destruct a, b; cbn; congruence. Qed.
Lemma role_eqb_false a b : role_eqb a b = false -> a <> b.
Proof. destruct a, b; cbn; congruence. Qed.

(** Handlers that leave log and role alone and send no AppendEntries. *)
Lemma lspec_quiet n inp n' o :
  log n' = log n -> role n' = role n -> term n <= term n' -> (role n = Leader -> term n' = term n) -> no_ae o -> lspec n inp n' o.
Proof.
  intros HL HR HT HT' HO. constructor.
  - right. exact HO.
  - left. exact HL.
  - intros R. rewrite HR in R. left. split; [exact R|apply HT', R].
  - intros R _. left. congruence.
Qed.

(** A handler that ends as Follower with the log untouched. *)
Lemma lspec_follower n inp n' o :
  log n' = log n -> role n' = Follower -> term n < term n' -> no_ae o -> lspec n inp n' o.
Proof.
  intros HL HR HT HO. constructor.
  - right. exact HO.
  - left. exact HL.
  - intros R. congruence.
  - intros _ E. lia.
Qed.

Lemma step_down_facts n t :
  log (step_down n t) = log n /\ role (step_down n t) = Follower /\ term (step_down n t) = t /\
  nid (step_down n t) = nid n /\ peers (step_down n t) = peers n.
Proof. unfold step_down. destruct (t >? term n); destruct n; repeat split. Qed.

Lemma start_election_lspec n inp : role n <> Leader ->
  lspec n inp (fst (start_election n)) (snd (start_election n)).
Proof.
  intros NL. unfold start_election.
  set (n1 := set_n_votes _ _).
  assert (F1 : log n1 = log n /\ term n1 = term n + 1 /\ role n1 = Candidate) by (destruct n; repeat split).
  destruct F1 as (A & B & C).
  set (rvs := map _ (peers n1)).
  assert (Hrvs : no_ae rvs).
  { intros d t lead pli plt ents lc H. unfold rvs in H. apply in_map_iff in H as (p & E & _). discriminate. }
  destruct (zlen (votes n1) >=? quorum n1).
  - pose proof (become_leader_facts n1) as (L1 & L2 & L3 & L4 & L5 & L6).
    destruct (become_leader n1) as [n2 o2]. cbn [fst snd] in *. constructor.
    + left. split; [exact L5|]. rewrite L1, L2, L3, L4.
      intros d t lead pli plt ents lc H. apply in_app_or in H as [H|H]; [exfalso; eapply Hrvs; eauto|eapply L6; eauto].
    + left. congruence.
    + intros _. right. split; [exact NL|congruence].
    + intros R. contradiction.
  - cbn [fst snd]. constructor.
    + right. apply no_ae_app; [exact Hrvs|noae].
    + left. exact A.
    + intros R. congruence.
    + intros R. contradiction.
Qed.

Lemma handle_timeout_lspec n c inp : lspec n inp (fst (handle_timeout n c)) (snd (handle_timeout n c)).
Proof.
  unfold handle_timeout. destruct c; cbn [fst snd].
  - apply lspec_quiet; auto; try lia; noae.
  - destruct (role_eqb (role n) Leader) eqn:E; cbn [fst snd].
    + apply lspec_quiet; auto; try lia; noae.
    + apply start_election_lspec. apply role_eqb_false, E.
Qed.

Lemma handle_heartbeat_lspec n c inp : lspec n inp (fst (handle_heartbeat n c)) (snd (handle_heartbeat n c)).
Proof.
  unfold handle_heartbeat. destruct c; cbn [fst snd].
  - apply lspec_quiet; auto; try lia; noae.
  - destruct (role_eqb (role n) Leader) eqn:E; cbn [negb fst snd].
    + apply role_eqb_true in E. constructor.
      * left. split; [exact E|]. apply ae_out_app; [apply send_append_entries_out|apply ae_out_timer; auto].
      * left. reflexivity.
      * intros _. left. split; [exact E|reflexivity].
      * intros _ _. left. exact E.
    + apply lspec_quiet; auto; try lia; noae.
Qed.

Lemma handle_request_vote_lspec n inp src t cand lli llt :
  lspec n inp (fst (handle_request_vote n src t cand lli llt)) (snd (handle_request_vote n src t cand lli llt)).
Proof.
  unfold handle_request_vote. destruct (negb (zmem src (peers n))); cbn [fst snd].
  - apply lspec_quiet; auto; try lia; noae.
  - destruct (t >? term n) eqn:Et.
    + pose proof (step_down_facts n t) as (A & B & C & _).
      set (n1 := step_down n t) in *.
      assert (V : vote_ok n1 t cand lli llt = true -> t >= term n1) by (unfold vote_ok; intros H; apply andb_true_iff in H as [H _]; apply andb_true_iff in H as [H _]; lia).
      destruct (vote_ok n1 t cand lli llt); cbn [fst snd].
      * apply lspec_follower; [destruct n1; cbn in *; exact A|destruct n1; cbn in *; exact B|destruct n1; cbn in *; lia|noae].
      * apply lspec_follower; [exact A|exact B|lia|noae].
    + destruct (vote_ok n t cand lli llt) eqn:V; cbn [fst snd].
      * assert (t = term n) by (unfold vote_ok in V; apply andb_true_iff in V as [V _]; apply andb_true_iff in V as [V _]; lia).
        apply lspec_quiet; [destruct n; reflexivity|destruct n; reflexivity|destruct n; cbn in *; lia|destruct n; cbn in *; lia|noae].
      * apply lspec_quiet; auto; try lia; noae.
Qed.

Lemma handle_vote_response_lspec n inp t g voter :
  lspec n inp (fst (handle_vote_response n t g voter)) (snd (handle_vote_response n t g voter)).
Proof.
  unfold handle_vote_response. destruct (t >? term n) eqn:Et; cbn [fst snd].
  - pose proof (step_down_facts n t) as (A & B & C & _). apply lspec_follower; auto; [lia|noae].
  - destruct (negb (role_eqb (role n) Candidate) || negb (t =? term n)) eqn:E; cbn [fst snd].
    + apply lspec_quiet; auto; try lia; noae.
    + apply orb_false_iff in E as [E1 E2]. apply negb_false_iff, role_eqb_true in E1.
      set (n1 := if g then _ else n).
      assert (F1 : log n1 = log n /\ term n1 = term n /\ role n1 = role n) by (unfold n1; destruct g; destruct n; repeat split).
      destruct F1 as (A & B & C).
      destruct (zlen (votes n1) >=? quorum n1).
      * pose proof (become_leader_facts n1) as (L1 & L2 & L3 & L4 & L5 & L6).
        destruct (become_leader n1) as [n2 o2]. cbn [fst snd] in *. constructor.
        -- left. split; [exact L5|]. rewrite L1, L2, L3, L4. exact L6.
        -- left. congruence.
        -- intros _. right. split; [congruence|congruence].
        -- intros R. congruence.
      * cbn [fst snd]. apply lspec_quiet; auto; try lia; try congruence; noae.
Qed.

Lemma fold_append_fields es : forall m,
  role (fold_left append_one es m) = role m /\ term (fold_left append_one es m) = term m.
Proof.
  induction es as [|e es IH]; intros m; cbn [fold_left]; [split; reflexivity|].
  destruct (IH (append_one m e)) as [A B]. rewrite A, B.
  destruct e as [[idx et] cmd]. unfold append_one. destruct (log_get _ _).
  - destruct (negb _); [|split; reflexivity]. destruct (truncate_from _ _ _). destruct m; split; reflexivity.
  - destruct m; split; reflexivity.
Qed.

Lemma commit_to_fields m c : role (commit_to m c) = role m /\ term (commit_to m c) = term m.
Proof.
  destruct (commit_to_elr m c) as [(_ & _ & T & _) R]. split; assumption.
Qed.

Lemma handle_append_entries_lspec n src t lead pli plt ents lc :
  let inp := IMsg src (AppendEntries t lead pli plt ents lc) in
  lspec n inp (fst (handle_append_entries n src t lead pli plt ents lc)) (snd (handle_append_entries n src t lead pli plt ents lc)).
Proof.
  cbv zeta. unfold handle_append_entries.
  destruct (negb (zmem src (peers n))) eqn:Ep; cbn [fst snd].
  { apply lspec_quiet; auto; try lia; noae. }
  apply negb_false_iff in Ep.
  destruct (t <? term n) eqn:Et; cbn [fst snd].
  { apply lspec_quiet; auto; try lia; noae. }
  pose proof (step_down_facts n t) as (A & B & C & _).
  set (n1 := set_term (set_leader (step_down n t) (Some lead)) t).
  assert (F1 : log n1 = log n /\ role n1 = Follower /\ term n1 = t).
  { unfold n1. revert A B C. generalize (step_down n t). intros m A B C. destruct m; cbn in *. auto. }
  destruct F1 as (A1 & B1 & C1).
  match goal with |- context [negb ?c] => destruct c eqn:Cons end; cbn [negb fst snd].
  2:{ (* rejected: Follower, log untouched *)
      constructor.
      - right. noae.
      - left. exact A1.
      - intros R. congruence.
      - intros R E. right. exists src, lead, pli, plt, ents, lc. split; [|exact Ep]. do 2 f_equal. lia. }
  set (n2 := fold_left append_one ents n1).
  destruct (fold_append_fields ents n1) as [R2 T2]. fold n2 in R2, T2.
  set (n3 := if lc >? commit n2 then commit_to n2 (Z.min lc (last_index (log n2))) else n2).
  assert (F3 : log n3 = log n2 /\ role n3 = Follower /\ term n3 = t).
  { unfold n3. destruct (lc >? commit n2).
    - destruct (commit_to_fields n2 (Z.min lc (last_index (log n2)))) as [Rc Tc].
      rewrite commit_to_log, Rc, Tc. repeat split; congruence.
    - repeat split; congruence. }
  destruct F3 as (A3 & B3 & C3).
  constructor.
  - right. noae.
  - right. right. exists src, t, lead, pli, plt, ents, lc.
    split; [reflexivity|]. split; [exact Ep|]. split; [lia|]. split; [exact B3|]. split; [exact C3|]. split.
    + intros Hp. replace (pli >? 0) with true in Cons by lia.
      unfold log_get in Cons. destruct ((pli <? 1) || (pli >? zlen (log n1))) eqn:Er; [discriminate|].
      replace (Z.to_nat pli - 1)%nat with (Z.to_nat (pli - 1)) by lia. rewrite <- A1.
      destruct (nth_error (log n1) (Z.to_nat (pli - 1))) as [e|]; [|discriminate].
      exists e. split; [reflexivity|]. lia.
    + intros l El. rewrite A3. unfold n2. rewrite El, fold_append_log, A1. reflexivity.
  - intros R. congruence.
  - intros R E. right. exists src, lead, pli, plt, ents, lc. split; [|exact Ep]. do 2 f_equal. lia.
Qed.

Lemma try_commit_fields k : forall m hi,
  log (try_commit m hi k) = log m /\ role (try_commit m hi k) = role m /\ term (try_commit m hi k) = term m.
Proof.
  induction k as [|k IH]; intros m hi; cbn; [repeat split|].
  destruct (log_get _ _); auto. destruct (negb _); auto. destruct (_ >=? _); auto.
  destruct (commit_to_fields m hi) as [R T]. rewrite commit_to_log, R, T. repeat split.
Qed.

Lemma handle_append_response_lspec n inp t s f mi :
  lspec n inp (fst (handle_append_response n t s f mi)) (snd (handle_append_response n t s f mi)).
Proof.
  unfold handle_append_response. destruct (t >? term n) eqn:Et; cbn [fst snd].
  - pose proof (step_down_facts n t) as (A & B & C & _). apply lspec_follower; auto; [lia|noae].
  - destruct (negb (role_eqb (role n) Leader)) eqn:E; cbn [fst snd].
    + apply lspec_quiet; auto; try lia; noae.
    + apply negb_false_iff, role_eqb_true in E.
      destruct (t <? term n); cbn [fst snd]; [apply lspec_quiet; auto; try lia; noae|].
      destruct s; cbn [fst snd].
      * unfold try_advance_commit.
        match goal with |- context [try_commit ?m ?hi ?k] => destruct (try_commit_fields k m hi) as (A & B & C) end.
        apply lspec_quiet; [rewrite A; destruct n; reflexivity|rewrite B; destruct n; reflexivity|rewrite C; destruct n; cbn; lia|
                            intros _; rewrite C; destruct n; reflexivity|noae].
      * set (n1 := set_next_index n _).
        assert (F1 : log n1 = log n /\ role n1 = role n /\ term n1 = term n /\ nid n1 = nid n /\ peers n1 = peers n) by (destruct n; repeat split).
        destruct F1 as (A & B & C & D & P).
        destruct (zmem f (peers n1)) eqn:Em; cbn [fst snd].
        -- constructor.
           ++ left. split; [congruence|].
              intros d t0 lead pli plt ents lc [H|[]].
              pose proof (append_entries_for_ok n1 f) as K. rewrite H in K. destruct K as (-> & -> & -> & K).
              repeat split; auto. apply zmem_in. exact Em.
           ++ left. exact A.
           ++ intros _. left. split; [exact E|exact C].
           ++ intros _ _. left. congruence.
        -- apply lspec_quiet; auto; try lia; try congruence; noae.
Qed.

Lemma submit_lspec n inp c : lspec n inp (submit n c) [].
Proof.
  unfold submit. destruct (negb (role_eqb (role (set_nfut n (nfut n + 1))) Leader)) eqn:E.
  - apply lspec_quiet; [destruct n; reflexivity|destruct n; reflexivity|destruct n; cbn; lia|intros _; destruct n; reflexivity|noae].
  - apply negb_false_iff, role_eqb_true in E.
    assert (RL : role n = Leader) by (destruct n; exact E).
    constructor.
    + right. noae.
    + right. left. split; [exact RL|]. split; [destruct n; exact E|]. split; [destruct n; reflexivity|].
      exists c. destruct n; reflexivity.
    + intros _. left. split; [exact RL|destruct n; reflexivity].
    + intros _ _. left. destruct n; exact E.
Qed.

Theorem node_step_lspec n inp : lspec n inp (fst (node_step n inp)) (snd (node_step n inp)).
Proof.
  destruct inp as [c|c|src m|cmd]; cbn [node_step].
  - apply handle_timeout_lspec.
  - apply handle_heartbeat_lspec.
  - destruct m; cbn [handle_msg].
    + apply handle_request_vote_lspec.
    + apply handle_vote_response_lspec.
    + apply handle_append_entries_lspec.
    + apply handle_append_response_lspec.
  - apply submit_lspec.
Qed.

(* ------------------------------------------------------------------ *)
(** * The ghost run *)
Definition gupd (g : glog) (n' : node) : glog :=
  match role n' with Leader => upd g (term n') (log n') | _ => g end.

Definition gapply (w : net) (g : glog) (i : Z) (inp : input) : glog :=
  if negb (zmem i (ids w)) then g else gupd g (fst (node_step (nodes w i) inp)).

Definition gstep (w : net) (g : glog) (a : action) : glog :=
  match a with
  | ADeliver k =>
      match nth_error (bag w) k with
      | None => g
      | Some (d, s, m) => gapply (mkNet (ids w) (nodes w) (remove_nth k (bag w)) (cast w) (led w)) g d (IMsg s m)
      end
  | ADrop _ => g
  | ATimeout i => gapply w g i (ITimeout false)
  | AHeartbeat i => gapply w g i (IHeartbeat false)
  | ASubmit i c => gapply w g i (ISubmit c)
  end.

Fixpoint grun (w : net) (g : glog) (acts : list action) : net * glog :=
  match acts with
  | [] => (w, g)
  | a :: r => grun (net_step w a) (gstep w g a) r
  end.

Lemma grun_fst acts : forall w g, fst (grun w g acts) = net_run w acts.
Proof. unfold net_run. induction acts as [|a r IH]; intros w g; cbn; [reflexivity|apply IH]. Qed.

(* ------------------------------------------------------------------ *)
(** * The invariant *)
Record lm_inv (w : net) (g : glog) : Prop := {
  M_net : net_inv w;
  M_ledc : led_complete w;
  M_g : forall t, pok g (g t);
  M_logs : forall i, pok g (log (nodes w i));
  M_msgs : forall d s t lead pli plt ents lc, In (d, s, AppendEntries t lead pli plt ents lc) (bag w) ->
             In (t, s) (led w) /\ d <> s /\ ae_ok (g t) pli plt ents;
  M_lead : forall i, In i (ids w) -> role (nodes w i) = Leader -> log (nodes w i) = g (term (nodes w i));
  M_gled : forall t, g t <> [] -> exists i, In (t, i) (led w);
  M_led : forall t i, In (t, i) (led w) ->
            In i (ids w) /\ t <= term (nodes w i) /\ (term (nodes w i) = t -> role (nodes w i) = Leader);
}.

Lemma led_unique w t a b : net_inv w -> In (t, a) (led w) -> In (t, b) (led w) -> a = b.
Proof.
  intros W Ha Hb.
  destruct (I_l1 w W _ _ Ha) as (va & NDa & Qa & Ca).
  destruct (I_l1 w W _ _ Hb) as (vb & NDb & Qb & Cb).
  destruct (quorums_intersect (ids w) va vb NDa NDb) as (v & Hva & Hvb).
  - intros v Hv. apply (I_g1 w W _ _ _ (Ca v Hv)).
  - intros v Hv. apply (I_g1 w W _ _ _ (Cb v Hv)).
  - unfold nquorum in *. lia.
  - apply (I_g3 w W v t a b); auto.
Qed.

Lemma ae_ok_ext G sfx pli plt ents : ae_ok G pli plt ents -> ae_ok (G ++ sfx) pli plt ents.
Proof.
  intros [H|[H1 H2]]; [left; exact H|].
  remember (Z.to_nat pli) as p eqn:Ep.
  destruct (Nat.le_gt_cases p (length G)) as [Hp|Hp].
  - right. rewrite <- Ep. split.
    + assert (Hk : (length ents <= length (skipn p G))%nat).
      { rewrite H1 at 1. rewrite with_index_length, firstn_length. lia. }
      assert (E : firstn (length ents) (skipn p (G ++ sfx)) = firstn (length ents) (skipn p G)).
      { rewrite skipn_app. replace (p - length G)%nat with 0%nat by lia. cbn [skipn].
        rewrite firstn_app. replace (length ents - length (skipn p G))%nat with 0%nat by lia.
        cbn [firstn]. apply app_nil_r. }
      rewrite E. exact H1.
    + intros Hpos. destruct (H2 Hpos) as (e & He & Hf). exists e. split; [|exact Hf].
      rewrite nth_error_app1; [exact He|]. apply nth_error_Some. congruence.
  - left. rewrite H1. rewrite skipn_all2 by lia. destruct (length ents); reflexivity.
Qed.

Lemma led_apply w i inp :
  led (net_apply w i inp) = (if negb (zmem i (ids w)) then led w else
                              match role (fst (node_step (nodes w i) inp)) with
                              | Leader => (term (fst (node_step (nodes w i) inp)), i) :: led w
                              | _ => led w end).
Proof.
  unfold net_apply. destruct (negb (zmem i (ids w))); [reflexivity|].
  destruct (node_step (nodes w i) inp) as [n' o]. reflexivity.
Qed.

Lemma led_complete_apply w i inp : led_complete w -> led_complete (net_apply w i inp).
Proof.
  intros L. unfold net_apply. destruct (negb (zmem i (ids w))); [exact L|].
  destruct (node_step (nodes w i) inp) as [n' o]. intros j Hj. cbn [ids nodes led] in *.
  destruct (Z.eq_dec j i) as [->|Hn].
  - rewrite upd_same. intros R. rewrite R. left. reflexivity.
  - rewrite upd_other by exact Hn. intros R. specialize (L j Hj R). destruct (role n'); auto. right. exact L.
Qed.

Lemma nth_error_app_last {A} (l : list A) x : nth_error (l ++ [x]) (length l) = Some x.
Proof. rewrite nth_error_app2 by lia. rewrite Nat.sub_diag. reflexivity. Qed.

(** The step of the invariant. *)
Lemma lm_apply w g i inp :
  lm_inv w g -> input_ok w i inp ->
  (forall s t lead pli plt ents lc, inp = IMsg s (AppendEntries t lead pli plt ents lc) ->
     In (t, s) (led w) /\ i <> s /\ ae_ok (g t) pli plt ents) ->
  lm_inv (net_apply w i inp) (gapply w g i inp).
Proof.
  intros M IO HAE.
  pose proof (net_apply_inv w i inp (M_net w g M) IO) as W'.
  pose proof (led_complete_apply w i inp (M_ledc w g M)) as LC'.
  pose proof (led_apply w i inp) as LED'.
  unfold gapply. unfold net_apply in *.
  destruct (negb (zmem i (ids w))) eqn:Z0; [exact M|].
  apply negb_false_iff, zmem_in in Z0.
  pose proof (node_step_lspec (nodes w i) inp) as LS.
  pose proof (node_step_spec (nodes w i) inp) as ((Vn & Vp & Vt & _) & _).
  destruct (node_step (nodes w i) inp) as [n' o]. cbn [fst snd] in *.
  set (n := nodes w i) in *.
  destruct M as [Wn Lc Mg Ml Mm Mld Mgl Mled].
  destruct (I_id w Wn i) as [Wnid Wpeers]. fold n in Wnid, Wpeers.
  set (w' := mkNet (ids w) (upd (nodes w) i n') (bag w ++ sends_of i o)
              (match voted n' with Some c => (i, term n', c) :: cast w | None => cast w end)
              (match role n' with Leader => (term n', i) :: led w | _ => led w end)) in *.
  assert (LedOld : forall x, In x (led w) -> In x (led w')).
  { intros x H. cbn [led w']. destruct (role n'); auto. right. exact H. }
  (* the input, when it is an AppendEntries of the node's own term, cannot reach a leader *)
  assert (NoSelf : role n = Leader -> forall src lead pli plt ents lc,
            inp = IMsg src (AppendEntries (term n) lead pli plt ents lc) -> False).
  { intros R src lead pli plt ents lc E. destruct (HAE _ _ _ _ _ _ _ E) as (Hl & Hne & _).
    pose proof (Lc i Z0 R) as Hi. apply Hne. symmetry. eapply (led_unique w); eauto. }
  (* K1: how g changes *)
  assert (K1 : (role n' <> Leader /\ gupd g n' = g) \/
               (role n' = Leader /\ gext g (gupd g n') (term n') /\ gupd g n' (term n') = log n')).
  { unfold gupd. destruct (role n') eqn:R'; [left; split; [congruence|reflexivity]|left; split; [congruence|reflexivity]|].
    right. split; [reflexivity|]. split; [|apply upd_same].
    split; [intros t' Ht; apply upd_other; exact Ht|]. rewrite upd_same.
    destruct (L_lead _ _ _ _ LS R') as [[R T]|[R E]].
    - pose proof (Mld i Z0 R) as Hl. fold n in Hl. rewrite T, <- Hl.
      destruct (L_log _ _ _ _ LS) as [E|[(_ & _ & _ & c & E)|A]].
      + exists []. rewrite app_nil_r. exact E.
      + exists [(term n, c)]. exact E.
      + destruct A as (src & t & lead & pli & plt & ents & lc & _ & _ & _ & RF & _). congruence.
    - (* a new leader: nobody has led this term before *)
      assert (G0 : g (term n') = []).
      { destruct (g (term n')) as [|x r] eqn:Eg; [reflexivity|exfalso].
        destruct (Mgl (term n')) as (j & Hj); [rewrite Eg; discriminate|].
        assert (j = i).
        { apply (led_unique w' (term n') j i W'); [apply LedOld, Hj|]. unfold w'; cbn [led]; try rewrite R'; left; reflexivity. }
        subst j. destruct (Mled _ _ Hj) as (_ & Hle & Hr). fold n in Hle, Hr.
        apply R, Hr. lia. }
      rewrite G0. exists (log n'). reflexivity. }
  set (g' := gupd g n') in *.
  assert (P' : forall X, pok g X -> pok g' X).
  { intros X HX. destruct K1 as [[_ E]|(_ & Ex & _)]; [rewrite E; exact HX|eapply pok_gext; eauto]. }
  (* K3: the acting node's new log *)
  assert (K3 : pok g' (log n')).
  { destruct (L_log _ _ _ _ LS) as [E|[(R & R' & T & c & E)|A]].
    - rewrite E. apply P', Ml.
    - destruct K1 as [[NR _]|(_ & _ & Eg)]; [contradiction|].
      intros j e Hj. rewrite E in Hj.
      destruct (Nat.lt_ge_cases j (length (log n))) as [Hlt|Hge].
      + rewrite nth_error_app1 in Hj by exact Hlt. rewrite E.
        rewrite firstn_app. replace (S j - length (log n))%nat with 0%nat by lia. cbn [firstn]. rewrite app_nil_r.
        apply (P' _ (Ml i) j e Hj).
      + assert (j = length (log n)).
        { assert (j < length (log n ++ [(term n, c)]))%nat by (apply nth_error_Some; congruence).
          rewrite app_length in H. cbn [length] in H. lia. }
        subst j. rewrite nth_error_app_last in Hj. inversion Hj; subst e. cbn [fst].
        rewrite <- T, Eg, E. reflexivity.
    - destruct A as (src & t & lead & pli & plt & ents & lc & Ei & Hz & Ht & RF & T' & Hprev & Hlog).
      destruct K1 as [[_ Eg]|(R' & _)]; [|congruence]. rewrite Eg.
      destruct (HAE _ _ _ _ _ _ _ Ei) as (_ & _ & [Hnil|[He Hp]]).
      + rewrite (Hlog [] (eq_trans Hnil eq_refl)). cbn [alogs]. apply Ml.
      + set (p := Z.to_nat pli) in *. set (G := g t) in *.
        set (l := firstn (length ents) (skipn p G)) in *.
        rewrite (Hlog l He).
        assert (Hlen : length l = length ents) by (symmetry; rewrite He; apply with_index_length).
        assert (Hpl : (p <= length (log n))%nat /\ firstn p (log n) = firstn p G).
        { destruct (Z_lt_le_dec 0 pli) as [Hpos|Hnp].
          - destruct (Hprev Hpos) as (e & He1 & Hf1). destruct (Hp Hpos) as (e' & He2 & Hf2).
            assert (p >= 1)%nat by (unfold p; lia).
            split; [assert (p - 1 < length (log n))%nat by (apply nth_error_Some; congruence); lia|].
            pose proof (Ml i (p - 1)%nat e He1) as A1. pose proof (Mg t (p - 1)%nat e' He2) as A2.
            replace (S (p - 1)) with p in A1, A2 by lia. fold n in A1. fold G in A2. rewrite A1, A2, Hf1, Hf2. reflexivity.
          - replace p with 0%nat by (unfold p; lia). split; [lia|reflexivity]. }
        destruct Hpl as [Hp1 Hp2].
        apply (alogs_pok g G l (log n) p (Ml i) (Mg t) Hp2 Hp1). unfold l at 1. rewrite Hlen. reflexivity. }
  constructor.
  - exact W'.
  - exact LC'.
  - (* M_g *)
    intros t. destruct K1 as [[_ E]|(R' & (Ho & _) & Eg)].
    + fold g'. rewrite E. apply Mg.
    + destruct (Z.eq_dec t (term n')) as [->|Hne].
      * fold g' in Eg. rewrite Eg. exact K3.
      * fold g'. rewrite (Ho t Hne). apply P', Mg.
  - (* M_logs *)
    intros j. cbn [nodes w']. destruct (Z.eq_dec j i) as [->|Hj].
    + rewrite upd_same. exact K3.
    + rewrite upd_other by exact Hj. apply P', Ml.
  - (* M_msgs *)
    intros d s t lead pli plt ents lc H. cbn [bag w'] in H. apply in_app_or in H as [H|H].
    + destruct (Mm _ _ _ _ _ _ _ _ H) as (A & B & C). split; [apply LedOld, A|]. split; [exact B|].
      destruct K1 as [[_ E]|(R' & (Ho & sfx & Hs) & Eg)].
      * fold g'. rewrite E. exact C.
      * fold g'. destruct (Z.eq_dec t (term n')) as [->|Hne]; [fold g' in Hs; rewrite Hs; apply ae_ok_ext, C|rewrite (Ho t Hne); exact C].
    + apply sends_of_in in H as [-> H].
      destruct (L_out _ _ _ _ LS) as [[R' AO]|NA]; [|exfalso; eapply NA; eauto].
      destruct (AO _ _ _ _ _ _ _ H) as (-> & -> & Hd & Hok).
      split; [unfold w'; cbn [led]; try rewrite R'; left; reflexivity|]. split.
      * rewrite Vp, Wpeers in Hd. apply filter_In in Hd as [_ Hd]. apply negb_true_iff in Hd. lia.
      * destruct K1 as [[NR _]|(_ & _ & Eg)]; [contradiction|]. fold g' in Eg. rewrite Eg. exact Hok.
  - (* M_lead *)
    intros j Hj. cbn [nodes w' ids] in *. destruct (Z.eq_dec j i) as [->|Hne].
    + rewrite upd_same. intros R'. destruct K1 as [[NR _]|(_ & _ & Eg)]; [contradiction|]. fold g' in Eg. rewrite Eg. reflexivity.
    + rewrite upd_other by exact Hne. intros R. rewrite (Mld j Hj R).
      destruct K1 as [[_ E]|(R' & (Ho & _) & _)]; [fold g'; rewrite E; reflexivity|].
      fold g'. symmetry. apply Ho. intros Et.
      apply Hne. apply (led_unique w' (term n') j i W').
      * apply LedOld. rewrite <- Et. apply Lc; assumption.
      * unfold w'; cbn [led]; try rewrite R'; left; reflexivity.
  - (* M_gled *)
    intros t Hg. destruct K1 as [[_ E]|(R' & (Ho & _) & _)].
    + fold g' in Hg. rewrite E in Hg. destruct (Mgl t Hg) as (j & Hj). exists j. apply LedOld, Hj.
    + destruct (Z.eq_dec t (term n')) as [->|Hne].
      * exists i. unfold w'; cbn [led]; try rewrite R'; left; reflexivity.
      * fold g' in Hg. rewrite (Ho t Hne) in Hg. destruct (Mgl t Hg) as (j & Hj). exists j. apply LedOld, Hj.
  - (* M_led *)
    intros t j H. cbn [ids nodes w'].
    assert (Old : In (t, j) (led w) ->
              In j (ids w) /\ t <= term (upd (nodes w) i n' j) /\ (term (upd (nodes w) i n' j) = t -> role (upd (nodes w) i n' j) = Leader)).
    { intros H0. destruct (Mled _ _ H0) as (A & B & C). split; [exact A|].
      destruct (Z.eq_dec j i) as [->|Hne].
      - rewrite upd_same. fold n in B, C. split; [lia|]. intros Et.
        assert (Tn : term n = t) by lia. pose proof (C Tn) as R.
        destruct (L_stay _ _ _ _ LS R) as [R'|(src & lead & pli & plt & ents & lc & Ei & _)]; [lia|exact R'|].
        exfalso. eapply NoSelf; eauto.
      - rewrite upd_other by exact Hne. split; assumption. }
    cbn [led w'] in H. destruct (role n') eqn:R'; try (apply Old, H).
    destruct H as [E|H]; [|apply Old, H]. inversion E; subst t j.
    rewrite upd_same. split; [exact Z0|]. split; [lia|]. intros _. exact R'.
Qed.

Lemma lm_sub w g b : lm_inv w g -> (forall x, In x b -> In x (bag w)) ->
  lm_inv (mkNet (ids w) (nodes w) b (cast w) (led w)) g.
Proof.
  intros [Wn Lc Mg Ml Mm Mld Mgl Mled] Hb. constructor; cbn [ids nodes bag cast led]; auto.
  - apply net_sub_inv; assumption.
  - intros d s t lead pli plt ents lc H. apply (Mm d s t lead pli plt ents lc). apply Hb, H.
Qed.

Lemma lm_step w g a : lm_inv w g -> lm_inv (net_step w a) (gstep w g a).
Proof.
  intros M. destruct a as [k|k|i|i|i c]; cbn [net_step gstep].
  - destruct (nth_error (bag w) k) as [[[d s] m]|] eqn:E; [|exact M].
    apply nth_error_In in E.
    apply lm_apply.
    + apply lm_sub; [exact M|intros x; apply remove_nth_incl].
    + unfold input_ok. cbn [cast]. destruct m; auto.
      * eapply (I_m0 w (M_net w g M)); eauto.
      * destruct granted; auto. eapply (I_m1 w (M_net w g M)); eauto.
    + intros s0 t lead pli plt ents lc Hm. inversion Hm; subst. cbn [led].
      destruct (M_msgs w g M _ _ _ _ _ _ _ _ E) as (A & B & C). auto.
  - apply lm_sub; [exact M|intros x; apply remove_nth_incl].
  - apply lm_apply; [exact M|exact I|intros; discriminate].
  - apply lm_apply; [exact M|exact I|intros; discriminate].
  - apply lm_apply; [exact M|exact I|intros; discriminate].
Qed.

Definition g0 : glog := fun _ => [].

Lemma lm_init l : NoDup l -> lm_inv (net_init l) g0.
Proof.
  intros ND. constructor; cbn.
  - apply net_init_inv, ND.
  - intros i _ R. cbn in R. discriminate.
  - intros t. apply pok_nil.
  - intros i. apply pok_nil.
  - intros; contradiction.
  - intros i _ R. discriminate.
  - intros t H. exfalso. apply H. reflexivity.
  - intros; contradiction.
Qed.

Lemma lm_run acts : forall w g, lm_inv w g -> lm_inv (fst (grun w g acts)) (snd (grun w g acts)).
Proof. induction acts as [|a r IH]; intros w g M; cbn [grun]; [exact M|]. apply IH, lm_step, M. Qed.

(* ------------------------------------------------------------------ *)
(** * Log Matching *)
Lemma log_get_nth L i e : log_get L i = Some e ->
  1 <= i /\ nth_error L (Z.to_nat (i - 1)) = Some e /\ Z.to_nat i = S (Z.to_nat (i - 1)).
Proof.
  unfold log_get. destruct ((i <? 1) || (i >? zlen L)) eqn:E; [discriminate|].
  intros H. apply orb_false_iff in E as [E1 E2]. repeat split; [lia|exact H|lia].
Qed.

(** Two logs of a reachable cluster state that hold entries of the same term at
    the same index are identical up to that index.  Every cluster (any
    duplicate-free id list), every schedule. *)
Theorem log_matching : log_matching_statement.
Proof.
  intros l acts ND w a b i e e' Ha Hb Ga Gb Et.
  pose proof (lm_run acts (net_init l) g0 (lm_init l ND)) as M.
  rewrite grun_fst in M. fold w in M. set (g := snd (grun (net_init l) g0 acts)) in *.
  destruct (log_get_nth _ _ _ Ga) as (_ & Na & Ea). destruct (log_get_nth _ _ _ Gb) as (_ & Nb & _).
  rewrite Ea. rewrite (M_logs w g M a _ _ Na), (M_logs w g M b _ _ Nb), Et. reflexivity.
Qed.

(** Corollary: the entries themselves (term AND command) agree. *)
Corollary log_matching_entries : forall l acts, NoDup l ->
  let w := net_run (net_init l) acts in
  forall a b i j e e' x, In a l -> In b l ->
    log_get (log (nodes w a)) i = Some e -> log_get (log (nodes w b)) i = Some e' -> fst e = fst e' ->
    1 <= j -> j <= i -> log_get (log (nodes w a)) j = Some x -> log_get (log (nodes w b)) j = Some x.
Proof.
  intros l acts ND w a b i j e e' x Ha Hb Ga Gb Et Hj1 Hj2 Gx.
  pose proof (log_matching l acts ND a b i e e' Ha Hb Ga Gb Et) as P. fold w in P.
  destruct (log_get_nth _ _ _ Gx) as (_ & Nx & _).
  assert (Hlt : (Z.to_nat (j - 1) < Z.to_nat i)%nat) by lia.
  assert (X : nth_error (firstn (Z.to_nat i) (log (nodes w a))) (Z.to_nat (j - 1)) = Some x)
    by (rewrite nth_error_firstn by exact Hlt; exact Nx).
  rewrite P in X. rewrite nth_error_firstn in X by exact Hlt.
  unfold log_get.
  assert (Z.to_nat (j - 1) < length (log (nodes w b)))%nat by (apply nth_error_Some; congruence).
  replace ((j <? 1) || (j >? zlen (log (nodes w b)))) with false by (unfold zlen; lia). exact X.
Qed.

(** The invariant is not vacuous: a run with a leader change and a rewritten follower log. *)
Example log_matching_nontrivial :
  let w := net_run (net_init [0; 1; 2])
             [ATimeout 0; ADeliver 0%nat; ADeliver 1%nat; ASubmit 0 7; AHeartbeat 0] in
  role (nodes w 0) = Leader /\ log (nodes w 0) = [(1, 7)] /\ led w <> [].
Proof. vm_compute. repeat split; discriminate. Qed.
