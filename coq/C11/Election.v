(** C11 — election safety of the cluster model: for EVERY schedule of
    deliveries (any order), drops, timeouts, heartbeats and submits, at most
    one node is ever leader in a given term.

    Standard argument: a node's vote in a term never changes (it changes only
    when the term increases or from None); a candidate only counts votes that
    were cast for it in its term; two quorums intersect. *)
From HS Require Import Base.Prelude C11.Model.
Local Open Scope Z_scope.

(* ------------------------------------------------------------------ *)
(** * Node-level facts *)

(** What one handler invocation may do to identity, term and vote. *)
Definition vstep (n n' : node) : Prop :=
  nid n' = nid n /\ peers n' = peers n /\ term n <= term n' /\
  (term n' = term n -> forall c, voted n = Some c -> voted n' = Some c).

Lemma vstep_refl n : vstep n n.
Proof. unfold vstep; intuition lia. Qed.
Lemma vstep_trans a b c : vstep a b -> vstep b c -> vstep a c.
Proof.
  unfold vstep. intros (A1 & A2 & A3 & A4) (B1 & B2 & B3 & B4).
  repeat split; try congruence; try lia.
  intros E x Hx. apply B4; [lia|]. apply A4; [lia|exact Hx].
Qed.

(** Fields relevant to elections unchanged (role may change). *)
Definition same_el (n n' : node) : Prop :=
  nid n' = nid n /\ peers n' = peers n /\ term n' = term n /\ voted n' = voted n /\ votes n' = votes n.
Lemma same_el_refl n : same_el n n.
Proof. unfold same_el; auto. Qed.
Lemma same_el_trans a b c : same_el a b -> same_el b c -> same_el a c.
Proof. unfold same_el; intuition congruence. Qed.
Lemma same_el_vstep n n' : same_el n n' -> vstep n n'.
Proof. unfold same_el, vstep. intros (A & B & C & D & E). rewrite A, B, C, D. intuition lia. Qed.

Ltac el_simpl :=
  unfold same_el; cbn;
  repeat match goal with |- context [if ?b then _ else _] => destruct b; cbn end; auto 10.

Lemma fold_same_el {A} (f : node -> A -> node) l :
  (forall a p, same_el a (f a p) /\ role (f a p) = role a) ->
  forall n, same_el n (fold_left f l n) /\ role (fold_left f l n) = role n.
Proof.
  intros Hf. induction l as [|p l IH]; intros n; cbn; [split; [apply same_el_refl|reflexivity]|].
  destruct (Hf n p) as [H1 H2]. destruct (IH (f n p)) as [H3 H4].
  split; [eapply same_el_trans; eauto|congruence].
Qed.

Lemma become_leader_el n :
  same_el n (fst (become_leader n)) /\ role (fst (become_leader n)) = Leader.
Proof.
  unfold become_leader. cbn [fst].
  match goal with |- context [fold_left ?f ?l ?x] =>
    destruct (fold_same_el f l (fun a p => ltac:(destruct a; cbn; split; [el_simpl|reflexivity])) x) as [H1 H2] end.
  split.
  - eapply same_el_trans; [|exact H1]. destruct n; el_simpl.
  - rewrite H2. destruct n; reflexivity.
Qed.

(** outputs of become_leader / send_append_entries contain only AppendEntries *)
Definition only_ae (o : list output) : Prop :=
  forall d m, In (OSend d m) o -> exists t l pi pt es lc, m = AppendEntries t l pi pt es lc.

Lemma send_append_entries_only_ae n : only_ae (send_append_entries n).
Proof.
  unfold only_ae, send_append_entries. intros d m H. apply in_map_iff in H. destruct H as (p & E & _).
  unfold append_entries_for in E. inversion E. eauto 10.
Qed.

Lemma become_leader_only_ae n : only_ae (snd (become_leader n)).
Proof.
  unfold become_leader. cbn [snd]. intros d m H. apply in_app_or in H. destruct H as [H|[H|[]]].
  - eapply send_append_entries_only_ae; eauto.
  - discriminate.
Qed.

Lemma step_down_vstep n t : term n <= t -> vstep n (step_down n t).
Proof.
  intros H. unfold step_down, vstep. destruct (t >? term n) eqn:E; destruct n; cbn in *; repeat split; auto; try lia.
Qed.

Lemma step_down_fields n t :
  role (step_down n t) = Follower /\ term (step_down n t) = t /\ votes (step_down n t) = votes n /\
  nid (step_down n t) = nid n /\ peers (step_down n t) = peers n.
Proof. unfold step_down. destruct (t >? term n); destruct n; cbn; auto. Qed.

Definition same_el_r (n n' : node) : Prop := same_el n n' /\ role n' = role n.
Lemma same_el_r_refl n : same_el_r n n.
Proof. split; [apply same_el_refl|reflexivity]. Qed.
Lemma same_el_r_trans a b c : same_el_r a b -> same_el_r b c -> same_el_r a c.
Proof. intros [A1 A2] [B1 B2]. split; [eapply same_el_trans; eauto|congruence]. Qed.

Ltac elr_simpl :=
  unfold same_el_r, same_el; cbn;
  repeat match goal with |- context [if ?b then _ else _] => destruct b; cbn end; auto 10.

Lemma fold_same_el_r {A} (f : node -> A -> node) l :
  (forall a p, same_el_r a (f a p)) -> forall n, same_el_r n (fold_left f l n).
Proof.
  intros Hf. induction l as [|p l IH]; intros n; cbn; [apply same_el_r_refl|].
  eapply same_el_r_trans; [apply Hf|apply IH].
Qed.

Lemma apply_one_elr n e : same_el_r n (apply_one n e).
Proof.
  destruct e as [[idx t] cmd]. unfold apply_one.
  destruct (idx >? last_applied n); [|apply same_el_r_refl].
  cbn. destruct (afind _ _); destruct n; elr_simpl.
Qed.

Lemma commit_to_elr n c : same_el_r n (commit_to n c).
Proof.
  unfold commit_to. destruct (advance_commit _ _ _) as [c' es].
  eapply same_el_r_trans; [|apply fold_same_el_r; intros; apply apply_one_elr].
  destruct n; elr_simpl.
Qed.

Lemma append_one_elr n e : same_el_r n (append_one n e).
Proof.
  destruct e as [[idx et] cmd]. unfold append_one.
  destruct (log_get _ _).
  - destruct (negb _); [|apply same_el_r_refl]. destruct (truncate_from _ _ _). destruct n; elr_simpl.
  - destruct n; elr_simpl.
Qed.

Lemma try_commit_elr k : forall n hi, same_el_r n (try_commit n hi k).
Proof.
  induction k as [|k IH]; intros n hi; cbn; [apply same_el_r_refl|].
  destruct (log_get _ _); auto. destruct (negb _); auto. destruct (_ >=? _); auto. apply commit_to_elr.
Qed.

Lemma submit_elr n c : same_el_r n (submit n c).
Proof. unfold submit. destruct (negb _); destruct n; elr_simpl. Qed.

(* ------------------------------------------------------------------ *)
(** * Specification of one handler invocation *)

Definition votes_inv (n : node) : Prop :=
  NoDup (votes n) /\ (role n = Leader -> quorum n <= zlen (votes n)).

Definition msg_ok (n n' : node) (inp : input) (d : Z) (m : msg) : Prop :=
  match m with
  | RequestVote t cand _ _ => cand = nid n
  | VoteResponse t true f =>
      f = nid n /\ t = term n' /\
      exists src t0 cand a b, inp = IMsg src (RequestVote t0 cand a b) /\ d = src /\ voted n' = Some cand
  | _ => True
  end.

Definition votes_src (n n' : node) (inp : input) : Prop :=
  role n' <> Follower -> forall v, In v (votes n') ->
    (role n <> Follower /\ term n' = term n /\ In v (votes n)) \/
    (v = nid n /\ voted n' = Some (nid n)) \/
    (exists src, inp = IMsg src (VoteResponse (term n') true v)).

Definition step_spec (n : node) (inp : input) (n' : node) (o : list output) : Prop :=
  vstep n n' /\ (votes_inv n -> votes_inv n') /\
  (forall d m, In (OSend d m) o -> msg_ok n n' inp d m) /\ votes_src n n' inp.

Definition quiet (o : list output) : Prop :=
  forall d m, In (OSend d m) o ->
    match m with RequestVote _ _ _ _ => False | VoteResponse _ true _ => False | _ => True end.

Lemma quiet_msg_ok o n n' inp : quiet o -> forall d m, In (OSend d m) o -> msg_ok n n' inp d m.
Proof.
  intros Q d m H. specialize (Q d m H). unfold msg_ok. destruct m; try tauto. destruct granted; tauto.
Qed.

Lemma only_ae_quiet o : only_ae o -> quiet o.
Proof. intros H d m Hin. destruct (H d m Hin) as (? & ? & ? & ? & ? & ? & ->). exact I. Qed.

Lemma quiet_nil : quiet [].
Proof. intros d m []. Qed.
Lemma quiet_timer o : quiet o -> quiet (OElectionTimer :: o).
Proof. intros Q d m [H|H]; [discriminate|exact (Q d m H)]. Qed.
Lemma quiet_app a b : quiet a -> quiet b -> quiet (a ++ b).
Proof. intros A B d m H. apply in_app_or in H. destruct H as [H|H]; [exact (A d m H)|exact (B d m H)]. Qed.

Lemma quorum_same n n' : peers n' = peers n -> quorum n' = quorum n.
Proof. unfold quorum. intros ->. reflexivity. Qed.

Lemma step_spec_quiet n inp n' o : same_el_r n n' -> quiet o -> step_spec n inp n' o.
Proof.
  intros [S R] Q. pose proof S as (A & B & C & D & E). unfold step_spec. repeat split.
  - apply same_el_vstep, S.
  - apply same_el_vstep, S.
  - apply same_el_vstep, S.
  - apply same_el_vstep, S.
  - destruct H as [H1 H2]. rewrite E. exact H1.
  - destruct H as [H1 H2]. rewrite R, E, (quorum_same n n' B). exact H2.
  - apply quiet_msg_ok, Q.
  - intros Hr v Hv. left. rewrite <- R, C, <- E. auto.
Qed.

Lemma step_spec_follower n inp n' o :
  vstep n n' -> role n' = Follower -> votes n' = votes n -> quiet o -> step_spec n inp n' o.
Proof.
  intros V R E Q. unfold step_spec. repeat split; try apply V.
  - destruct H as [H1 H2]. rewrite E. exact H1.
  - intros HL. congruence.
  - apply quiet_msg_ok, Q.
  - intros Hr. congruence.
Qed.

(* ------------------------------------------------------------------ *)
(** * Every handler meets the specification *)

Lemma quiet_hb o : quiet o -> quiet (o ++ [OHeartbeatTimer]).
Proof. intros Q. apply quiet_app; [exact Q|]. intros d m [H|[]]. discriminate. Qed.

Lemma start_election_spec n inp :
  step_spec n inp (fst (start_election n)) (snd (start_election n)).
Proof.
  unfold start_election.
  set (n1 := set_n_votes _ _).
  assert (F : nid n1 = nid n /\ peers n1 = peers n /\ term n1 = term n + 1 /\ voted n1 = Some (nid n) /\
              votes n1 = [nid n] /\ role n1 = Candidate) by (unfold n1; destruct n; cbn; auto 10).
  destruct F as (F1 & F2 & F3 & F4 & F5 & F6).
  set (rvs := map _ (peers n1)).
  assert (RV : forall d m, In (OSend d m) rvs -> exists t a b, m = RequestVote t (nid n) a b).
  { intros d m H. unfold rvs in H. apply in_map_iff in H. destruct H as (p & E & _). inversion E. eauto. }
  destruct (zlen (votes n1) >=? quorum n1) eqn:Q.
  - pose proof (become_leader_el n1) as [S R]. pose proof (become_leader_only_ae n1) as AE.
    destruct (become_leader n1) as [n2 o]. cbn [fst snd] in *.
    destruct S as (S1 & S2 & S3 & S4 & S5).
    unfold step_spec. repeat split.
    + congruence.
    + congruence.
    + lia.
    + intros E. lia.
    + rewrite S5, F5. repeat constructor. intros [].
    + intros _. rewrite (quorum_same n1 n2 S2), S5. lia.
    + intros d m H. apply in_app_or in H. destruct H as [H|H].
      * destruct (RV d m H) as (t & a & b & ->). reflexivity.
      * apply (quiet_msg_ok o); [apply only_ae_quiet, AE|exact H].
    + intros _ v Hv. right. left. rewrite S5, F5 in Hv. destruct Hv as [<-|[]]. split; [reflexivity|congruence].
  - cbn [fst snd]. unfold step_spec. split; [|split; [|split]]; [unfold vstep; repeat split; (exact F1 || exact F2 || lia || (intros E; lia))| | |].
    + intros _. split; [rewrite F5; repeat constructor; intros []|intros E; congruence].
    + intros d m H. apply in_app_or in H. destruct H as [H|[H|[]]]; [|discriminate].
      destruct (RV d m H) as (t & a & b & ->). reflexivity.
    + intros _ v Hv. right. left. rewrite F5 in Hv. destruct Hv as [<-|[]]. split; [reflexivity|congruence].
Qed.

Lemma handle_timeout_spec n c inp :
  step_spec n inp (fst (handle_timeout n c)) (snd (handle_timeout n c)).
Proof.
  unfold handle_timeout. destruct c; [apply step_spec_quiet; [apply same_el_r_refl|apply quiet_nil]|].
  destruct (role_eqb _ _).
  - apply step_spec_quiet; [apply same_el_r_refl|apply quiet_timer, quiet_nil].
  - apply start_election_spec.
Qed.

Lemma handle_heartbeat_spec n c inp :
  step_spec n inp (fst (handle_heartbeat n c)) (snd (handle_heartbeat n c)).
Proof.
  unfold handle_heartbeat. destruct c; [apply step_spec_quiet; [apply same_el_r_refl|apply quiet_nil]|].
  destruct (negb _); cbn [fst snd].
  - apply step_spec_quiet; [apply same_el_r_refl|apply quiet_timer, quiet_nil].
  - apply step_spec_quiet; [apply same_el_r_refl|apply quiet_hb, only_ae_quiet, send_append_entries_only_ae].
Qed.

Lemma role_eqb_spec a b : role_eqb a b = true <-> a = b.
Proof. destruct a, b; cbn; split; congruence. Qed.

Lemma handle_request_vote_spec n src t cand lli llt :
  let r := handle_request_vote n src t cand lli llt in
  step_spec n (IMsg src (RequestVote t cand lli llt)) (fst r) (snd r).
Proof.
  cbn. unfold handle_request_vote.
  destruct (negb (zmem src (peers n))); [apply step_spec_quiet; [apply same_el_r_refl|apply quiet_nil]|].
  cbn [fst snd].
  set (n1 := if t >? term n then step_down n t else n).
  assert (V1 : vstep n n1).
  { unfold n1. destruct (t >? term n) eqn:E; [apply step_down_vstep; lia|apply vstep_refl]. }
  assert (R1 : (t >? term n) = true /\ role n1 = Follower /\ votes n1 = votes n \/
               (t >? term n) = false /\ n1 = n).
  { unfold n1. destruct (t >? term n); [left; pose proof (step_down_fields n t); intuition|right; auto]. }
  destruct (vote_ok n1 t cand lli llt) eqn:G.
  - (* vote granted *)
    unfold vote_ok in G. apply andb_prop in G. destruct G as [G _]. apply andb_prop in G. destruct G as [G1 G2].
    set (n2 := set_term (set_voted n1 (Some cand)) t).
    assert (F : nid n2 = nid n1 /\ peers n2 = peers n1 /\ term n2 = t /\ voted n2 = Some cand /\
                votes n2 = votes n1 /\ role n2 = role n1) by (unfold n2; destruct n1; cbn; auto 10).
    destruct F as (F1 & F2 & F3 & F4 & F5 & F6).
    assert (V2 : vstep n1 n2).
    { unfold vstep. repeat split; auto; try lia.
      intros E c Hc. rewrite Hc in G2. apply Z.eqb_eq in G2. congruence. }
    pose proof (vstep_trans _ _ _ V1 V2) as V.
    unfold step_spec. repeat split; try apply V.
    + destruct H as [H1 H2]. destruct R1 as [(_ & _ & E)|(_ & E)]; [rewrite F5, E; exact H1|rewrite F5, E; exact H1].
    + intros HL. destruct R1 as [(_ & E & _)|(_ & E)]; [congruence|].
      destruct H as [H1 H2]. rewrite F5, (quorum_same n1 n2 F2), E in *. apply H2. congruence.
    + intros d m [H|[H|[]]]; [|discriminate]. inversion H; subst d m. cbn.
      destruct V as (Vn & _). repeat split; try congruence. exists src, t, cand, lli, llt. auto.
    + intros Hr v Hv. left. destruct R1 as [(_ & E & _)|(E0 & E)]; [congruence|].
      rewrite E in *. rewrite F5 in Hv. split; [congruence|split; [lia|exact Hv]].
  - (* not granted *)
    unfold step_spec. repeat split; try apply V1.
    + destruct H as [H1 H2]. destruct R1 as [(_ & _ & E)|(_ & E)]; rewrite E; exact H1.
    + intros HL. destruct R1 as [(_ & E & _)|(_ & E)]; [congruence|]. rewrite E in *. apply H; exact HL.
    + intros d m [H|[]]. inversion H; subst d m. exact I.
    + intros Hr v Hv. left. destruct R1 as [(_ & E & _)|(_ & E)]; [congruence|]. rewrite E in *. auto.
Qed.

Lemma set_add_nodup x l : NoDup l -> NoDup (set_add x l).
Proof.
  intros H. unfold set_add. destruct (zmem x l) eqn:E; [exact H|].
  apply NoDup_rev in H. rewrite <- (rev_involutive (l ++ [x])). apply NoDup_rev.
  rewrite rev_app_distr. cbn. constructor; [|exact H].
  intros Hin. apply in_rev in Hin. unfold zmem in E.
  assert (existsb (Z.eqb x) l = true) by (apply existsb_exists; exists x; split; [exact Hin|apply Z.eqb_refl]).
  congruence.
Qed.

Lemma set_add_in x l v : In v (set_add x l) -> In v l \/ v = x.
Proof.
  unfold set_add. destruct (zmem x l); [auto|]. intros H. apply in_app_or in H. destruct H as [H|[H|[]]]; auto.
Qed.

Lemma handle_vote_response_spec n src t g voter :
  let r := handle_vote_response n t g voter in
  step_spec n (IMsg src (VoteResponse t g voter)) (fst r) (snd r).
Proof.
  cbn. unfold handle_vote_response.
  destruct (t >? term n) eqn:E1.
  - cbn [fst snd]. pose proof (step_down_fields n t) as (A & B & C & D & E).
    apply step_spec_follower; auto; [apply step_down_vstep; lia|apply quiet_timer, quiet_nil].
  - destruct (negb (role_eqb (role n) Candidate) || negb (t =? term n)) eqn:E2;
      [apply step_spec_quiet; [apply same_el_r_refl|apply quiet_nil]|].
    apply orb_false_elim in E2. destruct E2 as [E2 E3].
    apply negb_false_iff in E2, E3. apply role_eqb_spec in E2. apply Z.eqb_eq in E3.
    set (n1 := if g then _ else n).
    assert (F : nid n1 = nid n /\ peers n1 = peers n /\ term n1 = term n /\ voted n1 = voted n /\ role n1 = role n /\
                NoDup (votes n) -> NoDup (votes n1)).
    { intros (_ & _ & _ & _ & _ & H). unfold n1. destruct g; [|exact H]. destruct n; cbn in *. apply set_add_nodup, H. }
    assert (F' : nid n1 = nid n /\ peers n1 = peers n /\ term n1 = term n /\ voted n1 = voted n /\ role n1 = role n)
      by (unfold n1; destruct g; destruct n; cbn; auto 10).
    destruct F' as (F1 & F2 & F3 & F4 & F5).
    assert (FV : forall v, In v (votes n1) -> In v (votes n) \/ (v = voter /\ g = true)).
    { intros v Hv. unfold n1 in Hv. destruct g; [|auto]. destruct n; cbn in *. apply set_add_in in Hv. intuition. }
    assert (ND : NoDup (votes n) -> NoDup (votes n1)).
    { intros H. unfold n1. destruct g; [|exact H]. destruct n; cbn in *. apply set_add_nodup, H. }
    clear F.
    assert (SRC : forall n2, votes n2 = votes n1 -> term n2 = term n1 -> votes_src n n2 (IMsg src (VoteResponse t g voter))).
    { intros n2 Ev Et Hr v Hv. rewrite Ev in Hv. destruct (FV v Hv) as [H|[-> ->]].
      - left. repeat split; try congruence.
      - right. right. exists src. rewrite Et, F3, E3. reflexivity. }
    destruct (zlen (votes n1) >=? quorum n1) eqn:Q.
    + pose proof (become_leader_el n1) as [S R]. pose proof (become_leader_only_ae n1) as AE.
      destruct (become_leader n1) as [n2 o]. cbn [fst snd] in *.
      destruct S as (S1 & S2 & S3 & S4 & S5).
      unfold step_spec. split; [|split; [|split]].
      * unfold vstep; split; [congruence|split; [congruence|split; [lia|intros _ c Hc; congruence]]].
      * intros [H1 H2]; split; [rewrite S5; apply ND, H1|intros _; rewrite (quorum_same n1 n2 S2), S5; lia].
      * apply quiet_msg_ok, only_ae_quiet, AE.
      * apply SRC; congruence.
    + cbn [fst snd]. unfold step_spec. split; [|split; [|split]].
      * unfold vstep; split; [congruence|split; [congruence|split; [lia|intros _ c Hc; congruence]]].
      * intros [H1 H2]; split; [apply ND, H1|intros HL; congruence].
      * intros d m [].
      * apply SRC; reflexivity.
Qed.

Lemma handle_append_entries_spec n inp src t lead pli plt ents lc :
  let r := handle_append_entries n src t lead pli plt ents lc in
  step_spec n inp (fst r) (snd r).
Proof.
  cbn. unfold handle_append_entries.
  destruct (negb (zmem src (peers n))); [apply step_spec_quiet; [apply same_el_r_refl|apply quiet_nil]|].
  destruct (t <? term n) eqn:E1.
  - apply step_spec_quiet; [apply same_el_r_refl|]. intros d m [H|[]]. inversion H. exact I.
  - set (n1 := set_term (set_leader (step_down n t) (Some lead)) t).
    pose proof (step_down_fields n t) as (A & B & C & D & E).
    pose proof (step_down_vstep n t ltac:(lia)) as V0.
    assert (S1 : same_el_r (step_down n t) n1).
    { unfold n1. generalize dependent (step_down n t). intros m. intros. destruct m; cbn in *. subst. elr_simpl. }
    assert (V1 : vstep n n1) by (eapply vstep_trans; [exact V0|apply same_el_vstep, S1]).
    destruct (negb _); cbn [fst snd].
    + apply step_spec_follower;
        [exact V1|destruct S1 as [_ R]; congruence|destruct S1 as [(_ & _ & _ & _ & Ev) _]; congruence
        |apply quiet_timer; intros d m [H|[]]; inversion H; exact I].
    + set (n2 := fold_left append_one ents n1).
      assert (S2 : same_el_r n1 n2) by (apply fold_same_el_r; intros; apply append_one_elr).
      set (n3 := if lc >? commit n2 then _ else n2).
      assert (S3 : same_el_r n2 n3) by (unfold n3; destruct (lc >? commit n2); [apply commit_to_elr|apply same_el_r_refl]).
      pose proof (same_el_r_trans _ _ _ S1 (same_el_r_trans _ _ _ S2 S3)) as [S R].
      apply step_spec_follower;
        [eapply vstep_trans; [exact V0|apply same_el_vstep, S]|congruence|destruct S as (_ & _ & _ & _ & Ev); congruence
        |apply quiet_timer; intros d m [H|[]]; inversion H; exact I].
Qed.

Lemma handle_append_response_spec n inp t s f mi :
  let r := handle_append_response n t s f mi in
  step_spec n inp (fst r) (snd r).
Proof.
  cbn. unfold handle_append_response.
  destruct (t >? term n) eqn:E1.
  - cbn [fst snd]. pose proof (step_down_fields n t) as (A & B & C & D & E).
    apply step_spec_follower; auto; [apply step_down_vstep; lia|apply quiet_timer, quiet_nil].
  - destruct (negb _); [apply step_spec_quiet; [apply same_el_r_refl|apply quiet_nil]|].
    destruct (t <? term n); [apply step_spec_quiet; [apply same_el_r_refl|apply quiet_nil]|].
    destruct s; cbn [fst snd].
    + apply step_spec_quiet; [|apply quiet_nil].
      eapply same_el_r_trans; [|apply try_commit_elr]. destruct n; elr_simpl.
    + match goal with |- context [if ?b then _ else _] => destruct b end; cbn [fst snd].
      * apply step_spec_quiet; [destruct n; elr_simpl|]. intros d m [H|[]]. inversion H. exact I.
      * apply step_spec_quiet; [destruct n; elr_simpl|apply quiet_nil].
Qed.

Theorem node_step_spec n inp : step_spec n inp (fst (node_step n inp)) (snd (node_step n inp)).
Proof.
  destruct inp as [c|c|src m|cmd]; cbn [node_step].
  - apply handle_timeout_spec.
  - apply handle_heartbeat_spec.
  - destruct m; cbn [handle_msg].
    + apply handle_request_vote_spec.
    + apply handle_vote_response_spec.
    + apply handle_append_entries_spec.
    + apply handle_append_response_spec.
  - cbn [fst snd]. apply step_spec_quiet; [apply submit_elr|apply quiet_nil].
Qed.

(* ------------------------------------------------------------------ *)
(** * Cluster invariant *)

Definition nquorum (l : list Z) : Z := zlen l / 2 + 1.

Record net_inv (w : net) : Prop := {
  I_nodup : NoDup (ids w);
  I_id : forall i, nid (nodes w i) = i /\ peers (nodes w i) = filter (fun p => negb (Z.eqb p i)) (ids w);
  I_votes : forall i, votes_inv (nodes w i);
  I_g1 : forall v t c, In (v, t, c) (cast w) -> In v (ids w) /\ t <= term (nodes w v);
  I_g2 : forall v t c, In (v, t, c) (cast w) -> term (nodes w v) = t -> voted (nodes w v) = Some c;
  I_g3 : forall v t c c', In (v, t, c) (cast w) -> In (v, t, c') (cast w) -> c = c';
  I_m0 : forall d s t cand a b, In (d, s, RequestVote t cand a b) (bag w) -> cand = s;
  I_m1 : forall d s t f, In (d, s, VoteResponse t true f) (bag w) -> f = s /\ In (s, t, d) (cast w);
  I_v1 : forall i, role (nodes w i) <> Follower ->
         forall v, In v (votes (nodes w i)) -> In (v, term (nodes w i), i) (cast w);
  I_l1 : forall t a, In (t, a) (led w) ->
         exists vs, NoDup vs /\ nquorum (ids w) <= zlen vs /\ forall v, In v vs -> In (v, t, a) (cast w);
}.

Definition input_ok (w : net) (i : Z) (inp : input) : Prop :=
  match inp with
  | IMsg s (RequestVote t cand _ _) => cand = s
  | IMsg s (VoteResponse t true f) => f = s /\ In (s, t, i) (cast w)
  | _ => True
  end.

Lemma zmem_in x l : zmem x l = true <-> In x l.
Proof.
  unfold zmem. rewrite existsb_exists. split.
  - intros (y & Hy & E). apply Z.eqb_eq in E. congruence.
  - intros H. exists x. split; [exact H|apply Z.eqb_refl].
Qed.

Lemma filter_others_length i l : NoDup l -> In i l ->
  zlen (filter (fun p => negb (Z.eqb p i)) l) + 1 = zlen l.
Proof.
  unfold zlen. induction l as [|x l IH]; intros ND Hin; [destruct Hin|].
  inversion ND as [|? ? Hx ND']; subst. cbn [filter].
  destruct (Z.eqb x i) eqn:E; cbn [negb].
  - apply Z.eqb_eq in E. subst x.
    assert (F : filter (fun p => negb (p =? i)) l = l).
    { clear IH ND ND' Hin. induction l as [|y l IH]; cbn; [reflexivity|].
      destruct (Z.eqb y i) eqn:E; cbn.
      - apply Z.eqb_eq in E. subst. exfalso. apply Hx. left. reflexivity.
      - f_equal. apply IH. intros H. apply Hx. right. exact H. }
    rewrite F. cbn [length]. lia.
  - destruct Hin as [->|Hin]; [rewrite Z.eqb_refl in E; discriminate|].
    specialize (IH ND' Hin). cbn [length]. lia.
Qed.

Lemma upd_same {V} (f : Z -> V) k v : upd f k v k = v.
Proof. unfold upd. rewrite Z.eqb_refl. reflexivity. Qed.
Lemma upd_other {V} (f : Z -> V) k v j : j <> k -> upd f k v j = f j.
Proof. unfold upd. intros H. destruct (Z.eqb j k) eqn:E; [apply Z.eqb_eq in E; contradiction|reflexivity]. Qed.

Lemma sends_of_in i o d s m : In (d, s, m) (sends_of i o) -> s = i /\ In (OSend d m) o.
Proof.
  induction o as [|x o IH]; cbn; [intros []|].
  destruct x as [d' m'| |]; cbn.
  - intros [H|H]; [inversion H; subst; auto|]. destruct (IH H); auto.
  - intros H. destruct (IH H); auto.
  - intros H. destruct (IH H); auto.
Qed.

Lemma net_apply_inv w i inp : net_inv w -> input_ok w i inp -> net_inv (net_apply w i inp).
Proof.
  intros W IO. unfold net_apply.
  destruct (negb (zmem i (ids w))) eqn:Z0; [exact W|].
  apply negb_false_iff, zmem_in in Z0.
  pose proof (node_step_spec (nodes w i) inp) as (V & VI & MO & VS).
  destruct (node_step (nodes w i) inp) as [n' o]. cbn [fst snd] in *.
  destruct W as [Wnd Wid Wvotes Wg1 Wg2 Wg3 Wm0 Wm1 Wv1 Wl1].
  destruct (Wid i) as [Wnid Wpeers].
  destruct V as (Vn & Vp & Vt & Vv).
  set (cast' := match voted n' with Some c => (i, term n', c) :: cast w | None => cast w end).
  assert (Cold : forall x, In x (cast w) -> In x cast').
  { intros x H. unfold cast'. destruct (voted n'); [right|]; exact H. }
  assert (Cnew : forall x, In x cast' -> In x (cast w) \/ exists c, x = (i, term n', c) /\ voted n' = Some c).
  { intros x H. unfold cast' in H. destruct (voted n') as [c|]; [|auto]. destruct H as [<-|H]; [right; eauto|auto]. }
  assert (Cself : forall c, voted n' = Some c -> In (i, term n', c) cast').
  { intros c H. unfold cast'. rewrite H. left. reflexivity. }
  assert (V1' : role n' <> Follower -> forall v, In v (votes n') -> In (v, term n', i) cast').
  { intros Hr v Hv. destruct (VS Hr v Hv) as [(R0 & T0 & I0)|[(-> & Vs)|(src & ->)]].
    - apply Cold. rewrite T0. apply Wv1; assumption.
    - rewrite Wnid in *. apply Cself, Vs.
    - cbn in IO. destruct IO as [-> IO]. apply Cold, IO. }
  constructor; cbn [ids nodes bag cast led].
  - exact Wnd.
  - intros j. destruct (Z.eq_dec j i) as [->|Hj].
    + rewrite upd_same. split; congruence.
    + rewrite upd_other by exact Hj. apply Wid.
  - intros j. destruct (Z.eq_dec j i) as [->|Hj].
    + rewrite upd_same. apply VI, Wvotes.
    + rewrite upd_other by exact Hj. apply Wvotes.
  - intros v t c H. destruct (Cnew _ H) as [H0|(c0 & E & Hv)].
    + destruct (Wg1 _ _ _ H0) as [A B]. split; [exact A|].
      destruct (Z.eq_dec v i) as [->|Hj]; [rewrite upd_same; lia|rewrite upd_other by exact Hj; exact B].
    + inversion E; subst. rewrite upd_same. split; [exact Z0|lia].
  - intros v t c H Ht. destruct (Cnew _ H) as [H0|(c0 & E & Hv)].
    + destruct (Wg1 _ _ _ H0) as [A B].
      destruct (Z.eq_dec v i) as [->|Hj].
      * rewrite upd_same in *. apply Vv; [lia|]. apply (Wg2 _ _ _ H0). lia.
      * rewrite upd_other in * by exact Hj. apply (Wg2 _ _ _ H0 Ht).
    + inversion E; subst. rewrite upd_same. exact Hv.
  - intros v t c c' H H'. destruct (Cnew _ H) as [H0|(c0 & E & Hv)]; destruct (Cnew _ H') as [H0'|(c0' & E' & Hv')].
    + eapply Wg3; eauto.
    + inversion E'; subst. destruct (Wg1 _ _ _ H0) as [A B].
      assert (voted n' = Some c) by (apply Vv; [lia|]; apply (Wg2 _ _ _ H0); lia). congruence.
    + inversion E; subst. destruct (Wg1 _ _ _ H0') as [A B].
      assert (voted n' = Some c') by (apply Vv; [lia|]; apply (Wg2 _ _ _ H0'); lia). congruence.
    + inversion E; inversion E'; subst. congruence.
  - intros d s t cand a b H. apply in_app_or in H. destruct H as [H|H]; [eapply Wm0; eauto|].
    apply sends_of_in in H. destruct H as [-> H]. specialize (MO _ _ H). cbn in MO. congruence.
  - intros d s t f H. apply in_app_or in H. destruct H as [H|H].
    + destruct (Wm1 _ _ _ _ H) as [A B]. split; [exact A|apply Cold, B].
    + apply sends_of_in in H. destruct H as [-> H]. specialize (MO _ _ H). cbn in MO.
      destruct MO as (A & B & src & t0 & cand & x & y & E & D & Vs). subst inp. cbn in IO. subst.
      split; [congruence|]. apply Cself, Vs.
  - intros j Hr v Hv. destruct (Z.eq_dec j i) as [->|Hj].
    + rewrite upd_same in *. apply V1'; assumption.
    + rewrite upd_other in * by exact Hj. apply Cold, Wv1; assumption.
  - intros t a H.
    assert (Old : In (t, a) (led w) -> exists vs, NoDup vs /\ nquorum (ids w) <= zlen vs /\ forall v, In v vs -> In (v, t, a) cast').
    { intros H0. destruct (Wl1 _ _ H0) as (vs & A & B & C). exists vs. repeat split; auto. }
    destruct (role n') eqn:R; try (apply Old, H).
    destruct H as [E|H]; [|apply Old, H]. inversion E; subst t a.
    destruct (VI (Wvotes i)) as [ND Q]. exists (votes n'). split; [exact ND|]. split.
    + specialize (Q R). unfold quorum in Q. rewrite Vp, Wpeers in Q.
      pose proof (filter_others_length i (ids w) Wnd Z0). unfold nquorum. lia.
    + intros v Hv. apply V1'; [congruence|exact Hv].
Qed.

Lemma remove_nth_incl {A} k (l : list A) x : In x (remove_nth k l) -> In x l.
Proof.
  revert k; induction l as [|y l IH]; intros k; destruct k; cbn; auto.
  intros [H|H]; [auto|right; eapply IH; eauto].
Qed.

Lemma net_sub_inv w b : net_inv w -> (forall x, In x b -> In x (bag w)) ->
  net_inv (mkNet (ids w) (nodes w) b (cast w) (led w)).
Proof.
  intros [Wnd Wid Wvotes Wg1 Wg2 Wg3 Wm0 Wm1 Wv1 Wl1] Hb. constructor; cbn; eauto.
Qed.

Lemma net_step_inv w a : net_inv w -> net_inv (net_step w a).
Proof.
  intros W. destruct a as [k|k|i|i|i c]; cbn [net_step].
  - destruct (nth_error (bag w) k) as [[[d s] m]|] eqn:E; [|exact W].
    apply nth_error_In in E.
    apply net_apply_inv.
    + apply net_sub_inv; [exact W|intros x; apply remove_nth_incl].
    + unfold input_ok. cbn [cast]. destruct m; auto.
      * eapply (I_m0 w W); eauto.
      * destruct granted; auto. eapply (I_m1 w W); eauto.
  - apply net_sub_inv; [exact W|intros x; apply remove_nth_incl].
  - apply net_apply_inv; [exact W|exact I].
  - apply net_apply_inv; [exact W|exact I].
  - apply net_apply_inv; [exact W|exact I].
Qed.

Lemma net_init_inv l : NoDup l -> net_inv (net_init l).
Proof.
  intros ND. constructor; cbn; try (intros; contradiction); auto.
  all: intros i; split; [constructor|intros H; discriminate].
Qed.

Lemma net_run_inv acts : forall w, net_inv w -> net_inv (net_run w acts).
Proof. unfold net_run. induction acts as [|a r IH]; intros w W; cbn; auto. apply IH, net_step_inv, W. Qed.

(* ------------------------------------------------------------------ *)
(** * Two quorums intersect *)

Lemma nodup_app_disjoint (a b : list Z) : NoDup a -> NoDup b -> (forall x, In x a -> ~ In x b) -> NoDup (a ++ b).
Proof.
  induction a as [|x a IH]; intros Ha Hb D; cbn; [exact Hb|].
  inversion Ha; subst. constructor.
  - intros H. apply in_app_or in H. destruct H as [H|H]; [contradiction|]. apply (D x); [left; reflexivity|exact H].
  - apply IH; auto. intros y Hy. apply D. right. exact Hy.
Qed.

Lemma quorums_intersect (l a b : list Z) :
  NoDup a -> NoDup b -> incl a l -> incl b l -> zlen a + zlen b > zlen l ->
  exists v, In v a /\ In v b.
Proof.
  intros Ha Hb Ia Ib Hlen.
  destruct (existsb (fun v => zmem v b) a) eqn:E.
  - apply existsb_exists in E. destruct E as (v & Hv & Hm). apply zmem_in in Hm. eauto.
  - exfalso.
    assert (D : forall x, In x a -> ~ In x b).
    { intros x Hx Hxb. assert (existsb (fun v => zmem v b) a = true); [|congruence].
      apply existsb_exists. exists x. split; [exact Hx|apply zmem_in, Hxb]. }
    pose proof (nodup_app_disjoint a b Ha Hb D) as ND.
    assert (I : incl (a ++ b) l) by (apply incl_app; assumption).
    pose proof (NoDup_incl_length ND I) as L. rewrite app_length in L. unfold zlen in Hlen. lia.
Qed.

(** Headline. *)
Theorem election_safety : forall l acts, NoDup l ->
  let w := net_run (net_init l) acts in
  forall t a b, In (t, a) (led w) -> In (t, b) (led w) -> a = b.
Proof.
  intros l acts ND w t a b Ha Hb.
  assert (W : net_inv w) by (apply net_run_inv, net_init_inv, ND).
  destruct (I_l1 w W _ _ Ha) as (va & NDa & Qa & Ca).
  destruct (I_l1 w W _ _ Hb) as (vb & NDb & Qb & Cb).
  destruct (quorums_intersect (ids w) va vb NDa NDb) as (v & Hva & Hvb).
  - intros v Hv. apply (I_g1 w W _ _ _ (Ca v Hv)).
  - intros v Hv. apply (I_g1 w W _ _ _ (Cb v Hv)).
  - unfold nquorum in *. lia.
  - apply (I_g3 w W v t a b); auto.
Qed.

(** The history variable really records leadership: a node whose role is
    Leader is in [led] with its current term (once it has taken any step). *)
Definition led_complete (w : net) : Prop :=
  forall i, In i (ids w) -> role (nodes w i) = Leader -> In (term (nodes w i), i) (led w).

Lemma led_complete_step w a : led_complete w -> led_complete (net_step w a).
Proof.
  assert (AP : forall w i inp, led_complete w -> led_complete (net_apply w i inp)).
  { intros w0 i inp L. unfold net_apply. destruct (negb (zmem i (ids w0))); [exact L|].
    destruct (node_step (nodes w0 i) inp) as [n' o]. intros j Hj. cbn [ids nodes led] in *.
    destruct (Z.eq_dec j i) as [->|Hn].
    - rewrite upd_same. intros R. rewrite R. left. reflexivity.
    - rewrite upd_other by exact Hn. intros R. specialize (L j Hj R). destruct (role n'); auto. right. exact L. }
  intros L. destruct a as [k|k|i|i|i c]; cbn [net_step]; try (apply AP; exact L).
  - destruct (nth_error (bag w) k) as [[[d s] m]|]; [|exact L]. apply AP. exact L.
  - exact L.
Qed.

Lemma led_complete_run acts : forall w, led_complete w -> led_complete (net_run w acts).
Proof. unfold net_run. induction acts as [|a r IH]; intros w L; cbn; auto. apply IH, led_complete_step, L. Qed.

Lemma net_apply_ids w i inp : ids (net_apply w i inp) = ids w.
Proof.
  unfold net_apply. destruct (negb _); [reflexivity|]. destruct (node_step _ _). reflexivity.
Qed.
Lemma net_step_ids w a : ids (net_step w a) = ids w.
Proof.
  destruct a as [k|k|i|i|i c]; cbn [net_step]; try apply net_apply_ids; try reflexivity.
  destruct (nth_error _ _) as [[[d s] m]|]; [|reflexivity]. rewrite net_apply_ids. reflexivity.
Qed.
Lemma net_run_ids acts : forall w, ids (net_run w acts) = ids w.
Proof.
  unfold net_run. induction acts as [|a r IH]; intros w; cbn; [reflexivity|]. rewrite IH. apply net_step_ids.
Qed.

Theorem one_leader_per_term : forall l acts, NoDup l ->
  let w := net_run (net_init l) acts in
  forall a b, In a l -> In b l ->
  role (nodes w a) = Leader -> role (nodes w b) = Leader ->
  term (nodes w a) = term (nodes w b) -> a = b.
Proof.
  intros l acts ND w a b Ia Ib Ra Rb T.
  assert (L : led_complete w).
  { apply led_complete_run. intros i _ R. cbn in R. discriminate. }
  assert (E : ids w = l) by (unfold w; rewrite net_run_ids; reflexivity).
  apply (election_safety l acts ND (term (nodes w a))).
  - apply L; [rewrite E; exact Ia|exact Ra].
  - rewrite T. apply L; [rewrite E; exact Ib|exact Rb].
Qed.

Theorem vote_once_per_term : forall l acts, NoDup l ->
  let w := net_run (net_init l) acts in
  forall v t c c', In (v, t, c) (cast w) -> In (v, t, c') (cast w) -> c = c'.
Proof. intros l acts ND. exact (I_g3 _ (net_run_inv acts _ (net_init_inv l ND))). Qed.

(** Leaders do get elected in the model (the safety theorems are not vacuous). *)
Example election_happens :
  led (net_run (net_init [0; 1; 2]) [ATimeout 0; ADeliver 1%nat; ADeliver 1%nat]) = [(1, 0)].
Proof. vm_compute. reflexivity. Qed.

(** One handler invocation, any input: the term never decreases and the vote
    of an unchanged term is kept (the property the repair dce5f0f restored). *)
Theorem term_monotone_vote_stable n inp :
  term n <= term (fst (node_step n inp)) /\
  (term (fst (node_step n inp)) = term n -> forall c, voted n = Some c -> voted (fst (node_step n inp)) = Some c).
Proof. destruct (node_step_spec n inp) as ((_ & _ & A & B) & _). split; assumption. Qed.

(** Every leader there has ever been held, in its term, the votes of a
    duplicate-free set of more than half of the nodes. *)
Theorem leader_has_quorum_of_votes : forall l acts, NoDup l ->
  let w := net_run (net_init l) acts in
  forall t a, In (t, a) (led w) ->
  exists vs, NoDup vs /\ zlen l / 2 + 1 <= zlen vs /\ forall v, In v vs -> In (v, t, a) (cast w).
Proof.
  intros l acts ND w t a H.
  assert (W : net_inv w) by (apply net_run_inv, net_init_inv, ND).
  destruct (I_l1 w W _ _ H) as (vs & A & B & C). exists vs. repeat split; auto.
  unfold nquorum in B. unfold w in B. rewrite net_run_ids in B. exact B.
Qed.
