(** Property C11 — the theorems the check counts as obligations.  Nothing but
    statements closed by [exact] and [Print Assumptions]. *)
From HS Require Import Base.Prelude C11.Model C11.NodeProofs C11.Election C11.Refute.
Local Open Scope Z_scope.

(** Each node applies indices 1,2,3,... in order without gaps or repeats, for
    EVERY sequence of inputs (any messages, forged ones included, any timer
    firings, any submits); commit_index never runs ahead of last_applied; a
    future only ever resolves with an (index, command) this node applied. *)
Theorem c11_apply_in_order : forall ids i inputs,
  let n := node_run (init_node ids i) inputs in
  map fst (applied n) = zseq 1 (length (applied n)) /\
  last_applied n = zlen (applied n) /\
  commit n <= last_applied n /\
  (forall f idx c, In (f, idx, c) (resolved n) -> In (idx, c) (applied n)).
Proof. exact apply_in_order. Qed.
Print Assumptions c11_apply_in_order.

(** Election safety of the cluster model, for EVERY schedule of deliveries in
    any order, drops (loss, partitions, crashes), timeouts at any moment,
    heartbeats and client submits, every cluster (any duplicate-free id list):
    no term ever has two leaders ([led] is the history of all (term, node)
    that were ever leader). *)
Theorem c11_election_safety : forall l acts, NoDup l ->
  let w := net_run (net_init l) acts in
  forall t a b, In (t, a) (led w) -> In (t, b) (led w) -> a = b.
Proof. exact election_safety. Qed.
Print Assumptions c11_election_safety.

(** ... in particular two nodes that are leader at the same moment are in
    different terms. *)
Theorem c11_one_leader_per_term : forall l acts, NoDup l ->
  let w := net_run (net_init l) acts in
  forall a b, In a l -> In b l ->
  role (nodes w a) = Leader -> role (nodes w b) = Leader ->
  term (nodes w a) = term (nodes w b) -> a = b.
Proof. exact one_leader_per_term. Qed.
Print Assumptions c11_one_leader_per_term.

(** The invariant behind it: a node's vote in a term is unique, and every
    handler invocation keeps term monotone and the vote of an unchanged term. *)
Theorem c11_vote_once_per_term : forall l acts, NoDup l ->
  let w := net_run (net_init l) acts in
  forall v t c c', In (v, t, c) (cast w) -> In (v, t, c') (cast w) -> c = c'.
Proof. exact vote_once_per_term. Qed.
Print Assumptions c11_vote_once_per_term.

(** The submit-future clause is REFUTED on the faithful model (known finding
    C11-future-keyed-by-index): a future can resolve with another leader's
    command that was committed at the same index.  The part that does hold is
    the last conjunct of [c11_apply_in_order]: a future only resolves with an
    (index, command) pair that this node applied at that index. *)
Theorem c11_submit_future_refuted : ~ submit_future_statement.
Proof. exact submit_future_refuted. Qed.
Print Assumptions c11_submit_future_refuted.
