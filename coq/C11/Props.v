(** Property C11 — the theorems the check counts as obligations.  Nothing but
    statements closed by [exact] and [Print Assumptions]. *)
From HS Require Import Base.Prelude Base.PyLib C11.Model C11.NodeProofs C11.Election C11.Refute C11.LogProofs C11.LogMatching C11.Progress
  C11.Completeness C11.Steps C11.Progress2 C11.Liveness Gen.RaftLogGen C11.GenTie C11.CommitTie.
Local Open Scope Z_scope.

(** Each node applies indices 1,2,3,... in order without gaps or repeats, for
    EVERY sequence of inputs (any messages, forged ones included, any timer
    firings, any submits); commit_index never runs ahead of last_applied; a
    future only ever resolves with an (index, command) this node applied. *)
Theorem c11_apply_in_order : forall ids i inputs,
  let n := node_run (init_node ids i) inputs in
  map fst (applied n) = zseq 1 (length (applied n)) /\
  last_applied n = zlen (applied n) /\
  commit n <= last_applied n /\
  (forall f idx c, In (f, idx, c) (resolved n) -> In (idx, c) (applied n)).
Proof. exact apply_in_order. Qed.
Print Assumptions c11_apply_in_order.

(** Election safety of the cluster model, for EVERY schedule of deliveries in
    any order, drops (loss, partitions, crashes), timeouts at any moment,
    heartbeats and client submits, every cluster (any duplicate-free id list):
    no term ever has two leaders ([led] is the history of all (term, node)
    that were ever leader). *)
Theorem c11_election_safety : forall l acts, NoDup l ->
  let w := net_run (net_init l) acts in
  forall t a b, In (t, a) (led w) -> In (t, b) (led w) -> a = b.
Proof. exact election_safety. Qed.
Print Assumptions c11_election_safety.

(** ... in particular two nodes that are leader at the same moment are in
    different terms. *)
Theorem c11_one_leader_per_term : forall l acts, NoDup l ->
  let w := net_run (net_init l) acts in
  forall a b, In a l -> In b l ->
  role (nodes w a) = Leader -> role (nodes w b) = Leader ->
  term (nodes w a) = term (nodes w b) -> a = b.
Proof. exact one_leader_per_term. Qed.
Print Assumptions c11_one_leader_per_term.

(** The invariant behind it: a node's vote in a term is unique, and every
    handler invocation keeps term monotone and the vote of an unchanged term. *)
Theorem c11_vote_once_per_term : forall l acts, NoDup l ->
  let w := net_run (net_init l) acts in
  forall v t c c', In (v, t, c) (cast w) -> In (v, t, c') (cast w) -> c = c'.
Proof. exact vote_once_per_term. Qed.
Print Assumptions c11_vote_once_per_term.

(** The submit-future clause is REFUTED on the faithful model (known finding
    C11-future-keyed-by-index): a future can resolve with another leader's
    command that was committed at the same index.  The part that does hold is
    the last conjunct of [c11_apply_in_order]: a future only resolves with an
    (index, command) pair that this node applied at that index. *)
Theorem c11_submit_future_refuted : ~ submit_future_statement.
Proof. exact submit_future_refuted. Qed.
Print Assumptions c11_submit_future_refuted.

(** LOG MATCHING, cluster level, for EVERY schedule and every cluster (any
    duplicate-free id list): two logs that hold entries of the same term at the
    same index are identical up to that index (C11/LogMatching.v: ghost "leader
    log of term t", prefix-consistency invariant over all logs and all
    AppendEntries messages in flight; uses election safety and leader
    append-only).  Writing this invariant exposed the defect repaired by
    a36023d (stale-term AppendEntries replies). *)
Theorem c11_log_matching : forall l acts, NoDup l ->
  let w := net_run (net_init l) acts in
  forall a b i e e', In a l -> In b l ->
    log_get (log (nodes w a)) i = Some e -> log_get (log (nodes w b)) i = Some e' -> fst e = fst e' ->
    firstn (Z.to_nat i) (log (nodes w a)) = firstn (Z.to_nat i) (log (nodes w b)).
Proof. exact log_matching. Qed.
Print Assumptions c11_log_matching.

(** LEADER COMPLETENESS, cluster level, for EVERY cluster (any duplicate-free id
    list) and EVERY schedule (deliveries in any order, drops = loss, partitions
    and crashes, timeouts and heartbeats at any moment, submits at any node):
    an entry that some node holds at or below its commit index is, at the same
    index, in the log of every node that is later leader of a greater term.
    (C11/Ghost.v: history variables — leader log per term, log at election,
    "node a accepted the first m entries of the term-t leader while in term t",
    voter's log at the moment of each vote; C11/Step2.v: the 19-clause
    invariant is kept by every action; C11/LC.v: strong induction on the later
    term through the intersection of the accepting and the electing quorum.) *)
Theorem c11_leader_completeness : forall l acts1 acts2, NoDup l ->
  let w1 := net_run (net_init l) acts1 in
  let w2 := net_run w1 acts2 in
  forall a b i e, In a l -> In b l ->
    i <= commit (nodes w1 a) -> log_get (log (nodes w1 a)) i = Some e ->
    role (nodes w2 b) = Leader -> term (nodes w1 a) < term (nodes w2 b) ->
    log_get (log (nodes w2 b)) i = Some e.
Proof. exact leader_completeness. Qed.
Print Assumptions c11_leader_completeness.

(** ... and within one state: a leader whose term is at least a node's term
    holds every entry up to that node's commit index. *)
Theorem c11_leader_has_committed : forall l acts, NoDup l ->
  let w := net_run (net_init l) acts in
  forall a b i e, In a l -> In b l ->
    i <= commit (nodes w a) -> log_get (log (nodes w a)) i = Some e ->
    role (nodes w b) = Leader -> term (nodes w a) <= term (nodes w b) ->
    log_get (log (nodes w b)) i = Some e.
Proof. exact leader_has_committed. Qed.
Print Assumptions c11_leader_has_committed.

(** STATE-MACHINE SAFETY, cluster level, every cluster and schedule: no two
    nodes ever apply different commands at the same log index ([applied] is the
    node's history of (index, command) pairs handed to the state machine);
    two nodes never hold different entries at an index both have committed. *)
Theorem c11_state_machine_safety : forall l acts, NoDup l ->
  let w := net_run (net_init l) acts in
  forall a b i c c', In a l -> In b l ->
    In (i, c) (applied (nodes w a)) -> In (i, c') (applied (nodes w b)) -> c = c'.
Proof. exact state_machine_safety. Qed.
Print Assumptions c11_state_machine_safety.

Theorem c11_committed_entries_agree : forall l acts, NoDup l ->
  let w := net_run (net_init l) acts in
  forall a b i e e', In a l -> In b l ->
    i <= commit (nodes w a) -> i <= commit (nodes w b) ->
    log_get (log (nodes w a)) i = Some e -> log_get (log (nodes w b)) i = Some e' -> e = e'.
Proof. exact committed_agree. Qed.
Print Assumptions c11_committed_entries_agree.

(** Log matching, the per-step fact about replies.
    A successful AppendEntries reply reports prev_log_index + len(entries) —
    never more (the defect fixed in 2aaca38) — and up to that index the
    follower's log then agrees term for term with what the leader sent, while
    the entries up to prev_log_index are untouched. *)
Theorem c11_log_matching_step_partial : forall n src t lead (pli : nat) plt l lc t' f mi,
  let r := handle_append_entries n src t lead (Z.of_nat pli) plt (with_index (Z.of_nat pli) l) lc in
  In (OSend src (AppendResponse t' true f mi)) (snd r) ->
  mi = Z.of_nat pli + zlen l /\
  (pli + length l <= length (log (fst r)))%nat /\
  map fst (firstn (pli + length l) (log (fst r))) = map fst (firstn pli (log n)) ++ map fst l /\
  firstn pli (log (fst r)) = firstn pli (log n).
Proof. exact append_entries_reply_verified. Qed.
Print Assumptions c11_log_matching_step_partial.

(** Leader Append-Only (one of the ingredients of leader completeness, kept as a
    per-node theorem; the name keeps its historical suffix): a node that is
    and remains leader of a term never removes or rewrites an entry of its log,
    whatever it is handed. *)
Theorem c11_leader_append_only_partial : forall n inp,
  role n = Leader -> role (fst (node_step n inp)) = Leader -> term (fst (node_step n inp)) = term n ->
  exists suffix, log (fst (node_step n inp)) = log n ++ suffix.
Proof. exact leader_append_only. Qed.
Print Assumptions c11_leader_append_only_partial.

(** The repaired [_step_down]: for ANY input a node's term never decreases and
    its vote is kept while the term is unchanged. *)
Theorem c11_term_monotone_vote_stable : forall n inp,
  term n <= term (fst (node_step n inp)) /\
  (term (fst (node_step n inp)) = term n -> forall c, voted n = Some c -> voted (fst (node_step n inp)) = Some c).
Proof. exact term_monotone_vote_stable. Qed.
Print Assumptions c11_term_monotone_vote_stable.

(** Every leader there has ever been held the votes, cast in its term, of a
    duplicate-free set of more than half of the nodes. *)
Theorem c11_leader_has_quorum_of_votes : forall l acts, NoDup l ->
  let w := net_run (net_init l) acts in
  forall t a, In (t, a) (led w) ->
  exists vs, NoDup vs /\ zlen l / 2 + 1 <= zlen vs /\ forall v, In v vs -> In (v, t, a) (cast w).
Proof. exact leader_has_quorum_of_votes. Qed.
Print Assumptions c11_leader_has_quorum_of_votes.

(** Liveness clause, the part that is proved (PARTIAL): one delivered
    AppendEntries brings a follower that holds the leader's log up to
    next_index-1 completely up to date; it recognises the leader and answers
    success with match_index = the leader's last index. *)
Theorem c11_replication_round_partial : forall n f (p : nat),
  Z.of_nat p = aget (nid f) 1 (next_index n) - 1 ->
  (p <= length (log n))%nat ->
  log f = firstn p (log n) ->
  term f <= term n ->
  zmem (nid n) (peers f) = true ->
  match append_entries_for n (nid f) with
  | OSend d m =>
      d = nid f /\
      let r := node_step f (IMsg (nid n) m) in
      log (fst r) = log n /\
      term (fst r) = term n /\ role (fst r) = Follower /\ leader (fst r) = Some (nid n) /\
      In (OSend (nid n) (AppendResponse (term n) true (nid f) (last_index (log n)))) (snd r)
  | _ => False
  end.
Proof. exact replication_round. Qed.
Print Assumptions c11_replication_round_partial.

(** Liveness, two more hops (PARTIAL, each for every node state meeting the
    hypotheses): a successful reply that completes a quorum for an entry of the
    leader's own term makes the leader commit at least that far, with everything
    committed applied ... *)
Theorem c11_commit_on_quorum_partial : forall n src f mi hi e,
  role n = Leader -> apply_inv n -> log_get (log n) hi = Some e -> fst e = term n -> commit n < hi ->
  1 + count_ge hi (aset f mi (match_index n)) >= quorum n ->
  let n' := fst (node_step n (IMsg src (AppendResponse (term n) true f mi))) in
  hi <= commit n' /\ commit n' <= last_applied n' /\ role n' = Leader /\ log n' = log n.
Proof. exact commit_on_quorum. Qed.
Print Assumptions c11_commit_on_quorum_partial.

(** ... and the next AppendEntries hands an in-sync follower the leader's commit
    index: its log becomes the leader's, it commits exactly that far, has applied
    everything it committed, and every applied command is the log's entry. *)
Theorem c11_follower_learns_commit_partial : forall n f (p : nat),
  Z.of_nat p = aget (nid f) 1 (next_index n) - 1 -> (p <= length (log n))%nat -> log f = firstn p (log n) ->
  term f <= term n -> zmem (nid n) (peers f) = true ->
  apply_inv f -> ap_ok f -> apply_inv n ->
  match append_entries_for n (nid f) with
  | OSend d m =>
      let r := node_step f (IMsg (nid n) m) in
      log (fst r) = log n /\ commit (fst r) = Z.max (commit f) (commit n) /\ commit (fst r) <= last_applied (fst r) /\ ap_ok (fst r)
  | _ => False
  end.
Proof. exact follower_learns_commit. Qed.
Print Assumptions c11_follower_learns_commit_partial.

(** LIVENESS on a fault-free network, cluster level, for every cluster size >= 2
    and the canonical schedule (PARTIAL in the delivery order: messages are
    delivered in the order they were sent): in an in-sync cluster (everybody in
    the leader's term with the leader's log, nothing in flight — [insync]; a
    three-node cluster right after its first election is such a state,
    [insync_reachable]) the cycle "submit at the leader; heartbeat; deliver
    everything; heartbeat; deliver everything" leaves the cluster in sync with
    the command appended to every log and committed at every node ... *)
Theorem c11_liveness_one_command_partial : forall w L T LG c, insync w L T LG ->
  insync (net_run w (cycle L c (length (peers (nodes w L))))) L T (LG ++ [(T, c)]).
Proof. exact one_command. Qed.
Print Assumptions c11_liveness_one_command_partial.

(** ... so every command of ANY list submitted to the established leader is
    committed and applied, in submission order, by every node. *)
Theorem c11_liveness_all_commands_applied_partial : forall cs w L T LG, insync w L T LG ->
  let w' := net_run w (run_commands L (length (peers (nodes w L))) cs) in
  forall i, In i (ids w') -> map snd (applied (nodes w' i)) = map snd LG ++ cs.
Proof. exact all_commands_applied. Qed.
Print Assumptions c11_liveness_all_commands_applied_partial.

(* ------------------------------------------------------------------ *)
(** The replicated log of the CODE: consensus/log.py as REGENERATED on every run
    (Gen/RaftLogGen.v, py2coq) refines the model's log functions: [log_abs]
    forgets the stored index field, [log_wf] (stored index = position) is kept. *)
Theorem c11_code_log_refines_model : forall L t c i n,
  (let r := Log_append L t c in
   log_abs (fst r) = log_abs L ++ [(t, c)] /\ Log_commit_index (fst r) = Log_commit_index L
   /\ triple (snd r) = (last_index (log_abs L) + 1, t, c) /\ (log_wf L -> log_wf (fst r)))
  /\ (exists r, Log_get L i = Some r /\ option_map strip r = log_get (log_abs L) i)
  /\ (let r := Log_truncate_from L i in
      (log_abs (fst r), Log_commit_index (fst r)) = truncate_from (log_abs L) (Log_commit_index L) i
      /\ (log_wf L -> log_wf (fst r)))
  /\ (log_wf L -> map triple (Log_entries_after L i) = entries_after (log_abs L) i)
  /\ Log_last_index L = last_index (log_abs L)
  /\ Log_last_term L = Some (last_term (log_abs L))
  /\ (log_wf L -> 0 <= Log_commit_index L -> Log_commit_index L <= zlen (Log__entries L) ->
      let r := Log_advance_commit L n in
      (Log_commit_index (fst r), map triple (snd r)) = advance_commit (log_abs L) (Log_commit_index L) n
      /\ log_abs (fst r) = log_abs L).
Proof.
  intros L t c i n.
  exact (conj (tie_log_append L t c) (conj (tie_log_get L i) (conj (tie_log_truncate L i) (conj (tie_log_entries_after L i)
        (conj (tie_log_last_index L) (conj (tie_log_last_term L) (tie_log_advance_commit L n))))))).
Qed.
Print Assumptions c11_code_log_refines_model.

(** The quorum of the CODE: RaftNode.quorum_size, regenerated from consensus/raft.py on every run, is
    the model's [quorum] for a node with as many peers, and a strict majority of the cluster (node +
    peers), so any two quorums intersect — the arithmetic fact election safety, leader completeness and
    state-machine safety above rest on. *)
Theorem c11_code_quorum_is_majority : forall (r : RaftNode) (n : node),
  (length (peers n) = length (RaftNode__peers r) -> RaftNode_quorum_size r = quorum n)
  /\ (let total := Z.of_nat (length (RaftNode__peers r)) + 1 in
      2 * RaftNode_quorum_size r > total /\ RaftNode_quorum_size r <= total).
Proof. intros r n. exact (conj (tie_raft_quorum r n) (raft_quorum_majority r)). Qed.
Print Assumptions c11_code_quorum_is_majority.

(** The leader's COMMIT RULE of the code: RaftNode._try_advance_commit, regenerated from
    consensus/raft.py on every run (a descending range loop with continue / break, an inner loop
    over match_index.values(), Log.get, Log.advance_commit; _apply_committed declared a no-op on
    the translated fields), does not raise, returns no events, and advances the log's commit index
    exactly to the index [commit_target] selects ... *)
Theorem c11_code_commit_rule : forall r : RaftNode,
  RaftNode__try_advance_commit r
  = Some (match commit_target (log_abs (RaftNode__log r)) (RaftNode__match_index r) (RaftNode__current_term r)
                              (RaftNode_quorum_size r) (Log_last_index (RaftNode__log r))
                              (Z.to_nat (Log_last_index (RaftNode__log r) - Log_commit_index (RaftNode__log r))) with
          | Some c => with_commit r c
          | None => r
          end, []).
Proof. exact tie_try_advance_commit. Qed.
Print Assumptions c11_code_commit_rule.

(** ... which is the highest index above the old commit index whose entry is of the CURRENT term
    and is held by a quorum counting the leader (Raft's commit restriction, the premise of leader
    completeness) ... *)
Theorem c11_code_commit_rule_spec : forall lg mi tm q k hi c,
  commit_target lg mi tm q hi k = Some c ->
  hi - Z.of_nat k < c <= hi
  /\ (exists e, log_get lg c = Some e /\ fst e = tm)
  /\ q <= 1 + count_ge c mi
  /\ forall c', c < c' <= hi ->
       ~ ((exists e, log_get lg c' = Some e /\ fst e = tm) /\ q <= 1 + count_ge c' mi).
Proof. exact commit_target_spec. Qed.
Print Assumptions c11_code_commit_rule_spec.

(** ... and on the code object of a model node (same log, commit index, term, match indices and
    cluster size) it leaves exactly the log and commit index of the model's [try_advance_commit] —
    the step every cluster-level safety theorem above reasons about — and changes nothing else. *)
Theorem c11_code_commit_rule_refines_model : forall (r : RaftNode) (n : node),
  log n = log_abs (RaftNode__log r) -> commit n = Log_commit_index (RaftNode__log r) ->
  term n = RaftNode__current_term r -> match_index n = RaftNode__match_index r ->
  length (peers n) = length (RaftNode__peers r) ->
  log_wf (RaftNode__log r) -> 0 <= commit n -> commit n <= zlen (log n) ->
  exists r', RaftNode__try_advance_commit r = Some (r', [])
    /\ log_abs (RaftNode__log r') = log (try_advance_commit n)
    /\ Log_commit_index (RaftNode__log r') = commit (try_advance_commit n)
    /\ RaftNode__match_index r' = RaftNode__match_index r /\ RaftNode__current_term r' = RaftNode__current_term r
    /\ RaftNode__peers r' = RaftNode__peers r.
Proof. exact code_try_advance_commit_refines_model. Qed.
Print Assumptions c11_code_commit_rule_refines_model.
