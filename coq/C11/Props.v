(** Property C11 — the theorems the check counts as obligations.  Nothing but
    statements closed by [exact] and [Print Assumptions]. *)
From HS Require Import Base.Prelude C11.Model C11.NodeProofs.
Local Open Scope Z_scope.

(** Each node applies indices 1,2,3,... in order without gaps or repeats, for
    EVERY sequence of inputs (any messages, forged ones included, any timer
    firings, any submits); commit_index never runs ahead of last_applied; a
    future only ever resolves with an (index, command) this node applied. *)
Theorem c11_apply_in_order : forall ids i inputs,
  let n := node_run (init_node ids i) inputs in
  map fst (applied n) = zseq 1 (length (applied n)) /\
  last_applied n = zlen (applied n) /\
  commit n <= last_applied n /\
  (forall f idx c, In (f, idx, c) (resolved n) -> In (idx, c) (applied n)).
Proof. exact apply_in_order. Qed.
Print Assumptions c11_apply_in_order.
