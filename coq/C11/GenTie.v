(** C11 — tie between consensus/log.py and the model's log functions, through
    the REGENERATED translation [Gen/RaftLogGen.v] (py2coq).  The model stores
    (term, command) pairs, the index of an entry being its position; the code
    stores LogEntry(index, term, command): [log_abs] forgets the stored index,
    [log_wf] says it is the position (kept by every translated method). *)
From HS Require Import Base.Prelude Base.PyLib C11.Model C11.NodeProofs Gen.RaftLogGen.
Local Open Scope Z_scope.

Definition strip (e : LogEntry) : entry := (LogEntry_term e, LogEntry_command e).
Definition triple (e : LogEntry) : Z * Z * Z := (LogEntry_index e, LogEntry_term e, LogEntry_command e).
Definition log_abs (L : Log) : list entry := map strip (Log__entries L).
Definition log_wf (L : Log) : Prop :=
  forall j e, nth_error (Log__entries L) j = Some e -> LogEntry_index e = Z.of_nat j + 1.

Lemma zlen_map {A B} (f : A -> B) l : zlen (map f l) = zlen l.
Proof. unfold zlen. rewrite map_length. reflexivity. Qed.

Lemma nth_error_skipn_local {A} (l : list A) c j : nth_error (skipn c l) j = nth_error l (c + j).
Proof. revert l; induction c as [|c IH]; intros l; [reflexivity|]. destruct l; [destruct j; reflexivity|]. apply IH. Qed.

Lemma nth_error_firstn_local {A} (l : list A) c j e : nth_error (firstn c l) j = Some e -> nth_error l j = Some e.
Proof.
  revert l j; induction c as [|c IH]; intros l j H; [destruct j; discriminate|].
  destruct l as [|x l]; [destruct j; discriminate|]. destruct j; cbn in *; [exact H|apply IH, H].
Qed.

Lemma map_map_local (l : list LogEntry) : map triple l = map triple l.
Proof. reflexivity. Qed.

(* ---- Python indexing / slicing in range ---- *)
Lemma py_index_in {A} (l : list A) i : 0 <= i -> i < Z.of_nat (length l) -> py_index l i = nth_error l (Z.to_nat i).
Proof.
  intros H0 H1. unfold py_index. replace (i <? 0) with false by lia.
  replace ((i <? 0) || (i >=? Z.of_nat (length l))) with false by lia. reflexivity.
Qed.

Lemma py_index_last {A} (l : list A) : l <> [] -> py_index l (-1) = nth_error l (length l - 1).
Proof.
  intros H. unfold py_index. assert (0 < length l)%nat by (destruct l; [congruence|cbn; lia]).
  replace (-1 <? 0) with true by lia.
  replace ((-1 + Z.of_nat (length l) <? 0) || (-1 + Z.of_nat (length l) >=? Z.of_nat (length l))) with false by lia.
  f_equal. lia.
Qed.

Lemma py_slice_prefix {A} (l : list A) k : 0 <= k -> k <= Z.of_nat (length l) -> py_slice l None (Some k) = firstn (Z.to_nat k) l.
Proof.
  intros H0 H1. unfold py_slice, py_clamp. replace (k <? 0) with false by lia.
  rewrite Z.min_r by lia. rewrite Z.max_r by lia. cbn [skipn Z.to_nat]. f_equal. lia.
Qed.

Lemma py_slice_suffix {A} (l : list A) k : 0 <= k -> py_slice l (Some k) None = skipn (Z.to_nat k) l.
Proof.
  intros H0. unfold py_slice, py_clamp. replace (k <? 0) with false by lia.
  destruct (Z_le_gt_dec k (Z.of_nat (length l))) as [H|H].
  - rewrite Z.min_r by lia. rewrite Z.max_r by lia.
    rewrite firstn_all2; [reflexivity|]. rewrite skipn_length. lia.
  - rewrite Z.min_l by lia. rewrite Z.max_r by lia. rewrite Nat2Z.id.
    rewrite skipn_all. rewrite skipn_all2 by lia. destruct (Z.to_nat _); reflexivity.
Qed.

Lemma py_slice_mid {A} (l : list A) a b : 0 <= a -> a <= b -> b <= Z.of_nat (length l) ->
  py_slice l (Some a) (Some b) = firstn (Z.to_nat (b - a)) (skipn (Z.to_nat a) l).
Proof.
  intros H0 H1 H2. unfold py_slice, py_clamp. replace (a <? 0) with false by lia. replace (b <? 0) with false by lia.
  rewrite !Z.min_r by lia. rewrite !Z.max_r by lia. reflexivity.
Qed.

(* ---- append ---- *)
Lemma tie_log_append L t c :
  let r := Log_append L t c in
  log_abs (fst r) = log_abs L ++ [(t, c)] /\ Log_commit_index (fst r) = Log_commit_index L
  /\ triple (snd r) = (last_index (log_abs L) + 1, t, c) /\ (log_wf L -> log_wf (fst r)).
Proof.
  unfold Log_append, log_abs, last_index; cbn. rewrite map_app, zlen_map. repeat split.
  intros W j e H. cbn in H. destruct (Nat.lt_ge_cases j (length (Log__entries L))) as [Hlt|Hge].
  - rewrite nth_error_app1 in H by exact Hlt. apply W, H.
  - assert (j = length (Log__entries L)).
    { assert (j < length (Log__entries L ++ [mkLogEntry (Z.of_nat (length (Log__entries L)) + 1) t c]))%nat by (apply nth_error_Some; congruence).
      rewrite app_length in H0. cbn in H0. lia. }
    subst j. rewrite nth_error_app2 in H by lia. rewrite Nat.sub_diag in H. inversion H; subst. reflexivity.
Qed.

(* ---- get ---- *)
Lemma tie_log_get L i :
  exists r, Log_get L i = Some r /\ option_map strip r = log_get (log_abs L) i.
Proof.
  unfold Log_get, log_get, log_abs. rewrite zlen_map. unfold zlen.
  destruct (i <? 1) eqn:E1; cbn [orb]; [eexists; split; reflexivity|].
  destruct (i >? Z.of_nat (length (Log__entries L))) eqn:E2; [eexists; split; reflexivity|].
  rewrite py_index_in by lia. rewrite nth_error_map.
  destruct (nth_error (Log__entries L) (Z.to_nat (i - 1))) as [e|] eqn:E.
  - eexists; split; reflexivity.
  - exfalso. apply nth_error_None in E. lia.
Qed.

(* ---- truncate_from ---- *)
Lemma tie_log_truncate L i :
  let r := Log_truncate_from L i in
  (log_abs (fst r), Log_commit_index (fst r)) = truncate_from (log_abs L) (Log_commit_index L) i
  /\ (log_wf L -> log_wf (fst r)).
Proof.
  unfold Log_truncate_from, truncate_from, log_abs. rewrite zlen_map. unfold zlen.
  destruct (i <? 1) eqn:E1; cbn [orb fst]; [split; [reflexivity|auto]|].
  destruct (i >? Z.of_nat (length (Log__entries L))) eqn:E2; cbn [fst]; [split; [reflexivity|auto]|].
  cbn [set_Log__entries Log__entries Log_commit_index].
  rewrite py_slice_prefix by lia.
  assert (W' : log_wf L -> log_wf (mkLog (firstn (Z.to_nat (i - 1)) (Log__entries L)) (Log_commit_index L))).
  { intros W j e H. cbn in H. assert (Hj : (j < Z.to_nat (i - 1))%nat).
    { assert (j < length (firstn (Z.to_nat (i - 1)) (Log__entries L)))%nat by (apply nth_error_Some; congruence).
      rewrite firstn_length in H0. lia. }
    apply W. rewrite <- H. symmetry. clear -Hj. revert j Hj. generalize (Z.to_nat (i - 1)) as c. generalize (Log__entries L) as l.
    induction l as [|x l IH]; intros c j Hj; [destruct c, j; reflexivity|].
    destruct c; [lia|]. destruct j; cbn; [reflexivity|]. apply IH. lia. }
  destruct (Log_commit_index L >=? i) eqn:E3; cbn [fst Log__entries Log_commit_index set_Log_commit_index].
  - split; [rewrite firstn_map; reflexivity|]. intros W j e H. apply (W' W j e). exact H.
  - split; [rewrite firstn_map; reflexivity|]. exact W'.
Qed.

(* ---- entries_after ---- *)
Lemma with_index_triple l : forall (k : nat),
  (forall j e, nth_error l j = Some e -> LogEntry_index e = Z.of_nat (k + j) + 1) ->
  map triple l = with_index (Z.of_nat k) (map strip l).
Proof.
  induction l as [|e l IH]; intros k H; cbn [map with_index]; [reflexivity|].
  unfold strip at 1. pose proof (H 0%nat e eq_refl) as H0. rewrite Nat.add_0_r in H0.
  unfold triple at 1. rewrite H0. f_equal.
  replace (Z.of_nat k + 1) with (Z.of_nat (S k)) by lia. apply IH.
  intros j x Hx. specialize (H (S j) x Hx). rewrite H. lia.
Qed.

Lemma tie_log_entries_after L i : log_wf L ->
  map triple (Log_entries_after L i) = entries_after (log_abs L) i.
Proof.
  intros W. unfold Log_entries_after, entries_after, log_abs.
  assert (K : forall k, 0 <= k ->
            map triple (py_slice (Log__entries L) (Some k) None) = with_index k (skipn (Z.to_nat k) (map strip (Log__entries L)))).
  { intros k Hk. rewrite py_slice_suffix by exact Hk. rewrite skipn_map.
    rewrite <- (Z2Nat.id k) at 2 by exact Hk. apply with_index_triple.
    intros j e H. rewrite nth_error_skipn_local in H. apply W, H. }
  destruct (i <? 0) eqn:E; [apply (K 0); lia|apply K; lia].
Qed.

(* ---- last_index / last_term ---- *)
Lemma tie_log_last_index L : Log_last_index L = last_index (log_abs L).
Proof. unfold Log_last_index, last_index, log_abs. rewrite zlen_map. reflexivity. Qed.

Lemma last_term_nth (l : list entry) : last_term l = match nth_error l (length l - 1) with Some e => fst e | None => 0 end.
Proof.
  unfold last_term. destruct l as [|x l] using rev_ind; [reflexivity|].
  rewrite rev_app_distr. cbn [rev app]. rewrite app_length. cbn [length].
  replace (length l + 1 - 1)%nat with (length l) by lia. rewrite nth_error_app2 by lia. rewrite Nat.sub_diag. reflexivity.
Qed.

Lemma tie_log_last_term L : Log_last_term L = Some (last_term (log_abs L)).
Proof.
  unfold Log_last_term, log_abs. destruct (Log__entries L) as [|x l] eqn:E; [reflexivity|].
  cbn [negb]. rewrite py_index_last by discriminate. rewrite last_term_nth, map_length, nth_error_map.
  destruct (nth_error (x :: l) (length (x :: l) - 1)) as [e|] eqn:En; [reflexivity|].
  exfalso. apply nth_error_None in En. cbn in En. lia.
Qed.

(* ---- advance_commit ---- *)
Lemma tie_log_advance_commit L n : log_wf L -> 0 <= Log_commit_index L -> Log_commit_index L <= zlen (Log__entries L) ->
  let r := Log_advance_commit L n in
  (Log_commit_index (fst r), map triple (snd r)) = advance_commit (log_abs L) (Log_commit_index L) n
  /\ log_abs (fst r) = log_abs L.
Proof.
  intros W H0 H1. unfold Log_advance_commit, advance_commit, log_abs. rewrite zlen_map.
  destruct (n <=? Log_commit_index L) eqn:E; cbn [fst snd]; [split; reflexivity|].
  cbn [set_Log_commit_index Log__entries Log_commit_index]. split; [|reflexivity].
  unfold zlen in *. f_equal.
  set (c := Log_commit_index L) in *. set (c' := Z.min n (Z.of_nat (length (Log__entries L)))).
  rewrite py_slice_mid by (unfold c'; lia). unfold slice.
  rewrite skipn_map, firstn_map. rewrite <- (Z2Nat.id c) at 3 by lia.
  apply with_index_triple.
  intros j e H. apply nth_error_firstn_local in H. rewrite nth_error_skipn_local in H. apply W, H.
Qed.

(* ---- quorum ---- *)
(** [RaftNode.quorum_size] as regenerated is the model's [quorum], and it is a strict
    majority of the cluster (the node and its peers): two quorums always intersect —
    the arithmetic fact election safety and leader completeness rest on. *)
Lemma tie_raft_quorum (r : RaftNode) (n : node) :
  length (peers n) = length (RaftNode__peers r) -> RaftNode_quorum_size r = quorum n.
Proof. intros H. unfold RaftNode_quorum_size, quorum, zlen. rewrite H. reflexivity. Qed.

Lemma raft_quorum_majority (r : RaftNode) :
  let total := Z.of_nat (length (RaftNode__peers r)) + 1 in
  2 * RaftNode_quorum_size r > total /\ RaftNode_quorum_size r <= total.
Proof. unfold RaftNode_quorum_size. cbn zeta. split; lia. Qed.
