(** C11 — per-step log lemmas (the provable part of log matching / leader
    completeness on the repaired model):
    - a successful AppendEntries reply reports exactly the prefix that was
      checked against the request, and on that prefix the follower's log
      agrees (index by index, term by term) with what the leader sent;
      entries before prev_log_index are untouched;
    - a leader never removes or overwrites entries of its own log. *)
From HS Require Import Base.Prelude C11.Model C11.NodeProofs.
Local Open Scope Z_scope.

(** append_one on the log alone, positions as [nat] (index = position + 1). *)
Definition alog (L : list entry) (c : nat) (t cmd : Z) : list entry :=
  match nth_error L c with
  | Some ex => if fst ex =? t then L else firstn c L ++ [(t, cmd)]
  | None => L ++ [(t, cmd)]
  end.

Lemma log_get_nat L c : log_get L (Z.of_nat c + 1) = nth_error L c.
Proof.
  unfold log_get, zlen. destruct (Z.of_nat c + 1 >? Z.of_nat (length L)) eqn:E.
  - replace (Z.of_nat c + 1 <? 1) with false by lia. cbn.
    symmetry. apply nth_error_None. lia.
  - replace (Z.of_nat c + 1 <? 1) with false by lia. cbn. f_equal. lia.
Qed.

Lemma append_one_log n c t cmd :
  log (append_one n (Z.of_nat c + 1, t, cmd)) = alog (log n) c t cmd.
Proof.
  unfold append_one, alog. rewrite log_get_nat.
  destruct (nth_error (log n) c) as [ex|] eqn:E.
  - destruct (fst ex =? t); cbn [negb]; [reflexivity|].
    unfold truncate_from.
    assert (c < length (log n))%nat by (apply nth_error_Some; congruence).
    replace ((Z.of_nat c + 1 <? 1) || (Z.of_nat c + 1 >? zlen (log n))) with false by (unfold zlen; lia).
    destruct n; cbn. do 2 f_equal. lia.
  - destruct n; reflexivity.
Qed.

Fixpoint alogs (L : list entry) (c : nat) (l : list entry) : list entry :=
  match l with
  | [] => L
  | (t, cmd) :: r => alogs (alog L c t cmd) (S c) r
  end.

Lemma fold_append_log l : forall n c,
  log (fold_left append_one (with_index (Z.of_nat c) l) n) = alogs (log n) c l.
Proof.
  induction l as [|[t cmd] l IH]; intros n c; cbn [with_index fold_left alogs]; [reflexivity|].
  replace (with_index (Z.of_nat c + 1) l) with (with_index (Z.of_nat (S c)) l) by (f_equal; lia).
  rewrite IH, append_one_log. reflexivity.
Qed.

Lemma alog_spec L c t cmd : (c <= length L)%nat ->
  firstn c (alog L c t cmd) = firstn c L /\ (S c <= length (alog L c t cmd))%nat /\
  map fst (firstn (S c) (alog L c t cmd)) = map fst (firstn c L) ++ [t].
Proof.
  intros Hc. unfold alog. destruct (nth_error L c) as [ex|] eqn:E.
  - assert (Hlt : (c < length L)%nat) by (apply nth_error_Some; congruence).
    destruct (fst ex =? t) eqn:Et.
    + apply Z.eqb_eq in Et. split; [reflexivity|split; [lia|]].
      destruct (nth_error_split L c E) as (a & b & -> & <-).
      rewrite !firstn_app. rewrite !(firstn_all2 (n := S (length a))) by lia. rewrite !(firstn_all2 (n := length a)) by lia.
      replace (length a - length a)%nat with 0%nat by lia.
      replace (S (length a) - length a)%nat with 1%nat by lia.
      change (firstn 1 (ex :: b)) with [ex]. change (firstn 0 (ex :: b)) with (@nil entry).
      rewrite app_nil_r, map_app. cbn [map]. rewrite Et. reflexivity.
    + assert (Hl : length (firstn c L) = c) by (rewrite firstn_length; lia).
      split; [|split].
      * rewrite firstn_app. replace (c - length (firstn c L))%nat with 0%nat by lia.
        change (firstn 0 [(t, cmd)]) with (@nil entry). rewrite app_nil_r. rewrite firstn_firstn. f_equal. lia.
      * rewrite app_length. cbn [length]. lia.
      * rewrite firstn_all2 by (rewrite app_length; cbn [length]; lia). rewrite map_app. reflexivity.
  - apply nth_error_None in E. assert (c = length L) by lia. subst c. split; [|split].
    + rewrite firstn_app, firstn_all. replace (length L - length L)%nat with 0%nat by lia.
      change (firstn 0 [(t, cmd)]) with (@nil entry). apply app_nil_r.
    + rewrite app_length. cbn [length]. lia.
    + rewrite firstn_all2 by (rewrite app_length; cbn [length]; lia). rewrite firstn_all, map_app. reflexivity.
Qed.

Lemma alogs_spec l : forall L c, (c <= length L)%nat ->
  firstn c (alogs L c l) = firstn c L /\ (c + length l <= length (alogs L c l))%nat /\
  map fst (firstn (c + length l) (alogs L c l)) = map fst (firstn c L) ++ map fst l.
Proof.
  induction l as [|[t cmd] l IH]; intros L c Hc; cbn [alogs length map].
  - rewrite Nat.add_0_r, app_nil_r. repeat split; lia.
  - destruct (alog_spec L c t cmd Hc) as (A1 & A2 & A3).
    destruct (IH (alog L c t cmd) (S c) A2) as (B1 & B2 & B3).
    split; [|split].
    + rewrite <- A1.
      assert (X : forall (M : list entry), firstn c M = firstn c (firstn (S c) M))
        by (intros M; rewrite firstn_firstn; f_equal; lia).
      rewrite (X (alogs _ _ _)), B1, <- X. reflexivity.
    + lia.
    + replace (c + S (length l))%nat with (S c + length l)%nat by lia.
      rewrite B3, A3, <- app_assoc. reflexivity.
Qed.

Lemma apply_one_log n e : log (apply_one n e) = log n.
Proof.
  destruct e as [[idx t] cmd]. unfold apply_one. destruct (idx >? last_applied n); [|reflexivity].
  cbn. destruct (afind _ _); destruct n; reflexivity.
Qed.

Lemma commit_to_log n c : log (commit_to n c) = log n.
Proof.
  unfold commit_to. destruct (advance_commit _ _ _) as [c' es]. unfold apply_committed.
  assert (H : forall es m, log (fold_left apply_one es m) = log m).
  { clear. induction es as [|e es IH]; intros m; cbn; [reflexivity|]. rewrite IH. apply apply_one_log. }
  rewrite H. destruct n; reflexivity.
Qed.

Lemma step_down_log n t : log (step_down n t) = log n.
Proof. unfold step_down. destruct (t >? term n); destruct n; reflexivity. Qed.

(** A successful AppendEntries reply (repaired code): the reported match_index
    is prev_log_index + len(entries); up to that index the follower's log now
    agrees term-for-term with what the leader sent, entries up to
    prev_log_index are untouched. *)
Theorem append_entries_reply_verified n src t lead (pli : nat) plt l lc t' f mi :
  let r := handle_append_entries n src t lead (Z.of_nat pli) plt (with_index (Z.of_nat pli) l) lc in
  In (OSend src (AppendResponse t' true f mi)) (snd r) ->
  mi = Z.of_nat pli + zlen l /\
  (pli + length l <= length (log (fst r)))%nat /\
  map fst (firstn (pli + length l) (log (fst r))) = map fst (firstn pli (log n)) ++ map fst l /\
  firstn pli (log (fst r)) = firstn pli (log n).
Proof.
  cbv zeta. unfold handle_append_entries.
  destruct (negb (zmem src (peers n))); [intros []|].
  destruct (t <? term n); [intros [H|[]]; inversion H|].
  set (n1 := set_term (set_leader (step_down n t) (Some lead)) t).
  assert (L1 : log n1 = log n).
  { unfold n1. rewrite <- (step_down_log n t). generalize (step_down n t). intros m. destruct m; reflexivity. }
  match goal with |- context [negb ?c] => destruct c eqn:C end; cbn [negb fst snd];
    [|intros [H|[H|[]]]; inversion H].
  assert (Hp : (pli <= length (log n1))%nat).
  { destruct (Z.of_nat pli >? 0) eqn:P; [|lia].
    unfold log_get in C. destruct ((Z.of_nat pli <? 1) || (Z.of_nat pli >? zlen (log n1))) eqn:Q; [discriminate|].
    unfold zlen in Q. lia. }
  intros [H|[H|[]]]; [discriminate|]. inversion H; subst. clear H.
  set (n2 := fold_left append_one (with_index (Z.of_nat pli) l) n1).
  assert (L2 : log n2 = alogs (log n1) pli l) by apply fold_append_log.
  match goal with |- context [if ?c then commit_to n2 ?x else n2] =>
    assert (L3 : log (if c then commit_to n2 x else n2) = log n2) by (destruct c; [apply commit_to_log|reflexivity]) end.
  rewrite L3, L2. destruct (alogs_spec l (log n1) pli Hp) as (A & B & C').
  rewrite L1 in *. split; [|auto].
  unfold zlen. rewrite with_index_length. reflexivity.
Qed.

(** Leader Append-Only: whatever a node that is and stays leader of a term is
    handed, its log only grows at the end. *)
Theorem leader_append_only n inp :
  role n = Leader -> role (fst (node_step n inp)) = Leader -> term (fst (node_step n inp)) = term n ->
  exists suffix, log (fst (node_step n inp)) = log n ++ suffix.
Proof.
  intros RL RL' T.
  assert (Same : forall n', same_core n n' -> exists suffix, log n' = log n ++ suffix).
  { intros n' (_ & E & _). exists []. rewrite app_nil_r. exact E. }
  destruct inp as [c|c|src m|cmd]; cbn [node_step] in *.
  - apply Same, handle_timeout_core.
  - apply Same, handle_heartbeat_core.
  - destruct m; cbn [handle_msg] in *.
    + apply Same, handle_request_vote_core.
    + apply Same, handle_vote_response_core.
    + (* AppendEntries: either ignored, or the node is no longer leader *)
      unfold handle_append_entries in *.
      destruct (negb (zmem src (peers n))); [exists []; rewrite app_nil_r; reflexivity|].
      destruct (t <? term n); [exists []; rewrite app_nil_r; reflexivity|].
      exfalso. revert RL'.
      set (n1 := set_term (set_leader (step_down n t) (Some lead)) t).
      assert (R1 : role n1 = Follower).
      { unfold n1. assert (role (step_down n t) = Follower) by (unfold step_down; destruct (t >? term n); destruct n; reflexivity).
        revert H. generalize (step_down n t). intros m. destruct m; cbn. auto. }
      destruct (negb _); cbn [fst]; [congruence|].
      assert (R2 : forall es m, role (fold_left append_one es m) = role m).
      { clear. induction es as [|e es IH]; intros m; cbn; [reflexivity|]. rewrite IH.
        destruct e as [[idx et] cmd]. unfold append_one. destruct (log_get _ _).
        - destruct (negb _); [|reflexivity]. destruct (truncate_from _ _ _). destruct m; reflexivity.
        - destruct m; reflexivity. }
      assert (R3 : forall m c, role (commit_to m c) = role m).
      { clear. intros m c. unfold commit_to. destruct (advance_commit _ _ _) as [c' es]. unfold apply_committed.
        assert (H : forall es x, role (fold_left apply_one es x) = role x).
        { clear. induction es as [|e es IH]; intros x; cbn; [reflexivity|]. rewrite IH.
          destruct e as [[idx t] cmd]. unfold apply_one. destruct (idx >? last_applied x); [|reflexivity].
          cbn. destruct (afind _ _); destruct x; reflexivity. }
        rewrite H. destruct m; reflexivity. }
      match goal with |- context [if ?c then commit_to ?a ?x else ?a] =>
        assert (R4 : role (if c then commit_to a x else a) = Follower) by (destruct c; [rewrite R3|]; rewrite R2; exact R1) end.
      congruence.
    + (* AppendEntriesResponse: log untouched *)
      exists []. rewrite app_nil_r. unfold handle_append_response.
      destruct (t >? term n); [apply step_down_log|].
      destruct (negb _); [reflexivity|].
      destruct (t <? term n); [reflexivity|].
      destruct success; cbn [fst].
      * unfold try_advance_commit.
        assert (H : forall k m hi, log (try_commit m hi k) = log m).
        { clear. induction k as [|k IH]; intros m hi; cbn; [reflexivity|].
          destruct (log_get _ _); auto. destruct (negb _); auto. destruct (_ >=? _); auto. apply commit_to_log. }
        rewrite H. destruct n; reflexivity.
      * match goal with |- context [if ?b then _ else _] => destruct b end; destruct n; reflexivity.
  - exists (if negb (role_eqb (role n) Leader) then [] else [(term n, cmd)]).
    unfold submit. destruct n; cbn in *. subst. cbn. reflexivity.
Qed.

(* ------------------------------------------------------------------ *)
(** * The cluster-level statements of the remaining safety clauses.

    They are STATED here in full; they are not proved (the global inductive
    invariant of Raft log safety is out of reach here).  What is proved about
    them are the per-step theorems above; the statements themselves are
    evaluated by the property oracle on the implementation in every explored
    schedule (harness/props/c11.py, class Oracle). *)
Definition log_matching_statement : Prop :=
  forall l acts, NoDup l ->
    let w := net_run (net_init l) acts in
    forall a b i e e', In a l -> In b l ->
      log_get (log (nodes w a)) i = Some e -> log_get (log (nodes w b)) i = Some e' -> fst e = fst e' ->
      firstn (Z.to_nat i) (log (nodes w a)) = firstn (Z.to_nat i) (log (nodes w b)).

Definition leader_completeness_statement : Prop :=
  forall l acts1 acts2, NoDup l ->
    let w1 := net_run (net_init l) acts1 in
    let w2 := net_run w1 acts2 in
    forall a b i e, In a l -> In b l ->
      i <= commit (nodes w1 a) -> log_get (log (nodes w1 a)) i = Some e ->
      role (nodes w2 b) = Leader -> term (nodes w1 a) < term (nodes w2 b) ->
      log_get (log (nodes w2 b)) i = Some e.

Definition state_machine_safety_statement : Prop :=
  forall l acts, NoDup l ->
    let w := net_run (net_init l) acts in
    forall a b i c c', In a l -> In b l ->
      In (i, c) (applied (nodes w a)) -> In (i, c') (applied (nodes w b)) -> c = c'.

(** The hypotheses of the conditional theorems are satisfiable. *)
Example reply_verified_satisfiable :
  In (OSend 0 (AppendResponse 1 true 1 1))
     (snd (handle_append_entries (init_node [0; 1; 2] 1) 0 1 0 (Z.of_nat 0) 0 (with_index (Z.of_nat 0) [(1, 7)]) 0)).
Proof. vm_compute. right. left. reflexivity. Qed.

Example leader_append_only_satisfiable :
  let n := node_run (init_node [0; 1; 2] 0) [ITimeout false; IMsg 1 (VoteResponse 1 true 1)] in
  role n = Leader /\ role (fst (node_step n (ISubmit 5))) = Leader /\
  term (fst (node_step n (ISubmit 5))) = term n /\ log (fst (node_step n (ISubmit 5))) = log n ++ [(1, 5)].
Proof. vm_compute. auto. Qed.
