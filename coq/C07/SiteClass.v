(** HAND-MAINTAINED classification of the stale-clock / zero-delay-spin (C07) sites of the pinned tree.
    Each row: the site (file, qualified function, kind, detail, ordinal) and its class.
    [Benign reason]: cannot change deliveries or component statistics, for the stated reason.
    [Finding id]: a recorded defect (known_findings/C07.json).
    A site of the regenerated list (Gen/*.v) that is not in this table breaks the
    classification theorem of C07/Props.v. *)
From HS Require Import Base.Sites.
From Coq Require Import String List ZArith.
Import ListNotations.
Local Open Scope string_scope.
Local Open Scope Z_scope.

Definition known_stale_sites : list (site * cls) := [
  (("happysimulator/components/messaging/message_queue.py", "MessageQueue._deliver_message", "stale_now", "Event(time=self._clock.now if self._clock else now) name now bound before a yield", 0), Benign "the event is stamped with the clock read AFTER the latency wait; the name bound before the yield is only the fallback when no clock is attached (then no simulated time exists)");
  (("happysimulator/components/server/async_server.py", "AsyncServer._on_cpu_complete", "stale_now", "events in 'result_events' stamped in the enclosing function, emitted by nested generator io_wrapper after a yield", 0), Benign "io_wrapper re-stamps every event of result_events with the current clock before returning them (repair of finding C07-async-server-stale-queue-event)")
].
