(** Property C07 — no library component emits an event into the past or spins
    at a frozen clock.

    Proved here:
    (1) [c07_stale_sites_classified]: every site of the CURRENT source tree that
        matches a stale-clock / zero-delay-spin pattern (regenerated on every
        run into Gen/StaleSites.v: a name bound from `.now` before a `yield` and
        used as an Event time after it; an Event built before a later non-zero
        yield; `while cond: yield 0`; `Event(time=now - ...)`) has a settled row
        in the hand-maintained table C07/SiteClass.v.
    (2) Engine side (all scripts, schedules, end times): an event is discarded
        as being in the past ONLY if it was scheduled earlier than the clock at
        the moment of its scheduling — so "never emits into the past" is exactly
        "the engine never has to discard", and every event scheduled at or after
        the clock is delivered (C01).
    The library-wide quantifier ("every component, every workload") is reached
    by the per-component theorems of C08-C19 for the modelled components and,
    for the rest, by monitored scenario runs (harness/props/c07.py: a push
    monitor, a frozen-clock watchdog and the engine's own time-travel warning) —
    that part is exploration, which is why C07 is claimed as proof, partial. *)
From HS Require Import Base.Prelude Base.Sites C07.SiteClass Gen.StaleSites
  Engine.Engine Engine.Script Engine.EngineProofs Engine.ScriptProofs.
From Coq Require Import String.
Local Open Scope Z_scope.

Theorem c07_stale_sites_classified : all_classified known_stale_sites stale_sites = true.
Proof. vm_compute. reflexivity. Qed.
Print Assumptions c07_stale_sites_classified.

Theorem c07_every_stale_site_has_a_settled_row :
  forall s, In s stale_sites -> exists c, In (s, c) known_stale_sites /\ is_settled c = true.
Proof. exact (all_classified_spec known_stale_sites stale_sites c07_stale_sites_classified). Qed.
Print Assumptions c07_every_stale_site_has_a_settled_row.

Theorem c07_engine_discards_only_events_emitted_into_the_past : forall fuel start end_ns p pre e c,
  In (e, c, SkippedPast) (log (out_state (script_run fuel start end_ns p pre))) ->
  exists at_, In (e, at_) (pushed (out_state (script_run fuel start end_ns p pre))) /\ ev_time e < at_.
Proof. intros. eapply past_only_if_scheduled_in_past; [apply script_run_inv|eassumption]. Qed.
Print Assumptions c07_engine_discards_only_events_emitted_into_the_past.

(** The clock never moves backwards: every popped event leaves the clock at or
    above every earlier delivery's timestamp. *)
Theorem c07_clock_never_moves_backwards : forall fuel start end_ns p pre x,
  In x (dlog pay ustate (out_state (script_run fuel start end_ns p pre))) ->
  ev_time x <= clock (out_state (script_run fuel start end_ns p pre)).
Proof. intros. eapply i_dclock; [apply script_run_inv|eassumption]. Qed.
Print Assumptions c07_clock_never_moves_backwards.
