(** C16 — SoftTTLCache: capacity / LRU bookkeeping invariant, coherence with
    the backing store, and the hard-TTL bound, over every interleaving. *)
From HS Require Import Base.Prelude C16.Model C16.Lists C16.ModelTTL.
Local Open Scope Z_scope.

Lemma ekeys_eset k e m : ekeys (eset k e m) = add_end k (ekeys m).
Proof.
  unfold add_end, ekeys. induction m as [|[k' e'] m IH]; cbn; [reflexivity|].
  unfold zmem in *. cbn. rewrite (Z.eqb_sym k k'). destruct (k' =? k) eqn:E; cbn; [reflexivity|].
  rewrite IH. destruct (existsb (Z.eqb k) (map fst m)); reflexivity.
Qed.

Lemma ekeys_edel k m : ekeys (edel k m) = remove1 k (ekeys m).
Proof.
  unfold ekeys. induction m as [|[k' e'] m IH]; cbn; [reflexivity|].
  destruct (k' =? k); cbn; [reflexivity|]. rewrite IH. reflexivity.
Qed.

Lemma eget_eset_same k e m : eget k (eset k e m) = Some e.
Proof.
  induction m as [|[k' e'] m IH]; cbn; [rewrite Z.eqb_refl; reflexivity|].
  destruct (k' =? k) eqn:E; cbn; rewrite E; auto.
Qed.

Lemma eget_eset_other k k' e m : k' <> k -> eget k' (eset k e m) = eget k' m.
Proof.
  intros Hn. induction m as [|[k2 e2] m IH]; cbn.
  - destruct (k =? k') eqn:E; [apply Z.eqb_eq in E; congruence|reflexivity].
  - destruct (k2 =? k) eqn:E; cbn.
    + apply Z.eqb_eq in E. subst. destruct (k =? k') eqn:E2; [apply Z.eqb_eq in E2; congruence|reflexivity].
    + rewrite IH. reflexivity.
Qed.

Lemma eget_edel_other k k' m : k' <> k -> eget k' (edel k m) = eget k' m.
Proof.
  intros Hn. induction m as [|[k2 e2] m IH]; cbn; [reflexivity|].
  destruct (k2 =? k) eqn:E; cbn.
  - apply Z.eqb_eq in E. subst. destruct (k =? k') eqn:E2; [apply Z.eqb_eq in E2; congruence|reflexivity].
  - rewrite IH. reflexivity.
Qed.

Lemma eget_None k m : eget k m = None <-> ~ In k (ekeys m).
Proof.
  unfold ekeys. induction m as [|[k2 e2] m IH]; cbn; [tauto|].
  destruct (k2 =? k) eqn:E.
  - apply Z.eqb_eq in E. split; [discriminate|tauto].
  - apply Z.eqb_neq in E. rewrite IH. tauto.
Qed.

Lemma emem_In k m : emem k m = true <-> In k (ekeys m).
Proof.
  unfold emem. destruct (eget k m) eqn:E.
  - split; [|reflexivity]. intros _. destruct (in_dec Z.eq_dec k (ekeys m)) as [Hi|Hn]; [exact Hi|].
    apply eget_None in Hn. congruence.
  - split; [discriminate|]. intros Hi. apply eget_None in E. tauto.
Qed.

Lemma eget_edel_same k m : NoDup (ekeys m) -> eget k (edel k m) = None.
Proof. intros Hd. apply eget_None. rewrite ekeys_edel. apply notin_remove1. exact Hd. Qed.

Lemma ezlen_edel k m : In k (ekeys m) -> zlen (edel k m) = zlen m - 1.
Proof.
  unfold zlen, ekeys. induction m as [|[k' e'] m IH]; cbn [map fst edel In length]; [tauto|].
  destruct (k' =? k) eqn:E; [lia|]. apply Z.eqb_neq in E. intros [Hc|Hi]; [congruence|].
  specialize (IH Hi). cbn [length]. lia.
Qed.

Lemma ezlen_edel_le k m : zlen (edel k m) <= zlen m.
Proof.
  unfold zlen. induction m as [|[k' e'] m IH]; cbn [edel length]; [lia|].
  destruct (k' =? k); cbn [length]; lia.
Qed.

Lemma ezlen_eset k e m : zlen (eset k e m) = if emem k m then zlen m else zlen m + 1.
Proof.
  unfold zlen, emem. induction m as [|[k' e'] m IH]; cbn [eset eget length]; [lia|].
  destruct (k' =? k) eqn:E; cbn [length]; [lia|]. destruct (eget k m); lia.
Qed.

Ltac t_simpl :=
  unfold tupd in *;
  cbn [tcache refreshing order tback stuck t_reads t_fresh t_stale t_hard t_bg t_succ t_coal t_evict fst snd] in *.

Section STTL.
Variable c : tcfg.
Hypothesis Hcap : match tcap c with Some n => 1 <= n | None => True end.

Definition cap_ok (s : tst) : Prop :=
  match tcap c with Some n => zlen (tcache s) <= n | None => True end.

Definition tinv0 (s : tst) : Prop :=
  NoDup (ekeys (tcache s)) /\ NoDup (order s) /\
  (forall x, In x (order s) <-> In x (ekeys (tcache s))) /\ stuck s = false.

Definition tinv (s : tst) : Prop := tinv0 s /\ cap_ok s.

Lemma order_push k l : NoDup l ->
  NoDup ((if zmem k l then remove1 k l else l) ++ [k]) /\
  (forall x, In x ((if zmem k l then remove1 k l else l) ++ [k]) <-> x = k \/ In x l).
Proof.
  intros Hd. destruct (zmem k l) eqn:E.
  - split.
    + apply nodup_app. repeat split; [apply NoDup_remove1; exact Hd|constructor; [tauto|constructor]|].
      intros x Hx [->|[]]. exact (notin_remove1 _ _ Hd Hx).
    + intros x. rewrite in_app_iff. cbn. apply zmem_In in E.
      destruct (Z.eq_dec x k) as [->|Hn]; [intuition|]. rewrite In_remove1_neq by exact Hn. intuition congruence.
  - apply zmem_false in E. split.
    + apply nodup_app. repeat split; [exact Hd|constructor; [tauto|constructor]|].
      intros x Hx [->|[]]. tauto.
    + intros x. rewrite in_app_iff. cbn. intuition.
Qed.

Lemma tevict_loop_spec f cp s : tinv0 s -> zlen (tcache s) <= cp -> 1 <= cp ->
  let s1 := tevict_loop (S f) cp s in
  tinv0 s1 /\ zlen (tcache s1) < cp /\ (forall x, In x (ekeys (tcache s1)) -> In x (ekeys (tcache s))) /\
  tback s1 = tback s /\ refreshing s1 = refreshing s /\
  (forall k, In k (ekeys (tcache s1)) -> eget k (tcache s1) = eget k (tcache s)).
Proof.
  intros (Hc & Ho & Hk & Hs) Hl Hcp. cbn [tevict_loop].
  destruct (zlen (tcache s) >=? cp) eqn:E.
  2:{ cbn zeta. split; [unfold tinv0; tauto|]. split; [lia|]. auto. }
  destruct (order s) as [|k r] eqn:Eo.
  - exfalso. assert (Hn : ekeys (tcache s) = []).
    { destruct (ekeys (tcache s)) as [|y l] eqn:Ek; [reflexivity|].
      assert (Hy : In y []) by (apply Hk; left; reflexivity). destruct Hy. }
    unfold ekeys in Hn. apply map_eq_nil in Hn. rewrite Hn in *. unfold zlen in *. cbn in *. lia.
  - assert (Hin : In k (ekeys (tcache s))) by (apply Hk; left; reflexivity).
    inversion Ho as [|? ? Hnk Hr]; subst.
    set (s' := {| tcache := edel k (tcache s); refreshing := refreshing s; order := r; tback := tback s;
                  stuck := stuck s; t_reads := t_reads s; t_fresh := t_fresh s; t_stale := t_stale s;
                  t_hard := t_hard s; t_bg := t_bg s; t_succ := t_succ s; t_coal := t_coal s;
                  t_evict := t_evict s + 1 |}).
    assert (Hl' : zlen (tcache s') = zlen (tcache s) - 1) by (apply ezlen_edel; exact Hin).
    assert (Heq : tevict_loop f cp s' = s').
    { destruct f as [|f]; cbn [tevict_loop]; [reflexivity|].
      destruct (zlen (tcache s') >=? cp) eqn:E2; [lia|reflexivity]. }
    cbn zeta. rewrite Heq. subst s'. unfold tinv0. t_simpl. rewrite ekeys_edel.
    split; [split; [apply NoDup_remove1; exact Hc|split; [exact Hr|split; [|exact Hs]]]|].
    { intros x. rewrite (In_remove1_iff k x _ Hc). split.
      - intros Hx. split; [apply Hk; right; exact Hx|]. intros ->. tauto.
      - intros [Hx Hne]. apply Hk in Hx as [->|Hx]; [congruence|exact Hx]. }
    split; [lia|]. split; [intros x; apply In_remove1|]. split; [reflexivity|]. split; [reflexivity|].
    intros k' Hx. apply In_remove1_iff in Hx as [Hx Hne]; [|exact Hc]. apply eget_edel_other. exact Hne.
Qed.

Lemma tstore_spec now k v s : tinv s ->
  let s' := tstore c now k v s in
  tinv s' /\ eget k (tcache s') = Some (v, now) /\ tback s' = tback s /\ refreshing s' = refreshing s /\
  (forall k', k' <> k -> eget k' (tcache s') = eget k' (tcache s) \/ eget k' (tcache s') = None).
Proof.
  intros [Hi Hc]. pose proof Hi as (Hcd & Ho & Hk & Hs). unfold tstore.
  assert (Hgen : forall s1, tinv0 s1 ->
      (match tcap c with Some n => zlen (eset k (v, now) (tcache s1)) <= n | None => True end) ->
      tback s1 = tback s -> refreshing s1 = refreshing s ->
      (forall k', k' <> k -> eget k' (tcache s1) = eget k' (tcache s) \/ eget k' (tcache s1) = None) ->
      let s' := {| tcache := eset k (v, now) (tcache s1); refreshing := refreshing s1;
                   order := (if zmem k (order s1) then remove1 k (order s1) else order s1) ++ [k];
                   tback := tback s1; stuck := stuck s1;
                   t_reads := t_reads s1; t_fresh := t_fresh s1; t_stale := t_stale s1; t_hard := t_hard s1;
                   t_bg := t_bg s1; t_succ := t_succ s1; t_coal := t_coal s1; t_evict := t_evict s1 |} in
      tinv s' /\ eget k (tcache s') = Some (v, now) /\ tback s' = tback s /\ refreshing s' = refreshing s /\
      (forall k', k' <> k -> eget k' (tcache s') = eget k' (tcache s) \/ eget k' (tcache s') = None)).
  { intros s1 (Hcd1 & Ho1 & Hk1 & Hs1) Hcap1 Hb1 Hr1 Hoth. cbn zeta. t_simpl.
    destruct (order_push k (order s1) Ho1) as [Hnd Hin].
    split; [split|].
    - unfold tinv0. t_simpl. rewrite ekeys_eset. split; [apply NoDup_add_end; exact Hcd1|]. split; [exact Hnd|].
      split; [|exact Hs1]. intros x. rewrite Hin, In_add_end, Hk1. tauto.
    - unfold cap_ok. t_simpl. exact Hcap1.
    - split; [apply eget_eset_same|]. split; [exact Hb1|]. split; [exact Hr1|].
      intros k' Hn. rewrite eget_eset_other by exact Hn. apply Hoth. exact Hn. }
  unfold cap_ok in Hc. destruct (tcap c) as [cp|] eqn:Ecap.
  - destruct (emem k (tcache s)) eqn:E.
    + apply Hgen; auto. rewrite ezlen_eset, E. exact Hc.
    + destruct (tevict_loop_spec (length (order s)) cp s Hi Hc Hcap) as (Hi1 & Hl1 & Hsub & Hb1 & Hr1 & Hsame).
      apply Hgen; auto.
      * rewrite ezlen_eset. destruct (emem k (tcache (tevict_loop (S (length (order s))) cp s))); lia.
      * intros k' Hn. destruct (eget k' (tcache (tevict_loop (S (length (order s))) cp s))) eqn:Eg; [|auto].
        left. rewrite <- Eg. apply Hsame. apply emem_In. unfold emem. rewrite Eg. reflexivity.
  - apply Hgen; auto.
Qed.

Lemma tstart_inv now s o : tinv s -> tinv (fst (fst (tstart c now s o))).
Proof.
  intros Hs. pose proof Hs as [(Hcd & Ho & Hk & Hst) Hc].
  assert (Htouch : forall k, NoDup (touch k (order s)) /\ (forall x, In x (touch k (order s)) <-> In x (order s))).
  { intros k. unfold touch. fold (move_end k (order s)). split; [apply NoDup_move_end; exact Ho|intros x; apply In_move_end]. }
  destruct o as [k|k v|k| |k|k v|k]; cbn [tstart fst]; try exact Hs.
  - destruct (eget k (tcache s)) as [[v at_]|] eqn:E.
    + destruct (Htouch k) as [Hnd Hin].
      assert (Hs1 : forall rf d, tinv (tupd (tupd (tupd s (tcache s) (refreshing s) (order s) (tback s) [1])
                      (tcache s) (refreshing s) (touch k (order s)) (tback s) []) (tcache s) rf (touch k (order s)) (tback s) d)).
      { intros rf d. unfold tinv, tinv0, cap_ok. t_simpl. repeat split; auto; try (apply Hk, Hin; assumption).
        - intros Hx. apply Hk, Hin. exact Hx.
        - intros Hx. apply Hin, Hk. exact Hx. }
      t_simpl.
      destruct (now - at_ <? soft c); [apply Hs1|].
      destruct (now - at_ <? hard c).
      * destruct (zmem k (refreshing s)); cbn [fst]; apply Hs1.
      * destruct (zmem k (refreshing s)); cbn [fst]; apply Hs1.
    + t_simpl. destruct (zmem k (refreshing s)); cbn [fst]; exact Hs.
  - destruct (emem k (tcache s)) eqn:E; cbn [fst]; [|exact Hs].
    unfold tinv, tinv0, cap_ok. t_simpl. rewrite ekeys_edel.
    assert (Hor : NoDup (if zmem k (order s) then remove1 k (order s) else order s) /\
                  forall x, In x (if zmem k (order s) then remove1 k (order s) else order s) <-> In x (order s) /\ x <> k).
    { destruct (zmem k (order s)) eqn:Ez.
      - split; [apply NoDup_remove1; exact Ho|intros x; apply In_remove1_iff; exact Ho].
      - apply zmem_false in Ez. split; [exact Ho|]. intros x. split; [|tauto]. intros Hx. split; [exact Hx|]. intros ->. tauto. }
    destruct Hor as [Hnd Hin]. split; [split; [apply NoDup_remove1; exact Hcd|split; [exact Hnd|split; [|exact Hst]]]|].
    + intros x. rewrite Hin, (In_remove1_iff k x _ Hcd), Hk. tauto.
    + unfold cap_ok in Hc. destruct (tcap c); [|exact I]. pose proof (ezlen_edel_le k (tcache s)). lia.
  - unfold tinv, tinv0, cap_ok. t_simpl. cbn. repeat split; auto; try constructor; try tauto.
    destruct (tcap c); [unfold zlen; cbn; lia|exact I].
Qed.

Lemma tresume_inv now s k : tinv s -> tinv (fst (fst (tresume c now s k))).
Proof.
  intros Hs. destruct k as [v|key|key|key v|key]; cbn [tresume].
  - exact Hs.
  - destruct (eget key (tcache s)) as [[v at_]|]; [destruct (now - at_ <? hard c)|]; exact Hs.
  - destruct (aget key (tback s)); cbn [fst]; [apply tstore_spec; exact Hs|exact Hs].
  - cbn [fst]. apply tstore_spec. exact Hs.
  - cbn [fst]. destruct (aget key (tback s)).
    + pose proof (tstore_spec now key z s Hs) as [Hi _]. exact Hi.
    + exact Hs.
Qed.

Lemma tstep_inv y i : tinv (tstt y) -> tinv (tstt (fst (fst (tstep c y i)))).
Proof.
  intros Hy. unfold tstep. destruct (ti_act i) as [id o|id].
  - pose proof (tstart_inv (ti_now i) (tstt y) o Hy) as Hs.
    destruct (tstart c (ti_now i) (tstt y) o) as [[s r] a]. cbn [fst] in Hs.
    unfold tsettle. destruct r; cbn [fst tstt]; exact Hs.
  - destruct (tpfind id (tpending y)) as [k|]; [|exact Hy].
    pose proof (tresume_inv (ti_now i) (tstt y) k Hy) as Hs.
    destruct (tresume c (ti_now i) (tstt y) k) as [[s r] a]. cbn [fst] in Hs.
    unfold tsettle. destruct r; cbn [fst tstt]; exact Hs.
Qed.

Lemma trun_inv ins : forall y, tinv (tstt y) -> tinv (tstt (trun c y ins)).
Proof. induction ins as [|i ins IH]; intros y Hy; cbn [trun]; [exact Hy|]. apply IH, tstep_inv, Hy. Qed.

Lemma tinv_init b0 : tinv (tinit b0).
Proof.
  unfold tinv, tinv0, cap_ok, tinit. cbn. repeat split; auto; try constructor; try tauto.
  destruct (tcap c); [unfold zlen; cbn; lia|exact I].
Qed.


(** ** Coherence: without other writers of the backing store, every cached
    value equals the backing value, at every instant of every interleaving
    (put writes the store and the cache in one segment; so do fills). *)
Definition tcoh (s : tst) : Prop :=
  forall k v at_, eget k (tcache s) = Some (v, at_) -> aget k (tback s) = Some v.

Definition own_op (o : top) : bool :=
  match o with TBackPut _ _ | TBackDel _ => false | _ => true end.

Lemma tstore_coh now k v s : tinv s ->
  (forall k' v' at_, k' <> k -> eget k' (tcache s) = Some (v', at_) -> aget k' (tback s) = Some v') ->
  aget k (tback s) = Some v -> tcoh (tstore c now k v s).
Proof.
  intros Hs Hco Hb. destruct (tstore_spec now k v s Hs) as (_ & Hg & Hbk & _ & Hoth).
  intros k' v' at_ Hg'. rewrite Hbk. destruct (Z.eq_dec k' k) as [->|Hne].
  - rewrite Hg in Hg'. injection Hg' as <- <-. exact Hb.
  - destruct (Hoth k' Hne) as [He|He]; rewrite He in Hg'; [eapply Hco; eauto|discriminate].
Qed.

Lemma tstart_coh now s o : tinv s -> tcoh s -> own_op o = true -> tcoh (fst (fst (tstart c now s o))).
Proof.
  intros Hs Hco Ho. pose proof Hs as [(Hcd & _) _].
  destruct o as [k|k v|k| |k|k v|k]; cbn [tstart fst own_op] in *; try discriminate; try exact Hco.
  - destruct (eget k (tcache s)) as [[v at_]|] eqn:E; t_simpl.
    + destruct (now - at_ <? soft c); [exact Hco|].
      destruct (now - at_ <? hard c); destruct (zmem k (refreshing s)); cbn [fst]; exact Hco.
    + destruct (zmem k (refreshing s)); cbn [fst]; exact Hco.
  - destruct (emem k (tcache s)); cbn [fst]; [|exact Hco]. unfold tcoh. t_simpl.
    intros k' v' at_ Hg. destruct (Z.eq_dec k' k) as [->|Hne]; [rewrite eget_edel_same in Hg by exact Hcd; discriminate|].
    rewrite eget_edel_other in Hg by exact Hne. eapply Hco; eauto.
Qed.

Lemma tresume_coh now s k : tinv s -> tcoh s -> tcoh (fst (fst (tresume c now s k))).
Proof.
  intros Hs Hco. destruct k as [v|key|key|key v|key]; cbn [tresume].
  - exact Hco.
  - destruct (eget key (tcache s)) as [[v at_]|]; [destruct (now - at_ <? hard c)|]; exact Hco.
  - destruct (aget key (tback s)) eqn:E; cbn [fst]; [|exact Hco].
    apply tstore_coh; [exact Hs| |exact E]. intros k' v' at_ _ Hg. eapply Hco; eauto.
  - cbn [fst]. apply tstore_coh.
    + exact Hs.
    + t_simpl. intros k' v' at_ Hne Hg. rewrite aget_aset_other by exact Hne. eapply Hco; eauto.
    + t_simpl. apply aget_aset_same.
  - cbn [fst]. unfold tcoh. t_simpl. destruct (aget key (tback s)) eqn:E.
    + assert (Hc2 : tcoh (tstore c now key z s)).
      { apply tstore_coh; [exact Hs| |exact E]. intros k' v' at_ _ Hg. eapply Hco; eauto. }
      intros k' v' at_ Hg. t_simpl. eapply Hc2; eauto.
    + intros k' v' at_ Hg. eapply Hco; eauto.
Qed.

End STTL.

Definition own_input (i : tinput) : bool :=
  match ti_act i with TStart _ o => own_op o | TResume _ => true end.

Lemma trun_coh c (Hcap : match tcap c with Some n => 1 <= n | None => True end) ins :
  forall y, tinv c (tstt y) -> tcoh (tstt y) -> forallb own_input ins = true ->
  tcoh (tstt (trun c y ins)).
Proof.
  induction ins as [|i ins IH]; intros y Hy Hco Hown; cbn [trun]; [exact Hco|].
  cbn [forallb] in Hown. apply andb_true_iff in Hown as [Hi Hown].
  apply IH; [apply tstep_inv; assumption| |exact Hown].
  unfold tstep, own_input in *. destruct (ti_act i) as [id o|id].
  - pose proof (tstart_coh c (ti_now i) (tstt y) o Hy Hco Hi) as Hs.
    destruct (tstart c (ti_now i) (tstt y) o) as [[s r] a]. cbn [fst] in Hs.
    unfold tsettle. destruct r; cbn [fst tstt]; exact Hs.
  - destruct (tpfind id (tpending y)) as [k|]; [|exact Hco].
    pose proof (tresume_coh c Hcap (ti_now i) (tstt y) k Hy Hco) as Hs.
    destruct (tresume c (ti_now i) (tstt y) k) as [[s r] a]. cbn [fst] in Hs.
    unfold tsettle. destruct r; cbn [fst tstt]; exact Hs.
Qed.

(** Soft-TTL read-after-write: with the cache as the only writer of the
    backing store, a cached value always equals the stored one, so no read can
    return a value older than the last completed put. *)
Theorem sttl_coherent : forall c b0 ins,
  match tcap c with Some n => 1 <= n | None => True end ->
  forallb own_input ins = true ->
  let s := tstt (trun c (tsinit b0) ins) in
  forall k v at_, eget k (tcache s) = Some (v, at_) -> aget k (tback s) = Some v.
Proof.
  intros c b0 ins Hcap Hown s.
  apply (trun_coh c Hcap ins (tsinit b0) (tinv_init c Hcap b0)); [|exact Hown].
  intros k v at_ Hg. cbn in Hg. discriminate.
Qed.

(** * Soft-TTL cache: capacity and LRU bookkeeping, every interleaving *)
Theorem sttl_invariant : forall c b0 ins,
  match tcap c with Some n => 1 <= n | None => True end ->
  let s := tstt (trun c (tsinit b0) ins) in
  match tcap c with Some n => zlen (tcache s) <= n | None => True end /\
  NoDup (ekeys (tcache s)) /\ NoDup (order s) /\
  (forall x, In x (order s) <-> In x (ekeys (tcache s))) /\ stuck s = false.
Proof.
  intros c b0 ins Hcap s.
  pose proof (trun_inv c Hcap ins (tsinit b0) (tinv_init c Hcap b0)) as [(H1 & H2 & H3 & H4) H5].
  fold s in H1, H2, H3, H4, H5. unfold cap_ok in H5. auto.
Qed.

(** * Hard TTL: whenever a segment decides to serve a cached entry, that entry
    is younger than the hard TTL at that instant (any state, any segment). *)
Theorem sttl_hard_bound : forall c y i, soft c <= hard c ->
  match snd (tstep c y i) with Some age => age < hard c | None => True end.
Proof.
  intros c y i Hsh. unfold tstep. destruct (ti_act i) as [id o|id].
  - assert (Hst : match snd (tstart c (ti_now i) (tstt y) o) with Some age => age < hard c | None => True end).
    { destruct o as [k|k v|k| |k|k v|k]; cbn [tstart snd]; auto.
      destruct (eget k (tcache (tstt y))) as [[v at_]|].
      - destruct (ti_now i - at_ <? soft c) eqn:E1; cbn [snd]; [lia|].
        destruct (ti_now i - at_ <? hard c) eqn:E2.
        + destruct (zmem k _); cbn [snd]; lia.
        + destruct (zmem k _); cbn [snd]; exact I.
      - destruct (zmem k _); cbn [snd]; exact I. }
    destruct (tstart c (ti_now i) (tstt y) o) as [[s r] a]. unfold tsettle. destruct r; exact Hst.
  - destruct (tpfind id (tpending y)) as [k|]; [|exact I].
    assert (Hst : match snd (tresume c (ti_now i) (tstt y) k) with Some age => age < hard c | None => True end).
    { destruct k as [v|key|key|key v|key]; cbn [tresume snd]; auto.
      - destruct (eget key (tcache (tstt y))) as [[v at_]|]; [|exact I].
        destruct (ti_now i - at_ <? hard c) eqn:E; cbn [snd]; [lia|exact I].
      - destruct (aget key (tback (tstt y))); exact I. }
    destruct (tresume c (ti_now i) (tstt y) k) as [[s r] a]. unfold tsettle. destruct r; exact Hst.
Qed.
