(** C16 — executable models of
      happysimulator/components/datastore/eviction_policies.py  (nine policies)
      happysimulator/components/datastore/cached_store.py       (CachedStore)
      happysimulator/components/datastore/kv_store.py           (the backing store, unlimited capacity)

    Definitions only (no proofs).  Keys and values are [Z]; the Python value
    [None] stored in a dict is the sentinel [none_val].  Python dicts /
    OrderedDicts are association lists in insertion order ([aset] keeps the
    position of an existing key, exactly as [d[k] = v] does), Python sets are
    duplicate-free lists whose order is irrelevant (every place where the code
    depends on set iteration order takes that order as an explicit oracle
    input).  Random draws ([rng.choice], [rng.sample]) are oracle inputs too.

    Generator methods ([get], [put], [delete], [flush]) are step machines: one
    [cont]inuation per [yield]; the engine's interleaving of the segments is an
    arbitrary list of [IStart]/[IResume] inputs. *)
From HS Require Import Base.Prelude.
Local Open Scope Z_scope.

(* ------------------------------------------------------------------ *)
(** * Lists used as Python lists / sets / dict key orders *)

Definition zmem (k : Z) (l : list Z) : bool := existsb (Z.eqb k) l.

(** [list.remove(k)] / [del d[k]]: first occurrence only. *)
Fixpoint remove1 (k : Z) (l : list Z) : list Z :=
  match l with
  | [] => []
  | x :: r => if x =? k then r else x :: remove1 k r
  end.

(** [OrderedDict.move_to_end(k)] (the code always guards it with [k in d]). *)
Definition move_end (k : Z) (l : list Z) : list Z :=
  if zmem k l then remove1 k l ++ [k] else l.

(** [d[k] = None] on an (Ordered)dict used as an ordered set / [set.add]. *)
Definition add_end (k : Z) (l : list Z) : list Z :=
  if zmem k l then l else l ++ [k].

Definition amap := list (Z * Z).

Fixpoint aget (k : Z) (m : amap) : option Z :=
  match m with
  | [] => None
  | (k', v) :: r => if k' =? k then Some v else aget k r
  end.

Definition amem (k : Z) (m : amap) : bool :=
  match aget k m with Some _ => true | None => false end.

(** [d[k] = v]: in place when present, appended otherwise. *)
Fixpoint aset (k v : Z) (m : amap) : amap :=
  match m with
  | [] => [(k, v)]
  | (k', v') :: r => if k' =? k then (k', v) :: r else (k', v') :: aset k v r
  end.

(** [d.pop(k, None)] / [del d[k]]. *)
Fixpoint adel (k : Z) (m : amap) : amap :=
  match m with
  | [] => []
  | (k', v') :: r => if k' =? k then r else (k', v') :: adel k r
  end.

Definition akeys (m : amap) : list Z := map fst m.

Definition none_val : Z := -1.

Fixpoint insert_sorted (x : Z) (l : list Z) : list Z :=
  match l with
  | [] => [x]
  | y :: r => if x <=? y then x :: l else y :: insert_sorted x r
  end.
Definition zsort (l : list Z) : list Z := fold_right insert_sorted [] l.

Definition zlen {A} (l : list A) : Z := Z.of_nat (length l).

(** first element with the minimal measure ([min(seq, key=f)]). *)
Fixpoint argmin_from (f : Z -> Z) (best : Z) (l : list Z) : Z :=
  match l with
  | [] => best
  | x :: r => if f x <? f best then argmin_from f x r else argmin_from f best r
  end.
Definition argmin (f : Z -> Z) (l : list Z) : option Z :=
  match l with [] => None | x :: r => Some (argmin_from f x r) end.

(* ------------------------------------------------------------------ *)
(** * Eviction policies *)

(** [p_evict now draws st] returns the evicted key, the new state and the
    unconsumed oracle draws.  [p_keys] is the set of keys the policy tracks
    (what [evict] can still return); [p_view] is the full internal state as
    compared with the implementation; [p_draw_ok] says whether the next oracle
    draw is one the real RNG could have produced in this state. *)
Record policy := {
  PS : Type;
  p_init : PS;
  p_access : Z -> PS -> PS;
  p_insert : Z -> Z -> PS -> PS;          (* now key *)
  p_remove : Z -> PS -> PS;
  p_evict : Z -> list (list Z) -> PS -> option Z * PS * list (list Z);
  p_clear : PS -> PS;
  p_keys : PS -> list Z;
  p_view : PS -> list (list Z);
  p_draw_ok : list (list Z) -> PS -> bool;
}.

Definition pop_first (l : list Z) : option Z * list Z :=
  match l with [] => (None, []) | x :: r => (Some x, r) end.

(** ** LRUEviction *)
Definition lru : policy := {|
  PS := list Z;
  p_init := [];
  p_access := move_end;
  p_insert := fun _ k l => add_end k l;
  p_remove := remove1;
  p_evict := fun _ dr l => (pop_first l, dr);
  p_clear := fun _ => [];
  p_keys := fun l => l;
  p_view := fun l => [l];
  p_draw_ok := fun _ _ => true;
|}.

(** ** LFUEviction: [_counts] dict and the (write-only) [_min_count]. *)
Definition zmin_list (l : list Z) : Z :=
  match l with [] => 0 | x :: r => fold_left Z.min r x end.

Fixpoint first_with (v : Z) (m : amap) : option Z :=
  match m with
  | [] => None
  | (k, c) :: r => if c =? v then Some k else first_with v r
  end.

Definition lfu_access (k : Z) (s : amap * Z) : amap * Z :=
  match aget k (fst s) with
  | Some c => (aset k (c + 1) (fst s), snd s)
  | None => s
  end.

Definition lfu_evict (s : amap * Z) : option Z * (amap * Z) :=
  match fst s with
  | [] => (None, s)
  | _ => match first_with (zmin_list (map snd (fst s))) (fst s) with
         | Some k => (Some k, (adel k (fst s), snd s))
         | None => (None, s)
         end
  end.

Definition lfu : policy := {|
  PS := amap * Z;
  p_init := ([], 0);
  p_access := lfu_access;
  p_insert := fun _ k s => (aset k 1 (fst s), 1);
  p_remove := fun k s => (adel k (fst s), snd s);
  p_evict := fun _ dr s => (lfu_evict s, dr);
  p_clear := fun _ => ([], 0);
  p_keys := fun s => akeys (fst s);
  p_view := fun s => [akeys (fst s); map snd (fst s); [snd s]];
  p_draw_ok := fun _ _ => true;
|}.

(** ** TTLEviction(ttl, clock_func): the clock readings are inputs. *)
Fixpoint first_expired (now ttl : Z) (m : amap) : option Z :=
  match m with
  | [] => None
  | (k, t) :: r => if now - t >=? ttl then Some k else first_expired now ttl r
  end.

Definition ttl_evict (ttl now : Z) (m : amap) : option Z * amap :=
  match m with
  | [] => (None, m)
  | _ => match first_expired now ttl m with
         | Some k => (Some k, adel k m)
         | None =>
             match argmin (fun k => match aget k m with Some t => t | None => 0 end) (akeys m) with
             | Some k => (Some k, adel k m)
             | None => (None, m)
             end
         end
  end.

Definition ttlp (ttl : Z) : policy := {|
  PS := amap;
  p_init := [];
  p_access := fun _ m => m;
  p_insert := fun now k m => aset k now m;
  p_remove := adel;
  p_evict := fun now dr m => (ttl_evict ttl now m, dr);
  p_clear := fun _ => [];
  p_keys := akeys;
  p_view := fun m => [akeys m; map snd m];
  p_draw_ok := fun _ _ => true;
|}.

(** ** FIFOEviction *)
Definition fifo : policy := {|
  PS := list Z;
  p_init := [];
  p_access := fun _ l => l;
  p_insert := fun _ k l => add_end k l;
  p_remove := fun k l => if zmem k l then remove1 k l else l;
  p_evict := fun _ dr l => (pop_first l, dr);
  p_clear := fun _ => [];
  p_keys := fun l => l;
  p_view := fun l => [l];
  p_draw_ok := fun _ _ => true;
|}.

(** ** RandomEviction: [rng.choice(list(self._keys))]; the oracle draw is the
    chosen key.  A draw outside the set cannot come from the real RNG; the
    model then takes the first key, and [p_draw_ok] is false. *)
Definition rnd_choice (dr : list (list Z)) (l : list Z) : Z * list (list Z) :=
  match dr with
  | [k] :: rest => if zmem k l then (k, rest) else (hd 0 l, rest)
  | _ :: rest => (hd 0 l, rest)
  | [] => (hd 0 l, [])
  end.

Definition rnd_evict (dr : list (list Z)) (l : list Z) : option Z * list Z * list (list Z) :=
  match l with
  | [] => (None, l, dr)
  | _ => let '(k, rest) := rnd_choice dr l in (Some k, remove1 k l, rest)
  end.

Definition randomp : policy := {|
  PS := list Z;
  p_init := [];
  p_access := fun _ l => l;
  p_insert := fun _ k l => add_end k l;
  p_remove := remove1;
  p_evict := fun _ dr l => rnd_evict dr l;
  p_clear := fun _ => [];
  p_keys := fun l => l;
  p_view := fun l => [zsort l];
  p_draw_ok := fun dr l => match l, dr with
                           | [], _ => true
                           | _, [k] :: _ => zmem k l
                           | _, _ => false
                           end;
|}.

(** ** SLRUEviction: probationary and protected OrderedDicts. *)
Definition slru_access (k : Z) (s : list Z * list Z) : list Z * list Z :=
  let '(prob, prot) := s in
  if zmem k prob then (remove1 k prob, move_end k (add_end k prot))
  else if zmem k prot then (prob, move_end k prot)
  else s.

Definition slru_evict (s : list Z * list Z) : option Z * (list Z * list Z) :=
  let '(prob, prot) := s in
  match prob with
  | k :: r => (Some k, (r, prot))
  | [] => match prot with
          | k :: r => (Some k, ([], r))
          | [] => (None, s)
          end
  end.

Definition slru : policy := {|
  PS := list Z * list Z;
  p_init := ([], []);
  p_access := slru_access;
  p_insert := fun _ k s => (add_end k (fst s), snd s);
  p_remove := fun k s => (remove1 k (fst s), remove1 k (snd s));
  p_evict := fun _ dr s => (slru_evict s, dr);
  p_clear := fun _ => ([], []);
  p_keys := fun s => fst s ++ snd s;
  p_view := fun s => [fst s; snd s];
  p_draw_ok := fun _ _ => true;
|}.

(** ** SampledLRUEviction(sample_size): logical access clock; the oracle draw
    is the sample returned by [rng.sample(keys, min(sample_size, len(keys)))]. *)
Fixpoint nodupb (l : list Z) : bool :=
  match l with [] => true | x :: r => negb (zmem x r) && nodupb r end.

Definition smp_sample (dr : list (list Z)) (keys : list Z) : list Z * list (list Z) :=
  match dr with
  | d :: rest =>
      let d' := filter (fun k => zmem k keys) d in
      (match d' with [] => keys | _ => d' end, rest)
  | [] => (keys, [])
  end.

Definition smp_evict (dr : list (list Z)) (s : amap * Z) : option Z * (amap * Z) * list (list Z) :=
  match fst s with
  | [] => (None, s, dr)
  | _ =>
      let '(sample, rest) := smp_sample dr (akeys (fst s)) in
      match argmin (fun k => match aget k (fst s) with Some t => t | None => 0 end) sample with
      | Some k => (Some k, (adel k (fst s), snd s), rest)
      | None => (None, s, rest)
      end
  end.

Definition smp_access (k : Z) (s : amap * Z) : amap * Z :=
  if amem k (fst s) then (aset k (snd s + 1) (fst s), snd s + 1) else s.

Definition sampled (n : Z) : policy := {|
  PS := amap * Z;
  p_init := ([], 0);
  p_access := smp_access;
  p_insert := fun _ k s => (aset k (snd s + 1) (fst s), snd s + 1);
  p_remove := fun k s => (adel k (fst s), snd s);
  p_evict := fun _ dr s => smp_evict dr s;
  p_clear := fun _ => ([], 0);
  p_keys := fun s => akeys (fst s);
  p_view := fun s => [akeys (fst s); map snd (fst s); [snd s]];
  p_draw_ok := fun dr s =>
    match fst s, dr with
    | [], _ => true
    | _, d :: _ => forallb (fun k => amem k (fst s)) d && nodupb d
                   && (zlen d =? Z.min n (zlen (fst s)))
    | _, [] => false
    end;
|}.

(** ** ClockEviction: [_keys] list with [_ref_bits] (one list of pairs: every
    mutation in the code touches both structures), and the hand. *)
Definition cmap := list (Z * bool).
Definition ckeys (m : cmap) : list Z := map fst m.

Fixpoint cset (k : Z) (b : bool) (m : cmap) : cmap :=
  match m with
  | [] => []
  | (k', b') :: r => if k' =? k then (k', b) :: r else (k', b') :: cset k b r
  end.
Fixpoint cdel (k : Z) (m : cmap) : cmap :=
  match m with
  | [] => []
  | (k', b') :: r => if k' =? k then r else (k', b') :: cdel k r
  end.
Fixpoint cpop (i : nat) (m : cmap) : cmap :=
  match m, i with
  | [], _ => []
  | _ :: r, O => r
  | x :: r, S j => x :: cpop j r
  end.
Fixpoint cclear_at (i : nat) (m : cmap) : cmap :=
  match m, i with
  | [], _ => []
  | (k, _) :: r, O => (k, false) :: r
  | x :: r, S j => x :: cclear_at j r
  end.

Definition clock_adjust (m : cmap) (hand : Z) : Z :=
  if (hand >=? zlen m) && negb (zlen m =? 0) then 0 else hand.

Definition clock_pop (m : cmap) (hand : Z) : option Z * (cmap * Z) :=
  match nth_error m (Z.to_nat hand) with
  | Some (k, _) => let m' := cpop (Z.to_nat hand) m in (Some k, (m', clock_adjust m' hand))
  | None => (None, (m, hand))      (* IndexError; unreachable, see Policies.v *)
  end.

Fixpoint clock_scan (fuel : nat) (m : cmap) (hand : Z) : option Z * (cmap * Z) :=
  match fuel with
  | O => clock_pop m hand
  | S f =>
      match nth_error m (Z.to_nat hand) with
      | Some (k, true) => clock_scan f (cclear_at (Z.to_nat hand) m) ((hand + 1) mod zlen m)
      | Some (k, false) => clock_pop m hand
      | None => (None, (m, hand))
      end
  end.

Definition clock_evict (s : cmap * Z) : option Z * (cmap * Z) :=
  match fst s with
  | [] => (None, s)
  | _ => clock_scan (2 * length (fst s)) (fst s) (snd s)
  end.

Definition cmem (k : Z) (m : cmap) : bool := zmem k (ckeys m).

Definition clockp : policy := {|
  PS := cmap * Z;
  p_init := ([], 0);
  p_access := fun k s => if cmem k (fst s) then (cset k true (fst s), snd s) else s;
  p_insert := fun _ k s => if cmem k (fst s) then s else (fst s ++ [(k, true)], snd s);
  p_remove := fun k s => if cmem k (fst s)
                         then let m' := cdel k (fst s) in (m', clock_adjust m' (snd s))
                         else s;
  p_evict := fun _ dr s => (clock_evict s, dr);
  p_clear := fun _ => ([], 0);
  p_keys := fun s => ckeys (fst s);
  p_view := fun s => [ckeys (fst s); map (fun p : Z * bool => if snd p then 1 else 0) (fst s); [snd s]];
  p_draw_ok := fun _ _ => true;
|}.

(** ** TwoQueueEviction: A1in (FIFO list), A1out (ghost list, at most 50), Am (LRU). *)
Record twoq_st := { a1in : list Z; a1out : list Z; am : list Z }.

Definition trim50 (l : list Z) : list Z := skipn (length l - 50) l.

Definition twoq_insert (k : Z) (s : twoq_st) : twoq_st :=
  if zmem k (a1out s)
  then {| a1in := a1in s; a1out := remove1 k (a1out s); am := add_end k (am s) |}
  else {| a1in := a1in s ++ [k]; a1out := a1out s; am := am s |}.

Definition twoq_remove (k : Z) (s : twoq_st) : twoq_st :=
  {| a1in := if zmem k (a1in s) then remove1 k (a1in s) else a1in s;
     a1out := if zmem k (a1out s) then remove1 k (a1out s) else a1out s;
     am := remove1 k (am s) |}.

Definition twoq_evict (s : twoq_st) : option Z * twoq_st :=
  match a1in s with
  | k :: r => (Some k, {| a1in := r; a1out := trim50 (a1out s ++ [k]); am := am s |})
  | [] => match am s with
          | k :: r => (Some k, {| a1in := []; a1out := a1out s; am := r |})
          | [] => (None, s)
          end
  end.

Definition twoq : policy := {|
  PS := twoq_st;
  p_init := {| a1in := []; a1out := []; am := [] |};
  p_access := fun k s => {| a1in := a1in s; a1out := a1out s; am := move_end k (am s) |};
  p_insert := fun _ k s => twoq_insert k s;
  p_remove := twoq_remove;
  p_evict := fun _ dr s => (twoq_evict s, dr);
  p_clear := fun _ => {| a1in := []; a1out := []; am := [] |};
  p_keys := fun s => a1in s ++ am s;
  p_view := fun s => [a1in s; a1out s; am s];
  p_draw_ok := fun _ _ => true;
|}.

Inductive pkind :=
| KLru | KLfu | KTtl (ttl : Z) | KFifo | KRandom | KSlru | KSampled (n : Z) | KClock | KTwoQ.

Definition pol_of (k : pkind) : policy :=
  match k with
  | KLru => lru | KLfu => lfu | KTtl t => ttlp t | KFifo => fifo | KRandom => randomp
  | KSlru => slru | KSampled n => sampled n | KClock => clockp | KTwoQ => twoq
  end.

(* ------------------------------------------------------------------ *)
(** * Direct policy operation sequences (correspondence family [policy]) *)

Inductive pop_ :=
| PAccess (k : Z) | PInsert (now k : Z) | PRemove (k : Z) | PEvict (now : Z) (draw : list (list Z)) | PClear.

(** result of one call: the evicted key for [PEvict]. *)
Definition papply (P : policy) (o : pop_) (s : PS P) : option Z * PS P * bool :=
  match o with
  | PAccess k => (None, p_access P k s, true)
  | PInsert now k => (None, p_insert P now k s, true)
  | PRemove k => (None, p_remove P k s, true)
  | PEvict now dr => let ok := p_draw_ok P dr s in
                     let '(r, s', _) := p_evict P now dr s in (r, s', ok)
  | PClear => (None, p_clear P s, true)
  end.

Definition zlist_eqb := list_eqb Z.eqb.
Definition view_eqb := list_eqb zlist_eqb.
Definition ozeqb := option_eqb Z.eqb.

(** a case: operations, each with the implementation's return value and the
    implementation's internal state after the call. *)
Fixpoint ok_policy_from (P : policy) (s : PS P) (tr : list (pop_ * option Z * list (list Z))) : bool :=
  match tr with
  | [] => true
  | (o, r, v) :: rest =>
      let '(r', s', dok) := papply P o s in
      dok && ozeqb r r' && view_eqb v (p_view P s') && ok_policy_from P s' rest
  end.

Definition ok_policy (c : pkind * list (pop_ * option Z * list (list Z))) : bool :=
  ok_policy_from (pol_of (fst c)) (p_init (pol_of (fst c))) (snd c).

(* ------------------------------------------------------------------ *)
(** * CachedStore over a KVStore *)

Record cfg := {
  cap : Z;           (* cache_capacity *)
  wt : bool;         (* write_through *)
  lat_c : Z;         (* cache_read_latency *)
  lat_r : Z;         (* backing read_latency *)
  lat_w : Z;         (* backing write_latency *)
  lat_d : Z;         (* backing delete_latency *)
}.

Record cst (P : policy) := {
  cache : amap;            (* _cache *)
  dirty : list Z;          (* _dirty_keys (set) *)
  pol : PS P;              (* _eviction_policy *)
  back : amap;             (* _backing_store._data *)
  n_reads : Z; n_writes : Z; n_hits : Z; n_misses : Z; n_evict : Z; n_wb : Z;
}.
Arguments cache {P}. Arguments dirty {P}. Arguments pol {P}. Arguments back {P}.
Arguments n_reads {P}. Arguments n_writes {P}. Arguments n_hits {P}.
Arguments n_misses {P}. Arguments n_evict {P}. Arguments n_wb {P}.

Definition cinit (P : policy) (b0 : amap) : cst P :=
  {| cache := []; dirty := []; pol := p_init P; back := b0;
     n_reads := 0; n_writes := 0; n_hits := 0; n_misses := 0; n_evict := 0; n_wb := 0 |}.

Definition with_back {P} (s : cst P) (b : amap) : cst P :=
  {| cache := cache s; dirty := dirty s; pol := pol s; back := b;
     n_reads := n_reads s; n_writes := n_writes s; n_hits := n_hits s;
     n_misses := n_misses s; n_evict := n_evict s; n_wb := n_wb s |}.

Definition bump {P} (s : cst P) (dr dw dh dm : Z) : cst P :=
  {| cache := cache s; dirty := dirty s; pol := pol s; back := back s;
     n_reads := n_reads s + dr; n_writes := n_writes s + dw; n_hits := n_hits s + dh;
     n_misses := n_misses s + dm; n_evict := n_evict s; n_wb := n_wb s |}.

Definition with_pol {P} (s : cst P) (p : PS P) : cst P :=
  {| cache := cache s; dirty := dirty s; pol := p; back := back s;
     n_reads := n_reads s; n_writes := n_writes s; n_hits := n_hits s;
     n_misses := n_misses s; n_evict := n_evict s; n_wb := n_wb s |}.

Definition with_dirty {P} (s : cst P) (d : list Z) : cst P :=
  {| cache := cache s; dirty := d; pol := pol s; back := back s;
     n_reads := n_reads s; n_writes := n_writes s; n_hits := n_hits s;
     n_misses := n_misses s; n_evict := n_evict s; n_wb := n_wb s |}.

(** one eviction: drop [k] from the cache; a dirty entry is first written back. *)
Definition evict_apply {P} (s : cst P) (k : Z) (pol' : PS P) : cst P :=
  let isd := zmem k (dirty s) in
  let v := match aget k (cache s) with Some v => v | None => none_val end in
  {| cache := adel k (cache s);
     dirty := if isd then remove1 k (dirty s) else dirty s;
     pol := pol';
     back := if isd then aset k v (back s) else back s;
     n_reads := n_reads s; n_writes := n_writes s; n_hits := n_hits s;
     n_misses := n_misses s; n_evict := n_evict s + 1;
     n_wb := if isd then n_wb s + 1 else n_wb s |}.

(** The eviction loop of [_cache_put] (cached_store.py, after the fix that
    writes a dirty entry back with [put_sync] before dropping it):
<<
      while len(self._cache) >= self._cache_capacity:
          evict_key = self._eviction_policy.evict()
          if evict_key is None: break
          evicted_value = self._cache.pop(evict_key, None)
          if evict_key in self._dirty_keys:
              self._backing_store.put_sync(evict_key, evicted_value)
              self._dirty_keys.discard(evict_key)
              self._writebacks += 1
          self._evictions += 1
>>
    Every iteration that continues removes one tracked key from the policy, so
    [S (length (p_keys ..))] iterations are enough ([fuel]). *)
Fixpoint evict_loop (P : policy) (fuel : nat) (c : cfg) (now : Z) (dr : list (list Z)) (s : cst P)
  : cst P * list (list Z) :=
  match fuel with
  | O => (s, dr)
  | S f =>
      if zlen (cache s) >=? cap c then
        match p_evict P now dr (pol s) with
        | (None, pol', dr') => (with_pol s pol', dr')
        | (Some k, pol', dr') => evict_loop P f c now dr' (evict_apply s k pol')
        end
      else (s, dr)
  end.

(** [_cache_put(key, value)] *)
Definition cache_put (P : policy) (c : cfg) (now : Z) (dr : list (list Z)) (k v : Z) (s : cst P)
  : cst P * list (list Z) :=
  if amem k (cache s) then
    ({| cache := aset k v (cache s); dirty := dirty s; pol := p_access P k (pol s); back := back s;
        n_reads := n_reads s; n_writes := n_writes s; n_hits := n_hits s;
        n_misses := n_misses s; n_evict := n_evict s; n_wb := n_wb s |}, dr)
  else
    let '(s1, dr1) := evict_loop P (S (length (p_keys P (pol s)))) c now dr s in
    ({| cache := aset k v (cache s1); dirty := dirty s1; pol := p_insert P now k (pol s1); back := back s1;
        n_reads := n_reads s1; n_writes := n_writes s1; n_hits := n_hits s1;
        n_misses := n_misses s1; n_evict := n_evict s1; n_wb := n_wb s1 |}, dr1).

(** [_cache_remove(key)] *)
Definition cache_remove (P : policy) (k : Z) (s : cst P) : cst P :=
  {| cache := adel k (cache s); dirty := remove1 k (dirty s); pol := p_remove P k (pol s); back := back s;
     n_reads := n_reads s; n_writes := n_writes s; n_hits := n_hits s;
     n_misses := n_misses s; n_evict := n_evict s; n_wb := n_wb s |}.

Inductive op :=
| OGet (k : Z) | OPut (k v : Z) | ODel (k : Z) | OInv (k : Z) | OInvAll
| OFlush (order : list Z).       (* [list(self._dirty_keys)]: set iteration order is an oracle *)

(** What an operation still has to do after a [yield]. *)
Inductive cont :=
| KHit (v : Z)                    (* get, hit: value captured before the yield *)
| KMiss (k : Z)                   (* get, miss: KVStore.get reads after its latency, then fill *)
| KPutWT (k v : Z)                (* put, write-through: KVStore.put writes after its latency *)
| KPutWB                          (* put, write-back: only the cache latency is left *)
| KDel (k : Z) (in_cache : bool)  (* delete: KVStore.delete after its latency *)
| KFlush (k v : Z) (rest : list Z) (n : Z).   (* flush: backing put of (k, v) in flight *)

(** [RRet r]: get -> value or None; put/invalidate -> None; delete -> 0/1; flush -> count. *)
Inductive res := RYield (d : Z) (c : cont) | RRet (r : option Z).

Definition b2z (b : bool) : Z := if b then 1 else 0.

(** the [for key in list(dirty)] loop of [flush], from the next key on. *)
Fixpoint flush_next {P} (c : cfg) (s : cst P) (rest : list Z) (n : Z) : res :=
  match rest with
  | [] => RRet (Some n)
  | k :: r => match aget k (cache s) with
              | Some v => RYield (lat_w c) (KFlush k v r n)
              | None => flush_next c s r n
              end
  end.

(** first segment of an operation (up to its first yield or its return). *)
Definition start (P : policy) (c : cfg) (now : Z) (dr : list (list Z)) (s : cst P) (o : op)
  : cst P * res * list (list Z) :=
  match o with
  | OGet k =>
      match aget k (cache s) with
      | Some v => (with_pol (bump s 1 0 1 0) (p_access P k (pol s)), RYield (lat_c c) (KHit v), dr)
      | None => (bump s 1 0 0 1, RYield (lat_r c) (KMiss k), dr)
      end
  | OPut k v =>
      let '(s1, dr1) := cache_put P c now dr k v (bump s 0 1 0 0) in
      if wt c then (s1, RYield (lat_w c) (KPutWT k v), dr1)
      else (with_dirty s1 (add_end k (dirty s1)), RYield (lat_c c) KPutWB, dr1)
  | ODel k =>
      let inc := amem k (cache s) in
      ((if inc then cache_remove P k s else s), RYield (lat_d c) (KDel k inc), dr)
  | OInv k =>
      ((if amem k (cache s) then cache_remove P k s else s), RRet None, dr)
  | OInvAll =>
      ({| cache := []; dirty := []; pol := p_clear P (pol s); back := back s;
          n_reads := n_reads s; n_writes := n_writes s; n_hits := n_hits s;
          n_misses := n_misses s; n_evict := n_evict s; n_wb := n_wb s |}, RRet None, dr)
  | OFlush order => (s, flush_next c s order 0, dr)
  end.

(** the segment after a yield. *)
Definition resume (P : policy) (c : cfg) (now : Z) (dr : list (list Z)) (s : cst P) (k : cont)
  : cst P * res * list (list Z) :=
  match k with
  | KHit v => (s, RRet (Some v), dr)
  | KMiss key =>
      match aget key (back s) with
      | Some v => let '(s1, dr1) := cache_put P c now dr key v s in (s1, RRet (Some v), dr1)
      | None => (s, RRet None, dr)
      end
  | KPutWT key v => (with_back s (aset key v (back s)), RRet None, dr)
  | KPutWB => (s, RRet None, dr)
  | KDel key inc =>
      let ex := amem key (back s) in
      (with_back s (adel key (back s)), RRet (Some (b2z (inc || ex))), dr)
  | KFlush key v rest n =>
      let s1 := {| cache := cache s; dirty := remove1 key (dirty s); pol := pol s;
                   back := aset key v (back s);
                   n_reads := n_reads s; n_writes := n_writes s; n_hits := n_hits s;
                   n_misses := n_misses s; n_evict := n_evict s; n_wb := n_wb s + 1 |} in
      (s1, flush_next c s1 rest (n + 1), dr)
  end.

(** ** Interleavings: the engine runs segments of several operations in any order. *)
Inductive act := IStart (id : Z) (o : op) | IResume (id : Z).
Record input := { i_now : Z; i_draws : list (list Z); i_act : act }.

Record sys (P : policy) := { st : cst P; pending : list (Z * cont) }.
Arguments st {P}. Arguments pending {P}.

Fixpoint pfind (id : Z) (l : list (Z * cont)) : option cont :=
  match l with [] => None | (i, k) :: r => if i =? id then Some k else pfind id r end.
Fixpoint pdel (id : Z) (l : list (Z * cont)) : list (Z * cont) :=
  match l with [] => [] | (i, k) :: r => if i =? id then r else (i, k) :: pdel id r end.

(** observable result of a segment: yielded delay or returned value. *)
Inductive out := OYield (d : Z) | ORet (r : option Z) | ONone.

Definition settle {P} (id : Z) (pend : list (Z * cont)) (x : cst P * res * list (list Z))
  : sys P * out * list (list Z) :=
  let '(s, r, lft) := x in
  match r with
  | RYield d k => ({| st := s; pending := pend ++ [(id, k)] |}, OYield d, lft)
  | RRet v => ({| st := s; pending := pend |}, ORet v, lft)
  end.

(** one segment; the third component is the unconsumed oracle draws. *)
Definition sstep_full (P : policy) (c : cfg) (y : sys P) (i : input) : sys P * out * list (list Z) :=
  match i_act i with
  | IStart id o => settle id (pending y) (start P c (i_now i) (i_draws i) (st y) o)
  | IResume id =>
      match pfind id (pending y) with
      | Some k => settle id (pdel id (pending y)) (resume P c (i_now i) (i_draws i) (st y) k)
      | None => (y, ONone, i_draws i)
      end
  end.

Definition sstep (P : policy) (c : cfg) (y : sys P) (i : input) : sys P * out :=
  fst (sstep_full P c y i).

Fixpoint srun (P : policy) (c : cfg) (y : sys P) (ins : list input) : sys P :=
  match ins with [] => y | i :: r => srun P c (fst (sstep P c y i)) r end.

Definition sinit (P : policy) (b0 : amap) : sys P := {| st := cinit P b0; pending := [] |}.

(** ** Comparison with the implementation, after every segment. *)
Definition pair_zeqb (a b : Z * Z) : bool := (fst a =? fst b) && (snd a =? snd b).
Definition amap_eqb := list_eqb pair_zeqb.
Definition set_eqb (a b : list Z) : bool := zlist_eqb (zsort a) (zsort b).

Definition out_eqb (a b : out) : bool :=
  match a, b with
  | OYield x, OYield y => x =? y
  | ORet x, ORet y => ozeqb x y
  | ONone, ONone => true
  | _, _ => false
  end.

(** observed state: cache items, sorted dirty keys, backing items, policy view, six counters *)
Definition obs_state := (amap * list Z * amap * list (list Z) * list Z)%type.

Definition state_ok {P} (s : cst P) (o : obs_state) : bool :=
  let '(oc, od, ob, ov, ostats) := o in
  amap_eqb oc (cache s) && set_eqb od (dirty s) && amap_eqb ob (back s)
  && view_eqb ov (p_view P (pol s))
  && zlist_eqb ostats [n_reads s; n_writes s; n_hits s; n_misses s; n_evict s; n_wb s].

(** the oracle inputs of a segment must be ones the implementation could have
    produced: every draw valid when consumed (checked for the first draw, one
    eviction per segment is the invariant case), flush order a permutation of
    the dirty set. *)
Definition input_ok {P} (y : sys P) (i : input) : bool :=
  match i_act i with
  | IStart _ (OFlush order) => set_eqb order (dirty (st y)) && nodupb order
  | _ => true
  end
  && match i_draws i with [] => true | _ => p_draw_ok P (i_draws i) (pol (st y)) end.

Fixpoint ok_cache_from (P : policy) (c : cfg) (y : sys P) (tr : list (input * out * obs_state)) : bool :=
  match tr with
  | [] => true
  | (i, o, os) :: rest =>
      let '(y', o', lft) := sstep_full P c y i in
      input_ok y i && out_eqb o o' && state_ok (st y') os
      && match lft with [] => true | _ => false end && ok_cache_from P c y' rest
  end.

Definition cache_case := (pkind * cfg * amap * list (input * out * obs_state))%type.

Definition ok_cache (x : cache_case) : bool :=
  let '(k, c, b0, tr) := x in
  ok_cache_from (pol_of k) c (sinit (pol_of k) b0) tr.

(** ** Sequential execution (each operation runs to completion before the next). *)
Definition next_now (nows : list Z) : Z * list Z :=
  match nows with [] => (0, []) | n :: r => (n, r) end.

Fixpoint complete (P : policy) (c : cfg) (fuel : nat) (nows : list Z) (x : cst P * res * list (list Z))
  : cst P * option (option Z) :=
  let '(s, r, dr) := x in
  match r with
  | RRet v => (s, Some v)
  | RYield _ k =>
      match fuel with
      | O => (s, None)                     (* out of fuel: excluded by every theorem *)
      | S f => complete P c f (snd (next_now nows)) (resume P c (fst (next_now nows)) dr s k)
      end
  end.

Definition op_fuel (o : op) : nat :=
  match o with OFlush order => S (length order) | _ => 2%nat end.

(** run one operation alone; [nows]/[draws] are the oracle inputs (clock
    readings of its segments, RNG draws). *)
Definition run_op (P : policy) (c : cfg) (s : cst P) (x : list Z * list (list Z) * op) : cst P * option (option Z) :=
  let '(nows, dr, o) := x in
  complete P c (op_fuel o) (snd (next_now nows)) (start P c (fst (next_now nows)) dr s o).

Fixpoint run_seq (P : policy) (c : cfg) (s : cst P) (l : list (list Z * list (list Z) * op))
  : cst P * list (option (option Z)) :=
  match l with
  | [] => (s, [])
  | x :: r => let '(s1, v) := run_op P c s x in
              let '(s2, vs) := run_seq P c s1 r in (s2, v :: vs)
  end.
