(** C16 — every eviction policy keeps a duplicate-free set of tracked keys that
    changes exactly as the cache expects: [policy_ok]. *)
From HS Require Import Base.Prelude C16.Model C16.Lists.
Local Open Scope Z_scope.

Record policy_ok (P : policy) := {
  p_inv : PS P -> Prop;
  ok_init : p_inv (p_init P) /\ p_keys P (p_init P) = [];
  ok_nodup : forall s, p_inv s -> NoDup (p_keys P s);
  ok_access : forall k s, p_inv s ->
    p_inv (p_access P k s) /\ (forall x, In x (p_keys P (p_access P k s)) <-> In x (p_keys P s));
  ok_insert : forall now k s, p_inv s -> ~ In k (p_keys P s) ->
    p_inv (p_insert P now k s) /\
    (forall x, In x (p_keys P (p_insert P now k s)) <-> x = k \/ In x (p_keys P s));
  ok_remove : forall k s, p_inv s ->
    p_inv (p_remove P k s) /\
    (forall x, In x (p_keys P (p_remove P k s)) <-> In x (p_keys P s) /\ x <> k);
  ok_evict : forall now dr s, p_inv s ->
    match p_evict P now dr s with
    | (Some k, s', _) => In k (p_keys P s) /\ p_inv s' /\
                         (forall x, In x (p_keys P s') <-> In x (p_keys P s) /\ x <> k)
    | (None, s', _) => p_keys P s = [] /\ s' = s
    end;
  ok_clear : forall s, p_inv (p_clear P s) /\ p_keys P (p_clear P s) = [];
}.

Lemma pop_first_spec l : NoDup l ->
  match pop_first l with
  | (Some k, r) => In k l /\ NoDup r /\ (forall x, In x r <-> In x l /\ x <> k)
  | (None, r) => l = [] /\ r = l
  end.
Proof.
  destruct l as [|y l]; cbn; [auto|]. intros H. inversion H; subst.
  split; [auto|]. split; [assumption|]. intros x. split.
  - intros Hx. split; [auto|]. intros ->. tauto.
  - intros [[->|Hx] Hn]; [congruence|exact Hx].
Qed.

(* ---------------------------------------------------------------- LRU *)
Definition lru_ok : policy_ok lru.
Proof.
  refine {| p_inv := fun l : PS lru => NoDup l |}; cbn.
  - split; [constructor|reflexivity].
  - auto.
  - intros k s H. split; [apply NoDup_move_end; exact H|intros x; apply In_move_end].
  - intros _ k s H Hn. split; [apply NoDup_add_end; exact H|intros x; apply In_add_end].
  - intros k s H. split; [apply NoDup_remove1; exact H|intros x; apply In_remove1_iff; exact H].
  - intros _ dr s H. pose proof (pop_first_spec s H) as Hp. destruct (pop_first s) as [[k|] r]; exact Hp.
  - intros _. split; [constructor|reflexivity].
Defined.

(* ---------------------------------------------------------------- FIFO *)
Definition fifo_ok : policy_ok fifo.
Proof.
  refine {| p_inv := fun l : PS fifo => NoDup l |}; cbn.
  - split; [constructor|reflexivity].
  - auto.
  - intros k s H. split; [exact H|tauto].
  - intros _ k s H Hn. split; [apply NoDup_add_end; exact H|intros x; apply In_add_end].
  - intros k s H. destruct (zmem k s) eqn:E.
    + split; [apply NoDup_remove1; exact H|intros x; apply In_remove1_iff; exact H].
    + apply zmem_false in E. split; [exact H|]. intros x. split; [|tauto].
      intros Hx. split; [exact Hx|]. intros ->. tauto.
  - intros _ dr s H. pose proof (pop_first_spec s H) as Hp. destruct (pop_first s) as [[k|] r]; exact Hp.
  - intros _. split; [constructor|reflexivity].
Defined.

(* ---------------------------------------------------------------- Random *)
Lemma rnd_choice_In dr l : l <> [] -> In (fst (rnd_choice dr l)) l.
Proof.
  intros Hl. assert (Hh : In (hd 0 l) l) by (destruct l; [congruence|left; reflexivity]).
  unfold rnd_choice. destruct dr as [|[|k [|? ?]] rest]; cbn; auto.
  destruct (zmem k l) eqn:E; cbn; [apply zmem_In; exact E|exact Hh].
Qed.

Definition random_ok : policy_ok randomp.
Proof.
  refine {| p_inv := fun l : PS randomp => NoDup l |}; cbn.
  - split; [constructor|reflexivity].
  - auto.
  - intros k s H. split; [exact H|tauto].
  - intros _ k s H Hn. split; [apply NoDup_add_end; exact H|intros x; apply In_add_end].
  - intros k s H. split; [apply NoDup_remove1; exact H|intros x; apply In_remove1_iff; exact H].
  - intros _ dr s H. unfold rnd_evict. destruct s as [|y s]; [auto|].
    pose proof (rnd_choice_In dr (y :: s) ltac:(congruence)) as Hc.
    destruct (rnd_choice dr (y :: s)) as [k rest]. cbn [fst] in Hc.
    split; [exact Hc|]. split; [apply NoDup_remove1; exact H|intros x; apply In_remove1_iff; exact H].
  - intros _. split; [constructor|reflexivity].
Defined.

(* ---------------------------------------------------------------- LFU *)
Lemma fold_min_in l x : fold_left Z.min l x = x \/ In (fold_left Z.min l x) l.
Proof.
  revert x. induction l as [|y l IH]; intros x; cbn; [auto|].
  destruct (IH (Z.min x y)) as [H|H]; [|auto].
  rewrite H. destruct (Z.min_spec x y) as [[_ ->]|[_ ->]]; auto.
Qed.

Lemma zmin_list_in l : l <> [] -> In (zmin_list l) l.
Proof.
  destruct l as [|x l]; [congruence|]. intros _. cbn.
  destruct (fold_min_in l x) as [->|H]; auto.
Qed.

Lemma first_with_some v m : In v (map snd m) -> exists k, first_with v m = Some k /\ In k (akeys m).
Proof.
  unfold akeys. induction m as [|[k c] m IH]; cbn; [tauto|].
  intros H. destruct (c =? v) eqn:E.
  - exists k. auto.
  - apply Z.eqb_neq in E. destruct H as [H|H]; [congruence|].
    destruct (IH H) as (k' & Hk & Hi). exists k'. auto.
Qed.

Lemma adel_keys_spec k m : NoDup (akeys m) ->
  NoDup (akeys (adel k m)) /\ (forall x, In x (akeys (adel k m)) <-> In x (akeys m) /\ x <> k).
Proof.
  intros H. rewrite akeys_adel. split; [apply NoDup_remove1; exact H|intros x; apply In_remove1_iff; exact H].
Qed.

Lemma aset_keys_spec k v m : NoDup (akeys m) ->
  NoDup (akeys (aset k v m)) /\ (forall x, In x (akeys (aset k v m)) <-> x = k \/ In x (akeys m)).
Proof.
  intros H. rewrite akeys_aset. split; [apply NoDup_add_end; exact H|intros x; apply In_add_end].
Qed.

Definition lfu_ok : policy_ok lfu.
Proof.
  refine {| p_inv := fun s : PS lfu => NoDup (akeys (fst s)) |}; cbn.
  - split; [constructor|reflexivity].
  - auto.
  - intros k [m c] H. unfold lfu_access. cbn in *. destruct (aget k m) eqn:E; cbn; [|tauto].
    destruct (aset_keys_spec k (z + 1) m H) as [Hd Hi]. split; [exact Hd|].
    intros x. rewrite Hi. apply aget_Some_In in E. split; [intros [->|Hx]; auto|auto].
  - intros _ k [m c] H Hn. cbn in *. apply aset_keys_spec. exact H.
  - intros k [m c] H. cbn in *. apply adel_keys_spec. exact H.
  - intros _ dr [m c] H. unfold lfu_evict. cbn [fst snd] in *. destruct m as [|p m]; [cbn; auto|].
    remember (p :: m) as mm eqn:Hmm.
    destruct (first_with_some (zmin_list (map snd mm)) mm) as (k & Hk & Hi).
    { apply zmin_list_in. rewrite Hmm. cbn. congruence. }
    rewrite Hk. cbn. split; [exact Hi|]. apply adel_keys_spec. exact H.
  - intros _. split; [constructor|reflexivity].
Defined.

(* ---------------------------------------------------------------- TTL *)
Lemma first_expired_In now ttl m k : first_expired now ttl m = Some k -> In k (akeys m).
Proof.
  unfold akeys. induction m as [|[k' t] m IH]; cbn; [discriminate|].
  destruct (now - t >=? ttl); [intros H; injection H as ->; auto|auto].
Qed.

Definition ttl_ok ttl : policy_ok (ttlp ttl).
Proof.
  refine {| p_inv := fun m : PS (ttlp ttl) => NoDup (akeys m) |}; cbn.
  - split; [constructor|reflexivity].
  - auto.
  - intros k s H. split; [exact H|tauto].
  - intros now k m H Hn. apply aset_keys_spec. exact H.
  - intros k m H. apply adel_keys_spec. exact H.
  - intros now dr m H. unfold ttl_evict. destruct m as [|p m]; [cbn; auto|].
    remember (p :: m) as mm eqn:Hmm.
    destruct (first_expired now ttl mm) eqn:E.
    + split; [eapply first_expired_In; eauto|]. apply adel_keys_spec. exact H.
    + destruct (argmin_some (fun k => match aget k mm with Some t => t | None => 0 end) (akeys mm)) as (k & Hk).
      { rewrite Hmm. cbn. congruence. }
      rewrite Hk. split; [eapply argmin_In; eauto|]. apply adel_keys_spec. exact H.
  - intros _. split; [constructor|reflexivity].
Defined.

(* ---------------------------------------------------------------- Sampled LRU *)
Lemma smp_sample_spec dr keys : keys <> [] ->
  fst (smp_sample dr keys) <> [] /\ (forall x, In x (fst (smp_sample dr keys)) -> In x keys).
Proof.
  intros Hk. unfold smp_sample. destruct dr as [|d rest]; cbn; [auto|].
  destruct (filter (fun k => zmem k keys) d) eqn:E; cbn; [auto|].
  split; [congruence|]. intros x Hx.
  assert (Hf : In x (filter (fun k => zmem k keys) d)) by (rewrite E; exact Hx).
  apply filter_In in Hf as [_ Hf]. apply zmem_In. exact Hf.
Qed.

Definition sampled_ok n : policy_ok (sampled n).
Proof.
  refine {| p_inv := fun s : PS (sampled n) => NoDup (akeys (fst s)) |}; cbn.
  - split; [constructor|reflexivity].
  - auto.
  - intros k [m c] H. unfold smp_access. cbn in *. destruct (amem k m) eqn:E; cbn; [|tauto].
    destruct (aset_keys_spec k (c + 1) m H) as [Hd Hi]. split; [exact Hd|].
    intros x. rewrite Hi. apply amem_In in E. split; [intros [->|Hx]; auto|auto].
  - intros _ k [m c] H Hn. cbn in *. apply aset_keys_spec. exact H.
  - intros k [m c] H. cbn in *. apply adel_keys_spec. exact H.
  - intros _ dr [m c] H. unfold smp_evict. cbn [fst snd] in *. destruct m as [|p m]; [cbn; auto|].
    remember (p :: m) as mm eqn:Hmm.
    destruct (smp_sample_spec dr (akeys mm)) as [Hne Hsub]. { rewrite Hmm. cbn. congruence. }
    destruct (smp_sample dr (akeys mm)) as [sample rest]. cbn [fst] in *.
    destruct (argmin_some (fun k => match aget k mm with Some t => t | None => 0 end) sample Hne) as (k & Hk).
    rewrite Hk. cbn. split; [apply Hsub; eapply argmin_In; eauto|]. apply adel_keys_spec. exact H.
  - intros _. split; [constructor|reflexivity].
Defined.

(* ---------------------------------------------------------------- SLRU *)
Definition slru_ok : policy_ok slru.
Proof.
  refine {| p_inv := fun s : PS slru => NoDup (fst s ++ snd s) |}; cbn.
  - split; [constructor|reflexivity].
  - auto.
  - intros k [prob prot] H. cbn in *. apply nodup_app in H as (Ha & Hb & Hx).
    unfold slru_access. destruct (zmem k prob) eqn:E; cbn.
    + apply zmem_In in E. split.
      * apply nodup_app. repeat split.
        -- apply NoDup_remove1; exact Ha.
        -- apply NoDup_move_end, NoDup_add_end; exact Hb.
        -- intros x Hi Hm. apply In_move_end, In_add_end in Hm. apply In_remove1_iff in Hi; [|exact Ha].
           destruct Hm as [->|Hm]; [tauto|]. exact (Hx x (proj1 Hi) Hm).
      * intros x. rewrite !in_app_iff, In_move_end, In_add_end, (In_remove1_iff k x prob Ha).
        destruct (Z.eq_dec x k) as [->|Hn]; intuition.
    + destruct (zmem k prot) eqn:E2; cbn.
      * split.
        -- apply nodup_app. repeat split; auto. apply NoDup_move_end; exact Hb.
           intros x Hi Hm. apply In_move_end in Hm. exact (Hx x Hi Hm).
        -- intros x. rewrite !in_app_iff, In_move_end. tauto.
      * split; [apply nodup_app; auto|tauto].
  - intros _ k [prob prot] H Hn. cbn in *. apply nodup_app in H as (Ha & Hb & Hx). split.
    + apply nodup_app. repeat split; auto. apply NoDup_add_end; exact Ha.
      intros x Hi Hm. apply In_add_end in Hi as [->|Hi]; [apply Hn, in_or_app; auto|exact (Hx x Hi Hm)].
    + intros x. rewrite !in_app_iff, In_add_end. tauto.
  - intros k [prob prot] H. cbn in *. apply nodup_app in H as (Ha & Hb & Hx). split.
    + apply nodup_app. repeat split; try (apply NoDup_remove1; assumption).
      intros x Hi Hm. apply In_remove1 in Hi, Hm. exact (Hx x Hi Hm).
    + intros x. rewrite !in_app_iff, (In_remove1_iff k x prob Ha), (In_remove1_iff k x prot Hb). tauto.
  - intros _ dr [prob prot] H. cbn in *. apply nodup_app in H as (Ha & Hb & Hx).
    destruct prob as [|y prob]; cbn.
    + destruct prot as [|y prot]; cbn; [auto|]. inversion Hb; subst.
      split; [auto|]. split; [assumption|]. intros x. split.
      * intros Hi. split; [auto|]. intros ->. tauto.
      * intros [[->|Hi] Hn]; [congruence|exact Hi].
    + inversion Ha; subst. split; [auto|]. split.
      * apply nodup_app. repeat split; auto. intros x Hi. apply Hx. right. exact Hi.
      * intros x. rewrite !in_app_iff. split.
        -- intros [Hi|Hi]; (split; [tauto|]); intros ->; [tauto|]. exact (Hx y (or_introl eq_refl) Hi).
        -- intros [[->|[Hi|Hi]] Hn]; [congruence|auto|auto].
  - intros _. split; [constructor|reflexivity].
Defined.

(* ---------------------------------------------------------------- 2Q *)
Definition twoq_ok : policy_ok twoq.
Proof.
  refine {| p_inv := fun s : PS twoq => NoDup (a1in s ++ am s) |}; cbn.
  - split; [constructor|reflexivity].
  - auto.
  - intros k s H. apply nodup_app in H as (Ha & Hb & Hx). split.
    + apply nodup_app. repeat split; auto. apply NoDup_move_end; exact Hb.
      intros x Hi Hm. apply In_move_end in Hm. exact (Hx x Hi Hm).
    + intros x. rewrite !in_app_iff, In_move_end. tauto.
  - intros _ k s H Hn. apply nodup_app in H as (Ha & Hb & Hx). unfold twoq_insert.
    destruct (zmem k (a1out s)); cbn.
    + split.
      * apply nodup_app. repeat split; auto. apply NoDup_add_end; exact Hb.
        intros x Hi Hm. apply In_add_end in Hm as [->|Hm]; [apply Hn, in_or_app; auto|exact (Hx x Hi Hm)].
      * intros x. rewrite !in_app_iff, In_add_end. tauto.
    + split.
      * apply nodup_app. repeat split; auto.
        -- apply nodup_app. repeat split; auto. constructor; [tauto|constructor].
           intros x Hi [->|[]]. apply Hn, in_or_app; auto.
        -- intros x Hi Hm. apply in_app_or in Hi as [Hi|[->|[]]]; [exact (Hx x Hi Hm)|apply Hn, in_or_app; auto].
      * intros x. rewrite !in_app_iff. cbn. intuition.
  - intros k s H. apply nodup_app in H as (Ha & Hb & Hx). unfold twoq_remove. cbn.
    assert (Hin : forall x, In x (if zmem k (a1in s) then remove1 k (a1in s) else a1in s) <-> In x (a1in s) /\ x <> k).
    { intros x. destruct (zmem k (a1in s)) eqn:E; [apply In_remove1_iff; exact Ha|].
      apply zmem_false in E. split; [intros Hi; split; [exact Hi|intros ->; tauto]|tauto]. }
    split.
    + apply nodup_app. repeat split.
      * destruct (zmem k (a1in s)); [apply NoDup_remove1|]; exact Ha.
      * apply NoDup_remove1; exact Hb.
      * intros x Hi Hm. apply Hin in Hi. apply In_remove1 in Hm. exact (Hx x (proj1 Hi) Hm).
    + intros x. rewrite !in_app_iff, Hin, (In_remove1_iff k x (am s) Hb). tauto.
  - intros _ dr [ai ao amm] H. cbn in *. apply nodup_app in H as (Ha & Hb & Hx). unfold twoq_evict. cbn.
    destruct ai as [|y l]; cbn.
    + destruct amm as [|y l]; cbn; [auto|]. inversion Hb; subst.
      split; [auto|]. split; [assumption|]. intros x. split.
      * intros Hi. split; [auto|]. intros ->. tauto.
      * intros [[->|Hi] Hn]; [congruence|exact Hi].
    + inversion Ha; subst. split; [left; reflexivity|]. split.
      * apply nodup_app. repeat split; auto. intros x Hi. apply Hx. right. exact Hi.
      * intros x. rewrite !in_app_iff. split.
        -- intros [Hi|Hi]; (split; [tauto|]); intros ->; [tauto|]. exact (Hx y (or_introl eq_refl) Hi).
        -- intros [[->|[Hi|Hi]] Hn]; [congruence|auto|auto].
  - intros _. split; [constructor|reflexivity].
Defined.

(* ---------------------------------------------------------------- Clock *)
Lemma ckeys_cset k b m : ckeys (cset k b m) = ckeys m.
Proof.
  unfold ckeys. induction m as [|[k' b'] m IH]; cbn; [reflexivity|].
  destruct (k' =? k); cbn; [reflexivity|]. rewrite IH. reflexivity.
Qed.

Lemma ckeys_cdel k m : ckeys (cdel k m) = remove1 k (ckeys m).
Proof.
  unfold ckeys. induction m as [|[k' b'] m IH]; cbn; [reflexivity|].
  destruct (k' =? k); cbn; [reflexivity|]. rewrite IH. reflexivity.
Qed.

Lemma ckeys_cclear_at i m : ckeys (cclear_at i m) = ckeys m.
Proof.
  unfold ckeys. revert i. induction m as [|[k' b'] m IH]; intros [|i]; cbn; try reflexivity.
  rewrite IH. reflexivity.
Qed.

Lemma zlen_ckeys m : zlen (ckeys m) = zlen m.
Proof. unfold zlen, ckeys. rewrite map_length. reflexivity. Qed.

Lemma zlen_cclear_at i m : zlen (cclear_at i m) = zlen m.
Proof. rewrite <- zlen_ckeys, ckeys_cclear_at, zlen_ckeys. reflexivity. Qed.

Lemma cpop_spec m : forall i k b, NoDup (ckeys m) -> nth_error m i = Some (k, b) ->
  In k (ckeys m) /\ NoDup (ckeys (cpop i m)) /\
  (forall x, In x (ckeys (cpop i m)) <-> In x (ckeys m) /\ x <> k) /\
  S (length (cpop i m)) = length m.
Proof.
  unfold ckeys. induction m as [|[k' b'] m IH]; intros [|i] k b Hd Hn; cbn in *; try discriminate.
  - injection Hn as -> ->. inversion Hd; subst. split; [auto|]. split; [assumption|]. split; [|lia].
    intros x. split.
    + intros Hx. split; [auto|]. intros ->. tauto.
    + intros [[->|Hx] Hne]; [congruence|exact Hx].
  - inversion Hd; subst. destruct (IH i k b H2 Hn) as (Hi & Hd' & Hiff & Hl).
    split; [auto|]. split.
    + constructor; [|exact Hd']. intros Hx. apply Hiff in Hx. tauto.
    + split; [|lia]. intros x. rewrite Hiff. split.
      * intros [->|[Hx Hne]]; [|tauto]. split; [auto|]. intros ->. tauto.
      * intros [[->|Hx] Hne]; auto.
Qed.

Definition clock_range (m : cmap) (hand : Z) : Prop := 0 <= hand < Z.max 1 (zlen m).

Lemma clock_adjust_range m' hand n :
  0 <= hand < n -> zlen m' = n - 1 -> clock_range m' (clock_adjust m' hand).
Proof.
  unfold clock_range, clock_adjust. intros Hh Hl. pose proof (zlen_nonneg m') as Hp.
  destruct (hand >=? zlen m') eqn:E1; destruct (zlen m' =? 0) eqn:E2; cbn; lia.
Qed.

Definition clock_post (m : cmap) (r : option Z * (cmap * Z)) : Prop :=
  match r with
  | (Some k, (m', h')) => In k (ckeys m) /\ NoDup (ckeys m') /\
                          (forall x, In x (ckeys m') <-> In x (ckeys m) /\ x <> k) /\
                          clock_range m' h'
  | (None, _) => False
  end.

Lemma nth_error_in_range {A} (m : list A) hand : 0 <= hand < zlen m -> exists p, nth_error m (Z.to_nat hand) = Some p.
Proof.
  unfold zlen. intros H. destruct (nth_error m (Z.to_nat hand)) eqn:E; [eauto|].
  apply nth_error_None in E. lia.
Qed.

Lemma clock_pop_spec m hand : NoDup (ckeys m) -> 0 <= hand < zlen m -> clock_post m (clock_pop m hand).
Proof.
  intros Hd Hr. unfold clock_pop. destruct (nth_error_in_range m hand Hr) as [[k b] Hn]. rewrite Hn.
  destruct (cpop_spec m _ k b Hd Hn) as (Hi & Hd' & Hiff & Hl0). cbn.
  assert (Hl : zlen (cpop (Z.to_nat hand) m) = zlen m - 1) by (unfold zlen; lia).
  split; [exact Hi|]. split; [exact Hd'|]. split; [exact Hiff|].
  eapply clock_adjust_range; eauto.
Qed.

Lemma clock_scan_spec fuel : forall m hand, NoDup (ckeys m) -> 0 <= hand < zlen m ->
  clock_post m (clock_scan fuel m hand).
Proof.
  induction fuel as [|f IH]; intros m hand Hd Hr; cbn [clock_scan].
  - apply clock_pop_spec; assumption.
  - destruct (nth_error_in_range m hand Hr) as [[k b] Hn]. rewrite Hn. destruct b.
    + assert (H1 : NoDup (ckeys (cclear_at (Z.to_nat hand) m))) by (rewrite ckeys_cclear_at; exact Hd).
      assert (H2 : 0 <= (hand + 1) mod zlen m < zlen (cclear_at (Z.to_nat hand) m)).
      { rewrite zlen_cclear_at. apply Z.mod_pos_bound. lia. }
      specialize (IH _ _ H1 H2). unfold clock_post in *.
      destruct (clock_scan f (cclear_at (Z.to_nat hand) m) ((hand + 1) mod zlen m)) as [[k'|] [m' h']]; [|exact IH].
      rewrite ckeys_cclear_at in IH. exact IH.
    + apply clock_pop_spec; assumption.
Qed.

Definition clock_ok : policy_ok clockp.
Proof.
  refine {| p_inv := fun s : PS clockp => NoDup (ckeys (fst s)) /\ clock_range (fst s) (snd s) |}; cbn.
  - split; [split; [constructor|unfold clock_range; cbn; lia]|reflexivity].
  - tauto.
  - intros k [m h] [Hd Hr]. cbn [fst snd] in *. destruct (cmem k m) eqn:Ecm; cbn [fst snd].
    2:{ split; [split; [exact Hd|exact Hr]|intros; tauto]. }
    rewrite ckeys_cset. split; [split; [exact Hd|]|intros; tauto].
    unfold clock_range in *. rewrite <- zlen_ckeys, ckeys_cset, zlen_ckeys. exact Hr.
  - intros _ k [m h] [Hd Hr] Hn. cbn [fst snd] in *. unfold cmem. destruct (zmem k (ckeys m)) eqn:E.
    { apply zmem_In in E. tauto. }
    cbn [fst snd]. assert (Hck : ckeys (m ++ [(k, true)]) = ckeys m ++ [k]) by (unfold ckeys; rewrite map_app; reflexivity). rewrite Hck. split.
    + split.
      * apply nodup_app. repeat split; auto. constructor; [tauto|constructor].
        intros x Hx [->|[]]. tauto.
      * unfold clock_range, zlen in *. rewrite app_length. cbn. lia.
    + intros x. rewrite in_app_iff. cbn. intuition.
  - intros k [m h] [Hd Hr]. cbn [fst snd] in *. unfold cmem. destruct (zmem k (ckeys m)) eqn:E; cbn [fst snd].
    + apply zmem_In in E. rewrite ckeys_cdel. split; [split|].
      * apply NoDup_remove1; exact Hd.
      * assert (Hl : zlen (cdel k m) = zlen m - 1).
        { rewrite <- zlen_ckeys, ckeys_cdel, <- (zlen_ckeys m). unfold zlen.
          assert (length (ckeys m) = S (length (remove1 k (ckeys m)))).
          { clear -E. induction (ckeys m) as [|y l IH]; cbn in *; [tauto|].
            destruct (y =? k) eqn:E2; [reflexivity|]. apply Z.eqb_neq in E2. cbn. f_equal. apply IH.
            destruct E; [congruence|assumption]. }
          lia. }
        unfold clock_range in Hr. assert (Hm : 0 < zlen m).
        { rewrite <- zlen_ckeys. unfold zlen. destruct (ckeys m); [destruct E|cbn; lia]. }
        eapply clock_adjust_range; [|exact Hl]. lia.
      * intros x. apply In_remove1_iff. exact Hd.
    + apply zmem_false in E. split; [split; assumption|]. intros x. split; [|tauto].
      intros Hx. split; [exact Hx|]. intros ->. tauto.
  - intros _ dr [m h] [Hd Hr]. cbn [fst snd] in *. unfold clock_evict. cbn [fst snd].
    destruct m as [|p m]; [cbn; auto|]. remember (p :: m) as mm eqn:Hmm.
    assert (Hpos : 0 <= h < zlen mm).
    { unfold clock_range in Hr. assert (0 < zlen mm) by (rewrite Hmm; unfold zlen; cbn; lia). lia. }
    pose proof (clock_scan_spec (2 * length mm) mm h Hd Hpos) as Hs. unfold clock_post in Hs.
    destruct (clock_scan (2 * length mm) mm h) as [[k|] [m' h']]; [|destruct Hs].
    cbn. tauto.
  - intros _. split; [split; [constructor|unfold clock_range; cbn; lia]|reflexivity].
Defined.

Definition all_policies_ok (k : pkind) : policy_ok (pol_of k) :=
  match k with
  | KLru => lru_ok | KLfu => lfu_ok | KTtl t => ttl_ok t | KFifo => fifo_ok | KRandom => random_ok
  | KSlru => slru_ok | KSampled n => sampled_ok n | KClock => clock_ok | KTwoQ => twoq_ok
  end.
