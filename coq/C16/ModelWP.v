(** C16 — executable model of happysimulator/components/datastore/write_policies.py
    (WriteThrough, WriteBack, WriteAround) and the tracking theorem for WriteBack. *)
From HS Require Import Base.Prelude C16.Model C16.Lists.
Local Open Scope Z_scope.

Inductive wkind := WThrough | WBack (max_dirty : Z) | WAround.

Record wst := { wdirty : list Z;       (* WriteBack._dirty_keys (set) *)
                winval : list Z }.     (* WriteAround._invalidated_keys (list) *)

Inductive wop :=
| WOnWrite (k : Z)                     (* on_write(key, value) *)
| WOnFlush (keys : list Z)             (* on_flush(keys) *)
| WTakeInval.                          (* get_keys_to_invalidate() *)

Definition wapply (kd : wkind) (s : wst) (o : wop) : wst :=
  match kd, o with
  | WBack _, WOnWrite k => {| wdirty := add_end k (wdirty s); winval := winval s |}
  | WBack _, WOnFlush keys => {| wdirty := fold_left (fun d k => remove1 k d) keys (wdirty s); winval := winval s |}
  | WAround, WOnWrite k => {| wdirty := wdirty s; winval := winval s ++ [k] |}
  | WAround, WTakeInval => {| wdirty := wdirty s; winval := [] |}
  | _, _ => s
  end.

(** observations after a call: should_write_through(), should_flush(),
    sorted get_keys_to_flush(), pending invalidations *)
Definition wobs := (bool * bool * list Z * list Z)%type.

Definition wview (kd : wkind) (s : wst) : wobs :=
  match kd with
  | WThrough => (true, false, [], [])
  | WBack m => (false, zlen (wdirty s) >=? m, zsort (wdirty s), [])
  | WAround => (true, false, [], winval s)
  end.

Definition wobs_eqb (a b : wobs) : bool :=
  let '(a1, a2, a3, a4) := a in let '(b1, b2, b3, b4) := b in
  Bool.eqb a1 b1 && Bool.eqb a2 b2 && zlist_eqb a3 b3 && zlist_eqb a4 b4.

Fixpoint ok_wp_from (kd : wkind) (s : wst) (tr : list (wop * wobs)) : bool :=
  match tr with
  | [] => true
  | (o, v) :: r => let s' := wapply kd s o in wobs_eqb v (wview kd s') && ok_wp_from kd s' r
  end.

Definition ok_wp (x : wkind * list (wop * wobs)) : bool :=
  ok_wp_from (fst x) {| wdirty := []; winval := [] |} (snd x).

Definition wrun (kd : wkind) (ops : list wop) : wst :=
  fold_left (wapply kd) ops {| wdirty := []; winval := [] |}.

(** is [k] written and not flushed since, according to the call sequence alone *)
Fixpoint pending_write (k : Z) (ops : list wop) (acc : bool) : bool :=
  match ops with
  | [] => acc
  | WOnWrite k' :: r => pending_write k r (if k' =? k then true else acc)
  | WOnFlush keys :: r => pending_write k r (if zmem k keys then false else acc)
  | WTakeInval :: r => pending_write k r acc
  end.

Lemma fold_remove_spec keys : forall d k, NoDup d ->
  NoDup (fold_left (fun d k => remove1 k d) keys d) /\
  (In k (fold_left (fun d k => remove1 k d) keys d) <-> In k d /\ ~ In k keys).
Proof.
  induction keys as [|x keys IH]; intros d k Hd; cbn [fold_left].
  - split; [exact Hd|]. cbn. tauto.
  - destruct (IH (remove1 x d) k (NoDup_remove1 x d Hd)) as [Hn Hi]. split; [exact Hn|].
    rewrite Hi, (In_remove1_iff x k d Hd). cbn. intuition congruence.
Qed.

Lemma wb_tracks_from m ops : forall s acc, NoDup (wdirty s) ->
  forall k, (In k (wdirty s) <-> acc k = true) ->
  (In k (wdirty (fold_left (wapply (WBack m)) ops s)) <-> pending_write k ops (acc k) = true) /\
  NoDup (wdirty (fold_left (wapply (WBack m)) ops s)).
Proof.
  induction ops as [|o ops IH]; intros s acc Hd k Hk; cbn [fold_left pending_write]; [split; assumption|].
  destruct o as [k'|keys|]; cbn [wapply].
  - apply (IH _ (fun x => if k' =? x then true else acc x)); cbn [wdirty].
    + apply NoDup_add_end. exact Hd.
    + rewrite In_add_end, Hk. destruct (k' =? k) eqn:E.
      * apply Z.eqb_eq in E. subst. tauto.
      * apply Z.eqb_neq in E. split; [intros [->|Ha]; [congruence|exact Ha]|auto].
  - destruct (fold_remove_spec keys (wdirty s) k Hd) as [Hn Hi].
    apply (IH _ (fun x => if zmem x keys then false else acc x)); cbn [wdirty].
    + apply (fold_remove_spec keys (wdirty s) k Hd).
    + rewrite Hi, Hk. destruct (zmem k keys) eqn:E.
      * apply zmem_In in E. split; [tauto|discriminate].
      * apply zmem_false in E. tauto.
  - apply (IH _ acc); assumption.
Qed.

(** WriteBack tracks exactly the keys written and not flushed since. *)
Theorem wb_tracks : forall m ops k,
  In k (wdirty (wrun (WBack m) ops)) <-> pending_write k ops false = true.
Proof.
  intros m ops k. unfold wrun.
  apply (wb_tracks_from m ops {| wdirty := []; winval := [] |} (fun _ => false)); cbn; [constructor|].
  split; [tauto|discriminate].
Qed.
