(** C16 — lemmas about the list / association-list helpers of Model.v. *)
From HS Require Import Base.Prelude C16.Model.
Local Open Scope Z_scope.

Lemma zmem_In k l : zmem k l = true <-> In k l.
Proof.
  unfold zmem. rewrite existsb_exists. split.
  - intros [x [Hx He]]. apply Z.eqb_eq in He. subst. exact Hx.
  - intros H. exists k. split; [exact H|apply Z.eqb_refl].
Qed.

Lemma zmem_false k l : zmem k l = false <-> ~ In k l.
Proof. rewrite <- zmem_In. destruct (zmem k l); split; congruence. Qed.

Lemma nodup_app (a b : list Z) :
  NoDup (a ++ b) <-> NoDup a /\ NoDup b /\ (forall x, In x a -> ~ In x b).
Proof.
  induction a as [|x a IH]; cbn.
  - split; [intros H; repeat split; auto; constructor|tauto].
  - split.
    + intros H. inversion H as [|? ? Hn Hd]; subst. apply IH in Hd as (Ha & Hb & Hx).
      repeat split; auto.
      * constructor; auto. intros Hi. apply Hn, in_or_app. auto.
      * intros y [->|Hy]; [intros Hi; apply Hn, in_or_app; auto|auto].
    + intros (Ha & Hb & Hx). inversion Ha as [|? ? Hn Hd]; subst. constructor.
      * intros Hi. apply in_app_or in Hi as [Hi|Hi]; [auto|]. exact (Hx x (or_introl eq_refl) Hi).
      * apply IH. repeat split; auto.
Qed.

Lemma In_remove1 k x l : In x (remove1 k l) -> In x l.
Proof.
  induction l as [|y l IH]; cbn; [tauto|]. destruct (y =? k); cbn; tauto.
Qed.

Lemma In_remove1_neq k x l : x <> k -> (In x (remove1 k l) <-> In x l).
Proof.
  intros Hn. induction l as [|y l IH]; cbn; [tauto|].
  destruct (y =? k) eqn:E; cbn.
  - apply Z.eqb_eq in E. subst. split; [tauto|intros [H|H]; [congruence|exact H]].
  - rewrite IH. tauto.
Qed.

Lemma NoDup_remove1 k l : NoDup l -> NoDup (remove1 k l).
Proof.
  induction 1 as [|y l Hn Hd IH]; cbn; [constructor|].
  destruct (y =? k); [exact Hd|]. constructor; [|exact IH].
  intros Hi. apply Hn. eapply In_remove1; eauto.
Qed.

Lemma notin_remove1 k l : NoDup l -> ~ In k (remove1 k l).
Proof.
  induction 1 as [|y l Hn Hd IH]; cbn; [tauto|].
  destruct (y =? k) eqn:E.
  - apply Z.eqb_eq in E. subst. exact Hn.
  - apply Z.eqb_neq in E. intros [H|H]; [congruence|tauto].
Qed.

Lemma In_remove1_iff k x l : NoDup l -> (In x (remove1 k l) <-> In x l /\ x <> k).
Proof.
  intros Hd. split.
  - intros H. split; [eapply In_remove1; eauto|]. intros ->. exact (notin_remove1 _ _ Hd H).
  - intros [H Hn]. apply In_remove1_neq; auto.
Qed.

Lemma remove1_notin k l : ~ In k l -> remove1 k l = l.
Proof.
  induction l as [|y l IH]; cbn; [reflexivity|]. intros H.
  destruct (y =? k) eqn:E; [apply Z.eqb_eq in E; tauto|]. rewrite IH; tauto.
Qed.

Lemma In_add_end k x l : In x (add_end k l) <-> x = k \/ In x l.
Proof.
  unfold add_end. destruct (zmem k l) eqn:E.
  - apply zmem_In in E. split; [tauto|intros [->|H]; auto].
  - rewrite in_app_iff. cbn. intuition.
Qed.

Lemma NoDup_add_end k l : NoDup l -> NoDup (add_end k l).
Proof.
  unfold add_end. destruct (zmem k l) eqn:E; [tauto|]. apply zmem_false in E.
  intros H. apply nodup_app. repeat split; auto.
  - constructor; [tauto|constructor].
  - intros x Hx [->|[]]. tauto.
Qed.

Lemma In_move_end k x l : In x (move_end k l) <-> In x l.
Proof.
  unfold move_end. destruct (zmem k l) eqn:E; [|tauto]. apply zmem_In in E.
  rewrite in_app_iff. cbn. destruct (Z.eq_dec x k) as [->|Hn].
  - intuition.
  - rewrite In_remove1_neq by exact Hn. intuition congruence.
Qed.

Lemma NoDup_move_end k l : NoDup l -> NoDup (move_end k l).
Proof.
  unfold move_end. destruct (zmem k l) eqn:E; [|tauto]. intros H.
  apply nodup_app. repeat split.
  - apply NoDup_remove1; exact H.
  - constructor; [tauto|constructor].
  - intros x Hx [->|[]]. exact (notin_remove1 _ _ H Hx).
Qed.

Lemma nodup_same_length (a b : list Z) :
  NoDup a -> NoDup b -> (forall x, In x a <-> In x b) -> length a = length b.
Proof.
  intros Ha Hb H. apply Nat.le_antisymm; apply NoDup_incl_length; auto; intros x Hx; apply H; exact Hx.
Qed.

(** association lists *)
Lemma akeys_aset k v m : akeys (aset k v m) = add_end k (akeys m).
Proof.
  unfold add_end, akeys. induction m as [|[k' v'] m IH]; cbn; [reflexivity|].
  unfold zmem in *. cbn. rewrite (Z.eqb_sym k k'). destruct (k' =? k) eqn:E; cbn; [reflexivity|].
  rewrite IH. destruct (existsb (Z.eqb k) (map fst m)); reflexivity.
Qed.

Lemma akeys_adel k m : akeys (adel k m) = remove1 k (akeys m).
Proof.
  unfold akeys. induction m as [|[k' v'] m IH]; cbn; [reflexivity|].
  destruct (k' =? k); cbn; [reflexivity|]. rewrite IH. reflexivity.
Qed.

Lemma aget_aset_same k v m : aget k (aset k v m) = Some v.
Proof.
  induction m as [|[k' v'] m IH]; cbn; [rewrite Z.eqb_refl; reflexivity|].
  destruct (k' =? k) eqn:E; cbn; rewrite E; auto.
Qed.

Lemma aget_aset_other k k' v m : k' <> k -> aget k' (aset k v m) = aget k' m.
Proof.
  intros Hn. induction m as [|[k2 v2] m IH]; cbn.
  - destruct (k =? k') eqn:E; [apply Z.eqb_eq in E; congruence|reflexivity].
  - destruct (k2 =? k) eqn:E; cbn.
    + apply Z.eqb_eq in E. subst. destruct (k =? k') eqn:E2; [apply Z.eqb_eq in E2; congruence|reflexivity].
    + rewrite IH. reflexivity.
Qed.

Lemma aget_adel_other k k' m : k' <> k -> aget k' (adel k m) = aget k' m.
Proof.
  intros Hn. induction m as [|[k2 v2] m IH]; cbn; [reflexivity|].
  destruct (k2 =? k) eqn:E; cbn.
  - apply Z.eqb_eq in E. subst. destruct (k =? k') eqn:E2; [apply Z.eqb_eq in E2; congruence|reflexivity].
  - rewrite IH. reflexivity.
Qed.

Lemma aget_None k m : aget k m = None <-> ~ In k (akeys m).
Proof.
  unfold akeys. induction m as [|[k2 v2] m IH]; cbn; [tauto|].
  destruct (k2 =? k) eqn:E.
  - apply Z.eqb_eq in E. split; [discriminate|tauto].
  - apply Z.eqb_neq in E. rewrite IH. tauto.
Qed.

Lemma aget_Some_In k v m : aget k m = Some v -> In k (akeys m).
Proof.
  intros H. destruct (in_dec Z.eq_dec k (akeys m)) as [Hi|Hn]; [exact Hi|].
  apply aget_None in Hn. congruence.
Qed.

Lemma amem_In k m : amem k m = true <-> In k (akeys m).
Proof.
  unfold amem. destruct (aget k m) eqn:E.
  - split; [intros _; eapply aget_Some_In; eauto|reflexivity].
  - split; [discriminate|]. intros H. apply aget_None in E. tauto.
Qed.

Lemma amem_false k m : amem k m = false <-> ~ In k (akeys m).
Proof. rewrite <- amem_In. destruct (amem k m); split; congruence. Qed.

Lemma aget_adel_same k m : NoDup (akeys m) -> aget k (adel k m) = None.
Proof.
  intros H. apply aget_None. rewrite akeys_adel. apply notin_remove1. exact H.
Qed.

Lemma zlen_nonneg {A} (l : list A) : 0 <= zlen l.
Proof. unfold zlen. lia. Qed.

Lemma argmin_from_In f b l : argmin_from f b l = b \/ In (argmin_from f b l) l.
Proof.
  revert b. induction l as [|x l IH]; intros b; cbn; [auto|].
  destruct (f x <? f b).
  - destruct (IH x) as [->|H]; auto.
  - destruct (IH b) as [->|H]; auto.
Qed.

Lemma argmin_In f l k : argmin f l = Some k -> In k l.
Proof.
  destruct l as [|x l]; cbn; [discriminate|]. intros H. injection H as <-.
  destruct (argmin_from_In f x l); auto.
Qed.

Lemma argmin_some f l : l <> [] -> exists k, argmin f l = Some k.
Proof. destruct l; [congruence|]. intros _. cbn. eauto. Qed.
