(** C16 — executable model of happysimulator/components/datastore/soft_ttl_cache.py
    (SoftTTLCache over a KVStore), after the fix of the coalesced-miss path.
    Definitions only.  Times are integer nanoseconds (Instant/Duration). *)
From HS Require Import Base.Prelude C16.Model.
Local Open Scope Z_scope.

Definition emap := list (Z * (Z * Z)).        (* key -> (value, cached_at) : _cache *)

Fixpoint eget (k : Z) (m : emap) : option (Z * Z) :=
  match m with [] => None | (k', e) :: r => if k' =? k then Some e else eget k r end.
Fixpoint eset (k : Z) (e : Z * Z) (m : emap) : emap :=
  match m with
  | [] => [(k, e)]
  | (k', e') :: r => if k' =? k then (k', e) :: r else (k', e') :: eset k e r
  end.
Fixpoint edel (k : Z) (m : emap) : emap :=
  match m with [] => [] | (k', e') :: r => if k' =? k then r else (k', e') :: edel k r end.
Definition ekeys (m : emap) : list Z := map fst m.
Definition emem (k : Z) (m : emap) : bool := match eget k m with Some _ => true | None => false end.

Record tcfg := {
  soft : Z; hard : Z;            (* _soft_ttl, _hard_ttl in ns *)
  tcap : option Z;               (* cache_capacity *)
  tlat_c : Z; tlat_r : Z; tlat_w : Z;
}.

Record tst := {
  tcache : emap;                 (* _cache *)
  refreshing : list Z;           (* _refreshing_keys (set) *)
  order : list Z;                (* _access_order *)
  tback : amap;                  (* backing KVStore._data *)
  stuck : bool;                  (* _store's while-loop can no longer make progress (never, see SoftTTL.v) *)
  t_reads : Z; t_fresh : Z; t_stale : Z; t_hard : Z; t_bg : Z; t_succ : Z; t_coal : Z; t_evict : Z;
}.

Definition tinit (b0 : amap) : tst :=
  {| tcache := []; refreshing := []; order := []; tback := b0; stuck := false;
     t_reads := 0; t_fresh := 0; t_stale := 0; t_hard := 0; t_bg := 0; t_succ := 0; t_coal := 0; t_evict := 0 |}.

(** [while len(self._cache) >= cap: self._evict_lru()] — [_evict_lru] does
    nothing when [_access_order] is empty, in which case the real loop would
    spin for ever: [stuck]. *)
Fixpoint tevict_loop (fuel : nat) (cp : Z) (s : tst) : tst :=
  match fuel with
  | O => s
  | S f =>
      if zlen (tcache s) >=? cp then
        match order s with
        | [] => {| tcache := tcache s; refreshing := refreshing s; order := order s; tback := tback s;
                   stuck := true;
                   t_reads := t_reads s; t_fresh := t_fresh s; t_stale := t_stale s; t_hard := t_hard s;
                   t_bg := t_bg s; t_succ := t_succ s; t_coal := t_coal s; t_evict := t_evict s |}
        | k :: r =>
            tevict_loop f cp
              {| tcache := edel k (tcache s); refreshing := refreshing s; order := r; tback := tback s;
                 stuck := stuck s;
                 t_reads := t_reads s; t_fresh := t_fresh s; t_stale := t_stale s; t_hard := t_hard s;
                 t_bg := t_bg s; t_succ := t_succ s; t_coal := t_coal s; t_evict := t_evict s + 1 |}
        end
      else s
  end.

(** [_store(key, value)] at time [now]. *)
Definition tstore (c : tcfg) (now k v : Z) (s : tst) : tst :=
  let s1 := match tcap c with
            | Some cp => if emem k (tcache s) then s else tevict_loop (S (length (order s))) cp s
            | None => s
            end in
  {| tcache := eset k (v, now) (tcache s1); refreshing := refreshing s1;
     order := (if zmem k (order s1) then remove1 k (order s1) else order s1) ++ [k];
     tback := tback s1; stuck := stuck s1;
     t_reads := t_reads s1; t_fresh := t_fresh s1; t_stale := t_stale s1; t_hard := t_hard s1;
     t_bg := t_bg s1; t_succ := t_succ s1; t_coal := t_coal s1; t_evict := t_evict s1 |}.

Definition tupd (s : tst) (ca : emap) (rf ord : list Z) (b : amap) (d : list Z) : tst :=
  {| tcache := ca; refreshing := rf; order := ord; tback := b; stuck := stuck s;
     t_reads := t_reads s + nth 0 d 0; t_fresh := t_fresh s + nth 1 d 0; t_stale := t_stale s + nth 2 d 0;
     t_hard := t_hard s + nth 3 d 0; t_bg := t_bg s + nth 4 d 0; t_succ := t_succ s + nth 5 d 0;
     t_coal := t_coal s + nth 6 d 0; t_evict := t_evict s |}.

Inductive top :=
| TGet (k : Z) | TPut (k v : Z) | TInv (k : Z) | TInvAll
| TRefresh (k : Z)              (* the engine delivers the _sttl_refresh event to handle_event *)
| TBackPut (k v : Z) | TBackDel (k : Z).   (* another writer changes the backing store directly *)

Inductive tcont :=
| TKHit (v : Z)                 (* fresh or stale hit: entry captured before the yield *)
| TKCoal (k : Z)                (* coalesced with a refresh in flight; falls back to TKMiss *)
| TKMiss (k : Z)                (* KVStore.get after its latency, then _store *)
| TKPut (k v : Z)               (* KVStore.put after its latency, then _store *)
| TKRefresh (k : Z).            (* background refresh: KVStore.get, _store, discard from _refreshing_keys *)

(** result of a segment: yield (delay, spawned refresh event?) or return.
    [served]: when the segment decides to serve a cached entry, its age then. *)
Inductive tres := TYield (d : Z) (spawn : bool) (k : tcont) | TRet (r : option Z).

Definition touch (k : Z) (l : list Z) : list Z := if zmem k l then remove1 k l ++ [k] else l.

Definition tstart (c : tcfg) (now : Z) (s : tst) (o : top) : tst * tres * option Z :=
  match o with
  | TGet k =>
      let miss (s1 : tst) :=
        if zmem k (refreshing s1)
        then (tupd s1 (tcache s1) (refreshing s1) (order s1) (tback s1) [0; 0; 0; 1; 0; 0; 1],
              TYield (tlat_r c) false (TKCoal k), None)
        else (tupd s1 (tcache s1) (refreshing s1) (order s1) (tback s1) [0; 0; 0; 1],
              TYield (tlat_r c) false (TKMiss k), None) in
      let s0 := tupd s (tcache s) (refreshing s) (order s) (tback s) [1] in
      match eget k (tcache s) with
      | Some (v, at_) =>
          let s1 := tupd s0 (tcache s0) (refreshing s0) (touch k (order s0)) (tback s0) [] in
          if now - at_ <? soft c then
            (tupd s1 (tcache s1) (refreshing s1) (order s1) (tback s1) [0; 1],
             TYield (tlat_c c) false (TKHit v), Some (now - at_))
          else if now - at_ <? hard c then
            if zmem k (refreshing s1)
            then (tupd s1 (tcache s1) (refreshing s1) (order s1) (tback s1) [0; 0; 1],
                  TYield (tlat_c c) false (TKHit v), Some (now - at_))
            else (tupd s1 (tcache s1) (refreshing s1 ++ [k]) (order s1) (tback s1) [0; 0; 1; 0; 1],
                  TYield (tlat_c c) true (TKHit v), Some (now - at_))
          else miss s1
      | None => miss s0
      end
  | TPut k v => (s, TYield (tlat_w c) false (TKPut k v), None)
  | TInv k =>
      (if emem k (tcache s)
       then tupd s (edel k (tcache s)) (refreshing s) (if zmem k (order s) then remove1 k (order s) else order s) (tback s) []
       else s, TRet None, None)
  | TInvAll => (tupd s [] [] [] (tback s) [], TRet None, None)
  | TRefresh k => (s, TYield (tlat_r c) false (TKRefresh k), None)
  | TBackPut k v => (tupd s (tcache s) (refreshing s) (order s) (aset k v (tback s)) [], TRet None, None)
  | TBackDel k => (tupd s (tcache s) (refreshing s) (order s) (adel k (tback s)) [], TRet None, None)
  end.

Definition tresume (c : tcfg) (now : Z) (s : tst) (k : tcont) : tst * tres * option Z :=
  match k with
  | TKHit v => (s, TRet (Some v), None)
  | TKCoal key =>
      match eget key (tcache s) with
      | Some (v, at_) => if now - at_ <? hard c then (s, TRet (Some v), Some (now - at_))
                         else (s, TYield (tlat_r c) false (TKMiss key), None)   (* blocking fetch *)
      | None => (s, TYield (tlat_r c) false (TKMiss key), None)
      end
  | TKMiss key =>
      match aget key (tback s) with
      | Some v => (tstore c now key v s, TRet (Some v), None)
      | None => (s, TRet None, None)
      end
  | TKPut key v =>
      let s1 := tupd s (tcache s) (refreshing s) (order s) (aset key v (tback s)) [] in
      (tstore c now key v s1, TRet None, None)
  | TKRefresh key =>
      let s1 := match aget key (tback s) with
                | Some v => let s2 := tstore c now key v s in
                            tupd s2 (tcache s2) (refreshing s2) (order s2) (tback s2) [0; 0; 0; 0; 0; 1]
                | None => s
                end in
      (tupd s1 (tcache s1) (remove1 key (refreshing s1)) (order s1) (tback s1) [], TRet None, None)
  end.

Inductive tact := TStart (id : Z) (o : top) | TResume (id : Z).
Record tinput := { ti_now : Z; ti_act : tact }.
Record tsys := { tstt : tst; tpending : list (Z * tcont) }.

Fixpoint tpfind (id : Z) (l : list (Z * tcont)) : option tcont :=
  match l with [] => None | (i, k) :: r => if i =? id then Some k else tpfind id r end.
Fixpoint tpdel (id : Z) (l : list (Z * tcont)) : list (Z * tcont) :=
  match l with [] => [] | (i, k) :: r => if i =? id then r else (i, k) :: tpdel id r end.

Inductive tout := TOYield (d : Z) (spawn : bool) | TORet (r : option Z) | TONone.

Definition tsettle (id : Z) (pend : list (Z * tcont)) (x : tst * tres * option Z) : tsys * tout * option Z :=
  let '(s, r, age) := x in
  match r with
  | TYield d sp k => ({| tstt := s; tpending := pend ++ [(id, k)] |}, TOYield d sp, age)
  | TRet v => ({| tstt := s; tpending := pend |}, TORet v, age)
  end.

(** one segment: new system, observable output, age of the cache entry the
    segment decided to serve (if it did). *)
Definition tstep (c : tcfg) (y : tsys) (i : tinput) : tsys * tout * option Z :=
  match ti_act i with
  | TStart id o => tsettle id (tpending y) (tstart c (ti_now i) (tstt y) o)
  | TResume id =>
      match tpfind id (tpending y) with
      | Some k => tsettle id (tpdel id (tpending y)) (tresume c (ti_now i) (tstt y) k)
      | None => (y, TONone, None)
      end
  end.

Fixpoint trun (c : tcfg) (y : tsys) (ins : list tinput) : tsys :=
  match ins with [] => y | i :: r => trun c (fst (fst (tstep c y i))) r end.

Definition tsinit (b0 : amap) : tsys := {| tstt := tinit b0; tpending := [] |}.

(** ** comparison with the implementation *)
Definition entry_eqb (a b : Z * (Z * Z)) : bool :=
  (fst a =? fst b) && (fst (snd a) =? fst (snd b)) && (snd (snd a) =? snd (snd b)).

Definition tout_eqb (a b : tout) : bool :=
  match a, b with
  | TOYield x p, TOYield y q => (x =? y) && Bool.eqb p q
  | TORet x, TORet y => ozeqb x y
  | TONone, TONone => true
  | _, _ => false
  end.

(** observed: cache entries, sorted refreshing keys, access order, backing items, eight counters *)
Definition tobs := (emap * list Z * list Z * amap * list Z)%type.

Definition tstate_ok (s : tst) (o : tobs) : bool :=
  let '(oc, orf, oord, ob, ostats) := o in
  list_eqb entry_eqb oc (tcache s) && set_eqb orf (refreshing s) && zlist_eqb oord (order s)
  && amap_eqb ob (tback s) && negb (stuck s)
  && zlist_eqb ostats [t_reads s; t_fresh s; t_stale s; t_hard s; t_bg s; t_succ s; t_coal s; t_evict s].

Fixpoint ok_sttl_from (c : tcfg) (y : tsys) (tr : list (tinput * tout * tobs)) : bool :=
  match tr with
  | [] => true
  | (i, o, os) :: rest =>
      let '(y', o', _) := tstep c y i in
      tout_eqb o o' && tstate_ok (tstt y') os && ok_sttl_from c y' rest
  end.

Definition sttl_case := (tcfg * amap * list (tinput * tout * tobs))%type.
Definition ok_sttl (x : sttl_case) : bool :=
  let '(c, b0, tr) := x in ok_sttl_from c (tsinit b0) tr.
