(** Property C16 — the theorems the check counts as obligations.  Nothing but
    statements closed by [exact] and [Print Assumptions]. *)
From HS Require Import Base.Prelude C16.Model C16.Lists C16.Policies C16.Store C16.Races.
Local Open Scope Z_scope.

(** Every one of the nine eviction policies keeps a duplicate-free tracked-key
    set that on_access / on_insert / on_remove / evict / clear change exactly as
    the cache relies on; in particular evict returns a tracked key whenever
    there is one (the [break] of _cache_put is taken only for an empty policy). *)
Theorem c16_policies_track_exactly : forall kind, policy_ok (pol_of kind).
Proof. exact all_policies_ok. Qed.
Print Assumptions c16_policies_track_exactly.

(** For any interleaving of the segments of get / put / delete / invalidate /
    invalidate_all / flush (any oracle draws, any clock readings), all nine
    policies, write-through and write-back: at most [capacity] entries, policy
    keys are exactly the cached keys (no duplicates, same number), dirty keys
    are cached, and a write-through cache has no dirty keys. *)
Theorem c16_capacity_and_policy_keys : forall kind c b0 ins, 1 <= cap c ->
  let s := st (srun (pol_of kind) c (sinit (pol_of kind) b0) ins) in
  zlen (cache s) <= cap c /\
  NoDup (akeys (cache s)) /\ NoDup (p_keys _ (pol s)) /\
  (forall x, In x (p_keys _ (pol s)) <-> In x (akeys (cache s))) /\
  length (p_keys _ (pol s)) = length (cache s) /\
  (forall x, In x (dirty s) -> In x (akeys (cache s))) /\
  (wt c = true -> dirty s = []).
Proof. exact cache_invariant. Qed.
Print Assumptions c16_capacity_and_policy_keys.

(** REFUTED (known finding C16-fill-race): a read issued after a completed
    write can return the older value when a miss-fill overlapped the write. *)
Theorem c16_read_after_write_overlap_refuted : ~ read_after_write_statement.
Proof. exact read_after_write_overlap_refuted. Qed.
Print Assumptions c16_read_after_write_overlap_refuted.

(** REFUTED (known findings C16-flush-race, C16-fill-race): a segment of a
    running operation can discard write-back data. *)
Theorem c16_writeback_flush_race_refuted : ~ dirty_preserved_statement.
Proof. exact flush_race_refuted. Qed.
Print Assumptions c16_writeback_flush_race_refuted.

Theorem c16_writeback_fill_race_refuted : ~ dirty_preserved_statement.
Proof. exact fill_race_loses_writeback. Qed.
Print Assumptions c16_writeback_fill_race_refuted.
