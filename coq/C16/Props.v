(** Property C16 — the theorems the check counts as obligations.  Nothing but
    statements closed by [exact] and [Print Assumptions]. *)
From HS Require Import Base.Prelude C16.Model C16.Lists C16.Policies C16.Store C16.Races C16.Seq C16.ModelTTL C16.SoftTTL C16.ModelMT C16.MT C16.ModelPC C16.PC C16.ModelWP
  Base.PyLib Gen.EvictionGen C16.GenTie.
Local Open Scope Z_scope.

(** Every one of the nine eviction policies keeps a duplicate-free tracked-key
    set that on_access / on_insert / on_remove / evict / clear change exactly as
    the cache relies on; in particular evict returns a tracked key whenever
    there is one (the [break] of _cache_put is taken only for an empty policy). *)
Theorem c16_policies_track_exactly : forall kind, policy_ok (pol_of kind).
Proof. exact all_policies_ok. Qed.
Print Assumptions c16_policies_track_exactly.

(** For any interleaving of the segments of get / put / delete / invalidate /
    invalidate_all / flush (any oracle draws, any clock readings), all nine
    policies, write-through and write-back: at most [capacity] entries, policy
    keys are exactly the cached keys (no duplicates, same number), dirty keys
    are cached, and a write-through cache has no dirty keys. *)
Theorem c16_capacity_and_policy_keys : forall kind c b0 ins, 1 <= cap c ->
  let s := st (srun (pol_of kind) c (sinit (pol_of kind) b0) ins) in
  zlen (cache s) <= cap c /\
  NoDup (akeys (cache s)) /\ NoDup (p_keys _ (pol s)) /\
  (forall x, In x (p_keys _ (pol s)) <-> In x (akeys (cache s))) /\
  length (p_keys _ (pol s)) = length (cache s) /\
  (forall x, In x (dirty s) -> In x (akeys (cache s))) /\
  (wt c = true -> dirty s = []).
Proof. exact cache_invariant. Qed.
Print Assumptions c16_capacity_and_policy_keys.

(** REFUTED (known finding C16-fill-race): a read issued after a completed
    write can return the older value when a miss-fill overlapped the write. *)
Theorem c16_read_after_write_overlap_refuted : ~ read_after_write_statement.
Proof. exact read_after_write_overlap_refuted. Qed.
Print Assumptions c16_read_after_write_overlap_refuted.

(** REFUTED (known findings C16-flush-race, C16-fill-race): a segment of a
    running operation can discard write-back data. *)
Theorem c16_writeback_flush_race_refuted : ~ dirty_preserved_statement.
Proof. exact flush_race_refuted. Qed.
Print Assumptions c16_writeback_flush_race_refuted.

Theorem c16_writeback_fill_race_refuted : ~ dirty_preserved_statement.
Proof. exact fill_race_loses_writeback. Qed.
Print Assumptions c16_writeback_fill_race_refuted.

(** PARTIAL (write-back clause): every segment of every interleaving keeps each
    dirty value (still dirty with that value, or written to the backing store)
    unless it is an explicit put / delete / invalidate of that key, the fill of
    a miss of that key, or a flush write that captured another value.  The
    eviction inside _cache_put is covered (fix 16758b8 writes the victim back). *)
Theorem c16_writeback_preserved_partial : forall kind c b0 ins i k v, 1 <= cap c ->
  let P := pol_of kind in
  let y := srun P c (sinit P b0) ins in
  In k (dirty (st y)) -> aget k (cache (st y)) = Some v ->
  (match i_act i with
   | IStart _ o => touches k o = false
   | IResume id => match pfind id (pending y) with
                   | Some kc => cont_touches k v kc = false
                   | None => True
                   end
   end) ->
  let y' := fst (sstep P c y i) in
  (In k (dirty (st y')) /\ aget k (cache (st y')) = Some v) \/ aget k (back (st y')) = Some v.
Proof. exact writeback_preserved_partial. Qed.
Print Assumptions c16_writeback_preserved_partial.

(** PARTIAL (read-after-write clause): for non-overlapping operations every get
    returns the last written value (None after delete): all policies, both write
    modes (write-back: without invalidations), any capacity, any oracle inputs. *)
Theorem c16_sequential_read_after_write_partial : forall kind c b0 l, 1 <= cap c -> NoDup (akeys b0) ->
  Forall (fun x => op_safe c (snd x)) l ->
  reads_ok (fun k => aget k b0) l (snd (run_seq (pol_of kind) c (cinit (pol_of kind) b0) l)).
Proof. exact sequential_read_after_write. Qed.
Print Assumptions c16_sequential_read_after_write_partial.

(** REFUTED (known finding C16-invalidate-dirty). *)
Theorem c16_invalidate_dirty_refuted : ~ wb_sequential_statement.
Proof. exact invalidate_dirty_refuted. Qed.
Print Assumptions c16_invalidate_dirty_refuted.

(** Soft-TTL cache, every interleaving of get / put / invalidate(_all) /
    background refresh / foreign writes to the backing store: at most
    [capacity] entries, the LRU order lists exactly the cached keys, and the
    eviction loop of _store never spins. *)
Theorem c16_soft_ttl_capacity : forall c b0 ins,
  match tcap c with Some n => 1 <= n | None => True end ->
  let s := tstt (trun c (tsinit b0) ins) in
  match tcap c with Some n => zlen (tcache s) <= n | None => True end /\
  NoDup (ekeys (tcache s)) /\ NoDup (order s) /\
  (forall x, In x (order s) <-> In x (ekeys (tcache s))) /\ stuck s = false.
Proof. exact sttl_invariant. Qed.
Print Assumptions c16_soft_ttl_capacity.

(** Hard TTL (after fix e0d3822 of the coalesced-miss path): in any state, any
    segment that decides to serve a cached entry serves one younger than the
    hard TTL at that instant (fresh, stale and coalesced paths). *)
Theorem c16_soft_ttl_hard_bound : forall c y i, soft c <= hard c ->
  match snd (tstep c y i) with Some age => age < hard c | None => True end.
Proof. exact sttl_hard_bound. Qed.
Print Assumptions c16_soft_ttl_hard_bound.

(** Soft-TTL read-after-write, every interleaving without foreign writers:
    a cached value always equals the backing-store value. *)
Theorem c16_soft_ttl_coherent : forall c b0 ins,
  match tcap c with Some n => 1 <= n | None => True end ->
  forallb own_input ins = true ->
  let s := tstt (trun c (tsinit b0) ins) in
  forall k v at_, eget k (tcache s) = Some (v, at_) -> aget k (tback s) = Some v.
Proof. exact sttl_coherent. Qed.
Print Assumptions c16_soft_ttl_coherent.

(** Multi-tier cache: both tiers within capacity, policy keys = cached keys,
    dirty keys cached — every interleaving, any two policies, any promotion. *)
Theorem c16_multitier_capacity_and_policy_keys : forall k1 k2 c b0 ins, 1 <= cap (c1 c) -> 1 <= cap (c2 c) ->
  let s := mstt (mrun (pol_of k1) (pol_of k2) c (msinit (pol_of k1) (pol_of k2) b0) ins) in
  tier_facts (cap (c1 c)) (l1 s) /\ tier_facts (cap (c2 c)) (l2 s).
Proof. exact multitier_invariant. Qed.
Print Assumptions c16_multitier_capacity_and_policy_keys.

(** REFUTED (known finding C16-mt-stale-install): a multi-tier get that was in
    flight across a delete installs the deleted value in tier 1. *)
Theorem c16_multitier_stale_install_refuted : ~ mt_read_after_delete_statement.
Proof. exact mt_stale_install_refuted. Qed.
Print Assumptions c16_multitier_stale_install_refuted.

(** PageCache (modelled; capacity only): within capacity and exception-free for
    every sequence of non-overlapping read_page / write_page / flush. *)
Theorem c16_pagecache_sequential_capacity_partial : forall c l, 1 <= pcap c -> sequential c psinit l ->
  let y := prun c psinit l in
  zlen (pages (pstt y)) <= pcap c /\ perr (pstt y) = false.
Proof. exact pagecache_sequential_capacity. Qed.
Print Assumptions c16_pagecache_sequential_capacity_partial.

(** REFUTED (known finding C16-pagecache-overlap): overlapping loads exceed the
    capacity; a load overwrites a dirty page without write-back. *)
Theorem c16_pagecache_overlap_capacity_refuted : ~ pagecache_capacity_statement.
Proof. exact pagecache_overlap_capacity_refuted. Qed.
Print Assumptions c16_pagecache_overlap_capacity_refuted.

Theorem c16_pagecache_dirty_overwritten_refuted : ~ pagecache_dirty_statement.
Proof. exact pagecache_load_overwrites_dirty_refuted. Qed.
Print Assumptions c16_pagecache_dirty_overwritten_refuted.

(** write_policies.WriteBack tracks exactly the keys written and not flushed since. *)
Theorem c16_writeback_policy_tracks : forall m ops k,
  In k (wdirty (wrun (WBack m) ops)) <-> pending_write k ops false = true.
Proof. exact wb_tracks. Qed.
Print Assumptions c16_writeback_policy_tracks.

(* ---------------- code level: eviction_policies.py as regenerated by py2coq ---------------- *)

(** LRUEviction (an OrderedDict used as an ordered set) and FIFOEviction (a list) of
    components/datastore/eviction_policies.py, as REGENERATED from the source on every run
    (Gen/EvictionGen.v): every method — on_access, on_insert, on_remove, evict, clear — acts on the
    tracked keys exactly as the model policies [lru] / [fifo] (the policies the capacity / tracked-key
    theorems above quantify over), returns what they return, and never raises.  For any object state
    (the dict's values are never read). *)
Theorem c16_code_lru_fifo_refine_model : forall (q : LRUEviction) (f : FIFOEviction) k now dr,
  (dkeys (LRUEviction__order (fst (LRUEviction_on_access q k))) = C16.Model.p_access C16.Model.lru k (dkeys (LRUEviction__order q))
   /\ dkeys (LRUEviction__order (fst (LRUEviction_on_insert q k))) = C16.Model.p_insert C16.Model.lru now k (dkeys (LRUEviction__order q))
   /\ dkeys (LRUEviction__order (fst (LRUEviction_on_remove q k))) = C16.Model.p_remove C16.Model.lru k (dkeys (LRUEviction__order q))
   /\ (exists q' r, LRUEviction_evict q = Some (q', r)
         /\ (r, dkeys (LRUEviction__order q'), dr) = C16.Model.p_evict C16.Model.lru now dr (dkeys (LRUEviction__order q)))
   /\ dkeys (LRUEviction__order (fst (LRUEviction_clear q))) = C16.Model.p_clear C16.Model.lru (dkeys (LRUEviction__order q)))
  /\ (FIFOEviction__order (fst (FIFOEviction_on_access f k)) = C16.Model.p_access C16.Model.fifo k (FIFOEviction__order f)
      /\ FIFOEviction__order (fst (FIFOEviction_on_insert f k)) = C16.Model.p_insert C16.Model.fifo now k (FIFOEviction__order f)
      /\ FIFOEviction__order (fst (FIFOEviction_on_remove f k)) = C16.Model.p_remove C16.Model.fifo k (FIFOEviction__order f)
      /\ (exists f' r, FIFOEviction_evict f = Some (f', r)
            /\ (r, FIFOEviction__order f', dr) = C16.Model.p_evict C16.Model.fifo now dr (FIFOEviction__order f))
      /\ FIFOEviction__order (fst (FIFOEviction_clear f)) = C16.Model.p_clear C16.Model.fifo (FIFOEviction__order f)).
Proof. intros q f k now dr. exact (conj (tie_lru q k now dr) (tie_fifo f k now dr)). Qed.
Print Assumptions c16_code_lru_fifo_refine_model.

(** LFUEviction AS TRANSLATED (the [_counts] dict, the write-only [_min_count]; evict = [min] over the
    counts, then a loop over the items that deletes and returns the first key with that count — a
    [return] inside a loop over the container it has just modified): every method acts on
    (counts, min_count) exactly as the model policy [lfu], returns what it returns, and never raises. *)
Theorem c16_code_lfu_refines_model : forall (q : LFUEviction) k now dr,
  (exists q', LFUEviction_on_access q k = Some (q', tt) /\ lfu_st q' = C16.Model.p_access C16.Model.lfu k (lfu_st q))
  /\ lfu_st (fst (LFUEviction_on_insert q k)) = C16.Model.p_insert C16.Model.lfu now k (lfu_st q)
  /\ lfu_st (fst (LFUEviction_on_remove q k)) = C16.Model.p_remove C16.Model.lfu k (lfu_st q)
  /\ (exists q' r, LFUEviction_evict q = Some (q', r) /\ (r, lfu_st q', dr) = C16.Model.p_evict C16.Model.lfu now dr (lfu_st q))
  /\ lfu_st (fst (LFUEviction_clear q)) = C16.Model.p_clear C16.Model.lfu (lfu_st q).
Proof. exact tie_lfu. Qed.
Print Assumptions c16_code_lfu_refines_model.
