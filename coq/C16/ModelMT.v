(** C16 — executable model of happysimulator/components/datastore/multi_tier_cache.py
    (MultiTierCache with two CachedStore tiers over one KVStore).  Definitions only.
    The tiers are [cst] states of Model.v; the shared backing store is [mback]
    (a tier's own [back] field is overwritten with it before every tier call). *)
From HS Require Import Base.Prelude C16.Model.
Local Open Scope Z_scope.

Inductive promo := PAlways | PSecond | PNever.

Record mcfg := { c1 : cfg; c2 : cfg; promote : promo }.

Record mst (P1 P2 : policy) := {
  l1 : cst P1; l2 : cst P2;
  mback : amap;                  (* the KVStore behind all tiers *)
  counts : amap;                 (* _access_counts *)
  m_reads : Z; m_writes : Z; m_h1 : Z; m_h2 : Z; m_bs : Z; m_miss : Z; m_promo : Z;
}.
Arguments l1 {P1 P2}. Arguments l2 {P1 P2}. Arguments mback {P1 P2}. Arguments counts {P1 P2}.
Arguments m_reads {P1 P2}. Arguments m_writes {P1 P2}. Arguments m_h1 {P1 P2}. Arguments m_h2 {P1 P2}.
Arguments m_bs {P1 P2}. Arguments m_miss {P1 P2}. Arguments m_promo {P1 P2}.

Definition minit (P1 P2 : policy) (b0 : amap) : mst P1 P2 :=
  {| l1 := cinit P1 []; l2 := cinit P2 []; mback := b0; counts := [];
     m_reads := 0; m_writes := 0; m_h1 := 0; m_h2 := 0; m_bs := 0; m_miss := 0; m_promo := 0 |}.

(** replace tiers / backing / counts and add to the seven counters *)
Definition mupd {P1 P2} (s : mst P1 P2) (a : cst P1) (b : cst P2) (bk cn : amap) (d : list Z) : mst P1 P2 :=
  {| l1 := a; l2 := b; mback := bk; counts := cn;
     m_reads := m_reads s + nth 0 d 0; m_writes := m_writes s + nth 1 d 0; m_h1 := m_h1 s + nth 2 d 0;
     m_h2 := m_h2 s + nth 3 d 0; m_bs := m_bs s + nth 4 d 0; m_miss := m_miss s + nth 5 d 0;
     m_promo := m_promo s + nth 6 d 0 |}.

Inductive mop :=
| MGet (k : Z) | MPut (k v : Z) | MDel (k : Z) | MInv (k : Z) | MInvAll
| ML2Get (k : Z).              (* a client of tier 2 reads through it directly: CachedStore.get *)

Inductive mcont :=
| MKHit (tier : Z) (k v : Z)   (* tier.get hit in flight; afterwards tier_hits and promotion *)
| MKMiss (k : Z)               (* backing.get in flight, then _cache_value *)
| MKPut1 (k v : Z)             (* backing.put in flight, then invalidate tiers and L1.put *)
| MKPut2 (kc : cont)           (* L1.put in flight *)
| MKDel (k : Z)                (* backing.delete in flight *)
| MKL2 (kc : cont).            (* direct tier-2 get in flight *)

Inductive mres := MYield (d : Z) (k : mcont) | MRet (r : option Z).

Definition tier_inv {P} (k : Z) (t : cst P) : cst P :=
  if amem k (cache t) then cache_remove P k t else t.

Definition should_promote {P1 P2} (c : mcfg) (s : mst P1 P2) (k : Z) : bool :=
  match promote c with
  | PNever => false
  | PAlways => true
  | PSecond => match aget k (counts s) with Some n => n >=? 2 | None => false end
  end.

Definition mstart (P1 P2 : policy) (c : mcfg) (now : Z) (dr : list (list Z)) (s : mst P1 P2) (o : mop)
  : mst P1 P2 * mres * list (list Z) :=
  match o with
  | MGet k =>
      let n := match aget k (counts s) with Some n => n | None => 0 end in
      let s0 := mupd s (l1 s) (l2 s) (mback s) (aset k (n + 1) (counts s)) [1] in
      match aget k (cache (l1 s)) with
      | Some v =>
          (mupd s0 (with_pol (bump (l1 s) 1 0 1 0) (p_access P1 k (pol (l1 s)))) (l2 s0) (mback s0) (counts s0) [],
           MYield (lat_c (c1 c)) (MKHit 0 k v), dr)
      | None =>
          match aget k (cache (l2 s)) with
          | Some v =>
              (mupd s0 (l1 s0) (with_pol (bump (l2 s) 1 0 1 0) (p_access P2 k (pol (l2 s)))) (mback s0) (counts s0) [],
               MYield (lat_c (c2 c)) (MKHit 1 k v), dr)
          | None => (s0, MYield (lat_r (c1 c)) (MKMiss k), dr)
          end
      end
  | MPut k v => (mupd s (l1 s) (l2 s) (mback s) (counts s) [0; 1], MYield (lat_w (c1 c)) (MKPut1 k v), dr)
  | MDel k => (mupd s (tier_inv k (l1 s)) (tier_inv k (l2 s)) (mback s) (counts s) [],
               MYield (lat_d (c1 c)) (MKDel k), dr)
  | MInv k => (mupd s (tier_inv k (l1 s)) (tier_inv k (l2 s)) (mback s) (counts s) [], MRet None, dr)
  | MInvAll =>
      let '(a, _, _) := start P1 (c1 c) now dr (l1 s) OInvAll in
      let '(b, _, _) := start P2 (c2 c) now dr (l2 s) OInvAll in
      (mupd s a b (mback s) [] [], MRet None, dr)
  | ML2Get k =>
      let '(b, r, dr') := start P2 (c2 c) now dr (with_back (l2 s) (mback s)) (OGet k) in
      (mupd s (l1 s) b (back b) (counts s) [],
       match r with RYield d kc => MYield d (MKL2 kc) | RRet v => MRet v end, dr')
  end.

Definition mresume (P1 P2 : policy) (c : mcfg) (now : Z) (dr : list (list Z)) (s : mst P1 P2) (k : mcont)
  : mst P1 P2 * mres * list (list Z) :=
  match k with
  | MKHit tier key v =>
      let s0 := mupd s (l1 s) (l2 s) (mback s) (counts s) (if tier =? 0 then [0; 0; 1] else [0; 0; 0; 1]) in
      if negb (tier =? 0) && should_promote c s key then
        let '(a, dr') := cache_put P1 (c1 c) now dr key v (with_back (l1 s) (mback s)) in
        (mupd s0 a (l2 s0) (back a) (counts s0) [0; 0; 0; 0; 0; 0; 1], MRet (Some v), dr')
      else (s0, MRet (Some v), dr)
  | MKMiss key =>
      match aget key (mback s) with
      | Some v =>
          let '(a, dr') := cache_put P1 (c1 c) now dr key v (with_back (l1 s) (mback s)) in
          (mupd s a (l2 s) (back a) (counts s) [0; 0; 0; 0; 1], MRet (Some v), dr')
      | None => (mupd s (l1 s) (l2 s) (mback s) (counts s) [0; 0; 0; 0; 0; 1], MRet None, dr)
      end
  | MKPut1 key v =>
      let bk := aset key v (mback s) in
      let '(a, r, dr') := start P1 (c1 c) now dr (with_back (tier_inv key (l1 s)) bk) (OPut key v) in
      (mupd s a (tier_inv key (l2 s)) (back a) (counts s) [],
       match r with RYield d kc => MYield d (MKPut2 kc) | RRet _ => MRet None end, dr')
  | MKPut2 kc =>
      let '(a, r, dr') := resume P1 (c1 c) now dr (with_back (l1 s) (mback s)) kc in
      (mupd s a (l2 s) (back a) (counts s) [],
       match r with RYield d kc' => MYield d (MKPut2 kc') | RRet _ => MRet None end, dr')
  | MKDel key =>
      (mupd s (l1 s) (l2 s) (adel key (mback s)) (adel key (counts s)) [], MRet (Some 1), dr)
  | MKL2 kc =>
      let '(b, r, dr') := resume P2 (c2 c) now dr (with_back (l2 s) (mback s)) kc in
      (mupd s (l1 s) b (back b) (counts s) [],
       match r with RYield d kc' => MYield d (MKL2 kc') | RRet v => MRet v end, dr')
  end.

Inductive mact := MStart (id : Z) (o : mop) | MResume (id : Z).
Record minput := { mi_now : Z; mi_draws : list (list Z); mi_act : mact }.
Record msys (P1 P2 : policy) := { mstt : mst P1 P2; mpending : list (Z * mcont) }.
Arguments mstt {P1 P2}. Arguments mpending {P1 P2}.

Fixpoint mpfind (id : Z) (l : list (Z * mcont)) : option mcont :=
  match l with [] => None | (i, k) :: r => if i =? id then Some k else mpfind id r end.
Fixpoint mpdel (id : Z) (l : list (Z * mcont)) : list (Z * mcont) :=
  match l with [] => [] | (i, k) :: r => if i =? id then r else (i, k) :: mpdel id r end.

Definition msettle {P1 P2} (id : Z) (pend : list (Z * mcont)) (x : mst P1 P2 * mres * list (list Z))
  : msys P1 P2 * out * list (list Z) :=
  let '(s, r, lft) := x in
  match r with
  | MYield d k => ({| mstt := s; mpending := pend ++ [(id, k)] |}, OYield d, lft)
  | MRet v => ({| mstt := s; mpending := pend |}, ORet v, lft)
  end.

Definition mstep (P1 P2 : policy) (c : mcfg) (y : msys P1 P2) (i : minput) : msys P1 P2 * out * list (list Z) :=
  match mi_act i with
  | MStart id o => msettle id (mpending y) (mstart P1 P2 c (mi_now i) (mi_draws i) (mstt y) o)
  | MResume id =>
      match mpfind id (mpending y) with
      | Some k => msettle id (mpdel id (mpending y)) (mresume P1 P2 c (mi_now i) (mi_draws i) (mstt y) k)
      | None => (y, ONone, mi_draws i)
      end
  end.

Fixpoint mrun (P1 P2 : policy) (c : mcfg) (y : msys P1 P2) (ins : list minput) : msys P1 P2 :=
  match ins with [] => y | i :: r => mrun P1 P2 c (fst (fst (mstep P1 P2 c y i))) r end.

Definition msinit (P1 P2 : policy) (b0 : amap) : msys P1 P2 := {| mstt := minit P1 P2 b0; mpending := [] |}.

(** ** comparison with the implementation *)
(** a tier as observed: cache items, sorted dirty keys, policy view, six counters *)
Definition tier_obs := (amap * list Z * list (list Z) * list Z)%type.

Definition tier_ok {P} (t : cst P) (o : tier_obs) : bool :=
  let '(oc, od, ov, ostats) := o in
  amap_eqb oc (cache t) && set_eqb od (dirty t) && view_eqb ov (p_view P (pol t))
  && zlist_eqb ostats [n_reads t; n_writes t; n_hits t; n_misses t; n_evict t; n_wb t].

Definition mobs := (tier_obs * tier_obs * amap * amap * list Z)%type.

Definition mstate_ok {P1 P2} (s : mst P1 P2) (o : mobs) : bool :=
  let '(o1, o2, ob, ocn, ostats) := o in
  tier_ok (l1 s) o1 && tier_ok (l2 s) o2 && amap_eqb ob (mback s) && amap_eqb ocn (counts s)
  && zlist_eqb ostats [m_reads s; m_writes s; m_h1 s; m_h2 s; m_bs s; m_miss s; m_promo s].

Fixpoint ok_mt_from (P1 P2 : policy) (c : mcfg) (y : msys P1 P2) (tr : list (minput * out * mobs)) : bool :=
  match tr with
  | [] => true
  | (i, o, os) :: rest =>
      let '(y', o', lft) := mstep P1 P2 c y i in
      out_eqb o o' && mstate_ok (mstt y') os && match lft with [] => true | _ => false end
      && ok_mt_from P1 P2 c y' rest
  end.

Definition mt_case := (pkind * pkind * mcfg * amap * list (minput * out * mobs))%type.
Definition ok_mt (x : mt_case) : bool :=
  let '(k1, k2, c, b0, tr) := x in
  ok_mt_from (pol_of k1) (pol_of k2) c (msinit (pol_of k1) (pol_of k2) b0) tr.
