(** C16 — MultiTierCache: both tiers keep the CachedStore invariant under every
    interleaving; the read-after-write clause is refuted by a stale install. *)
From HS Require Import Base.Prelude C16.Model C16.Lists C16.Policies C16.Store C16.ModelMT.
Local Open Scope Z_scope.

Section MT.
Variables P1 P2 : policy.
Variable H1 : policy_ok P1.
Variable H2 : policy_ok P2.
Variable c : mcfg.
Hypothesis Hcap1 : 1 <= cap (c1 c).
Hypothesis Hcap2 : 1 <= cap (c2 c).

Definition minv (s : mst P1 P2) : Prop := cinv P1 H1 (c1 c) (l1 s) /\ cinv P2 H2 (c2 c) (l2 s).

Lemma tier_inv_ok1 k t : cinv P1 H1 (c1 c) t -> cinv P1 H1 (c1 c) (tier_inv k t).
Proof. intros Ht. unfold tier_inv. destruct (amem k (cache t)); [apply cache_remove_inv|]; exact Ht. Qed.
Lemma tier_inv_ok2 k t : cinv P2 H2 (c2 c) t -> cinv P2 H2 (c2 c) (tier_inv k t).
Proof. intros Ht. unfold tier_inv. destruct (amem k (cache t)); [apply cache_remove_inv|]; exact Ht. Qed.

Lemma mstart_inv now dr s o : minv s -> minv (fst (fst (mstart P1 P2 c now dr s o))).
Proof.
  intros [Ha Hb]. destruct o as [k|k v|k|k| |k]; cbn [mstart].
  - destruct (aget k (cache (l1 s))) as [v|] eqn:E1.
    + cbn [fst]. split; [|exact Hb]. cbn [l1 mupd].
      pose proof (start_inv P1 H1 (c1 c) Hcap1 now dr (l1 s) (OGet k) Ha) as Hs. cbn [start] in Hs.
      rewrite E1 in Hs. exact Hs.
    + destruct (aget k (cache (l2 s))) as [v|] eqn:E2; cbn [fst]; [|split; assumption].
      split; [exact Ha|]. cbn [l2 mupd].
      pose proof (start_inv P2 H2 (c2 c) Hcap2 now dr (l2 s) (OGet k) Hb) as Hs. cbn [start] in Hs.
      rewrite E2 in Hs. exact Hs.
  - cbn [fst]. split; assumption.
  - cbn [fst]. split; [apply tier_inv_ok1|apply tier_inv_ok2]; assumption.
  - cbn [fst]. split; [apply tier_inv_ok1|apply tier_inv_ok2]; assumption.
  - pose proof (start_inv P1 H1 (c1 c) Hcap1 now dr (l1 s) OInvAll Ha) as Hs1.
    pose proof (start_inv P2 H2 (c2 c) Hcap2 now dr (l2 s) OInvAll Hb) as Hs2.
    destruct (start P1 (c1 c) now dr (l1 s) OInvAll) as [[a r1] d1].
    destruct (start P2 (c2 c) now dr (l2 s) OInvAll) as [[b r2] d2]. cbn [fst] in *. split; assumption.
  - pose proof (start_inv P2 H2 (c2 c) Hcap2 now dr (with_back (l2 s) (mback s)) (OGet k) Hb) as Hs2.
    destruct (start P2 (c2 c) now dr (with_back (l2 s) (mback s)) (OGet k)) as [[b r2] d2]. cbn [fst] in *.
    split; assumption.
Qed.

Lemma mresume_inv now dr s k : minv s -> minv (fst (fst (mresume P1 P2 c now dr s k))).
Proof.
  intros [Ha Hb]. destruct k as [tier key v|key|key v|kc|key|kc]; cbn [mresume].
  - destruct (negb (tier =? 0) && should_promote c s key); [|cbn [fst]; split; assumption].
    pose proof (cache_put_inv P1 H1 (c1 c) Hcap1 now dr key v (with_back (l1 s) (mback s)) Ha) as Hs.
    destruct (cache_put P1 (c1 c) now dr key v (with_back (l1 s) (mback s))) as [a d1]. cbn [fst] in *.
    split; assumption.
  - destruct (aget key (mback s)) as [v|]; [|cbn [fst]; split; assumption].
    pose proof (cache_put_inv P1 H1 (c1 c) Hcap1 now dr key v (with_back (l1 s) (mback s)) Ha) as Hs.
    destruct (cache_put P1 (c1 c) now dr key v (with_back (l1 s) (mback s))) as [a d1]. cbn [fst] in *.
    split; assumption.
  - pose proof (start_inv P1 H1 (c1 c) Hcap1 now dr (with_back (tier_inv key (l1 s)) (aset key v (mback s))) (OPut key v)
                  (tier_inv_ok1 key (l1 s) Ha)) as Hs.
    destruct (start P1 (c1 c) now dr (with_back (tier_inv key (l1 s)) (aset key v (mback s))) (OPut key v)) as [[a r] d1].
    cbn [fst] in *. split; [exact Hs|apply tier_inv_ok2; exact Hb].
  - pose proof (resume_inv P1 H1 (c1 c) Hcap1 now dr (with_back (l1 s) (mback s)) kc Ha) as Hs.
    destruct (resume P1 (c1 c) now dr (with_back (l1 s) (mback s)) kc) as [[a r] d1]. cbn [fst] in *.
    split; assumption.
  - cbn [fst]. split; assumption.
  - pose proof (resume_inv P2 H2 (c2 c) Hcap2 now dr (with_back (l2 s) (mback s)) kc Hb) as Hs.
    destruct (resume P2 (c2 c) now dr (with_back (l2 s) (mback s)) kc) as [[b r] d1]. cbn [fst] in *.
    split; assumption.
Qed.

Lemma mstep_inv y i : minv (mstt y) -> minv (mstt (fst (fst (mstep P1 P2 c y i)))).
Proof.
  intros Hy. unfold mstep. destruct (mi_act i) as [id o|id].
  - pose proof (mstart_inv (mi_now i) (mi_draws i) (mstt y) o Hy) as Hs.
    destruct (mstart P1 P2 c (mi_now i) (mi_draws i) (mstt y) o) as [[s r] lft]. cbn [fst] in Hs.
    unfold msettle. destruct r; cbn [fst mstt]; exact Hs.
  - destruct (mpfind id (mpending y)) as [k|]; [|exact Hy].
    pose proof (mresume_inv (mi_now i) (mi_draws i) (mstt y) k Hy) as Hs.
    destruct (mresume P1 P2 c (mi_now i) (mi_draws i) (mstt y) k) as [[s r] lft]. cbn [fst] in Hs.
    unfold msettle. destruct r; cbn [fst mstt]; exact Hs.
Qed.

Lemma mrun_inv ins : forall y, minv (mstt y) -> minv (mstt (mrun P1 P2 c y ins)).
Proof. induction ins as [|i ins IH]; intros y Hy; cbn [mrun]; [exact Hy|]. apply IH, mstep_inv, Hy. Qed.

End MT.

Definition tier_facts {P} (cp : Z) (t : cst P) : Prop :=
  zlen (cache t) <= cp /\ NoDup (akeys (cache t)) /\
  (forall x, In x (p_keys P (pol t)) <-> In x (akeys (cache t))) /\
  (forall x, In x (dirty t) -> In x (akeys (cache t))).

(** Multi-tier cache, every interleaving of get / put / delete / invalidate /
    invalidate_all / direct tier-2 reads, any two of the nine policies, any
    promotion policy: both tiers stay within capacity and their policies track
    exactly their cached keys. *)
Theorem multitier_invariant : forall k1 k2 c b0 ins, 1 <= cap (c1 c) -> 1 <= cap (c2 c) ->
  let s := mstt (mrun (pol_of k1) (pol_of k2) c (msinit (pol_of k1) (pol_of k2) b0) ins) in
  tier_facts (cap (c1 c)) (l1 s) /\ tier_facts (cap (c2 c)) (l2 s).
Proof.
  intros k1 k2 c b0 ins Hc1 Hc2 s.
  pose proof (mrun_inv (pol_of k1) (pol_of k2) (all_policies_ok k1) (all_policies_ok k2) c Hc1 Hc2 ins
                (msinit _ _ b0)
                (conj (cinv_init _ (all_policies_ok k1) (c1 c) Hc1 []) (cinv_init _ (all_policies_ok k2) (c2 c) Hc2 [])))
    as [[(Hp1 & Hn1 & Hk1 & Hd1 & Hs1 & Hw1) Hl1] [(Hp2 & Hn2 & Hk2 & Hd2 & Hs2 & Hw2) Hl2]].
  fold s in Hn1, Hk1, Hs1, Hl1, Hn2, Hk2, Hs2, Hl2.
  unfold tier_facts. auto 10.
Qed.

(** "A read issued after a completed write returns that write's value":
    delete(k) completes, no later write, then get(k) must return None. *)
Definition mk_m (now : Z) (a : mact) : minput := {| mi_now := now; mi_draws := []; mi_act := a |}.

Definition mt_read_after_delete_statement : Prop :=
  forall k1 k2 c b0 pre idg k r, 1 <= cap (c1 c) -> 1 <= cap (c2 c) ->
    let P1 := pol_of k1 in let P2 := pol_of k2 in
    (* [pre] ends with every operation completed, among them a delete of k and no later write of k *)
    let y := mrun P1 P2 c (msinit P1 P2 b0) pre in
    mpending y = [] -> aget k (mback (mstt y)) = None ->
    let y1 := fst (fst (mstep P1 P2 c y (mk_m 1000 (MStart idg (MGet k))))) in
    snd (fst (mstep P1 P2 c y1 (mk_m 1001 (MResume idg)))) = ORet r -> r = None.

Definition mt_cfg : mcfg :=
  {| c1 := {| cap := 2; wt := true; lat_c := 1; lat_r := 6; lat_w := 12; lat_d := 7 |};
     c2 := {| cap := 2; wt := true; lat_c := 2; lat_r := 6; lat_w := 12; lat_d := 7 |};
     promote := PNever |}.

(** Witness: get(k) misses and waits for the backing read; delete(k)
    invalidates the tiers and waits for the backing delete; the read returns
    the old value and installs it in tier 1; the delete completes; every later
    get(k) hits the deleted value. *)
Theorem mt_stale_install_refuted : ~ mt_read_after_delete_statement.
Proof.
  intros Hs.
  specialize (Hs KLru KLru mt_cfg [(0, 10)]
                 [mk_m 8 (MStart 0 (MGet 0)); mk_m 12 (MStart 1 (MDel 0)); mk_m 14 (MResume 0); mk_m 19 (MResume 1)]
                 2 0 (Some 10) ltac:(cbn; lia) ltac:(cbn; lia)).
  cbn zeta in Hs.
  specialize (Hs ltac:(vm_compute; reflexivity) ltac:(vm_compute; reflexivity) ltac:(vm_compute; reflexivity)).
  discriminate.
Qed.
