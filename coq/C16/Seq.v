(** C16 — write-back data is preserved by every segment except the recorded
    races, and sequential (non-overlapping) executions never lose a write. *)
From HS Require Import Base.Prelude C16.Model C16.Lists C16.Policies C16.Store.
Local Open Scope Z_scope.

Definition touches (k : Z) (o : op) : bool :=
  match o with
  | OPut k' _ | ODel k' | OInv k' => k' =? k
  | OInvAll => true
  | _ => false
  end.

(** continuations that can discard the dirty value [v] of [k]: the fill of a
    miss of [k] (known finding C16-fill-race) and a flush write of [k] that
    captured another value (C16-flush-race). *)
Definition cont_touches (k v : Z) (kc : cont) : bool :=
  match kc with
  | KMiss k' => k' =? k
  | KFlush k' v' _ _ => (k' =? k) && negb (v' =? v)
  | _ => false
  end.

Section Seq.
Variable P : policy.
Variable H : policy_ok P.
Variable c : cfg.
Hypothesis Hcap : 1 <= cap c.

Notation cinv := (cinv P H c).

Definition kept (k v : Z) (s' : cst P) : Prop :=
  (In k (dirty s') /\ aget k (cache s') = Some v) \/ aget k (back s') = Some v.

(** The eviction inside _cache_put writes a dirty victim back (fix 16758b8). *)
Lemma evict_keeps_dirty_data now dr k' v' s k v : cinv s ->
  In k (dirty s) -> aget k (cache s) = Some v -> k' <> k ->
  kept k v (fst (cache_put P c now dr k' v' s)).
Proof.
  intros Hcv Hd Hg Hn. pose proof Hcv as [(Hp & Hc & Hk & Hdd & Hs & Hw) Hl]. unfold cache_put, kept.
  destruct (amem k' (cache s)) eqn:E; cbn [fst]; st_simpl.
  - left. split; [exact Hd|]. rewrite aget_aset_other by congruence. exact Hg.
  - destruct (evict_loop_spec P H c Hcap (length (p_keys P (pol s))) now dr s Hcv)
      as [[Hlt Heq]|(ke & pol' & dr' & Hev & Hin & Heq & Hi1 & Hlt)]; rewrite Heq; cbn [fst]; st_simpl.
    + left. split; [exact Hd|]. rewrite aget_aset_other by congruence. exact Hg.
    + unfold evict_apply. st_simpl. destruct (Z.eq_dec ke k) as [->|Hne].
      * right. apply zmem_In in Hd. rewrite Hd, Hg. apply aget_aset_same.
      * left. split.
        -- destruct (zmem ke (dirty s)); [apply In_remove1_neq; congruence|exact Hd].
        -- rewrite aget_aset_other by congruence. rewrite aget_adel_other by congruence. exact Hg.
Qed.

Lemma start_keeps_dirty now dr s o k v : cinv s ->
  In k (dirty s) -> aget k (cache s) = Some v -> touches k o = false ->
  kept k v (fst (fst (start P c now dr s o))).
Proof.
  intros Hcv Hd Hg Ht. unfold kept.
  destruct o as [k'|k' v'|k'|k'| |order]; cbn [start touches] in *; try discriminate.
  - destruct (aget k' (cache s)); cbn [fst]; st_simpl; auto.
  - apply Z.eqb_neq in Ht.
    pose proof (evict_keeps_dirty_data now dr k' v' (bump s 0 1 0 0) k v Hcv Hd Hg Ht) as Hk.
    destruct (cache_put P c now dr k' v' (bump s 0 1 0 0)) as [s1 dr1]. cbn [fst] in Hk.
    destruct (wt c); cbn [fst]; st_simpl; [exact Hk|].
    destruct Hk as [[Hk1 Hk2]|Hk]; [left; split; [apply In_add_end; auto|exact Hk2]|right; exact Hk].
  - apply Z.eqb_neq in Ht. destruct (amem k' (cache s)); cbn [fst]; st_simpl; [|auto].
    left. split; [apply In_remove1_neq; congruence|rewrite aget_adel_other by congruence; exact Hg].
  - apply Z.eqb_neq in Ht. destruct (amem k' (cache s)); cbn [fst]; st_simpl; [|auto].
    left. split; [apply In_remove1_neq; congruence|rewrite aget_adel_other by congruence; exact Hg].
  - cbn [fst]. auto.
Qed.

Lemma resume_keeps_dirty now dr s kc k v : cinv s ->
  In k (dirty s) -> aget k (cache s) = Some v -> cont_touches k v kc = false ->
  kept k v (fst (fst (resume P c now dr s kc))).
Proof.
  intros Hcv Hd Hg Ht. unfold kept.
  destruct kc as [v'|k'|k' v'| |k' inc|k' v' rest n]; cbn [resume cont_touches fst] in *; st_simpl; auto.
  - apply Z.eqb_neq in Ht. destruct (aget k' (back s)) eqn:E; cbn [fst]; [|auto].
    pose proof (evict_keeps_dirty_data now dr k' z s k v Hcv Hd Hg Ht) as Hk.
    destruct (cache_put P c now dr k' z s) as [s1 dr1]. exact Hk.
  - destruct (k' =? k) eqn:E; cbn in Ht.
    + apply Z.eqb_eq in E. subst k'. destruct (v' =? v) eqn:E2; [|discriminate].
      apply Z.eqb_eq in E2. subst v'. right. apply aget_aset_same.
    + apply Z.eqb_neq in E. left. split; [apply In_remove1_neq; congruence|exact Hg].
Qed.

(** * Sequential executions *)

Definition lval (s : cst P) (k : Z) : option Z :=
  match aget k (cache s) with Some v => Some v | None => aget k (back s) end.

Definition coherent (s : cst P) : Prop :=
  forall k v, aget k (cache s) = Some v -> ~ In k (dirty s) -> aget k (back s) = Some v.

Definition sinv (r : Z -> option Z) (s : cst P) : Prop :=
  cinv s /\ NoDup (akeys (back s)) /\ coherent s /\ forall k, lval s k = r k.

Definition upd (r : Z -> option Z) (k : Z) (v : option Z) : Z -> option Z :=
  fun k' => if k' =? k then v else r k'.

Definition ref_upd (r : Z -> option Z) (o : op) : Z -> option Z :=
  match o with OPut k v => upd r k (Some v) | ODel k => upd r k None | _ => r end.

(** invalidate / invalidate_all drop dirty entries (known finding
    C16-invalidate-dirty), so they are excluded in write-back mode. *)
Definition op_safe (o : op) : Prop :=
  wt c = true \/ match o with OInv _ | OInvAll => False | _ => True end.

Lemma cache_put_seq now dr k v s r : sinv r s ->
  let s' := fst (cache_put P c now dr k v s) in
  cinv s' /\ NoDup (akeys (back s')) /\ aget k (cache s') = Some v /\
  aget k (back s') = aget k (back s) /\ (In k (dirty s') <-> In k (dirty s)) /\
  (forall k', k' <> k -> lval s' k' = r k') /\
  (forall k' v', k' <> k -> aget k' (cache s') = Some v' -> ~ In k' (dirty s') -> aget k' (back s') = Some v').
Proof.
  intros (Hcv & Hb & Hco & Hl). pose proof Hcv as [(Hp & Hc & Hk & Hdd & Hs & Hw) Hle].
  pose proof (cache_put_spec P H c Hcap now dr k v s Hcv) as (Hi' & Hg' & _ & _).
  cbn zeta. split; [exact Hi'|]. revert Hi' Hg'. unfold cache_put.
  destruct (amem k (cache s)) eqn:E; cbn [fst]; st_simpl; intros Hi' Hg'.
  - split; [exact Hb|]. split; [exact Hg'|]. split; [reflexivity|]. split; [tauto|]. split.
    + intros k' Hn. rewrite <- Hl. unfold lval. st_simpl. rewrite aget_aset_other by exact Hn. reflexivity.
    + intros k' v' Hn Hg Hnd. rewrite aget_aset_other in Hg by exact Hn. apply Hco; assumption.
  - apply amem_false in E.
    destruct (evict_loop_spec P H c Hcap (length (p_keys P (pol s))) now dr s Hcv)
      as [[Hlt Heq]|(ke & pol' & dr' & Hev & Hin & Heq & Hi1 & Hlt)]; rewrite Heq in *; cbn [fst] in *; st_simpl.
    + split; [exact Hb|]. split; [exact Hg'|]. split; [reflexivity|]. split; [tauto|]. split.
      * intros k' Hn. rewrite <- Hl. unfold lval. st_simpl. rewrite aget_aset_other by exact Hn. reflexivity.
      * intros k' v' Hn Hg Hnd. rewrite aget_aset_other in Hg by exact Hn. apply Hco; assumption.
    + assert (Hkek : ke <> k) by (intros ->; tauto).
      destruct (aget ke (cache s)) as [ve|] eqn:Eve; [|apply aget_None in Eve; tauto].
      unfold evict_apply in *. st_simpl. rewrite Eve in *.
      destruct (zmem ke (dirty s)) eqn:Ed.
      * apply zmem_In in Ed. split; [apply aset_keys_spec; exact Hb|]. split; [exact Hg'|].
        split; [apply aget_aset_other; congruence|]. split.
        { rewrite In_remove1_neq by congruence. tauto. }
        split.
        -- intros k' Hn. rewrite <- Hl. unfold lval. st_simpl. rewrite aget_aset_other by exact Hn.
           destruct (Z.eq_dec k' ke) as [->|Hne].
           ++ rewrite aget_adel_same by exact Hc. rewrite aget_aset_same, Eve. reflexivity.
           ++ rewrite aget_adel_other by exact Hne. rewrite (aget_aset_other ke k') by exact Hne. reflexivity.
        -- intros k' v' Hn Hg Hnd. rewrite aget_aset_other in Hg by exact Hn.
           destruct (Z.eq_dec k' ke) as [->|Hne]; [rewrite aget_adel_same in Hg by exact Hc; discriminate|].
           rewrite aget_adel_other in Hg by exact Hne. rewrite aget_aset_other by exact Hne.
           apply Hco; [exact Hg|]. intros Hx. apply Hnd. apply In_remove1_neq; assumption.
      * apply zmem_false in Ed. split; [exact Hb|]. split; [exact Hg'|]. split; [reflexivity|]. split; [tauto|]. split.
        -- intros k' Hn. rewrite <- Hl. unfold lval. st_simpl. rewrite aget_aset_other by exact Hn.
           destruct (Z.eq_dec k' ke) as [->|Hne].
           ++ rewrite aget_adel_same by exact Hc. rewrite Eve. apply Hco; assumption.
           ++ rewrite aget_adel_other by exact Hne. reflexivity.
        -- intros k' v' Hn Hg Hnd. rewrite aget_aset_other in Hg by exact Hn.
           destruct (Z.eq_dec k' ke) as [->|Hne]; [rewrite aget_adel_same in Hg by exact Hc; discriminate|].
           rewrite aget_adel_other in Hg by exact Hne. apply Hco; assumption.
Qed.

Fixpoint reads_ok (r : Z -> option Z) (l : list (list Z * list (list Z) * op))
  (outs : list (option (option Z))) : Prop :=
  match l, outs with
  | [], [] => True
  | x :: l', v :: outs' =>
      (match snd x with OGet k => v = Some (r k) | _ => v <> None end) /\
      reads_ok (ref_upd r (snd x)) l' outs'
  | _, _ => False
  end.

Lemma complete_ret fuel nows s v dr : complete P c fuel nows (s, RRet v, dr) = (s, Some v).
Proof. destruct fuel; reflexivity. Qed.

Lemma complete_yield f nows s d k dr :
  complete P c (S f) nows (s, RYield d k, dr) =
  complete P c f (snd (next_now nows)) (resume P c (fst (next_now nows)) dr s k).
Proof. reflexivity. Qed.

Lemma flush_complete order : forall s n nows dr fuel r, sinv r s -> (length order < fuel)%nat ->
  exists s' m, complete P c fuel nows (s, flush_next c s order n, dr) = (s', Some (Some m)) /\ sinv r s'.
Proof.
  induction order as [|k rest IH]; intros s n nows dr fuel r Hs Hf; cbn [flush_next].
  - rewrite complete_ret. eauto.
  - destruct (aget k (cache s)) as [v|] eqn:E.
    + destruct fuel as [|f]; [cbn in Hf; lia|]. rewrite complete_yield. cbn [resume].
      apply IH; [|cbn in Hf; lia].
      destruct Hs as (Hcv & Hb & Hco & Hl).
      pose proof (resume_inv P H c Hcap (fst (next_now nows)) dr s (KFlush k v rest n) Hcv) as Hcv'.
      cbn [resume fst] in Hcv'. split; [exact Hcv'|]. st_simpl. split; [apply aset_keys_spec; exact Hb|]. split.
      * intros k' v' Hg Hnd. st_simpl. destruct (Z.eq_dec k' k) as [->|Hne].
        -- rewrite aget_aset_same. congruence.
        -- rewrite aget_aset_other by exact Hne. apply Hco; [exact Hg|].
           intros Hx. apply Hnd. apply In_remove1_neq; assumption.
      * intros k'. rewrite <- Hl. unfold lval. st_simpl. destruct (Z.eq_dec k' k) as [->|Hne].
        -- rewrite E. reflexivity.
        -- rewrite aget_aset_other by exact Hne. reflexivity.
    + apply IH; [exact Hs|cbn in Hf; lia].
Qed.

Lemma upd_same r k v : upd r k v k = v.
Proof. unfold upd. rewrite Z.eqb_refl. reflexivity. Qed.
Lemma upd_other r k v k' : k' <> k -> upd r k v k' = r k'.
Proof. intros Hn. unfold upd. destruct (k' =? k) eqn:E; [apply Z.eqb_eq in E; congruence|reflexivity]. Qed.

Lemma run_op_seq r s x : sinv r s -> op_safe (snd x) ->
  sinv (ref_upd r (snd x)) (fst (run_op P c s x)) /\
  match snd x with OGet k => snd (run_op P c s x) = Some (r k) | _ => snd (run_op P c s x) <> None end.
Proof.
  destruct x as [[nows dr] o]. cbn [snd]. intros Hs Hsafe. unfold run_op.
  pose proof Hs as (Hcv & Hb & Hco & Hl). pose proof Hcv as [(Hp & Hc & Hk & Hdd & Hsub & Hw) Hle].
  set (now0 := fst (next_now nows)). set (nows1 := snd (next_now nows)).
  destruct o as [k|k v|k|k| |order]; cbn [op_fuel ref_upd].
  - (* get *)
    cbn [start]. destruct (aget k (cache s)) as [v|] eqn:E.
    + rewrite complete_yield. cbn [resume]. rewrite complete_ret. cbn [fst snd]. split.
      * pose proof (start_inv P H c Hcap now0 dr s (OGet k) Hcv) as Hcv'. cbn [start] in Hcv'. rewrite E in Hcv'.
        cbn [fst] in Hcv'. split; [exact Hcv'|]. split; [exact Hb|]. split; [exact Hco|exact Hl].
      * rewrite <- Hl. unfold lval. rewrite E. reflexivity.
    + rewrite complete_yield. cbn [resume]. st_simpl.
      assert (Hsb : sinv r (bump s 1 0 0 1)) by exact Hs.
      destruct (aget k (back s)) as [v|] eqn:Eb.
      * pose proof (cache_put_seq (fst (next_now nows1)) dr k v _ r Hsb) as (Hi' & Hb' & Hg' & Hbk & Hdk & Hlo & Hcoo).
        unfold bump in *. st_simpl.
        destruct (cache_put P c (fst (next_now nows1)) dr k v _) as [s1 dr1]. cbn [fst] in *.
        rewrite complete_ret. cbn [fst snd]. split.
        -- split; [exact Hi'|]. split; [exact Hb'|]. split.
           ++ intros k' v' Hg Hnd; st_simpl. destruct (Z.eq_dec k' k) as [->|Hne]; [|apply Hcoo; assumption].
              rewrite Hbk, Eb. congruence.
           ++ intros k'. destruct (Z.eq_dec k' k) as [->|Hne]; [|apply Hlo; exact Hne].
              unfold lval. rewrite Hg'. rewrite <- Hl. unfold lval. rewrite E, Eb. reflexivity.
        -- rewrite <- Hl. unfold lval. rewrite E, Eb. reflexivity.
      * rewrite complete_ret. cbn [fst snd]. split; [exact Hs|].
        rewrite <- Hl. unfold lval. rewrite E, Eb. reflexivity.
  - (* put *)
    cbn [start].
    assert (Hsb : sinv r (bump s 0 1 0 0)) by exact Hs.
    pose proof (cache_put_seq now0 dr k v _ r Hsb) as (Hi' & Hb' & Hg' & Hbk & Hdk & Hlo & Hcoo).
    pose proof (start_inv P H c Hcap now0 dr s (OPut k v) Hcv) as Hst. cbn [start] in Hst.
    destruct (cache_put P c now0 dr k v (bump s 0 1 0 0)) as [s1 dr1]. cbn [fst] in *.
    destruct (wt c) eqn:Ew.
    + rewrite complete_yield. cbn [resume]. rewrite complete_ret. cbn [fst snd]. split; [|discriminate].
      split; [exact Hi'|]. st_simpl. split; [apply aset_keys_spec; exact Hb'|]. split.
      * intros k' v' Hg Hnd; st_simpl. destruct (Z.eq_dec k' k) as [->|Hne].
        -- rewrite aget_aset_same. congruence.
        -- rewrite aget_aset_other by exact Hne. apply Hcoo; assumption.
      * intros k'. destruct (Z.eq_dec k' k) as [->|Hne].
        -- rewrite upd_same. unfold lval. st_simpl. rewrite Hg'. reflexivity.
        -- rewrite upd_other by exact Hne. rewrite <- (Hlo k' Hne). unfold lval. st_simpl.
           rewrite aget_aset_other by exact Hne. reflexivity.
    + rewrite complete_yield. cbn [resume]. rewrite complete_ret. cbn [fst snd] in *. split; [|discriminate].
      split; [exact Hst|]. st_simpl. split; [exact Hb'|]. split.
      * intros k' v' Hg Hnd; st_simpl. destruct (Z.eq_dec k' k) as [->|Hne].
        -- exfalso. apply Hnd. apply In_add_end. auto.
        -- apply Hcoo; try assumption. intros Hx. apply Hnd. apply In_add_end. auto.
      * intros k'. destruct (Z.eq_dec k' k) as [->|Hne].
        -- rewrite upd_same. unfold lval. st_simpl. rewrite Hg'. reflexivity.
        -- rewrite upd_other by exact Hne. rewrite <- (Hlo k' Hne). reflexivity.
  - (* delete *)
    cbn [start]. rewrite complete_yield. cbn [resume]. rewrite complete_ret. cbn [fst snd]. split; [|discriminate].
    pose proof (start_inv P H c Hcap now0 dr s (ODel k) Hcv) as Hst. cbn [start fst] in Hst.
    destruct (amem k (cache s)) eqn:E.
    + split; [exact Hst|]. st_simpl. split; [apply adel_keys_spec; exact Hb|]. split.
      * intros k' v' Hg Hnd; st_simpl. destruct (Z.eq_dec k' k) as [->|Hne]; [rewrite aget_adel_same in Hg by exact Hc; discriminate|].
        rewrite aget_adel_other in Hg by exact Hne. rewrite aget_adel_other by exact Hne.
        apply Hco; [exact Hg|]. intros Hx. apply Hnd. apply In_remove1_neq; assumption.
      * intros k'. unfold lval. st_simpl. destruct (Z.eq_dec k' k) as [->|Hne].
        -- rewrite upd_same. rewrite aget_adel_same by exact Hc. apply aget_adel_same. exact Hb.
        -- rewrite upd_other by exact Hne. rewrite !aget_adel_other by exact Hne. apply Hl.
    + split; [exact Hst|]. st_simpl. split; [apply adel_keys_spec; exact Hb|].
      assert (Ek : aget k (cache s) = None) by (unfold amem in E; destruct (aget k (cache s)); [discriminate|reflexivity]).
      split.
      * intros k' v' Hg Hnd; st_simpl. destruct (Z.eq_dec k' k) as [->|Hne]; [congruence|].
        rewrite aget_adel_other by exact Hne. apply Hco; assumption.
      * intros k'. unfold lval. st_simpl. destruct (Z.eq_dec k' k) as [->|Hne].
        -- rewrite upd_same. rewrite Ek. apply aget_adel_same. exact Hb.
        -- rewrite upd_other by exact Hne. rewrite aget_adel_other by exact Hne. apply Hl.
  - (* invalidate: write-through only *)
    destruct Hsafe as [Hwt|[]]. specialize (Hw Hwt).
    cbn [start]. rewrite complete_ret. cbn [fst snd]. split; [|discriminate].
    pose proof (start_inv P H c Hcap now0 dr s (OInv k) Hcv) as Hst. cbn [start fst] in Hst.
    destruct (amem k (cache s)) eqn:E; [|exact Hs].
    split; [exact Hst|]. st_simpl. split; [exact Hb|]. split.
    + intros k' v' Hg Hnd; st_simpl. destruct (Z.eq_dec k' k) as [->|Hne]; [rewrite aget_adel_same in Hg by exact Hc; discriminate|].
      rewrite aget_adel_other in Hg by exact Hne. apply Hco; [exact Hg|]. rewrite Hw. tauto.
    + intros k'. rewrite <- Hl. unfold lval. st_simpl. destruct (Z.eq_dec k' k) as [->|Hne].
      * rewrite aget_adel_same by exact Hc. destruct (aget k (cache s)) as [v|] eqn:Ek; [|reflexivity].
        apply Hco; [exact Ek|]. rewrite Hw. tauto.
      * rewrite aget_adel_other by exact Hne. reflexivity.
  - (* invalidate_all: write-through only *)
    destruct Hsafe as [Hwt|[]]. specialize (Hw Hwt).
    cbn [start]. rewrite complete_ret. cbn [fst snd]. split; [|discriminate].
    pose proof (start_inv P H c Hcap now0 dr s OInvAll Hcv) as Hst. cbn [start fst] in Hst.
    split; [exact Hst|]. st_simpl. split; [exact Hb|]. split.
    + intros k' v' Hg. cbn in Hg. discriminate.
    + intros k'. rewrite <- Hl. unfold lval. st_simpl. cbn [aget].
      destruct (aget k' (cache s)) as [v|] eqn:Ek; [|reflexivity].
      apply Hco; [exact Ek|]. rewrite Hw. tauto.
  - (* flush *)
    cbn [start].
    destruct (flush_complete order s 0 nows1 dr (S (length order)) r Hs ltac:(lia)) as (s' & m & Heq & Hs').
    rewrite Heq. cbn [fst snd]. split; [exact Hs'|discriminate].
Qed.

Theorem sequential_reads l : forall r s, sinv r s -> Forall (fun x => op_safe (snd x)) l ->
  reads_ok r l (snd (run_seq P c s l)).
Proof.
  induction l as [|x l IH]; intros r s Hs Hf; cbn [run_seq]; [exact I|].
  inversion Hf as [|? ? Hx Hf']; subst.
  pose proof (run_op_seq r s x Hs Hx) as [Hs' Hv].
  destruct (run_op P c s x) as [s1 v]. cbn [fst snd] in *.
  specialize (IH _ _ Hs' Hf'). destruct (run_seq P c s1 l) as [s2 vs]. cbn [snd reads_ok] in *.
  split; [exact Hv|exact IH].
Qed.

Lemma sinv_init b0 : NoDup (akeys b0) -> sinv (fun k => aget k b0) (cinit P b0).
Proof.
  intros Hb. split; [apply cinv_init; exact Hcap|]. split; [exact Hb|]. split.
  - intros k v Hg. cbn in Hg. discriminate.
  - intros k. reflexivity.
Qed.

End Seq.

(** * Top-level statements (all nine policies) *)

(** Write-back data survives every segment, except an explicit put / delete /
    invalidate of that key and the two recorded races. *)
Theorem writeback_preserved_partial : forall kind c b0 ins i k v, 1 <= cap c ->
  let P := pol_of kind in
  let y := srun P c (sinit P b0) ins in
  In k (dirty (st y)) -> aget k (cache (st y)) = Some v ->
  (match i_act i with
   | IStart _ o => touches k o = false
   | IResume id => match pfind id (pending y) with
                   | Some kc => cont_touches k v kc = false
                   | None => True
                   end
   end) ->
  let y' := fst (sstep P c y i) in
  (In k (dirty (st y')) /\ aget k (cache (st y')) = Some v) \/ aget k (back (st y')) = Some v.
Proof.
  intros kind c b0 ins i k v Hcap P y Hd Hg Ht.
  pose proof (srun_inv P (all_policies_ok kind) c Hcap ins (sinit P b0)
                (cinv_init P (all_policies_ok kind) c Hcap b0)) as Hy.
  fold y in Hy. unfold sysinv in Hy. cbn zeta. unfold sstep, sstep_full.
  destruct (i_act i) as [id o|id].
  - pose proof (start_keeps_dirty P (all_policies_ok kind) c Hcap (i_now i) (i_draws i) (st y) o k v Hy Hd Hg Ht) as Hk.
    destruct (start P c (i_now i) (i_draws i) (st y) o) as [[s r] lft]. cbn [fst] in Hk.
    unfold settle. destruct r; cbn [fst st]; exact Hk.
  - destruct (pfind id (pending y)) as [kc|]; [|cbn [fst]; left; split; assumption].
    pose proof (resume_keeps_dirty P (all_policies_ok kind) c Hcap (i_now i) (i_draws i) (st y) kc k v Hy Hd Hg Ht) as Hk.
    destruct (resume P c (i_now i) (i_draws i) (st y) kc) as [[s r] lft]. cbn [fst] in Hk.
    unfold settle. destruct r; cbn [fst st]; exact Hk.
Qed.

(** Non-overlapping operations: every get returns the value of the last
    put (None after a delete), in both write modes, for every policy, any
    capacity >= 1, any oracle inputs; no operation runs out of fuel. *)
Theorem sequential_read_after_write : forall kind c b0 l, 1 <= cap c -> NoDup (akeys b0) ->
  Forall (fun x => op_safe c (snd x)) l ->
  reads_ok (fun k => aget k b0) l (snd (run_seq (pol_of kind) c (cinit (pol_of kind) b0) l)).
Proof.
  intros kind c b0 l Hcap Hb Hf.
  apply (sequential_reads (pol_of kind) (all_policies_ok kind) c Hcap l _ _
           (sinv_init (pol_of kind) (all_policies_ok kind) c Hcap b0 Hb) Hf).
Qed.

Example sequential_hypotheses_satisfiable :
  let l := [([0], [], OPut 0 7); ([1], [], OPut 1 8); ([2], [], OGet 0); ([3], [], OFlush [1]); ([4], [], OGet 1)] in
  Forall (fun x => op_safe {| cap := 1; wt := false; lat_c := 1; lat_r := 2; lat_w := 3; lat_d := 4 |} (snd x)) l /\
  snd (run_seq lru {| cap := 1; wt := false; lat_c := 1; lat_r := 2; lat_w := 3; lat_d := 4 |} (cinit lru []) l)
  = [Some None; Some None; Some (Some 7); Some (Some 0); Some (Some 8)].
Proof. cbn zeta. split; [repeat (apply Forall_cons; [right; exact I|]); apply Forall_nil|vm_compute; reflexivity]. Qed.

(** Without the restriction on invalidations the sequential statement is
    FALSE in write-back mode (known finding C16-invalidate-dirty). *)
Definition wb_sequential_statement : Prop :=
  forall kind c b0 l, 1 <= cap c -> NoDup (akeys b0) ->
  reads_ok (fun k => aget k b0) l (snd (run_seq (pol_of kind) c (cinit (pol_of kind) b0) l)).

Theorem invalidate_dirty_refuted : ~ wb_sequential_statement.
Proof.
  intros Hs.
  specialize (Hs KFifo {| cap := 2; wt := false; lat_c := 1; lat_r := 10; lat_w := 5; lat_d := 5 |} []
                 [([0], [], OPut 0 1); ([20], [], OInv 0); ([40], [], OGet 0)] ltac:(cbn; lia) ltac:(constructor)).
  vm_compute in Hs. destruct Hs as (_ & _ & Hs & _). discriminate.
Qed.
