(** C16 — executable model of happysimulator/components/infrastructure/page_cache.py
    (PageCache: LRU OrderedDict of pages with a dirty flag).  Definitions only.
    [flush] iterates over the live OrderedDict; the model follows the key order
    captured when flush starts, which is exact as long as no other page-cache
    operation overlaps the flush (the only situation the tie exercises). *)
From HS Require Import Base.Prelude C16.Model.
Local Open Scope Z_scope.

Record pcfg := { pcap : Z; pra : Z; plat_r : Z; plat_w : Z }.

Record pst := {
  pages : cmap;                 (* _pages: page_id -> dirty, LRU first *)
  p_hits : Z; p_misses : Z; p_evict : Z; p_wb : Z; p_ra : Z;
  perr : bool;                  (* an exception (KeyError in _evict_one) escaped an operation *)
}.

Definition pinit : pst :=
  {| pages := []; p_hits := 0; p_misses := 0; p_evict := 0; p_wb := 0; p_ra := 0; perr := false |}.

Definition pupd (s : pst) (m : cmap) (d : list Z) (e : bool) : pst :=
  {| pages := m; p_hits := p_hits s + nth 0 d 0; p_misses := p_misses s + nth 1 d 0;
     p_evict := p_evict s + nth 2 d 0; p_wb := p_wb s + nth 3 d 0; p_ra := p_ra s + nth 4 d 0;
     perr := perr s || e |}.

Fixpoint cfind (k : Z) (m : cmap) : option bool :=
  match m with [] => None | (k', b) :: r => if k' =? k then Some b else cfind k r end.

(** [self._pages[p] = _CachedPage(p, dirty=d)] *)
Definition pins (p : Z) (d : bool) (m : cmap) : cmap :=
  if cmem p m then cset p d m else m ++ [(p, d)].

(** [move_to_end(p)] keeping the page object *)
Definition ptouch (p : Z) (d : bool) (m : cmap) : cmap := cdel p m ++ [(p, d)].

Inductive pop_c := PRead (p : Z) | PWrite (p : Z) | PFlush.

(** what follows [_ensure_space()] in the caller *)
Inductive after := ALoad (p i : Z) | AWrite (p : Z).

Inductive pcont :=
| PKEvict (victim : Z) (a : after)       (* write-back latency of a dirty victim in flight *)
| PKLoad (p i : Z)                       (* disk read of page p+i in flight (i = 0: the page itself) *)
| PKFlush (k : Z) (rest : list Z) (n : Z).

Inductive pres := PYield (d : Z) (k : pcont) | PRet (r : option Z) | PRaise.

(** the read-ahead loop [for i in range(i, readahead+1)] *)
Fixpoint pahead (fuel : nat) (c : pcfg) (s : pst) (p i : Z) : pst * pres :=
  match fuel with
  | O => (s, PRet None)
  | S f =>
      if i >? pra c then (s, PRet None)
      else if negb (cmem (p + i) (pages s)) && (zlen (pages s) <? pcap c)
           then (s, PYield (plat_r c) (PKLoad p i))
           else pahead f c s p (i + 1)
  end.

Definition pafter (c : pcfg) (s : pst) (a : after) : pst * pres :=
  match a with
  | ALoad p i => (s, PYield (plat_r c) (PKLoad p i))
  | AWrite p => (pupd s (pins p true (pages s)) [] false, PRet None)
  end.

(** [_ensure_space()] then the caller's continuation *)
Fixpoint pensure (fuel : nat) (c : pcfg) (s : pst) (a : after) : pst * pres :=
  match fuel with
  | O => pafter c s a
  | S f =>
      if zlen (pages s) >=? pcap c then
        match pages s with
        | [] => pafter c s a
        | (v, true) :: _ => (s, PYield (plat_w c) (PKEvict v a))
        | (v, false) :: r => pensure f c (pupd s r [0; 0; 1] false) a
        end
      else pafter c s a
  end.

Fixpoint next_dirty (s : pst) (l : list Z) : option (Z * list Z) :=
  match l with
  | [] => None
  | k :: r => match cfind k (pages s) with
              | Some true => Some (k, r)
              | _ => next_dirty s r
              end
  end.

Definition pflush_next (c : pcfg) (s : pst) (l : list Z) (n : Z) : pst * pres :=
  match next_dirty s l with
  | Some (k, r) => (s, PYield (plat_w c) (PKFlush k r n))
  | None => (s, PRet (Some n))
  end.

Definition pstart (c : pcfg) (s : pst) (o : pop_c) : pst * pres :=
  match o with
  | PRead p =>
      match cfind p (pages s) with
      | Some d => (pupd s (ptouch p d (pages s)) [1] false, PRet None)
      | None => let s1 := pupd s (pages s) [0; 1] false in
                pensure (S (length (pages s))) c s1 (ALoad p 0)
      end
  | PWrite p =>
      match cfind p (pages s) with
      | Some _ => (pupd s (ptouch p true (pages s)) [1] false, PRet None)
      | None => let s1 := pupd s (pages s) [0; 1] false in
                pensure (S (length (pages s))) c s1 (AWrite p)
      end
  | PFlush => pflush_next c s (ckeys (pages s)) 0
  end.

Definition presume (c : pcfg) (s : pst) (k : pcont) : pst * pres :=
  match k with
  | PKEvict v a =>
      if cmem v (pages s)
      then pensure (S (length (pages s))) c (pupd s (cdel v (pages s)) [0; 0; 1; 1] false) a
      else (pupd s (pages s) [0; 0; 0; 1] true, PRaise)        (* del self._pages[v]: KeyError *)
  | PKLoad p i =>
      let s1 := pupd s (pins (p + i) false (pages s)) (if i =? 0 then [] else [0; 0; 0; 0; 1]) false in
      pahead (Z.to_nat (pra c - i + 1)) c s1 p (i + 1)
  | PKFlush key rest n =>
      let s1 := pupd s (cset key false (pages s)) [0; 0; 0; 1] false in
      pflush_next c s1 rest (n + 1)
  end.

Inductive pact := PStart (id : Z) (o : pop_c) | PResume (id : Z).
Record psys := { pstt : pst; ppending : list (Z * pcont) }.

Fixpoint ppfind (id : Z) (l : list (Z * pcont)) : option pcont :=
  match l with [] => None | (i, k) :: r => if i =? id then Some k else ppfind id r end.
Fixpoint ppdel (id : Z) (l : list (Z * pcont)) : list (Z * pcont) :=
  match l with [] => [] | (i, k) :: r => if i =? id then r else (i, k) :: ppdel id r end.

(** observable result: yielded delay, return, or an escaping exception (-1). *)
Definition psettle (id : Z) (pend : list (Z * pcont)) (x : pst * pres) : psys * out :=
  let '(s, r) := x in
  match r with
  | PYield d k => ({| pstt := s; ppending := pend ++ [(id, k)] |}, OYield d)
  | PRet v => ({| pstt := s; ppending := pend |}, ORet v)
  | PRaise => ({| pstt := s; ppending := pend |}, ONone)
  end.

Definition pstep (c : pcfg) (y : psys) (a : pact) : psys * out :=
  match a with
  | PStart id o => psettle id (ppending y) (pstart c (pstt y) o)
  | PResume id =>
      match ppfind id (ppending y) with
      | Some k => psettle id (ppdel id (ppending y)) (presume c (pstt y) k)
      | None => (y, ONone)
      end
  end.

Fixpoint prun (c : pcfg) (y : psys) (l : list pact) : psys :=
  match l with [] => y | a :: r => prun c (fst (pstep c y a)) r end.

Definition psinit : psys := {| pstt := pinit; ppending := [] |}.

(** ** comparison with the implementation: page ids, dirty flags, five counters *)
Definition pobs := (list Z * list Z * list Z)%type.
Definition pstate_ok (s : pst) (o : pobs) : bool :=
  let '(ok_, od, ostats) := o in
  zlist_eqb ok_ (ckeys (pages s)) && zlist_eqb od (map (fun p : Z * bool => if snd p then 1 else 0) (pages s))
  && zlist_eqb ostats [p_hits s; p_misses s; p_evict s; p_wb s; p_ra s].

Fixpoint ok_pc_from (c : pcfg) (y : psys) (tr : list (pact * out * pobs)) : bool :=
  match tr with
  | [] => true
  | (a, o, os) :: rest =>
      let '(y', o') := pstep c y a in
      out_eqb o o' && pstate_ok (pstt y') os && ok_pc_from c y' rest
  end.

Definition pc_case := (pcfg * list (pact * out * pobs))%type.
Definition ok_pc (x : pc_case) : bool := ok_pc_from (fst x) psinit (snd x).
