(** C16 — CachedStore: structural invariant over every interleaving of
    operation segments (capacity, policy keys = cached keys, dirty keys are
    cached), for every policy satisfying [policy_ok]. *)
From HS Require Import Base.Prelude C16.Model C16.Lists C16.Policies.
Local Open Scope Z_scope.

Lemma zlen_adel k m : In k (akeys m) -> zlen (adel k m) = zlen m - 1.
Proof.
  unfold zlen, akeys. induction m as [|[k' v'] m IH]; cbn [map fst adel In length]; [tauto|].
  destruct (k' =? k) eqn:E; [lia|]. apply Z.eqb_neq in E. intros [Hc|Hi]; [congruence|].
  specialize (IH Hi). cbn [length]. lia.
Qed.

Lemma zlen_adel_le k m : zlen (adel k m) <= zlen m.
Proof.
  unfold zlen. induction m as [|[k' v'] m IH]; cbn [adel length]; [lia|].
  destruct (k' =? k); cbn [length]; lia.
Qed.

Lemma zlen_aset k v m : zlen (aset k v m) = if amem k m then zlen m else zlen m + 1.
Proof.
  unfold zlen, amem. induction m as [|[k' v'] m IH]; cbn [aset aget length]; [lia|].
  destruct (k' =? k) eqn:E; cbn [length]; [lia|].
  destruct (aget k m); lia.
Qed.

Lemma akeys_nil_zlen m : akeys m = [] -> zlen m = 0.
Proof. destruct m; cbn; [reflexivity|discriminate]. Qed.

Ltac st_simpl :=
  unfold with_back, with_pol, with_dirty, bump, cache_remove in *;
  cbn [cache dirty pol back n_reads n_writes n_hits n_misses n_evict n_wb fst snd] in *.

Section Store.
Variable P : policy.
Variable H : policy_ok P.
Variable c : cfg.
Hypothesis Hcap : 1 <= cap c.

Definition cinv0 (s : cst P) : Prop :=
  p_inv P H (pol s) /\ NoDup (akeys (cache s)) /\
  (forall x, In x (p_keys P (pol s)) <-> In x (akeys (cache s))) /\
  NoDup (dirty s) /\ (forall x, In x (dirty s) -> In x (akeys (cache s))) /\
  (wt c = true -> dirty s = []).

Definition cinv (s : cst P) : Prop := cinv0 s /\ zlen (cache s) <= cap c.

Lemma cinv_init b0 : cinv (cinit P b0).
Proof.
  destruct (ok_init P H) as [Hi Hk]. unfold cinv, cinv0, cinit. cbn.
  rewrite Hk. repeat split; auto; try constructor; try tauto. lia.
Qed.

Lemma evict_apply_inv s k pol' : cinv0 s -> In k (p_keys P (pol s)) -> p_inv P H pol' ->
  (forall x, In x (p_keys P pol') <-> In x (p_keys P (pol s)) /\ x <> k) ->
  cinv0 (evict_apply s k pol') /\ zlen (cache (evict_apply s k pol')) = zlen (cache s) - 1.
Proof.
  intros (Hp & Hc & Hk & Hd & Hs & Hw) Hin Hp' Hk'. unfold evict_apply. st_simpl. split.
  - unfold cinv0. st_simpl. rewrite akeys_adel. repeat split.
    + exact Hp'.
    + apply NoDup_remove1; exact Hc.
    + intros Hx. apply In_remove1_iff; [exact Hc|]. apply Hk' in Hx. rewrite <- Hk. exact Hx.
    + intros Hx. apply In_remove1_iff in Hx; [|exact Hc]. apply Hk'. rewrite Hk. exact Hx.
    + destruct (zmem k (dirty s)); [apply NoDup_remove1|]; exact Hd.
    + intros x Hx. apply In_remove1_iff; [exact Hc|].
      destruct (zmem k (dirty s)) eqn:E.
      * apply In_remove1_iff in Hx; [|exact Hd]. split; [apply Hs|]; tauto.
      * apply zmem_false in E. split; [apply Hs; exact Hx|]. intros ->. tauto.
    + intros Hwt. rewrite (Hw Hwt). reflexivity.
  - apply zlen_adel. apply Hk. exact Hin.
Qed.

(** The eviction loop evicts at most once, and leaves room for one entry. *)
Lemma evict_loop_spec f now dr s : cinv s ->
  (zlen (cache s) < cap c /\ evict_loop P (S f) c now dr s = (s, dr)) \/
  (exists k pol' dr', p_evict P now dr (pol s) = (Some k, pol', dr') /\ In k (akeys (cache s)) /\
     evict_loop P (S f) c now dr s = (evict_apply s k pol', dr') /\
     cinv0 (evict_apply s k pol') /\ zlen (cache (evict_apply s k pol')) < cap c).
Proof.
  intros [Hi Hl]. cbn [evict_loop]. destruct (zlen (cache s) >=? cap c) eqn:E; [|left; split; [lia|reflexivity]].
  right. pose proof Hi as (Hp & Hc & Hk & Hd & Hs & Hw).
  pose proof (ok_evict P H now dr (pol s) Hp) as He.
  destruct (p_evict P now dr (pol s)) as [[[k|] pol'] dr'].
  - destruct He as (Hin & Hp' & Hk').
    destruct (evict_apply_inv s k pol' Hi Hin Hp' Hk') as [Hi' Hl'].
    exists k, pol', dr'. split; [reflexivity|]. split; [apply Hk; exact Hin|].
    split; [|split; [exact Hi'|lia]].
    destruct f as [|f]; cbn [evict_loop]; [reflexivity|].
    destruct (zlen (cache (evict_apply s k pol')) >=? cap c) eqn:E2; [lia|reflexivity].
  - destruct He as [He _]. exfalso.
    assert (Hn : akeys (cache s) = []).
    { destruct (akeys (cache s)) as [|y l] eqn:Ek; [reflexivity|].
      assert (Hy : In y (p_keys P (pol s))) by (apply Hk; left; reflexivity). rewrite He in Hy. destruct Hy. }
    apply akeys_nil_zlen in Hn. lia.
Qed.

Lemma cache_put_spec now dr k v s : cinv s ->
  let s' := fst (cache_put P c now dr k v s) in
  cinv s' /\ aget k (cache s') = Some v /\
  (forall x, In x (dirty s') -> In x (dirty s)) /\
  (forall k', k' <> k -> aget k' (cache s') = aget k' (cache s) \/ aget k' (cache s') = None).
Proof.
  intros Hcv. pose proof Hcv as [(Hp & Hc & Hk & Hd & Hs & Hw) Hl]. unfold cache_put.
  destruct (amem k (cache s)) eqn:E.
  - cbn [fst]. apply amem_In in E. destruct (ok_access P H k (pol s) Hp) as [Hp' Hk'].
    assert (Hks : akeys (aset k v (cache s)) = akeys (cache s)).
    { rewrite akeys_aset. unfold add_end. apply zmem_In in E. rewrite E. reflexivity. }
    split; [|split; [|split]].
    + unfold cinv, cinv0. st_simpl. rewrite Hks. repeat split; auto.
      * intros Hx. apply Hk, Hk'. exact Hx.
      * intros Hx. apply Hk', Hk. exact Hx.
      * rewrite zlen_aset. apply amem_In in E. rewrite E. exact Hl.
    + st_simpl. apply aget_aset_same.
    + st_simpl. auto.
    + intros k' Hn. st_simpl. left. apply aget_aset_other. exact Hn.
  - apply amem_false in E.
    destruct (evict_loop_spec (length (p_keys P (pol s))) now dr s Hcv) as [[Hlt Heq]|(ke & pol' & dr' & Hev & Hin & Heq & Hi1 & Hlt)];
      rewrite Heq; cbn [fst].
    + assert (Hnk : ~ In k (p_keys P (pol s))) by (rewrite Hk; exact E).
      destruct (ok_insert P H now k (pol s) Hp Hnk) as [Hp' Hk'].
      split; [|split; [|split]].
      * unfold cinv, cinv0. st_simpl. rewrite akeys_aset. repeat split; auto.
        -- apply NoDup_add_end; exact Hc.
        -- intros Hx. apply In_add_end. apply Hk' in Hx. rewrite <- Hk. exact Hx.
        -- intros Hx. apply In_add_end in Hx. apply Hk'. rewrite Hk. exact Hx.
        -- intros x Hx. apply In_add_end. right. apply Hs. exact Hx.
        -- rewrite zlen_aset. destruct (amem k (cache s)); lia.
      * st_simpl. apply aget_aset_same.
      * st_simpl. auto.
      * intros k' Hn. st_simpl. left. apply aget_aset_other. exact Hn.
    + set (s1 := evict_apply s ke pol') in *. pose proof Hi1 as (Hp1 & Hc1 & Hk1 & Hd1 & Hs1 & Hw1).
      assert (Hsub : forall x, In x (akeys (cache s1)) -> In x (akeys (cache s))).
      { intros x. subst s1. unfold evict_apply. st_simpl. rewrite akeys_adel. apply In_remove1. }
      assert (Hnk : ~ In k (p_keys P (pol s1))) by (rewrite Hk1; intros Hx; apply E, Hsub; exact Hx).
      destruct (ok_insert P H now k (pol s1) Hp1 Hnk) as [Hp' Hk'].
      split; [|split; [|split]].
      * unfold cinv, cinv0. st_simpl. rewrite akeys_aset. repeat split; auto.
        -- apply NoDup_add_end; exact Hc1.
        -- intros Hx. apply In_add_end. apply Hk' in Hx. rewrite <- Hk1. exact Hx.
        -- intros Hx. apply In_add_end in Hx. apply Hk'. rewrite Hk1. exact Hx.
        -- intros x Hx. apply In_add_end. right. apply Hs1. exact Hx.
        -- rewrite zlen_aset. destruct (amem k (cache s1)); lia.
      * st_simpl. apply aget_aset_same.
      * st_simpl. subst s1. unfold evict_apply. st_simpl. intros x.
        destruct (zmem ke (dirty s)); [apply In_remove1|auto].
      * intros k' Hn. st_simpl. rewrite (aget_aset_other k k' v _ Hn).
        subst s1. unfold evict_apply. st_simpl.
        destruct (Z.eq_dec k' ke) as [->|Hne]; [right; apply aget_adel_same; exact Hc|left; apply aget_adel_other; exact Hne].
Qed.

Lemma cache_put_inv now dr k v s : cinv s -> cinv (fst (cache_put P c now dr k v s)).
Proof. intros Hs. apply (cache_put_spec now dr k v s Hs). Qed.

Lemma cache_remove_inv k s : cinv s -> cinv (cache_remove P k s).
Proof.
  intros [(Hp & Hc & Hk & Hd & Hs & Hw) Hl]. destruct (ok_remove P H k (pol s) Hp) as [Hp' Hk'].
  unfold cinv, cinv0. st_simpl. rewrite akeys_adel. repeat split; auto.
  - apply NoDup_remove1; exact Hc.
  - intros Hx. apply In_remove1_iff; [exact Hc|]. apply Hk' in Hx. rewrite <- Hk. exact Hx.
  - intros Hx. apply In_remove1_iff in Hx; [|exact Hc]. apply Hk'. rewrite Hk. exact Hx.
  - apply NoDup_remove1; exact Hd.
  - intros x Hx. apply In_remove1_iff in Hx; [|exact Hd]. apply In_remove1_iff; [exact Hc|].
    split; [apply Hs|]; tauto.
  - intros Hwt. rewrite (Hw Hwt). reflexivity.
  - pose proof (zlen_adel_le k (cache s)). lia.
Qed.

Lemma start_inv now dr s o : cinv s -> cinv (fst (fst (start P c now dr s o))).
Proof.
  intros Hcv. pose proof Hcv as [(Hp & Hc & Hk & Hd & Hs & Hw) Hl].
  destruct o as [k|k v|k|k| |order]; cbn [start].
  - destruct (aget k (cache s)) eqn:E; cbn [fst]; [|exact Hcv].
    destruct (ok_access P H k (pol s) Hp) as [Hp' Hk'].
    unfold cinv, cinv0. st_simpl. repeat split; auto.
    + intros Hx. apply Hk, Hk'. exact Hx.
    + intros Hx. apply Hk', Hk. exact Hx.
  - assert (Hb : cinv (bump s 0 1 0 0)) by exact Hcv.
    destruct (cache_put_spec now dr k v _ Hb) as (Hi' & Hg & Hdd & _).
    destruct (cache_put P c now dr k v (bump s 0 1 0 0)) as [s1 dr1]. cbn [fst] in *.
    destruct (wt c) eqn:Ew; cbn [fst]; [exact Hi'|].
    destruct Hi' as [(Hp1 & Hc1 & Hk1 & Hd1 & Hs1 & Hw1) Hl1].
    unfold cinv, cinv0. st_simpl.
    split; [|exact Hl1]. split; [exact Hp1|]. split; [exact Hc1|]. split; [exact Hk1|].
    split; [apply NoDup_add_end; exact Hd1|]. split.
    + intros x Hx. apply In_add_end in Hx as [->|Hx]; [eapply aget_Some_In; eauto|apply Hs1; exact Hx].
    + intros Hwt. congruence.
  - destruct (amem k (cache s)); cbn [fst]; [apply cache_remove_inv|]; exact Hcv.
  - destruct (amem k (cache s)); cbn [fst]; [apply cache_remove_inv|]; exact Hcv.
  - cbn [fst]. destruct (ok_clear P H (pol s)) as [Hp' Hk'].
    unfold cinv, cinv0. st_simpl. rewrite Hk'. cbn. repeat split; auto; try constructor; try tauto. lia.
  - cbn [fst]. exact Hcv.
Qed.

Lemma resume_inv now dr s k : cinv s -> cinv (fst (fst (resume P c now dr s k))).
Proof.
  intros Hcv. pose proof Hcv as [(Hp & Hc & Hk & Hd & Hs & Hw) Hl].
  destruct k as [v|key|key v| |key inc|key v rest n]; cbn [resume fst]; try exact Hcv.
  - destruct (aget key (back s)) eqn:E; cbn [fst]; [|exact Hcv].
    pose proof (cache_put_inv now dr key z s Hcv) as Hi.
    destruct (cache_put P c now dr key z s) as [s1 dr1]. exact Hi.
  - unfold cinv, cinv0. st_simpl.
    split; [|exact Hl]. split; [exact Hp|]. split; [exact Hc|]. split; [exact Hk|].
    split; [apply NoDup_remove1; exact Hd|]. split.
    + intros x Hx. apply In_remove1 in Hx. apply Hs. exact Hx.
    + intros Hwt. rewrite (Hw Hwt). reflexivity.
Qed.

Definition sysinv (y : sys P) : Prop := cinv (st y).

Lemma sstep_inv y i : sysinv y -> sysinv (fst (sstep P c y i)).
Proof.
  intros Hy. unfold sstep, sstep_full, sysinv in *. destruct (i_act i) as [id o|id].
  - pose proof (start_inv (i_now i) (i_draws i) (st y) o Hy) as Hs.
    destruct (start P c (i_now i) (i_draws i) (st y) o) as [[s r] lft]. cbn [fst] in Hs.
    unfold settle. destruct r; cbn [fst st]; exact Hs.
  - destruct (pfind id (pending y)) as [k|]; [|exact Hy].
    pose proof (resume_inv (i_now i) (i_draws i) (st y) k Hy) as Hs.
    destruct (resume P c (i_now i) (i_draws i) (st y) k) as [[s r] lft]. cbn [fst] in Hs.
    unfold settle. destruct r; cbn [fst st]; exact Hs.
Qed.

Lemma srun_inv ins : forall y, sysinv y -> sysinv (srun P c y ins).
Proof.
  induction ins as [|i ins IH]; intros y Hy; cbn [srun]; [exact Hy|]. apply IH, sstep_inv, Hy.
Qed.

End Store.

(** * The structural clauses of C16, for all nine policies and every interleaving *)
Theorem cache_invariant : forall kind c b0 ins, 1 <= cap c ->
  let s := st (srun (pol_of kind) c (sinit (pol_of kind) b0) ins) in
  zlen (cache s) <= cap c /\
  NoDup (akeys (cache s)) /\ NoDup (p_keys _ (pol s)) /\
  (forall x, In x (p_keys _ (pol s)) <-> In x (akeys (cache s))) /\
  length (p_keys _ (pol s)) = length (cache s) /\
  (forall x, In x (dirty s) -> In x (akeys (cache s))) /\
  (wt c = true -> dirty s = []).
Proof.
  intros kind c b0 ins Hcap s.
  pose proof (srun_inv (pol_of kind) (all_policies_ok kind) c Hcap ins (sinit _ b0)
                (cinv_init _ (all_policies_ok kind) c Hcap b0)) as [(Hp & Hc & Hk & Hd & Hs & Hw) Hl].
  fold s in Hp, Hc, Hk, Hd, Hs, Hw, Hl.
  pose proof (ok_nodup _ (all_policies_ok kind) _ Hp) as Hnd.
  repeat split; auto; try apply Hk.
  rewrite (nodup_same_length _ _ Hnd Hc Hk). unfold akeys. apply map_length.
Qed.
