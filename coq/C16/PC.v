(** C16 — PageCache: capacity holds for non-overlapping operations and is
    violated (as is write-back safety) when operations overlap. *)
From HS Require Import Base.Prelude C16.Model C16.Lists C16.Policies C16.ModelPC.
Local Open Scope Z_scope.

Lemma zlen_cset k b m : zlen (cset k b m) = zlen m.
Proof. rewrite <- zlen_ckeys, ckeys_cset, zlen_ckeys. reflexivity. Qed.

Lemma zlen_cdel_mem k m : cmem k m = true -> zlen (cdel k m) = zlen m - 1.
Proof.
  unfold cmem, zlen. intros Hm. apply zmem_In in Hm. unfold ckeys in Hm.
  induction m as [|[k' b'] m IH]; cbn [cdel length map fst In] in *; [tauto|].
  destruct (k' =? k) eqn:E; [lia|]. apply Z.eqb_neq in E. destruct Hm as [Hc|Hm]; [congruence|].
  specialize (IH Hm). cbn [length]. lia.
Qed.

Lemma zlen_pins p d m : zlen (pins p d m) <= zlen m + 1.
Proof.
  unfold pins. destruct (cmem p m); [rewrite zlen_cset; lia|]. unfold zlen. rewrite app_length. cbn. lia.
Qed.

Section PC.
Variable c : pcfg.
Hypothesis Hcap : 1 <= pcap c.

(** the state a single running operation may be suspended in *)
Definition cont_ok (s : pst) (k : pcont) : Prop :=
  match k with
  | PKEvict v _ => cmem v (pages s) = true /\ zlen (pages s) <= pcap c
  | PKLoad _ _ => zlen (pages s) < pcap c
  | PKFlush _ _ _ => zlen (pages s) <= pcap c
  end.

Definition res_ok (x : pst * pres) : Prop :=
  perr (fst x) = false /\
  match snd x with
  | PYield _ k => cont_ok (fst x) k
  | PRet _ => zlen (pages (fst x)) <= pcap c
  | PRaise => False
  end.

Lemma pafter_ok s a : perr s = false -> zlen (pages s) < pcap c -> res_ok (pafter c s a).
Proof.
  intros He Hl. destruct a as [p i|p]; cbn [pafter]; split; cbn [fst snd pupd pages perr cont_ok]; auto.
  - rewrite He. reflexivity.
  - pose proof (zlen_pins p true (pages s)). lia.
Qed.

Lemma pensure_ok fuel : forall s a, perr s = false -> zlen (pages s) <= pcap c -> (0 < fuel)%nat ->
  res_ok (pensure fuel c s a).
Proof.
  induction fuel as [|f IH]; intros s a He Hl Hf; [lia|]. cbn [pensure].
  destruct (zlen (pages s) >=? pcap c) eqn:E; [|apply pafter_ok; [exact He|lia]].
  destruct (pages s) as [|[v b] r] eqn:Ep.
  - unfold zlen in E. cbn in E. lia.
  - destruct b.
    + split; cbn [fst snd cont_ok]; [exact He|]. rewrite Ep. split; [|exact Hl].
      unfold cmem, zmem. cbn. rewrite Z.eqb_refl. reflexivity.
    + assert (Hr : zlen r = zlen (pages s) - 1) by (rewrite Ep; unfold zlen; cbn [length]; lia).
      set (s1 := pupd s r [0; 0; 1] false).
      assert (He1 : perr s1 = false) by (subst s1; cbn; rewrite He; reflexivity).
      destruct f as [|f].
      * cbn [pensure]. apply pafter_ok; [exact He1|]. subst s1. cbn [pupd pages]. rewrite <- Ep in Hl. lia.
      * cbn [pensure]. assert (El : zlen (pages s1) >=? pcap c = false).
        { subst s1. cbn [pupd pages]. rewrite <- Ep in Hl. lia. }
        rewrite El. apply pafter_ok; [exact He1|]. subst s1. cbn [pupd pages]. rewrite <- Ep in Hl. lia.
Qed.

Lemma pahead_ok fuel : forall s p i, perr s = false -> zlen (pages s) <= pcap c -> res_ok (pahead fuel c s p i).
Proof.
  induction fuel as [|f IH]; intros s p i He Hl; cbn [pahead]; [split; [exact He|exact Hl]|].
  destruct (i >? pra c); [split; [exact He|exact Hl]|].
  destruct (negb (cmem (p + i) (pages s)) && (zlen (pages s) <? pcap c)) eqn:E; [|apply IH; assumption].
  apply andb_true_iff in E as [_ E]. split; [exact He|]. cbn [snd fst cont_ok]. lia.
Qed.

Lemma pflush_next_ok s l n : perr s = false -> zlen (pages s) <= pcap c -> res_ok (pflush_next c s l n).
Proof.
  intros He Hl. unfold pflush_next. destruct (next_dirty s l) as [[k r]|]; split; cbn [fst snd cont_ok]; auto.
Qed.

Lemma pstart_ok s o : perr s = false -> zlen (pages s) <= pcap c -> res_ok (pstart c s o).
Proof.
  intros He Hl. destruct o as [p|p|]; cbn [pstart].
  - destruct (cfind p (pages s)) as [d|] eqn:E.
    + split; cbn [fst snd pupd pages perr]; [rewrite He; reflexivity|].
      unfold ptouch, zlen. rewrite app_length. cbn [length].
      assert (Hm : cmem p (pages s) = true).
      { clear -E. unfold cmem, zmem, ckeys. induction (pages s) as [|[k b] m IH]; cbn in *; [discriminate|].
        rewrite (Z.eqb_sym p k). destruct (k =? p); [reflexivity|]. cbn. apply IH. exact E. }
      pose proof (zlen_cdel_mem p (pages s) Hm) as Hd. unfold zlen in *. lia.
    + apply pensure_ok; [cbn; rewrite He; reflexivity|exact Hl|lia].
  - destruct (cfind p (pages s)) as [d|] eqn:E.
    + split; cbn [fst snd pupd pages perr]; [rewrite He; reflexivity|].
      unfold ptouch, zlen. rewrite app_length. cbn [length].
      assert (Hm : cmem p (pages s) = true).
      { clear -E. unfold cmem, zmem, ckeys. induction (pages s) as [|[k b] m IH]; cbn in *; [discriminate|].
        rewrite (Z.eqb_sym p k). destruct (k =? p); [reflexivity|]. cbn. apply IH. exact E. }
      pose proof (zlen_cdel_mem p (pages s) Hm) as Hd. unfold zlen in *. lia.
    + apply pensure_ok; [cbn; rewrite He; reflexivity|exact Hl|lia].
  - apply pflush_next_ok; assumption.
Qed.

Lemma presume_ok s k : perr s = false -> cont_ok s k -> res_ok (presume c s k).
Proof.
  intros He Hk. destruct k as [v a|p i|key rest n]; cbn [presume cont_ok] in *.
  - destruct Hk as [Hm Hl]. rewrite Hm. apply pensure_ok; [cbn; rewrite He; reflexivity| |lia].
    cbn [pupd pages]. rewrite (zlen_cdel_mem v _ Hm). lia.
  - apply pahead_ok; [cbn; rewrite He; reflexivity|]. cbn [pupd pages].
    pose proof (zlen_pins (p + i) false (pages s)). lia.
  - apply pflush_next_ok; [cbn; rewrite He; reflexivity|]. cbn [pupd pages]. rewrite zlen_cset. exact Hk.
Qed.

(** a schedule without overlap: an operation starts only when none is running *)
Fixpoint sequential (y : psys) (l : list pact) : Prop :=
  match l with
  | [] => True
  | a :: r =>
      match a with
      | PStart _ _ => ppending y = []
      | PResume id => exists k, ppending y = [(id, k)]
      end /\ sequential (fst (pstep c y a)) r
  end.

Definition sys_ok (y : psys) : Prop :=
  perr (pstt y) = false /\
  match ppending y with
  | [] => zlen (pages (pstt y)) <= pcap c
  | [(_, k)] => cont_ok (pstt y) k
  | _ => False
  end.

Lemma settle_ok id x : res_ok x -> sys_ok (fst (psettle id [] x)).
Proof.
  destruct x as [s r]. intros [He Hr]. cbn [fst snd] in *. unfold psettle.
  destruct r; cbn [fst]; split; cbn [pstt ppending app]; auto. destruct Hr.
Qed.

Lemma prun_ok l : forall y, sys_ok y -> sequential y l ->
  sys_ok (prun c y l) /\ zlen (pages (pstt (prun c y l))) <= pcap c.
Proof.
  induction l as [|a l IH]; intros y Hy Hs; cbn [prun].
  - split; [exact Hy|]. destruct Hy as [He Hp]. destruct (ppending y) as [|[id k] [|? ?]]; [exact Hp| |destruct Hp].
    destruct k; cbn [cont_ok] in Hp; lia.
  - destruct Hs as [Ha Hs]. apply IH; [|exact Hs]. destruct Hy as [He Hp].
    destruct a as [id o|id]; cbn [pstep].
    + rewrite Ha in *. apply settle_ok. apply pstart_ok; assumption.
    + destruct Ha as [k Ha]. rewrite Ha in *. cbn [ppfind ppdel]. rewrite Z.eqb_refl.
      apply settle_ok. apply presume_ok; assumption.
Qed.

End PC.

(** PageCache stays within capacity and raises nothing when its operations do
    not overlap (any capacity >= 1, any read-ahead, any sequence). *)
Theorem pagecache_sequential_capacity : forall c l, 1 <= pcap c -> sequential c psinit l ->
  let y := prun c psinit l in
  zlen (pages (pstt y)) <= pcap c /\ perr (pstt y) = false.
Proof.
  intros c l Hcap Hs y.
  assert (H0 : sys_ok c psinit) by (split; [reflexivity|cbn; unfold zlen; cbn; lia]).
  destruct (prun_ok c Hcap l psinit H0 Hs) as [[He _] Hl]. split; assumption.
Qed.

Definition pagecache_capacity_statement : Prop :=
  forall c l, 1 <= pcap c -> zlen (pages (pstt (prun c psinit l))) <= pcap c.

(** Witness: capacity 1; read(1) and read(2) both find room, both wait for the
    disk, both insert. *)
Theorem pagecache_overlap_capacity_refuted : ~ pagecache_capacity_statement.
Proof.
  intros Hs.
  specialize (Hs {| pcap := 1; pra := 0; plat_r := 4; plat_w := 6 |}
                 [PStart 0 (PRead 1); PStart 1 (PRead 2); PResume 0; PResume 1] ltac:(cbn; lia)).
  vm_compute in Hs. apply Hs. reflexivity.
Qed.

Definition pagecache_dirty_statement : Prop :=
  forall c l a p, 1 <= pcap c ->
    let y := prun c psinit l in
    cfind p (pages (pstt y)) = Some true ->
    let y' := fst (pstep c y a) in
    cfind p (pages (pstt y')) = Some true \/ p_wb (pstt y') > p_wb (pstt y).

(** Witness: read(5) misses and waits for the disk; write(5) inserts a dirty
    page; the read then stores a clean page object over it: the dirty data is
    dropped without a write-back. *)
Theorem pagecache_load_overwrites_dirty_refuted : ~ pagecache_dirty_statement.
Proof.
  intros Hs.
  specialize (Hs {| pcap := 3; pra := 0; plat_r := 4; plat_w := 6 |}
                 [PStart 0 (PRead 5); PStart 1 (PWrite 5)] (PResume 0) 5 ltac:(cbn; lia)).
  cbn zeta in Hs. specialize (Hs ltac:(vm_compute; reflexivity)).
  vm_compute in Hs. destruct Hs as [Hs|Hs]; discriminate.
Qed.
