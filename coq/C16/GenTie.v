(** C16 — tie between components/datastore/eviction_policies.py and the policy
    models, through the REGENERATED translation [Gen/EvictionGen.v] (py2coq):
    LRUEviction (an OrderedDict used as an ordered set) and FIFOEviction (a
    list).  [lru_obj] / [fifo_obj] are the code objects of a model state (the
    tracked keys in order; the dict's values are never read and may be
    anything). *)
From HS Require Import Base.Prelude Base.PyLib C16.Model Gen.EvictionGen.
Local Open Scope Z_scope.

Definition dkeys (d : pydict) : list Z := map fst d.

Lemma dmem_keys d k : dmem d k = zmem k (dkeys d).
Proof. unfold zmem, dkeys. induction d as [|[k' v] r IH]; cbn [dmem map fst existsb]; [reflexivity|]. rewrite IH. rewrite (Z.eqb_sym k k'). reflexivity. Qed.

Lemma dkeys_dset d k v : dkeys (dset d k v) = add_end k (dkeys d).
Proof.
  unfold add_end, zmem, dkeys. induction d as [|[k' v'] r IH]; cbn [dset map fst existsb]; [reflexivity|].
  rewrite (Z.eqb_sym k k'). destruct (k' =? k) eqn:E; cbn [map fst orb]; [reflexivity|].
  rewrite IH. destruct (existsb (Z.eqb k) (map fst r)); reflexivity.
Qed.

Lemma dkeys_ddel d k : dkeys (ddel d k) = remove1 k (dkeys d).
Proof.
  unfold dkeys. induction d as [|[k' v'] r IH]; cbn [ddel map fst remove1]; [reflexivity|].
  destruct (k' =? k); cbn [map fst]; [reflexivity|]. now rewrite IH.
Qed.

Lemma dfind_keys d k : (exists v, dfind d k = Some v) <-> zmem k (dkeys d) = true.
Proof.
  unfold zmem, dkeys. induction d as [|[k' v'] r IH]; cbn [dfind map fst existsb]; [split; [intros [v H]; discriminate|discriminate]|].
  rewrite (Z.eqb_sym k k'). destruct (k' =? k); cbn [orb]; [split; eauto|exact IH].
Qed.

Lemma dkeys_move_end d k : dkeys (dmove_end d k) = move_end k (dkeys d).
Proof.
  unfold dmove_end, move_end. destruct (dfind d k) as [v|] eqn:E.
  - assert (zmem k (dkeys d) = true) as -> by (apply dfind_keys; eauto).
    unfold dkeys. rewrite map_app. cbn. fold (dkeys (ddel d k)). now rewrite dkeys_ddel.
  - destruct (zmem k (dkeys d)) eqn:Z; [|reflexivity]. apply dfind_keys in Z. destruct Z as [v Z]. congruence.
Qed.

(** LRUEviction: every method of the translated class acts on the tracked keys as the model policy [lru]. *)
Lemma tie_lru (q : LRUEviction) k now dr :
  dkeys (LRUEviction__order (fst (LRUEviction_on_access q k))) = p_access lru k (dkeys (LRUEviction__order q))
  /\ dkeys (LRUEviction__order (fst (LRUEviction_on_insert q k))) = p_insert lru now k (dkeys (LRUEviction__order q))
  /\ dkeys (LRUEviction__order (fst (LRUEviction_on_remove q k))) = p_remove lru k (dkeys (LRUEviction__order q))
  /\ (exists q' r, LRUEviction_evict q = Some (q', r)
        /\ (r, dkeys (LRUEviction__order q'), dr) = p_evict lru now dr (dkeys (LRUEviction__order q)))
  /\ dkeys (LRUEviction__order (fst (LRUEviction_clear q))) = p_clear lru (dkeys (LRUEviction__order q)).
Proof.
  destruct q as [d]. cbn [p_access p_insert p_remove p_evict p_clear lru LRUEviction__order].
  repeat split.
  - unfold LRUEviction_on_access. cbn. destruct (dmem d k) eqn:E; cbn.
    + apply dkeys_move_end.
    + unfold move_end. rewrite <- dmem_keys, E. reflexivity.
  - unfold LRUEviction_on_insert. cbn. apply dkeys_dset.
  - unfold LRUEviction_on_remove. cbn. apply dkeys_ddel.
  - unfold LRUEviction_evict. cbn. destruct d as [|[k0 v0] r]; cbn; [do 2 eexists; split; reflexivity|].
    rewrite Z.eqb_refl. cbn. do 2 eexists. split; reflexivity.
Qed.

(** FIFOEviction likewise ([fifo]). *)
Lemma py_in_zmem l k : py_in l k = zmem k l.
Proof. reflexivity. Qed.

Lemma py_remove1_eq l k : py_remove1 l k = remove1 k l.
Proof. induction l as [|y r IH]; cbn; [reflexivity|]. destruct (y =? k); [reflexivity|]. now rewrite IH. Qed.

Lemma tie_fifo (q : FIFOEviction) k now dr :
  FIFOEviction__order (fst (FIFOEviction_on_access q k)) = p_access fifo k (FIFOEviction__order q)
  /\ FIFOEviction__order (fst (FIFOEviction_on_insert q k)) = p_insert fifo now k (FIFOEviction__order q)
  /\ FIFOEviction__order (fst (FIFOEviction_on_remove q k)) = p_remove fifo k (FIFOEviction__order q)
  /\ (exists q' r, FIFOEviction_evict q = Some (q', r)
        /\ (r, FIFOEviction__order q', dr) = p_evict fifo now dr (FIFOEviction__order q))
  /\ FIFOEviction__order (fst (FIFOEviction_clear q)) = p_clear fifo (FIFOEviction__order q).
Proof.
  destruct q as [l]. cbn [p_access p_insert p_remove p_evict p_clear fifo FIFOEviction__order].
  repeat split.
  - unfold FIFOEviction_on_insert, add_end, py_in, zmem. cbn [FIFOEviction__order]. destruct (existsb (Z.eqb k) l); reflexivity.
  - unfold FIFOEviction_on_remove, py_in, zmem. cbn [FIFOEviction__order]. destruct (existsb (Z.eqb k) l); cbn; [apply py_remove1_eq|reflexivity].
  - unfold FIFOEviction_evict. cbn. destruct l as [|x r]; cbn; do 2 eexists; split; reflexivity.
Qed.

(* ------------------------------------------------------------------ *)
(** * LFUEviction ([_counts] dict, the write-only [_min_count]): the model policy [lfu] *)

Lemma dset_aset d k v : dset d k v = aset k v d.
Proof. induction d as [|[a b] r IH]; cbn; [reflexivity|]. destruct (a =? k); [reflexivity|]. now rewrite IH. Qed.
Lemma ddel_adel d k : ddel d k = adel k d.
Proof. induction d as [|[a b] r IH]; cbn; [reflexivity|]. destruct (a =? k); [reflexivity|]. now rewrite IH. Qed.
Lemma dfind_aget d k : dfind d k = aget k d.
Proof. induction d as [|[a b] r IH]; cbn; [reflexivity|]. destruct (a =? k); [reflexivity|]. exact IH. Qed.
Lemma dmem_aget d k : dmem d k = match aget k d with Some _ => true | None => false end.
Proof. induction d as [|[a b] r IH]; cbn; [reflexivity|]. destruct (a =? k); cbn; [reflexivity|exact IH]. Qed.
Lemma dget_aget d k v : aget k d = Some v -> dget d k 0 = v.
Proof. induction d as [|[a b] r IH]; cbn; [discriminate|]. destruct (a =? k); [intros H; now inversion H|exact IH]. Qed.

Definition lfu_st (q : LFUEviction) : amap * Z := (LFUEviction__counts q, LFUEviction__min_count q).

Lemma lfu_loop (F : option (LFUEviction * option (option Z) * bool) -> Z * Z -> option (LFUEviction * option (option Z) * bool)) m d mc :
  (forall q r kv, F (Some (q, r, true)) kv = Some (q, r, true)) ->
  (forall k c, dmem d k = true ->
     F (Some (mkLFUEviction d mc, None, false)) (k, c)
     = if c =? m then Some (mkLFUEviction (ddel d k) mc, Some (Some k), true) else Some (mkLFUEviction d mc, None, false)) ->
  forall l, (forall k c, In (k, c) l -> dmem d k = true) ->
  fold_left F l (Some (mkLFUEviction d mc, None, false))
  = Some (match first_with m l with
          | Some k => (mkLFUEviction (ddel d k) mc, Some (Some k), true)
          | None => (mkLFUEviction d mc, None, false)
          end).
Proof.
  intros HB HS. induction l as [|[k c] l IH]; intros Hin; cbn [fold_left first_with]; [reflexivity|].
  rewrite HS by (apply (Hin k c); left; reflexivity). destruct (c =? m).
  - clear IH. induction l as [|kv l IH2]; cbn [fold_left]; [reflexivity|]. rewrite HB. apply IH2.
    intros k' c' H. apply (Hin k' c'). destruct H as [H|H]; [left; exact H|right; right; exact H].
  - apply IH. intros k' c' H. apply (Hin k' c'). right; exact H.
Qed.

Lemma in_dmem d k c : In (k, c) d -> dmem d k = true.
Proof.
  induction d as [|[a b] r IH]; cbn; [tauto|]. intros [H|H].
  - inversion H; subst. now rewrite Z.eqb_refl.
  - rewrite (IH H). apply Bool.orb_true_r.
Qed.

Lemma tie_lfu (q : LFUEviction) k now dr :
  (exists q', LFUEviction_on_access q k = Some (q', tt) /\ lfu_st q' = p_access lfu k (lfu_st q))
  /\ lfu_st (fst (LFUEviction_on_insert q k)) = p_insert lfu now k (lfu_st q)
  /\ lfu_st (fst (LFUEviction_on_remove q k)) = p_remove lfu k (lfu_st q)
  /\ (exists q' r, LFUEviction_evict q = Some (q', r) /\ (r, lfu_st q', dr) = p_evict lfu now dr (lfu_st q))
  /\ lfu_st (fst (LFUEviction_clear q)) = p_clear lfu (lfu_st q).
Proof.
  destruct q as [d mc]. unfold lfu_st. cbn [p_access p_insert p_remove p_evict p_clear lfu LFUEviction__counts LFUEviction__min_count].
  repeat split.
  - unfold LFUEviction_on_access, lfu_access. cbn. rewrite dmem_aget. destruct (aget k d) as [c|] eqn:E; cbn; eexists; (split; [reflexivity|]).
    + cbn. rewrite (dget_aget d k c E), dset_aset. reflexivity.
    + reflexivity.
  - unfold LFUEviction_on_insert. cbn. now rewrite dset_aset.
  - unfold LFUEviction_on_remove. cbn. now rewrite ddel_adel.
  - unfold LFUEviction_evict, lfu_evict. cbn [LFUEviction__counts fst snd].
    destruct d as [|[k0 c0] r] eqn:Ed; [do 2 eexists; split; reflexivity|]. rewrite <- Ed.
    replace (negb match d with [] => true | _ :: _ => false end) with true by (rewrite Ed; reflexivity).
    assert (Hm : py_min_list (map snd d) = Some (zmin_list (map snd d))) by (rewrite Ed; reflexivity).
    rewrite Hm.
    match goal with |- context [fold_left ?F _ _] => set (F0 := F) end.
    rewrite (lfu_loop F0 (zmin_list (map snd d)) d mc).
    + destruct (first_with (zmin_list (map snd d)) d) as [kk|]; cbn.
      * do 2 eexists. split; [reflexivity|]. cbn. now rewrite ddel_adel.
      * do 2 eexists. split; reflexivity.
    + reflexivity.
    + intros kk c Hk. unfold F0. cbn. destruct (c =? zmin_list (map snd d)); [|reflexivity]. now rewrite Hk.
    + intros kk c. apply in_dmem.
Qed.
