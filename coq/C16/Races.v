(** C16 — clauses that are FALSE of the faithful model (and of the code):
    concrete schedules, checked by computation. *)
From HS Require Import Base.Prelude C16.Model.
Local Open Scope Z_scope.

Definition mk (now : Z) (a : act) : input := {| i_now := now; i_draws := []; i_act := a |}.
Definition act_id (a : act) : Z := match a with IStart id _ | IResume id => id end.
Definition writes_key (k : Z) (i : input) : bool :=
  match i_act i with
  | IStart _ (OPut k' _) | IStart _ (ODel k') => k' =? k
  | _ => false
  end.

(** "A read issued after a write to the same key has completed returns that
    write's value" — stated for the simplest situation: one put(k,v) whose
    last segment is the step shown, no other write to k starts afterwards,
    then a get(k) is started and completed.  Everything else (ins1..ins4) is
    an arbitrary interleaving of other operations' segments. *)
Definition read_after_write_statement : Prop :=
  forall kind c b0 ins1 ins2 ins3 ins4 idp idg k v n1 n2 n3 n4,
    1 <= cap c ->
    let P := pol_of kind in
    (forall i, In i (ins1 ++ ins2 ++ ins3 ++ ins4) -> act_id (i_act i) <> idp /\ act_id (i_act i) <> idg) ->
    idp <> idg ->
    (forall i, In i (ins2 ++ ins3 ++ ins4) -> writes_key k i = false) ->
    let y1 := srun P c (sinit P b0) (ins1 ++ [mk n1 (IStart idp (OPut k v))] ++ ins2) in
    snd (sstep P c y1 (mk n2 (IResume idp))) = ORet None ->
    let y2 := srun P c (fst (sstep P c y1 (mk n2 (IResume idp))))
                (ins3 ++ [mk n3 (IStart idg (OGet k))] ++ ins4) in
    forall r, snd (sstep P c y2 (mk n4 (IResume idg))) = ORet r -> r = Some v.

Definition wt_cfg : cfg := {| cap := 2; wt := true; lat_c := 1; lat_r := 10; lat_w := 5; lat_d := 5 |}.
Definition wb_cfg : cfg := {| cap := 2; wt := false; lat_c := 1; lat_r := 10; lat_w := 5; lat_d := 5 |}.

(** Witness (write-through, backing k0=1, nothing cached): get(k0) misses;
    put(k0,2) starts (cache k0=2, backing still 1); the miss-fill reads 1 and
    installs it; the put completes (backing 2); a later get(k0) hits 1. *)
Theorem read_after_write_overlap_refuted : ~ read_after_write_statement.
Proof.
  intros Hs.
  specialize (Hs KLru wt_cfg [(0, 1)] [mk 0 (IStart 0 (OGet 0))] [mk 10 (IResume 0)] [] []
                 1 2 0 2 8 13 50 51 ltac:(cbn; lia)).
  cbn zeta in Hs.
  assert (H1 : forall i, In i ([mk 0 (IStart 0 (OGet 0))] ++ [mk 10 (IResume 0)] ++ [] ++ []) ->
                         act_id (i_act i) <> 1 /\ act_id (i_act i) <> 2).
  { intros i [<-|[<-|[]]]; cbn; lia. }
  assert (H2 : forall i, In i ([mk 10 (IResume 0)] ++ [] ++ []) -> writes_key 0 i = false).
  { intros i [<-|[]]; reflexivity. }
  specialize (Hs H1 ltac:(lia) H2 ltac:(vm_compute; reflexivity) (Some 1) ltac:(vm_compute; reflexivity)).
  discriminate.
Qed.

(** The same overlap in write-back mode loses the write altogether: after the
    stale fill the dirty entry holds the OLD value, which flush then writes. *)
Definition wb_fill_schedule : list input :=
  [mk 0 (IStart 0 (OGet 0)); mk 8 (IStart 1 (OPut 0 2)); mk 9 (IResume 1); mk 10 (IResume 0)].

(** "Write-back data is never discarded before it reaches the backing store":
    a segment that merely continues an already running operation must leave
    every dirty entry either dirty with its value, or written to the backing
    store. *)
Definition dirty_preserved_statement : Prop :=
  forall kind c b0 ins i k v, 1 <= cap c ->
    let P := pol_of kind in
    let y := srun P c (sinit P b0) ins in
    In k (dirty (st y)) -> aget k (cache (st y)) = Some v ->
    (match i_act i with IResume _ => True | IStart _ _ => False end) ->
    let y' := fst (sstep P c y i) in
    (In k (dirty (st y')) /\ aget k (cache (st y')) = Some v) \/ aget k (back (st y')) = Some v.

(** Witness (write-back): put(a,1); flush starts (captures 1, waits for the
    write latency); put(a,2); the flush segment writes 1 and clears the dirty
    mark: a=2 is cached, clean, and never reaches the backing store. *)
Definition flush_race_schedule : list input :=
  [mk 0 (IStart 0 (OPut 0 1)); mk 1 (IResume 0); mk 10 (IStart 1 (OFlush [0]));
   mk 12 (IStart 2 (OPut 0 2)); mk 13 (IResume 2)].

Theorem flush_race_refuted : ~ dirty_preserved_statement.
Proof.
  intros Hs.
  specialize (Hs KLru wb_cfg [] flush_race_schedule (mk 15 (IResume 1)) 0 2 ltac:(cbn; lia)).
  cbn zeta in Hs.
  specialize (Hs ltac:(vm_compute; auto) ltac:(vm_compute; reflexivity) I).
  vm_compute in Hs. destruct Hs as [[[] _]|Hs]; discriminate.
Qed.

Theorem fill_race_loses_writeback : ~ dirty_preserved_statement.
Proof.
  intros Hs.
  specialize (Hs KLru wb_cfg [(0, 1)] [mk 0 (IStart 0 (OGet 0)); mk 8 (IStart 1 (OPut 0 2)); mk 9 (IResume 1)]
                 (mk 10 (IResume 0)) 0 2 ltac:(cbn; lia)).
  cbn zeta in Hs.
  specialize (Hs ltac:(vm_compute; auto) ltac:(vm_compute; reflexivity) I).
  vm_compute in Hs. destruct Hs as [[_ Hs]|Hs]; discriminate.
Qed.
