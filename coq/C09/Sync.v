(** C09 — proofs about the Mutex, Semaphore and RWLock models. *)
From HS Require Import Base.Prelude C09.Model C09.Resource.
Local Open Scope Z_scope.

(* ================================================================== *)
(** * Mutex *)

(** Clients use the lock properly: only a client inside the critical section
    releases. *)
Definition m_legit (s : mstate) (o : mop) : Prop :=
  match o with MRelease c _ => In c (m_cs s) | _ => True end.
Fixpoint m_legit_run (s : mstate) (ops : list mop) : Prop :=
  match ops with [] => True | o :: r => m_legit s o /\ m_legit_run (fst (m_step s o)) r end.

(** holders = clients in the critical section + the waiter the lock was handed to *)
Definition m_inv (s : mstate) : Prop :=
  if m_locked s then (length (m_cs s) + length (m_woken s) = 1)%nat
  else m_cs s = [] /\ m_woken s = [] /\ m_waiters s = [].

Lemma assoc_find_single c l e : assoc_find c l = Some e -> (length l <= 1)%nat -> assoc_remove c l = [].
Proof.
  destruct l as [|[i v] [|x r]]; cbn; try discriminate; try lia.
  destruct (i =? c); [auto|discriminate].
Qed.

Lemma zremove_single c l : In c l -> (length l <= 1)%nat -> zremove c l = [].
Proof.
  destruct l as [|i [|x r]]; cbn; try tauto; try lia.
  intros [->|[]] _. rewrite Z.eqb_refl. auto.
Qed.

Lemma m_inv_step s o : m_inv s -> m_legit s o -> m_inv (fst (m_step s o)).
Proof.
  unfold m_inv. intros I L. destruct (m_locked s) eqn:E.
  - (* locked *)
    destruct o as [c|c now|c now|c now]; cbn; unfold m_try; rewrite ?E; cbn; rewrite ?E; auto.
    + destruct (assoc_find c (m_woken s)) as [enq|] eqn:F; cbn; rewrite ?E; auto.
      destruct (m_woken s) as [|[i v] [|x r]] eqn:W; cbn in *; try discriminate; try lia.
      destruct (i =? c); [|discriminate]. cbn. destruct (m_cs s); cbn in *; [reflexivity|lia].
    + cbn in L. assert (Hcs : m_cs s = [c] /\ m_woken s = []).
      { destruct (m_cs s) as [|a [|b r]]; cbn in *; try tauto; try lia.
        destruct (m_woken s); cbn in *; [|lia]. destruct L as [->|[]]. auto. }
      destruct Hcs as [Hcs Hw]. rewrite Hcs, Hw. cbn. rewrite Z.eqb_refl.
      destruct (m_waiters s) as [|[w enq] rest]; cbn; auto.
  - (* unlocked *)
    destruct I as (Hc & Hw & Hq).
    destruct o as [c|c now|c now|c now]; cbn; unfold m_try; rewrite ?E; cbn; rewrite ?E; auto.
    + rewrite Hc, Hw. reflexivity.
    + rewrite Hc, Hw. reflexivity.
    + rewrite Hw. cbn. rewrite E. auto.
Qed.

Lemma m_inv_run ops : forall s, m_inv s -> m_legit_run s ops -> m_inv (m_run s ops).
Proof.
  induction ops as [|o r IH]; cbn; intros s I L; auto. destruct L as [L1 L2].
  apply IH; auto. apply m_inv_step; auto.
Qed.

Lemma mutex_exclusion ops : m_legit_run m_init ops ->
  let s := m_run m_init ops in
  (length (m_cs s) + length (m_woken s) <= 1)%nat /\
  (m_locked s = true -> (length (m_cs s) + length (m_woken s) = 1)%nat) /\
  (m_locked s = false -> m_cs s = [] /\ m_woken s = [] /\ m_waiters s = []).
Proof.
  intros L. cbn. assert (I : m_inv (m_run m_init ops)).
  { apply m_inv_run; auto. cbn. auto. }
  unfold m_inv in I. destruct (m_locked (m_run m_init ops)).
  - repeat split; try lia; try discriminate.
  - destruct I as (-> & -> & ->). cbn. repeat split; try lia; try discriminate.
Qed.

(** Hand-off to the oldest waiter; later arrivals are appended at the tail. *)
Lemma mutex_fifo_handoff s c now w enq rest : m_locked s = true -> m_waiters s = (w, enq) :: rest ->
  snd (m_step s (MRelease c now)) = YWoken [w] /\
  m_waiters (fst (m_step s (MRelease c now))) = rest /\
  m_locked (fst (m_step s (MRelease c now))) = true /\
  (forall c' now', m_waiters (fst (m_step s (MAcqStart c' now'))) = m_waiters s ++ [(c', now')]).
Proof.
  intros E W. cbn. rewrite E, W. cbn. repeat split; auto.
  intros c' now'. unfold m_try. rewrite E. cbn. reflexivity.
Qed.

(** No overtaking at all: an acquire succeeds immediately only when nobody waits. *)
Lemma mutex_no_overtaking ops c now : m_legit_run m_init ops ->
  let s := m_run m_init ops in
  (snd (m_step s (MAcqStart c now)) = YDelay0 \/ snd (m_step s (MTry c)) = YTrue) -> m_waiters s = [].
Proof.
  intros L s H. destruct (mutex_exclusion ops L) as (_ & _ & Hu). fold s in Hu.
  cbn in H. unfold m_try in H. destruct (m_locked s) eqn:E; cbn in H.
  - destruct H; discriminate.
  - apply Hu; auto.
Qed.

(** Waiting is free: a blocked acquire parks on a future (it does not re-yield a
    zero delay), and the resume that follows the hand-off finishes. *)
Lemma mutex_wait_is_parked s c now : m_locked s = true ->
  snd (m_step s (MAcqStart c now)) = YPark /\
  (forall enq now', assoc_find c (m_woken s) = Some enq -> snd (m_step s (MAcqResume c now')) = YDone) /\
  (forall now', assoc_find c (m_woken s) = None -> m_step s (MAcqResume c now') = (s, YPark)).
Proof.
  intros E. cbn. unfold m_try. rewrite E. cbn. repeat split; auto.
  - intros enq now' F. rewrite F. reflexivity.
  - intros now' F. rewrite F. reflexivity.
Qed.

(* ================================================================== *)
(** * Semaphore *)

Lemma q_wake_spec : forall ws a a' pre ws',
  q_wake a ws = (a', pre, ws') ->
  ws = pre ++ ws' /\ a' = a - zsum (map wamt pre) /\ (0 <= a -> 0 <= a') /\
  match ws' with [] => True | w :: _ => a' < wamt w end.
Proof.
  induction ws as [|[[id amt] enq] rest IH]; intros a a' pre ws' H; cbn in H.
  - inversion H; subst. cbn. repeat split; auto; lia.
  - destruct (a >=? amt) eqn:E.
    + destruct (q_wake (a - amt) rest) as [[a1 pre1] ws1] eqn:W.
      inversion H; subst. destruct (IH _ _ _ _ W) as (-> & -> & Hlo & Hh).
      cbn. repeat split; auto; try lia.
    + inversion H; subst. cbn. repeat split; auto; try lia.
Qed.

Record sinv (s : sstate) : Prop := {
  si_cap : 0 < s_cap s;
  si_lo : 0 <= s_count s;
  si_hi : s_count s <= s_cap s;
  si_wamt : Forall (fun w => 0 < wamt w) (s_waiters s);
  si_head : match s_waiters s with [] => True | w :: _ => s_count s < wamt w end;
}.

Lemma sinv_init cap : 0 < cap -> sinv (s_init cap).
Proof. intros; constructor; cbn; auto; lia. Qed.

Lemma sinv_step s o : sinv s -> sinv (fst (s_step s o)).
Proof.
  intros I. destruct I. destruct o as [c k|c k now|c now|k now]; cbn.
  - unfold s_try. destruct (k <? 1) eqn:E1; cbn; [constructor; auto|].
    destruct (s_count s >=? k) eqn:E2; cbn; [|constructor; auto].
    constructor; cbn; auto; try lia. destruct (s_waiters s); auto; lia.
  - destruct (k <? 1) eqn:E1; cbn; [constructor; auto|].
    destruct (k >? s_cap s) eqn:E0; cbn; [constructor; auto|].
    unfold s_try. rewrite E1. destruct (s_count s >=? k) eqn:E2; cbn.
    + constructor; cbn; auto; try lia. destruct (s_waiters s); auto; lia.
    + constructor; cbn; auto; try lia.
      * apply Forall_app; split; auto. repeat constructor. unfold wamt; cbn; lia.
      * destruct (s_waiters s); cbn; auto. unfold wamt; cbn; lia.
  - destruct (w_find c (s_woken s)) as [[k enq]|]; cbn; constructor; auto.
  - destruct (k <? 1) eqn:E1; cbn; [constructor; auto|].
    destruct (s_count s + k >? s_cap s) eqn:E2; cbn; [constructor; auto|].
    destruct (q_wake (s_count s + k) (s_waiters s)) as [[a1 pre1] ws1] eqn:W. cbn.
    destruct (q_wake_spec _ _ _ _ _ W) as (Hws & -> & Hlo & Hh).
    rewrite Hws in si_wamt0. apply Forall_app in si_wamt0 as [F1 F2].
    assert (0 <= zsum (map wamt pre1)) by (apply zsum_pos, Forall_map; auto).
    constructor; cbn; auto; lia.
Qed.

Lemma sinv_run ops : forall s, sinv s -> sinv (s_run s ops).
Proof. induction ops; cbn; intros; auto. apply IHops, sinv_step; auto. Qed.

Lemma s_cap_step s o : s_cap (fst (s_step s o)) = s_cap s.
Proof.
  destruct o as [c k|c k now|c now|k now]; cbn.
  - unfold s_try. destruct (k <? 1); cbn; auto. destruct (s_count s >=? k); cbn; auto.
  - destruct (k <? 1) eqn:E; cbn; auto. destruct (k >? s_cap s); cbn; auto.
    unfold s_try. rewrite E. destruct (s_count s >=? k); cbn; auto.
  - destruct (w_find c (s_woken s)) as [[k enq]|]; cbn; auto.
  - destruct (k <? 1); cbn; auto. destruct (s_count s + k >? s_cap s); cbn; auto.
    destruct (q_wake (s_count s + k) (s_waiters s)) as [[a1 pre1] ws1]. auto.
Qed.
Lemma s_cap_run ops : forall s, s_cap (s_run s ops) = s_cap s.
Proof. induction ops; cbn; intros; auto. rewrite IHops. apply s_cap_step. Qed.

(** Clients release only permits they were given. *)
Definition s_legit (s : sstate) (o : sop) : Prop :=
  match o with SRelease k _ => k <= s_out s | _ => True end.
Fixpoint s_legit_run (s : sstate) (ops : list sop) : Prop :=
  match ops with [] => True | o :: r => s_legit s o /\ s_legit_run (fst (s_step s o)) r end.

Definition s_conserved (s : sstate) : Prop := s_count s + s_out s = s_cap s /\ 0 <= s_out s.

Lemma s_conserved_step s o : sinv s -> s_conserved s -> s_legit s o -> s_conserved (fst (s_step s o)).
Proof.
  unfold s_conserved. intros I [C P] L. destruct I. destruct o as [c k|c k now|c now|k now]; cbn in *.
  - unfold s_try. destruct (k <? 1) eqn:E1; cbn; auto. destruct (s_count s >=? k); cbn; auto. lia.
  - destruct (k <? 1) eqn:E1; cbn; auto. destruct (k >? s_cap s); cbn; auto.
    unfold s_try. rewrite E1. destruct (s_count s >=? k); cbn; auto. lia.
  - destruct (w_find c (s_woken s)) as [[k enq]|]; cbn; auto.
  - destruct (k <? 1) eqn:E1; cbn; auto. destruct (s_count s + k >? s_cap s) eqn:E2; cbn; auto.
    destruct (q_wake (s_count s + k) (s_waiters s)) as [[a1 pre1] ws1] eqn:W. cbn.
    destruct (q_wake_spec _ _ _ _ _ W) as (Hws & -> & Hlo & Hh).
    rewrite Hws in si_wamt0. apply Forall_app in si_wamt0 as [F1 F2].
    assert (0 <= zsum (map wamt pre1)) by (apply zsum_pos, Forall_map; auto).
    change (map (fun w : Z * Z * Z => snd (fst w)) pre1) with (map wamt pre1). lia.
Qed.

Lemma s_conserved_run ops : forall s, sinv s -> s_conserved s -> s_legit_run s ops -> s_conserved (s_run s ops).
Proof.
  induction ops as [|o r IH]; cbn; intros s I C L; auto. destruct L.
  apply IH; auto. apply sinv_step; auto. apply s_conserved_step; auto.
Qed.

Lemma semaphore_bounds cap ops : 0 < cap ->
  let s := s_run (s_init cap) ops in
  s_cap s = cap /\ 0 <= s_count s <= cap /\
  match s_waiters s with [] => True | w :: _ => s_count s < wamt w end.
Proof.
  intros Hc. cbn. pose proof (sinv_run ops _ (sinv_init cap Hc)) as I.
  pose proof (s_cap_run ops (s_init cap)) as C. cbn in C. destruct I. repeat split; auto; lia.
Qed.

Lemma semaphore_conservation cap ops : 0 < cap -> s_legit_run (s_init cap) ops ->
  let s := s_run (s_init cap) ops in s_count s + s_out s = cap /\ 0 <= s_out s <= cap.
Proof.
  intros Hc L. cbn.
  destruct (s_conserved_run ops (s_init cap) (sinv_init cap Hc)) as [C P]; auto.
  { unfold s_conserved; cbn; lia. }
  pose proof (s_cap_run ops (s_init cap)) as Hcap. cbn in Hcap.
  destruct (sinv_run ops _ (sinv_init cap Hc)). lia.
Qed.

Lemma semaphore_fifo_wake s k now s' woken : s_step s (SRelease k now) = (s', YWoken woken) ->
  exists pre, s_waiters s = pre ++ s_waiters s' /\ woken = map wid pre /\ s_woken s' = s_woken s ++ pre.
Proof.
  cbn. destruct (k <? 1); [discriminate|]. destruct (s_count s + k >? s_cap s); [discriminate|].
  destruct (q_wake (s_count s + k) (s_waiters s)) as [[a1 pre1] ws1] eqn:W.
  intros H; inversion H; subst; clear H. destruct (q_wake_spec _ _ _ _ _ W) as (Hws & _).
  exists pre1. cbn. auto.
Qed.

Definition s_no_overtaking : Prop :=
  forall cap ops c k now, 0 < cap ->
    snd (s_step (s_run (s_init cap) ops) (SAcqStart c k now)) = YDelay0 ->
    s_waiters (s_run (s_init cap) ops) = [].

Lemma s_no_overtaking_refuted : ~ s_no_overtaking.
Proof.
  intros H.
  assert (E : s_waiters (s_run (s_init 3) [SAcqStart 0 2 0; SAcqStart 1 2 0]) = []).
  { apply (H 3 [SAcqStart 0 2 0; SAcqStart 1 2 0] 2 1 0); [lia|reflexivity]. }
  vm_compute in E. discriminate E.
Qed.

Lemma s_no_overtaking_partial cap ops c k now w rest : 0 < cap ->
  let s := s_run (s_init cap) ops in
  s_waiters s = w :: rest -> wamt w <= k -> snd (s_step s (SAcqStart c k now)) <> YDelay0.
Proof.
  intros Hc s Hw Hle. destruct (sinv_run ops _ (sinv_init cap Hc)). fold s in si_head0.
  rewrite Hw in si_head0. cbn.
  destruct (k <? 1) eqn:E1; [discriminate|]. destruct (k >? s_cap s); [discriminate|].
  unfold s_try. rewrite E1. destruct (s_count s >=? k) eqn:E; [lia|discriminate].
Qed.

Lemma semaphore_wait_is_parked s c k now : 1 <= k <= s_cap s -> s_count s < k ->
  snd (s_step s (SAcqStart c k now)) = YPark /\
  (forall ke now', w_find c (s_woken s) = Some ke -> snd (s_step s (SAcqResume c now')) = YDone).
Proof.
  intros Hk Hlt. cbn. destruct (k <? 1) eqn:E1; [lia|]. destruct (k >? s_cap s) eqn:E2; [lia|].
  unfold s_try. rewrite E1. destruct (s_count s >=? k) eqn:E3; [lia|]. split; auto.
  intros [k' e] now' F. rewrite F. reflexivity.
Qed.

(* ================================================================== *)
(** * RWLock *)

Definition wclient (w : rw_waiter) : Z := fst (fst w).

Definition max_ok (mx : option Z) : Prop := match mx with None => True | Some m => 1 <= m end.
Definition le_max (mx : option Z) (n : Z) : Prop := match mx with None => True | Some m => n <= m end.

(** lock-state part of the invariant *)
Definition rw_core (s : rwstate) : Prop :=
  max_ok (rw_max s) /\ 0 <= rw_readers s /\ (rw_wlocked s = true -> rw_readers s = 0) /\
  le_max (rw_max s) (rw_readers s).

(** the head waiter is really blocked (nobody waits while the lock allows it in) *)
Definition rw_head (s : rwstate) : Prop :=
  match rw_waiters s with
  | [] => True
  | w :: _ => if is_writer w then rw_wlocked s = true \/ 0 < rw_readers s
              else rw_wlocked s = true \/ readers_full (rw_max s) (rw_readers s) = true
  end.

(** counters = holders *)
Definition rw_ghost (s : rwstate) : Prop :=
  Z.of_nat (length (rw_rd s)) = rw_readers s /\
  length (rw_wr s) = (if rw_wlocked s then 1 else 0)%nat.

Lemma readers_full_false mx n : max_ok mx -> readers_full mx n = false -> le_max mx n -> le_max mx (n + 1).
Proof.
  destruct mx as [m|]; cbn; auto. intros Hm H Hle.
  destruct (m =? 0) eqn:E; cbn in H; [lia|]. lia.
Qed.

Lemma rw_wake_readers_spec mx : forall ws readers peak n pre ws' pk,
  max_ok mx -> le_max mx readers ->
  rw_wake_readers mx readers peak ws = (n, pre, ws', pk) ->
  ws = pre ++ ws' /\ n = readers + Z.of_nat (length pre) /\ le_max mx n /\
  Forall (fun w => is_writer w = false) pre /\
  match ws' with
  | [] => True
  | w :: _ => is_writer w = true \/ readers_full mx n = true
  end.
Proof.
  induction ws as [|w rest IH]; intros readers peak n pre ws' pk Hm Hle H; cbn in H.
  - inversion H; subst. cbn. repeat split; auto; lia.
  - destruct (is_writer w) eqn:Ew.
    + inversion H; subst. cbn. repeat split; auto; try lia.
    + destruct (readers_full mx readers) eqn:Ef.
      * inversion H; subst. cbn. repeat split; auto; try lia.
      * destruct (rw_wake_readers mx (readers + 1) (Z.max peak (readers + 1)) rest) as [[[n1 pre1] ws1] pk1] eqn:W.
        inversion H; subst.
        destruct (IH _ _ _ _ _ _ Hm (readers_full_false _ _ Hm Ef Hle) W) as (-> & -> & Hl & Hf & Hh).
        cbn [length]. repeat split; auto; try lia.
Qed.

Definition wake_post (s s' : rwstate) (wk : list Z) : Prop :=
  rw_core s' /\ rw_head s' /\ rw_max s' = rw_max s /\
  (exists pre, rw_waiters s = pre ++ rw_waiters s' /\ wk = map wclient pre /\ rw_woken s' = rw_woken s ++ pre) /\
  (rw_ghost s -> rw_ghost s').

Lemma wake_post_same s : rw_core s -> rw_head s -> wake_post s s [].
Proof.
  intros C H. unfold wake_post. split; auto. split; auto. split; auto. split; auto.
  exists []. cbn. rewrite app_nil_r. auto.
Qed.

Lemma rw_wake_spec s s' wk : rw_core s -> rw_wake s = (s', wk) -> wake_post s s' wk.
Proof.
  intros C H. pose proof C as (Hm & Hr & Hw & Hle). unfold rw_wake in H.
  destruct (rw_waiters s) as [|front rest] eqn:Ws.
  { inversion H; subst. apply wake_post_same; auto. unfold rw_head. rewrite Ws. auto. }
  destruct (rw_wlocked s) eqn:El.
  { inversion H; subst. apply wake_post_same; auto. unfold rw_head. rewrite Ws, El.
    destruct (is_writer front); auto. }
  destruct (is_writer front) eqn:Ef.
  - destruct (rw_readers s =? 0) eqn:E0.
    + inversion H; subst; clear H. assert (Hz : rw_readers s = 0) by lia.
      unfold wake_post. split; [|split; [|split; [|split]]].
      * unfold rw_core; cbn. repeat split; auto.
      * unfold rw_head; cbn. destruct rest as [|w r]; auto. destruct (is_writer w); auto.
      * reflexivity.
      * exists [front]. cbn. auto.
      * unfold rw_ghost; cbn. rewrite El. intros [G1 G2]. split; cbn; try lia; auto.
    + inversion H; subst. apply wake_post_same; auto. unfold rw_head. rewrite Ws, El, Ef. right. lia.
  - destruct (rw_wake_readers (rw_max s) (rw_readers s) (rw_peak s) (front :: rest)) as [[[n pre] ws'] pk] eqn:W.
    inversion H; subst; clear H.
    destruct (rw_wake_readers_spec _ _ _ _ _ _ _ _ Hm Hle W) as (Hws & -> & Hl & Hf & Hh).
    unfold wake_post. split; [|split; [|split; [|split]]].
    * unfold rw_core; cbn. repeat split; auto; try lia; discriminate.
    * unfold rw_head; cbn. destruct ws' as [|w r]; auto. destruct (is_writer w) eqn:Ew.
      -- right. destruct pre as [|p pre]; cbn in *; [|lia]. inversion Hws; subst. congruence.
      -- destruct Hh as [Hh|Hh]; [congruence|auto].
    * reflexivity.
    * exists pre. cbn. rewrite Ws. auto.
    * unfold rw_ghost; cbn. intros [G1 G2]. rewrite El in G2. split; auto.
      rewrite app_length, map_length. unfold rw_waiter in *. lia.
Qed.

Lemma rw_core_init mx : max_ok mx -> rw_core (rw_init mx) /\ rw_head (rw_init mx) /\ rw_ghost (rw_init mx).
Proof.
  intros H. unfold rw_core, rw_head, rw_ghost; cbn. repeat split; auto; try lia; try discriminate.
  destruct mx; cbn in *; lia.
Qed.

Definition rw_legit (s : rwstate) (o : rwop) : Prop :=
  match o with RWRelR c _ => In c (rw_rd s) | RWRelW c _ => In c (rw_wr s) | _ => True end.
Fixpoint rw_legit_run (s : rwstate) (ops : list rwop) : Prop :=
  match ops with [] => True | o :: r => rw_legit s o /\ rw_legit_run (fst (rw_step s o)) r end.

Lemma zremove_length c l : In c l -> S (length (zremove c l)) = length l.
Proof.
  induction l as [|i r IH]; cbn; [tauto|]. destruct (i =? c) eqn:E; auto.
  intros [->|H]; [lia|]. cbn. rewrite IH; auto.
Qed.

Definition try_post (s s' : rwstate) (b : bool) : Prop :=
  rw_core s' /\ rw_head s' /\ rw_max s' = rw_max s /\ rw_waiters s' = rw_waiters s /\ (rw_ghost s -> rw_ghost s') /\
  (b = true -> rw_waiters s = []) /\ (b = false -> s' = s).

Lemma try_post_same s : rw_core s -> rw_head s -> try_post s s false.
Proof. intros C H. unfold try_post. repeat (split; [auto; fail|]). split; [discriminate|auto]. Qed.

Lemma rw_try_read_inv s c s' b : rw_try_read s c = (s', b) -> rw_core s -> rw_head s -> try_post s s' b.
Proof.
  unfold rw_try_read. intros H C Hh. pose proof C as (Hm & Hr & Hw & Hle).
  destruct (rw_wlocked s) eqn:El; [inversion H; subst; apply try_post_same; auto|].
  destruct (has_waiting_writer s) eqn:Ew; [inversion H; subst; apply try_post_same; auto|].
  destruct (readers_full (rw_max s) (rw_readers s)) eqn:Ef; [inversion H; subst; apply try_post_same; auto|].
  inversion H; subst; clear H.
  assert (Hq : rw_waiters s = []).
  { destruct (rw_waiters s) as [|w r] eqn:Ws; auto. unfold has_waiting_writer in Ew. rewrite Ws in Ew. cbn in Ew.
    unfold rw_head in Hh. rewrite Ws in Hh.
    destruct (is_writer w) eqn:E; cbn in Ew; [discriminate|]. destruct Hh as [Hh|Hh]; congruence. }
  unfold try_post. split; [|split; [|split; [|split; [|split; [|split]]]]]; cbn; auto.
  - unfold rw_core; cbn. rewrite ?El. repeat split; auto; try lia; try discriminate.
    apply readers_full_false; auto.
  - unfold rw_head; cbn. rewrite Hq. auto.
  - unfold rw_ghost; cbn. intros [G1 G2]. rewrite ?El in *. split; auto. lia.
  - discriminate.
Qed.

Lemma rw_try_write_inv s c s' b : rw_try_write s c = (s', b) -> rw_core s -> rw_head s -> try_post s s' b.
Proof.
  unfold rw_try_write. intros H C Hh. pose proof C as (Hm & Hr & Hw & Hle).
  destruct (rw_wlocked s) eqn:El; cbn in H; [inversion H; subst; apply try_post_same; auto|].
  destruct (rw_readers s >? 0) eqn:Er; [inversion H; subst; apply try_post_same; auto|].
  inversion H; subst; clear H.
  assert (Hz : rw_readers s = 0) by lia.
  assert (Hq : rw_waiters s = []).
  { destruct (rw_waiters s) as [|w r] eqn:Ws; auto. unfold rw_head in Hh. rewrite Ws in Hh.
    destruct (is_writer w); destruct Hh as [Hh|Hh]; try congruence; try lia.
    destruct (rw_max s) as [m|]; cbn in *; [|discriminate]. destruct (m =? 0) eqn:E; cbn in Hh; lia. }
  unfold try_post. split; [|split; [|split; [|split; [|split; [|split]]]]]; cbn; auto.
  - unfold rw_core; cbn. repeat split; auto.
  - unfold rw_head; cbn. rewrite Hq. auto.
  - unfold rw_ghost; cbn. intros [G1 G2]. rewrite ?El in *. split; cbn; auto; lia.
  - discriminate.
Qed.

Ltac split4 := split; [|split; [|split]].

Lemma rw_inv_step s o : rw_core s -> rw_head s ->
  rw_core (fst (rw_step s o)) /\ rw_head (fst (rw_step s o)) /\ rw_max (fst (rw_step s o)) = rw_max s /\
  (rw_ghost s -> rw_legit s o -> rw_ghost (fst (rw_step s o))).
Proof.
  intros C Hh. destruct o as [c|c|c now|c now|c now|c now|c now]; cbn.
  - destruct (rw_try_read s c) as [s' b] eqn:T. destruct (rw_try_read_inv _ _ _ _ T C Hh) as (? & ? & ? & ? & ? & _).
    cbn. split4; auto.
  - destruct (rw_try_write s c) as [s' b] eqn:T. destruct (rw_try_write_inv _ _ _ _ T C Hh) as (? & ? & ? & ? & ? & _).
    cbn. split4; auto.
  - destruct (rw_try_read s c) as [s' b] eqn:T. destruct (rw_try_read_inv _ _ _ _ T C Hh) as (? & ? & ? & ? & ? & _ & Hf).
    destruct b; cbn; [split4; auto|].
    split4; auto.
    + unfold rw_head; cbn.
      destruct (rw_waiters s) as [|w r] eqn:Ws; cbn; [|unfold rw_head in Hh; rewrite Ws in Hh; exact Hh].
      (* enqueued on an empty queue: the reader was refused for its own reason *)
      unfold rw_try_read in T. destruct (rw_wlocked s) eqn:El; [auto|].
      unfold has_waiting_writer in T. rewrite Ws in T. cbn in T.
      destruct (readers_full (rw_max s) (rw_readers s)) eqn:Ef; [auto|]. inversion T.
  - destruct (rw_try_write s c) as [s' b] eqn:T. destruct (rw_try_write_inv _ _ _ _ T C Hh) as (? & ? & ? & ? & ? & _ & Hf).
    destruct b; cbn; [split4; auto|].
    split4; auto.
    + unfold rw_head; cbn.
      destruct (rw_waiters s) as [|w r] eqn:Ws; cbn; [|unfold rw_head in Hh; rewrite Ws in Hh; exact Hh].
      unfold rw_try_write in T. destruct (rw_wlocked s) eqn:El; cbn in T; [auto|].
      destruct (rw_readers s >? 0) eqn:Er; [right; lia|inversion T].
  - destruct (rww_find c (rw_woken s)) as [[wr enq]|]; cbn; split4; auto.
  - destruct (rw_readers s <? 1) eqn:E1; cbn; [split4; auto|].
    match goal with |- context [rw_wake ?x] => destruct (rw_wake x) as [s2 wk] eqn:W end. cbn.
    apply rw_wake_spec in W.
    + unfold wake_post in W. destruct W as (? & ? & Hmx & _ & G). cbn in Hmx. split4; auto.
      intros Gs L. apply G. unfold rw_ghost in *; cbn. destruct Gs as [G1 G2]. split; auto.
      cbn in L. pose proof (zremove_length _ _ L). lia.
    + destruct C as (Hm & Hr & Hw & Hle). unfold rw_core; cbn. split4; auto; try lia.
      destruct (rw_max s); cbn in *; auto. lia.
  - destruct (rw_wlocked s) eqn:El; cbn; [|split4; auto].
    match goal with |- context [rw_wake ?x] => destruct (rw_wake x) as [s2 wk] eqn:W end. cbn.
    apply rw_wake_spec in W.
    + unfold wake_post in W. destruct W as (? & ? & Hmx & _ & G). cbn in Hmx. split4; auto.
      intros Gs L. apply G. unfold rw_ghost in *; cbn. destruct Gs as [G1 G2]. split; auto.
      cbn in L. rewrite El in G2. pose proof (zremove_length _ _ L). lia.
    + destruct C as (Hm & Hr & Hw & Hle). unfold rw_core; cbn. split4; auto; discriminate.
Qed.

Lemma rw_inv_run ops : forall s, rw_core s -> rw_head s -> rw_ghost s -> rw_legit_run s ops ->
  let s' := rw_run s ops in rw_core s' /\ rw_head s' /\ rw_ghost s' /\ rw_max s' = rw_max s.
Proof.
  induction ops as [|o r IH]; cbn; intros s C H G L; auto. destruct L as [L1 L2].
  destruct (rw_inv_step s o C H) as (C' & H' & Hm & G').
  destruct (IH _ C' H' (G' G L1) L2) as (? & ? & ? & Hx). cbn in Hx. split4; auto. congruence.
Qed.

(** A writer excludes everyone, readers exclude writers, readers <= max_readers:
    on the *holders* (clients granted and not yet released). *)
Lemma rwlock_exclusion mx ops : max_ok mx -> rw_legit_run (rw_init mx) ops ->
  let s := rw_run (rw_init mx) ops in
  (length (rw_wr s) <= 1)%nat /\ (rw_wr s <> [] -> rw_rd s = []) /\
  le_max mx (Z.of_nat (length (rw_rd s))) /\
  Z.of_nat (length (rw_rd s)) = rw_readers s /\ (rw_wlocked s = true <-> rw_wr s <> []).
Proof.
  intros Hm L. destruct (rw_core_init mx Hm) as (C & H & G).
  destruct (rw_inv_run ops _ C H G L) as ((_ & Hr & Hw & Hle) & _ & (G1 & G2) & Hmx). cbn in *.
  rewrite Hmx in Hle. cbn in Hle. rewrite G1.
  destruct (rw_wlocked (rw_run (rw_init mx) ops)) eqn:El.
  - repeat split; auto; try lia.
    + intros _. specialize (Hw eq_refl). destruct (rw_rd (rw_run (rw_init mx) ops)); cbn in *; auto; lia.
    + intros _ E. rewrite E in G2. discriminate.
  - destruct (rw_wr (rw_run (rw_init mx) ops)); cbn in *; [|lia]. repeat split; auto; try lia; try tauto; try discriminate.
Qed.

(** Nobody waits while the lock would admit the head of the queue; readers
    behind a waiting writer wait (writer preference); the wake takes a prefix. *)
Lemma rwlock_no_stranding mx ops : max_ok mx -> rw_legit_run (rw_init mx) ops ->
  rw_head (rw_run (rw_init mx) ops).
Proof.
  intros Hm L. destruct (rw_core_init mx Hm) as (C & H & G).
  destruct (rw_inv_run ops _ C H G L) as (_ & Hh & _). exact Hh.
Qed.

Lemma rwlock_writer_preference s c : has_waiting_writer s = true ->
  rw_try_read s c = (s, false) /\ snd (rw_step s (RWAcqRStart c 0)) = YPark.
Proof.
  intros H. unfold rw_try_read. cbn. unfold rw_try_read. destruct (rw_wlocked s); rewrite ?H; auto.
Qed.

Lemma rwlock_fifo_wake mx ops o wk : max_ok mx -> rw_legit_run (rw_init mx) ops ->
  let s := rw_run (rw_init mx) ops in
  snd (rw_step s o) = YWoken wk ->
  exists pre, rw_waiters s = pre ++ rw_waiters (fst (rw_step s o)) /\ wk = map wclient pre.
Proof.
  intros Hm L s. destruct (rw_core_init mx Hm) as (C0 & H0 & G0).
  destruct (rw_inv_run ops _ C0 H0 G0 L) as (C & Hh & _). fold s in C, Hh.
  destruct C as (Hmx & Hr & Hw & Hle).
  destruct o as [c|c|c now|c now|c now|c now|c now]; cbn.
  - destruct (rw_try_read s c) as [s' []]; discriminate.
  - destruct (rw_try_write s c) as [s' []]; discriminate.
  - destruct (rw_try_read s c) as [s' []]; discriminate.
  - destruct (rw_try_write s c) as [s' []]; discriminate.
  - destruct (rww_find c (rw_woken s)) as [[wr enq]|]; discriminate.
  - destruct (rw_readers s <? 1) eqn:E1; [discriminate|].
    match goal with |- context [rw_wake ?x] => destruct (rw_wake x) as [s2 wk'] eqn:W end. cbn.
    intros E; inversion E; subst. apply rw_wake_spec in W.
    + unfold wake_post in W. destruct W as (_ & _ & _ & (pre & P1 & P2 & _) & _). exists pre; auto.
    + unfold rw_core; cbn. split4; auto; try lia.
      destruct (rw_max s); cbn in *; auto. lia.
  - destruct (rw_wlocked s) eqn:El; [|discriminate].
    match goal with |- context [rw_wake ?x] => destruct (rw_wake x) as [s2 wk'] eqn:W end. cbn.
    intros E; inversion E; subst. apply rw_wake_spec in W.
    + unfold wake_post in W. destruct W as (_ & _ & _ & (pre & P1 & P2 & _) & _). exists pre; auto.
    + unfold rw_core; cbn. split4; auto; discriminate.
Qed.

(** No overtaking: an acquire succeeds immediately only when nobody waits. *)
Lemma rwlock_no_overtaking mx ops c now : max_ok mx -> rw_legit_run (rw_init mx) ops ->
  let s := rw_run (rw_init mx) ops in
  (snd (rw_step s (RWAcqRStart c now)) = YDelay0 \/ snd (rw_step s (RWAcqWStart c now)) = YDelay0) ->
  rw_waiters s = [].
Proof.
  intros Hm L s. destruct (rw_core_init mx Hm) as (C0 & H0 & G0).
  destruct (rw_inv_run ops _ C0 H0 G0 L) as (C & Hh & _). fold s in C, Hh. cbn.
  destruct (rw_try_read s c) as [s1 b1] eqn:T1. destruct (rw_try_write s c) as [s2 b2] eqn:T2.
  destruct (rw_try_read_inv _ _ _ _ T1 C Hh) as (_ & _ & _ & _ & _ & R & _).
  destruct (rw_try_write_inv _ _ _ _ T2 C Hh) as (_ & _ & _ & _ & _ & Wr & _).
  intros [E|E].
  - destruct b1; [|discriminate]. auto.
  - destruct b2; [|discriminate]. auto.
Qed.
