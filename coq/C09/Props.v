(** Property C09 — the theorems the check counts as obligations.  Nothing but
    statements closed by [exact] and [Print Assumptions]. *)
From HS Require Import Base.Prelude C09.Model C09.Resource.
From Coq Require Import Sorting.Sorted.
Local Open Scope Z_scope.

(* ------------------------------------------------------------------ *)
(** * Resource *)

(** For every sequence of acquire / try_acquire / grant.release / raw
    _do_release calls: available stays within [0, capacity]; a release that
    would exceed capacity is rejected. *)
Theorem c09_resource_bounds : forall cap ops, 0 < cap -> Forall force_pos ops ->
  let s := r_run (r_init cap) ops in r_cap s = cap /\ 0 <= r_avail s <= cap.
Proof. exact resource_bounds. Qed.
Print Assumptions c09_resource_bounds.

(** Held plus available equals capacity (callers that release through grants). *)
Theorem c09_resource_conservation : forall cap ops, 0 < cap -> existsb is_force ops = false ->
  let s := r_run (r_init cap) ops in
  r_avail s + zsum (map snd (r_held s)) = cap /\ Forall (fun g => 0 < snd g) (r_held s) /\
  0 <= zsum (map snd (r_held s)) <= cap.
Proof. exact resource_conservation. Qed.
Print Assumptions c09_resource_conservation.

(** Releasing a released grant is a no-op. *)
Theorem c09_resource_release_idempotent : forall cap ops now now' gid, 0 < cap -> Forall force_pos ops ->
  let s1 := fst (r_step (r_run (r_init cap) ops) (RRelease now gid)) in
  r_step s1 (RRelease now' gid) = (s1, ONoop).
Proof. exact resource_release_idempotent. Qed.
Print Assumptions c09_resource_release_idempotent.

(** Blocked acquirers are woken in arrival order: the queue is sorted by
    arrival index, a release resolves exactly a prefix of it, in order, and stops
    only at a waiter that does not fit. *)
Theorem c09_resource_fifo_wake : forall cap ops o s' woken, 0 < cap -> Forall force_pos ops -> force_pos o ->
  let s := r_run (r_init cap) ops in
  r_step s o = (s', OReleased woken) ->
  StronglySorted Z.lt (map wid (r_waiters s)) /\
  (exists pre, r_waiters s = pre ++ r_waiters s' /\ woken = map wid pre) /\
  match r_waiters s' with [] => True | w :: _ => r_avail s' < wamt w end.
Proof. exact resource_fifo_wake. Qed.
Print Assumptions c09_resource_fifo_wake.

(** ... as soon as capacity allows: in no reachable state does the head waiter fit. *)
Theorem c09_resource_no_stranding : forall cap ops, 0 < cap -> Forall force_pos ops ->
  let s := r_run (r_init cap) ops in
  match r_waiters s with [] => True | w :: _ => r_avail s < wamt w end.
Proof. exact resource_no_stranding. Qed.
Print Assumptions c09_resource_no_stranding.

(** ... each at most once: no id occurs twice in the log of all grants. *)
Theorem c09_resource_at_most_once : forall cap ops, 0 < cap -> Forall force_pos ops ->
  NoDup (grant_log (r_init cap) ops).
Proof. exact resource_at_most_once. Qed.
Print Assumptions c09_resource_at_most_once.

(** Arrival order across ALL acquirers is refuted: acquire() grants immediately
    whenever the amount fits, also when earlier, larger requests are queued. *)
Theorem c09_resource_arrival_order_refuted : ~ no_overtaking.
Proof. exact no_overtaking_refuted. Qed.
Print Assumptions c09_resource_arrival_order_refuted.

Theorem c09_resource_arrival_order_partial : forall cap ops now amt w rest i, 0 < cap -> Forall force_pos ops ->
  let s := r_run (r_init cap) ops in
  r_waiters s = w :: rest -> wamt w <= amt -> snd (r_step s (RAcquire now amt)) <> OGranted i.
Proof. exact resource_no_overtaking_partial. Qed.
Print Assumptions c09_resource_arrival_order_partial.
