(** Property C09 — the theorems the check counts as obligations.  Nothing but
    statements closed by [exact] and [Print Assumptions]. *)
From HS Require Import Base.Prelude Base.PyLib C09.Model C09.Resource C09.Sync C09.Limits C09.Pool C09.Bulk C09.Barrier
  Gen.ConcurrencyGen C09.ConcTie.
From Coq Require Import Sorting.Sorted.
Local Open Scope Z_scope.

(* ------------------------------------------------------------------ *)
(** * Resource *)

(** For every sequence of acquire / try_acquire / grant.release / raw
    _do_release calls: available stays within [0, capacity]; a release that
    would exceed capacity is rejected. *)
Theorem c09_resource_bounds : forall cap ops, 0 < cap -> Forall force_pos ops ->
  let s := r_run (r_init cap) ops in r_cap s = cap /\ 0 <= r_avail s <= cap.
Proof. exact resource_bounds. Qed.
Print Assumptions c09_resource_bounds.

(** Held plus available equals capacity (callers that release through grants). *)
Theorem c09_resource_conservation : forall cap ops, 0 < cap -> existsb is_force ops = false ->
  let s := r_run (r_init cap) ops in
  r_avail s + zsum (map snd (r_held s)) = cap /\ Forall (fun g => 0 < snd g) (r_held s) /\
  0 <= zsum (map snd (r_held s)) <= cap.
Proof. exact resource_conservation. Qed.
Print Assumptions c09_resource_conservation.

(** Releasing a released grant is a no-op. *)
Theorem c09_resource_release_idempotent : forall cap ops now now' gid, 0 < cap -> Forall force_pos ops ->
  let s1 := fst (r_step (r_run (r_init cap) ops) (RRelease now gid)) in
  r_step s1 (RRelease now' gid) = (s1, ONoop).
Proof. exact resource_release_idempotent. Qed.
Print Assumptions c09_resource_release_idempotent.

(** Blocked acquirers are woken in arrival order: the queue is sorted by
    arrival index, a release resolves exactly a prefix of it, in order, and stops
    only at a waiter that does not fit. *)
Theorem c09_resource_fifo_wake : forall cap ops o s' woken, 0 < cap -> Forall force_pos ops -> force_pos o ->
  let s := r_run (r_init cap) ops in
  r_step s o = (s', OReleased woken) ->
  StronglySorted Z.lt (map wid (r_waiters s)) /\
  (exists pre, r_waiters s = pre ++ r_waiters s' /\ woken = map wid pre) /\
  match r_waiters s' with [] => True | w :: _ => r_avail s' < wamt w end.
Proof. exact resource_fifo_wake. Qed.
Print Assumptions c09_resource_fifo_wake.

(** ... as soon as capacity allows: in no reachable state does the head waiter fit. *)
Theorem c09_resource_no_stranding : forall cap ops, 0 < cap -> Forall force_pos ops ->
  let s := r_run (r_init cap) ops in
  match r_waiters s with [] => True | w :: _ => r_avail s < wamt w end.
Proof. exact resource_no_stranding. Qed.
Print Assumptions c09_resource_no_stranding.

(** ... each at most once: no id occurs twice in the log of all grants. *)
Theorem c09_resource_at_most_once : forall cap ops, 0 < cap -> Forall force_pos ops ->
  NoDup (grant_log (r_init cap) ops).
Proof. exact resource_at_most_once. Qed.
Print Assumptions c09_resource_at_most_once.

(** Arrival order across ALL acquirers is refuted: acquire() grants immediately
    whenever the amount fits, also when earlier, larger requests are queued. *)
Theorem c09_resource_arrival_order_refuted : ~ no_overtaking.
Proof. exact no_overtaking_refuted. Qed.
Print Assumptions c09_resource_arrival_order_refuted.

Theorem c09_resource_arrival_order_partial : forall cap ops now amt w rest i, 0 < cap -> Forall force_pos ops ->
  let s := r_run (r_init cap) ops in
  r_waiters s = w :: rest -> wamt w <= amt -> snd (r_step s (RAcquire now amt)) <> OGranted i.
Proof. exact resource_no_overtaking_partial. Qed.
Print Assumptions c09_resource_arrival_order_partial.

(* ------------------------------------------------------------------ *)
(** * Mutex (clients release only while they hold the lock) *)

(** At most one holder (a client in its critical section, or the waiter the
    lock has been handed to); locked <-> exactly one holder; nobody waits on an
    unlocked mutex. *)
Theorem c09_mutex_exclusion : forall ops, m_legit_run m_init ops ->
  let s := m_run m_init ops in
  (length (m_cs s) + length (m_woken s) <= 1)%nat /\
  (m_locked s = true -> (length (m_cs s) + length (m_woken s) = 1)%nat) /\
  (m_locked s = false -> m_cs s = [] /\ m_woken s = [] /\ m_waiters s = []).
Proof. exact mutex_exclusion. Qed.
Print Assumptions c09_mutex_exclusion.

Theorem c09_mutex_fifo_handoff : forall s c now w enq rest, m_locked s = true -> m_waiters s = (w, enq) :: rest ->
  snd (m_step s (MRelease c now)) = YWoken [w] /\
  m_waiters (fst (m_step s (MRelease c now))) = rest /\
  m_locked (fst (m_step s (MRelease c now))) = true /\
  (forall c' now', m_waiters (fst (m_step s (MAcqStart c' now'))) = m_waiters s ++ [(c', now')]).
Proof. exact mutex_fifo_handoff. Qed.
Print Assumptions c09_mutex_fifo_handoff.

Theorem c09_mutex_no_overtaking : forall ops c now, m_legit_run m_init ops ->
  let s := m_run m_init ops in
  (snd (m_step s (MAcqStart c now)) = YDelay0 \/ snd (m_step s (MTry c)) = YTrue) -> m_waiters s = [].
Proof. exact mutex_no_overtaking. Qed.
Print Assumptions c09_mutex_no_overtaking.

(** Waiting is free (after the repair): a blocked acquire parks on a future
    instead of re-yielding a zero delay; the resume after the hand-off finishes;
    a resume without hand-off would park again without touching the state. *)
Theorem c09_mutex_wait_is_parked : forall s c now, m_locked s = true ->
  snd (m_step s (MAcqStart c now)) = YPark /\
  (forall enq now', assoc_find c (m_woken s) = Some enq -> snd (m_step s (MAcqResume c now')) = YDone) /\
  (forall now', assoc_find c (m_woken s) = None -> m_step s (MAcqResume c now') = (s, YPark)).
Proof. exact mutex_wait_is_parked. Qed.
Print Assumptions c09_mutex_wait_is_parked.

(* ------------------------------------------------------------------ *)
(** * Semaphore *)

Theorem c09_semaphore_bounds : forall cap ops, 0 < cap ->
  let s := s_run (s_init cap) ops in
  s_cap s = cap /\ 0 <= s_count s <= cap /\
  match s_waiters s with [] => True | w :: _ => s_count s < wamt w end.
Proof. exact semaphore_bounds. Qed.
Print Assumptions c09_semaphore_bounds.

Theorem c09_semaphore_conservation : forall cap ops, 0 < cap -> s_legit_run (s_init cap) ops ->
  let s := s_run (s_init cap) ops in s_count s + s_out s = cap /\ 0 <= s_out s <= cap.
Proof. exact semaphore_conservation. Qed.
Print Assumptions c09_semaphore_conservation.

Theorem c09_semaphore_fifo_wake : forall s k now s' woken, s_step s (SRelease k now) = (s', YWoken woken) ->
  exists pre, s_waiters s = pre ++ s_waiters s' /\ woken = map wid pre /\ s_woken s' = s_woken s ++ pre.
Proof. exact semaphore_fifo_wake. Qed.
Print Assumptions c09_semaphore_fifo_wake.

Theorem c09_semaphore_arrival_order_refuted : ~ s_no_overtaking.
Proof. exact s_no_overtaking_refuted. Qed.
Print Assumptions c09_semaphore_arrival_order_refuted.

Theorem c09_semaphore_arrival_order_partial : forall cap ops c k now w rest, 0 < cap ->
  let s := s_run (s_init cap) ops in
  s_waiters s = w :: rest -> wamt w <= k -> snd (s_step s (SAcqStart c k now)) <> YDelay0.
Proof. exact s_no_overtaking_partial. Qed.
Print Assumptions c09_semaphore_arrival_order_partial.

Theorem c09_semaphore_wait_is_parked : forall s c k now, 1 <= k <= s_cap s -> s_count s < k ->
  snd (s_step s (SAcqStart c k now)) = YPark /\
  (forall ke now', w_find c (s_woken s) = Some ke -> snd (s_step s (SAcqResume c now')) = YDone).
Proof. exact semaphore_wait_is_parked. Qed.
Print Assumptions c09_semaphore_wait_is_parked.

(* ------------------------------------------------------------------ *)
(** * RWLock (clients release only locks they hold) *)

(** On the holders: at most one writer, a writer excludes every reader, readers
    never exceed max_readers, and the counters equal the holder sets. *)
Theorem c09_rwlock_exclusion : forall mx ops, max_ok mx -> rw_legit_run (rw_init mx) ops ->
  let s := rw_run (rw_init mx) ops in
  (length (rw_wr s) <= 1)%nat /\ (rw_wr s <> [] -> rw_rd s = []) /\
  le_max mx (Z.of_nat (length (rw_rd s))) /\
  Z.of_nat (length (rw_rd s)) = rw_readers s /\ (rw_wlocked s = true <-> rw_wr s <> []).
Proof. exact rwlock_exclusion. Qed.
Print Assumptions c09_rwlock_exclusion.

(** The head of the queue is really blocked in every reachable state. *)
Theorem c09_rwlock_no_stranding : forall mx ops, max_ok mx -> rw_legit_run (rw_init mx) ops ->
  rw_head (rw_run (rw_init mx) ops).
Proof. exact rwlock_no_stranding. Qed.
Print Assumptions c09_rwlock_no_stranding.

Theorem c09_rwlock_writer_preference : forall s c, has_waiting_writer s = true ->
  rw_try_read s c = (s, false) /\ snd (rw_step s (RWAcqRStart c 0)) = YPark.
Proof. exact rwlock_writer_preference. Qed.
Print Assumptions c09_rwlock_writer_preference.

Theorem c09_rwlock_fifo_wake : forall mx ops o wk, max_ok mx -> rw_legit_run (rw_init mx) ops ->
  let s := rw_run (rw_init mx) ops in
  snd (rw_step s o) = YWoken wk ->
  exists pre, rw_waiters s = pre ++ rw_waiters (fst (rw_step s o)) /\ wk = map wclient pre.
Proof. exact rwlock_fifo_wake. Qed.
Print Assumptions c09_rwlock_fifo_wake.

Theorem c09_rwlock_no_overtaking : forall mx ops c now, max_ok mx -> rw_legit_run (rw_init mx) ops ->
  let s := rw_run (rw_init mx) ops in
  (snd (rw_step s (RWAcqRStart c now)) = YDelay0 \/ snd (rw_step s (RWAcqWStart c now)) = YDelay0) ->
  rw_waiters s = [].
Proof. exact rwlock_no_overtaking. Qed.
Print Assumptions c09_rwlock_no_overtaking.

(* ------------------------------------------------------------------ *)
(** * Concurrency limiters *)

Theorem c09_limiter_static_bound : forall k limit ops, k <> KDynamic -> 1 <= limit ->
  let s := c_run (c_init k limit 1 None) ops in c_limit s = limit /\ 0 <= c_active s <= limit.
Proof. exact limiter_static_bound. Qed.
Print Assumptions c09_limiter_static_bound.

(** DynamicConcurrency: PARTIAL bound — relative to the limit in force (a
    scale-down below [active] is not an over-admission). *)
Theorem c09_limiter_dynamic_partial : forall limit mn mx ops, 1 <= mn -> mn <= limit ->
  match mx with None => True | Some m => mn <= m /\ limit <= m end ->
  let s := c_run (c_init KDynamic limit mn mx) ops in
  mn <= c_limit s /\ match mx with None => True | Some m => c_limit s <= m end /\ 0 <= c_active s /\
  (existsb is_setlimit ops = false -> c_limit s = limit /\ c_active s <= limit).
Proof. exact limiter_dynamic. Qed.
Print Assumptions c09_limiter_dynamic_partial.

Theorem c09_limiter_dynamic_acquire : forall s w, c_kind s = KDynamic ->
  snd (c_step s (CAcquire w)) = CTrue -> c_active (fst (c_step s (CAcquire w))) <= c_limit s.
Proof. exact limiter_dynamic_acquire. Qed.
Print Assumptions c09_limiter_dynamic_acquire.

(* ------------------------------------------------------------------ *)
(** * ConnectionPool (after the repair: the slot is counted before the set-up delay) *)

Theorem c09_pool_bound : forall mx mn polls ops, 0 <= mx ->
  let s := p_run (p_init mx mn polls) ops in
  Z.of_nat (length (p_active s)) <= mx /\ p_total s <= mx /\
  p_total s = Z.of_nat (length (p_idle s)) + Z.of_nat (length (p_active s)) + Z.of_nat (length (p_creating s)) /\
  NoDup (map fst (p_idle s) ++ p_active s) /\
  (p_waiters s <> [] -> p_idle s = [] /\ p_total s = mx).
Proof. exact pool_bound. Qed.
Print Assumptions c09_pool_bound.

Theorem c09_pool_fifo_handoff : forall s c conn now wid w rest, zmem conn (p_active s) = true ->
  p_waiters s = (wid, w) :: rest ->
  snd (p_step s (PRelease c conn now)) = PHandoff w /\
  p_waiters (fst (p_step s (PRelease c conn now))) = rest /\
  p_granted (fst (p_step s (PRelease c conn now))) = p_granted s ++ [(w, conn)] /\
  In conn (p_active (fst (p_step s (PRelease c conn now)))).
Proof. exact pool_fifo_handoff. Qed.
Print Assumptions c09_pool_fifo_handoff.

(** PARTIAL for "as soon as": the hand-off happens in the release step, but the
    queued client notices it only at its next poll tick. *)
Theorem c09_pool_grant_seen_at_next_poll_partial : forall s c k conn, assoc_find c (p_ticks s) = Some k ->
  assoc_find c (p_granted s) = Some conn -> snd (p_step s (PPoll c)) = PGot conn.
Proof. exact pool_poll_sees_grant. Qed.
Print Assumptions c09_pool_grant_seen_at_next_poll_partial.

(* ------------------------------------------------------------------ *)
(** * Bulkhead *)

Theorem c09_bulkhead_inv : forall mx mq mw ops, 1 <= mx -> 0 <= mq ->
  let s := b_run (b_init mx mq mw) ops in
  0 <= b_active s <= mx /\ b_active s = zlen (b_inflight s) /\ zlen (b_queue s) <= mq /\
  b_total s = b_accepted s + b_rejected s + b_timedout s + zlen (b_queue s) /\
  (b_queue s = [] \/ b_active s = mx).
Proof. exact bulkhead_inv. Qed.
Print Assumptions c09_bulkhead_inv.

Theorem c09_bulkhead_fifo : forall s now req enq item rest k, b_active s < b_max s -> b_expired s now enq = false ->
  snd (b_drain s now ((req, enq, item) :: rest) k) = BForwarded (b_next s + 1) item /\
  b_queue (fst (b_drain s now ((req, enq, item) :: rest) k)) = rest.
Proof. exact bulkhead_fifo. Qed.
Print Assumptions c09_bulkhead_fifo.

(* ------------------------------------------------------------------ *)
(** * Barrier *)

Theorem c09_barrier_waiting_bound : forall parties ops, 1 <= parties ->
  Z.of_nat (length (br_waiters (br_run (br_init parties) ops))) < parties.
Proof. exact barrier_waiting_bound. Qed.
Print Assumptions c09_barrier_waiting_bound.

Theorem c09_barrier_trip : forall s c now, br_broken s = false ->
  Z.of_nat (length (br_waiters s)) + 1 >= br_parties s ->
  let s' := fst (br_step s (BrWaitStart c now)) in
  snd (br_step s (BrWaitStart c now)) = BrTripped (map fst (br_waiters s)) /\
  br_waiters s' = [] /\ br_released s' = br_released s ++ br_waiters s /\ br_gen s' = br_gen s + 1.
Proof. exact barrier_trip. Qed.
Print Assumptions c09_barrier_trip.

Theorem c09_barrier_wait_is_parked : forall s c now, br_broken s = false ->
  Z.of_nat (length (br_waiters s)) + 1 < br_parties s ->
  (exists i, snd (br_step s (BrWaitStart c now)) = BrParked i) /\
  (forall enq now', assoc_find c (br_released s) = Some enq -> snd (br_step s (BrWaitResume c now')) = BrReturned).
Proof. exact barrier_wait_is_parked. Qed.
Print Assumptions c09_barrier_wait_is_parked.

(* ---------------- code level: server/concurrency.py as regenerated by py2coq ---------------- *)

(** FixedConcurrency / DynamicConcurrency / WeightedConcurrency of components/server/concurrency.py,
    as REGENERATED from the source on every run (Gen/ConcurrencyGen.v): every operation — acquire,
    release, has_capacity with ANY weight, set_limit, scale_up, scale_down — acts on the object as the
    limiter model's [c_step] acts on its abstraction [st_of], with the model's result; the read-only
    properties active / limit / available are the model's. *)
Theorem c09_code_limiters_refine_model : forall c o,
  (st_of (fst (code_c_step c o)) = fst (c_step (st_of c) o) /\ snd (code_c_step c o) = snd (c_step (st_of c) o))
  /\ match c with
     | LFixed x => FixedConcurrency_active x = c_active (st_of c) /\ FixedConcurrency_limit x = c_limit (st_of c)
                   /\ FixedConcurrency_available x = c_available (st_of c)
     | LDyn x => DynamicConcurrency_active x = c_active (st_of c) /\ DynamicConcurrency_limit x = c_limit (st_of c)
                 /\ DynamicConcurrency_available x = c_available (st_of c)
     | LWeighted x => WeightedConcurrency_active x = c_active (st_of c) /\ WeightedConcurrency_limit x = c_limit (st_of c)
                      /\ WeightedConcurrency_available x = c_available (st_of c)
     end.
Proof. intros c o. exact (conj (tie_c_step c o) (tie_c_reads c)). Qed.
Print Assumptions c09_code_limiters_refine_model.

(** The limiters AS TRANSLATED never exceed their limit: created empty with a limit >= 1, FixedConcurrency and
    WeightedConcurrency keep 0 <= in use <= limit for EVERY sequence of operations with any weights,
    and the limit never changes. *)
Theorem c09_code_limiter_static_bound : forall limit ops, 1 <= limit ->
  (let s := st_of (code_c_run (LFixed (mkFixedConcurrency limit 0)) ops) in c_limit s = limit /\ 0 <= c_active s <= limit)
  /\ (let s := st_of (code_c_run (LWeighted (mkWeightedConcurrency limit 0)) ops) in c_limit s = limit /\ 0 <= c_active s <= limit).
Proof. exact code_limiter_static_bound. Qed.
Print Assumptions c09_code_limiter_static_bound.

(** A successful acquire of the translated DynamicConcurrency never takes the count above the limit in force. *)
Theorem c09_code_limiter_dynamic_acquire : forall c w,
  snd (code_c_step (LDyn c) (CAcquire w)) = CTrue ->
  c_active (st_of (fst (code_c_step (LDyn c) (CAcquire w)))) <= c_limit (st_of (LDyn c)).
Proof. exact code_limiter_dynamic_acquire. Qed.
Print Assumptions c09_code_limiter_dynamic_acquire.
