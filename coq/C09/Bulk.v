(** C09 — proofs about the Bulkhead model. *)
From HS Require Import Base.Prelude C09.Model.
Local Open Scope Z_scope.

Definition zlen {A} (l : list A) : Z := Z.of_nat (length l).
Arguments zlen : simpl never.

Record binv (s : bstate) : Prop := {
  bi_act : b_active s = zlen (b_inflight s);
  bi_max : b_active s <= b_max s;
  bi_q : zlen (b_queue s) <= Z.max 0 (b_maxq s);
  bi_cons : b_total s = b_accepted s + b_rejected s + b_timedout s + zlen (b_queue s);
  bi_strand : b_queue s = [] \/ b_active s >= b_max s;
}.

Lemma binv_init mx mq mw : 0 <= mx -> binv (b_init mx mq mw).
Proof. intros; constructor; unfold zlen; cbn; auto; lia. Qed.

Lemma zlen_app {A} (a b : list A) : zlen (a ++ b) = zlen a + zlen b.
Proof. unfold zlen. rewrite app_length. lia. Qed.
Lemma zlen_cons {A} (x : A) l : zlen (x :: l) = 1 + zlen l.
Proof. unfold zlen. cbn [length]. lia. Qed.
Lemma zlen_nonneg {A} (l : list A) : 0 <= zlen l.
Proof. unfold zlen. lia. Qed.

Lemma assoc_remove_len c l v : assoc_find c l = Some v -> zlen (assoc_remove c l) = zlen l - 1.
Proof.
  unfold zlen. induction l as [|[i w] r IH]; cbn [assoc_find assoc_remove]; [discriminate|].
  destruct (i =? c); intros F; cbn [length]; [lia|]. specialize (IH F). lia.
Qed.

Lemma q_remove_len req q : q_mem req q = true -> zlen (q_remove req q) = zlen q - 1.
Proof.
  unfold zlen, q_mem. induction q as [|[[r e] i] rest IH]; cbn [existsb q_remove fst]; [discriminate|].
  destruct (r =? req) eqn:E; cbn [orb length]; intros M; [lia|]. specialize (IH M). lia.
Qed.

(** The drain loop: every queued request it touches is forwarded (at most one),
    counted as timed out, or left in the queue. *)
Lemma b_drain_spec now : forall q s k,
  b_active s = zlen (b_inflight s) -> b_active s <= b_max s -> (q = [] \/ b_active s + 1 >= b_max s) ->
  let s' := fst (b_drain s now q k) in
  b_active s' = zlen (b_inflight s') /\ b_active s' <= b_max s' /\
  b_accepted s' + b_timedout s' + zlen (b_queue s') = b_accepted s + b_timedout s + k + zlen q /\
  zlen (b_queue s') <= zlen q /\
  (b_queue s' = [] \/ b_active s' >= b_max s') /\
  b_total s' = b_total s /\ b_rejected s' = b_rejected s /\ b_max s' = b_max s /\ b_maxq s' = b_maxq s.
Proof.
  induction q as [|[[req enq] item] rest IH]; intros s k Ha Hm Hq; cbn.
  - repeat split; auto; try lia.
  - destruct (b_active s >=? b_max s) eqn:E; cbn.
    + repeat split; auto; try lia.
    + destruct (b_expired s now enq) eqn:X.
      * assert (Hq' : rest = [] \/ b_active s + 1 >= b_max s) by (destruct Hq as [Hq|Hq]; [discriminate|auto]).
        specialize (IH s (k + 1) Ha Hm Hq'). cbn in IH.
        destruct IH as (I1 & I2 & I3 & I4 & I5 & I6 & I7 & I8 & I9).
        rewrite zlen_cons. repeat split; auto; try lia.
      * unfold b_forward; cbn. rewrite zlen_app, !zlen_cons. change (zlen (@nil (Z * Z))) with 0.
        repeat split; auto; try lia.
        destruct Hq as [Hq|Hq]; [discriminate|right; lia].
Qed.

Lemma binv_step s o : 1 <= b_max s -> binv s -> binv (fst (b_step s o)) /\ b_max (fst (b_step s o)) = b_max s /\ b_maxq (fst (b_step s o)) = b_maxq s.
Proof.
  intros Hmx I. destruct I. destruct o as [item now|req now|req now]; cbn.
  - destruct (b_active s <? b_max s) eqn:E1; cbn.
    + split; [|auto]. constructor; cbn; auto; try lia.
      * rewrite zlen_app. unfold zlen at 2; cbn. lia.
      * destruct bi_strand0 as [->|H]; [left; auto|lia].
    + destruct (Z.of_nat (length (b_queue s)) <? b_maxq s) eqn:E2; cbn.
      * split; [|auto]. constructor; cbn; auto; try lia.
        -- rewrite zlen_app. unfold zlen in *; cbn. lia.
        -- rewrite zlen_app. unfold zlen at 2; cbn. lia.
      * split; [|auto]. constructor; cbn; auto; try lia.
  - destruct (assoc_find req (b_inflight s)) as [it|] eqn:F; cbn; [|split; [constructor; auto|auto]].
    pose proof (assoc_remove_len _ _ _ F) as Hl. pose proof (zlen_nonneg (assoc_remove req (b_inflight s))).
    match goal with |- context [b_drain ?s1 ?n ?q ?k] => pose proof (b_drain_spec n q s1 k) as D end.
    cbn in D. destruct D as (D1 & D2 & D3 & D4 & D5 & D6 & D7 & D8 & D9); try lia.
    { destruct bi_strand0 as [->|Hs]; [left; auto|right; lia]. }
    split; [|split; auto]. constructor; auto; try lia; rewrite ?D8, ?D9; cbn; auto; try lia.
  - destruct (q_mem req (b_queue s)) eqn:M; cbn; [|split; [constructor; auto|auto]].
    pose proof (q_remove_len _ _ M) as Hl. pose proof (zlen_nonneg (q_remove req (b_queue s))).
    split; [|auto]. constructor; cbn; auto; try lia.
    destruct bi_strand0 as [Hq|H']; [rewrite Hq in M; discriminate|right; auto].
Qed.

Lemma binv_run ops : forall s, 1 <= b_max s -> binv s ->
  binv (b_run s ops) /\ b_max (b_run s ops) = b_max s /\ b_maxq (b_run s ops) = b_maxq s.
Proof.
  induction ops as [|o r IH]; cbn; intros s Hm I; auto.
  destruct (binv_step s o Hm I) as (I' & M & Q). destruct (IH (fst (b_step s o))) as (? & H2 & H3); auto; try lia.
  split; auto. split; [rewrite H2; auto|rewrite H3; auto].
Qed.

(** active <= max_concurrent, queue <= max_wait_queue, every request is in
    exactly one of {forwarded, rejected, timed out, queued}, and nobody is queued
    while a slot is free. *)
Lemma bulkhead_inv mx mq mw ops : 1 <= mx -> 0 <= mq ->
  let s := b_run (b_init mx mq mw) ops in
  0 <= b_active s <= mx /\ b_active s = zlen (b_inflight s) /\ zlen (b_queue s) <= mq /\
  b_total s = b_accepted s + b_rejected s + b_timedout s + zlen (b_queue s) /\
  (b_queue s = [] \/ b_active s = mx).
Proof.
  intros H1 H2. cbn. destruct (binv_run ops (b_init mx mq mw)) as (I & M & Q); cbn; auto.
  { apply binv_init; lia. }
  cbn in M, Q. destruct I. rewrite M, Q in *. pose proof (zlen_nonneg (b_inflight (b_run (b_init mx mq mw) ops))).
  repeat split; auto; try lia. destruct bi_strand0; [left; auto|right; lia].
Qed.

(** FIFO: the response step forwards the oldest queued request that has not expired. *)
Lemma bulkhead_fifo s now req enq item rest k : b_active s < b_max s -> b_expired s now enq = false ->
  snd (b_drain s now ((req, enq, item) :: rest) k) = BForwarded (b_next s + 1) item /\
  b_queue (fst (b_drain s now ((req, enq, item) :: rest) k)) = rest.
Proof.
  intros A X. cbn. destruct (b_active s >=? b_max s) eqn:E; [lia|]. rewrite X. cbn. auto.
Qed.
