(** C09 — executable models of the capacity primitives of happy-simulator.

    Definitions only (no proofs), so that the model still runs when a proof
    breaks.  Every primitive is a pure state machine with the branch structure
    of the Python code; an *operation* is one call of a public method made by
    some client process, so "for every interleaving of acquire and release
    calls by any number of processes" is "for every list of operations".
    Client/waiter/grant identities are creation indices ([Z]); simulated time is
    an explicit input of every operation ([now], nanoseconds; [-1] when the
    entity has no clock, as [Resource._current_time_ns] returns).

    Blocking: a blocked caller is an entry of the primitive's wait queue.  The
    operation that takes it out of the queue reports it in its [woken] output;
    in the code that is the call of the waiter's callback / the
    [SimFuture.resolve] that makes the engine schedule the waiter's resume at the
    current instant.  *)
From HS Require Import Base.Prelude.
Local Open Scope Z_scope.

Fixpoint zsum (l : list Z) : Z := match l with [] => 0 | x :: r => x + zsum r end.

(* ================================================================== *)
(** * Resource  (happysimulator/components/resource.py) *)

(** A queued acquire ([_Waiter]): id of the future, amount, enqueue time. *)
Definition rwaiter := (Z * Z * Z)%type.

Record rstate := {
  r_cap : Z;                       (* _capacity *)
  r_avail : Z;                     (* _available *)
  r_waiters : list rwaiter;        (* _waiters (deque, head first) *)
  r_held : list (Z * Z);           (* unreleased Grant objects: id, amount *)
  r_next : Z;                      (* next future/grant id (creation index) *)
  r_acq : Z; r_rel : Z; r_cont : Z;(* _acquisitions, _releases, _contentions *)
  r_wait : Z;                      (* _total_wait_time_ns *)
  r_peakw : Z;                     (* _peak_waiters *)
}.

Definition r_init (cap : Z) : rstate :=
  {| r_cap := cap; r_avail := cap; r_waiters := []; r_held := []; r_next := 0;
     r_acq := 0; r_rel := 0; r_cont := 0; r_wait := 0; r_peakw := 0 |}.

Inductive rop :=
| RAcquire (now amt : Z)           (* resource.acquire(amt) *)
| RTry (now amt : Z)               (* resource.try_acquire(amt) *)
| RRelease (now gid : Z)           (* grant.release() of the grant with id gid (idempotent) *)
| RForce (now amt : Z).            (* resource._do_release(amt) without a grant (malformed caller) *)

Inductive rout :=
| OErr                             (* ValueError *)
| OGranted (id : Z)                (* future pre-resolved / Grant returned *)
| OQueued (id : Z)                 (* future pending *)
| ONone                            (* try_acquire returned None *)
| OReleased (woken : list Z)       (* capacity returned; futures resolved, in order *)
| ONoop.                           (* release of a released (or unknown) grant *)

(** [_wake_waiters]: strict FIFO, stop at the first waiter that does not fit.
    Returns the new available amount, the remaining queue, the grants created
    (in order) and the wait time accumulated. *)
Fixpoint r_wake (now avail : Z) (ws : list rwaiter) : Z * list rwaiter * list (Z * Z) * Z :=
  match ws with
  | [] => (avail, [], [], 0)
  | (id, amt, enq) :: rest =>
      if avail >=? amt then
        let '(a', ws', gs, wt) := r_wake now (avail - amt) rest in
        (a', ws', (id, amt) :: gs,
         (if (enq >=? 0) && (now >=? 0) then now - enq else 0) + wt)
      else (avail, ws, [], 0)
  end.

Fixpoint held_find (gid : Z) (h : list (Z * Z)) : option Z :=
  match h with
  | [] => None
  | (i, a) :: r => if i =? gid then Some a else held_find gid r
  end.
Fixpoint held_remove (gid : Z) (h : list (Z * Z)) : list (Z * Z) :=
  match h with
  | [] => []
  | (i, a) :: r => if i =? gid then r else (i, a) :: held_remove gid r
  end.

(** [_do_release(amount)] on a state whose grant bookkeeping is already updated. *)
Definition r_do_release (s : rstate) (now amt : Z) : rstate * rout :=
  if r_avail s + amt >? r_cap s then (s, OErr)
  else
    let '(a', ws', gs, wt) := r_wake now (r_avail s + amt) (r_waiters s) in
    ({| r_cap := r_cap s; r_avail := a'; r_waiters := ws';
        r_held := r_held s ++ gs; r_next := r_next s;
        r_acq := r_acq s + Z.of_nat (length gs); r_rel := r_rel s + 1; r_cont := r_cont s;
        r_wait := r_wait s + wt; r_peakw := r_peakw s |},
     OReleased (map fst gs)).

Definition r_step (s : rstate) (o : rop) : rstate * rout :=
  match o with
  | RAcquire now amt =>
      if amt <=? 0 then (s, OErr)
      else if amt >? r_cap s then (s, OErr)
      else if r_avail s >=? amt then
        ({| r_cap := r_cap s; r_avail := r_avail s - amt; r_waiters := r_waiters s;
            r_held := r_held s ++ [(r_next s, amt)]; r_next := r_next s + 1;
            r_acq := r_acq s + 1; r_rel := r_rel s; r_cont := r_cont s;
            r_wait := r_wait s; r_peakw := r_peakw s |}, OGranted (r_next s))
      else
        let ws := r_waiters s ++ [(r_next s, amt, now)] in
        ({| r_cap := r_cap s; r_avail := r_avail s; r_waiters := ws;
            r_held := r_held s; r_next := r_next s + 1;
            r_acq := r_acq s; r_rel := r_rel s; r_cont := r_cont s + 1;
            r_wait := r_wait s; r_peakw := Z.max (r_peakw s) (Z.of_nat (length ws)) |},
         OQueued (r_next s))
  | RTry now amt =>
      if amt <=? 0 then (s, OErr)
      else if amt >? r_cap s then (s, OErr)
      else if r_avail s >=? amt then
        ({| r_cap := r_cap s; r_avail := r_avail s - amt; r_waiters := r_waiters s;
            r_held := r_held s ++ [(r_next s, amt)]; r_next := r_next s + 1;
            r_acq := r_acq s + 1; r_rel := r_rel s; r_cont := r_cont s;
            r_wait := r_wait s; r_peakw := r_peakw s |}, OGranted (r_next s))
      else (s, ONone)
  | RRelease now gid =>
      match held_find gid (r_held s) with
      | None => (s, ONoop)                       (* Grant._released already True *)
      | Some amt =>
          (* Grant.release sets _released before calling _do_release; if
             _do_release raises, the grant stays marked released. *)
          let s1 := {| r_cap := r_cap s; r_avail := r_avail s; r_waiters := r_waiters s;
                       r_held := held_remove gid (r_held s); r_next := r_next s;
                       r_acq := r_acq s; r_rel := r_rel s; r_cont := r_cont s;
                       r_wait := r_wait s; r_peakw := r_peakw s |} in
          r_do_release s1 now amt
      end
  | RForce now amt => r_do_release s now amt
  end.

Fixpoint r_run (s : rstate) (ops : list rop) : rstate :=
  match ops with [] => s | o :: r => r_run (fst (r_step s o)) r end.

(** All outputs of a run, oldest first. *)
Fixpoint r_outs (s : rstate) (ops : list rop) : list rout :=
  match ops with [] => [] | o :: r => snd (r_step s o) :: r_outs (fst (r_step s o)) r end.

Definition is_force (o : rop) : bool := match o with RForce _ _ => true | _ => false end.

(** ** Correspondence: one observation per operation. *)
Definition rout_code (o : rout) : Z * list Z :=
  match o with
  | OErr => (0, []) | OGranted i => (1, [i]) | OQueued i => (2, []) | ONone => (3, [])
  | OReleased w => (4, w) | ONoop => (5, [])
  end.

(** (result code, ids resolved in this step in order, available, waiter amounts,
     sum of live grants, [acquisitions; releases; contentions; total_wait; peak_waiters]) *)
Definition robs := (Z * list Z * Z * list Z * Z * list Z)%type.

Definition r_view (s : rstate) (o : rout) : robs :=
  (fst (rout_code o), snd (rout_code o), r_avail s, map (fun w => snd (fst w)) (r_waiters s),
   zsum (map snd (r_held s)), [r_acq s; r_rel s; r_cont s; r_wait s; r_peakw s]).

Definition zlist_eqb := list_eqb Z.eqb.
Definition robs_eqb (a b : robs) : bool :=
  let '(c1, i1, a1, w1, h1, k1) := a in
  let '(c2, i2, a2, w2, h2, k2) := b in
  (c1 =? c2) && zlist_eqb i1 i2 && (a1 =? a2) && zlist_eqb w1 w2 && (h1 =? h2) && zlist_eqb k1 k2.

Fixpoint r_check (s : rstate) (steps : list (rop * robs)) : bool :=
  match steps with
  | [] => true
  | (o, ob) :: r =>
      let '(s', out) := r_step s o in
      robs_eqb (r_view s' out) ob && r_check s' r
  end.

(** A queued acquire's future resolves only later, so an [OQueued] step lists no
    resolved id (ids are creation indices on both sides). *)
Definition ok_resource (c : Z * list (rop * robs)) : bool :=
  r_check (r_init (fst c)) (snd c).
