(** C09 — executable models of the capacity primitives of happy-simulator.

    Definitions only (no proofs), so that the model still runs when a proof
    breaks.  Every primitive is a pure state machine with the branch structure
    of the Python code; an *operation* is one call of a public method made by
    some client process, so "for every interleaving of acquire and release
    calls by any number of processes" is "for every list of operations".
    Client/waiter/grant identities are creation indices ([Z]); simulated time is
    an explicit input of every operation ([now], nanoseconds; [-1] when the
    entity has no clock, as [Resource._current_time_ns] returns).

    Blocking: a blocked caller is an entry of the primitive's wait queue.  The
    operation that takes it out of the queue reports it in its [woken] output;
    in the code that is the call of the waiter's callback / the
    [SimFuture.resolve] that makes the engine schedule the waiter's resume at the
    current instant.  *)
From HS Require Import Base.Prelude.
Local Open Scope Z_scope.

Fixpoint zsum (l : list Z) : Z := match l with [] => 0 | x :: r => x + zsum r end.

(* ================================================================== *)
(** * Resource  (happysimulator/components/resource.py) *)

(** A queued acquire ([_Waiter]): id of the future, amount, enqueue time. *)
Definition rwaiter := (Z * Z * Z)%type.

Record rstate := {
  r_cap : Z;                       (* _capacity *)
  r_avail : Z;                     (* _available *)
  r_waiters : list rwaiter;        (* _waiters (deque, head first) *)
  r_held : list (Z * Z);           (* unreleased Grant objects: id, amount *)
  r_next : Z;                      (* next future/grant id (creation index) *)
  r_acq : Z; r_rel : Z; r_cont : Z;(* _acquisitions, _releases, _contentions *)
  r_wait : Z;                      (* _total_wait_time_ns *)
  r_peakw : Z;                     (* _peak_waiters *)
}.

Definition r_init (cap : Z) : rstate :=
  {| r_cap := cap; r_avail := cap; r_waiters := []; r_held := []; r_next := 0;
     r_acq := 0; r_rel := 0; r_cont := 0; r_wait := 0; r_peakw := 0 |}.

Inductive rop :=
| RAcquire (now amt : Z)           (* resource.acquire(amt) *)
| RTry (now amt : Z)               (* resource.try_acquire(amt) *)
| RRelease (now gid : Z)           (* grant.release() of the grant with id gid (idempotent) *)
| RForce (now amt : Z).            (* resource._do_release(amt) without a grant (malformed caller) *)

Inductive rout :=
| OErr                             (* ValueError *)
| OGranted (id : Z)                (* future pre-resolved / Grant returned *)
| OQueued (id : Z)                 (* future pending *)
| ONone                            (* try_acquire returned None *)
| OReleased (woken : list Z)       (* capacity returned; futures resolved, in order *)
| ONoop.                           (* release of a released (or unknown) grant *)

(** [_wake_waiters]: strict FIFO, stop at the first waiter that does not fit.
    Returns the new available amount, the remaining queue, the grants created
    (in order) and the wait time accumulated. *)
Fixpoint r_wake (now avail : Z) (ws : list rwaiter) : Z * list rwaiter * list (Z * Z) * Z :=
  match ws with
  | [] => (avail, [], [], 0)
  | (id, amt, enq) :: rest =>
      if avail >=? amt then
        let '(a', ws', gs, wt) := r_wake now (avail - amt) rest in
        (a', ws', (id, amt) :: gs,
         (if (enq >=? 0) && (now >=? 0) then now - enq else 0) + wt)
      else (avail, ws, [], 0)
  end.

Fixpoint held_find (gid : Z) (h : list (Z * Z)) : option Z :=
  match h with
  | [] => None
  | (i, a) :: r => if i =? gid then Some a else held_find gid r
  end.
Fixpoint held_remove (gid : Z) (h : list (Z * Z)) : list (Z * Z) :=
  match h with
  | [] => []
  | (i, a) :: r => if i =? gid then r else (i, a) :: held_remove gid r
  end.

(** [_do_release(amount)] on a state whose grant bookkeeping is already updated. *)
Definition r_do_release (s : rstate) (now amt : Z) : rstate * rout :=
  if r_avail s + amt >? r_cap s then (s, OErr)
  else
    let '(a', ws', gs, wt) := r_wake now (r_avail s + amt) (r_waiters s) in
    ({| r_cap := r_cap s; r_avail := a'; r_waiters := ws';
        r_held := r_held s ++ gs; r_next := r_next s;
        r_acq := r_acq s + Z.of_nat (length gs); r_rel := r_rel s + 1; r_cont := r_cont s;
        r_wait := r_wait s + wt; r_peakw := r_peakw s |},
     OReleased (map fst gs)).

Definition r_step (s : rstate) (o : rop) : rstate * rout :=
  match o with
  | RAcquire now amt =>
      if amt <=? 0 then (s, OErr)
      else if amt >? r_cap s then (s, OErr)
      else if r_avail s >=? amt then
        ({| r_cap := r_cap s; r_avail := r_avail s - amt; r_waiters := r_waiters s;
            r_held := r_held s ++ [(r_next s, amt)]; r_next := r_next s + 1;
            r_acq := r_acq s + 1; r_rel := r_rel s; r_cont := r_cont s;
            r_wait := r_wait s; r_peakw := r_peakw s |}, OGranted (r_next s))
      else
        let ws := r_waiters s ++ [(r_next s, amt, now)] in
        ({| r_cap := r_cap s; r_avail := r_avail s; r_waiters := ws;
            r_held := r_held s; r_next := r_next s + 1;
            r_acq := r_acq s; r_rel := r_rel s; r_cont := r_cont s + 1;
            r_wait := r_wait s; r_peakw := Z.max (r_peakw s) (Z.of_nat (length ws)) |},
         OQueued (r_next s))
  | RTry now amt =>
      if amt <=? 0 then (s, OErr)
      else if amt >? r_cap s then (s, OErr)
      else if r_avail s >=? amt then
        ({| r_cap := r_cap s; r_avail := r_avail s - amt; r_waiters := r_waiters s;
            r_held := r_held s ++ [(r_next s, amt)]; r_next := r_next s + 1;
            r_acq := r_acq s + 1; r_rel := r_rel s; r_cont := r_cont s;
            r_wait := r_wait s; r_peakw := r_peakw s |}, OGranted (r_next s))
      else (s, ONone)
  | RRelease now gid =>
      match held_find gid (r_held s) with
      | None => (s, ONoop)                       (* Grant._released already True *)
      | Some amt =>
          (* Grant.release sets _released before calling _do_release; if
             _do_release raises, the grant stays marked released. *)
          let s1 := {| r_cap := r_cap s; r_avail := r_avail s; r_waiters := r_waiters s;
                       r_held := held_remove gid (r_held s); r_next := r_next s;
                       r_acq := r_acq s; r_rel := r_rel s; r_cont := r_cont s;
                       r_wait := r_wait s; r_peakw := r_peakw s |} in
          r_do_release s1 now amt
      end
  | RForce now amt => r_do_release s now amt
  end.

Fixpoint r_run (s : rstate) (ops : list rop) : rstate :=
  match ops with [] => s | o :: r => r_run (fst (r_step s o)) r end.

(** All outputs of a run, oldest first. *)
Fixpoint r_outs (s : rstate) (ops : list rop) : list rout :=
  match ops with [] => [] | o :: r => snd (r_step s o) :: r_outs (fst (r_step s o)) r end.

Definition is_force (o : rop) : bool := match o with RForce _ _ => true | _ => false end.

(** ** Correspondence: one observation per operation. *)
Definition rout_code (o : rout) : Z * list Z :=
  match o with
  | OErr => (0, []) | OGranted i => (1, [i]) | OQueued i => (2, []) | ONone => (3, [])
  | OReleased w => (4, w) | ONoop => (5, [])
  end.

(** (result code, ids resolved in this step in order, available, waiter amounts,
     sum of live grants, [acquisitions; releases; contentions; total_wait; peak_waiters]) *)
Definition robs := (Z * list Z * Z * list Z * Z * list Z)%type.

Definition r_view (s : rstate) (o : rout) : robs :=
  (fst (rout_code o), snd (rout_code o), r_avail s, map (fun w => snd (fst w)) (r_waiters s),
   zsum (map snd (r_held s)), [r_acq s; r_rel s; r_cont s; r_wait s; r_peakw s]).

Definition zlist_eqb := list_eqb Z.eqb.
Definition robs_eqb (a b : robs) : bool :=
  let '(c1, i1, a1, w1, h1, k1) := a in
  let '(c2, i2, a2, w2, h2, k2) := b in
  (c1 =? c2) && zlist_eqb i1 i2 && (a1 =? a2) && zlist_eqb w1 w2 && (h1 =? h2) && zlist_eqb k1 k2.

Fixpoint r_check (s : rstate) (steps : list (rop * robs)) : bool :=
  match steps with
  | [] => true
  | (o, ob) :: r =>
      let '(s', out) := r_step s o in
      robs_eqb (r_view s' out) ob && r_check s' r
  end.

(** A queued acquire's future resolves only later, so an [OQueued] step lists no
    resolved id (ids are creation indices on both sides). *)
Definition ok_resource (c : Z * list (rop * robs)) : bool :=
  r_check (r_init (fst c)) (snd c).

(* ================================================================== *)
(** * Blocking generators of sync/*  (after the repair of the spin waits)

    [acquire()] is a generator.  Its first step either takes the lock and
    yields [0.0] ([YDelay0]; the next resume returns) or enqueues a waiter and
    yields a SimFuture ([YPark]).  The release that pops the waiter calls its
    callback (flag := True, future resolved: reported in [woken]); the engine
    then resumes the generator ([...Resume] operation), which leaves the
    [while not acquired[0]] loop and finishes ([YDone]).  A resume whose flag is
    not set would park again ([YPark]).  *)
Inductive ykind := YDelay0 | YPark | YDone | YErr | YTrue | YFalse | YWoken (ids : list Z).

Definition ykind_code (y : ykind) : Z * list Z :=
  match y with
  | YDelay0 => (0, []) | YPark => (1, []) | YDone => (2, []) | YErr => (3, [])
  | YTrue => (4, []) | YFalse => (5, []) | YWoken l => (6, l)
  end.

(** Generic observation of one traced step: (result code, woken ids, counters). *)
Definition sobs := (Z * list Z * list Z)%type.
Definition sobs_eqb (a b : sobs) : bool :=
  let '(c1, w1, k1) := a in let '(c2, w2, k2) := b in
  (c1 =? c2) && zlist_eqb w1 w2 && zlist_eqb k1 k2.
Definition mk_sobs (y : ykind) (k : list Z) : sobs := (fst (ykind_code y), snd (ykind_code y), k).

Fixpoint assoc_find (c : Z) (l : list (Z * Z)) : option Z :=
  match l with [] => None | (i, v) :: r => if i =? c then Some v else assoc_find c r end.
Fixpoint assoc_remove (c : Z) (l : list (Z * Z)) : list (Z * Z) :=
  match l with [] => [] | (i, v) :: r => if i =? c then r else (i, v) :: assoc_remove c r end.
Fixpoint zremove (c : Z) (l : list Z) : list Z :=
  match l with [] => [] | i :: r => if i =? c then r else i :: zremove c r end.
Definition zmem (c : Z) (l : list Z) : bool := existsb (Z.eqb c) l.
Definition b2z (b : bool) : Z := if b then 1 else 0.

(* ------------------------------------------------------------------ *)
(** ** Mutex  (components/sync/mutex.py) *)
Record mstate := {
  m_locked : bool;                 (* _locked *)
  m_owner : Z;                     (* _owner; -1 = None *)
  m_waiters : list (Z * Z);        (* _waiters: client, enqueue time *)
  m_woken : list (Z * Z);          (* callbacks fired, generator not resumed yet: client, enqueue time *)
  m_acq : Z; m_cont : Z; m_rel : Z; m_wait : Z;
  m_cs : list Z;                   (* ghost: clients whose acquire completed and who have not released *)
}.
Definition m_init : mstate :=
  {| m_locked := false; m_owner := -1; m_waiters := []; m_woken := []; m_acq := 0; m_cont := 0;
     m_rel := 0; m_wait := 0; m_cs := [] |}.

Inductive mop :=
| MTry (c : Z)                     (* try_acquire(owner=c) *)
| MAcqStart (c now : Z)            (* first step of acquire(owner=c) *)
| MAcqResume (c now : Z)           (* resume of a parked acquire *)
| MRelease (c now : Z).            (* release() called by client c *)

Definition m_try (s : mstate) (c : Z) : mstate * bool :=
  if m_locked s then (s, false)
  else ({| m_locked := true; m_owner := c; m_waiters := m_waiters s; m_woken := m_woken s;
           m_acq := m_acq s + 1; m_cont := m_cont s; m_rel := m_rel s; m_wait := m_wait s;
           m_cs := c :: m_cs s |}, true).

Definition m_step (s : mstate) (o : mop) : mstate * ykind :=
  match o with
  | MTry c => let '(s', b) := m_try s c in (s', if b then YTrue else YFalse)
  | MAcqStart c now =>
      let '(s', b) := m_try s c in
      if b then (s', YDelay0)
      else ({| m_locked := m_locked s; m_owner := m_owner s; m_waiters := m_waiters s ++ [(c, now)];
               m_woken := m_woken s; m_acq := m_acq s; m_cont := m_cont s + 1; m_rel := m_rel s;
               m_wait := m_wait s; m_cs := m_cs s |}, YPark)
  | MAcqResume c now =>
      match assoc_find c (m_woken s) with
      | None => (s, YPark)
      | Some enq =>
          ({| m_locked := m_locked s; m_owner := c; m_waiters := m_waiters s;
              m_woken := assoc_remove c (m_woken s); m_acq := m_acq s + 1; m_cont := m_cont s;
              m_rel := m_rel s; m_wait := m_wait s + (now - enq); m_cs := c :: m_cs s |}, YDone)
      end
  | MRelease c now =>
      if negb (m_locked s) then (s, YErr)
      else match m_waiters s with
           | (w, enq) :: rest =>
               ({| m_locked := true; m_owner := -1; m_waiters := rest; m_woken := m_woken s ++ [(w, enq)];
                   m_acq := m_acq s; m_cont := m_cont s; m_rel := m_rel s + 1; m_wait := m_wait s;
                   m_cs := zremove c (m_cs s) |}, YWoken [w])
           | [] =>
               ({| m_locked := false; m_owner := -1; m_waiters := []; m_woken := m_woken s;
                   m_acq := m_acq s; m_cont := m_cont s; m_rel := m_rel s + 1; m_wait := m_wait s;
                   m_cs := zremove c (m_cs s) |}, YWoken [])
           end
  end.

Fixpoint m_run (s : mstate) (ops : list mop) : mstate :=
  match ops with [] => s | o :: r => m_run (fst (m_step s o)) r end.

(** counters: [locked; owner; #waiters; acquisitions; contentions; releases; total_wait] *)
Definition m_view (s : mstate) (y : ykind) : sobs :=
  mk_sobs y [b2z (m_locked s); m_owner s; Z.of_nat (length (m_waiters s)); m_acq s; m_cont s; m_rel s; m_wait s].
Fixpoint m_check (s : mstate) (steps : list (mop * sobs)) : bool :=
  match steps with
  | [] => true
  | (o, ob) :: r => let '(s', y) := m_step s o in sobs_eqb (m_view s' y) ob && m_check s' r
  end.
Definition ok_mutex (c : list (mop * sobs)) : bool := m_check m_init c.

(* ------------------------------------------------------------------ *)
(** ** Semaphore  (components/sync/semaphore.py) *)

(** The wake loop shared by Semaphore (and the same loop as [r_wake]): take
    waiters from the head while they fit. Returns (available, woken, rest). *)
Fixpoint q_wake (avail : Z) (ws : list rwaiter) : Z * list rwaiter * list rwaiter :=
  match ws with
  | [] => (avail, [], [])
  | (id, amt, enq) :: rest =>
      if avail >=? amt then
        let '(a', pre, ws') := q_wake (avail - amt) rest in (a', (id, amt, enq) :: pre, ws')
      else (avail, [], ws)
  end.

Record sstate := {
  s_cap : Z; s_count : Z;
  s_waiters : list rwaiter;        (* client, count, enqueue time *)
  s_woken : list rwaiter;          (* callbacks fired, generator not resumed yet *)
  s_acq : Z; s_rel : Z; s_cont : Z; s_wait : Z; s_peakw : Z;
  s_out : Z;                       (* ghost: permits handed out (try/immediate/wake) and not released *)
}.
Definition s_init (cap : Z) : sstate :=
  {| s_cap := cap; s_count := cap; s_waiters := []; s_woken := []; s_acq := 0; s_rel := 0;
     s_cont := 0; s_wait := 0; s_peakw := 0; s_out := 0 |}.

Inductive sop :=
| STry (c k : Z)
| SAcqStart (c k now : Z)
| SAcqResume (c now : Z)
| SRelease (k now : Z).

Fixpoint w_find (c : Z) (l : list rwaiter) : option (Z * Z) :=
  match l with [] => None | (i, k, e) :: r => if i =? c then Some (k, e) else w_find c r end.
Fixpoint w_remove (c : Z) (l : list rwaiter) : list rwaiter :=
  match l with [] => [] | (i, k, e) :: r => if i =? c then r else (i, k, e) :: w_remove c r end.

Definition s_try (s : sstate) (k : Z) : option (sstate * bool) :=
  if k <? 1 then None
  else if s_count s >=? k then
    Some ({| s_cap := s_cap s; s_count := s_count s - k; s_waiters := s_waiters s; s_woken := s_woken s;
             s_acq := s_acq s + k; s_rel := s_rel s; s_cont := s_cont s; s_wait := s_wait s;
             s_peakw := s_peakw s; s_out := s_out s + k |}, true)
  else Some (s, false).

Definition s_step (s : sstate) (o : sop) : sstate * ykind :=
  match o with
  | STry c k => match s_try s k with None => (s, YErr) | Some (s', b) => (s', if b then YTrue else YFalse) end
  | SAcqStart c k now =>
      if k <? 1 then (s, YErr)
      else if k >? s_cap s then (s, YErr)
      else match s_try s k with
           | None => (s, YErr)
           | Some (s', true) => (s', YDelay0)
           | Some (_, false) =>
               let ws := s_waiters s ++ [(c, k, now)] in
               ({| s_cap := s_cap s; s_count := s_count s; s_waiters := ws; s_woken := s_woken s;
                   s_acq := s_acq s; s_rel := s_rel s; s_cont := s_cont s + 1; s_wait := s_wait s;
                   s_peakw := Z.max (s_peakw s) (Z.of_nat (length ws)); s_out := s_out s |}, YPark)
           end
  | SAcqResume c now =>
      match w_find c (s_woken s) with
      | None => (s, YPark)
      | Some (k, enq) =>
          ({| s_cap := s_cap s; s_count := s_count s; s_waiters := s_waiters s;
              s_woken := w_remove c (s_woken s); s_acq := s_acq s + k; s_rel := s_rel s;
              s_cont := s_cont s; s_wait := s_wait s + (now - enq); s_peakw := s_peakw s;
              s_out := s_out s |}, YDone)
      end
  | SRelease k now =>
      if k <? 1 then (s, YErr)
      else if s_count s + k >? s_cap s then (s, YErr)
      else
        let '(a', pre, ws') := q_wake (s_count s + k) (s_waiters s) in
        ({| s_cap := s_cap s; s_count := a'; s_waiters := ws'; s_woken := s_woken s ++ pre;
            s_acq := s_acq s; s_rel := s_rel s + k; s_cont := s_cont s; s_wait := s_wait s;
            s_peakw := s_peakw s;
            s_out := s_out s - k + zsum (map (fun w => snd (fst w)) pre) |},
         YWoken (map (fun w => fst (fst w)) pre))
  end.

Fixpoint s_run (s : sstate) (ops : list sop) : sstate :=
  match ops with [] => s | o :: r => s_run (fst (s_step s o)) r end.

(** counters: [available; waiter counts...] are split: k = [count; acq; rel; cont; wait; peak] and the waiter amounts *)
Definition s_view (s : sstate) (y : ykind) : sobs :=
  mk_sobs y ([s_count s; s_acq s; s_rel s; s_cont s; s_wait s; s_peakw s] ++ map (fun w => snd (fst w)) (s_waiters s)).
Fixpoint s_check (s : sstate) (steps : list (sop * sobs)) : bool :=
  match steps with
  | [] => true
  | (o, ob) :: r => let '(s', y) := s_step s o in sobs_eqb (s_view s' y) ob && s_check s' r
  end.
Definition ok_semaphore (c : Z * list (sop * sobs)) : bool := s_check (s_init (fst c)) (snd c).

(* ------------------------------------------------------------------ *)
(** ** RWLock  (components/sync/rwlock.py) *)
Definition rw_waiter := (Z * bool * Z)%type.      (* client, is_writer, enqueue time *)

Record rwstate := {
  rw_max : option Z;               (* _max_readers *)
  rw_readers : Z;                  (* _active_readers *)
  rw_wlocked : bool;               (* _write_locked *)
  rw_waiters : list rw_waiter;
  rw_woken : list rw_waiter;
  rw_racq : Z; rw_wacq : Z; rw_rrel : Z; rw_wrel : Z; rw_rcont : Z; rw_wcont : Z;
  rw_rwait : Z; rw_wwait : Z; rw_peak : Z;
  rw_rd : list Z; rw_wr : list Z;   (* ghost: clients holding a read / the write lock (granted, not released) *)
}.
Definition rw_init (mx : option Z) : rwstate :=
  {| rw_max := mx; rw_readers := 0; rw_wlocked := false; rw_waiters := []; rw_woken := [];
     rw_racq := 0; rw_wacq := 0; rw_rrel := 0; rw_wrel := 0; rw_rcont := 0; rw_wcont := 0;
     rw_rwait := 0; rw_wwait := 0; rw_peak := 0; rw_rd := []; rw_wr := [] |}.

Inductive rwop :=
| RWTryR (c : Z) | RWTryW (c : Z)
| RWAcqRStart (c now : Z) | RWAcqWStart (c now : Z)
| RWResume (c now : Z)
| RWRelR (c now : Z) | RWRelW (c now : Z).

Definition is_writer (w : rw_waiter) : bool := snd (fst w).
Definition has_waiting_writer (s : rwstate) : bool := existsb is_writer (rw_waiters s).
(** [self._max_readers and self._active_readers >= self._max_readers] *)
Definition readers_full (mx : option Z) (n : Z) : bool :=
  match mx with None => false | Some m => negb (m =? 0) && (n >=? m) end.

Definition rw_set (s : rwstate) (readers : Z) (wl : bool) (ws wk : list rw_waiter) (peak : Z) (rd wr : list Z) : rwstate :=
  {| rw_max := rw_max s; rw_readers := readers; rw_wlocked := wl; rw_waiters := ws; rw_woken := wk;
     rw_racq := rw_racq s; rw_wacq := rw_wacq s; rw_rrel := rw_rrel s; rw_wrel := rw_wrel s;
     rw_rcont := rw_rcont s; rw_wcont := rw_wcont s; rw_rwait := rw_rwait s; rw_wwait := rw_wwait s;
     rw_peak := peak; rw_rd := rd; rw_wr := wr |}.

Definition rw_try_read (s : rwstate) (c : Z) : rwstate * bool :=
  if rw_wlocked s then (s, false)
  else if has_waiting_writer s then (s, false)
  else if readers_full (rw_max s) (rw_readers s) then (s, false)
  else ({| rw_max := rw_max s; rw_readers := rw_readers s + 1; rw_wlocked := rw_wlocked s;
           rw_waiters := rw_waiters s; rw_woken := rw_woken s;
           rw_racq := rw_racq s + 1; rw_wacq := rw_wacq s; rw_rrel := rw_rrel s; rw_wrel := rw_wrel s;
           rw_rcont := rw_rcont s; rw_wcont := rw_wcont s; rw_rwait := rw_rwait s; rw_wwait := rw_wwait s;
           rw_peak := Z.max (rw_peak s) (rw_readers s + 1); rw_rd := c :: rw_rd s; rw_wr := rw_wr s |}, true).

Definition rw_try_write (s : rwstate) (c : Z) : rwstate * bool :=
  if rw_wlocked s || (rw_readers s >? 0) then (s, false)
  else ({| rw_max := rw_max s; rw_readers := rw_readers s; rw_wlocked := true;
           rw_waiters := rw_waiters s; rw_woken := rw_woken s;
           rw_racq := rw_racq s; rw_wacq := rw_wacq s + 1; rw_rrel := rw_rrel s; rw_wrel := rw_wrel s;
           rw_rcont := rw_rcont s; rw_wcont := rw_wcont s; rw_rwait := rw_rwait s; rw_wwait := rw_wwait s;
           rw_peak := rw_peak s; rw_rd := rw_rd s; rw_wr := c :: rw_wr s |}, true).

(** Reader part of [_wake_waiters]: wake readers from the head until a writer
    or the reader limit.  Returns (readers, woken, rest, peak). *)
Fixpoint rw_wake_readers (mx : option Z) (readers peak : Z) (ws : list rw_waiter)
  : Z * list rw_waiter * list rw_waiter * Z :=
  match ws with
  | [] => (readers, [], [], peak)
  | w :: rest =>
      if is_writer w then (readers, [], ws, peak)
      else if readers_full mx readers then (readers, [], ws, peak)
      else let '(n, pre, ws', pk) := rw_wake_readers mx (readers + 1) (Z.max peak (readers + 1)) rest in
           (n, w :: pre, ws', pk)
  end.

Definition rw_wake (s : rwstate) : rwstate * list Z :=
  match rw_waiters s with
  | [] => (s, [])
  | front :: rest =>
      if rw_wlocked s then (s, [])
      else if is_writer front then
        if rw_readers s =? 0 then (rw_set s (rw_readers s) true rest (rw_woken s ++ [front]) (rw_peak s) (rw_rd s) (fst (fst front) :: rw_wr s), [fst (fst front)])
        else (s, [])
      else
        let '(n, pre, ws', pk) := rw_wake_readers (rw_max s) (rw_readers s) (rw_peak s) (rw_waiters s) in
        (rw_set s n (rw_wlocked s) ws' (rw_woken s ++ pre) pk (map (fun w => fst (fst w)) pre ++ rw_rd s) (rw_wr s), map (fun w => fst (fst w)) pre)
  end.

Fixpoint rww_find (c : Z) (l : list rw_waiter) : option (bool * Z) :=
  match l with [] => None | (i, k, e) :: r => if i =? c then Some (k, e) else rww_find c r end.
Fixpoint rww_remove (c : Z) (l : list rw_waiter) : list rw_waiter :=
  match l with [] => [] | (i, k, e) :: r => if i =? c then r else (i, k, e) :: rww_remove c r end.

Definition rw_step (s : rwstate) (o : rwop) : rwstate * ykind :=
  match o with
  | RWTryR c => let '(s', b) := rw_try_read s c in (s', if b then YTrue else YFalse)
  | RWTryW c => let '(s', b) := rw_try_write s c in (s', if b then YTrue else YFalse)
  | RWAcqRStart c now =>
      let '(s', b) := rw_try_read s c in
      if b then (s', YDelay0)
      else ({| rw_max := rw_max s; rw_readers := rw_readers s; rw_wlocked := rw_wlocked s;
               rw_waiters := rw_waiters s ++ [(c, false, now)]; rw_woken := rw_woken s;
               rw_racq := rw_racq s; rw_wacq := rw_wacq s; rw_rrel := rw_rrel s; rw_wrel := rw_wrel s;
               rw_rcont := rw_rcont s + 1; rw_wcont := rw_wcont s; rw_rwait := rw_rwait s;
               rw_wwait := rw_wwait s; rw_peak := rw_peak s; rw_rd := rw_rd s; rw_wr := rw_wr s |}, YPark)
  | RWAcqWStart c now =>
      let '(s', b) := rw_try_write s c in
      if b then (s', YDelay0)
      else ({| rw_max := rw_max s; rw_readers := rw_readers s; rw_wlocked := rw_wlocked s;
               rw_waiters := rw_waiters s ++ [(c, true, now)]; rw_woken := rw_woken s;
               rw_racq := rw_racq s; rw_wacq := rw_wacq s; rw_rrel := rw_rrel s; rw_wrel := rw_wrel s;
               rw_rcont := rw_rcont s; rw_wcont := rw_wcont s + 1; rw_rwait := rw_rwait s;
               rw_wwait := rw_wwait s; rw_peak := rw_peak s; rw_rd := rw_rd s; rw_wr := rw_wr s |}, YPark)
  | RWResume c now =>
      match rww_find c (rw_woken s) with
      | None => (s, YPark)
      | Some (wr, enq) =>
          ({| rw_max := rw_max s; rw_readers := rw_readers s; rw_wlocked := rw_wlocked s;
              rw_waiters := rw_waiters s; rw_woken := rww_remove c (rw_woken s);
              rw_racq := rw_racq s + (if wr then 0 else 1); rw_wacq := rw_wacq s + (if wr then 1 else 0);
              rw_rrel := rw_rrel s; rw_wrel := rw_wrel s; rw_rcont := rw_rcont s; rw_wcont := rw_wcont s;
              rw_rwait := rw_rwait s + (if wr then 0 else now - enq);
              rw_wwait := rw_wwait s + (if wr then now - enq else 0); rw_peak := rw_peak s;
              rw_rd := rw_rd s; rw_wr := rw_wr s |}, YDone)
      end
  | RWRelR c now =>
      if rw_readers s <? 1 then (s, YErr)
      else
        let s1 := {| rw_max := rw_max s; rw_readers := rw_readers s - 1; rw_wlocked := rw_wlocked s;
                     rw_waiters := rw_waiters s; rw_woken := rw_woken s;
                     rw_racq := rw_racq s; rw_wacq := rw_wacq s; rw_rrel := rw_rrel s + 1; rw_wrel := rw_wrel s;
                     rw_rcont := rw_rcont s; rw_wcont := rw_wcont s; rw_rwait := rw_rwait s;
                     rw_wwait := rw_wwait s; rw_peak := rw_peak s; rw_rd := zremove c (rw_rd s); rw_wr := rw_wr s |} in
        let '(s2, wk) := rw_wake s1 in (s2, YWoken wk)
  | RWRelW c now =>
      if negb (rw_wlocked s) then (s, YErr)
      else
        let s1 := {| rw_max := rw_max s; rw_readers := rw_readers s; rw_wlocked := false;
                     rw_waiters := rw_waiters s; rw_woken := rw_woken s;
                     rw_racq := rw_racq s; rw_wacq := rw_wacq s; rw_rrel := rw_rrel s; rw_wrel := rw_wrel s + 1;
                     rw_rcont := rw_rcont s; rw_wcont := rw_wcont s; rw_rwait := rw_rwait s;
                     rw_wwait := rw_wwait s; rw_peak := rw_peak s; rw_rd := rw_rd s; rw_wr := zremove c (rw_wr s) |} in
        let '(s2, wk) := rw_wake s1 in (s2, YWoken wk)
  end.

Fixpoint rw_run (s : rwstate) (ops : list rwop) : rwstate :=
  match ops with [] => s | o :: r => rw_run (fst (rw_step s o)) r end.

Definition rw_view (s : rwstate) (y : ykind) : sobs :=
  mk_sobs y ([rw_readers s; b2z (rw_wlocked s); rw_racq s; rw_wacq s; rw_rrel s; rw_wrel s;
              rw_rcont s; rw_wcont s; rw_rwait s; rw_wwait s; rw_peak s]
             ++ map (fun w => b2z (is_writer w)) (rw_waiters s)).
Fixpoint rw_check (s : rwstate) (steps : list (rwop * sobs)) : bool :=
  match steps with
  | [] => true
  | (o, ob) :: r => let '(s', y) := rw_step s o in sobs_eqb (rw_view s' y) ob && rw_check s' r
  end.
Definition ok_rwlock (c : option Z * list (rwop * sobs)) : bool := rw_check (rw_init (fst c)) (snd c).

(* ================================================================== *)
(** * Concurrency limiters  (components/server/concurrency.py) *)
Inductive ckind := KFixed | KDynamic | KWeighted.

Record cstate := {
  c_kind : ckind;
  c_limit : Z;                     (* _max_concurrent / _current_limit / _total_capacity *)
  c_active : Z;                    (* _active / _used_capacity *)
  c_min : Z; c_max : option Z;     (* DynamicConcurrency bounds *)
}.
Definition c_init (k : ckind) (limit mn : Z) (mx : option Z) : cstate :=
  {| c_kind := k; c_limit := limit; c_active := 0; c_min := mn; c_max := mx |}.

Inductive cop := CAcquire (w : Z) | CRelease (w : Z) | CHas (w : Z) | CSetLimit (n : Z) | CScaleUp (n : Z) | CScaleDown (n : Z).
Inductive cres := CTrue | CFalse | CErr | CNone.

Definition c_with (s : cstate) (limit active : Z) : cstate :=
  {| c_kind := c_kind s; c_limit := limit; c_active := active; c_min := c_min s; c_max := c_max s |}.

Definition c_clamp (s : cstate) (n : Z) : Z :=
  let c := Z.max (c_min s) n in match c_max s with None => c | Some m => Z.min m c end.

Definition c_step (s : cstate) (o : cop) : cstate * cres :=
  match c_kind s, o with
  | KWeighted, CAcquire w =>
      if w <? 1 then (s, CErr)
      else if c_active s + w >? c_limit s then (s, CFalse)
      else (c_with s (c_limit s) (c_active s + w), CTrue)
  | KWeighted, CRelease w =>
      if w <? 1 then (s, CErr) else (c_with s (c_limit s) (Z.max 0 (c_active s - w)), CNone)
  | KWeighted, CHas w => (s, if c_active s + w <=? c_limit s then CTrue else CFalse)
  | _, CAcquire _ =>
      if c_active s >=? c_limit s then (s, CFalse) else (c_with s (c_limit s) (c_active s + 1), CTrue)
  | _, CRelease _ => (c_with s (c_limit s) (Z.max 0 (c_active s - 1)), CNone)
  | _, CHas _ => (s, if c_active s <? c_limit s then CTrue else CFalse)
  | KDynamic, CSetLimit n => (c_with s (c_clamp s n) (c_active s), CNone)
  | KDynamic, CScaleUp n => (c_with s (c_clamp s (c_limit s + n)) (c_active s), CNone)
  | KDynamic, CScaleDown n => (c_with s (c_clamp s (c_limit s - n)) (c_active s), CNone)
  | _, _ => (s, CErr)               (* set_limit/scale_* exist only on DynamicConcurrency *)
  end.

Fixpoint c_run (s : cstate) (ops : list cop) : cstate :=
  match ops with [] => s | o :: r => c_run (fst (c_step s o)) r end.

(** [available] property *)
Definition c_available (s : cstate) : Z :=
  match c_kind s with KDynamic => Z.max 0 (c_limit s - c_active s) | _ => c_limit s - c_active s end.

Definition cres_code (r : cres) : Z := match r with CTrue => 1 | CFalse => 0 | CErr => 2 | CNone => 3 end.
(** observation: (result, active, available, limit) *)
Fixpoint c_check (s : cstate) (steps : list (cop * (Z * Z * Z * Z))) : bool :=
  match steps with
  | [] => true
  | (o, (r, a, av, l)) :: rest =>
      let '(s', res) := c_step s o in
      (cres_code res =? r) && (c_active s' =? a) && (c_available s' =? av) && (c_limit s' =? l) && c_check s' rest
  end.
Definition ok_concurrency (c : ckind * Z * Z * option Z * list (cop * (Z * Z * Z * Z))) : bool :=
  let '(k, limit, mn, mx, steps) := c in c_check (c_init k limit mn mx) steps.

(* ================================================================== *)
(** * ConnectionPool  (components/client/connection_pool.py, after the repair
      that counts the slot before the set-up delay)

    [acquire()] is a generator with three shapes: an idle connection is taken
    without any yield; a new connection is created (one yield of the set-up
    latency); or the caller is queued and polls every [poll_interval] until the
    connection handed over by a [release()] shows up or the timeout expires.
    [polls] = number of poll ticks before the timeout (the float loop
    [while elapsed < timeout: elapsed += poll_interval], computed by the harness). *)
Record pstate := {
  p_max : Z; p_min : Z; p_polls : Z;
  p_idle : list (Z * Z);           (* _idle_connections: conn id, last_used_at *)
  p_active : list Z;               (* _active_connections (insertion order) *)
  p_total : Z;                     (* _total_connections *)
  p_next_conn : Z;                 (* _next_connection_id *)
  p_waiters : list (Z * Z);        (* _waiters: waiter id, client *)
  p_next_waiter : Z;
  p_granted : list (Z * Z);        (* callbacks fired, not yet seen by the polling client: client, conn *)
  p_ticks : list (Z * Z);          (* poll ticks done per waiting client *)
  p_creating : list Z;             (* clients inside _create_connection *)
  p_created : Z; p_closed : Z; p_acq : Z; p_rel : Z; p_timeouts : Z;
}.
Definition p_init (mx mn polls : Z) : pstate :=
  {| p_max := mx; p_min := mn; p_polls := polls; p_idle := []; p_active := []; p_total := 0;
     p_next_conn := 0; p_waiters := []; p_next_waiter := 0; p_granted := []; p_ticks := [];
     p_creating := []; p_created := 0; p_closed := 0; p_acq := 0; p_rel := 0; p_timeouts := 0 |}.

Inductive pop :=
| PAcqStart (c : Z)                (* first step of acquire() *)
| PCreateDone (c : Z)              (* resume after the set-up latency *)
| PPoll (c : Z)                    (* resume of a queued acquire after one poll interval *)
| PRelease (c conn now : Z)        (* release(connection) *)
| PIdleTimeout (conn expected : Z). (* _pool_idle_timeout event *)

Inductive pres :=
| PGot (conn : Z)                  (* acquire returned this connection *)
| PCreating | PWaiting             (* acquire yielded *)
| PTimeout                         (* TimeoutError *)
| PHandoff (client : Z)            (* release gave the connection to this waiter *)
| PIdle                            (* release put the connection into the idle pool *)
| PClosed | PKept | PStale         (* idle timeout: closed / rescheduled / ignored *)
| PNoop.

Definition p_upd (s : pstate) (idle : list (Z * Z)) (active : list Z) (total : Z) : pstate :=
  {| p_max := p_max s; p_min := p_min s; p_polls := p_polls s; p_idle := idle; p_active := active;
     p_total := total; p_next_conn := p_next_conn s; p_waiters := p_waiters s; p_next_waiter := p_next_waiter s;
     p_granted := p_granted s; p_ticks := p_ticks s; p_creating := p_creating s;
     p_created := p_created s; p_closed := p_closed s; p_acq := p_acq s; p_rel := p_rel s;
     p_timeouts := p_timeouts s |}.



Definition p_step (s : pstate) (o : pop) : pstate * pres :=
  match o with
  | PAcqStart c =>
      match p_idle s with
      | (conn, _) :: rest =>
          ({| p_max := p_max s; p_min := p_min s; p_polls := p_polls s; p_idle := rest;
              p_active := p_active s ++ [conn]; p_total := p_total s; p_next_conn := p_next_conn s;
              p_waiters := p_waiters s; p_next_waiter := p_next_waiter s; p_granted := p_granted s;
              p_ticks := p_ticks s; p_creating := p_creating s; p_created := p_created s;
              p_closed := p_closed s; p_acq := p_acq s + 1; p_rel := p_rel s; p_timeouts := p_timeouts s |},
           PGot conn)
      | [] =>
          if p_total s <? p_max s then
            ({| p_max := p_max s; p_min := p_min s; p_polls := p_polls s; p_idle := [];
                p_active := p_active s; p_total := p_total s + 1; p_next_conn := p_next_conn s;
                p_waiters := p_waiters s; p_next_waiter := p_next_waiter s; p_granted := p_granted s;
                p_ticks := p_ticks s; p_creating := c :: p_creating s; p_created := p_created s;
                p_closed := p_closed s; p_acq := p_acq s + 1; p_rel := p_rel s; p_timeouts := p_timeouts s |},
             PCreating)
          else
            ({| p_max := p_max s; p_min := p_min s; p_polls := p_polls s; p_idle := [];
                p_active := p_active s; p_total := p_total s; p_next_conn := p_next_conn s;
                p_waiters := p_waiters s ++ [(p_next_waiter s + 1, c)]; p_next_waiter := p_next_waiter s + 1;
                p_granted := p_granted s; p_ticks := (c, 0) :: p_ticks s; p_creating := p_creating s;
                p_created := p_created s; p_closed := p_closed s; p_acq := p_acq s + 1; p_rel := p_rel s;
                p_timeouts := p_timeouts s |},
             PWaiting)
      end
  | PCreateDone c =>
      if zmem c (p_creating s) then
        let conn := p_next_conn s + 1 in
        ({| p_max := p_max s; p_min := p_min s; p_polls := p_polls s; p_idle := p_idle s;
            p_active := p_active s ++ [conn]; p_total := p_total s; p_next_conn := conn;
            p_waiters := p_waiters s; p_next_waiter := p_next_waiter s; p_granted := p_granted s;
            p_ticks := p_ticks s; p_creating := zremove c (p_creating s); p_created := p_created s + 1;
            p_closed := p_closed s; p_acq := p_acq s; p_rel := p_rel s; p_timeouts := p_timeouts s |},
         PGot conn)
      else (s, PNoop)
  | PPoll c =>
      match assoc_find c (p_ticks s) with
      | None => (s, PNoop)
      | Some k =>
          match assoc_find c (p_granted s) with
          | Some conn =>
              ({| p_max := p_max s; p_min := p_min s; p_polls := p_polls s; p_idle := p_idle s;
                  p_active := p_active s; p_total := p_total s; p_next_conn := p_next_conn s;
                  p_waiters := p_waiters s; p_next_waiter := p_next_waiter s;
                  p_granted := assoc_remove c (p_granted s); p_ticks := assoc_remove c (p_ticks s);
                  p_creating := p_creating s; p_created := p_created s; p_closed := p_closed s;
                  p_acq := p_acq s; p_rel := p_rel s; p_timeouts := p_timeouts s |}, PGot conn)
          | None =>
              if k + 1 >=? p_polls s then
                ({| p_max := p_max s; p_min := p_min s; p_polls := p_polls s; p_idle := p_idle s;
                    p_active := p_active s; p_total := p_total s; p_next_conn := p_next_conn s;
                    p_waiters := filter (fun w => negb (snd w =? c)) (p_waiters s);
                    p_next_waiter := p_next_waiter s; p_granted := p_granted s;
                    p_ticks := assoc_remove c (p_ticks s); p_creating := p_creating s;
                    p_created := p_created s; p_closed := p_closed s; p_acq := p_acq s; p_rel := p_rel s;
                    p_timeouts := p_timeouts s + 1 |}, PTimeout)
              else
                ({| p_max := p_max s; p_min := p_min s; p_polls := p_polls s; p_idle := p_idle s;
                    p_active := p_active s; p_total := p_total s; p_next_conn := p_next_conn s;
                    p_waiters := p_waiters s; p_next_waiter := p_next_waiter s; p_granted := p_granted s;
                    p_ticks := (c, k + 1) :: assoc_remove c (p_ticks s); p_creating := p_creating s;
                    p_created := p_created s; p_closed := p_closed s; p_acq := p_acq s; p_rel := p_rel s;
                    p_timeouts := p_timeouts s |}, PWaiting)
          end
      end
  | PRelease c conn now =>
      if negb (zmem conn (p_active s)) then (s, PNoop)
      else
        match p_waiters s with
        | (wid, w) :: rest =>
            ({| p_max := p_max s; p_min := p_min s; p_polls := p_polls s; p_idle := p_idle s;
                p_active := zremove conn (p_active s) ++ [conn]; p_total := p_total s;
                p_next_conn := p_next_conn s; p_waiters := rest; p_next_waiter := p_next_waiter s;
                p_granted := p_granted s ++ [(w, conn)]; p_ticks := p_ticks s; p_creating := p_creating s;
                p_created := p_created s; p_closed := p_closed s; p_acq := p_acq s; p_rel := p_rel s + 1;
                p_timeouts := p_timeouts s |}, PHandoff w)
        | [] =>
            ({| p_max := p_max s; p_min := p_min s; p_polls := p_polls s;
                p_idle := p_idle s ++ [(conn, now)]; p_active := zremove conn (p_active s);
                p_total := p_total s; p_next_conn := p_next_conn s; p_waiters := []; p_next_waiter := p_next_waiter s;
                p_granted := p_granted s; p_ticks := p_ticks s; p_creating := p_creating s;
                p_created := p_created s; p_closed := p_closed s; p_acq := p_acq s; p_rel := p_rel s + 1;
                p_timeouts := p_timeouts s |}, PIdle)
        end
  | PIdleTimeout conn expected =>
      match assoc_find conn (p_idle s) with
      | None => (s, PStale)
      | Some last =>
          if negb (last =? expected) then (s, PStale)
          else if p_total s >? p_min s then
            ({| p_max := p_max s; p_min := p_min s; p_polls := p_polls s;
                p_idle := assoc_remove conn (p_idle s); p_active := p_active s; p_total := p_total s - 1;
                p_next_conn := p_next_conn s; p_waiters := p_waiters s; p_next_waiter := p_next_waiter s;
                p_granted := p_granted s; p_ticks := p_ticks s; p_creating := p_creating s;
                p_created := p_created s; p_closed := p_closed s + 1; p_acq := p_acq s; p_rel := p_rel s;
                p_timeouts := p_timeouts s |}, PClosed)
          else (s, PKept)
      end
  end.

Fixpoint p_run (s : pstate) (ops : list pop) : pstate :=
  match ops with [] => s | o :: r => p_run (fst (p_step s o)) r end.

Definition pres_code (r : pres) : Z * Z :=
  match r with
  | PGot c => (0, c) | PCreating => (1, 0) | PWaiting => (2, 0) | PTimeout => (3, 0)
  | PHandoff w => (4, w) | PIdle => (5, 0) | PClosed => (6, 0) | PKept => (7, 0) | PStale => (8, 0)
  | PNoop => (9, 0)
  end.

(** observation: (code, arg, [total; pending; created; closed; acquisitions; releases; timeouts], idle ids, active ids) *)
Definition pobs := (Z * Z * list Z * list Z * list Z)%type.
Definition p_view (s : pstate) (r : pres) : pobs :=
  (fst (pres_code r), snd (pres_code r),
   [p_total s; Z.of_nat (length (p_waiters s)); p_created s; p_closed s; p_acq s; p_rel s; p_timeouts s],
   map fst (p_idle s), p_active s).
Definition pobs_eqb (a b : pobs) : bool :=
  let '(c1, x1, k1, i1, a1) := a in let '(c2, x2, k2, i2, a2) := b in
  (c1 =? c2) && (x1 =? x2) && zlist_eqb k1 k2 && zlist_eqb i1 i2 && zlist_eqb a1 a2.
Fixpoint p_check (s : pstate) (steps : list (pop * pobs)) : bool :=
  match steps with
  | [] => true
  | (o, ob) :: r => let '(s', res) := p_step s o in pobs_eqb (p_view s' res) ob && p_check s' r
  end.
Definition ok_pool (c : Z * Z * Z * list (pop * pobs)) : bool :=
  let '(mx, mn, polls, steps) := c in p_check (p_init mx mn polls) steps.

(* ================================================================== *)
(** * Bulkhead  (components/resilience/bulkhead.py) — one step per handled event *)
Record bstate := {
  b_max : Z; b_maxq : Z; b_maxwait : option Z;        (* max_concurrent, max_wait_queue, max_wait_time (ns) *)
  b_active : Z;
  b_queue : list (Z * Z * Z);      (* _wait_queue: request id, enqueue time, item *)
  b_next : Z;                      (* _next_request_id *)
  b_inflight : list (Z * Z);       (* _in_flight: request id, item *)
  b_total : Z; b_accepted : Z; b_rejected : Z; b_timedout : Z; b_queued : Z; b_peakc : Z; b_peakq : Z;
}.
Definition b_init (mx mq : Z) (mw : option Z) : bstate :=
  {| b_max := mx; b_maxq := mq; b_maxwait := mw; b_active := 0; b_queue := []; b_next := 0; b_inflight := [];
     b_total := 0; b_accepted := 0; b_rejected := 0; b_timedout := 0; b_queued := 0; b_peakc := 0; b_peakq := 0 |}.

Inductive bop :=
| BRequest (item now : Z)
| BResponse (req now : Z)
| BTimeout (req now : Z).

Inductive bres :=
| BForwarded (req item : Z)        (* event sent to the target *)
| BQueued (req : Z)
| BRejected
| BNothing.                        (* response of an unknown request / timeout of a request no longer queued / nothing to forward *)

(** [_forward_request] *)
Definition b_forward (s : bstate) (item : Z) : bstate * bres :=
  let req := b_next s + 1 in
  ({| b_max := b_max s; b_maxq := b_maxq s; b_maxwait := b_maxwait s; b_active := b_active s + 1;
      b_queue := b_queue s; b_next := req; b_inflight := b_inflight s ++ [(req, item)];
      b_total := b_total s; b_accepted := b_accepted s + 1; b_rejected := b_rejected s;
      b_timedout := b_timedout s; b_queued := b_queued s;
      b_peakc := Z.max (b_peakc s) (b_active s + 1); b_peakq := b_peakq s |}, BForwarded req item).

Definition b_expired (s : bstate) (now enq : Z) : bool :=
  match b_maxwait s with None => false | Some mw => now - enq >? mw end.

(** [_try_process_queued], by recursion on the queue (expired heads are skipped). *)
Fixpoint b_drain (s : bstate) (now : Z) (q : list (Z * Z * Z)) (skipped : Z) : bstate * bres :=
  match q with
  | [] => ({| b_max := b_max s; b_maxq := b_maxq s; b_maxwait := b_maxwait s; b_active := b_active s;
              b_queue := []; b_next := b_next s; b_inflight := b_inflight s; b_total := b_total s;
              b_accepted := b_accepted s; b_rejected := b_rejected s; b_timedout := b_timedout s + skipped;
              b_queued := b_queued s; b_peakc := b_peakc s; b_peakq := b_peakq s |}, BNothing)
  | (req, enq, item) :: rest =>
      if b_active s >=? b_max s then
        ({| b_max := b_max s; b_maxq := b_maxq s; b_maxwait := b_maxwait s; b_active := b_active s;
            b_queue := q; b_next := b_next s; b_inflight := b_inflight s; b_total := b_total s;
            b_accepted := b_accepted s; b_rejected := b_rejected s; b_timedout := b_timedout s + skipped;
            b_queued := b_queued s; b_peakc := b_peakc s; b_peakq := b_peakq s |}, BNothing)
      else if b_expired s now enq then b_drain s now rest (skipped + 1)
      else
        b_forward {| b_max := b_max s; b_maxq := b_maxq s; b_maxwait := b_maxwait s; b_active := b_active s;
                     b_queue := rest; b_next := b_next s; b_inflight := b_inflight s; b_total := b_total s;
                     b_accepted := b_accepted s; b_rejected := b_rejected s; b_timedout := b_timedout s + skipped;
                     b_queued := b_queued s; b_peakc := b_peakc s; b_peakq := b_peakq s |} item
  end.

Fixpoint q_remove (req : Z) (q : list (Z * Z * Z)) : list (Z * Z * Z) :=
  match q with [] => [] | (r, e, i) :: rest => if r =? req then rest else (r, e, i) :: q_remove req rest end.
Definition q_mem (req : Z) (q : list (Z * Z * Z)) : bool := existsb (fun x => fst (fst x) =? req) q.

Definition b_step (s : bstate) (o : bop) : bstate * bres :=
  match o with
  | BRequest item now =>
      let s1 := {| b_max := b_max s; b_maxq := b_maxq s; b_maxwait := b_maxwait s; b_active := b_active s;
                   b_queue := b_queue s; b_next := b_next s; b_inflight := b_inflight s; b_total := b_total s + 1;
                   b_accepted := b_accepted s; b_rejected := b_rejected s; b_timedout := b_timedout s;
                   b_queued := b_queued s; b_peakc := b_peakc s; b_peakq := b_peakq s |} in
      if b_active s <? b_max s then b_forward s1 item
      else if Z.of_nat (length (b_queue s)) <? b_maxq s then
        let req := b_next s + 1 in
        let q := b_queue s ++ [(req, now, item)] in
        ({| b_max := b_max s; b_maxq := b_maxq s; b_maxwait := b_maxwait s; b_active := b_active s;
            b_queue := q; b_next := req; b_inflight := b_inflight s; b_total := b_total s + 1;
            b_accepted := b_accepted s; b_rejected := b_rejected s; b_timedout := b_timedout s;
            b_queued := b_queued s + 1; b_peakc := b_peakc s;
            b_peakq := Z.max (b_peakq s) (Z.of_nat (length q)) |}, BQueued req)
      else
        ({| b_max := b_max s; b_maxq := b_maxq s; b_maxwait := b_maxwait s; b_active := b_active s;
            b_queue := b_queue s; b_next := b_next s; b_inflight := b_inflight s; b_total := b_total s + 1;
            b_accepted := b_accepted s; b_rejected := b_rejected s + 1; b_timedout := b_timedout s;
            b_queued := b_queued s; b_peakc := b_peakc s; b_peakq := b_peakq s |}, BRejected)
  | BResponse req now =>
      match assoc_find req (b_inflight s) with
      | None => (s, BNothing)
      | Some _ =>
          let s1 := {| b_max := b_max s; b_maxq := b_maxq s; b_maxwait := b_maxwait s;
                       b_active := Z.max 0 (b_active s - 1); b_queue := b_queue s; b_next := b_next s;
                       b_inflight := assoc_remove req (b_inflight s); b_total := b_total s;
                       b_accepted := b_accepted s; b_rejected := b_rejected s; b_timedout := b_timedout s;
                       b_queued := b_queued s; b_peakc := b_peakc s; b_peakq := b_peakq s |} in
          b_drain s1 now (b_queue s1) 0
      end
  | BTimeout req now =>
      if q_mem req (b_queue s) then
        ({| b_max := b_max s; b_maxq := b_maxq s; b_maxwait := b_maxwait s; b_active := b_active s;
            b_queue := q_remove req (b_queue s); b_next := b_next s; b_inflight := b_inflight s;
            b_total := b_total s; b_accepted := b_accepted s; b_rejected := b_rejected s;
            b_timedout := b_timedout s + 1; b_queued := b_queued s; b_peakc := b_peakc s; b_peakq := b_peakq s |},
         BNothing)
      else (s, BNothing)
  end.

Fixpoint b_run (s : bstate) (ops : list bop) : bstate :=
  match ops with [] => s | o :: r => b_run (fst (b_step s o)) r end.

Definition bres_code (r : bres) : Z * Z * Z :=
  match r with BForwarded q i => (1, q, i) | BQueued q => (2, q, 0) | BRejected => (3, 0, 0) | BNothing => (0, 0, 0) end.
(** observation: (code, req, item, [active; total; accepted; rejected; timed_out; queued; peak_c; peak_q], queue req ids, in-flight req ids) *)
Definition bobs := (Z * Z * Z * list Z * list Z * list Z)%type.
Definition b_view (s : bstate) (r : bres) : bobs :=
  let '(c, q, i) := bres_code r in
  (c, q, i, [b_active s; b_total s; b_accepted s; b_rejected s; b_timedout s; b_queued s; b_peakc s; b_peakq s],
   map (fun x => fst (fst x)) (b_queue s), map fst (b_inflight s)).
Definition bobs_eqb (a b : bobs) : bool :=
  let '(c1, q1, i1, k1, w1, f1) := a in let '(c2, q2, i2, k2, w2, f2) := b in
  (c1 =? c2) && (q1 =? q2) && (i1 =? i2) && zlist_eqb k1 k2 && zlist_eqb w1 w2 && zlist_eqb f1 f2.
Fixpoint b_check (s : bstate) (steps : list (bop * bobs)) : bool :=
  match steps with
  | [] => true
  | (o, ob) :: r => let '(s', res) := b_step s o in bobs_eqb (b_view s' res) ob && b_check s' r
  end.
Definition ok_bulkhead (c : Z * Z * option Z * list (bop * bobs)) : bool :=
  let '(mx, mq, mw, steps) := c in b_check (b_init mx mq mw) steps.

(* ================================================================== *)
(** * Barrier  (components/sync/barrier.py, wait loop parked on a future) *)
Record brstate := {
  br_parties : Z;
  br_waiters : list (Z * Z);       (* client, enqueue time *)
  br_released : list (Z * Z);      (* callbacks fired, generator not resumed yet *)
  br_gen : Z; br_broken : bool;
  br_calls : Z; br_breaks : Z; br_resets : Z; br_wait : Z;
}.
Definition br_init (parties : Z) : brstate :=
  {| br_parties := parties; br_waiters := []; br_released := []; br_gen := 0; br_broken := false;
     br_calls := 0; br_breaks := 0; br_resets := 0; br_wait := 0 |}.

Inductive brop :=
| BrWaitStart (c now : Z)          (* first step of wait() *)
| BrWaitResume (c now : Z)         (* resume of a parked wait() *)
| BrReset | BrAbort.

Inductive brres :=
| BrTripped (woken : list Z)       (* last party: returned 0 without yielding, released these waiters *)
| BrParked (index : Z)             (* yielded the future; arrival index it will return *)
| BrReturned                       (* parked wait() finished *)
| BrErr                            (* RuntimeError: barrier broken *)
| BrWoke (woken : list Z)          (* reset/abort released these waiters *)
| BrNoop.

Definition br_step (s : brstate) (o : brop) : brstate * brres :=
  match o with
  | BrWaitStart c now =>
      if br_broken s then (s, BrErr)
      else if Z.of_nat (length (br_waiters s)) + 1 >=? br_parties s then
        ({| br_parties := br_parties s; br_waiters := []; br_released := br_released s ++ br_waiters s;
            br_gen := br_gen s + 1; br_broken := false; br_calls := br_calls s + 1;
            br_breaks := br_breaks s + 1; br_resets := br_resets s;
            br_wait := br_wait s + zsum (map (fun w => now - snd w) (br_waiters s)) |},
         BrTripped (map fst (br_waiters s)))
      else
        let ws := br_waiters s ++ [(c, now)] in
        ({| br_parties := br_parties s; br_waiters := ws; br_released := br_released s;
            br_gen := br_gen s; br_broken := false; br_calls := br_calls s + 1;
            br_breaks := br_breaks s; br_resets := br_resets s; br_wait := br_wait s |},
         BrParked (br_parties s - Z.of_nat (length ws)))
  | BrWaitResume c now =>
      match assoc_find c (br_released s) with
      | None => (s, BrNoop)
      | Some enq =>
          ({| br_parties := br_parties s; br_waiters := br_waiters s;
              br_released := assoc_remove c (br_released s); br_gen := br_gen s; br_broken := br_broken s;
              br_calls := br_calls s; br_breaks := br_breaks s; br_resets := br_resets s;
              br_wait := br_wait s + (now - enq) |}, BrReturned)
      end
  | BrReset =>
      ({| br_parties := br_parties s; br_waiters := []; br_released := br_released s ++ br_waiters s;
          br_gen := br_gen s + 1; br_broken := false; br_calls := br_calls s; br_breaks := br_breaks s;
          br_resets := br_resets s + 1; br_wait := br_wait s |}, BrWoke (map fst (br_waiters s)))
  | BrAbort =>
      ({| br_parties := br_parties s; br_waiters := []; br_released := br_released s ++ br_waiters s;
          br_gen := br_gen s; br_broken := true; br_calls := br_calls s; br_breaks := br_breaks s;
          br_resets := br_resets s; br_wait := br_wait s |}, BrWoke (map fst (br_waiters s)))
  end.

Fixpoint br_run (s : brstate) (ops : list brop) : brstate :=
  match ops with [] => s | o :: r => br_run (fst (br_step s o)) r end.

Definition brres_code (r : brres) : Z * list Z :=
  match r with
  | BrTripped w => (0, w) | BrParked i => (1, [i]) | BrReturned => (2, []) | BrErr => (3, [])
  | BrWoke w => (4, w) | BrNoop => (5, [])
  end.
Definition br_view (s : brstate) (r : brres) : sobs :=
  (fst (brres_code r), snd (brres_code r),
   [Z.of_nat (length (br_waiters s)); br_gen s; b2z (br_broken s); br_calls s; br_breaks s; br_resets s; br_wait s]).
Fixpoint br_check (s : brstate) (steps : list (brop * sobs)) : bool :=
  match steps with
  | [] => true
  | (o, ob) :: r => let '(s', res) := br_step s o in sobs_eqb (br_view s' res) ob && br_check s' r
  end.
Definition ok_barrier (c : Z * list (brop * sobs)) : bool := br_check (br_init (fst c)) (snd c).

(* ================================================================== *)
(** * One case type for the correspondence check (a check run evaluates every
      kind of case with one Coq invocation per shard) *)
Inductive c09case :=
| CaseResource (c : Z * list (rop * robs))
| CaseMutex (c : list (mop * sobs))
| CaseSemaphore (c : Z * list (sop * sobs))
| CaseRWLock (c : option Z * list (rwop * sobs))
| CaseBarrier (c : Z * list (brop * sobs))
| CasePool (c : Z * Z * Z * list (pop * pobs))
| CaseBulkhead (c : Z * Z * option Z * list (bop * bobs))
| CaseLimiter (c : ckind * Z * Z * option Z * list (cop * (Z * Z * Z * Z)))
| CaseOracleOnly.                  (* components without a model: implementation-side oracle only *)

Definition ok_case (c : c09case) : bool :=
  match c with
  | CaseResource x => ok_resource x | CaseMutex x => ok_mutex x | CaseSemaphore x => ok_semaphore x
  | CaseRWLock x => ok_rwlock x | CaseBarrier x => ok_barrier x | CasePool x => ok_pool x
  | CaseBulkhead x => ok_bulkhead x | CaseLimiter x => ok_concurrency x | CaseOracleOnly => true
  end.
