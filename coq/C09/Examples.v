(** C09 — the hypotheses of the conditional theorems are satisfiable (and the
    interesting branches are reachable): concrete runs, checked by computation. *)
From HS Require Import Base.Prelude C09.Model C09.Resource C09.Sync C09.Limits C09.Pool C09.Bulk C09.Barrier.
Local Open Scope Z_scope.

(** Resource: a release that wakes a queued acquirer (c09_resource_fifo_wake). *)
Example ex_resource_wake :
  snd (r_step (r_run (r_init 2) [RAcquire 0 2; RAcquire 1 1; RAcquire 2 1]) (RRelease 5 0)) = OReleased [1; 2].
Proof. vm_compute. reflexivity. Qed.

Example ex_resource_hyps : Forall force_pos [RAcquire 0 2; RForce 1 1; RRelease 5 0] /\
  existsb is_force [RAcquire 0 2; RAcquire 1 1; RRelease 5 0] = false.
Proof. split; [repeat constructor|reflexivity]. Qed.

(** Mutex: a legitimate contended run with a hand-off (c09_mutex_exclusion). *)
Example ex_mutex_legit :
  m_legit_run m_init [MAcqStart 0 0; MAcqStart 1 0; MRelease 0 5; MAcqResume 1 5; MRelease 1 7] /\
  m_locked (m_run m_init [MAcqStart 0 0; MAcqStart 1 0; MRelease 0 5; MAcqResume 1 5; MRelease 1 7]) = false.
Proof. cbn. repeat split; auto. Qed.

(** Semaphore: clients release what they hold (c09_semaphore_conservation). *)
Example ex_semaphore_legit :
  s_legit_run (s_init 2) [SAcqStart 0 2 0; SAcqStart 1 1 0; SRelease 2 5; SAcqResume 1 5; SRelease 1 6].
Proof. cbn. repeat split; lia. Qed.

(** RWLock: writer, queued reader and writer, releases (c09_rwlock_exclusion). *)
Example ex_rwlock_legit : max_ok (Some 2) /\
  rw_legit_run (rw_init (Some 2)) [RWAcqWStart 0 0; RWAcqRStart 1 0; RWAcqWStart 2 0; RWRelW 0 5; RWResume 1 5; RWRelR 1 6; RWResume 2 6; RWRelW 2 9].
Proof. cbn. repeat split; auto; lia. Qed.

(** Barrier: the second of two parties trips the barrier (c09_barrier_trip). *)
Example ex_barrier_trip :
  snd (br_step (br_run (br_init 2) [BrWaitStart 0 0]) (BrWaitStart 1 3)) = BrTripped [0].
Proof. vm_compute. reflexivity. Qed.

(** Bulkhead: queued request forwarded by a response (c09_bulkhead_fifo). *)
Example ex_bulkhead_queue :
  snd (b_step (b_run (b_init 1 1 None) [BRequest 0 0; BRequest 1 0; BRequest 2 0]) (BResponse 1 5)) = BForwarded 3 1 /\
  b_rejected (b_run (b_init 1 1 None) [BRequest 0 0; BRequest 1 0; BRequest 2 0]) = 1.
Proof. vm_compute. split; reflexivity. Qed.

(** Pool: three simultaneous acquirers with max_connections = 1 — one creates,
    two queue (the witness of the repaired over-admission). *)
Example ex_pool_simultaneous :
  let s := p_run (p_init 1 0 10) [PAcqStart 0; PAcqStart 1; PAcqStart 2] in
  p_total s = 1 /\ length (p_waiters s) = 2%nat /\ p_creating s = [0].
Proof. vm_compute. repeat split; reflexivity. Qed.

(** Limiter hypotheses. *)
Example ex_limiter_hyps : KFixed <> KDynamic /\ KWeighted <> KDynamic /\ (1 <= 3).
Proof. repeat split; try discriminate; lia. Qed.
