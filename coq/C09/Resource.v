(** C09 — proofs about the Resource model: bounds, conservation, idempotent
    release, strict-FIFO wake, at-most-once grants, no stranded head waiter. *)
From HS Require Import Base.Prelude C09.Model.
From Coq Require Import Permutation Sorting.Sorted.
Local Open Scope Z_scope.

Definition wid (w : rwaiter) : Z := fst (fst w).
Definition wamt (w : rwaiter) : Z := snd (fst w).
Definition wgrant (w : rwaiter) : Z * Z := (wid w, wamt w).

Lemma zsum_app a b : zsum (a ++ b) = zsum a + zsum b.
Proof. induction a; cbn; lia. Qed.

(** ** The wake loop takes a prefix of the queue, in order. *)
Lemma r_wake_spec now : forall ws a a' ws' gs wt,
  r_wake now a ws = (a', ws', gs, wt) ->
  exists pre, ws = pre ++ ws' /\ gs = map wgrant pre /\
    a' = a - zsum (map wamt pre) /\ (0 <= a -> 0 <= a') /\
    match ws' with [] => True | w :: _ => a' < wamt w end.
Proof.
  induction ws as [|[[id amt] enq] rest IH]; intros a a' ws' gs wt H; cbn in H.
  - inversion H; subst. exists []. cbn. repeat split; auto; lia.
  - destruct (a >=? amt) eqn:E.
    + destruct (r_wake now (a - amt) rest) as [[[a1 ws1] gs1] wt1] eqn:W.
      inversion H; subst. destruct (IH _ _ _ _ _ W) as (pre & -> & -> & -> & Hlo & Hh).
      exists ((id, amt, enq) :: pre). cbn. repeat split; auto; try lia.
    + inversion H; subst. exists []. cbn. repeat split; auto; try lia.
Qed.

(** ** Invariant of every reachable state *)
Record rinv (s : rstate) : Prop := {
  ri_cap : 0 < r_cap s;
  ri_lo : 0 <= r_avail s;
  ri_hi : r_avail s <= r_cap s;
  ri_wamt : Forall (fun w => 0 < wamt w) (r_waiters s);
  ri_hamt : Forall (fun g => 0 < snd g) (r_held s);
  ri_wid : Forall (fun w => wid w < r_next s) (r_waiters s);
  ri_hid : Forall (fun g => fst g < r_next s) (r_held s);
  ri_sorted : StronglySorted Z.lt (map wid (r_waiters s));
  ri_nodup : NoDup (map wid (r_waiters s) ++ map fst (r_held s));
  ri_head : match r_waiters s with [] => True | w :: _ => r_avail s < wamt w end;
}.

Definition force_pos (o : rop) : Prop := match o with RForce _ a => 0 < a | _ => True end.

Lemma rinv_init cap : 0 < cap -> rinv (r_init cap).
Proof. intros H; constructor; cbn; auto; try lia; constructor. Qed.

Lemma Forall_lt_mono {A} (f : A -> Z) n l : Forall (fun x => f x < n) l -> Forall (fun x => f x < n + 1) l.
Proof. intros H; eapply Forall_impl; [|exact H]. cbn; intros; lia. Qed.

Lemma ssorted_app_last l x : StronglySorted Z.lt l -> Forall (fun y => y < x) l ->
  StronglySorted Z.lt (l ++ [x]).
Proof.
  induction l as [|a l IH]; intros Hs Hf; cbn.
  - repeat constructor.
  - inversion Hs; inversion Hf; subst. constructor; [auto|].
    apply Forall_app; split; auto.
Qed.

Lemma ssorted_app_r (l1 l2 : list Z) : StronglySorted Z.lt (l1 ++ l2) -> StronglySorted Z.lt l2.
Proof. induction l1; cbn; auto. intros H; inversion H; auto. Qed.

Lemma zsum_pos l : Forall (fun x => 0 < x) l -> 0 <= zsum l.
Proof. induction 1; cbn; lia. Qed.

(** Common step: [_do_release] from a state satisfying everything but
    possibly [ri_head]. *)
Lemma rinv_do_release s now amt s' out :
  0 < r_cap s -> 0 <= r_avail s -> 0 < amt ->
  Forall (fun w => 0 < wamt w) (r_waiters s) -> Forall (fun g => 0 < snd g) (r_held s) ->
  Forall (fun w => wid w < r_next s) (r_waiters s) -> Forall (fun g => fst g < r_next s) (r_held s) ->
  StronglySorted Z.lt (map wid (r_waiters s)) ->
  NoDup (map wid (r_waiters s) ++ map fst (r_held s)) ->
  (r_avail s + amt <= r_cap s \/ r_avail s <= r_cap s /\ match r_waiters s with [] => True | w :: _ => r_avail s < wamt w end) ->
  r_do_release s now amt = (s', out) -> rinv s'.
Proof.
  intros Hc Hlo Ha Hwa Hha Hwi Hhi Hso Hnd Hor H. unfold r_do_release in H.
  destruct (r_avail s + amt >? r_cap s) eqn:E.
  - inversion H; subst. destruct Hor as [Hor|[Hhi' Hhd]]; [lia|].
    constructor; auto.
  - destruct (r_wake now (r_avail s + amt) (r_waiters s)) as [[[a1 ws1] gs1] wt1] eqn:W.
    inversion H; subst; clear H.
    destruct (r_wake_spec _ _ _ _ _ _ _ W) as (pre & Hws & -> & -> & Hlo' & Hhd).
    rewrite Hws in *. apply Forall_app in Hwa as [Hwa1 Hwa2]. apply Forall_app in Hwi as [Hwi1 Hwi2].
    assert (Hz := zsum_pos (map wamt pre)).
    constructor; cbn; auto; try lia.
    + assert (0 <= zsum (map wamt pre)); [|lia]. apply Hz. apply Forall_map. exact Hwa1.
    + apply Forall_app; split; auto. apply Forall_map. eapply Forall_impl; [|exact Hwa1]. auto.
    + apply Forall_app; split; auto. apply Forall_map. eapply Forall_impl; [|exact Hwi1]. auto.
    + rewrite map_app in Hso. eapply ssorted_app_r; eauto.
    + rewrite map_app, map_map. cbn. rewrite map_app in Hnd.
      eapply Permutation_NoDup; [|exact Hnd].
      change (map (fun x => wid x) pre) with (map wid pre).
      rewrite <- app_assoc. rewrite (app_assoc (map wid ws1)). apply Permutation_app_comm.
Qed.

Lemma held_find_In gid h a : held_find gid h = Some a -> In (gid, a) h.
Proof.
  induction h as [|[i b] r IH]; cbn; [discriminate|].
  destruct (i =? gid) eqn:E; intros H.
  - inversion H; subst. left. f_equal. lia.
  - right; auto.
Qed.

Lemma held_remove_incl gid h : incl (held_remove gid h) h.
Proof.
  induction h as [|[i b] r IH]; cbn; [apply incl_refl|].
  destruct (i =? gid); [apply incl_tl, incl_refl|].
  intros x [<-|H]; [left; auto|right; auto].
Qed.

Lemma held_remove_Forall (P : Z * Z -> Prop) gid h : Forall P h -> Forall P (held_remove gid h).
Proof. intros H. apply Forall_forall. intros x Hx. rewrite Forall_forall in H. apply H. eapply held_remove_incl; eauto. Qed.

Lemma held_remove_nodup gid h : NoDup (map fst h) -> NoDup (map fst (held_remove gid h)) /\
  (forall a, held_find gid h = Some a -> ~ In gid (map fst (held_remove gid h))).
Proof.
  induction h as [|[i b] r IH]; cbn; intros Hn; [split; [constructor|discriminate]|].
  inversion Hn; subst. destruct (IH H2) as [IH1 IH2].
  destruct (i =? gid) eqn:E.
  - split; auto. intros a _. assert (i = gid) by lia. subst; auto.
  - cbn. split.
    + constructor; auto. intros Hin. apply H1. apply in_map_iff in Hin as ((j & c) & <- & Hin).
      apply held_remove_incl in Hin. apply in_map_iff. exists (j, c); auto.
    + intros a Hf [Heq|Hin]; [cbn in Heq; lia|]. eapply IH2; eauto.
Qed.

Lemma held_remove_sum gid h a : held_find gid h = Some a -> zsum (map snd h) = a + zsum (map snd (held_remove gid h)).
Proof.
  induction h as [|[i b] r IH]; cbn; [discriminate|].
  destruct (i =? gid); intros H.
  - inversion H; subst; lia.
  - cbn. rewrite (IH H). lia.
Qed.

Lemma NoDup_app_r {A} (l1 l2 : list A) : NoDup (l1 ++ l2) -> NoDup l2.
Proof. induction l1; cbn; auto. intros H; inversion H; auto. Qed.
Lemma NoDup_app_l {A} (l1 l2 : list A) : NoDup (l1 ++ l2) -> NoDup l1.
Proof.
  induction l1; cbn; intros H; [constructor|]. inversion H; subst. constructor; auto.
  intros Hin; apply H2, in_or_app; auto.
Qed.
Lemma NoDup_app_disj {A} (l1 l2 : list A) x : NoDup (l1 ++ l2) -> In x l1 -> ~ In x l2.
Proof.
  induction l1; cbn; intros H Hi H2; [tauto|]. inversion H; subst.
  destruct Hi as [->|Hi]; [apply H3, in_or_app; auto|eapply IHl1; eauto].
Qed.
Lemma NoDup_app_intro {A} (l1 l2 : list A) : NoDup l1 -> NoDup l2 -> (forall x, In x l1 -> ~ In x l2) -> NoDup (l1 ++ l2).
Proof.
  induction l1; cbn; intros H1 H2 Hd; auto. inversion H1; subst. constructor.
  - intros Hin. apply in_app_or in Hin as [Hin|Hin]; auto. eapply Hd; eauto.
  - apply IHl1; auto.
Qed.

Lemma rinv_step s o : rinv s -> force_pos o -> rinv (fst (r_step s o)).
Proof.
  intros I Hf. destruct I. destruct o as [now amt|now amt|now gid|now amt]; cbn.
  - destruct (amt <=? 0) eqn:E1; [constructor; auto|].
    destruct (amt >? r_cap s) eqn:E2; [constructor; auto|].
    destruct (r_avail s >=? amt) eqn:E3; cbn.
    + constructor; cbn; auto; try lia.
      * apply Forall_app; split; auto. repeat constructor; cbn; lia.
      * apply Forall_lt_mono; auto.
      * apply Forall_app; split; [apply Forall_lt_mono; auto|repeat constructor; cbn; lia].
      * rewrite map_app; cbn. rewrite app_assoc. apply NoDup_app_intro; auto.
        { repeat constructor; auto. }
        intros x Hx [<-|[]]. apply in_app_or in Hx as [Hx|Hx].
        -- apply in_map_iff in Hx as (w & Hw & Hin). rewrite Forall_forall in ri_wid0. specialize (ri_wid0 _ Hin). lia.
        -- apply in_map_iff in Hx as (w & Hw & Hin). rewrite Forall_forall in ri_hid0. specialize (ri_hid0 _ Hin). lia.
      * destruct (r_waiters s); auto. lia.
    + constructor; cbn; auto; try lia.
      * apply Forall_app; split; auto. repeat constructor; unfold wamt; cbn; lia.
      * apply Forall_app; split; [apply Forall_lt_mono; auto|repeat constructor; unfold wid; cbn; lia].
      * apply Forall_lt_mono; auto.
      * rewrite map_app; cbn. apply ssorted_app_last; auto. apply Forall_map. exact ri_wid0.
      * rewrite map_app; cbn. rewrite <- app_assoc. cbn.
        eapply Permutation_NoDup; [apply Permutation_middle|]. constructor; auto.
        intros Hx. apply in_app_or in Hx as [Hx|Hx].
        -- apply in_map_iff in Hx as (w & Hw & Hin). rewrite Forall_forall in ri_wid0. specialize (ri_wid0 _ Hin). unfold wid in *; cbn in *; lia.
        -- apply in_map_iff in Hx as (w & Hw & Hin). rewrite Forall_forall in ri_hid0. specialize (ri_hid0 _ Hin). unfold wid in *; cbn in *; lia.
      * destruct (r_waiters s); cbn; auto. unfold wamt; cbn; lia.
  - destruct (amt <=? 0) eqn:E1; [constructor; auto|].
    destruct (amt >? r_cap s) eqn:E2; [constructor; auto|].
    destruct (r_avail s >=? amt) eqn:E3; cbn; [|constructor; auto].
    constructor; cbn; auto; try lia.
    + apply Forall_app; split; auto. repeat constructor; cbn; lia.
    + apply Forall_lt_mono; auto.
    + apply Forall_app; split; [apply Forall_lt_mono; auto|repeat constructor; cbn; lia].
    + rewrite map_app; cbn. rewrite app_assoc. apply NoDup_app_intro; auto.
      { repeat constructor; auto. }
      intros x Hx [<-|[]]. apply in_app_or in Hx as [Hx|Hx].
      * apply in_map_iff in Hx as (w & Hw & Hin). rewrite Forall_forall in ri_wid0. specialize (ri_wid0 _ Hin). lia.
      * apply in_map_iff in Hx as (w & Hw & Hin). rewrite Forall_forall in ri_hid0. specialize (ri_hid0 _ Hin). lia.
    + destruct (r_waiters s); auto. lia.
  - destruct (held_find gid (r_held s)) as [amt|] eqn:F; [|constructor; auto].
    match goal with |- rinv (fst ?x) => destruct x as [s' out] eqn:R end. cbn.
    eapply rinv_do_release in R; eauto; cbn; auto.
    + apply held_find_In in F. rewrite Forall_forall in ri_hamt0. apply (ri_hamt0 _ F).
    + apply held_remove_Forall; auto.
    + apply held_remove_Forall; auto.
    + apply NoDup_app_intro.
      * eapply NoDup_app_l; eauto.
      * apply held_remove_nodup. eapply NoDup_app_r; eauto.
      * intros x Hx Hin. eapply NoDup_app_disj; eauto.
        apply in_map_iff in Hin as (g & <- & Hin). apply held_remove_incl in Hin. apply in_map; auto.
  - match goal with |- rinv (fst ?x) => destruct x as [s' out] eqn:R end. cbn.
    eapply rinv_do_release in R; eauto.
Qed.

Lemma rinv_run ops : forall s, rinv s -> Forall force_pos ops -> rinv (r_run s ops).
Proof.
  induction ops as [|o r IH]; cbn; intros s I F; auto.
  inversion F; subst. apply IH; auto. apply rinv_step; auto.
Qed.

(** ** Conservation (legitimate callers only: no [RForce]) *)
Definition conserved (s : rstate) : Prop := r_avail s + zsum (map snd (r_held s)) = r_cap s.

Lemma conserved_do_release s now amt s' out :
  r_avail s + amt + zsum (map snd (r_held s)) = r_cap s -> 0 <= zsum (map snd (r_held s)) ->
  r_do_release s now amt = (s', out) -> conserved s' /\ r_cap s' = r_cap s /\ out <> OErr.
Proof.
  intros Hc Hp H. unfold r_do_release in H.
  destruct (r_avail s + amt >? r_cap s) eqn:E; [lia|].
  destruct (r_wake now (r_avail s + amt) (r_waiters s)) as [[[a1 ws1] gs1] wt1] eqn:W.
  inversion H; subst; clear H.
  destruct (r_wake_spec _ _ _ _ _ _ _ W) as (pre & Hws & -> & -> & _ & _).
  unfold conserved; cbn. rewrite map_app, zsum_app, map_map. cbn.
  change (map (fun x => wamt x) pre) with (map wamt pre). repeat split; try lia. discriminate.
Qed.

Lemma conserved_step s o : rinv s -> conserved s -> is_force o = false ->
  conserved (fst (r_step s o)) /\ r_cap (fst (r_step s o)) = r_cap s.
Proof.
  intros I C Hf. unfold conserved in *. destruct o as [now amt|now amt|now gid|now amt]; cbn in *; try discriminate.
  - destruct (amt <=? 0); [auto|]. destruct (amt >? r_cap s); [auto|].
    destruct (r_avail s >=? amt); cbn; auto. rewrite map_app, zsum_app; cbn. split; lia.
  - destruct (amt <=? 0); [auto|]. destruct (amt >? r_cap s); [auto|].
    destruct (r_avail s >=? amt); cbn; auto. rewrite map_app, zsum_app; cbn. split; lia.
  - destruct (held_find gid (r_held s)) as [amt|] eqn:F; [|auto].
    match goal with |- context [fst ?x] => destruct x as [s' out] eqn:R end. cbn.
    pose proof (held_remove_sum _ _ _ F) as Hs.
    eapply conserved_do_release in R; cbn; [destruct R as (? & ? & ?); split; eauto| lia |].
    apply zsum_pos. apply Forall_map. apply held_remove_Forall. destruct I; auto.
Qed.

Lemma conserved_run ops : forall s, rinv s -> conserved s -> forallb is_force ops = false \/ True ->
  existsb is_force ops = false -> conserved (r_run s ops) /\ r_cap (r_run s ops) = r_cap s.
Proof.
  induction ops as [|o r IH]; cbn; intros s I C _ F; auto.
  apply orb_false_iff in F as [F1 F2].
  destruct (conserved_step s o I C F1) as [C' Hcap].
  assert (I' : rinv (fst (r_step s o))).
  { apply rinv_step; auto. destruct o; cbn in *; auto; discriminate. }
  destruct (IH _ I' C' (or_intror Logic.I) F2) as [? ?]. split; auto. congruence.
Qed.

(** ** Strict FIFO wake: a release grants exactly a prefix of the queue, and
    the queue is in arrival order (ids are arrival indices). *)
Lemma do_release_prefix s now amt s' woken :
  r_do_release s now amt = (s', OReleased woken) ->
  exists pre, r_waiters s = pre ++ r_waiters s' /\ woken = map wid pre /\
              r_held s' = r_held s ++ map wgrant pre.
Proof.
  unfold r_do_release. destruct (r_avail s + amt >? r_cap s); [discriminate|].
  destruct (r_wake now (r_avail s + amt) (r_waiters s)) as [[[a1 ws1] gs1] wt1] eqn:W.
  intros H; inversion H; subst; clear H.
  destruct (r_wake_spec _ _ _ _ _ _ _ W) as (pre & Hws & -> & _).
  exists pre. cbn. rewrite map_map. auto.
Qed.

Lemma step_release_prefix s o s' woken :
  r_step s o = (s', OReleased woken) ->
  exists pre, r_waiters s = pre ++ r_waiters s' /\ woken = map wid pre.
Proof.
  destruct o as [now amt|now amt|now gid|now amt]; cbn.
  - destruct (amt <=? 0); [discriminate|]. destruct (amt >? r_cap s); [discriminate|].
    destruct (r_avail s >=? amt); discriminate.
  - destruct (amt <=? 0); [discriminate|]. destruct (amt >? r_cap s); [discriminate|].
    destruct (r_avail s >=? amt); discriminate.
  - destruct (held_find gid (r_held s)); [|discriminate].
    intros H. apply do_release_prefix in H as (pre & H1 & H2 & _). exists pre; auto.
  - intros H. apply do_release_prefix in H as (pre & H1 & H2 & _). exists pre; auto.
Qed.

(** ** Each acquire is granted at most once *)
Definition granted_of (o : rout) : list Z :=
  match o with OGranted i => [i] | OReleased w => w | _ => [] end.
Definition grant_log (s : rstate) (ops : list rop) : list Z := concat (map granted_of (r_outs s ops)).

Lemma step_granted s o : rinv s ->
  let s' := fst (r_step s o) in let g := granted_of (snd (r_step s o)) in
  r_next s <= r_next s' /\
  (forall x, In x g -> In x (map wid (r_waiters s)) \/ (r_next s <= x < r_next s')) /\
  (forall x, In x (map wid (r_waiters s')) -> (In x (map wid (r_waiters s)) /\ ~ In x g) \/ (r_next s <= x < r_next s' /\ ~ In x g)) /\
  NoDup g.
Proof.
  intros I.
  assert (Hsame : let s' := s in let g := @nil Z in
    r_next s <= r_next s' /\
    (forall x, In x g -> In x (map wid (r_waiters s)) \/ (r_next s <= x < r_next s')) /\
    (forall x, In x (map wid (r_waiters s')) -> (In x (map wid (r_waiters s)) /\ ~ In x g) \/ (r_next s <= x < r_next s' /\ ~ In x g)) /\
    NoDup g).
  { cbn. split; [lia|]. split; [tauto|]. split; [tauto|constructor]. }
  assert (Hfresh : forall x, In x (map wid (r_waiters s)) -> x <> r_next s).
  { intros x Hx. destruct I. apply in_map_iff in Hx as (w & <- & Hin).
    rewrite Forall_forall in ri_wid0. specialize (ri_wid0 _ Hin). lia. }
  assert (Himm :
    r_next s <= r_next s + 1 /\
    (forall x, In x [r_next s] -> In x (map wid (r_waiters s)) \/ (r_next s <= x < r_next s + 1)) /\
    (forall x, In x (map wid (r_waiters s)) -> (In x (map wid (r_waiters s)) /\ ~ In x [r_next s]) \/ (r_next s <= x < r_next s + 1 /\ ~ In x [r_next s])) /\
    NoDup [r_next s]).
  { split; [lia|]. split; [intros x [<-|[]]; right; lia|]. split.
    - intros x Hx. left. split; auto. intros [<-|[]]. eapply Hfresh; eauto.
    - repeat constructor; auto. }
  assert (Hrel : forall s0 now amt s' out, r_waiters s0 = r_waiters s -> r_next s0 = r_next s ->
    r_do_release s0 now amt = (s', out) ->
    r_next s <= r_next s' /\
    (forall x, In x (granted_of out) -> In x (map wid (r_waiters s)) \/ (r_next s <= x < r_next s')) /\
    (forall x, In x (map wid (r_waiters s')) -> (In x (map wid (r_waiters s)) /\ ~ In x (granted_of out)) \/ (r_next s <= x < r_next s' /\ ~ In x (granted_of out))) /\
    NoDup (granted_of out)).
  { intros s0 now amt s' out Hw Hn R. unfold r_do_release in R.
    destruct (r_avail s0 + amt >? r_cap s0).
    - inversion R; subst; cbn. rewrite Hw, Hn. split; [lia|]. split; [tauto|]. split; [tauto|constructor].
    - destruct (r_wake now (r_avail s0 + amt) (r_waiters s0)) as [[[a1 ws1] gs1] wt1] eqn:W.
      inversion R; subst; clear R. destruct (r_wake_spec _ _ _ _ _ _ _ W) as (pre & Hws & -> & _).
      cbn. rewrite map_map. change (map (fun x => fst (wgrant x)) pre) with (map wid pre).
      rewrite Hn. rewrite <- Hw, Hws, map_app. destruct I. rewrite <- Hw, Hws, map_app in ri_nodup0.
      apply NoDup_app_l in ri_nodup0.
      split; [lia|]. split; [intros x Hx; left; apply in_or_app; auto|]. split.
      + intros x Hx. left. split; [apply in_or_app; auto|]. intros Hp. eapply NoDup_app_disj; eauto.
      + eapply NoDup_app_l; eauto. }
  destruct o as [now amt|now amt|now gid|now amt]; cbn.
  - destruct (amt <=? 0); [exact Hsame|]. destruct (amt >? r_cap s); [exact Hsame|].
    destruct (r_avail s >=? amt); cbn.
    + exact Himm.
    + split; [lia|]. split; [tauto|]. split; [|constructor].
      intros x Hx. rewrite map_app in Hx. apply in_app_or in Hx as [Hx|[<-|[]]]; [left; tauto|right].
      unfold wid; cbn. split; [lia|tauto].
  - destruct (amt <=? 0); [exact Hsame|]. destruct (amt >? r_cap s); [exact Hsame|].
    destruct (r_avail s >=? amt); cbn; [|exact Hsame].
    exact Himm.
  - destruct (held_find gid (r_held s)) as [amt|]; [|exact Hsame].
    match goal with |- context [r_do_release ?a ?b ?c] => destruct (r_do_release a b c) as [s' out] eqn:R end.
    cbn. refine (Hrel _ _ _ _ _ _ _ R); reflexivity.
  - match goal with |- context [r_do_release ?a ?b ?c] => destruct (r_do_release a b c) as [s' out] eqn:R end.
    cbn. refine (Hrel _ _ _ _ _ _ _ R); reflexivity.
Qed.

Lemma grant_log_nodup ops : forall s past, rinv s -> Forall force_pos ops ->
  NoDup past -> (forall x, In x past -> x < r_next s /\ ~ In x (map wid (r_waiters s))) ->
  NoDup (past ++ grant_log s ops).
Proof.
  induction ops as [|o r IH]; intros s past I F Hp Hd; unfold grant_log; cbn.
  - rewrite app_nil_r; auto.
  - inversion F; subst. fold (grant_log (fst (r_step s o)) r). rewrite app_assoc.
    pose proof (step_granted s o I) as (Hn & Hg & Hw & Hgd). cbn in *.
    apply IH; auto.
    + apply rinv_step; auto.
    + apply NoDup_app_intro; auto. intros x Hx Hx'. destruct (Hd _ Hx) as [Hlt Hnw].
      destruct (Hg _ Hx') as [Hin|Hr]; [tauto|lia].
    + intros x Hx. apply in_app_or in Hx as [Hx|Hx].
      * destruct (Hd _ Hx) as [Hlt Hnw]. split; [lia|]. intros Hin.
        destruct (Hw _ Hin) as [[? ?]|[? ?]]; [tauto|lia].
      * split.
        -- destruct (Hg _ Hx) as [Hin|Hr]; [|lia]. destruct I.
           apply in_map_iff in Hin as (w & <- & Hin). rewrite Forall_forall in ri_wid0. specialize (ri_wid0 _ Hin). lia.
        -- intros Hin. destruct (Hw _ Hin) as [[? ?]|[? ?]]; tauto.
Qed.

(** ** Releasing a released grant changes nothing *)
Lemma held_find_none gid h : ~ In gid (map fst h) -> held_find gid h = None.
Proof.
  induction h as [|[i a] r IH]; cbn; auto. intros H.
  destruct (i =? gid) eqn:E; [exfalso; apply H; left; lia|]. apply IH; tauto.
Qed.

Lemma release_idempotent s now now' gid : rinv s ->
  let s1 := fst (r_step s (RRelease now gid)) in
  r_step s1 (RRelease now' gid) = (s1, ONoop).
Proof.
  intros I. cbn. destruct (held_find gid (r_held s)) as [amt|] eqn:F.
  - match goal with |- context [r_do_release ?a ?b ?c] => destruct (r_do_release a b c) as [s' out] eqn:R end.
    cbn. assert (Hnf : held_find gid (r_held s') = None); [|rewrite Hnf; auto].
    apply held_find_none. destruct I.
    pose proof (held_remove_nodup gid (r_held s) (NoDup_app_r _ _ ri_nodup0)) as [_ Hni].
    specialize (Hni _ F).
    unfold r_do_release in R; cbn in R. destruct (r_avail s + amt >? r_cap s).
    + inversion R; subst; cbn. auto.
    + destruct (r_wake now (r_avail s + amt) (r_waiters s)) as [[[a1 ws1] gs1] wt1] eqn:W.
      inversion R; subst; cbn. destruct (r_wake_spec _ _ _ _ _ _ _ W) as (pre & Hws & -> & _).
      rewrite map_app, map_map; cbn. intros Hin. apply in_app_or in Hin as [Hin|Hin]; [tauto|].
      eapply NoDup_app_disj; [exact ri_nodup0| |].
      * rewrite Hws, map_app. apply in_or_app; left; exact Hin.
      * apply held_find_In in F. apply in_map_iff. exists (gid, amt); auto.
  - cbn. rewrite F. auto.
Qed.

(** ** Arrival order across *all* acquirers is NOT respected: a later acquire
    that fits is granted while an earlier, larger one is still queued. *)
Definition no_overtaking : Prop :=
  forall cap ops now amt i, 0 < cap -> Forall force_pos ops ->
    snd (r_step (r_run (r_init cap) ops) (RAcquire now amt)) = OGranted i ->
    r_waiters (r_run (r_init cap) ops) = [].

Lemma no_overtaking_refuted : ~ no_overtaking.
Proof.
  intros H.
  assert (E : r_waiters (r_run (r_init 3) [RAcquire 0 2; RAcquire 0 2]) = []).
  { apply (H 3 [RAcquire 0 2; RAcquire 0 2] 0 1 2); [lia|repeat constructor|reflexivity]. }
  vm_compute in E. discriminate E.
Qed.

(** ... but an acquire that needs at least as much as the head waiter never
    overtakes (in particular: unit amounts). *)
Lemma no_overtaking_partial s now amt w rest i : rinv s -> r_waiters s = w :: rest ->
  wamt w <= amt -> snd (r_step s (RAcquire now amt)) <> OGranted i.
Proof.
  intros I Hw Hle. destruct I. rewrite Hw in ri_head0. cbn.
  destruct (amt <=? 0); [discriminate|]. destruct (amt >? r_cap s); [discriminate|].
  destruct (r_avail s >=? amt) eqn:E; [lia|discriminate].
Qed.

Lemma r_cap_step s o : r_cap (fst (r_step s o)) = r_cap s.
Proof.
  destruct o as [now amt|now amt|now gid|now amt]; cbn.
  - destruct (amt <=? 0); auto. destruct (amt >? r_cap s); auto. destruct (r_avail s >=? amt); auto.
  - destruct (amt <=? 0); auto. destruct (amt >? r_cap s); auto. destruct (r_avail s >=? amt); auto.
  - destruct (held_find gid (r_held s)); auto. unfold r_do_release; cbn.
    destruct (r_avail s + z >? r_cap s); auto.
    destruct (r_wake now (r_avail s + z) (r_waiters s)) as [[[? ?] ?] ?]; auto.
  - unfold r_do_release. destruct (r_avail s + amt >? r_cap s); auto.
    destruct (r_wake now (r_avail s + amt) (r_waiters s)) as [[[? ?] ?] ?]; auto.
Qed.

Lemma r_cap_run ops : forall s, r_cap (r_run s ops) = r_cap s.
Proof. induction ops; cbn; intros; auto. rewrite IHops. apply r_cap_step. Qed.

(** ** Statements collected for Props.v *)
Lemma resource_bounds cap ops : 0 < cap -> Forall force_pos ops ->
  let s := r_run (r_init cap) ops in r_cap s = cap /\ 0 <= r_avail s <= cap.
Proof.
  intros Hc F. cbn. pose proof (rinv_run ops _ (rinv_init cap Hc) F) as I.
  pose proof (r_cap_run ops (r_init cap)) as C. cbn in C. destruct I. lia.
Qed.

Lemma resource_conservation cap ops : 0 < cap -> existsb is_force ops = false ->
  let s := r_run (r_init cap) ops in
  r_avail s + zsum (map snd (r_held s)) = cap /\ Forall (fun g => 0 < snd g) (r_held s) /\
  0 <= zsum (map snd (r_held s)) <= cap.
Proof.
  intros Hc F. cbn.
  assert (F' : Forall force_pos ops).
  { apply Forall_forall. intros o Ho. destruct o; cbn; auto.
    exfalso. assert (existsb is_force ops = true); [|congruence].
    apply existsb_exists. eexists; split; eauto. }
  pose proof (rinv_run ops _ (rinv_init cap Hc) F') as I.
  destruct (conserved_run ops (r_init cap) (rinv_init cap Hc)) as [C Hcap]; auto.
  { unfold conserved; cbn; lia. }
  unfold conserved in C. cbn in Hcap. destruct I. repeat split; auto; try lia.
Qed.

Lemma resource_fifo_wake cap ops o s' woken : 0 < cap -> Forall force_pos ops -> force_pos o ->
  let s := r_run (r_init cap) ops in
  r_step s o = (s', OReleased woken) ->
  StronglySorted Z.lt (map wid (r_waiters s)) /\
  (exists pre, r_waiters s = pre ++ r_waiters s' /\ woken = map wid pre) /\
  match r_waiters s' with [] => True | w :: _ => r_avail s' < wamt w end.
Proof.
  intros Hc F Fo s R. pose proof (rinv_run ops _ (rinv_init cap Hc) F) as I. fold s in I.
  split; [destruct I; auto|]. split; [eapply step_release_prefix; eauto|].
  pose proof (rinv_step s o I Fo) as I'. rewrite R in I'. destruct I'; auto.
Qed.

Lemma resource_no_stranding cap ops : 0 < cap -> Forall force_pos ops ->
  let s := r_run (r_init cap) ops in
  match r_waiters s with [] => True | w :: _ => r_avail s < wamt w end.
Proof. intros Hc F. cbn. destruct (rinv_run ops _ (rinv_init cap Hc) F); auto. Qed.

Lemma resource_at_most_once cap ops : 0 < cap -> Forall force_pos ops ->
  NoDup (grant_log (r_init cap) ops).
Proof.
  intros Hc F. apply (grant_log_nodup ops (r_init cap) [] (rinv_init cap Hc) F); [constructor|].
  intros x [].
Qed.

Lemma resource_release_idempotent cap ops now now' gid : 0 < cap -> Forall force_pos ops ->
  let s1 := fst (r_step (r_run (r_init cap) ops) (RRelease now gid)) in
  r_step s1 (RRelease now' gid) = (s1, ONoop).
Proof. intros Hc F. apply release_idempotent. apply rinv_run; auto. apply rinv_init; auto. Qed.

Lemma resource_no_overtaking_partial cap ops now amt w rest i : 0 < cap -> Forall force_pos ops ->
  let s := r_run (r_init cap) ops in
  r_waiters s = w :: rest -> wamt w <= amt -> snd (r_step s (RAcquire now amt)) <> OGranted i.
Proof. intros Hc F s. apply no_overtaking_partial. apply rinv_run; auto. apply rinv_init; auto. Qed.
