(** C09 — tie between components/server/concurrency.py and the limiter model
    [c_step] of C09/Model.v, through the REGENERATED translation
    [Gen/ConcurrencyGen.v] (py2coq).  [lobj] is the code object of a limiter
    state (its kind decides the class); every operation of the translated
    class is the model's step, with the model's result (a ValueError is
    [CErr]; set_limit / scale_* exist on DynamicConcurrency only). *)
From HS Require Import Base.Prelude Base.PyLib C09.Model C09.Limits Gen.ConcurrencyGen.
Local Open Scope Z_scope.

Inductive lobj :=
| LFixed (c : FixedConcurrency)
| LDyn (c : DynamicConcurrency)
| LWeighted (c : WeightedConcurrency).

Definition st_of (c : lobj) : cstate :=
  match c with
  | LFixed c => {| c_kind := KFixed; c_limit := FixedConcurrency__max_concurrent c; c_active := FixedConcurrency__active c;
                   c_min := 1; c_max := None |}
  | LDyn c => {| c_kind := KDynamic; c_limit := DynamicConcurrency__current_limit c; c_active := DynamicConcurrency__active c;
                 c_min := DynamicConcurrency__min_limit c; c_max := DynamicConcurrency__max_limit c |}
  | LWeighted c => {| c_kind := KWeighted; c_limit := WeightedConcurrency__total_capacity c;
                      c_active := WeightedConcurrency__used_capacity c; c_min := 1; c_max := None |}
  end.

Definition b2r (b : bool) : cres := if b then CTrue else CFalse.

Definition code_c_step (c : lobj) (o : cop) : lobj * cres :=
  match c, o with
  | LFixed c, CAcquire w => let '(c', r) := FixedConcurrency_acquire c w in (LFixed c', b2r r)
  | LFixed c, CRelease w => (LFixed (fst (FixedConcurrency_release c w)), CNone)
  | LFixed c, CHas w => (LFixed c, b2r (FixedConcurrency_has_capacity c w))
  | LDyn c, CAcquire w => let '(c', r) := DynamicConcurrency_acquire c w in (LDyn c', b2r r)
  | LDyn c, CRelease w => (LDyn (fst (DynamicConcurrency_release c w)), CNone)
  | LDyn c, CHas w => (LDyn c, b2r (DynamicConcurrency_has_capacity c w))
  | LDyn c, CSetLimit n => (LDyn (fst (DynamicConcurrency_set_limit c n)), CNone)
  | LDyn c, CScaleUp n => (LDyn (fst (DynamicConcurrency_scale_up c n)), CNone)
  | LDyn c, CScaleDown n => (LDyn (fst (DynamicConcurrency_scale_down c n)), CNone)
  | LWeighted c, CAcquire w =>
      match WeightedConcurrency_acquire c w with Some (c', r) => (LWeighted c', b2r r) | None => (LWeighted c, CErr) end
  | LWeighted c, CRelease w =>
      match WeightedConcurrency_release c w with Some (c', _) => (LWeighted c', CNone) | None => (LWeighted c, CErr) end
  | LWeighted c, CHas w => (LWeighted c, b2r (WeightedConcurrency_has_capacity c w))
  | c, _ => (c, CErr)               (* AttributeError: no such method on this class *)
  end.

Fixpoint code_c_run (c : lobj) (ops : list cop) : lobj :=
  match ops with [] => c | o :: r => code_c_run (fst (code_c_step c o)) r end.

Ltac lim_close :=
  cbn; tie_split; cbn; try reflexivity; try lia;
  try (f_equal; first [reflexivity | lia | (f_equal; lia)]).

Lemma tie_c_step c o :
  st_of (fst (code_c_step c o)) = fst (c_step (st_of c) o) /\ snd (code_c_step c o) = snd (c_step (st_of c) o).
Proof.
  destruct c as [[mx a]|[cur mn mx a]|[t u]], o as [w|w|w|n|n|n];
    unfold code_c_step, st_of, c_step, c_with, c_clamp,
      FixedConcurrency_acquire, FixedConcurrency_release, FixedConcurrency_has_capacity,
      DynamicConcurrency_acquire, DynamicConcurrency_release, DynamicConcurrency_has_capacity,
      DynamicConcurrency_scale_up, DynamicConcurrency_scale_down, DynamicConcurrency_set_limit,
      WeightedConcurrency_acquire, WeightedConcurrency_release, WeightedConcurrency_has_capacity, b2r;
    cbn; try (destruct mx as [x|]); cbn; split; lim_close.
Qed.

Lemma tie_c_reads c :
  match c with
  | LFixed x => FixedConcurrency_active x = c_active (st_of c) /\ FixedConcurrency_limit x = c_limit (st_of c)
                /\ FixedConcurrency_available x = c_available (st_of c)
  | LDyn x => DynamicConcurrency_active x = c_active (st_of c) /\ DynamicConcurrency_limit x = c_limit (st_of c)
              /\ DynamicConcurrency_available x = c_available (st_of c)
  | LWeighted x => WeightedConcurrency_active x = c_active (st_of c) /\ WeightedConcurrency_limit x = c_limit (st_of c)
                   /\ WeightedConcurrency_available x = c_available (st_of c)
  end.
Proof. destruct c; repeat split. Qed.

Lemma tie_c_run ops : forall c, st_of (code_c_run c ops) = c_run (st_of c) ops.
Proof.
  induction ops as [|o ops IH]; intros c; [reflexivity|]. cbn [code_c_run c_run].
  rewrite IH. f_equal. apply tie_c_step.
Qed.

(** The limiters AS TRANSLATED never exceed their limit: FixedConcurrency(limit) and
    WeightedConcurrency(limit) created empty keep 0 <= in use <= limit for
    every operation sequence with any weights, and the limit never changes. *)
Theorem code_limiter_static_bound : forall limit ops, 1 <= limit ->
  (let s := st_of (code_c_run (LFixed (mkFixedConcurrency limit 0)) ops) in c_limit s = limit /\ 0 <= c_active s <= limit)
  /\ (let s := st_of (code_c_run (LWeighted (mkWeightedConcurrency limit 0)) ops) in c_limit s = limit /\ 0 <= c_active s <= limit).
Proof.
  intros limit ops Hl. split; rewrite tie_c_run.
  - apply (limiter_static_bound KFixed limit ops); [discriminate|exact Hl].
  - apply (limiter_static_bound KWeighted limit ops); [discriminate|exact Hl].
Qed.

(** ... and a successful acquire of the translated DynamicConcurrency never
    takes the count above the limit in force, whatever the limit history. *)
Theorem code_limiter_dynamic_acquire : forall c w,
  snd (code_c_step (LDyn c) (CAcquire w)) = CTrue ->
  c_active (st_of (fst (code_c_step (LDyn c) (CAcquire w)))) <= c_limit (st_of (LDyn c)).
Proof.
  intros c w H. destruct (tie_c_step (LDyn c) (CAcquire w)) as [T1 T2]. rewrite T1. rewrite T2 in H.
  apply limiter_dynamic_acquire; [reflexivity|exact H].
Qed.
