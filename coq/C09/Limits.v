(** C09 — proofs about the concurrency limiters. *)
From HS Require Import Base.Prelude C09.Model.
Local Open Scope Z_scope.

Definition is_setlimit (o : cop) : bool :=
  match o with CSetLimit _ | CScaleUp _ | CScaleDown _ => true | _ => false end.

Lemma c_kind_step s o : c_kind (fst (c_step s o)) = c_kind s.
Proof.
  unfold c_step. destruct (c_kind s) eqn:K; destruct o; cbn;
  repeat match goal with |- context [if ?c then _ else _] => destruct c end; cbn; auto.
Qed.

(** Fixed and weighted limiters: the limit never changes and 0 <= active <= limit. *)
Lemma c_static_step s o : c_kind s <> KDynamic -> 0 <= c_active s <= c_limit s ->
  let s' := fst (c_step s o) in c_limit s' = c_limit s /\ 0 <= c_active s' <= c_limit s'.
Proof.
  intros K I. unfold c_step. destruct (c_kind s) eqn:Ek; try congruence; destruct o; cbn;
  repeat match goal with |- context [if ?c then _ else _] => destruct c eqn:? end; cbn; lia.
Qed.

Lemma c_static_run ops : forall s, c_kind s <> KDynamic -> 0 <= c_active s <= c_limit s ->
  c_limit (c_run s ops) = c_limit s /\ 0 <= c_active (c_run s ops) <= c_limit s.
Proof.
  induction ops as [|o r IH]; cbn; intros s K I; [lia|].
  destruct (c_static_step s o K I) as [Hl Ha]. cbn in *.
  destruct (IH (fst (c_step s o))) as [H1 H2]; [rewrite c_kind_step; auto|lia|]. lia.
Qed.

Lemma limiter_static_bound k limit ops : k <> KDynamic -> 1 <= limit ->
  let s := c_run (c_init k limit 1 None) ops in c_limit s = limit /\ 0 <= c_active s <= limit.
Proof. intros K L. apply (c_static_run ops (c_init k limit 1 None)); cbn; auto; lia. Qed.

(** Dynamic limiter: the limit stays within [min, max]; active never goes
    negative; a successful acquire is within the limit of that moment; without
    limit changes active <= limit always. *)
Definition dyn_ok (s : cstate) : Prop :=
  1 <= c_min s /\ c_min s <= c_limit s /\ match c_max s with None => True | Some m => c_min s <= m /\ c_limit s <= m end.

Lemma c_dyn_step s o : c_kind s = KDynamic -> dyn_ok s -> 0 <= c_active s ->
  let s' := fst (c_step s o) in
  dyn_ok s' /\ 0 <= c_active s' /\
  (snd (c_step s o) = CTrue -> is_setlimit o = false -> forall w, o = CAcquire w -> c_active s' <= c_limit s') /\
  (is_setlimit o = false -> c_limit s' = c_limit s /\ (c_active s <= c_limit s -> c_active s' <= c_limit s')) /\
  c_active s' <= Z.max (c_active s) (c_limit s').
Proof.
  intros K (Hm & Hl & Hx) Ha. unfold c_step, dyn_ok, c_clamp. rewrite K.
  destruct o; cbn; destruct (c_max s) as [m|] eqn:Em; cbn;
  repeat match goal with |- context [if ?c then _ else _] => destruct c eqn:? end; cbn; rewrite ?Em;
  repeat split; intros; try discriminate; try lia.
Qed.

Lemma limiter_dynamic limit mn mx ops : 1 <= mn -> mn <= limit ->
  match mx with None => True | Some m => mn <= m /\ limit <= m end ->
  let s := c_run (c_init KDynamic limit mn mx) ops in
  mn <= c_limit s /\ match mx with None => True | Some m => c_limit s <= m end /\ 0 <= c_active s /\
  (existsb is_setlimit ops = false -> c_limit s = limit /\ c_active s <= limit).
Proof.
  intros Hm Hl Hx.
  assert (G : forall ops s, c_kind s = KDynamic -> dyn_ok s -> 0 <= c_active s ->
    c_min s = mn -> c_max s = mx ->
    let s' := c_run s ops in
    mn <= c_limit s' /\ match mx with None => True | Some m => c_limit s' <= m end /\ 0 <= c_active s' /\
    (existsb is_setlimit ops = false -> c_active s <= c_limit s -> c_limit s' = c_limit s /\ c_active s' <= c_limit s)).
  { clear. induction ops as [|o r IH]; cbn; intros s K D A Emn Emx.
    - destruct D as (? & ? & D). rewrite Emx in D. repeat split; try lia. destruct mx; tauto.
    - destruct (c_dyn_step s o K D A) as (D' & A' & _ & Hs & _). cbn in *.
      assert (K' : c_kind (fst (c_step s o)) = KDynamic) by (rewrite c_kind_step; auto).
      assert (E1 : c_min (fst (c_step s o)) = mn).
      { rewrite <- Emn. unfold c_step. rewrite K. destruct o; cbn;
        repeat match goal with |- context [if ?c then _ else _] => destruct c end; auto. }
      assert (E2 : c_max (fst (c_step s o)) = mx).
      { rewrite <- Emx. unfold c_step. rewrite K. destruct o; cbn;
        repeat match goal with |- context [if ?c then _ else _] => destruct c end; auto. }
      destruct (IH _ K' D' A' E1 E2) as (H1 & H2 & H3 & H4).
      split; [auto|]. split; [auto|]. split; [auto|].
      intros F Hal. apply orb_false_iff in F as [F1 F2]. destruct (Hs F1) as [Hl' Hle].
      destruct (H4 F2 (Hle Hal)). lia. }
  intros s. destruct (G ops (c_init KDynamic limit mn mx)) as (H1 & H2 & H3 & H4); cbn; auto; try lia.
  { unfold dyn_ok; cbn. repeat split; auto. }
  split; [auto|]. split; [auto|]. split; [auto|].
  intros F. destruct (H4 F); [cbn; lia|]. cbn in *. auto.
Qed.

(** A successful acquire never exceeds the limit in force at that moment
    (scale-down below active is not an over-admission). *)
Lemma limiter_dynamic_acquire s w : c_kind s = KDynamic ->
  snd (c_step s (CAcquire w)) = CTrue -> c_active (fst (c_step s (CAcquire w))) <= c_limit s.
Proof.
  intros K. unfold c_step. rewrite K. destruct (c_active s >=? c_limit s) eqn:E; cbn; [discriminate|lia].
Qed.
