(** C09 — proofs about the Barrier model. *)
From HS Require Import Base.Prelude C09.Model.
Local Open Scope Z_scope.

(** Fewer than [parties] processes are ever blocked at the barrier. *)
Definition br_inv (s : brstate) : Prop := Z.of_nat (length (br_waiters s)) < Z.max 1 (br_parties s).

Lemma br_parties_step s o : br_parties (fst (br_step s o)) = br_parties s.
Proof.
  destruct o as [c now|c now| |]; cbn; auto.
  - destruct (br_broken s); auto. destruct (Z.of_nat (length (br_waiters s)) + 1 >=? br_parties s); auto.
  - destruct (assoc_find c (br_released s)); auto.
Qed.

Lemma br_inv_step s o : br_inv s -> br_inv (fst (br_step s o)).
Proof.
  unfold br_inv. intros I. destruct o as [c now|c now| |]; cbn; try lia.
  - destruct (br_broken s); auto.
    destruct (Z.of_nat (length (br_waiters s)) + 1 >=? br_parties s) eqn:E; cbn; [lia|].
    rewrite app_length; cbn. lia.
  - destruct (assoc_find c (br_released s)); cbn; auto.
Qed.

Lemma br_inv_run ops : forall s, br_inv s -> br_inv (br_run s ops) /\ br_parties (br_run s ops) = br_parties s.
Proof.
  induction ops as [|o r IH]; cbn; intros s I; auto.
  destruct (IH _ (br_inv_step s o I)) as [H1 H2]. split; auto. rewrite H2. apply br_parties_step.
Qed.

Lemma barrier_waiting_bound parties ops : 1 <= parties ->
  Z.of_nat (length (br_waiters (br_run (br_init parties) ops))) < parties.
Proof.
  intros H. destruct (br_inv_run ops (br_init parties)) as [I P]; [unfold br_inv; cbn; lia|].
  unfold br_inv in I. rewrite P in I. cbn in I. lia.
Qed.

(** The party that completes the group releases every waiter, in arrival
    order, each exactly once, returns without waiting, and starts a new
    generation with an empty barrier. *)
Lemma barrier_trip s c now : br_broken s = false ->
  Z.of_nat (length (br_waiters s)) + 1 >= br_parties s ->
  let s' := fst (br_step s (BrWaitStart c now)) in
  snd (br_step s (BrWaitStart c now)) = BrTripped (map fst (br_waiters s)) /\
  br_waiters s' = [] /\ br_released s' = br_released s ++ br_waiters s /\ br_gen s' = br_gen s + 1.
Proof.
  intros B H. cbn. rewrite B. destruct (Z.of_nat (length (br_waiters s)) + 1 >=? br_parties s) eqn:E; [|lia].
  cbn. auto.
Qed.

(** A party that is not the last parks on a future (no zero-delay polling) and
    its resume after the release returns. *)
Lemma barrier_wait_is_parked s c now : br_broken s = false ->
  Z.of_nat (length (br_waiters s)) + 1 < br_parties s ->
  (exists i, snd (br_step s (BrWaitStart c now)) = BrParked i) /\
  (forall enq now', assoc_find c (br_released s) = Some enq -> snd (br_step s (BrWaitResume c now')) = BrReturned).
Proof.
  intros B H. cbn. rewrite B. destruct (Z.of_nat (length (br_waiters s)) + 1 >=? br_parties s) eqn:E; [lia|].
  cbn. split; [eexists; eauto|]. intros enq now' F. rewrite F. reflexivity.
Qed.
